/-
Helper lemmas for C03: the VM operations against the sequence view, and the correctness of the
algorithmic matcher (last alternative) against the declarative definition, by mutual structural
induction on patterns.
-/
import KotoVerif.Model.Match

namespace KotoVerif
namespace Match

variable {C : Cfg}

theorem apply_append (ρ : Env) (β₁ β₂ : Writes) : ρ.apply (β₁ ++ β₂) = (ρ.apply β₁).apply β₂ := by
  induction β₁ generalizing ρ with
  | nil => rfl
  | cons h t ih => cases h; simp [Env.apply, ih]

@[simp] theorem apply_nil (ρ : Env) : ρ.apply [] = ρ := rfl
@[simp] theorem apply_single (ρ : Env) (x : Name) (v : Val) : ρ.apply [(x, v)] = ρ.set x v := rfl

/-! ### index arithmetic -/

theorem sidx_nat (j n : Nat) : sidx (j : Int) n = j := by
  simp [sidx]
  omega

theorem sidx_neg (k n : Nat) (hk : 0 < k) : sidx (-(k : Int)) n = n - min k n := by
  have h : (-(k : Int)) < 0 := by omega
  simp [sidx]
  omega

theorem take_drop_self {α : Type} (l : List α) (k : Nat) : (l.drop k).take (l.length - k) = l.drop k := by
  apply List.take_of_length_le
  simp

/-! ### the VM operations on a value that has a sequence view -/

theorem noCont_take_drop (bs : List Nat) (i k : Nat) (h : noCont bs = true) :
    noCont ((bs.drop i).take k) = true := by
  simp only [noCont, List.all_eq_true] at *
  intro b hb
  exact h b (List.mem_of_mem_drop (List.mem_of_mem_take hb))

theorem strBounds_plain (bs : List Nat) (i j : Nat) (h : noCont bs = true) :
    plain (strBounds bs i j) = true := by
  unfold strBounds; split
  · simpa [plain] using noCont_take_drop bs i (j - i) h
  · rfl

theorem plainL_map_str (bs : List Nat) (l : List Nat) (h : noCont bs = true) :
    plainL (l.map (fun i => strBounds bs i (i + 1))) = true := by
  induction l with
  | nil => rfl
  | cons a t ih => simp [plainL, ih, strBounds_plain _ _ _ h]

theorem boundary_of_noCont (bs : List Nat) (i : Nat) (h : noCont bs = true) (hi : i ≤ bs.length) :
    boundary bs i = true := by
  unfold boundary
  by_cases he : i = bs.length
  · simp [he]
  · have hlt : i < bs.length := by omega
    simp only [noCont, List.all_eq_true] at h
    have := h bs[i] (List.getElem_mem hlt)
    simp [List.getElem?_eq_getElem hlt, this]

/-- on a string without continuation bytes every cut inside the string is valid -/
theorem strCut_ok (bs : List Nat) (i j : Nat) (h : noCont bs = true) (hij : i ≤ j) (hj : j ≤ bs.length) :
    strCut bs i j = .ok (strBounds bs i j) := by
  have hb : strBounds bs i j = .str ((bs.drop i).take (j - i)) := by
    simp [strBounds, hij, hj, boundary_of_noCont bs i h (by omega), boundary_of_noCont bs j h hj]
  simp [strCut, hb]

theorem plainL_map_pair (es : List (Val × Val)) (h : plainM es = true) :
    plainL (es.map pairOf) = true := by
  induction es with
  | nil => rfl
  | cons e t ih =>
    obtain ⟨k, v⟩ := e
    simp [plainM] at h
    simp [plainL, pairOf, plain, h, ih]

theorem view_plain {v : Val} {xs sl} (h : view v = some (xs, sl)) (hr : plain v = true) :
    plainL xs = true := by
  cases v with
  | tuple ys => simp [view] at h; obtain ⟨rfl, _⟩ := h; simpa [plain] using hr
  | list ys => simp [view] at h; obtain ⟨rfl, _⟩ := h; simpa [plain] using hr
  | str bs => simp [view] at h; obtain ⟨hnc, rfl, _⟩ := h; exact plainL_map_str _ _ hnc
  | map es => simp [view] at h; obtain ⟨rfl, _⟩ := h; exact plainL_map_pair _ (by simpa [plain] using hr)
  | _ => simp [view] at h

theorem plainL_append (xs ys : List Val) :
    plainL (xs ++ ys) = (plainL xs && plainL ys) := by
  induction xs with
  | nil => simp [plainL]
  | cons a t ih => simp [plainL, ih, Bool.and_assoc]

theorem plainL_take (xs : List Val) (k : Nat) (h : plainL xs = true) : plainL (xs.take k) = true := by
  have := plainL_append (xs.take k) (xs.drop k)
  rw [List.take_append_drop, h] at this
  simp at this; exact this.1

theorem plainL_drop (xs : List Val) (k : Nat) (h : plainL xs = true) : plainL (xs.drop k) = true := by
  have := plainL_append (xs.take k) (xs.drop k)
  rw [List.take_append_drop, h] at this
  simp at this; exact this.2

theorem view_none_size {v : Val} (h : view v = none) (hr : plain v = true) : vmSize v = none := by
  cases v <;> simp_all [view, vmSize, plain]

theorem view_size {v : Val} {xs sl} (h : view v = some (xs, sl)) : vmSize v = some xs.length := by
  cases v with
  | tuple ys => simp [view] at h; obtain ⟨rfl, _⟩ := h; rfl
  | list ys => simp [view] at h; obtain ⟨rfl, _⟩ := h; rfl
  | str bs => simp [view] at h; obtain ⟨_, rfl, _⟩ := h; simp [vmSize]
  | map es => simp [view] at h; obtain ⟨rfl, _⟩ := h; simp [vmSize]
  | _ => simp [view] at h

theorem view_index {v : Val} {xs sl} (h : view v = some (xs, sl)) (j : Nat) (hj : j < xs.length) :
    tempIndex v (j : Int) = .ok xs[j] := by
  cases v with
  | tuple ys => simp [view] at h; obtain ⟨rfl, _⟩ := h; simp [tempIndex, sidx_nat, hj]
  | list ys => simp [view] at h; obtain ⟨rfl, _⟩ := h; simp [tempIndex, sidx_nat, hj]
  | str bs =>
    simp [view] at h; obtain ⟨hnc, rfl, _⟩ := h
    simp at hj
    simp [tempIndex, sidx_nat, strCut_ok bs j (j + 1) hnc (by omega) (by omega)]
  | map es =>
    simp [view] at h; obtain ⟨rfl, _⟩ := h
    simp at hj
    simp [tempIndex, sidx_nat, hj]
  | _ => simp [view] at h

theorem view_index_neg {v : Val} {xs sl} (h : view v = some (xs, sl)) (k : Nat) (hk : 0 < k)
    (hkl : k ≤ xs.length) : tempIndex v (-(k : Int)) = .ok (xs[xs.length - k]'(by omega)) := by
  cases v with
  | tuple ys =>
    simp [view] at h; obtain ⟨rfl, _⟩ := h
    have : ys.length - k < ys.length := by omega
    simp [tempIndex, sidx_neg _ _ hk, Nat.min_eq_left hkl, this]
  | list ys =>
    simp [view] at h; obtain ⟨rfl, _⟩ := h
    have : ys.length - k < ys.length := by omega
    simp [tempIndex, sidx_neg _ _ hk, Nat.min_eq_left hkl, this]
  | str bs =>
    simp [view] at h; obtain ⟨hnc, rfl, _⟩ := h
    simp at hkl
    simp [tempIndex, sidx_neg _ _ hk, Nat.min_eq_left hkl,
      strCut_ok bs (bs.length - k) (bs.length - k + 1) hnc (by omega) (by omega)]
  | map es =>
    simp [view] at h; obtain ⟨rfl, _⟩ := h
    simp at hkl
    have : es.length - k < es.length := by omega
    simp [tempIndex, sidx_neg _ _ hk, Nat.min_eq_left hkl, this]
  | _ => simp [view] at h

theorem view_sliceFrom {v : Val} {xs sl} (h : view v = some (xs, sl)) (k : Nat) (hk : k ≤ xs.length) :
    sliceFrom C v (k : Int) = .ok (sl k xs.length) := by
  cases v with
  | tuple ys =>
    simp [view] at h; obtain ⟨rfl, rfl⟩ := h
    simp [sliceFrom, sidx_nat, hk, take_drop_self]
  | list ys =>
    simp [view] at h; obtain ⟨rfl, rfl⟩ := h
    simp [sliceFrom, sidx_nat, hk, take_drop_self]
  | str bs =>
    simp [view] at h; obtain ⟨hnc, rfl, rfl⟩ := h
    simp at hk
    simp [sliceFrom, sidx_nat, strCut_ok bs k bs.length hnc hk (by omega)]
  | map es =>
    simp [view] at h; obtain ⟨rfl, rfl⟩ := h
    simp at hk
    simp [sliceFrom, sidx_nat, hk, take_drop_self]
  | _ => simp [view] at h

theorem view_sliceTo {v : Val} {xs sl} (h : view v = some (xs, sl)) (k : Nat) (hk0 : 0 < k)
    (hk : k ≤ xs.length) : sliceTo C v (-(k : Int)) = .ok (sl 0 (xs.length - k)) := by
  cases v with
  | tuple ys =>
    simp [view] at h; obtain ⟨rfl, rfl⟩ := h
    simp [sliceTo, sidx_neg _ _ hk0, Nat.min_eq_left hk]
  | list ys =>
    simp [view] at h; obtain ⟨rfl, rfl⟩ := h
    simp [sliceTo, sidx_neg _ _ hk0, Nat.min_eq_left hk]
  | str bs =>
    simp [view] at h; obtain ⟨hnc, rfl, rfl⟩ := h
    simp at hk
    simp [sliceTo, sidx_neg _ _ hk0, Nat.min_eq_left hk, strCut_ok bs 0 (bs.length - k) hnc (by omega) (by omega)]
  | map es =>
    simp [view] at h; obtain ⟨rfl, rfl⟩ := h
    simp at hk
    simp [sliceTo, sidx_neg _ _ hk0, Nat.min_eq_left hk]
  | _ => simp [view] at h

/-! ### how a pattern reaches its value -/

/-- the access path `a` reads the value `v` out of temporaries (independent of the registers) -/
def Reads (a : Acc) (v : Val) : Prop :=
  a = .direct (.tmp v) ∨ ∃ c i, a = .elem (.tmp c) i ∧ tempIndex c i = .ok v

theorem Reads.fetch {a : Acc} {v : Val} (h : Reads a v) (ρ : Env) : fetch ρ a = .ok v := by
  rcases h with rfl | ⟨c, i, rfl, h⟩
  · rfl
  · simpa [Match.fetch, Src.rd] using h

theorem Reads.container {a : Acc} {v : Val} (h : Reads a v) (ρ : Env) :
    container ρ a = .ok (.tmp v) := by
  rcases h with rfl | ⟨c, i, rfl, h⟩
  · rfl
  · simp [Match.container, Src.rd, h, Except.map]

@[simp] theorem fin_true (il : Bool) (ρ : Env) : fin true il ρ = .ok ρ := by simp [fin]

/-! ### map entries -/

theorem mEntsSeq_spec (es : List Ent) (v : Val) (ρ : Env) :
    (∀ β, DeclEnts es v β → mEntsSeq C es (.tmp v) ρ = .ok (ρ.apply β)) ∧
    (∀ ρ', mEntsSeq C es (.tmp v) ρ = .ok ρ' → ∃ β, DeclEnts es v β ∧ ρ' = ρ.apply β) ∧
    (∀ ρ', mEntsSeq C es (.tmp v) ρ ≠ .done ρ') := by
  induction es generalizing ρ with
  | nil => simp [mEntsSeq, DeclEnts]
  | cons e es ih =>
    refine ⟨?_, ?_, ?_⟩
    · rintro β ⟨m, x, β', rfl, hl, ht, hd, rfl⟩
      simp only [mEntsSeq, Src.rd, tryAccess, hl, ht]
      cases hb : e.bind with
      | none => simpa using (ih ρ).1 β' hd
      | some n => simpa [Env.apply] using (ih (ρ.set n x)).1 β' hd
    · intro ρ' h
      cases v with
      | map m =>
        simp only [mEntsSeq, Src.rd, tryAccess] at h
        cases hl : lookupKey e.key m with
        | none => simp [hl] at h
        | some x =>
          simp only [hl] at h
          cases ht : tyFail e.ty x with
          | true => simp [ht] at h
          | false =>
            simp only [ht] at h
            cases hb : e.bind with
            | none =>
              simp only [hb] at h
              obtain ⟨β', hd, rfl⟩ := (ih ρ).2.1 ρ' (by simpa using h)
              exact ⟨β', ⟨m, x, β', rfl, hl, ht, hd, by simp [hb]⟩, rfl⟩
            | some n =>
              simp only [hb] at h
              obtain ⟨β', hd, rfl⟩ := (ih (ρ.set n x)).2.1 ρ' (by simpa using h)
              exact ⟨(n, x) :: β', ⟨m, x, β', rfl, hl, ht, hd, by simp [hb]⟩, rfl⟩
      | _ => cases hc : C.accessFalls <;> simp [mEntsSeq, Src.rd, tryAccess, hc] at h
    · intro ρ' h
      cases v with
      | map m =>
        simp only [mEntsSeq, Src.rd, tryAccess] at h
        cases hl : lookupKey e.key m with
        | none => simp [hl] at h
        | some x =>
          simp only [hl] at h
          cases ht : tyFail e.ty x with
          | true => simp [ht] at h
          | false =>
            simp only [ht] at h
            cases hb : e.bind with
            | none => simp only [hb] at h; exact (ih ρ).2.2 ρ' (by simpa using h)
            | some n => simp only [hb] at h; exact (ih (ρ.set n x)).2.2 ρ' (by simpa using h)
      | _ => cases hc : C.accessFalls <;> simp [mEntsSeq, Src.rd, tryAccess, hc] at h

theorem collect_some_iff : ∀ (es : List Ent) (v : Val) (β : Writes),
    collectEnts C es v = .ok (some β) ↔ DeclEnts es v β
  | [], v, β => by simp [collectEnts, DeclEnts, eq_comm]
  | e :: es, v, β => by
    have ih := fun β' => collect_some_iff es v β'
    cases v with
    | map m =>
      simp only [collectEnts, tryAccess, DeclEnts]
      constructor
      · intro h
        cases hl : lookupKey e.key m with
        | none => simp [hl] at h
        | some x =>
          simp only [hl] at h
          cases ht : tyFail e.ty x with
          | true => simp [ht] at h
          | false =>
            simp only [ht, Bool.false_eq_true, if_false] at h
            cases hc : collectEnts C es (.map m) with
            | error er => simp [hc] at h
            | ok o =>
              cases o with
              | none => simp [hc] at h
              | some β' =>
                simp only [hc, Except.ok.injEq, Option.some.injEq] at h
                exact ⟨m, x, β', rfl, hl, ht, (ih β').1 hc, h.symm⟩
      · rintro ⟨m', x, β', hm, hl, ht, hd, rfl⟩
        cases hm
        simp [hl, ht, (ih β').2 hd]
    | null => cases hc : C.accessFalls <;> simp [collectEnts, tryAccess, DeclEnts, hc]
    | bool b => cases hc : C.accessFalls <;> simp [collectEnts, tryAccess, DeclEnts, hc]
    | num n => simp [collectEnts, tryAccess, DeclEnts]
    | str bs => simp [collectEnts, tryAccess, DeclEnts]
    | range a b => simp [collectEnts, tryAccess, DeclEnts]
    | tuple xs => simp [collectEnts, tryAccess, DeclEnts]
    | list xs => simp [collectEnts, tryAccess, DeclEnts]

theorem mEnts_spec (es : List Ent) (v : Val) (ρ : Env) :
    (∀ β, DeclEnts es v β → mEnts C es (.tmp v) ρ = .ok (ρ.apply β)) ∧
    (∀ ρ', mEnts C es (.tmp v) ρ = .ok ρ' → ∃ β, DeclEnts es v β ∧ ρ' = ρ.apply β) ∧
    (∀ ρ', mEnts C es (.tmp v) ρ ≠ .done ρ') := by
  unfold mEnts
  split
  · simp only [Src.rd]
    refine ⟨?_, ?_, ?_⟩
    · intro β hd; rw [(collect_some_iff es v β).2 hd]
    · intro ρ' h
      cases hc : collectEnts C es v with
      | error er => rw [hc] at h; cases h
      | ok o =>
        cases o with
        | none => rw [hc] at h; cases h
        | some β =>
          rw [hc] at h; simp only [R.ok.injEq] at h
          exact ⟨β, (collect_some_iff es v β).1 hc, h.symm⟩
    · intro ρ' h
      cases hc : collectEnts C es v with
      | error er => rw [hc] at h; cases h
      | ok o => cases o <;> (rw [hc] at h; cases h)
  · exact mEntsSeq_spec es v ρ

/-! ### the correctness statement (last alternative) -/

def Spec (F : FloatOps) (C : Cfg) (p : Pat) : Prop :=
  ∀ (il : Bool) (a : Acc) (ρ : Env) (v : Val), Reads a v → plain v = true →
    (∀ β, Decl F p v β → mPat F C true p il a ρ = .ok (ρ.apply β)) ∧
    (∀ ρ', mPat F C true p il a ρ = .ok ρ' → ∃ β, Decl F p v β ∧ ρ' = ρ.apply β) ∧
    (∀ ρ', mPat F C true p il a ρ ≠ .done ρ')

def SpecL (F : FloatOps) (C : Cfg) (ps : List Pat) : Prop :=
  ∀ (c : Val) (i : Int) (lf : Bool) (ρ : Env) (ys : List Val), ys.length = ps.length →
    (∀ j (h : j < ys.length), tempIndex c (i + (j : Int)) = .ok ys[j]) → plainL ys = true →
    (∀ β, DeclAll F ps ys β → mPats F C true ps (.tmp c) i lf ρ = .ok (ρ.apply β)) ∧
    (∀ ρ', mPats F C true ps (.tmp c) i lf ρ = .ok ρ' → ∃ β, DeclAll F ps ys β ∧ ρ' = ρ.apply β) ∧
    (∀ ρ', mPats F C true ps (.tmp c) i lf ρ ≠ .done ρ')

theorem DeclAll_length {F : FloatOps} : ∀ (ps : List Pat) (ys : List Val) (β : Writes),
    DeclAll F ps ys β → ys.length = ps.length
  | [], ys, β, h => by simp [DeclAll] at h; simp [h.1]
  | p :: ps, ys, β, h => by
    simp only [DeclAll] at h
    obtain ⟨y, ys', β₁, β₂, rfl, _, h2, _⟩ := h
    simp [DeclAll_length ps ys' β₂ h2]

theorem spec_lit (F : FloatOps) (l : Lit) : Spec F C (.lit l) := by
  intro il a ρ v hr _
  simp only [mPat, hr.fetch, Decl]
  cases h : litEq F l v <;> simp

theorem spec_id (F : FloatOps) (x : Name) (ty : Option Ty) : Spec F C (.id x ty) := by
  intro il a ρ v hr _
  simp only [mPat, hr.fetch, Decl]
  cases h : tyFail ty v <;> simp

theorem spec_wild (F : FloatOps) (ty : Option Ty) : Spec F C (.wild ty) := by
  intro il a ρ v hr _
  cases ty with
  | none => simp [mPat, Decl, tyFail]
  | some t =>
    simp only [mPat, hr.fetch, Decl, tyFail]
    cases h : tyOk t v <;> simp

theorem spec_map (F : FloatOps) (es : List Ent) (ty : Option Ty) : Spec F C (.map es ty) := by
  intro il a ρ v hr _
  have hm := mEnts_spec (C := C) es v ρ
  simp only [mPat, hr.container, Decl, Src.rd]
  by_cases h : tyFail ty v = true
  · simp [h]
  · have h' : tyFail ty v = false := by simpa using h
    simp only [h', Bool.false_eq_true, if_false, true_and]
    refine ⟨?_, ?_, ?_⟩
    · intro β hd; rw [hm.1 β hd]; simp
    · intro ρ' h'
      cases hr' : mEnts C es (.tmp v) ρ with
      | ok ρ1 =>
        rw [hr'] at h'; simp at h'; subst h'
        exact hm.2.1 _ hr'
      | done ρ1 => exact absurd hr' (hm.2.2 _)
      | fail ρ1 => rw [hr'] at h'; simp at h'
      | err e => rw [hr'] at h'; simp at h'
    · intro ρ' h'
      cases hr' : mEnts C es (.tmp v) ρ with
      | ok ρ1 => rw [hr'] at h'; simp at h'
      | done ρ1 => exact absurd hr' (hm.2.2 _)
      | fail ρ1 => rw [hr'] at h'; simp at h'
      | err e => rw [hr'] at h'; simp at h'

theorem specL_nil (F : FloatOps) : SpecL F C [] := by
  intro c i lf ρ ys hlen _ _
  have : ys = [] := by simpa using hlen
  subst this
  simp [mPats, DeclAll]

theorem specL_cons (F : FloatOps) (p : Pat) (ps : List Pat) (hp : Spec F C p) (hps : SpecL F C ps) :
    SpecL F C (p :: ps) := by
  intro c i lf ρ ys hlen hidx hnr
  cases ys with
  | nil => simp at hlen
  | cons y ys' =>
    have hy : Reads (.elem (.tmp c) i) y := by
      have h0 := hidx 0 (by simp)
      rw [List.getElem_cons_zero] at h0
      exact Or.inr ⟨c, i, rfl, by simpa using h0⟩
    simp only [plainL, Bool.and_eq_true] at hnr
    have hlen' : ys'.length = ps.length := by simpa using hlen
    have hidx' : ∀ j (h : j < ys'.length), tempIndex c (i + 1 + (j : Int)) = .ok ys'[j] := by
      intro j h
      have := hidx (j + 1) (by simp; omega)
      simp only [List.getElem_cons_succ] at this
      rw [← this]; congr 1; push_cast; omega
    have sp := hp (lf && ps.isEmpty) (.elem (.tmp c) i) ρ y hy hnr.1
    refine ⟨?_, ?_, ?_⟩
    · intro β hd
      simp only [DeclAll] at hd
      obtain ⟨y0, ys0, β₁, β₂, heq, h1, h2, rfl⟩ := hd
      simp only [List.cons.injEq] at heq
      obtain ⟨rfl, rfl⟩ := heq
      simp only [mPats, sp.1 β₁ h1]
      rw [(hps c (i + 1) lf (ρ.apply β₁) ys' hlen' hidx' hnr.2).1 β₂ h2, apply_append]
    · intro ρ' h
      simp only [mPats] at h
      cases hr : mPat F C true p (lf && ps.isEmpty) (.elem (.tmp c) i) ρ with
      | ok ρ1 =>
        rw [hr] at h; simp only at h
        obtain ⟨β₁, h1, rfl⟩ := sp.2.1 ρ1 hr
        obtain ⟨β₂, h2, rfl⟩ := (hps c (i + 1) lf (ρ.apply β₁) ys' hlen' hidx' hnr.2).2.1 ρ' h
        exact ⟨β₁ ++ β₂, by simp only [DeclAll]; exact ⟨y, ys', β₁, β₂, rfl, h1, h2, rfl⟩, by rw [apply_append]⟩
      | done ρ1 => exact absurd hr (sp.2.2 _)
      | fail ρ1 => rw [hr] at h; simp at h
      | err e => rw [hr] at h; simp at h
    · intro ρ' h
      simp only [mPats] at h
      cases hr : mPat F C true p (lf && ps.isEmpty) (.elem (.tmp c) i) ρ with
      | ok ρ1 =>
        rw [hr] at h; simp only at h
        exact (hps c (i + 1) lf ρ1 ys' hlen' hidx' hnr.2).2.2 ρ' h
      | done ρ1 => exact absurd hr (sp.2.2 _)
      | fail ρ1 => rw [hr] at h; simp at h
      | err e => rw [hr] at h; simp at h

/-! ### parenthesised patterns: unfolding per shape -/

theorem mPat_exact (F : FloatOps) (la il : Bool) (pre : List Pat) (a : Acc) (ρ : Env) (s : Src)
    (hpre : pre ≠ []) (hc : container ρ a = .ok s) :
    mPat F C la (.seq pre none []) il a ρ =
      (match sizeCheck C (s.rd ρ) pre.length false with
       | .error e => .err e
       | .ok false => .fail ρ
       | .ok true => mPats F C la pre s 0 (if C.nestedLast then il else true) ρ) := by
  have : pre.length ≠ 0 := by simpa using hpre
  simp [mPat, hc, restCount, this]
  cases sizeCheck C (s.rd ρ) pre.length false with
  | error e => rfl
  | ok b => cases b <;> rfl

theorem mPat_trailing (F : FloatOps) (la il : Bool) (pre : List Pat) (r : Option Name) (a : Acc)
    (ρ : Env) (s : Src) (hc : container ρ a = .ok s) :
    mPat F C la (.seq pre (some r) []) il a ρ =
      (match sizeCheck C (s.rd ρ) (pre.length + 1) true with
       | .error e => .err e
       | .ok false => .fail ρ
       | .ok true =>
         match mPats F C la pre s 0 false ρ with
         | .ok ρ1 =>
           (match r with
            | none => fin la (if C.nestedLast then il else true) ρ1
            | some x =>
              match sliceFrom C (s.rd ρ1) pre.length with
              | .error e => .err e
              | .ok v => fin la (if C.nestedLast then il else true) (ρ1.set x v))
         | r' => r') := by
  simp [mPat, hc, restCount]
  cases sizeCheck C (s.rd ρ) (pre.length + 1) true with
  | error e => rfl
  | ok b =>
    cases b with
    | false => rfl
    | true =>
      simp only
      cases mPats F C la pre s 0 false ρ with
      | ok ρ1 =>
        cases r with
        | none => rfl
        | some x => simp only; cases sliceFrom C (s.rd ρ1) (pre.length : Int) <;> rfl
      | done _ => rfl
      | fail _ => rfl
      | err _ => rfl

theorem mPat_leading (F : FloatOps) (la il : Bool) (post : List Pat) (r : Option Name) (a : Acc)
    (ρ : Env) (s : Src) (hpost : post ≠ []) (hc : container ρ a = .ok s) :
    mPat F C la (.seq [] (some r) post) il a ρ =
      (match sizeCheck C (s.rd ρ) (1 + post.length) true with
       | .error e => .err e
       | .ok false => .fail ρ
       | .ok true =>
         match (match r with
                | none => Except.ok ρ
                | some x => (sliceTo C (s.rd ρ) (-(post.length : Int))).map (ρ.set x)) with
         | .error e => .err e
         | .ok ρ1 => mPats F C la post s (-(post.length : Int)) (if C.nestedLast then il else true) ρ1) := by
  have h1 : post.isEmpty = false := by cases post <;> simp_all
  simp [mPat, hc, restCount, h1]
  cases sizeCheck C (s.rd ρ) (1 + post.length) true with
  | error e => rfl
  | ok b =>
    cases b with
    | false => rfl
    | true =>
      simp only
      cases r with
      | none => rfl
      | some x => simp only; cases sliceTo C (s.rd ρ) (-(post.length : Int)) <;> rfl

@[simp] theorem restWrites_none (v : Val) : restWrites none v = [] := rfl
@[simp] theorem restWrites_anon (v : Val) : restWrites (some none) v = [] := rfl
@[simp] theorem restWrites_named (x : Name) (v : Val) : restWrites (some (some x)) v = [(x, v)] := rfl

theorem DeclAll_nil_iff {F : FloatOps} {ys : List Val} {β : Writes} :
    DeclAll F [] ys β ↔ ys = [] ∧ β = [] := by simp [DeclAll]

theorem spec_exact (F : FloatOps) (pre : List Pat) (hpre : pre ≠ []) (hs : SpecL F C pre) :
    Spec F C (.seq pre none []) := by
  intro il a ρ v hr hnr
  rw [mPat_exact F true il pre a ρ (.tmp v) hpre (hr.container ρ)]
  simp only [Src.rd, Decl]
  cases hv : view v with
  | none =>
    simp [sizeCheck, view_none_size hv hnr]
  | some w =>
    obtain ⟨xs, sl⟩ := w
    simp only [sizeCheck, view_size hv, Bool.false_eq_true, if_false]
    have hidx : ∀ j (h : j < xs.length), tempIndex v ((0 : Int) + (j : Int)) = .ok xs[j] := by
      intro j h; simpa using view_index hv j h
    by_cases hl : xs.length = pre.length
    · have sp := hs v 0 (if C.nestedLast then il else true) ρ xs hl hidx (view_plain hv hnr)
      simp only [hl, beq_self_eq_true]
      refine ⟨?_, ?_, sp.2.2⟩
      · rintro β ⟨xs', sl', a', mid, b, β₁, β₂, hv', hx, hm, h1, h2, rfl⟩
        simp only [Option.some.injEq, Prod.mk.injEq] at hv'
        obtain ⟨rfl, rfl⟩ := hv'
        have := hm trivial; subst this
        rw [DeclAll_nil_iff] at h2
        obtain ⟨rfl, rfl⟩ := h2
        simp only [List.append_nil] at hx; subst hx
        simpa using sp.1 β₁ h1
      · intro ρ' h
        obtain ⟨β, hd, rfl⟩ := sp.2.1 ρ' h
        exact ⟨β, ⟨xs, sl, xs, [], [], β, [], rfl, by simp, fun _ => rfl, hd, by simp [DeclAll], by simp⟩, rfl⟩
    · have hb : (xs.length == pre.length) = false := by simpa using hl
      simp only [hb]
      refine ⟨?_, by simp, by simp⟩
      rintro β ⟨xs', sl', a', mid, b, β₁, β₂, hv', hx, hm, h1, h2, rfl⟩
      simp only [Option.some.injEq, Prod.mk.injEq] at hv'
      obtain ⟨rfl, rfl⟩ := hv'
      have := hm trivial; subst this
      rw [DeclAll_nil_iff] at h2
      obtain ⟨rfl, rfl⟩ := h2
      simp only [List.append_nil] at hx; subst hx
      exact absurd (DeclAll_length _ _ _ h1) hl

theorem spec_trailing (F : FloatOps) (pre : List Pat) (r : Option Name) (hs : SpecL F C pre) :
    Spec F C (.seq pre (some r) []) := by
  intro il a ρ v hr hnr
  rw [mPat_trailing F true il pre r a ρ (.tmp v) (hr.container ρ)]
  simp only [Src.rd, Decl]
  cases hv : view v with
  | none => cases hc : C.sizeNullJumps <;> simp [sizeCheck, view_none_size hv hnr, hc]
  | some w =>
    obtain ⟨xs, sl⟩ := w
    simp only [sizeCheck, view_size hv, if_true, Nat.add_sub_cancel]
    by_cases hl : pre.length ≤ xs.length
    · have hd : decide (pre.length ≤ xs.length) = true := by simpa using hl
      simp only [hd]
      have hlen : (xs.take pre.length).length = pre.length := by simp; omega
      have hidx : ∀ j (h : j < (xs.take pre.length).length),
          tempIndex v ((0 : Int) + (j : Int)) = .ok (xs.take pre.length)[j] := by
        intro j h
        have hj : j < xs.length := by simp at h; omega
        simpa [List.getElem_take] using view_index hv j hj
      have sp := hs v 0 false ρ (xs.take pre.length) hlen hidx (plainL_take _ _ (view_plain hv hnr))
      have hsl := view_sliceFrom (C := C) hv pre.length hl
      refine ⟨?_, ?_, ?_⟩
      · rintro β ⟨xs', sl', a', mid, b, β₁, β₂, hv', hx, _, h1, h2, rfl⟩
        simp only [Option.some.injEq, Prod.mk.injEq] at hv'
        obtain ⟨rfl, rfl⟩ := hv'
        rw [DeclAll_nil_iff] at h2
        obtain ⟨rfl, rfl⟩ := h2
        have ha := DeclAll_length _ _ _ h1
        simp only [List.append_nil] at hx
        have hta : xs.take pre.length = a' := by rw [hx, ← ha]; simp
        have hlen2 : a'.length + mid.length = xs.length := by rw [hx]; simp
        rw [hta] at sp
        rw [sp.1 β₁ h1]
        cases r with
        | none => simp
        | some x => simp [hsl, apply_append, ha, ← hlen2]
      · intro ρ' h
        cases hm : mPats F C true pre (.tmp v) 0 false ρ with
        | ok ρ1 =>
          rw [hm] at h
          obtain ⟨β₁, h1, rfl⟩ := sp.2.1 ρ1 hm
          have hsplit : xs = xs.take pre.length ++ xs.drop pre.length ++ [] := by simp
          have hdl : (xs.drop pre.length).length = xs.length - pre.length := by simp
          cases r with
          | none =>
            simp at h; subst h
            exact ⟨β₁, ⟨xs, sl, xs.take pre.length, xs.drop pre.length, [], β₁, [], rfl, hsplit,
              by simp, h1, by simp [DeclAll], by simp⟩, rfl⟩
          | some x =>
            simp [hsl] at h; subst h
            refine ⟨β₁ ++ [(x, sl pre.length xs.length)], ⟨xs, sl, xs.take pre.length, xs.drop pre.length, [], β₁, [],
              rfl, hsplit, by simp, h1, by simp [DeclAll], ?_⟩, by simp [apply_append]⟩
            have : pre.length + (xs.length - pre.length) = xs.length := by omega
            simp [hlen, hdl, this]
        | done ρ1 => exact absurd hm (sp.2.2 _)
        | fail ρ1 => rw [hm] at h; simp at h
        | err e => rw [hm] at h; simp at h
      · intro ρ' h
        cases hm : mPats F C true pre (.tmp v) 0 false ρ with
        | ok ρ1 =>
          rw [hm] at h
          cases r with
          | none => simp at h
          | some x => simp [hsl] at h
        | done ρ1 => exact absurd hm (sp.2.2 _)
        | fail ρ1 => rw [hm] at h; simp at h
        | err e => rw [hm] at h; simp at h
    · have hd : decide (pre.length ≤ xs.length) = false := by simpa using hl
      simp only [hd]
      refine ⟨?_, by simp, by simp⟩
      rintro β ⟨xs', sl', a', mid, b, β₁, β₂, hv', hx, _, h1, _, rfl⟩
      simp only [Option.some.injEq, Prod.mk.injEq] at hv'
      obtain ⟨rfl, rfl⟩ := hv'
      have ha := DeclAll_length _ _ _ h1
      have : a'.length ≤ xs.length := by rw [hx]; simp
      omega

theorem spec_leading (F : FloatOps) (post : List Pat) (r : Option Name) (hpost : post ≠ [])
    (hs : SpecL F C post) : Spec F C (.seq [] (some r) post) := by
  intro il a ρ v hr hnr
  rw [mPat_leading F true il post r a ρ (.tmp v) hpost (hr.container ρ)]
  simp only [Src.rd, Decl]
  have hq : 0 < post.length := by cases post <;> simp_all
  cases hv : view v with
  | none => cases hc : C.sizeNullJumps <;> simp [sizeCheck, view_none_size hv hnr, hc]
  | some w =>
    obtain ⟨xs, sl⟩ := w
    simp only [sizeCheck, view_size hv, if_true, Nat.add_sub_cancel_left]
    by_cases hl : post.length ≤ xs.length
    · have hd : decide (post.length ≤ xs.length) = true := by simpa using hl
      simp only [hd]
      have hlen : (xs.drop (xs.length - post.length)).length = post.length := by simp; omega
      have hidx : ∀ j (h : j < (xs.drop (xs.length - post.length)).length),
          tempIndex v (-(post.length : Int) + (j : Int)) = .ok (xs.drop (xs.length - post.length))[j] := by
        intro j h
        have hj : j < post.length := by omega
        have e1 : -(post.length : Int) + (j : Int) = -((post.length - j : Nat) : Int) := by omega
        rw [e1, view_index_neg hv (post.length - j) (by omega) (by omega)]
        simp only [List.getElem_drop]
        congr 2; omega
      have hsl := view_sliceTo (C := C) hv post.length hq hl
      have key : ∀ ρ1 : Env, _ := fun ρ1 =>
        hs v (-(post.length : Int)) (if C.nestedLast then il else true) ρ1 (xs.drop (xs.length - post.length)) hlen hidx
          (plainL_drop _ _ (view_plain hv hnr))
      refine ⟨?_, ?_, ?_⟩
      · rintro β ⟨xs', sl', a', mid, b, β₁, β₂, hv', hx, _, h1, h2, rfl⟩
        simp only [Option.some.injEq, Prod.mk.injEq] at hv'
        obtain ⟨rfl, rfl⟩ := hv'
        rw [DeclAll_nil_iff] at h1
        obtain ⟨rfl, rfl⟩ := h1
        have hb := DeclAll_length _ _ _ h2
        simp only [List.nil_append] at hx
        have hml : mid.length = xs.length - post.length := by rw [hx]; simp; omega
        have hdb : xs.drop (xs.length - post.length) = b := by rw [← hml, hx]; simp
        cases r with
        | none =>
          simp only
          have sp := key ρ
          rw [hdb] at sp
          simpa using sp.1 β₂ h2
        | some x =>
          simp only [hsl, Except.map]
          have sp := key (ρ.set x (sl 0 (xs.length - post.length)))
          rw [hdb] at sp
          rw [sp.1 β₂ h2]
          simp [Env.apply, hml]
      · intro ρ' h
        have hsplit : xs = [] ++ xs.take (xs.length - post.length) ++ xs.drop (xs.length - post.length) := by simp
        have htl : (xs.take (xs.length - post.length)).length = xs.length - post.length := by simp
        cases r with
        | none =>
          simp only at h
          obtain ⟨β₂, h2, rfl⟩ := (key ρ).2.1 ρ' h
          exact ⟨β₂, ⟨xs, sl, [], xs.take (xs.length - post.length), xs.drop (xs.length - post.length), [], β₂,
            rfl, hsplit, by simp, by simp [DeclAll], h2, by simp⟩, rfl⟩
        | some x =>
          simp only [hsl, Except.map] at h
          obtain ⟨β₂, h2, rfl⟩ := (key _).2.1 ρ' h
          refine ⟨(x, sl 0 (xs.length - post.length)) :: β₂, ⟨xs, sl, [], xs.take (xs.length - post.length),
            xs.drop (xs.length - post.length), [], β₂, rfl, hsplit, by simp, by simp [DeclAll], h2, ?_⟩, rfl⟩
          simp [htl]
      · intro ρ' h
        cases r with
        | none => simp only at h; exact (key ρ).2.2 ρ' h
        | some x => simp only [hsl, Except.map] at h; exact (key _).2.2 ρ' h
    · have hd : decide (post.length ≤ xs.length) = false := by simpa using hl
      simp only [hd]
      refine ⟨?_, by simp, by simp⟩
      rintro β ⟨xs', sl', a', mid, b, β₁, β₂, hv', hx, _, _, h2, rfl⟩
      simp only [Option.some.injEq, Prod.mk.injEq] at hv'
      obtain ⟨rfl, rfl⟩ := hv'
      have hb := DeclAll_length _ _ _ h2
      have : b.length ≤ xs.length := by rw [hx]; simp; omega
      omega

theorem spec_seq (F : FloatOps) (pre : List Pat) (rest : Option (Option Name)) (post : List Pat)
    (hw : wf (.seq pre rest post) = true) (h1 : SpecL F C pre) (h2 : SpecL F C post) :
    Spec F C (.seq pre rest post) := by
  simp only [wf, Bool.and_eq_true, Bool.or_eq_true, decide_eq_true_eq, List.isEmpty_iff] at hw
  obtain ⟨⟨⟨hshape, hn⟩, _⟩, _⟩ := hw
  cases rest with
  | none =>
    rcases hshape with rfl | ⟨_, hr⟩
    · have : pre ≠ [] := by
        intro h; subst h; simp [restCount] at hn
      exact spec_exact F pre this h1
    · simp at hr
  | some r =>
    cases post with
    | nil => exact spec_trailing F pre r h1
    | cons q qs =>
      rcases hshape with h | ⟨rfl, _⟩
      · simp at h
      · exact spec_leading F (q :: qs) r (by simp) h2

mutual
theorem spec_pat (F : FloatOps) : ∀ (p : Pat), wf p = true → Spec F C p
  | .lit l, _ => spec_lit F l
  | .id x ty, _ => spec_id F x ty
  | .wild ty, _ => spec_wild F ty
  | .map es ty, _ => spec_map F es ty
  | .seq pre rest post, h =>
    spec_seq F pre rest post h
      (spec_pats F pre (by simp only [wf, Bool.and_eq_true] at h; exact h.1.2))
      (spec_pats F post (by simp only [wf, Bool.and_eq_true] at h; exact h.2))
theorem spec_pats (F : FloatOps) : ∀ (ps : List Pat), wfL ps = true → SpecL F C ps
  | [], _ => specL_nil F
  | p :: ps, h =>
    specL_cons F p ps
      (spec_pat F p (by simp only [wfL, Bool.and_eq_true] at h; exact h.1))
      (spec_pats F ps (by simp only [wfL, Bool.and_eq_true] at h; exact h.2))
end

/-! ### names written -/

theorem declEnts_names : ∀ (es : List Ent) (v : Val) (β : Writes),
    DeclEnts es v β → β.map Prod.fst = entVars es
  | [], _, β, h => by simp [DeclEnts] at h; simp [h, entVars]
  | e :: es, v, β, h => by
    simp only [DeclEnts] at h
    obtain ⟨m, x, β', _, _, _, hd, rfl⟩ := h
    have := declEnts_names es v β' hd
    cases hb : e.bind <;> simp [entVars, hb, this]

mutual
theorem decl_names (F : FloatOps) : ∀ (p : Pat) (v : Val) (β : Writes),
    Decl F p v β → β.map Prod.fst = patVars p
  | .lit _, _, β, h => by simp [Decl] at h; simp [h.2, patVars]
  | .id x _, _, β, h => by simp [Decl] at h; simp [h.2, patVars]
  | .wild _, _, β, h => by simp [Decl] at h; simp [h.2, patVars]
  | .map es _, v, β, h => by simp only [Decl] at h; simpa [patVars] using declEnts_names es v β h.2
  | .seq pre rest post, v, β, h => by
    simp only [Decl] at h
    obtain ⟨xs, sl, a, mid, b, β₁, β₂, _, _, _, h1, h2, rfl⟩ := h
    have e1 := declAll_names F pre a β₁ h1
    have e2 := declAll_names F post b β₂ h2
    rcases rest with _ | _ | r <;> simp [patVars, e1, e2, restWrites]
theorem declAll_names (F : FloatOps) : ∀ (ps : List Pat) (ys : List Val) (β : Writes),
    DeclAll F ps ys β → β.map Prod.fst = patsVars ps
  | [], _, β, h => by simp [DeclAll] at h; simp [h.2, patsVars]
  | p :: ps, ys, β, h => by
    simp only [DeclAll] at h
    obtain ⟨y, ys', β₁, β₂, _, h1, h2, rfl⟩ := h
    simp [patsVars, decl_names F p y β₁ h1, declAll_names F ps ys' β₂ h2]
end

theorem apply_frame (ρ : Env) (β : Writes) (y : Name) (h : y ∉ β.map Prod.fst) : (ρ.apply β) y = ρ y := by
  induction β generalizing ρ with
  | nil => rfl
  | cons b t ih =>
    obtain ⟨x, v⟩ := b
    simp only [List.map_cons, List.mem_cons, not_or] at h
    simp only [Env.apply]
    rw [ih _ h.2]
    simp [Env.set, h.1]

/-! ### alternatives other than the last one (`la = false`), on `earlyFree` patterns -/

def notSeq : Pat → Bool
  | .seq _ _ _ => false
  | _ => true

def noSeqL : List Pat → Bool
  | [] => true
  | p :: ps => notSeq p && noSeqL ps

/-- in a non-last position a pattern that is not parenthesised behaves the same in every
alternative -/
theorem mPat_false_eq (F : FloatOps) (p : Pat) (a : Acc) (ρ : Env) (h : notSeq p = true) :
    mPat F C false p false a ρ = mPat F C true p false a ρ := by
  cases p <;> simp [mPat, fin, notSeq] at *

theorem mPats_false_eq (F : FloatOps) : ∀ (ps : List Pat) (s : Src) (i : Int) (ρ : Env),
    noSeqL ps = true → mPats F C false ps s i false ρ = mPats F C true ps s i false ρ
  | [], _, _, _, _ => by simp [mPats]
  | p :: ps, s, i, ρ, h => by
    simp only [noSeqL, Bool.and_eq_true] at h
    simp only [mPats, Bool.false_and]
    rw [mPat_false_eq F p _ ρ h.1]
    cases mPat F C true p false (.elem s i) ρ <;> simp [mPats_false_eq F ps s (i + 1) _ h.2]

theorem wf_notSeq (p : Pat) (hw : wf p = true) (h : isSeqNonEmpty p = false) : notSeq p = true := by
  cases p with
  | seq pre rest post =>
    simp only [wf, Bool.and_eq_true, decide_eq_true_eq] at hw
    simp only [isSeqNonEmpty, Bool.not_eq_false', Bool.and_eq_true, List.isEmpty_iff, Option.isNone_iff_eq_none] at h
    obtain ⟨⟨rfl, rfl⟩, rfl⟩ := h
    simp [restCount] at hw
  | _ => rfl

theorem earlyFreeL_false_noSeq : ∀ (ps : List Pat), wfL ps = true → earlyFreeL ps false = true →
    noSeqL ps = true
  | [], _, _ => rfl
  | [p], hw, h => by
    simp only [wfL, Bool.and_eq_true] at hw
    simp only [earlyFreeL, Bool.false_or, Bool.and_eq_true, Bool.not_eq_true'] at h
    simp [noSeqL, wf_notSeq p hw.1 h.2]
  | p :: q :: ps, hw, h => by
    simp only [wfL, Bool.and_eq_true] at hw
    simp only [earlyFreeL, Bool.and_eq_true, Bool.not_eq_true'] at h
    have ih := earlyFreeL_false_noSeq (q :: ps) (by simp [wfL, hw.2]) h.2
    simp [noSeqL, wf_notSeq p hw.1 h.1.2] at ih ⊢
    exact ih

/-- success of a whole pattern in a non-last alternative = the jump to `match_end` -/
def SpecN (F : FloatOps) (C : Cfg) (p : Pat) : Prop :=
  ∀ (a : Acc) (ρ : Env) (v : Val), Reads a v → plain v = true →
    (∀ β, Decl F p v β → mPat F C false p true a ρ = .done (ρ.apply β)) ∧
    (∀ ρ', mPat F C false p true a ρ = .done ρ' → ∃ β, Decl F p v β ∧ ρ' = ρ.apply β)

def SpecNL (F : FloatOps) (C : Cfg) (ps : List Pat) : Prop :=
  ∀ (c : Val) (i : Int) (ρ : Env) (ys : List Val), ys.length = ps.length →
    (∀ j (h : j < ys.length), tempIndex c (i + (j : Int)) = .ok ys[j]) → plainL ys = true →
    (∀ β, DeclAll F ps ys β → mPats F C false ps (.tmp c) i true ρ = .done (ρ.apply β)) ∧
    (∀ ρ', mPats F C false ps (.tmp c) i true ρ = .done ρ' → ∃ β, DeclAll F ps ys β ∧ ρ' = ρ.apply β)

theorem specN_lit (F : FloatOps) (l : Lit) : SpecN F C (.lit l) := by
  intro a ρ v hr _
  simp only [mPat, hr.fetch, Decl, fin]
  cases h : litEq F l v <;> simp [eq_comm]

theorem specN_id (F : FloatOps) (x : Name) (ty : Option Ty) : SpecN F C (.id x ty) := by
  intro a ρ v hr _
  simp only [mPat, hr.fetch, Decl, fin]
  cases h : tyFail ty v
  · simp [eq_comm]
  · simp

theorem specN_wild (F : FloatOps) (ty : Option Ty) : SpecN F C (.wild ty) := by
  intro a ρ v hr _
  cases ty with
  | none => simp [mPat, Decl, fin, tyFail, eq_comm]
  | some t =>
    simp only [mPat, hr.fetch, Decl, fin, tyFail]
    cases h : tyOk t v <;> simp [eq_comm]

theorem specN_map (F : FloatOps) (es : List Ent) (ty : Option Ty) : SpecN F C (.map es ty) := by
  intro a ρ v hr _
  have hm := mEnts_spec (C := C) es v ρ
  simp only [mPat, hr.container, Src.rd, Decl, fin]
  by_cases h : tyFail ty v = true
  · simp [h]
  · have h' : tyFail ty v = false := by simpa using h
    simp only [h', Bool.false_eq_true, if_false, true_and]
    cases hr' : mEnts C es (.tmp v) ρ with
    | ok ρ1 =>
      simp only [Bool.not_false, Bool.and_self, if_true, R.done.injEq]
      constructor
      · intro β hd
        have := hm.1 β hd
        rw [hr'] at this; cases this; rfl
      · rintro ρ' rfl; exact hm.2.1 _ hr'
    | done ρ1 => exact absurd hr' (hm.2.2 _)
    | fail ρ1 =>
      refine ⟨?_, by simp⟩
      intro β hd
      have := hm.1 β hd
      rw [hr'] at this; cases this
    | err e =>
      refine ⟨?_, by simp⟩
      intro β hd
      have := hm.1 β hd
      rw [hr'] at this; cases this

theorem specNL_single (F : FloatOps) (p : Pat) (hp : SpecN F C p) : SpecNL F C [p] := by
  intro c i ρ ys hlen hidx hnr
  cases ys with
  | nil => simp at hlen
  | cons y ys' =>
    have : ys' = [] := by simpa using hlen
    subst this
    have hy : Reads (.elem (.tmp c) i) y := by
      have h0 := hidx 0 (by simp)
      rw [List.getElem_cons_zero] at h0
      exact Or.inr ⟨c, i, rfl, by simpa using h0⟩
    simp only [plainL, Bool.and_eq_true] at hnr
    have sp := hp (.elem (.tmp c) i) ρ y hy hnr.1
    simp only [mPats, List.isEmpty_nil, Bool.and_self]
    constructor
    · intro β hd
      simp only [DeclAll] at hd
      obtain ⟨y0, ys0, β₁, β₂, heq, h1, ⟨_, rfl⟩, rfl⟩ := hd
      simp only [List.cons.injEq] at heq
      obtain ⟨rfl, _⟩ := heq
      simp [sp.1 β₁ h1]
    · intro ρ' h
      cases hr : mPat F C false p true (.elem (.tmp c) i) ρ with
      | ok ρ1 => rw [hr] at h; simp [mPats] at h
      | done ρ1 =>
        rw [hr] at h; simp only [R.done.injEq] at h; subst h
        obtain ⟨β, hd, rfl⟩ := sp.2 ρ1 hr
        exact ⟨β, by simp only [DeclAll]; exact ⟨y, [], β, [], rfl, hd, ⟨rfl, rfl⟩, by simp⟩, rfl⟩
      | fail ρ1 => rw [hr] at h; simp at h
      | err e => rw [hr] at h; simp at h

theorem specNL_cons (F : FloatOps) (p q : Pat) (ps : List Pat)
    (hn : ∀ (a : Acc) (ρ : Env), mPat F C false p false a ρ = mPat F C true p false a ρ) (hp : Spec F C p)
    (hps : SpecNL F C (q :: ps)) : SpecNL F C (p :: q :: ps) := by
  intro c i ρ ys hlen hidx hnr
  cases ys with
  | nil => simp at hlen
  | cons y ys' =>
    have hy : Reads (.elem (.tmp c) i) y := by
      have h0 := hidx 0 (by simp)
      rw [List.getElem_cons_zero] at h0
      exact Or.inr ⟨c, i, rfl, by simpa using h0⟩
    simp only [plainL, Bool.and_eq_true] at hnr
    have hlen' : ys'.length = (q :: ps).length := by simpa using hlen
    have hidx' : ∀ j (h : j < ys'.length), tempIndex c (i + 1 + (j : Int)) = .ok ys'[j] := by
      intro j h
      have := hidx (j + 1) (by simp; omega)
      simp only [List.getElem_cons_succ] at this
      rw [← this]; congr 1; push_cast; omega
    have sp := hp false (.elem (.tmp c) i) ρ y hy hnr.1
    have e : mPat F C false p (true && (q :: ps).isEmpty) (.elem (.tmp c) i) ρ
        = mPat F C true p false (.elem (.tmp c) i) ρ := by
      simpa using hn _ ρ
    constructor
    · intro β hd
      simp only [DeclAll] at hd
      obtain ⟨y0, ys0, β₁, β₂, heq, h1, h2, rfl⟩ := hd
      simp only [List.cons.injEq] at heq
      obtain ⟨rfl, rfl⟩ := heq
      rw [mPats, e, sp.1 β₁ h1]
      simp only
      rw [(hps c (i + 1) (ρ.apply β₁) ys' hlen' hidx' hnr.2).1 β₂ (by simpa only [DeclAll] using h2), apply_append]
    · intro ρ' h
      rw [mPats, e] at h
      cases hr : mPat F C true p false (.elem (.tmp c) i) ρ with
      | ok ρ1 =>
        rw [hr] at h; simp only at h
        obtain ⟨β₁, h1, rfl⟩ := sp.2.1 ρ1 hr
        obtain ⟨β₂, h2, rfl⟩ := (hps c (i + 1) (ρ.apply β₁) ys' hlen' hidx' hnr.2).2 ρ' h
        exact ⟨β₁ ++ β₂, by simp only [DeclAll]; exact ⟨y, ys', β₁, β₂, rfl, h1, by simpa only [DeclAll] using h2, rfl⟩,
          by rw [apply_append]⟩
      | done ρ1 => exact absurd hr (sp.2.2 _)
      | fail ρ1 => rw [hr] at h; simp at h
      | err e' => rw [hr] at h; simp at h

theorem specN_exact (F : FloatOps) (pre : List Pat) (hpre : pre ≠ []) (hs : SpecNL F C pre) :
    SpecN F C (.seq pre none []) := by
  intro a ρ v hr hnr
  rw [mPat_exact F false true pre a ρ (.tmp v) hpre (hr.container ρ)]
  simp only [ite_self]
  simp only [Src.rd, Decl]
  cases hv : view v with
  | none => cases hc : C.sizeNullJumps <;> simp [sizeCheck, view_none_size hv hnr, hc]
  | some w =>
    obtain ⟨xs, sl⟩ := w
    simp only [sizeCheck, view_size hv, Bool.false_eq_true, if_false]
    have hidx : ∀ j (h : j < xs.length), tempIndex v ((0 : Int) + (j : Int)) = .ok xs[j] := by
      intro j h; simpa using view_index hv j h
    by_cases hl : xs.length = pre.length
    · have sp := hs v 0 ρ xs hl hidx (view_plain hv hnr)
      simp only [hl, beq_self_eq_true]
      refine ⟨?_, ?_⟩
      · rintro β ⟨xs', sl', a', mid, b, β₁, β₂, hv', hx, hm, h1, h2, rfl⟩
        simp only [Option.some.injEq, Prod.mk.injEq] at hv'
        obtain ⟨rfl, rfl⟩ := hv'
        have := hm trivial; subst this
        rw [DeclAll_nil_iff] at h2
        obtain ⟨rfl, rfl⟩ := h2
        simp only [List.append_nil] at hx; subst hx
        simpa using sp.1 β₁ h1
      · intro ρ' h
        obtain ⟨β, hd, rfl⟩ := sp.2 ρ' h
        exact ⟨β, ⟨xs, sl, xs, [], [], β, [], rfl, by simp, fun _ => rfl, hd, by simp [DeclAll], by simp⟩, rfl⟩
    · have hb : (xs.length == pre.length) = false := by simpa using hl
      simp only [hb]
      refine ⟨?_, by simp⟩
      rintro β ⟨xs', sl', a', mid, b, β₁, β₂, hv', hx, hm, h1, h2, rfl⟩
      simp only [Option.some.injEq, Prod.mk.injEq] at hv'
      obtain ⟨rfl, rfl⟩ := hv'
      have := hm trivial; subst this
      rw [DeclAll_nil_iff] at h2
      obtain ⟨rfl, rfl⟩ := h2
      simp only [List.append_nil] at hx; subst hx
      exact absurd (DeclAll_length _ _ _ h1) hl

@[simp] theorem fin_false_true (ρ : Env) : fin false true ρ = .done ρ := by simp [fin]

theorem specN_trailing (F : FloatOps) (pre : List Pat) (r : Option Name) (hs : SpecL F C pre)
    (hns : ∀ (s : Src) (i : Int) (ρ : Env), mPats F C false pre s i false ρ = mPats F C true pre s i false ρ) : SpecN F C (.seq pre (some r) []) := by
  intro a ρ v hr hnr
  rw [mPat_trailing F false true pre r a ρ (.tmp v) (hr.container ρ), hns]
  simp only [ite_self]
  simp only [Src.rd, Decl]
  cases hv : view v with
  | none => cases hc : C.sizeNullJumps <;> simp [sizeCheck, view_none_size hv hnr, hc]
  | some w =>
    obtain ⟨xs, sl⟩ := w
    simp only [sizeCheck, view_size hv, if_true, Nat.add_sub_cancel]
    by_cases hl : pre.length ≤ xs.length
    · have hd : decide (pre.length ≤ xs.length) = true := by simpa using hl
      simp only [hd]
      have hlen : (xs.take pre.length).length = pre.length := by simp; omega
      have hidx : ∀ j (h : j < (xs.take pre.length).length),
          tempIndex v ((0 : Int) + (j : Int)) = .ok (xs.take pre.length)[j] := by
        intro j h
        have hj : j < xs.length := by simp at h; omega
        simpa [List.getElem_take] using view_index hv j hj
      have sp := hs v 0 false ρ (xs.take pre.length) hlen hidx (plainL_take _ _ (view_plain hv hnr))
      have hsl := view_sliceFrom (C := C) hv pre.length hl
      refine ⟨?_, ?_⟩
      · rintro β ⟨xs', sl', a', mid, b, β₁, β₂, hv', hx, _, h1, h2, rfl⟩
        simp only [Option.some.injEq, Prod.mk.injEq] at hv'
        obtain ⟨rfl, rfl⟩ := hv'
        rw [DeclAll_nil_iff] at h2
        obtain ⟨rfl, rfl⟩ := h2
        have ha := DeclAll_length _ _ _ h1
        simp only [List.append_nil] at hx
        have hta : xs.take pre.length = a' := by rw [hx, ← ha]; simp
        have hlen2 : a'.length + mid.length = xs.length := by rw [hx]; simp
        rw [hta] at sp
        rw [sp.1 β₁ h1]
        cases r with
        | none => simp
        | some x => simp [hsl, apply_append, ha, ← hlen2]
      · intro ρ' h
        cases hm : mPats F C true pre (.tmp v) 0 false ρ with
        | ok ρ1 =>
          rw [hm] at h
          obtain ⟨β₁, h1, rfl⟩ := sp.2.1 ρ1 hm
          have hsplit : xs = xs.take pre.length ++ xs.drop pre.length ++ [] := by simp
          have hdl : (xs.drop pre.length).length = xs.length - pre.length := by simp
          cases r with
          | none =>
            simp at h; subst h
            exact ⟨β₁, ⟨xs, sl, xs.take pre.length, xs.drop pre.length, [], β₁, [], rfl, hsplit,
              by simp, h1, by simp [DeclAll], by simp⟩, rfl⟩
          | some x =>
            simp [hsl] at h; subst h
            refine ⟨β₁ ++ [(x, sl pre.length xs.length)], ⟨xs, sl, xs.take pre.length, xs.drop pre.length, [], β₁, [],
              rfl, hsplit, by simp, h1, by simp [DeclAll], ?_⟩, by simp [apply_append]⟩
            have : pre.length + (xs.length - pre.length) = xs.length := by omega
            simp [hlen, hdl, this]
        | done ρ1 => exact absurd hm (sp.2.2 _)
        | fail ρ1 => rw [hm] at h; simp at h
        | err e => rw [hm] at h; simp at h
    · have hd : decide (pre.length ≤ xs.length) = false := by simpa using hl
      simp only [hd]
      refine ⟨?_, by simp⟩
      rintro β ⟨xs', sl', a', mid, b, β₁, β₂, hv', hx, _, h1, _, rfl⟩
      simp only [Option.some.injEq, Prod.mk.injEq] at hv'
      obtain ⟨rfl, rfl⟩ := hv'
      have ha := DeclAll_length _ _ _ h1
      have : a'.length ≤ xs.length := by rw [hx]; simp
      omega

theorem specN_leading (F : FloatOps) (post : List Pat) (r : Option Name) (hpost : post ≠ [])
    (hs : SpecNL F C post) : SpecN F C (.seq [] (some r) post) := by
  intro a ρ v hr hnr
  rw [mPat_leading F false true post r a ρ (.tmp v) hpost (hr.container ρ)]
  simp only [ite_self]
  simp only [Src.rd, Decl]
  have hq : 0 < post.length := by cases post <;> simp_all
  cases hv : view v with
  | none => cases hc : C.sizeNullJumps <;> simp [sizeCheck, view_none_size hv hnr, hc]
  | some w =>
    obtain ⟨xs, sl⟩ := w
    simp only [sizeCheck, view_size hv, if_true, Nat.add_sub_cancel_left]
    by_cases hl : post.length ≤ xs.length
    · have hd : decide (post.length ≤ xs.length) = true := by simpa using hl
      simp only [hd]
      have hlen : (xs.drop (xs.length - post.length)).length = post.length := by simp; omega
      have hidx : ∀ j (h : j < (xs.drop (xs.length - post.length)).length),
          tempIndex v (-(post.length : Int) + (j : Int)) = .ok (xs.drop (xs.length - post.length))[j] := by
        intro j h
        have hj : j < post.length := by omega
        have e1 : -(post.length : Int) + (j : Int) = -((post.length - j : Nat) : Int) := by omega
        rw [e1, view_index_neg hv (post.length - j) (by omega) (by omega)]
        simp only [List.getElem_drop]
        congr 2; omega
      have hsl := view_sliceTo (C := C) hv post.length hq hl
      have key : ∀ ρ1 : Env, _ := fun ρ1 =>
        hs v (-(post.length : Int)) ρ1 (xs.drop (xs.length - post.length)) hlen hidx
          (plainL_drop _ _ (view_plain hv hnr))
      refine ⟨?_, ?_⟩
      · rintro β ⟨xs', sl', a', mid, b, β₁, β₂, hv', hx, _, h1, h2, rfl⟩
        simp only [Option.some.injEq, Prod.mk.injEq] at hv'
        obtain ⟨rfl, rfl⟩ := hv'
        rw [DeclAll_nil_iff] at h1
        obtain ⟨rfl, rfl⟩ := h1
        have hb := DeclAll_length _ _ _ h2
        simp only [List.nil_append] at hx
        have hml : mid.length = xs.length - post.length := by rw [hx]; simp; omega
        have hdb : xs.drop (xs.length - post.length) = b := by rw [← hml, hx]; simp
        cases r with
        | none =>
          simp only
          have sp := key ρ
          rw [hdb] at sp
          simpa using sp.1 β₂ h2
        | some x =>
          simp only [hsl, Except.map]
          have sp := key (ρ.set x (sl 0 (xs.length - post.length)))
          rw [hdb] at sp
          rw [sp.1 β₂ h2]
          simp [Env.apply, hml]
      · intro ρ' h
        have hsplit : xs = [] ++ xs.take (xs.length - post.length) ++ xs.drop (xs.length - post.length) := by simp
        have htl : (xs.take (xs.length - post.length)).length = xs.length - post.length := by simp
        cases r with
        | none =>
          simp only at h
          obtain ⟨β₂, h2, rfl⟩ := (key ρ).2 ρ' h
          exact ⟨β₂, ⟨xs, sl, [], xs.take (xs.length - post.length), xs.drop (xs.length - post.length), [], β₂,
            rfl, hsplit, by simp, by simp [DeclAll], h2, by simp⟩, rfl⟩
        | some x =>
          simp only [hsl, Except.map] at h
          obtain ⟨β₂, h2, rfl⟩ := (key _).2 ρ' h
          refine ⟨(x, sl 0 (xs.length - post.length)) :: β₂, ⟨xs, sl, [], xs.take (xs.length - post.length),
            xs.drop (xs.length - post.length), [], β₂, rfl, hsplit, by simp, by simp [DeclAll], h2, ?_⟩, rfl⟩
          simp [htl]
    · have hd : decide (post.length ≤ xs.length) = false := by simpa using hl
      simp only [hd]
      refine ⟨?_, by simp⟩
      rintro β ⟨xs', sl', a', mid, b, β₁, β₂, hv', hx, _, _, h2, rfl⟩
      simp only [Option.some.injEq, Prod.mk.injEq] at hv'
      obtain ⟨rfl, rfl⟩ := hv'
      have hb := DeclAll_length _ _ _ h2
      have : b.length ≤ xs.length := by rw [hx]; simp; omega
      omega

mutual
theorem specN_pat (F : FloatOps) : ∀ (p : Pat), wf p = true → earlyFree p = true → SpecN F C p
  | .lit l, _, _ => specN_lit F l
  | .id x ty, _, _ => specN_id F x ty
  | .wild ty, _, _ => specN_wild F ty
  | .map es ty, _, _ => specN_map F es ty
  | .seq pre rest post, hw, he => by
    have hw' := hw
    simp only [wf, Bool.and_eq_true, Bool.or_eq_true, decide_eq_true_eq, List.isEmpty_iff] at hw'
    obtain ⟨⟨⟨hshape, hn⟩, hwpre⟩, hwpost⟩ := hw'
    cases post with
    | nil =>
      simp only [earlyFree, List.isEmpty_nil, if_true] at he
      cases rest with
      | none =>
        have hne : pre ≠ [] := by intro h; subst h; simp [restCount] at hn
        exact specN_exact F pre hne (specN_pats F pre hwpre (by simpa using he) hne)
      | some r =>
        exact specN_trailing F pre r (spec_pats F pre hwpre)
          (fun s i ρ => mPats_false_eq F pre s i ρ (earlyFreeL_false_noSeq pre hwpre (by simpa using he)))
    | cons q qs =>
      simp only [earlyFree, List.isEmpty_cons, Bool.false_eq_true, if_false, Bool.and_eq_true,
        List.isEmpty_iff] at he
      rcases hshape with h | ⟨rfl, hr⟩
      · simp at h
      · cases rest with
        | none => simp at hr
        | some r => exact specN_leading F (q :: qs) r (by simp) (specN_pats F (q :: qs) hwpost he.2 (by simp))
theorem specN_pats (F : FloatOps) : ∀ (ps : List Pat), wfL ps = true → earlyFreeL ps true = true →
    ps ≠ [] → SpecNL F C ps
  | [], _, _, h => absurd rfl h
  | [p], hw, he, _ => by
    simp only [wfL, Bool.and_eq_true] at hw
    simp only [earlyFreeL, Bool.true_or, Bool.and_true] at he
    exact specNL_single F p (specN_pat F p hw.1 he)
  | p :: q :: ps, hw, he, _ => by
    simp only [wfL, Bool.and_eq_true] at hw
    simp only [earlyFreeL, Bool.and_eq_true, Bool.not_eq_true'] at he
    exact specNL_cons F p q ps (fun a ρ => mPat_false_eq F p a ρ (wf_notSeq p hw.1 he.1.2)) (spec_pat F p hw.1)
      (specN_pats F (q :: ps) (by simp [wfL, hw.2]) he.2 (by simp))
end

/-! ### frame: whatever a pattern does, it only writes its own variables -/

/-- `ρ'` agrees with `ρ` outside `xs` -/
def Agree (xs : List Name) (ρ ρ' : Env) : Prop := ∀ y, y ∉ xs → ρ' y = ρ y

theorem Agree.refl (xs : List Name) (ρ : Env) : Agree xs ρ ρ := fun _ _ => rfl

theorem Agree.set {xs : List Name} {ρ ρ' : Env} (h : Agree xs ρ ρ') (x : Name) (v : Val) (hx : x ∈ xs) :
    Agree xs ρ (ρ'.set x v) := by
  intro y hy
  have : y ≠ x := fun e => hy (e ▸ hx)
  simp [Env.set, this, h y hy]

theorem Agree.mono {xs ys : List Name} {ρ ρ' : Env} (h : Agree xs ρ ρ') (hs : ∀ x, x ∈ xs → x ∈ ys) :
    Agree ys ρ ρ' := fun y hy => h y (fun hx => hy (hs y hx))

theorem Agree.trans {xs : List Name} {ρ ρ₁ ρ₂ : Env} (h1 : Agree xs ρ ρ₁) (h2 : Agree xs ρ₁ ρ₂) :
    Agree xs ρ ρ₂ := fun y hy => (h2 y hy).trans (h1 y hy)

/-- every register file a result carries agrees with `ρ` outside `xs` -/
def Within (xs : List Name) (ρ : Env) : R → Prop
  | .ok ρ' => Agree xs ρ ρ'
  | .done ρ' => Agree xs ρ ρ'
  | .fail ρ' => Agree xs ρ ρ'
  | .err _ => True

theorem Within.mono {xs ys : List Name} {ρ : Env} {r : R} (h : Within xs ρ r)
    (hs : ∀ x, x ∈ xs → x ∈ ys) : Within ys ρ r := by
  cases r <;> simp only [Within] at * <;> first | exact h.mono hs | trivial

theorem Within.trans {xs : List Name} {ρ ρ₁ : Env} {r : R} (h1 : Agree xs ρ ρ₁) (h2 : Within xs ρ₁ r) :
    Within xs ρ r := by
  cases r <;> simp only [Within] at * <;> first | exact h1.trans h2 | trivial

theorem within_fin (xs : List Name) (ρ ρ' : Env) (la il : Bool) (h : Agree xs ρ ρ') :
    Within xs ρ (fin la il ρ') := by
  unfold fin; split <;> exact h

theorem frame_entsSeq : ∀ (es : List Ent) (s : Src) (ρ : Env), Within (entVars es) ρ (mEntsSeq C es s ρ)
  | [], _, ρ => by simp [mEntsSeq, Within, Agree.refl]
  | e :: es, s, ρ => by
    simp only [mEntsSeq]
    split
    · trivial
    · exact Agree.refl _ _
    · rename_i v _
      have hstep : Agree (entVars (e :: es)) ρ (match e.bind with | some x => ρ.set x v | none => ρ) := by
        cases hb : e.bind with
        | none => exact Agree.refl _ _
        | some x => exact (Agree.refl _ ρ).set x v (by simp [entVars, hb])
      split
      · simp only [Within]; split
        · exact Agree.refl _ _
        · exact hstep
      · exact Within.trans hstep ((frame_entsSeq es s _).mono (by intro x hx; simp [entVars, hx]))

theorem frame_ents (es : List Ent) (s : Src) (ρ : Env) : Within (entVars es) ρ (mEnts C es s ρ) := by
  unfold mEnts
  split
  · cases hc : collectEnts C es (s.rd ρ) with
    | error er => trivial
    | ok o =>
      cases o with
      | none => exact Agree.refl _ _
      | some β =>
        simp only [Within]
        intro y hy
        have hn := declEnts_names es _ β ((collect_some_iff es _ β).1 hc)
        exact apply_frame ρ β y (by rwa [hn])
  · exact frame_entsSeq es s ρ

mutual
theorem frame_pat (F : FloatOps) : ∀ (p : Pat) (la il : Bool) (a : Acc) (ρ : Env),
    Within (patVars p) ρ (mPat F C la p il a ρ)
  | .lit l, la, il, a, ρ => by
    simp only [mPat]
    split
    · trivial
    · split
      · exact within_fin _ _ _ _ _ (Agree.refl _ _)
      · split <;> exact Agree.refl _ _
  | .id x ty, la, il, a, ρ => by
    simp only [mPat]
    split
    · trivial
    · have h : Agree (patVars (.id x ty)) ρ (ρ.set x ‹Val›) := (Agree.refl _ ρ).set x _ (by simp [patVars])
      split
      · simp only [Within]; split
        · exact Agree.refl _ _
        · exact h
      · exact within_fin _ _ _ _ _ h
  | .wild ty, la, il, a, ρ => by
    simp only [mPat]
    split
    · exact within_fin _ _ _ _ _ (Agree.refl _ _)
    · split
      · trivial
      · split
        · exact within_fin _ _ _ _ _ (Agree.refl _ _)
        · exact Agree.refl _ _
  | .map es ty, la, il, a, ρ => by
    simp only [mPat]
    split
    · trivial
    · rename_i s _
      split
      · exact Agree.refl _ _
      · have h := frame_ents (C := C) es s ρ
        simp only [patVars]
        split
        · rename_i ρ1 hr
          rw [hr] at h
          exact within_fin _ _ _ _ _ h
        · exact h
  | .seq pre rest post, la, il, a, ρ => by
    have hpre : ∀ x, x ∈ patsVars pre → x ∈ patVars (.seq pre rest post) := by
      intro x hx; simp [patVars, hx]
    have hpost : ∀ x, x ∈ patsVars post → x ∈ patVars (.seq pre rest post) := by
      intro x hx; simp [patVars, hx]
    cases rest with
    | none =>
      simp only [mPat]
      split
      · trivial
      · rename_i s _
        split
        · trivial
        · split
          · trivial
          · exact Agree.refl _ _
          · exact (frame_pats F pre la s 0 _ ρ).mono hpre
    | some r =>
      simp only [mPat]
      split
      · trivial
      · rename_i s _
        split
        · trivial
        · split
          · trivial
          · exact Agree.refl _ _
          · split
            · have h := (frame_pats F pre la s 0 false ρ).mono hpre
              split
              · rename_i ρ1 hr
                rw [hr] at h
                cases r with
                | none => exact within_fin _ _ _ _ _ h
                | some x =>
                  simp only
                  split
                  · trivial
                  · exact within_fin _ _ _ _ _ (Agree.set h x _ (by simp [patVars]))
              · exact h
            · split
              · trivial
              · rename_i ρ1 hρ1
                have h1 : Agree (patVars (.seq pre (some r) post)) ρ ρ1 := by
                  cases r with
                  | none => simp only at hρ1; cases hρ1; exact Agree.refl _ _
                  | some x =>
                    simp only at hρ1
                    cases hs : sliceTo C (s.rd ρ) (-(post.length : Int)) with
                    | error e => rw [hs] at hρ1; cases hρ1
                    | ok w =>
                      rw [hs] at hρ1
                      simp only [Except.map] at hρ1
                      cases hρ1
                      exact (Agree.refl _ ρ).set x w (by simp [patVars])
                exact Within.trans h1 ((frame_pats F post la s _ _ ρ1).mono hpost)
theorem frame_pats (F : FloatOps) : ∀ (ps : List Pat) (la : Bool) (s : Src) (i : Int) (lf : Bool) (ρ : Env),
    Within (patsVars ps) ρ (mPats F C la ps s i lf ρ)
  | [], _, _, _, _, ρ => by simp [mPats, Within, Agree.refl]
  | p :: ps, la, s, i, lf, ρ => by
    have h := (frame_pat F p la (lf && ps.isEmpty) (.elem s i) ρ).mono
      (ys := patsVars (p :: ps)) (by intro x hx; simp [patsVars, hx])
    simp only [mPats]
    split
    · rename_i ρ1 hr
      rw [hr] at h
      exact Within.trans h ((frame_pats F ps la s (i + 1) lf ρ1).mono (by intro x hx; simp [patsVars, hx]))
    · exact h
end

end Match
end KotoVerif
