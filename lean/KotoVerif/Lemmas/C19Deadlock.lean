/-
C19 — helper lemmas for deadlock freedom: progress of the one-cell thread model (Part 2 of
`Model/Cell.lean`) and the invariant of the several-cells lock-only model (Part 3).
-/
import KotoVerif.Lemmas.C19
namespace KotoVerif.C19
open KotoVerif.Cell

variable {σ ρ : Type}

theorem holdsW_enabled (g : Conc σ ρ) (t : Nat) (th : Thread σ ρ)
    (ht : g.threads[t]? = some th) (hW : th.holdsW = true) : enabled g t = true := by
  obtain ⟨prog, phase, r, o⟩ := th
  simp only [enabled, ht]
  cases phase <;> cases prog <;> simp_all [Thread.holdsW]

theorem holdsR_enabled (g : Conc σ ρ) (t : Nat) (th : Thread σ ρ)
    (ht : g.threads[t]? = some th) (hR : th.holdsR = true) : enabled g t = true := by
  obtain ⟨prog, phase, r, o⟩ := th
  simp only [enabled, ht]
  cases phase <;> cases prog <;> simp_all [Thread.holdsR]

theorem progress_of_inv (g : Conc σ ρ) (h : LockInv g) (u : Nat) (th : Thread σ ρ)
    (hu : g.threads[u]? = some th) (hnf : th.finished = false) : ∃ t, enabled g t = true := by
  obtain ⟨prog, phase, r, ob⟩ := th
  cases phase with
  | idle =>
    cases prog with
    | nil => simp [Thread.finished] at hnf
    | cons o rest =>
      -- u wants to acquire
      cases hwr : g.writer with
      | some w =>
        obtain ⟨thw, hw1, hw2⟩ := h.wOwner w hwr
        exact ⟨w, holdsW_enabled g w thw hw1 hw2⟩
      | none =>
        cases hrd : g.readers with
        | nil => exact ⟨u, by simp [enabled, hu, hwr, hrd]⟩
        | cons r rs =>
          obtain ⟨thr, hr1, hr2⟩ := h.rOwner r (by simp [hrd])
          exact ⟨r, holdsR_enabled g r thr hr1 hr2⟩
  | held => exact ⟨u, by simp [enabled, hu]⟩
  | loaded s =>
    cases prog with
    | nil =>
      rcases h.phaseOk u _ hu rfl with h' | ⟨w, h'⟩ <;> simp at h'
    | cons o rest => exact ⟨u, by simp [enabled, hu]⟩
  | fin w => exact ⟨u, by simp [enabled, hu]⟩

/-- remaining micro-steps of a thread -/
def Thread.work (th : Thread σ ρ) : Nat :=
  match th.phase with
  | .idle => 4 * th.prog.length
  | .held => 4 * th.prog.length - 1
  | .loaded _ => 4 * th.prog.length - 2
  | .fin _ => 4 * th.prog.length + 1

def work (g : Conc σ ρ) : Nat := (g.threads.map Thread.work).sum

theorem enabled_step_work (g : Conc σ ρ) (h : LockInv g) (t : Nat) (he : enabled g t = true) :
    work (step g t) + 1 = work g := by
  unfold enabled at he
  unfold step stepP work
  cases hth : g.threads[t]? with
  | none => simp [hth] at he
  | some th =>
    obtain ⟨prog, phase, results, obs⟩ := th
    simp only [hth] at he
    cases phase with
    | idle =>
      cases prog with
      | nil => simp at he
      | cons o rest =>
        simp only [Policy.excl]
        cases hw : o.write with
        | true =>
          simp [hw] at he
          simp only [if_true, he, and_self]
          have hs := sum_map_set Thread.work g.threads t _
            { prog := o :: rest, phase := Phase.held, results := results, obs := obs } hth
          simp only [Thread.work, List.length_cons] at hs ⊢
          omega
        | false =>
          simp [hw] at he
          simp only [Bool.false_eq_true, if_false, he, if_true]
          have hs := sum_map_set Thread.work g.threads t _
            { prog := o :: rest, phase := Phase.held, results := results, obs := obs } hth
          simp only [Thread.work, List.length_cons] at hs ⊢
          omega
    | held =>
      have hne : prog ≠ [] := by
        intro hnil
        rcases h.phaseOk t _ hth hnil with h' | ⟨w, h'⟩ <;> simp at h'
      have hs := sum_map_set Thread.work g.threads t _
        { prog := prog, phase := Phase.loaded g.data, results := results, obs := obs } hth
      cases prog with
      | nil => simp at hne
      | cons o rest =>
        simp only [Thread.work, List.length_cons] at hs ⊢
        omega
    | loaded s =>
      cases prog with
      | nil => simp at he
      | cons o rest =>
        simp only []
        split
        · have hs := sum_map_set Thread.work g.threads t _
            { prog := rest, phase := Phase.fin (Policy.proper.excl o), results := results ++ [(o.f s).2], obs := obs } hth
          simp only [Thread.work, List.length_cons] at hs ⊢
          omega
        · have hs := sum_map_set Thread.work g.threads t _
            { prog := rest, phase := Phase.fin false, results := results ++ [(o.f s).2], obs := obs ++ [(s, g.data)] } hth
          simp only [Thread.work, List.length_cons] at hs ⊢
          omega
    | fin w =>
      cases w with
      | true =>
        have hs := sum_map_set Thread.work g.threads t _
          { prog := prog, phase := Phase.idle, results := results, obs := obs } hth
        simp only [Thread.work] at hs ⊢
        omega
      | false =>
        have hs := sum_map_set Thread.work g.threads t _
          { prog := prog, phase := Phase.idle, results := results, obs := obs } hth
        simp only [Thread.work] at hs ⊢
        omega


/-! ### the annotated lock of Part 2 moves as the protocol of Part 1 says -/

variable {σ ρ : Type}

theorem conc_lock_refines (g : Conc σ ρ) (h : LockInv g) (t : Nat) :
    (step g t).lockSt = g.lockSt ∨
    ∃ r, lockStep .arc g.lockSt r = (.ok, (step g t).lockSt) := by
  unfold step stepP
  cases hth : g.threads[t]? with
  | none => exact Or.inl rfl
  | some th =>
    obtain ⟨prog, phase, results, obs⟩ := th
    cases phase with
    | idle =>
      cases prog with
      | nil => exact Or.inl rfl
      | cons o rest =>
        simp only [Policy.excl]
        cases hw : o.write with
        | true =>
          simp only [if_true]
          split
          · rename_i hfree
            refine Or.inr ⟨.borrowMut, ?_⟩
            simp [lockStep, canWrite, Conc.lockSt, hfree.1, hfree.2]
          · exact Or.inl rfl
        | false =>
          simp only [Bool.false_eq_true, if_false]
          split
          · rename_i hfree
            refine Or.inr ⟨.borrow, ?_⟩
            simp [lockStep, canRead, Conc.lockSt, hfree]
          · exact Or.inl rfl
    | held => exact Or.inl rfl
    | loaded s =>
      cases prog with
      | nil => exact Or.inl rfl
      | cons o rest =>
        simp only []
        split <;> exact Or.inl rfl
    | fin w =>
      cases w with
      | true =>
        have hw := h.wHeld t _ hth (by simp [Thread.holdsW])
        refine Or.inr ⟨.dropWrite, ?_⟩
        simp [lockStep, Conc.lockSt, hw]
      | false =>
        have hr := h.rHeld t _ hth (by simp [Thread.holdsR])
        refine Or.inr ⟨.dropRead, ?_⟩
        have hpos : 0 < g.readers.length := List.length_pos_of_mem hr
        simp [lockStep, Conc.lockSt, List.length_erase_of_mem hr, hpos]

theorem blocked_is_block (g : Conc σ ρ) (t : Nat) (th : Thread σ ρ) (o : Op σ ρ) (rest : List (Op σ ρ))
    (ht : g.threads[t]? = some th) (hp : th.phase = .idle) (hprog : th.prog = o :: rest)
    (hne : enabled g t = false) :
    (lockStep .arc g.lockSt (if o.write then .borrowMut else .borrow)).1 = .block ∧ step g t = g := by
  obtain ⟨prog, phase, results, obs⟩ := th
  simp only at hp hprog
  subst hp hprog
  simp only [enabled, ht] at hne
  unfold step stepP
  simp only [ht, Policy.excl]
  cases hw : o.write with
  | true =>
    simp only [hw, if_true] at hne ⊢
    have hnf : ¬ (g.writer = none ∧ g.readers = []) := by
      intro ⟨h1, h2⟩
      simp [h1, h2] at hne
    refine ⟨?_, by simp [hnf]⟩
    simp only [lockStep, canWrite, Conc.lockSt, conflict]
    have hc : (!g.writer.isSome && g.readers.length == 0) = false := by
      cases hb : (!g.writer.isSome && g.readers.length == 0) with
      | false => rfl
      | true =>
        exfalso
        apply hnf
        simp only [Bool.and_eq_true, Bool.not_eq_true', beq_iff_eq, List.length_eq_zero_iff] at hb
        refine ⟨?_, hb.2⟩
        cases hwr : g.writer with
        | none => rfl
        | some w => simp [hwr] at hb
    simp [hnf]
  | false =>
    simp only [hw, Bool.false_eq_true, if_false] at hne ⊢
    have hnf : ¬ (g.writer = none) := by
      intro h1
      simp [h1] at hne
    refine ⟨?_, by simp [hnf]⟩
    simp only [lockStep, canRead, Conc.lockSt, conflict]
    have hc : (!g.writer.isSome) = false := by
      cases hwr : g.writer with
      | none => exact absurd hwr hnf
      | some w => rfl
    simp [hnf]


/-! ### several cells -/


/-- a thread obeying the one-lock-at-a-time discipline: holds nothing and is between operations, or
holds exactly the lock its next instruction releases -/
def LThread.WF (th : LThread) : Prop :=
  (th.held = [] ∧ singleLock th.prog = true) ∨
  ∃ c w rest, th.held = [(c, w)] ∧ th.prog = .rel c w :: rest ∧ singleLock rest = true

structure SysInv (s : Sys) : Prop where
  wf : ∀ t, LThread.WF (s.threads t)
  wOwner : ∀ c t, (s.locks c).writer = some t → (c, true) ∈ (s.threads t).held
  rOwner : ∀ c t, t ∈ (s.locks c).readers → (c, false) ∈ (s.threads t).held
  nodup : ∀ c, (s.locks c).readers.Nodup

theorem sysInv_init (progs : Nat → List Instr) (h : ∀ t, singleLock (progs t) = true) :
    SysInv (Sys.init progs) := by
  refine ⟨?_, ?_, ?_, ?_⟩ <;> simp [Sys.init, LThread.WF, h]

theorem singleLock_acq {c : Nat} {w : Bool} {rest : List Instr} (h : singleLock (.acq c w :: rest) = true) :
    ∃ rest', rest = .rel c w :: rest' ∧ singleLock rest' = true := by
  cases rest with
  | nil => simp [singleLock] at h
  | cons i rest' =>
    cases i with
    | acq c' w' => simp [singleLock] at h
    | rel c' w' =>
      simp [singleLock] at h
      obtain ⟨⟨h1, h2⟩, h3⟩ := h
      subst h1 h2
      exact ⟨rest', rfl, h3⟩

theorem sysInv_step (s : Sys) (t : Nat) (h : SysInv s) : SysInv (s.step t) := by
  obtain ⟨hwf, hwo, hro, hnd⟩ := h
  unfold Sys.step
  simp only []
  have hwft := hwf t
  cases hp : (s.threads t).prog with
  | nil => exact ⟨hwf, hwo, hro, hnd⟩
  | cons i rest =>
    cases i with
    | acq c w =>
      simp only []
      split
      · rename_i hfree
        -- t holds nothing (its next instruction is an acquire)
        have hheld : (s.threads t).held = [] ∧ ∃ rest', rest = .rel c w :: rest' ∧ singleLock rest' = true := by
          rcases hwft with ⟨h1, h2⟩ | ⟨c', w', rest', h1, h2, h3⟩
          · rw [hp] at h2
            exact ⟨h1, singleLock_acq h2⟩
          · rw [hp] at h2; simp at h2
        obtain ⟨hh, rest', hr, hsl⟩ := hheld
        refine ⟨?_, ?_, ?_, ?_⟩
        · intro u
          by_cases hut : u = t
          · subst hut
            simp only [upd, if_true]
            exact Or.inr ⟨c, w, rest', by simp [hh], hr, hsl⟩
          · simp only [upd, hut, if_false]; exact hwf u
        · intro c' u hw'
          by_cases hcc : c' = c
          · subst hcc
            cases w with
            | true =>
              simp [upd] at hw'
              subst hw'
              simp [upd]
            | false =>
              simp [upd] at hw'
              simp [lockFree] at hfree
              simp [hfree] at hw'
          · simp only [upd, hcc, if_false] at hw'
            have := hwo c' u hw'
            by_cases hut : u = t
            · subst hut; simp [hh] at this
            · simp only [upd, hut, if_false]; exact this
        · intro c' u hr'
          by_cases hcc : c' = c
          · subst hcc
            cases w with
            | true =>
              simp [upd] at hr'
              simp [lockFree] at hfree
              simp [hfree.2] at hr'
            | false =>
              simp [upd] at hr'
              rcases hr' with hr' | hr'
              · subst hr'; simp [upd]
              · have := hro c' u hr'
                by_cases hut : u = t
                · subst hut; simp [hh] at this
                · simp only [upd, hut, if_false]; exact this
          · simp only [upd, hcc, if_false] at hr'
            have := hro c' u hr'
            by_cases hut : u = t
            · subst hut; simp [hh] at this
            · simp only [upd, hut, if_false]; exact this
        · intro c'
          by_cases hcc : c' = c
          · subst hcc
            cases w with
            | true => simp [upd]; exact hnd c'
            | false =>
              simp [upd]
              refine ⟨?_, hnd c'⟩
              intro hmem
              have := hro c' t hmem
              simp [hh] at this
          · simp only [upd, hcc, if_false]; exact hnd c'
      · exact ⟨hwf, hwo, hro, hnd⟩
    | rel c w =>
      simp only []
      -- t holds exactly (c, w)
      have hheld : (s.threads t).held = [(c, w)] ∧ singleLock rest = true := by
        rcases hwft with ⟨h1, h2⟩ | ⟨c', w', rest', h1, h2, h3⟩
        · rw [hp] at h2; simp [singleLock] at h2
        · rw [hp] at h2
          simp at h2
          obtain ⟨⟨e1, e2⟩, e3⟩ := h2
          subst e1 e2 e3
          exact ⟨h1, h3⟩
      obtain ⟨hh, hsl⟩ := hheld
      refine ⟨?_, ?_, ?_, ?_⟩
      · intro u
        by_cases hut : u = t
        · subst hut
          simp only [upd, if_true]
          exact Or.inl ⟨by simp [hh], hsl⟩
        · simp only [upd, hut, if_false]; exact hwf u
      · intro c' u hw'
        by_cases hcc : c' = c
        · subst hcc
          cases w with
          | true => simp [upd] at hw'
          | false =>
            simp [upd] at hw'
            have := hwo c' u hw'
            by_cases hut : u = t
            · subst hut; simp [hh] at this
            · simp only [upd, hut, if_false]; exact this
        · simp only [upd, hcc, if_false] at hw'
          have := hwo c' u hw'
          by_cases hut : u = t
          · subst hut; simp [hh] at this; exact absurd this.1 hcc
          · simp only [upd, hut, if_false]; exact this
      · intro c' u hr'
        by_cases hcc : c' = c
        · subst hcc
          cases w with
          | true =>
            simp [upd] at hr'
            have := hro c' u hr'
            by_cases hut : u = t
            · subst hut; simp [hh] at this
            · simp only [upd, hut, if_false]; exact this
          | false =>
            simp [upd] at hr'
            rw [List.Nodup.mem_erase_iff (hnd c')] at hr'
            have := hro c' u hr'.2
            simp only [upd, hr'.1, if_false]; exact this
        · simp only [upd, hcc, if_false] at hr'
          have := hro c' u hr'
          by_cases hut : u = t
          · subst hut; simp [hh] at this; exact absurd this.1 hcc
          · simp only [upd, hut, if_false]; exact this
      · intro c'
        by_cases hcc : c' = c
        · subst hcc
          cases w with
          | true => simp [upd]; exact hnd c'
          | false => simp [upd]; exact List.Nodup.erase _ (hnd c')
        · simp only [upd, hcc, if_false]; exact hnd c'

theorem sysInv_exec (s : Sys) (sched : List Nat) (h : SysInv s) : SysInv (s.exec sched) := by
  induction sched generalizing s with
  | nil => exact h
  | cons t rest ih => exact ih _ (sysInv_step s t h)

theorem holder_enabled (s : Sys) (h : SysInv s) (t : Nat) (hh : (s.threads t).held ≠ []) :
    s.enabled t = true := by
  rcases h.wf t with ⟨h1, _⟩ | ⟨c, w, rest, _, h2, _⟩
  · exact absurd h1 hh
  · simp [Sys.enabled, h2]

theorem sys_progress (s : Sys) (h : SysInv s) (u : Nat) (hu : (s.threads u).prog ≠ []) :
    ∃ t, s.enabled t = true := by
  cases hp : (s.threads u).prog with
  | nil => exact absurd hp hu
  | cons i rest =>
    cases i with
    | rel c w => exact ⟨u, by simp [Sys.enabled, hp]⟩
    | acq c w =>
      cases hwr : (s.locks c).writer with
      | some t' =>
        have := h.wOwner c t' hwr
        exact ⟨t', holder_enabled s h t' (by intro hnil; simp [hnil] at this)⟩
      | none =>
        cases hrd : (s.locks c).readers with
        | nil => exact ⟨u, by cases w <;> simp [Sys.enabled, hp, lockFree, hwr, hrd]⟩
        | cons r rs =>
          cases w with
          | false => exact ⟨u, by simp [Sys.enabled, hp, lockFree, hwr]⟩
          | true =>
            have := h.rOwner c r (by simp [hrd])
            exact ⟨r, holder_enabled s h r (by intro hnil; simp [hnil] at this)⟩


end KotoVerif.C19
