/-
C16 helper lemmas about `Model/Types.lean`: the `@base` loop and the special-name table.
-/
import KotoVerif.Model.Types

namespace KotoVerif.C16
open KotoVerif.Types KotoVerif.Gen.TypeNames

/-- `h` is one of the names `compare_value_type` treats specially -/
def isSpecial (h : TyName) : Prop :=
  h = name_always ∨ h = name_callable ∨ h = name_indexable ∨ h = name_iterable

theorem isNull_iff (v : V) : v.isNull = true ↔ v = V.null := by
  cases v <;> simp [V.isNull]

theorem base_none_of_not_obj (v : V) (hv : ∀ ty fl es b, v = V.obj ty fl es (some b) → False) : v.base = none := by
  cases v with
  | obj ty fl es b =>
    cases b with
    | none => rfl
    | some b => exact (hv ty fl es b rfl).elim
  | _ => rfl

theorem baseChain_iff (h : TyName) (v : V) :
    baseChain h v = true ↔ ∃ k w, V.baseIter (k + 1) v = some w ∧ typeName w = h := by
  fun_induction baseChain h v with
  | case1 ty fl es b ih =>
    simp only [Bool.or_eq_true, beq_iff_eq, ih]
    constructor
    · rintro (h0 | ⟨k, w, hk, hw⟩)
      · exact ⟨0, b, rfl, h0⟩
      · exact ⟨k + 1, w, hk, hw⟩
    · rintro ⟨k, w, hk, hw⟩
      cases k with
      | zero =>
        left
        simp [V.baseIter, V.base] at hk
        rw [hk]; exact hw
      | succ k => exact Or.inr ⟨k, w, hk, hw⟩
  | case2 v hv =>
    have hb := base_none_of_not_obj v hv
    simp [V.baseIter, hb]

theorem special_cases (h : TyName) :
    (specialLookup h specialTable = some .always ∧ h = name_always) ∨
    (specialLookup h specialTable = some .callable ∧ h = name_callable) ∨
    (specialLookup h specialTable = some .indexable ∧ h = name_indexable) ∨
    (specialLookup h specialTable = some .iterable ∧ h = name_iterable) ∨
    (specialLookup h specialTable = none ∧ ¬ isSpecial h) := by
  by_cases h1 : h = name_always
  · subst h1; exact Or.inl ⟨by decide, rfl⟩
  by_cases h2 : h = name_callable
  · subst h2; exact Or.inr (Or.inl ⟨by decide, rfl⟩)
  by_cases h3 : h = name_indexable
  · subst h3; exact Or.inr (Or.inr (Or.inl ⟨by decide, rfl⟩))
  by_cases h4 : h = name_iterable
  · subst h4; exact Or.inr (Or.inr (Or.inr (Or.inl ⟨by decide, rfl⟩)))
  refine Or.inr (Or.inr (Or.inr (Or.inr ⟨?_, ?_⟩)))
  · simp only [name_always, name_callable, name_indexable, name_iterable] at h1 h2 h3 h4
    simp [specialLookup, specialTable, h1, h2, h3, h4]
  · rintro (h | h | h | h) <;> contradiction

end KotoVerif.C16
