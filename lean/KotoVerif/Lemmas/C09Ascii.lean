/-
C09 helper lemmas: ASCII runs (prefixes whose byte count equals their character count and that
contain no line break), `countWhile`, `countWhileUtf8`, `startsWith`.
-/
import KotoVerif.Lemmas.C09Basic

namespace KotoVerif.Lexer

/-- an ASCII character other than the line feed: one byte, no line break -/
def plain (cp : Nat) : Bool := cp < 128 && cp != cpNL

/-- length of the longest prefix of plain characters -/
def asciiRun : List Ch → Nat
  | [] => 0
  | c :: cs => if plain c.cp then 1 + asciiRun cs else 0

theorem plain_len {c : Ch} (h : plain c.cp = true) : c.len = 1 := by
  simp [plain] at h
  exact utf8Len_ascii h.1

theorem plain_not_nl {c : Ch} (h : plain c.cp = true) : ¬ c.cp = cpNL := by
  simp [plain] at h
  exact h.2

theorem asciiRun_le_length (cs : List Ch) : asciiRun cs ≤ cs.length := by
  induction cs with
  | nil => simp [asciiRun]
  | cons c cs ih => simp only [asciiRun]; split <;> simp <;> omega

/-- within an ASCII run, bytes = characters and there is no line break -/
theorem take_asciiRun : ∀ (cs : List Ch) (k : Nat), k ≤ asciiRun cs →
    byteLen (cs.take k) = k ∧ nlCount (cs.take k) = 0 := by
  intro cs
  induction cs with
  | nil => intro k h; simp [asciiRun] at h; subst h; simp
  | cons c cs ih =>
    intro k h
    cases k with
    | zero => simp
    | succ k =>
      simp only [asciiRun] at h
      split at h
      · rename_i hp
        have := ih k (by omega)
        simp [List.take_succ_cons, nlCount_cons, plain_len hp, plain_not_nl hp, this]
        omega
      · omega

theorem asciiRun_drop_add : ∀ (cs : List Ch) (k j : Nat), k ≤ asciiRun cs → j ≤ asciiRun (cs.drop k) →
    k + j ≤ asciiRun cs := by
  intro cs
  induction cs with
  | nil => intro k j hk hj; simp [asciiRun] at hk; subst hk; simpa using hj
  | cons c cs ih =>
    intro k j hk hj
    cases k with
    | zero => simpa using hj
    | succ k =>
      simp only [asciiRun] at hk ⊢
      split at hk
      · rename_i hp
        simp only [hp, if_true]
        have := ih k j (by omega) (by simpa using hj)
        omega
      · omega

/-! ### countWhile -/

theorem countWhile_le_asciiRun (p : Nat → Bool) (hp : ∀ cp, p cp = true → plain cp = true) :
    ∀ cs : List Ch, countWhile p cs ≤ asciiRun cs := by
  intro cs
  induction cs with
  | nil => simp [countWhile]
  | cons c cs ih =>
    simp only [countWhile, asciiRun]
    split
    · rename_i h; simp [hp _ h]; omega
    · omega

theorem peekIs_asciiRun {cs : List Ch} {cp : Nat} (h : peekIs cs cp = true) (hp : plain cp = true) :
    1 ≤ asciiRun cs := by
  cases cs with
  | nil => simp [peekIs] at h
  | cons c cs =>
    simp [peekIs] at h
    simp [asciiRun, h, hp]

theorem peekSat_asciiRun {cs : List Ch} {p : Nat → Bool} (h : peekSat cs p = true)
    (hp : ∀ cp, p cp = true → plain cp = true) : 1 ≤ asciiRun cs := by
  cases cs with
  | nil => simp [peekSat] at h
  | cons c cs =>
    simp [peekSat] at h
    simp [asciiRun, hp _ h]

/-! ### startsWith -/

theorem startsWith_asciiRun : ∀ (pat : List Nat) (cs : List Ch), startsWith pat cs = true →
    (∀ cp ∈ pat, plain cp = true) → pat.length ≤ asciiRun cs := by
  intro pat
  induction pat with
  | nil => intro cs _ _; simp
  | cons q qs ih =>
    intro cs h hp
    cases cs with
    | nil => simp [startsWith] at h
    | cons c cs =>
      simp only [startsWith, Bool.and_eq_true, beq_iff_eq] at h
      have hq : plain c.cp = true := by rw [h.1]; exact hp q (by simp)
      have := ih cs h.2 (fun cp hcp => hp cp (by simp [hcp]))
      simp [asciiRun, hq]; omega

/-- if the code points of the first `n` characters are plain then `n ≤ asciiRun` -/
theorem map_cp_asciiRun : ∀ (cs : List Ch) (n : Nat), n ≤ cs.length →
    (∀ cp ∈ (cs.take n).map (·.cp), plain cp = true) → n ≤ asciiRun cs := by
  intro cs
  induction cs with
  | nil => intro n h _; simp at h; subst h; simp
  | cons c cs ih =>
    intro n h hp
    cases n with
    | zero => omega
    | succ n =>
      have hc : plain c.cp = true := hp c.cp (by simp [List.take_succ_cons])
      have := ih n (by simpa using h) (fun cp hcp => hp cp (by
        simp only [List.take_succ_cons, List.map_cons, List.mem_cons]; exact Or.inr hcp))
      simp [asciiRun, hc]; omega

/-! ### countWhileUtf8 -/

theorem countWhileUtf8_spec (q : Ch → Bool) : ∀ cs : List Ch,
    (countWhileUtf8 q cs).1 = byteLen (cs.takeWhile q) := by
  intro cs
  induction cs with
  | nil => simp [countWhileUtf8]
  | cons c cs ih =>
    simp only [countWhileUtf8, List.takeWhile_cons]
    split
    · simp [ih]
    · simp

theorem nlCount_takeWhile (q : Ch → Bool) (hq : ∀ c, q c = true → ¬ c.cp = cpNL) :
    ∀ cs : List Ch, nlCount (cs.takeWhile q) = 0 := by
  intro cs
  induction cs with
  | nil => simp
  | cons c cs ih =>
    simp only [List.takeWhile_cons]
    split
    · rename_i h; simp [nlCount_cons, hq c h, ih]
    · simp

theorem takeWhile_eq_take (q : Ch → Bool) (cs : List Ch) :
    cs.takeWhile q = cs.take (cs.takeWhile q).length := by
  induction cs with
  | nil => simp
  | cons c cs ih =>
    simp only [List.takeWhile_cons]
    split
    · simp only [List.length_cons, List.take_succ_cons]; rw [← ih]
    · simp

end KotoVerif.Lexer
