/-
C05 `compile_wf`, statement layer, part 5: per-instruction facts of `encL` and the acceptance theorem
`wfChunk_encodeProg` for structured loop code.
-/
import KotoVerif.Lemmas.C05CWLoop4

set_option linter.unusedSimpArgs false

namespace KotoVerif.Compile
open KotoVerif.Gen KotoVerif.Bytecode

def lflatRegs : LFlat → List Reg
  | .op i => instrRegs i
  | .jumpIfFalse r _ => [r]
  | .jumpIfTrue r _ => [r]
  | .jump _ => []
  | .jumpBack _ => []

theorem instrOk_jb (consts : List CKind) (rc off : Nat) (ho : off < 65536) :
    InstrOk consts rc ⟨.JumpBack, [off]⟩ := by
  constructor <;> simp [Instr.valid, Instr.fields, Instr.staticArgs, layout, tailLayout, fieldsOk, fieldOk,
    applyEff, linStep, regsOk, regAccesses, regOperands, windowTop, constsOk, constOperands] <;> omega

theorem sizeOfL_take_le (cidx : Int → Nat) (l : List LFlat) (k : Nat) : sizeOfL cidx (l.take k) ≤ sizeOfL cidx l := by
  have := sizeOfL_append cidx (l.take k) (l.drop k)
  rw [List.take_append_drop] at this
  omega

theorem encL_ok (cidx : Int → Nat) (consts : List CKind) (rc : Nat) (hrc : rc ≤ 255)
    (hc : ∀ n, cidx n < 4294967296 ∧ consts[cidx n]? = some .int) (fs : List LFlat) :
    ∀ done, (∀ f ∈ fs, ∀ r ∈ lflatRegs f, r < rc) → sizeOfL cidx done + sizeOfL cidx fs ≤ 65535 →
      ∀ i ∈ encL cidx done fs, InstrOk consts rc i := by
  induction fs with
  | nil => intro done _ _ i hi; simp [encL] at hi
  | cons f rest ih =>
    intro done hr hsz i hi
    have hcons : sizeOfL cidx (f :: rest) = lflatSize cidx f + sizeOfL cidx rest := sizeOfL_cons cidx f rest
    have ih' := ih (f :: done) (fun g hg => hr g (by simp [hg])) (by rw [sizeOfL_cons]; omega)
    have hoff : ∀ k, sizeOfL cidx (rest.take k) < 65536 := by
      intro k; have := sizeOfL_take_le cidx rest k; omega
    cases f with
    | op x =>
      simp only [encL, List.mem_cons] at hi
      rcases hi with rfl | hi
      · have hf := encInstr_facts cidx consts rc x hrc (fun r hr' => hr (.op x) (by simp) r (by simpa [lflatRegs] using hr')) hc
        exact ⟨hf.valid, hf.notFn, hf.notNf, hf.neutral, hf.lin, hf.regs, hf.consts⟩
      · exact ih' i hi
    | jumpIfFalse r k =>
      simp only [encL, List.mem_cons] at hi
      rcases hi with rfl | hi
      · exact instrOk_jif consts rc r _ hrc (hr (.jumpIfFalse r k) (by simp) r (by simp [lflatRegs])) (hoff k)
      · exact ih' i hi
    | jumpIfTrue r k =>
      simp only [encL, List.mem_cons] at hi
      rcases hi with rfl | hi
      · exact instrOk_jit consts rc r _ hrc (hr (.jumpIfTrue r k) (by simp) r (by simp [lflatRegs])) (hoff k)
      · exact ih' i hi
    | jump k =>
      simp only [encL, List.mem_cons] at hi
      rcases hi with rfl | hi
      · exact instrOk_jump consts rc _ (hoff k)
      · exact ih' i hi
    | jumpBack k =>
      simp only [encL, List.mem_cons] at hi
      rcases hi with rfl | hi
      · have := sizeOfL_take_le cidx done (k - 1)
        have h3 : lflatSize cidx (.jumpBack k) = 3 := rfl
        exact instrOk_jb consts rc _ (by omega)
      · exact ih' i hi

/-- **byte level, structured loop code**: `NewFrame rc; c; Return r` with `c` from the fragment
(conditions, `if`, `while` / `until`, blocks) is accepted by the verifier. -/
theorem wfChunk_encodeProg (cidx : Int → Nat) (consts : List CKind) (rc r : Nat) (c : LCode) (hs : Simple c)
    (hrc : rc ≤ 255) (hr : r < rc) (hregs : ∀ f ∈ flatS c, ∀ q ∈ lflatRegs f, q < rc)
    (hsz : sizeOfL cidx (flatS c) ≤ 65535)
    (hc : ∀ n, cidx n < 4294967296 ∧ consts[cidx n]? = some .int) :
    wfChunk (encodeProg cidx rc (flatS c) r) consts = true := by
  have hbody : ∀ i ∈ encL cidx [] (flatS c) ++ [⟨.Return, [r]⟩], InstrOk consts rc i := by
    intro i hi
    simp only [List.mem_append, List.mem_singleton] at hi
    rcases hi with hi | rfl
    · exact encL_ok cidx consts rc hrc hc _ [] hregs (by simpa [sizeOfL_nil] using hsz) i hi
    · exact instrOk_return consts rc r hrc hr
  have hnfsize : esize ⟨.NewFrame, [rc]⟩ = 2 := by
    simp [esize, encode, Instr.fields, Instr.staticArgs, layout, tailLayout, encodeFields, encodeField, Op.code]
  have hretsize : esize ⟨.Return, [r]⟩ = 2 := by
    simp [esize, encode, Instr.fields, Instr.staticArgs, layout, tailLayout, encodeFields, encodeField, Op.code]
  have hlay : lay (some Z) 0 (⟨.NewFrame, [rc]⟩ :: (encL cidx [] (flatS c) ++ [⟨.Return, [r]⟩]))
      = ⟨0, 2, ⟨.NewFrame, [rc]⟩, some Z⟩ ::
          (SL cidx c 2 ++ [⟨2 + szL cidx c, 2, ⟨.Return, [r]⟩, some Z⟩]) := by
    simp only [lay, hnfsize, lay_append, esizes_encL, hretsize, SL, szL, Nat.zero_add]
  obtain ⟨hcov, hexit, hlands⟩ := block_okL cidx c hs 2 true
    (fwdTgts ⟨0, 2, ⟨.NewFrame, [rc]⟩, some Z⟩ ++ []) (.inl rfl)
  have hsuccNF : succPcs ⟨0, 2, ⟨.NewFrame, [rc]⟩, some Z⟩ = some [2] := by
    simp [succPcs, fwdOffsets, Instr.fields, Instr.staticArgs, layout, tailLayout, Ann.next]
  have hsuccRet : succPcs ⟨2 + szL cidx c, 2, ⟨.Return, [r]⟩, some Z⟩ = some [] := by
    simp [succPcs]
  unfold encodeProg
  apply wfChunk_of_program rc _ consts
  · intro i hi
    simp only [List.mem_cons] at hi
    rcases hi with rfl | hi
    · simp [Instr.valid, Instr.fields, Instr.staticArgs, layout, tailLayout, fieldsOk, fieldOk]; omega
    · exact (hbody i hi).valid
  · exact fun i hi => (hbody i hi).notFn
  · exact fun i hi => (hbody i hi).notNf
  · exact fun i hi => (hbody i hi).neutral
  · exact fun i hi => (hbody i hi).lin
  · exact fun i hi => (hbody i hi).regs
  · exact fun i hi => (hbody i hi).consts
  · rw [hlay]
    refine ⟨.inl rfl, ?_⟩
    have hterm : isTerminal (⟨0, 2, ⟨.NewFrame, [rc]⟩, some Z⟩ : Ann).ins.op = false := by simp [isTerminal]
    simp only [hterm, Bool.not_false]
    exact CovU_append _ _ _ _ hcov ⟨hexit, trivial⟩
  · rw [hlay]
    refine ⟨⟨_, hsuccNF, ?_⟩, ?_⟩
    · intro p hp
      simp at hp
      subst hp
      left
      refine ⟨by simp, ?_⟩
      rcases SL_start cidx c 2 with ⟨h1, h2⟩ | ⟨b, rest, h1, h2⟩
      · exact ⟨⟨2 + szL cidx c, 2, ⟨.Return, [r]⟩, some Z⟩, by simp, by simp [h2]⟩
      · exact ⟨b, by simp [h1], h2⟩
    · refine TgtOkS_append _ _ (2 + szL cidx c) _ (LandsB_mono _ _ [] _ (by simp) hlands) ?_ ⟨_, _, rfl, rfl⟩
      exact ⟨⟨_, hsuccRet, by simp⟩, trivial⟩

end KotoVerif.Compile
