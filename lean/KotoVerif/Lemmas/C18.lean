/-
Helper lemmas for C18: the state invariant `Inv`, the step relation `Rel`, and the proof that every
executable piece of `Model/Modules.lean` is `Sound` (preserves `Inv` and relates its input and
output state by `Rel`) for every fuel.
-/
import KotoVerif.Model.Modules

namespace KotoVerif.C18L
open KotoVerif.Modules

/-! ### predicates -/

def doneB (c : Path → Option Entry) (p : Path) : Bool :=
  match c p with
  | some (.done _) => true
  | _ => false

def inProgB (c : Path → Option Entry) (p : Path) : Bool :=
  match c p with
  | some .inProgress => true
  | _ => false

/-- events a script can print; the others are emitted by `run_import` only -/
def Event.obs : Event → Bool
  | .print _ => true
  | .show _ _ => true
  | .caught _ _ => true
  | _ => false

/-- invariant of reachable runtimes:
* a cached module's chunk is in the loader's cache (so `loaded_from_cache` holds for it);
* `done p` was reported exactly once iff `p` is cached;
* every start of `p` has ended (successfully or not) unless `p` is in progress right now. -/
structure Inv (s : St) : Prop where
  loaded : ∀ p e, s.cache p = some (.done e) → s.loader p = true
  cntDone : ∀ p, s.out.count (.done p) = if doneB s.cache p then 1 else 0
  cntEnter : ∀ p, s.out.count (.enter p)
      = s.out.count (.done p) + s.out.count (.failed p) + (if inProgB s.cache p then 1 else 0)

/-- what any piece of execution may do to the runtime -/
structure Rel (s s' : St) : Prop where
  out : ∃ t, s'.out = s.out ++ t ∧ ∀ p, doneB s.cache p = true → Event.enter p ∉ t
  loader : ∀ p, s.loader p = true → s'.loader p = true
  done : ∀ p e, s.cache p = some (.done e) → s'.cache p = some (.done e)
  prog : ∀ p, s.cache p = some .inProgress → s'.cache p = some .inProgress
  clean : ∀ p, s.cache p = none → s'.cache p ≠ some .inProgress

def Sound (s s' : St) : Prop := Inv s → Inv s' ∧ Rel s s'

theorem doneB_of_eq {c : Path → Option Entry} {p : Path} {e : Exports} (h : c p = some (.done e)) :
    doneB c p = true := by simp [doneB, h]

theorem doneB_true {c : Path → Option Entry} {p : Path} (h : doneB c p = true) :
    ∃ e, c p = some (.done e) := by
  unfold doneB at h
  split at h
  · exact ⟨_, by assumption⟩
  · simp at h

theorem Rel.refl (s : St) : Rel s s :=
  ⟨⟨[], by simp⟩, fun _ h => h, fun _ _ h => h, fun _ h => h, fun _ h => by simp [h]⟩

theorem Rel.trans {a b c : St} (h1 : Rel a b) (h2 : Rel b c) : Rel a c := by
  obtain ⟨t1, e1, n1⟩ := h1.out
  obtain ⟨t2, e2, n2⟩ := h2.out
  refine ⟨⟨t1 ++ t2, by rw [e2, e1, List.append_assoc], ?_⟩, ?_, ?_, ?_, ?_⟩
  · intro p hp
    obtain ⟨e, he⟩ := doneB_true hp
    have hb : doneB b.cache p = true := doneB_of_eq (h1.done p e he)
    simp only [List.mem_append, not_or]
    exact ⟨n1 p hp, n2 p hb⟩
  · exact fun p h => h2.loader p (h1.loader p h)
  · exact fun p e h => h2.done p e (h1.done p e h)
  · exact fun p h => h2.prog p (h1.prog p h)
  · intro p h
    cases hb : b.cache p with
    | none => exact h2.clean p hb
    | some en =>
      cases en with
      | inProgress => exact absurd hb (h1.clean p h)
      | done e => rw [h2.done p e hb]; simp

theorem Sound.refl (s : St) : Sound s s := fun h => ⟨h, Rel.refl s⟩

theorem Sound.trans {a b c : St} (h1 : Sound a b) (h2 : Sound b c) : Sound a c := fun h =>
  let ⟨ib, r1⟩ := h1 h
  let ⟨ic, r2⟩ := h2 ib
  ⟨ic, r1.trans r2⟩

/-! ### steps that do not touch the caches -/

theorem count_append_obs (e : Event) (he : Event.obs e = false) (l t : List Event)
    (ht : ∀ x ∈ t, Event.obs x = true) : (l ++ t).count e = l.count e := by
  rw [List.count_append]
  have : t.count e = 0 := by
    rw [List.count_eq_zero]
    intro hmem
    have := ht e hmem
    rw [he] at this
    cases this
  omega

/-- same caches, output extended by script-printable events only -/
theorem sound_local {s s' : St} (hl : s'.loader = s.loader) (hc : s'.cache = s.cache)
    (t : List Event) (ho : s'.out = s.out ++ t) (ht : ∀ x ∈ t, Event.obs x = true) : Sound s s' := by
  intro inv
  refine ⟨⟨?_, ?_, ?_⟩, ⟨⟨t, ho, ?_⟩, ?_, ?_, ?_, ?_⟩⟩
  · intro p e h; rw [hl]; rw [hc] at h; exact inv.loaded p e h
  · intro p; rw [ho, hc, count_append_obs _ rfl _ _ ht]; exact inv.cntDone p
  · intro p
    rw [ho, hc, count_append_obs _ rfl _ _ ht, count_append_obs _ rfl _ _ ht, count_append_obs _ rfl _ _ ht]
    exact inv.cntEnter p
  · intro p _ hmem; have := ht _ hmem; cases this
  · intro p h; rw [hl]; exact h
  · intro p e h; rw [hc]; exact h
  · intro p h; rw [hc]; exact h
  · intro p h; rw [hc, h]; simp

theorem sound_exports (s : St) (e : Exports) : Sound s { s with exports := e } :=
  sound_local rfl rfl [] (by simp) (by simp)

theorem sound_setData (k : Name) (v : V) (s : St) : Sound s (setData k v s) :=
  sound_exports s _

theorem sound_exportIf (b : Bool) (k : Name) (v : V) (s : St) : Sound s (exportIf b k v s) := by
  unfold exportIf; split
  · exact sound_setData k v s
  · exact Sound.refl s

theorem sound_exportItem (b al sa : Bool) (it : Item) (v : V) (s : St) :
    Sound s (exportItem b al sa it v s) := by
  unfold exportItem; split
  · exact sound_exportIf _ _ _ _
  · exact Sound.refl s

theorem sound_emit_obs (e : Event) (he : Event.obs e = true) (s : St) : Sound s (emit e s) :=
  sound_local rfl rfl [e] rfl (by simp [he])

theorem sound_exportAll (es : List (Name × V)) (s : St) : Sound s (exportAll es s) := by
  induction es generalizing s with
  | nil => exact Sound.refl s
  | cons kv rest ih =>
    obtain ⟨k, v⟩ := kv
    exact (sound_setData k v s).trans (ih _)

/-! ### `run_import` -/

/-- the runner used for nested execution is sound on every call -/
def RecSound (rec : Runner) : Prop :=
  ∀ self dir body s r s', rec self dir body s = some (r, s') → Sound s s'

theorem upd_same {α : Type} (f : Path → α) (p : Path) (a : α) : upd f p a p = a := by simp [upd]

theorem upd_other {α : Type} (f : Path → α) (p q : Path) (a : α) (h : q ≠ p) : upd f p a q = f q := by
  simp [upd, h]

theorem doneB_upd_other (c : Path → Option Entry) (p q : Path) (x : Option Entry) (h : q ≠ p) :
    doneB (upd c p x) q = doneB c q := by simp [doneB, upd, h]

theorem inProgB_upd_other (c : Path → Option Entry) (p q : Path) (x : Option Entry) (h : q ≠ p) :
    inProgB (upd c p x) q = inProgB c q := by simp [inProgB, upd, h]

theorem doneB_upd_done (c : Path → Option Entry) (p : Path) (e : Exports) :
    doneB (upd c p (some (.done e))) p = true := by simp [doneB, upd]

theorem doneB_upd_prog (c : Path → Option Entry) (p : Path) :
    doneB (upd c p (some .inProgress)) p = false := by simp [doneB, upd]

theorem doneB_upd_none (c : Path → Option Entry) (p : Path) :
    doneB (upd c p none) p = false := by simp [doneB, upd]

theorem inProgB_upd_done (c : Path → Option Entry) (p : Path) (e : Exports) :
    inProgB (upd c p (some (.done e))) p = false := by simp [inProgB, upd]

theorem inProgB_upd_prog (c : Path → Option Entry) (p : Path) :
    inProgB (upd c p (some .inProgress)) p = true := by simp [inProgB, upd]

theorem inProgB_upd_none (c : Path → Option Entry) (p : Path) :
    inProgB (upd c p none) p = false := by simp [inProgB, upd]

theorem count_snoc (e x : Event) (l : List Event) :
    (l ++ [x]).count e = l.count e + (if x = e then 1 else 0) := by
  rw [List.count_append, List.count_singleton]
  by_cases h : x = e
  · simp [h]
  · have : (x == e) = false := by simpa using h
    simp [h, this]

theorem compileModule_spec {fs : FS} {p : Path} {s s1 : St} {b : Bool}
    (h : compileModule fs p s = some (b, s1)) :
    s1.cache = s.cache ∧ s1.exports = s.exports ∧ s1.out = s.out ∧ s1.loader p = true
      ∧ (∀ q, s.loader q = true → s1.loader q = true) ∧ (b = false → s.loader p = false)
      ∧ (b = true → s1 = s) := by
  unfold compileModule at h
  split at h
  · rename_i hl
    simp only [Option.some.injEq, Prod.mk.injEq] at h
    obtain ⟨hb, hs⟩ := h
    subst hs; subst hb
    exact ⟨rfl, rfl, rfl, hl, fun _ h => h, by simp, fun _ => rfl⟩
  · rename_i hl
    split at h
    · simp only [Option.some.injEq, Prod.mk.injEq] at h
      obtain ⟨hb, hs⟩ := h
      subst hs; subst hb
      refine ⟨rfl, rfl, rfl, by simp [upd], ?_, fun _ => by simpa using hl, by simp⟩
      intro q hq
      by_cases hqp : q = p
      · simp [upd, hqp]
      · simp [upd, hqp, hq]
    · cases h

theorem sound_compileModule {fs : FS} {p : Path} {s s1 : St} {b : Bool}
    (h : compileModule fs p s = some (b, s1)) : Sound s s1 := by
  obtain ⟨hc, _, ho, _, hl, _, _⟩ := compileModule_spec h
  intro inv
  refine ⟨⟨?_, ?_, ?_⟩, ⟨⟨[], by simp [ho], by simp⟩, hl, ?_, ?_, ?_⟩⟩
  · intro q e hq; rw [hc] at hq; exact hl q (inv.loaded q e hq)
  · intro q; rw [ho, hc]; exact inv.cntDone q
  · intro q; rw [ho, hc]; exact inv.cntEnter q
  · intro q e hq; rw [hc]; exact hq
  · intro q hq; rw [hc]; exact hq
  · intro q hq; rw [hc, hq]; simp

theorem ev_enter_ne {p q : Path} (h : q ≠ p) : ¬ (Event.enter p = Event.enter q) := by
  intro hh; injection hh with hh; exact h hh.symm

theorem ev_done_ne {p q : Path} (h : q ≠ p) : ¬ (Event.done p = Event.done q) := by
  intro hh; injection hh with hh; exact h hh.symm

theorem ev_failed_ne {p q : Path} (h : q ≠ p) : ¬ (Event.failed p = Event.failed q) := by
  intro hh; injection hh with hh; exact h hh.symm

/-- the heart of C18: executing a module that is neither cached nor in progress -/
theorem sound_loadModule {fs : FS} {rec : Runner} (hrec : RecSound rec) {p : Path} {s s' : St}
    {r : Except Err V} (hnone : s.cache p = none) (hload : s.loader p = true)
    (h : loadModule fs rec p s = some (r, s')) : Sound s s' := by
  intro inv
  unfold loadModule at h
  dsimp only at h
  -- the state in which the module starts
  generalize hs2 : emit (Event.enter p)
      { s with cache := upd s.cache p (some Entry.inProgress), exports := {} } = s2 at h
  have s2out : s2.out = s.out ++ [Event.enter p] := by subst hs2; rfl
  have s2cache : s2.cache = upd s.cache p (some Entry.inProgress) := by subst hs2; rfl
  have s2loader : s2.loader = s.loader := by subst hs2; rfl
  have hdoneB_p : doneB s.cache p = false := by simp [doneB, hnone]
  have hinB_p : inProgB s.cache p = false := by simp [inProgB, hnone]
  have inv2 : Inv s2 := by
    refine ⟨?_, ?_, ?_⟩
    · intro q e hq
      rw [s2cache] at hq
      by_cases hqp : q = p
      · subst hqp; rw [upd_same] at hq; cases hq
      · rw [upd_other _ _ _ _ hqp] at hq; rw [s2loader]; exact inv.loaded q e hq
    · intro q
      rw [s2out, count_snoc, s2cache]
      have := inv.cntDone q
      by_cases hqp : q = p
      · subst hqp
        rw [doneB_upd_prog]; rw [hdoneB_p] at this
        simp [this]
      · rw [doneB_upd_other _ _ _ _ hqp]
        simp [this]
    · intro q
      rw [s2out, count_snoc, count_snoc, count_snoc, s2cache]
      have := inv.cntEnter q
      by_cases hqp : q = p
      · subst hqp
        rw [inProgB_upd_prog]; rw [hinB_p] at this
        simp [this]
      · rw [inProgB_upd_other _ _ _ _ hqp]
        simp [ev_enter_ne hqp, this]
  cases hr : rec (some p) p.folder (bodyOf fs p) s2 with
  | none => rw [hr] at h; cases h
  | some res =>
    obtain ⟨res1, s3⟩ := res
    obtain ⟨inv3, rel3⟩ := hrec _ _ _ _ _ _ hr inv2
    obtain ⟨t, ht, hnt⟩ := rel3.out
    have hp3 : s3.cache p = some Entry.inProgress := rel3.prog p (by rw [s2cache, upd_same])
    have hd3 : doneB s3.cache p = false := by simp [doneB, hp3]
    have hi3 : inProgB s3.cache p = true := by simp [inProgB, hp3]
    have hl3 : s3.loader p = true := rel3.loader p (by rw [s2loader]; exact hload)
    -- facts about other paths
    have other_done : ∀ q e, s.cache q = some (Entry.done e) → q ≠ p ∧ s3.cache q = some (Entry.done e) := by
      intro q e hq
      have hqp : q ≠ p := by intro hh; subst hh; rw [hnone] at hq; cases hq
      exact ⟨hqp, rel3.done q e (by rw [s2cache, upd_other _ _ _ _ hqp]; exact hq)⟩
    have other_prog : ∀ q, s.cache q = some Entry.inProgress → q ≠ p ∧ s3.cache q = some Entry.inProgress := by
      intro q hq
      have hqp : q ≠ p := by intro hh; subst hh; rw [hnone] at hq; cases hq
      exact ⟨hqp, rel3.prog q (by rw [s2cache, upd_other _ _ _ _ hqp]; exact hq)⟩
    have other_clean : ∀ q, q ≠ p → s.cache q = none → s3.cache q ≠ some Entry.inProgress := by
      intro q hqp hq
      exact rel3.clean q (by rw [s2cache, upd_other _ _ _ _ hqp]; exact hq)
    have no_enter : ∀ q, doneB s.cache q = true → Event.enter q ∉ Event.enter p :: t := by
      intro q hq
      obtain ⟨e, he⟩ := doneB_true hq
      obtain ⟨hqp, _⟩ := other_done q e he
      have h2 : doneB s2.cache q = true := by
        rw [s2cache, doneB_upd_other _ _ _ _ hqp]; exact hq
      intro hmem
      rcases List.mem_cons.mp hmem with hh | hh
      · injection hh with hh; exact hqp hh
      · exact hnt q h2 hh
    rw [hr] at h
    cases res1 with
    | none =>
      -- success: the placeholder becomes the cached exports
      simp only [Option.some.injEq, Prod.mk.injEq] at h
      obtain ⟨_, hs'⟩ := h
      subst hs'
      refine ⟨⟨?_, ?_, ?_⟩, ⟨⟨Event.enter p :: t ++ [Event.done p], ?_, ?_⟩, ?_, ?_, ?_, ?_⟩⟩
      · intro q e hq
        show s3.loader q = true
        change upd s3.cache p (some (Entry.done s3.exports)) q = some (Entry.done e) at hq
        by_cases hqp : q = p
        · subst hqp; exact hl3
        · rw [upd_other _ _ _ _ hqp] at hq; exact inv3.loaded q e hq
      · intro q
        show (s3.out ++ [Event.done p]).count (Event.done q)
          = if doneB (upd s3.cache p (some (Entry.done s3.exports))) q then 1 else 0
        rw [count_snoc]
        have := inv3.cntDone q
        by_cases hqp : q = p
        · subst hqp
          rw [doneB_upd_done]; rw [hd3] at this
          simp [this]
        · rw [doneB_upd_other _ _ _ _ hqp]
          simp [ev_done_ne hqp, this]
      · intro q
        show (s3.out ++ [Event.done p]).count (Event.enter q)
          = (s3.out ++ [Event.done p]).count (Event.done q) + (s3.out ++ [Event.done p]).count (Event.failed q)
            + if inProgB (upd s3.cache p (some (Entry.done s3.exports))) q then 1 else 0
        rw [count_snoc, count_snoc, count_snoc]
        have := inv3.cntEnter q
        by_cases hqp : q = p
        · subst hqp
          rw [inProgB_upd_done]; rw [hi3] at this
          simp [this]; omega
        · rw [inProgB_upd_other _ _ _ _ hqp]
          simp [ev_done_ne hqp, this]
      · show s3.out ++ [Event.done p] = s.out ++ (Event.enter p :: t ++ [Event.done p])
        rw [ht, s2out]; simp
      · intro q hq hmem
        rcases List.mem_append.mp hmem with hh | hh
        · exact no_enter q hq hh
        · simp at hh
      · intro q hq
        show s3.loader q = true
        exact rel3.loader q (by rw [s2loader]; exact hq)
      · intro q e hq
        obtain ⟨hqp, h3⟩ := other_done q e hq
        show upd s3.cache p _ q = _
        rw [upd_other _ _ _ _ hqp]; exact h3
      · intro q hq
        obtain ⟨hqp, h3⟩ := other_prog q hq
        show upd s3.cache p _ q = _
        rw [upd_other _ _ _ _ hqp]; exact h3
      · intro q hq
        show upd s3.cache p _ q ≠ _
        by_cases hqp : q = p
        · subst hqp; rw [upd_same]; simp
        · rw [upd_other _ _ _ _ hqp]; exact other_clean q hqp hq
    | some e =>
      -- failure: the placeholder is removed
      simp only [Option.some.injEq, Prod.mk.injEq] at h
      obtain ⟨_, hs'⟩ := h
      subst hs'
      refine ⟨⟨?_, ?_, ?_⟩, ⟨⟨Event.enter p :: t ++ [Event.failed p], ?_, ?_⟩, ?_, ?_, ?_, ?_⟩⟩
      · intro q e' hq
        show s3.loader q = true
        change upd s3.cache p none q = some (Entry.done e') at hq
        by_cases hqp : q = p
        · subst hqp; rw [upd_same] at hq; cases hq
        · rw [upd_other _ _ _ _ hqp] at hq; exact inv3.loaded q e' hq
      · intro q
        show (s3.out ++ [Event.failed p]).count (Event.done q)
          = if doneB (upd s3.cache p none) q then 1 else 0
        rw [count_snoc]
        have := inv3.cntDone q
        by_cases hqp : q = p
        · subst hqp
          rw [doneB_upd_none]; rw [hd3] at this
          simp [this]
        · rw [doneB_upd_other _ _ _ _ hqp]
          simp [this]
      · intro q
        show (s3.out ++ [Event.failed p]).count (Event.enter q)
          = (s3.out ++ [Event.failed p]).count (Event.done q) + (s3.out ++ [Event.failed p]).count (Event.failed q)
            + if inProgB (upd s3.cache p none) q then 1 else 0
        rw [count_snoc, count_snoc, count_snoc]
        have := inv3.cntEnter q
        by_cases hqp : q = p
        · subst hqp
          rw [inProgB_upd_none]; rw [hi3] at this
          simp [this]; omega
        · rw [inProgB_upd_other _ _ _ _ hqp]
          simp [ev_failed_ne hqp, this]
      · show s3.out ++ [Event.failed p] = s.out ++ (Event.enter p :: t ++ [Event.failed p])
        rw [ht, s2out]; simp
      · intro q hq hmem
        rcases List.mem_append.mp hmem with hh | hh
        · exact no_enter q hq hh
        · simp at hh
      · intro q hq
        show s3.loader q = true
        exact rel3.loader q (by rw [s2loader]; exact hq)
      · intro q e' hq
        obtain ⟨hqp, h3⟩ := other_done q e' hq
        show upd s3.cache p _ q = _
        rw [upd_other _ _ _ _ hqp]; exact h3
      · intro q hq
        obtain ⟨hqp, h3⟩ := other_prog q hq
        show upd s3.cache p _ q = _
        rw [upd_other _ _ _ _ hqp]; exact h3
      · intro q hq
        show upd s3.cache p _ q ≠ _
        by_cases hqp : q = p
        · subst hqp; rw [upd_same]; simp
        · rw [upd_other _ _ _ _ hqp]; exact other_clean q hqp hq

/-- the case analysis of `run_import`, with every branch named -/
theorem runImport_cases {cfg : Cfg} {fs : FS} {rec : Runner} {fr : Frame} {name : Ref} {s s' : St}
    {r : Except Err V} (h : runImport cfg fs rec fr name s = some (r, s')) :
    (∃ v, importHit cfg fr s name = some v ∧ r = .ok v ∧ s' = s)
    ∨ (importHit cfg fr s name = none ∧ findModule cfg fs fr.dir name = none ∧ r = .error .notFound ∧ s' = s)
    ∨ (∃ p, importHit cfg fr s name = none ∧ findModule cfg fs fr.dir name = some p ∧
        compileModule fs p s = none ∧ r = .error .compile ∧ s' = s)
    ∨ (∃ p b s1, importHit cfg fr s name = none ∧ findModule cfg fs fr.dir name = some p ∧
        compileModule fs p s = some (b, s1) ∧
        ((s1.cache p = some .inProgress ∧ r = .error .recursive ∧ s' = s1)
         ∨ (∃ e, s1.cache p = some (.done e) ∧ b = true ∧ r = .ok (.mref p) ∧ s' = s1)
         ∨ (s1.cache p ≠ some .inProgress ∧ (∀ e, s1.cache p = some (.done e) → b = false) ∧
              loadModule fs rec p s1 = some (r, s')))) := by
  unfold runImport at h
  cases hnl : importHit cfg fr s name with
  | some v =>
    rw [hnl] at h
    simp only [Option.some.injEq, Prod.mk.injEq] at h
    exact Or.inl ⟨v, rfl, h.1.symm, h.2.symm⟩
  | none =>
    rw [hnl] at h
    dsimp only at h
    cases hfm : findModule cfg fs fr.dir name with
    | none =>
      rw [hfm] at h
      simp only [Option.some.injEq, Prod.mk.injEq] at h
      exact Or.inr (Or.inl ⟨rfl, rfl, h.1.symm, h.2.symm⟩)
    | some p =>
      rw [hfm] at h
      dsimp only at h
      cases hcm : compileModule fs p s with
      | none =>
        rw [hcm] at h
        simp only [Option.some.injEq, Prod.mk.injEq] at h
        exact Or.inr (Or.inr (Or.inl ⟨p, rfl, rfl, hcm, h.1.symm, h.2.symm⟩))
      | some bs =>
        obtain ⟨b, s1⟩ := bs
        rw [hcm] at h
        dsimp only at h
        refine Or.inr (Or.inr (Or.inr ⟨p, b, s1, rfl, rfl, hcm, ?_⟩))
        cases hcp : s1.cache p with
        | none =>
          rw [hcp] at h
          exact Or.inr (Or.inr ⟨by simp, (by intro e he; cases he), (by simpa using h)⟩)
        | some en =>
          cases en with
          | inProgress =>
            rw [hcp] at h
            simp only [Option.some.injEq, Prod.mk.injEq] at h
            exact Or.inl ⟨rfl, h.1.symm, h.2.symm⟩
          | done e =>
            rw [hcp] at h
            cases b with
            | true =>
              simp only [Option.some.injEq, Prod.mk.injEq] at h
              exact Or.inr (Or.inl ⟨e, rfl, rfl, h.1.symm, h.2.symm⟩)
            | false =>
              exact Or.inr (Or.inr ⟨by simp, (by intro _ _; rfl), (by simpa using h)⟩)

/-- `run_import` as a whole -/
theorem sound_runImport {cfg : Cfg} {fs : FS} {rec : Runner} (hrec : RecSound rec) {fr : Frame}
    {name : Ref} {s s' : St} {r : Except Err V}
    (h : runImport cfg fs rec fr name s = some (r, s')) : Sound s s' := by
  rcases runImport_cases h with ⟨v, _, _, hs⟩ | ⟨_, _, _, hs⟩ | ⟨p, _, _, _, _, hs⟩ | ⟨p, b, s1, _, _, hcm, hrest⟩
  · rw [hs]; exact Sound.refl s
  · rw [hs]; exact Sound.refl s
  · rw [hs]; exact Sound.refl s
  · have hs1 := sound_compileModule hcm
    obtain ⟨hc, _, _, hl1, _, hfalse, _⟩ := compileModule_spec hcm
    rcases hrest with ⟨_, _, hs⟩ | ⟨e, _, _, _, hs⟩ | ⟨hnp, hnd, hlm⟩
    · rw [hs]; exact hs1
    · rw [hs]; exact hs1
    · intro inv
      obtain ⟨inv1, rel1⟩ := hs1 inv
      have hnone : s1.cache p = none := by
        cases hcp : s1.cache p with
        | none => rfl
        | some en =>
          cases en with
          | inProgress => exact absurd hcp hnp
          | done e =>
            have hb := hnd e hcp
            have := inv.loaded p e (by rw [← hc]; exact hcp)
            rw [hfalse hb] at this; cases this
      obtain ⟨inv', rel'⟩ := sound_loadModule hrec hnone hl1 hlm inv1
      exact ⟨inv', rel1.trans rel'⟩

theorem sound_rootValue {cfg : Cfg} {fs : FS} {rec : Runner} (hrec : RecSound rec) {fr : Frame}
    {m : Ref} {s s' : St} {r : Except Err V}
    (h : rootValue cfg fs rec fr m s = some (r, s')) : Sound s s' := by
  unfold rootValue at h
  split at h
  · simp only [Option.some.injEq, Prod.mk.injEq] at h; rw [← h.2]; exact Sound.refl s
  · exact sound_runImport hrec h

theorem sound_importRoot {cfg : Cfg} {fs : FS} {rec : Runner} (hrec : RecSound rec) {fr : Frame}
    {m : Ref} {s s' : St} {r : Except Err V}
    (h : importRoot cfg fs rec fr m s = some (r, s')) : Sound s s' := by
  unfold importRoot at h
  split at h
  · cases h
  · rename_i hr
    simp only [Option.some.injEq, Prod.mk.injEq] at h; rw [← h.2]; exact sound_rootValue hrec hr
  · rename_i hr
    simp only [Option.some.injEq, Prod.mk.injEq] at h; rw [← h.2]; exact sound_rootValue hrec hr

theorem sound_wildRoot {cfg : Cfg} {fs : FS} {rec : Runner} (hrec : RecSound rec) {fr : Frame}
    {m : Ref} {s s' : St} {r : Except Err V}
    (h : wildRoot cfg fs rec fr m s = some (r, s')) : Sound s s' := by
  unfold wildRoot at h
  split at h
  · split at h
    · simp only [Option.some.injEq, Prod.mk.injEq] at h; rw [← h.2]; exact Sound.refl s
    · exact sound_runImport hrec h
  · split at h
    · cases h
    · rename_i hr
      simp only [Option.some.injEq, Prod.mk.injEq] at h; rw [← h.2]; exact sound_importRoot hrec hr
    · rename_i hr
      simp only [Option.some.injEq, Prod.mk.injEq] at h; rw [← h.2]; exact sound_importRoot hrec hr

theorem sound_importItems {cfg : Cfg} {fs : FS} {rec : Runner} (hrec : RecSound rec)
    (items : List Item) : ∀ {fr fr' : Frame} {s s' : St} {r : Option Err},
    importItems cfg fs rec items fr s = some (r, fr', s') → Sound s s' := by
  induction items with
  | nil =>
    intro fr fr' s s' r h
    simp only [importItems, Option.some.injEq, Prod.mk.injEq] at h
    rw [← h.2.2]; exact Sound.refl s
  | cons it rest ih =>
    intro fr fr' s s' r h
    unfold importItems at h
    split at h
    · cases h
    · rename_i e s1 hir
      simp only [Option.some.injEq, Prod.mk.injEq] at h
      rw [← h.2.2]; exact sound_importRoot hrec hir
    · rename_i v s1 hir
      exact (sound_importRoot hrec hir).trans ((sound_exportItem _ _ _ _ _ _).trans (ih h))

theorem sound_fromItems (al sa : Bool) (mv : V) (items : List Item) : ∀ {fr fr' : Frame} {s s' : St} {r : Option Err},
    fromItems al sa mv items fr s = (r, fr', s') → Sound s s' := by
  induction items with
  | nil =>
    intro fr fr' s s' r h
    simp only [fromItems, Prod.mk.injEq] at h
    rw [← h.2.2]; exact Sound.refl s
  | cons it rest ih =>
    intro fr fr' s s' r h
    unfold fromItems at h
    split at h
    · simp only [Prod.mk.injEq] at h
      rw [← h.2.2]; exact Sound.refl s
    · exact (sound_exportItem _ _ _ _ _ _).trans (ih h)

theorem sound_bindEntries (b : Bool) (mv : V) (es : List PEntry) :
    ∀ {fr fr' : Frame} {s s' : St} {r : Option Err},
    bindEntries b mv es fr s = (r, fr', s') → Sound s s' := by
  induction es with
  | nil =>
    intro fr fr' s s' r h
    simp only [bindEntries, Prod.mk.injEq] at h
    rw [← h.2.2]; exact Sound.refl s
  | cons e rest ih =>
    intro fr fr' s s' r h
    unfold bindEntries at h
    split at h
    · simp only [Prod.mk.injEq] at h
      rw [← h.2.2]; exact Sound.refl s
    · split at h
      · exact (sound_exportIf _ _ _ _).trans (ih h)
      · exact ih h

theorem sound_bindTargets (b : Bool) (ts : List Target) :
    ∀ {vs : List V} {fr fr' : Frame} {s s' : St} {r : Option Err},
    bindTargets b ts vs fr s = (r, fr', s') → Sound s s' := by
  induction ts with
  | nil =>
    intro vs fr fr' s s' r h
    simp only [bindTargets, Prod.mk.injEq] at h
    rw [← h.2.2]; exact Sound.refl s
  | cons t rest ih =>
    intro vs fr fr' s s' r h
    cases t with
    | id k =>
      simp only [bindTargets] at h
      exact (sound_exportIf _ _ _ _).trans (ih h)
    | ignored =>
      simp only [bindTargets] at h
      exact ih h
    | mapPat es =>
      simp only [bindTargets] at h
      split at h
      · rename_i hb
        simp only [Prod.mk.injEq] at h
        rw [← h.2.2]; exact sound_bindEntries _ _ _ hb
      · rename_i hb
        exact (sound_bindEntries _ _ _ hb).trans (ih h)

/-- what a compound assignment step can do: nothing, or bind `k` and (under export_top_level_ids)
export `k` -/
theorem compoundStep_spec (cfg : Cfg) (k : Name) (op : COp) (r : Rhs) (fr : Frame) (st : St) :
    ∃ e fr1 v b, compoundStep cfg k op r fr st = (e, fr1, exportIf b k v st)
      ∧ fr1.exportTop = fr.exportTop ∧ (b = true → fr.exportTop = true) := by
  have hbase : ∀ e, ∃ e' fr1 v b, ((e, fr, st) : Option Err × Frame × St) = (e', fr1, exportIf b k v st)
      ∧ fr1.exportTop = fr.exportTop ∧ (b = true → fr.exportTop = true) :=
    fun e => ⟨e, fr, .null, false, by simp [exportIf], rfl, by simp⟩
  unfold compoundStep
  split
  · split
    · exact hbase _
    · refine ⟨none, _, _, fr.exportTop, rfl, ?_, fun h => h⟩
      split <;> rfl
    · exact hbase _
  · split
    · exact hbase _
    · exact hbase _
  · exact hbase _

theorem sound_compoundStep (cfg : Cfg) (k : Name) (op : COp) (r : Rhs) {fr fr' : Frame} {s s' : St}
    {e : Option Err} (h : compoundStep cfg k op r fr s = (e, fr', s')) : Sound s s' := by
  obtain ⟨e1, fr1, v, b, heq, _, _⟩ := compoundStep_spec cfg k op r fr s
  rw [heq] at h
  simp only [Prod.mk.injEq] at h
  rw [← h.2.2]; exact sound_exportIf _ _ _ _

theorem sound_compoundLoop (cfg : Cfg) (k : Name) (op : COp) (r : Rhs) (n : Nat) :
    ∀ {fr fr' : Frame} {s s' : St} {e : Option Err},
    compoundLoop cfg k op r n fr s = (e, fr', s') → Sound s s' := by
  induction n with
  | zero =>
    intro fr fr' s s' e h
    simp only [compoundLoop, Prod.mk.injEq] at h; rw [← h.2.2]; exact Sound.refl s
  | succ n ih =>
    intro fr fr' s s' e h
    unfold compoundLoop at h
    split at h
    · rename_i hc
      simp only [Prod.mk.injEq] at h; rw [← h.2.2]; exact sound_compoundStep _ _ _ _ hc
    · rename_i hc
      exact (sound_compoundStep _ _ _ _ hc).trans (ih h)

theorem sound_execAct {cfg : Cfg} {fs : FS} {rec : Runner} (hrec : RecSound rec) {a : Act}
    {fr fr' : Frame} {s s' : St} {r : Option Err}
    (h : execAct cfg fs rec a fr s = some (r, fr', s')) : Sound s s' := by
  unfold execAct at h
  split at h
  · -- print
    simp only [Option.some.injEq, Prod.mk.injEq] at h; rw [← h.2.2]; exact sound_emit_obs _ rfl s
  · -- export
    simp only [Option.some.injEq, Prod.mk.injEq] at h; rw [← h.2.2]; exact sound_setData _ _ s
  · -- assign
    simp only [Option.some.injEq, Prod.mk.injEq] at h; rw [← h.2.2]; exact sound_exportIf _ _ _ s
  · -- exportId
    split at h
    · simp only [Option.some.injEq, Prod.mk.injEq] at h; rw [← h.2.2]; exact Sound.refl s
    · simp only [Option.some.injEq, Prod.mk.injEq] at h; rw [← h.2.2]; exact sound_setData _ _ s
  · -- show
    split at h
    · simp only [Option.some.injEq, Prod.mk.injEq] at h; rw [← h.2.2]; exact Sound.refl s
    · simp only [Option.some.injEq, Prod.mk.injEq] at h; rw [← h.2.2]; exact sound_emit_obs _ rfl s
  · -- import
    exact sound_importItems hrec _ h
  · -- from … import items
    split at h
    · cases h
    · rename_i hir
      simp only [Option.some.injEq, Prod.mk.injEq] at h; rw [← h.2.2]; exact sound_importRoot hrec hir
    · rename_i mv s1 hir
      simp only [Option.some.injEq] at h
      exact (sound_importRoot hrec hir).trans (sound_fromItems _ _ mv _ h)
  · -- from … import *
    rename_i m
    have hroot : ∀ {r1 : Except Err V} {s1 : St},
        wildRoot cfg fs rec fr m s = some (r1, s1) → Sound s s1 := fun hh => sound_wildRoot hrec hh
    split at h
    · cases h
    · rename_i hir
      simp only [Option.some.injEq, Prod.mk.injEq] at h; rw [← h.2.2]; exact hroot hir
    · rename_i mv s1 hir
      split at h
      · simp only [Option.some.injEq, Prod.mk.injEq] at h; rw [← h.2.2]; exact hroot hir
      · simp only [Option.some.injEq, Prod.mk.injEq] at h; rw [← h.2.2]
        exact (hroot hir).trans (sound_exportAll _ _)
      · simp only [Option.some.injEq, Prod.mk.injEq] at h; rw [← h.2.2]; exact hroot hir
  · -- try import
    split at h
    · cases h
    · rename_i hir
      simp only [Option.some.injEq, Prod.mk.injEq] at h; rw [← h.2.2]
      exact (sound_runImport hrec hir).trans (sound_emit_obs _ rfl _)
    · rename_i hir
      simp only [Option.some.injEq, Prod.mk.injEq] at h; rw [← h.2.2]
      exact sound_runImport hrec hir
  · -- guarded show
    split at h
    · simp only [Option.some.injEq, Prod.mk.injEq] at h; rw [← h.2.2]; exact sound_emit_obs _ rfl s
    · simp only [Option.some.injEq, Prod.mk.injEq] at h; rw [← h.2.2]; exact sound_emit_obs _ rfl s
  · -- throw
    simp only [Option.some.injEq, Prod.mk.injEq] at h; rw [← h.2.2]; exact Sound.refl s
  · -- (multi-)assignment with patterns
    split at h
    · simp only [Option.some.injEq, Prod.mk.injEq] at h; rw [← h.2.2]; exact Sound.refl s
    · simp only [Option.some.injEq] at h
      exact sound_bindTargets _ _ h
  · -- compound assignment
    simp only [Option.some.injEq] at h
    exact sound_compoundStep _ _ _ _ h
  · split at h
    · rename_i hc
      simp only [Option.some.injEq, Prod.mk.injEq] at h; rw [← h.2.2]; exact sound_compoundLoop _ _ _ _ _ hc
    · rename_i hc
      simp only [Option.some.injEq, Prod.mk.injEq] at h; rw [← h.2.2]
      exact (sound_compoundLoop _ _ _ _ _ hc).trans (sound_exportIf _ _ _ _)
  · -- export inside a callback
    simp only [Option.some.injEq, Prod.mk.injEq] at h; rw [← h.2.2]
    split
    · exact Sound.refl s
    · exact sound_setData _ _ s
  · -- assignment nested in a conditional
    split at h
    · simp only [Option.some.injEq, Prod.mk.injEq] at h; rw [← h.2.2]; exact Sound.refl s
    · simp only [Option.some.injEq, Prod.mk.injEq] at h; rw [← h.2.2]; exact sound_exportIf _ _ _ s

theorem sound_execActs {cfg : Cfg} {fs : FS} {rec : Runner} (hrec : RecSound rec)
    (acts : List Act) : ∀ {fr fr' : Frame} {s s' : St} {r : Option Err},
    execActs cfg fs rec acts fr s = some (r, fr', s') → Sound s s' := by
  induction acts with
  | nil =>
    intro fr fr' s s' r h
    simp only [execActs, Option.some.injEq, Prod.mk.injEq] at h
    rw [← h.2.2]; exact Sound.refl s
  | cons a rest ih =>
    intro fr fr' s s' r h
    unfold execActs at h
    split at h
    · cases h
    · rename_i ha
      simp only [Option.some.injEq, Prod.mk.injEq] at h
      rw [← h.2.2]; exact sound_execAct hrec ha
    · rename_i ha
      exact (sound_execAct hrec ha).trans (ih h)

theorem sound_runFn {cfg : Cfg} {fs : FS} {rec : Runner} (hrec : RecSound rec) {c : Closure}
    {s s' : St} {r : Option Err} (h : runFn cfg fs rec c s = some (r, s')) : Sound s s' := by
  unfold runFn at h
  split at h
  · cases h
  · rename_i ha
    simp only [Option.some.injEq, Prod.mk.injEq] at h
    rw [← h.2]; exact sound_execActs hrec _ ha

theorem sound_callValue {cfg : Cfg} {fs : FS} {rec : Runner} (hrec : RecSound rec) {v : V}
    {s s' : St} {r : Option Err} (h : callValue cfg fs rec v s = some (r, s')) : Sound s s' := by
  unfold callValue at h
  split at h
  · split at h
    · simp only [Option.some.injEq, Prod.mk.injEq] at h; rw [← h.2]; exact Sound.refl s
    · split at h
      · cases h
      · rename_i ha
        simp only [Option.some.injEq, Prod.mk.injEq] at h
        rw [← h.2]; exact sound_execActs hrec _ ha
  · simp only [Option.some.injEq, Prod.mk.injEq] at h; rw [← h.2]; exact Sound.refl s

theorem sound_execTAct {cfg : Cfg} {fs : FS} {rec : Runner} (hrec : RecSound rec) {a : TAct}
    {fr fr' : Frame} {s s' : St} {r : Option Err}
    (h : execTAct cfg fs rec a fr s = some (r, fr', s')) : Sound s s' := by
  unfold execTAct at h
  split at h
  · exact sound_execAct hrec h
  · -- export of a function
    simp only [Option.some.injEq, Prod.mk.injEq] at h; rw [← h.2.2]
    exact (sound_exports s _).trans (sound_setData _ _ _)
  · -- m.k()
    split at h
    · simp only [Option.some.injEq, Prod.mk.injEq] at h; rw [← h.2.2]; exact Sound.refl s
    · split at h
      · simp only [Option.some.injEq, Prod.mk.injEq] at h; rw [← h.2.2]; exact Sound.refl s
      · split at h
        · cases h
        · rename_i hc
          simp only [Option.some.injEq, Prod.mk.injEq] at h; rw [← h.2.2]; exact sound_callValue hrec hc
  · -- k()
    split at h
    · simp only [Option.some.injEq, Prod.mk.injEq] at h; rw [← h.2.2]; exact Sound.refl s
    · split at h
      · cases h
      · rename_i hc
        simp only [Option.some.injEq, Prod.mk.injEq] at h; rw [← h.2.2]; exact sound_callValue hrec hc
  · simp only [Option.some.injEq, Prod.mk.injEq] at h; rw [← h.2.2]; exact sound_exports s _
  · simp only [Option.some.injEq, Prod.mk.injEq] at h; rw [← h.2.2]; exact sound_exports s _

theorem sound_execTActs {cfg : Cfg} {fs : FS} {rec : Runner} (hrec : RecSound rec)
    (acts : List TAct) : ∀ {fr fr' : Frame} {s s' : St} {r : Option Err},
    execTActs cfg fs rec acts fr s = some (r, fr', s') → Sound s s' := by
  induction acts with
  | nil =>
    intro fr fr' s s' r h
    simp only [execTActs, Option.some.injEq, Prod.mk.injEq] at h
    rw [← h.2.2]; exact Sound.refl s
  | cons a rest ih =>
    intro fr fr' s s' r h
    unfold execTActs at h
    split at h
    · cases h
    · rename_i ha
      simp only [Option.some.injEq, Prod.mk.injEq] at h
      rw [← h.2.2]; exact sound_execTAct hrec ha
    · rename_i ha
      exact (sound_execTAct hrec ha).trans (ih h)

theorem sound_runTests {cfg : Cfg} {fs : FS} {rec : Runner} (hrec : RecSound rec)
    (ts : List (Name × Closure)) : ∀ {s s' : St} {r : Option Err},
    runTests cfg fs rec ts s = some (r, s') → Sound s s' := by
  induction ts with
  | nil =>
    intro s s' r h
    simp only [runTests, Option.some.injEq, Prod.mk.injEq] at h
    rw [← h.2]; exact Sound.refl s
  | cons t rest ih =>
    intro s s' r h
    obtain ⟨n, c⟩ := t
    unfold runTests at h
    split at h
    · cases h
    · rename_i ha
      simp only [Option.some.injEq, Prod.mk.injEq] at h
      rw [← h.2]; exact sound_runFn hrec ha
    · rename_i ha
      exact (sound_runFn hrec ha).trans (ih h)

theorem sound_runMain {cfg : Cfg} {fs : FS} {rec : Runner} (hrec : RecSound rec)
    {s s' : St} {r : Option Err} (h : runMain cfg fs rec s = some (r, s')) : Sound s s' := by
  unfold runMain at h
  split at h
  · simp only [Option.some.injEq, Prod.mk.injEq] at h; rw [← h.2]; exact Sound.refl s
  · exact sound_runFn hrec h

theorem sound_afterTop {cfg : Cfg} {fs : FS} {rec : Runner} (hrec : RecSound rec) {tests : Bool}
    {s s' : St} {r : Option Err} (h : afterTop cfg fs rec tests s = some (r, s')) : Sound s s' := by
  unfold afterTop at h
  have htests : ∀ {r1 : Option Err} {s1 : St},
      (if tests = true then runTests cfg fs rec s.exports.tests s else some (none, s)) = some (r1, s1) →
      Sound s s1 := by
    intro r1 s1 hh
    split at hh
    · exact sound_runTests hrec _ hh
    · simp only [Option.some.injEq, Prod.mk.injEq] at hh; rw [← hh.2]; exact Sound.refl s
  split at h
  · cases h
  · rename_i ht
    simp only [Option.some.injEq, Prod.mk.injEq] at h
    rw [← h.2]; exact htests ht
  · rename_i ht
    exact (htests ht).trans (sound_runMain hrec h)

theorem sound_runBody {cfg : Cfg} {fs : FS} {rec : Runner} (hrec : RecSound rec) {tests : Bool}
    {fr : Frame} {body : List TAct} {s s' : St} {r : Option Err}
    (h : runBody cfg fs rec tests fr body s = some (r, s')) : Sound s s' := by
  unfold runBody at h
  split at h
  · cases h
  · rename_i ha
    simp only [Option.some.injEq, Prod.mk.injEq] at h
    rw [← h.2]; exact sound_execTActs hrec _ ha
  · rename_i ha
    exact (sound_execTActs hrec _ ha).trans (sound_afterTop hrec h)

/-- induction on the fuel: the runner is sound at every fuel -/
theorem recSound_runUnit (cfg : Cfg) (fs : FS) : ∀ fuel, RecSound (runUnit cfg fs fuel) := by
  intro fuel
  induction fuel with
  | zero => intro self dir body s r s' h; simp [runUnit] at h
  | succ n ih =>
    intro self dir body s r s' h
    simp only [runUnit] at h
    exact sound_runBody ih h

theorem sound_hostRun {cfg : Cfg} {fs : FS} {fuel : Nat} {op : Op} {s s' : St} {r : Option Err}
    (h : hostRun cfg fs fuel op s = some (r, s')) : Sound s s' :=
  sound_runBody (recSound_runUnit cfg fs fuel) h

theorem sound_finalSt {cfg : Cfg} {fs : FS} {fuel : Nat} (ops : List Op) : ∀ {s s' : St},
    finalSt cfg fs fuel ops s = some s' → Sound s s' := by
  induction ops with
  | nil => intro s s' h; simp only [finalSt, Option.some.injEq] at h; rw [← h]; exact Sound.refl s
  | cons op rest ih =>
    intro s s' h
    unfold finalSt at h
    split at h
    · cases h
    · rename_i hh
      exact (sound_hostRun hh).trans (ih h)

theorem inv_init : Inv init := by
  refine ⟨?_, ?_, ?_⟩
  · intro p e h; simp [init] at h
  · intro p; simp [init, doneB]
  · intro p; simp [init, inProgB]

/-! ### exports maps: what each statement may change -/

theorem lookup_insert_self {α : Type} (k : Name) (v : α) (l : List (Name × α)) :
    lookup k (Modules.insert k v l) = some v := by
  induction l with
  | nil => simp [Modules.insert, lookup]
  | cons kv rest ih =>
    obtain ⟨k', v'⟩ := kv
    unfold Modules.insert
    by_cases h : k' = k
    · simp [h, lookup]
    · simp [h, lookup, ih]

theorem lookup_insert_ne {α : Type} (k k2 : Name) (v : α) (l : List (Name × α)) (hne : k2 ≠ k) :
    lookup k2 (Modules.insert k v l) = lookup k2 l := by
  induction l with
  | nil => simp [Modules.insert, lookup, Ne.symm hne]
  | cons kv rest ih =>
    obtain ⟨k', v'⟩ := kv
    unfold Modules.insert
    by_cases h : k' = k
    · subst h
      have : ¬ (k' = k2) := fun hh => hne hh.symm
      simp [lookup, this]
    · by_cases h2 : k' = k2
      · subst h2; simp [h, lookup]
      · simp [h, lookup, h2, ih]

/-- `run_import` always hands the importer its own exports map back -/
theorem runImport_exports {cfg : Cfg} {fs : FS} {rec : Runner} {fr : Frame} {name : Ref} {s s' : St}
    {r : Except Err V} (h : runImport cfg fs rec fr name s = some (r, s')) : s'.exports = s.exports := by
  rcases runImport_cases h with ⟨v, _, _, hs⟩ | ⟨_, _, _, hs⟩ | ⟨p, _, _, _, _, hs⟩ | ⟨p, b, s1, _, _, hcm, hrest⟩
  · rw [hs]
  · rw [hs]
  · rw [hs]
  · obtain ⟨_, he, _⟩ := compileModule_spec hcm
    rcases hrest with ⟨_, _, hs⟩ | ⟨e, _, _, _, hs⟩ | ⟨_, _, hlm⟩
    · rw [hs, he]
    · rw [hs, he]
    · unfold loadModule at hlm
      dsimp only at hlm
      split at hlm
      · cases hlm
      · simp only [Option.some.injEq, Prod.mk.injEq] at hlm; rw [← hlm.2, ← he]; rfl
      · simp only [Option.some.injEq, Prod.mk.injEq] at hlm; rw [← hlm.2, ← he]; rfl

theorem importRoot_exports {cfg : Cfg} {fs : FS} {rec : Runner} {fr : Frame} {m : Ref} {s s' : St}
    {r : Except Err V} (h : importRoot cfg fs rec fr m s = some (r, s')) : s'.exports = s.exports := by
  have hrv : ∀ {r1 : Except Err V} {s1 : St}, rootValue cfg fs rec fr m s = some (r1, s1) → s1.exports = s.exports := by
    intro r1 s1 hh
    unfold rootValue at hh
    split at hh
    · simp only [Option.some.injEq, Prod.mk.injEq] at hh; rw [← hh.2]
    · exact runImport_exports hh
  unfold importRoot at h
  split at h
  · cases h
  · rename_i hr
    simp only [Option.some.injEq, Prod.mk.injEq] at h; rw [← h.2]; exact hrv hr
  · rename_i hr
    simp only [Option.some.injEq, Prod.mk.injEq] at h; rw [← h.2]; exact hrv hr

theorem wildRoot_exports {cfg : Cfg} {fs : FS} {rec : Runner} {fr : Frame} {m : Ref} {s s' : St}
    {r : Except Err V} (h : wildRoot cfg fs rec fr m s = some (r, s')) : s'.exports = s.exports := by
  unfold wildRoot at h
  split at h
  · split at h
    · simp only [Option.some.injEq, Prod.mk.injEq] at h; rw [← h.2]
    · exact runImport_exports h
  · split at h
    · cases h
    · rename_i hr
      simp only [Option.some.injEq, Prod.mk.injEq] at h; rw [← h.2]; exact importRoot_exports hr
    · rename_i hr
      simp only [Option.some.injEq, Prod.mk.injEq] at h; rw [← h.2]; exact importRoot_exports hr

/-- does the statement (possibly) write the exports entry `k`? `et` = export_top_level_ids is active -/
def touches (al sa et : Bool) (k : Name) : Act → Bool
  | .export_ k' _ => k' == k
  | .exportId k' _ => k' == k
  | .assign k' _ => et && k' == k
  | .importMods items => et && items.any (fun i => i.exportKey? al sa == some k)
  | .fromImport _ items => et && items.any (fun i => i.exportKey? al sa == some k)
  | .fromAll _ => et
  | .assignPat exp targets _ => (exp || et) && (boundIds targets).contains k
  | .compound k' _ _ => et && k' == k
  | .loopCompound _ k' _ _ => et && (k' == k || loopVar == k)
  | .condAssign _ k' _ => et && k' == k
  | .cbExport _ k' => k' == k
  | _ => false

def touchesT (al sa et : Bool) (k : Name) : TAct → Bool
  | .act a => touches al sa et k a
  | .exportFn k' _ _ => k' == k
  | .callMember _ _ => true      -- the called function may export anything into the active exports map
  | .call _ => true
  | _ => false

theorem setData_lookup_ne (k k2 : Name) (v : V) (s : St) (hne : k2 ≠ k) :
    lookup k2 (setData k v s).exports.data = lookup k2 s.exports.data := by
  simp only [setData]; exact lookup_insert_ne k k2 v _ hne

theorem exportIf_lookup_ne (b : Bool) (k k2 : Name) (v : V) (s : St) (hne : b = true → k2 ≠ k) :
    lookup k2 (exportIf b k v s).exports.data = lookup k2 s.exports.data := by
  unfold exportIf
  split
  · rename_i hb; exact setData_lookup_ne k k2 v s (hne hb)
  · rfl

theorem bind_exportTop (k : Name) (v : V) (fr : Frame) : (bind k v fr).exportTop = fr.exportTop := rfl

theorem addWild_exportTop (b : Bool) (v : V) (fr : Frame) : (addWild b v fr).exportTop = fr.exportTop := by
  unfold addWild; split
  · split <;> rfl
  · rfl

theorem bindItem_exportTop (it : Item) (v : V) (fr : Frame) : (bindItem it v fr).exportTop = fr.exportTop := by
  unfold bindItem; split <;> rfl

theorem exportItem_lookup_ne (b al sa : Bool) (it : Item) (k2 : Name) (v : V) (s : St)
    (hne : b = true → it.exportKey? al sa ≠ some k2) :
    lookup k2 (exportItem b al sa it v s).exports.data = lookup k2 s.exports.data := by
  unfold exportItem
  split
  · rename_i k hk
    exact exportIf_lookup_ne b k k2 v s (fun hb hh => hne hb (by rw [hk, hh]))
  · rfl

theorem any_cons_false {al sa : Bool} {k : Name} {it : Item} {rest : List Item} {et : Bool}
    (ht : (et && (it :: rest).any (fun i => i.exportKey? al sa == some k)) = false) :
    (et = true → it.exportKey? al sa ≠ some k) ∧ (et && rest.any (fun i => i.exportKey? al sa == some k)) = false := by
  cases et with
  | false => simp
  | true =>
    simp only [List.any_cons, Bool.true_and, Bool.or_eq_false_iff, beq_eq_false_iff_ne] at ht
    exact ⟨fun _ => ht.1, by simpa using ht.2⟩

theorem importItems_keeps {cfg : Cfg} {fs : FS} {rec : Runner} (k : Name) (items : List Item) :
    ∀ {fr fr' : Frame} {s s' : St} {r : Option Err},
    importItems cfg fs rec items fr s = some (r, fr', s') →
    (fr.exportTop && items.any (fun i => i.exportKey? cfg.exportAlias cfg.exportStrAlias == some k)) = false →
    lookup k s'.exports.data = lookup k s.exports.data ∧ fr'.exportTop = fr.exportTop := by
  induction items with
  | nil =>
    intro fr fr' s s' r h _
    simp only [importItems, Option.some.injEq, Prod.mk.injEq] at h
    rw [← h.2.2, ← h.2.1]; exact ⟨rfl, rfl⟩
  | cons it rest ih =>
    intro fr fr' s s' r h ht
    obtain ⟨ht1, ht2⟩ := any_cons_false ht
    unfold importItems at h
    split at h
    · cases h
    · rename_i hir
      simp only [Option.some.injEq, Prod.mk.injEq] at h
      rw [← h.2.2, ← h.2.1, importRoot_exports hir]; exact ⟨rfl, rfl⟩
    · rename_i v s1 hir
      obtain ⟨h1, h2⟩ := ih h (by rw [bindItem_exportTop]; exact ht2)
      refine ⟨?_, by rw [h2, bindItem_exportTop]⟩
      rw [h1, exportItem_lookup_ne _ _ _ _ _ _ _ ht1, importRoot_exports hir]

theorem fromItems_keeps (al sa : Bool) (mv : V) (k : Name) (items : List Item) :
    ∀ {fr fr' : Frame} {s s' : St} {r : Option Err},
    fromItems al sa mv items fr s = (r, fr', s') →
    (fr.exportTop && items.any (fun i => i.exportKey? al sa == some k)) = false →
    lookup k s'.exports.data = lookup k s.exports.data ∧ fr'.exportTop = fr.exportTop := by
  induction items with
  | nil =>
    intro fr fr' s s' r h _
    simp only [fromItems, Prod.mk.injEq] at h
    rw [← h.2.2, ← h.2.1]; exact ⟨rfl, rfl⟩
  | cons it rest ih =>
    intro fr fr' s s' r h ht
    obtain ⟨ht1, ht2⟩ := any_cons_false ht
    unfold fromItems at h
    split at h
    · simp only [Prod.mk.injEq] at h
      rw [← h.2.2, ← h.2.1]; exact ⟨rfl, rfl⟩
    · rename_i v _
      obtain ⟨h1, h2⟩ := ih h (by rw [bindItem_exportTop]; exact ht2)
      refine ⟨?_, by rw [h2, bindItem_exportTop]⟩
      rw [h1, exportItem_lookup_ne _ _ _ _ _ _ _ ht1]

theorem bindEntries_keeps (b : Bool) (mv : V) (k : Name) (es : List PEntry) :
    ∀ {fr fr' : Frame} {s s' : St} {r : Option Err},
    bindEntries b mv es fr s = (r, fr', s') →
    (b && (es.filterMap PEntry.target).contains k) = false →
    lookup k s'.exports.data = lookup k s.exports.data ∧ fr'.exportTop = fr.exportTop := by
  induction es with
  | nil =>
    intro fr fr' s s' r h _
    simp only [bindEntries, Prod.mk.injEq] at h
    rw [← h.2.2, ← h.2.1]; exact ⟨rfl, rfl⟩
  | cons e rest ih =>
    intro fr fr' s s' r h ht
    unfold bindEntries at h
    split at h
    · simp only [Prod.mk.injEq] at h
      rw [← h.2.2, ← h.2.1]; exact ⟨rfl, rfl⟩
    · rename_i v _
      split at h
      · rename_i n hn
        have ht' : (b && (rest.filterMap PEntry.target).contains k) = false := by
          cases b with
          | false => simp
          | true =>
            simp only [Bool.true_and] at ht ⊢
            simp only [List.filterMap_cons, hn, List.contains_cons, Bool.or_eq_false_iff] at ht
            exact ht.2
        obtain ⟨h1, h2⟩ := ih h ht'
        refine ⟨?_, by rw [h2, bind_exportTop]⟩
        rw [h1, exportIf_lookup_ne]
        intro hb
        rw [hb] at ht
        simp only [Bool.true_and, List.filterMap_cons, hn, List.contains_cons, Bool.or_eq_false_iff,
          beq_eq_false_iff_ne] at ht
        exact ht.1
      · rename_i hn
        have ht' : (b && (rest.filterMap PEntry.target).contains k) = false := by
          simpa only [List.filterMap_cons, hn] using ht
        exact ih h ht'

theorem bindTargets_keeps (b : Bool) (k : Name) (ts : List Target) :
    ∀ {vs : List V} {fr fr' : Frame} {s s' : St} {r : Option Err},
    bindTargets b ts vs fr s = (r, fr', s') →
    (b && (boundIds ts).contains k) = false →
    lookup k s'.exports.data = lookup k s.exports.data ∧ fr'.exportTop = fr.exportTop := by
  induction ts with
  | nil =>
    intro vs fr fr' s s' r h _
    simp only [bindTargets, Prod.mk.injEq] at h
    rw [← h.2.2, ← h.2.1]; exact ⟨rfl, rfl⟩
  | cons t rest ih =>
    intro vs fr fr' s s' r h ht
    have hsplit : (b && (Target.bound t).contains k) = false ∧ (b && (boundIds rest).contains k) = false := by
      cases b with
      | false => simp
      | true =>
        simp only [Bool.true_and, boundIds, List.flatMap_cons, List.contains_eq_mem, List.mem_append,
          decide_eq_false_iff_not, not_or] at ht ⊢
        exact ⟨ht.1, ht.2⟩
    cases t with
    | id k' =>
      simp only [bindTargets] at h
      obtain ⟨h1, h2⟩ := ih h hsplit.2
      refine ⟨?_, by rw [h2, bind_exportTop]⟩
      rw [h1, exportIf_lookup_ne]
      intro hb
      have := hsplit.1
      rw [hb] at this
      simp only [Bool.true_and, Target.bound, List.contains_cons, List.contains_nil, Bool.or_false,
        beq_eq_false_iff_ne] at this
      exact this
    | ignored =>
      simp only [bindTargets] at h
      exact ih h hsplit.2
    | mapPat es =>
      simp only [bindTargets] at h
      split at h
      · rename_i hb
        simp only [Prod.mk.injEq] at h
        rw [← h.2.2, ← h.2.1]
        exact bindEntries_keeps b _ k es hb hsplit.1
      · rename_i hb
        obtain ⟨h1, h2⟩ := bindEntries_keeps b _ k es hb hsplit.1
        obtain ⟨h3, h4⟩ := ih h hsplit.2
        exact ⟨by rw [h3, h1], by rw [h4, h2]⟩

theorem compoundStep_keeps (cfg : Cfg) (k' k : Name) (op : COp) (r : Rhs) {fr fr' : Frame} {s s' : St}
    {e : Option Err} (h : compoundStep cfg k' op r fr s = (e, fr', s'))
    (ht : (fr.exportTop && k' == k) = false) :
    lookup k s'.exports.data = lookup k s.exports.data ∧ fr'.exportTop = fr.exportTop := by
  obtain ⟨e1, fr1, v, b, heq, hfr, hb⟩ := compoundStep_spec cfg k' op r fr s
  rw [heq] at h
  simp only [Prod.mk.injEq] at h
  rw [← h.2.2, ← h.2.1]
  refine ⟨exportIf_lookup_ne _ _ _ _ _ ?_, hfr⟩
  intro hbt
  rw [hb hbt] at ht
  simp only [Bool.true_and, beq_eq_false_iff_ne] at ht
  exact fun hh => ht hh.symm

theorem compoundLoop_keeps (cfg : Cfg) (k' k : Name) (op : COp) (r : Rhs) (n : Nat) :
    ∀ {fr fr' : Frame} {s s' : St} {e : Option Err},
    compoundLoop cfg k' op r n fr s = (e, fr', s') → (fr.exportTop && k' == k) = false →
    lookup k s'.exports.data = lookup k s.exports.data ∧ fr'.exportTop = fr.exportTop := by
  induction n with
  | zero =>
    intro fr fr' s s' e h _
    simp only [compoundLoop, Prod.mk.injEq] at h; rw [← h.2.2, ← h.2.1]; exact ⟨rfl, rfl⟩
  | succ n ih =>
    intro fr fr' s s' e h ht
    unfold compoundLoop at h
    split at h
    · rename_i hc
      simp only [Prod.mk.injEq] at h; rw [← h.2.2, ← h.2.1]; exact compoundStep_keeps _ _ _ _ _ hc ht
    · rename_i hc
      obtain ⟨h1, h2⟩ := compoundStep_keeps _ _ _ _ _ hc ht
      obtain ⟨h3, h4⟩ := ih h (by rw [h2]; exact ht)
      exact ⟨by rw [h3, h1], by rw [h4, h2]⟩

/-- a statement that does not write entry `k` leaves it alone — whatever it imports on the way -/
theorem execAct_keeps {cfg : Cfg} {fs : FS} {rec : Runner} {a : Act} {fr fr' : Frame} {s s' : St}
    {r : Option Err} (k : Name) (h : execAct cfg fs rec a fr s = some (r, fr', s'))
    (ht : touches cfg.exportAlias cfg.exportStrAlias fr.exportTop k a = false) :
    lookup k s'.exports.data = lookup k s.exports.data ∧ fr'.exportTop = fr.exportTop := by
  unfold execAct at h
  split at h
  · simp only [Option.some.injEq, Prod.mk.injEq] at h; rw [← h.2.2, ← h.2.1]; exact ⟨rfl, rfl⟩
  · simp only [Option.some.injEq, Prod.mk.injEq] at h; rw [← h.2.2, ← h.2.1]
    simp only [touches, beq_eq_false_iff_ne] at ht
    exact ⟨setData_lookup_ne _ _ _ _ (fun hh => ht hh.symm), rfl⟩
  · simp only [Option.some.injEq, Prod.mk.injEq] at h; rw [← h.2.2, ← h.2.1]
    refine ⟨exportIf_lookup_ne _ _ _ _ _ ?_, rfl⟩
    intro het
    simp only [touches, het, Bool.true_and, beq_eq_false_iff_ne] at ht
    exact fun hh => ht hh.symm
  · split at h
    · simp only [Option.some.injEq, Prod.mk.injEq] at h; rw [← h.2.2, ← h.2.1]; exact ⟨rfl, rfl⟩
    · simp only [Option.some.injEq, Prod.mk.injEq] at h; rw [← h.2.2, ← h.2.1]
      simp only [touches, beq_eq_false_iff_ne] at ht
      exact ⟨setData_lookup_ne _ _ _ _ (fun hh => ht hh.symm), rfl⟩
  · split at h
    · simp only [Option.some.injEq, Prod.mk.injEq] at h; rw [← h.2.2, ← h.2.1]; exact ⟨rfl, rfl⟩
    · simp only [Option.some.injEq, Prod.mk.injEq] at h; rw [← h.2.2, ← h.2.1]; exact ⟨rfl, rfl⟩
  · exact importItems_keeps k _ h (by simpa [touches] using ht)
  · split at h
    · cases h
    · rename_i hir
      simp only [Option.some.injEq, Prod.mk.injEq] at h; rw [← h.2.2, ← h.2.1, importRoot_exports hir]
      exact ⟨rfl, rfl⟩
    · rename_i mv s1 hir
      simp only [Option.some.injEq] at h
      obtain ⟨h1, h2⟩ := fromItems_keeps _ _ mv k _ h (by simpa [touches] using ht)
      rw [h1, importRoot_exports hir]; exact ⟨rfl, h2⟩
  · rename_i m
    have het : fr.exportTop = false := by simpa [touches] using ht
    have hroot : ∀ {r1 : Except Err V} {s1 : St},
        wildRoot cfg fs rec fr m s = some (r1, s1) → s1.exports = s.exports := fun hh => wildRoot_exports hh
    split at h
    · cases h
    · rename_i hir
      simp only [Option.some.injEq, Prod.mk.injEq] at h; rw [← h.2.2, ← h.2.1, hroot hir]; exact ⟨rfl, rfl⟩
    · rename_i mv s1 hir
      rw [het] at h
      split at h
      · rename_i hc _; cases hc
      · rename_i hc _; cases hc
      · simp only [Option.some.injEq, Prod.mk.injEq] at h
        rw [← h.2.2, ← h.2.1, hroot hir, addWild_exportTop]; exact ⟨rfl, rfl⟩
  · split at h
    · cases h
    · rename_i hir
      simp only [Option.some.injEq, Prod.mk.injEq] at h; rw [← h.2.2, ← h.2.1]
      exact ⟨by rw [← runImport_exports hir]; rfl, rfl⟩
    · rename_i hir
      simp only [Option.some.injEq, Prod.mk.injEq] at h; rw [← h.2.2, ← h.2.1, runImport_exports hir]
      exact ⟨rfl, rfl⟩
  · split at h
    · simp only [Option.some.injEq, Prod.mk.injEq] at h; rw [← h.2.2, ← h.2.1]; exact ⟨rfl, rfl⟩
    · simp only [Option.some.injEq, Prod.mk.injEq] at h; rw [← h.2.2, ← h.2.1]; exact ⟨rfl, rfl⟩
  · simp only [Option.some.injEq, Prod.mk.injEq] at h; rw [← h.2.2, ← h.2.1]; exact ⟨rfl, rfl⟩
  · split at h
    · simp only [Option.some.injEq, Prod.mk.injEq] at h; rw [← h.2.2, ← h.2.1]; exact ⟨rfl, rfl⟩
    · simp only [Option.some.injEq] at h
      exact bindTargets_keeps _ k _ h (by simpa [touches] using ht)
  · simp only [Option.some.injEq] at h
    exact compoundStep_keeps _ _ k _ _ h (by simpa [touches] using ht)
  · rename_i n kk op r
    have ht1 : (fr.exportTop && kk == k) = false ∧ (fr.exportTop = true → k ≠ loopVar) := by
      cases het : fr.exportTop with
      | false => simp
      | true =>
        simp only [touches, het, Bool.true_and, Bool.or_eq_false_iff, beq_eq_false_iff_ne] at ht
        exact ⟨by simpa using ht.1, fun _ hh => ht.2 hh.symm⟩
    split at h
    · rename_i hc
      simp only [Option.some.injEq, Prod.mk.injEq] at h; rw [← h.2.2, ← h.2.1]
      exact compoundLoop_keeps _ _ k _ _ _ hc ht1.1
    · rename_i fr1 s1 hc
      obtain ⟨h1, h2⟩ := compoundLoop_keeps _ _ k _ _ _ hc ht1.1
      simp only [Option.some.injEq, Prod.mk.injEq] at h; rw [← h.2.2, ← h.2.1]
      refine ⟨?_, by rw [bind_exportTop, h2]⟩
      rw [exportIf_lookup_ne _ _ _ _ _ (fun hb => ht1.2 (by rw [← h2]; exact hb)), h1]
  · simp only [Option.some.injEq, Prod.mk.injEq] at h; rw [← h.2.2, ← h.2.1]
    simp only [touches, beq_eq_false_iff_ne] at ht
    refine ⟨?_, rfl⟩
    split
    · rfl
    · exact setData_lookup_ne _ _ _ _ (fun hh => ht hh.symm)
  · split at h
    · simp only [Option.some.injEq, Prod.mk.injEq] at h; rw [← h.2.2, ← h.2.1]
      exact ⟨rfl, by split <;> rfl⟩
    · simp only [Option.some.injEq, Prod.mk.injEq] at h; rw [← h.2.2, ← h.2.1]
      refine ⟨exportIf_lookup_ne _ _ _ _ _ ?_, rfl⟩
      intro het
      simp only [touches, het, Bool.true_and, beq_eq_false_iff_ne] at ht
      exact fun hh => ht hh.symm

theorem execTAct_keeps {cfg : Cfg} {fs : FS} {rec : Runner} {a : TAct} {fr fr' : Frame} {s s' : St}
    {r : Option Err} (k : Name) (h : execTAct cfg fs rec a fr s = some (r, fr', s'))
    (ht : touchesT cfg.exportAlias cfg.exportStrAlias fr.exportTop k a = false) :
    lookup k s'.exports.data = lookup k s.exports.data ∧ fr'.exportTop = fr.exportTop := by
  unfold execTAct at h
  split at h
  · exact execAct_keeps k h (by simpa [touchesT] using ht)
  · simp only [Option.some.injEq, Prod.mk.injEq] at h; rw [← h.2.2, ← h.2.1]
    simp only [touchesT, beq_eq_false_iff_ne] at ht
    refine ⟨?_, rfl⟩
    rw [setData_lookup_ne _ _ _ _ (fun hh => ht hh.symm)]
  · simp [touchesT] at ht
  · simp [touchesT] at ht
  · simp only [Option.some.injEq, Prod.mk.injEq] at h; rw [← h.2.2, ← h.2.1]; exact ⟨rfl, rfl⟩
  · simp only [Option.some.injEq, Prod.mk.injEq] at h; rw [← h.2.2, ← h.2.1]; exact ⟨rfl, rfl⟩

theorem execTActs_keeps {cfg : Cfg} {fs : FS} {rec : Runner} (k : Name) (acts : List TAct) :
    ∀ {fr fr' : Frame} {s s' : St} {r : Option Err},
    execTActs cfg fs rec acts fr s = some (r, fr', s') →
    (∀ a ∈ acts, touchesT cfg.exportAlias cfg.exportStrAlias fr.exportTop k a = false) →
    lookup k s'.exports.data = lookup k s.exports.data ∧ fr'.exportTop = fr.exportTop := by
  induction acts with
  | nil =>
    intro fr fr' s s' r h _
    simp only [execTActs, Option.some.injEq, Prod.mk.injEq] at h
    rw [← h.2.2, ← h.2.1]; exact ⟨rfl, rfl⟩
  | cons a rest ih =>
    intro fr fr' s s' r h ht
    unfold execTActs at h
    split at h
    · cases h
    · rename_i ha
      simp only [Option.some.injEq, Prod.mk.injEq] at h
      rw [← h.2.2, ← h.2.1]
      exact execTAct_keeps k ha (ht a (by simp))
    · rename_i fr1 s1 ha
      obtain ⟨h1, h2⟩ := execTAct_keeps k ha (ht a (by simp))
      obtain ⟨h3, h4⟩ := ih h (by intro b hb; rw [h2]; exact ht b (by simp [hb]))
      exact ⟨by rw [h3, h1], by rw [h4, h2]⟩

/-! the export_top_level_ids flag of a frame is never changed by a statement -/

theorem importItems_exportTop {cfg : Cfg} {fs : FS} {rec : Runner} (items : List Item) :
    ∀ {fr fr' : Frame} {s s' : St} {r : Option Err},
    importItems cfg fs rec items fr s = some (r, fr', s') → fr'.exportTop = fr.exportTop := by
  induction items with
  | nil =>
    intro fr fr' s s' r h
    simp only [importItems, Option.some.injEq, Prod.mk.injEq] at h; rw [← h.2.1]
  | cons it rest ih =>
    intro fr fr' s s' r h
    unfold importItems at h
    split at h
    · cases h
    · simp only [Option.some.injEq, Prod.mk.injEq] at h; rw [← h.2.1]
    · rw [ih h, bindItem_exportTop]

theorem fromItems_exportTop (al sa : Bool) (mv : V) (items : List Item) :
    ∀ {fr fr' : Frame} {s s' : St} {r : Option Err},
    fromItems al sa mv items fr s = (r, fr', s') → fr'.exportTop = fr.exportTop := by
  induction items with
  | nil =>
    intro fr fr' s s' r h
    simp only [fromItems, Prod.mk.injEq] at h; rw [← h.2.1]
  | cons it rest ih =>
    intro fr fr' s s' r h
    unfold fromItems at h
    split at h
    · simp only [Prod.mk.injEq] at h; rw [← h.2.1]
    · rw [ih h, bindItem_exportTop]

theorem bindEntries_exportTop (b : Bool) (mv : V) (es : List PEntry) :
    ∀ {fr fr' : Frame} {s s' : St} {r : Option Err},
    bindEntries b mv es fr s = (r, fr', s') → fr'.exportTop = fr.exportTop := by
  induction es with
  | nil => intro fr fr' s s' r h; simp only [bindEntries, Prod.mk.injEq] at h; rw [← h.2.1]
  | cons e rest ih =>
    intro fr fr' s s' r h
    unfold bindEntries at h
    split at h
    · simp only [Prod.mk.injEq] at h; rw [← h.2.1]
    · split at h
      · rw [ih h]; rfl
      · exact ih h

theorem bindTargets_exportTop (b : Bool) (ts : List Target) :
    ∀ {vs : List V} {fr fr' : Frame} {s s' : St} {r : Option Err},
    bindTargets b ts vs fr s = (r, fr', s') → fr'.exportTop = fr.exportTop := by
  induction ts with
  | nil => intro vs fr fr' s s' r h; simp only [bindTargets, Prod.mk.injEq] at h; rw [← h.2.1]
  | cons t rest ih =>
    intro vs fr fr' s s' r h
    cases t with
    | id k => simp only [bindTargets] at h; rw [ih h]; rfl
    | ignored => simp only [bindTargets] at h; exact ih h
    | mapPat es =>
      simp only [bindTargets] at h
      split at h
      · rename_i hb
        simp only [Prod.mk.injEq] at h; rw [← h.2.1]; exact bindEntries_exportTop _ _ _ hb
      · rename_i hb
        rw [ih h, bindEntries_exportTop _ _ _ hb]

theorem compoundStep_exportTop (cfg : Cfg) (k : Name) (op : COp) (r : Rhs) {fr fr' : Frame} {s s' : St}
    {e : Option Err} (h : compoundStep cfg k op r fr s = (e, fr', s')) : fr'.exportTop = fr.exportTop := by
  obtain ⟨e1, fr1, v, b, heq, hfr, _⟩ := compoundStep_spec cfg k op r fr s
  rw [heq] at h
  simp only [Prod.mk.injEq] at h
  rw [← h.2.1]; exact hfr

theorem compoundLoop_exportTop (cfg : Cfg) (k : Name) (op : COp) (r : Rhs) (n : Nat) :
    ∀ {fr fr' : Frame} {s s' : St} {e : Option Err},
    compoundLoop cfg k op r n fr s = (e, fr', s') → fr'.exportTop = fr.exportTop := by
  induction n with
  | zero => intro fr fr' s s' e h; simp only [compoundLoop, Prod.mk.injEq] at h; rw [← h.2.1]
  | succ n ih =>
    intro fr fr' s s' e h
    unfold compoundLoop at h
    split at h
    · rename_i hc
      simp only [Prod.mk.injEq] at h; rw [← h.2.1]; exact compoundStep_exportTop _ _ _ _ hc
    · rename_i hc
      rw [ih h, compoundStep_exportTop _ _ _ _ hc]

theorem execAct_exportTop {cfg : Cfg} {fs : FS} {rec : Runner} {a : Act} {fr fr' : Frame} {s s' : St}
    {r : Option Err} (h : execAct cfg fs rec a fr s = some (r, fr', s')) :
    fr'.exportTop = fr.exportTop := by
  unfold execAct at h
  split at h
  · simp only [Option.some.injEq, Prod.mk.injEq] at h; rw [← h.2.1]
  · simp only [Option.some.injEq, Prod.mk.injEq] at h; rw [← h.2.1]; rfl
  · simp only [Option.some.injEq, Prod.mk.injEq] at h; rw [← h.2.1]; rfl
  · split at h
    · simp only [Option.some.injEq, Prod.mk.injEq] at h; rw [← h.2.1]
    · simp only [Option.some.injEq, Prod.mk.injEq] at h; rw [← h.2.1]; rfl
  · split at h
    · simp only [Option.some.injEq, Prod.mk.injEq] at h; rw [← h.2.1]
    · simp only [Option.some.injEq, Prod.mk.injEq] at h; rw [← h.2.1]
  · exact importItems_exportTop _ h
  · split at h
    · cases h
    · simp only [Option.some.injEq, Prod.mk.injEq] at h; rw [← h.2.1]
    · simp only [Option.some.injEq] at h
      exact fromItems_exportTop _ _ _ _ h
  · split at h
    · cases h
    · simp only [Option.some.injEq, Prod.mk.injEq] at h; rw [← h.2.1]
    · split at h
      · simp only [Option.some.injEq, Prod.mk.injEq] at h; rw [← h.2.1, addWild_exportTop]
      · simp only [Option.some.injEq, Prod.mk.injEq] at h; rw [← h.2.1, addWild_exportTop]
      · simp only [Option.some.injEq, Prod.mk.injEq] at h; rw [← h.2.1, addWild_exportTop]
  · split at h
    · cases h
    · simp only [Option.some.injEq, Prod.mk.injEq] at h; rw [← h.2.1]
    · simp only [Option.some.injEq, Prod.mk.injEq] at h; rw [← h.2.1]
  · split at h
    · simp only [Option.some.injEq, Prod.mk.injEq] at h; rw [← h.2.1]
    · simp only [Option.some.injEq, Prod.mk.injEq] at h; rw [← h.2.1]
  · simp only [Option.some.injEq, Prod.mk.injEq] at h; rw [← h.2.1]
  · split at h
    · simp only [Option.some.injEq, Prod.mk.injEq] at h; rw [← h.2.1]
    · simp only [Option.some.injEq] at h
      exact bindTargets_exportTop _ _ h
  · simp only [Option.some.injEq] at h
    exact compoundStep_exportTop _ _ _ _ h
  · split at h
    · rename_i hc
      simp only [Option.some.injEq, Prod.mk.injEq] at h; rw [← h.2.1]; exact compoundLoop_exportTop _ _ _ _ _ hc
    · rename_i hc
      simp only [Option.some.injEq, Prod.mk.injEq] at h; rw [← h.2.1, bind_exportTop]
      exact compoundLoop_exportTop _ _ _ _ _ hc
  · simp only [Option.some.injEq, Prod.mk.injEq] at h; rw [← h.2.1]
  · split at h
    · simp only [Option.some.injEq, Prod.mk.injEq] at h; rw [← h.2.1]; split <;> rfl
    · simp only [Option.some.injEq, Prod.mk.injEq] at h; rw [← h.2.1]; rfl

theorem execTAct_exportTop {cfg : Cfg} {fs : FS} {rec : Runner} {a : TAct} {fr fr' : Frame} {s s' : St}
    {r : Option Err} (h : execTAct cfg fs rec a fr s = some (r, fr', s')) :
    fr'.exportTop = fr.exportTop := by
  unfold execTAct at h
  split at h
  · exact execAct_exportTop h
  · simp only [Option.some.injEq, Prod.mk.injEq] at h; rw [← h.2.1]; rfl
  · split at h
    · simp only [Option.some.injEq, Prod.mk.injEq] at h; rw [← h.2.1]
    · split at h
      · simp only [Option.some.injEq, Prod.mk.injEq] at h; rw [← h.2.1]
      · split at h
        · cases h
        · simp only [Option.some.injEq, Prod.mk.injEq] at h; rw [← h.2.1]
  · split at h
    · simp only [Option.some.injEq, Prod.mk.injEq] at h; rw [← h.2.1]
    · split at h
      · cases h
      · simp only [Option.some.injEq, Prod.mk.injEq] at h; rw [← h.2.1]
  · simp only [Option.some.injEq, Prod.mk.injEq] at h; rw [← h.2.1]
  · simp only [Option.some.injEq, Prod.mk.injEq] at h; rw [← h.2.1]

theorem execTActs_exportTop {cfg : Cfg} {fs : FS} {rec : Runner} (acts : List TAct) :
    ∀ {fr fr' : Frame} {s s' : St} {r : Option Err},
    execTActs cfg fs rec acts fr s = some (r, fr', s') → fr'.exportTop = fr.exportTop := by
  induction acts with
  | nil =>
    intro fr fr' s s' r h
    simp only [execTActs, Option.some.injEq, Prod.mk.injEq] at h; rw [← h.2.1]
  | cons a rest ih =>
    intro fr fr' s s' r h
    unfold execTActs at h
    split at h
    · cases h
    · rename_i ha
      simp only [Option.some.injEq, Prod.mk.injEq] at h
      rw [← h.2.1]; exact execTAct_exportTop ha
    · rename_i ha
      rw [ih h, execTAct_exportTop ha]

/-! ### exported (multi-)assignments with patterns: locals and exports entries move in lock-step -/

/-- the local `k` and the exports entry `k` exist and hold the same value -/
def AgreeAt (k : Name) (fr : Frame) (s : St) : Prop :=
  ∃ v, lookup k fr.locals = some v ∧ lookup k s.exports.data = some v

theorem agreeAt_step (k n : Name) (v : V) (fr : Frame) (s : St) (h : k = n ∨ AgreeAt k fr s) :
    AgreeAt k (Modules.bind n v fr) (exportIf true n v s) := by
  by_cases hk : k = n
  · subst hk
    exact ⟨v, by simp [Modules.bind, lookup_insert_self], by simp [exportIf, setData, lookup_insert_self]⟩
  · rcases h with h | ⟨v', h1, h2⟩
    · exact absurd h hk
    · refine ⟨v', ?_, ?_⟩
      · simp only [Modules.bind]; rw [lookup_insert_ne _ _ _ _ hk]; exact h1
      · simp only [exportIf, if_true, setData]; rw [lookup_insert_ne _ _ _ _ hk]; exact h2

theorem bindEntries_agree (mv : V) (k : Name) (es : List PEntry) :
    ∀ {fr fr' : Frame} {s s' : St}, bindEntries true mv es fr s = (none, fr', s') →
    (k ∈ es.filterMap PEntry.target ∨ AgreeAt k fr s) → AgreeAt k fr' s' := by
  induction es with
  | nil =>
    intro fr fr' s s' h hk
    simp only [bindEntries, Prod.mk.injEq, true_and] at h
    rw [← h.1, ← h.2]
    rcases hk with hk | hk
    · simp at hk
    · exact hk
  | cons e rest ih =>
    intro fr fr' s s' h hk
    unfold bindEntries at h
    split at h
    · simp at h
    · rename_i v _
      split at h
      · rename_i n hn
        apply ih h
        rcases hk with hk | hk
        · simp only [List.filterMap_cons, hn, List.mem_cons] at hk
          rcases hk with hk | hk
          · exact Or.inr (agreeAt_step k n v fr s (Or.inl hk))
          · exact Or.inl hk
        · exact Or.inr (agreeAt_step k n v fr s (Or.inr hk))
      · rename_i hn
        apply ih h
        rcases hk with hk | hk
        · simp only [List.filterMap_cons, hn] at hk; exact Or.inl hk
        · exact Or.inr hk

theorem bindTargets_agree (k : Name) (ts : List Target) :
    ∀ {vs : List V} {fr fr' : Frame} {s s' : St}, bindTargets true ts vs fr s = (none, fr', s') →
    (k ∈ boundIds ts ∨ AgreeAt k fr s) → AgreeAt k fr' s' := by
  induction ts with
  | nil =>
    intro vs fr fr' s s' h hk
    simp only [bindTargets, Prod.mk.injEq, true_and] at h
    rw [← h.1, ← h.2]
    rcases hk with hk | hk
    · simp [boundIds] at hk
    · exact hk
  | cons t rest ih =>
    intro vs fr fr' s s' h hk
    have hk' : k ∈ Target.bound t ∨ k ∈ boundIds rest ∨ AgreeAt k fr s := by
      rcases hk with hk | hk
      · simp only [boundIds, List.flatMap_cons, List.mem_append] at hk
        rcases hk with hk | hk
        · exact Or.inl hk
        · exact Or.inr (Or.inl hk)
      · exact Or.inr (Or.inr hk)
    cases t with
    | id k' =>
      simp only [bindTargets] at h
      apply ih h
      rcases hk' with hk' | hk' | hk'
      · simp only [Target.bound, List.mem_singleton] at hk'
        exact Or.inr (agreeAt_step k k' _ fr s (Or.inl hk'))
      · exact Or.inl hk'
      · exact Or.inr (agreeAt_step k k' _ fr s (Or.inr hk'))
    | ignored =>
      simp only [bindTargets] at h
      apply ih h
      rcases hk' with hk' | hk' | hk'
      · simp [Target.bound] at hk'
      · exact Or.inl hk'
      · exact Or.inr hk'
    | mapPat es =>
      simp only [bindTargets] at h
      split at h
      · simp at h
      · rename_i fr1 s1 hb
        apply ih h
        rcases hk' with hk' | hk' | hk'
        · exact Or.inr (bindEntries_agree _ k es hb (Or.inl hk'))
        · exact Or.inl hk'
        · exact Or.inr (bindEntries_agree _ k es hb (Or.inr hk'))

/-- a successful run of `xs ++ ys` is a successful run of `xs` followed by a run of `ys` -/
theorem execTActs_append {cfg : Cfg} {fs : FS} {rec : Runner} (xs ys : List TAct) :
    ∀ {fr fr' : Frame} {s s' : St},
    execTActs cfg fs rec (xs ++ ys) fr s = some (none, fr', s') →
    ∃ fr1 s1, execTActs cfg fs rec xs fr s = some (none, fr1, s1) ∧
      execTActs cfg fs rec ys fr1 s1 = some (none, fr', s') := by
  induction xs with
  | nil => intro fr fr' s s' h; exact ⟨fr, s, rfl, h⟩
  | cons a rest ih =>
    intro fr fr' s s' h
    simp only [List.cons_append] at h
    unfold execTActs at h
    split at h
    · cases h
    · simp at h
    · rename_i fr1 s1 ha
      obtain ⟨fr2, s2, h1, h2⟩ := ih h
      refine ⟨fr2, s2, ?_, h2⟩
      unfold execTActs
      rw [ha]; exact h1

end KotoVerif.C18L
