/-
C01 layer 5: lemmas about the compile-time frame model (`Model/Compile.lean`, `Frame`).
-/
import KotoVerif.Model.Compile

namespace KotoVerif.Compile

/-- slot `r` holds the committed local `x` -/
def Has (F : Frame) (r : Reg) (x : VarId) : Prop := F.locals[r]? = some (.assigned x)

/-- slot `r` is named `x` (assigned or reserved) -/
def Named (F : Frame) (r : Reg) (x : VarId) : Prop := (F.locals[r]?).bind Slot.id? = some x

theorem Has.named {F : Frame} {r : Reg} {x : VarId} (h : Has F r x) : Named F r x := by
  simp [Named, Has] at *; simp [h, Slot.id?]

/-- frame well-formedness: locals live below the temporaries, and a name occurs in one slot only -/
structure WF (F : Frame) : Prop where
  len : F.locals.length ≤ F.tb
  uniq : ∀ i j x, Named F i x → Named F j x → i = j

theorem Named.lt {F : Frame} {r : Reg} {x : VarId} (h : Named F r x) : r < F.locals.length := by
  unfold Named at h
  by_cases hr : r < F.locals.length
  · exact hr
  · have : F.locals[r]? = none := List.getElem?_eq_none (by omega)
    simp [this] at h

theorem Has.lt_tb {F : Frame} {r : Reg} {x : VarId} (hw : WF F) (h : Has F r x) : r < F.tb :=
  Nat.lt_of_lt_of_le h.named.lt hw.len

/-! ### findSlot -/

theorem findSlot_some (p : Slot → Bool) : ∀ (ls : List Slot) (i r : Nat), findSlot p ls i = some r →
    i ≤ r ∧ ∃ s, ls[r - i]? = some s ∧ p s = true := by
  intro ls
  induction ls with
  | nil => intro i r h; simp [findSlot] at h
  | cons s rest ih =>
    intro i r h
    simp only [findSlot] at h
    split at h
    · rename_i hp
      cases h
      exact ⟨Nat.le_refl _, s, by simp, hp⟩
    · obtain ⟨h1, s', h2, h3⟩ := ih (i + 1) r h
      refine ⟨by omega, s', ?_, h3⟩
      have : r - i = (r - (i + 1)) + 1 := by omega
      rw [this]; simpa using h2

theorem findSlot_none (p : Slot → Bool) : ∀ (ls : List Slot) (i : Nat), findSlot p ls i = none →
    ∀ (k : Nat) (s : Slot), ls[k]? = some s → p s = false := by
  intro ls
  induction ls with
  | nil => intro i _ k s hk; simp at hk
  | cons s0 rest ih =>
    intro i h k s hk
    simp only [findSlot] at h
    split at h
    · cases h
    · rename_i hp
      cases k with
      | zero => simp at hk; subst hk; simpa using hp
      | succ k => exact ih (i + 1) h k s (by simpa using hk)

theorem findSlot_first (p : Slot → Bool) : ∀ (ls : List Slot) (i k : Nat) (s : Slot),
    ls[k]? = some s → p s = true → ∃ r, findSlot p ls i = some r ∧ r ≤ i + k := by
  intro ls
  induction ls with
  | nil => intro i k s hk; simp at hk
  | cons s0 rest ih =>
    intro i k s hk hp
    simp only [findSlot]
    split
    · exact ⟨i, rfl, by omega⟩
    · cases k with
      | zero => simp at hk; subst hk; simp_all
      | succ k =>
        obtain ⟨r, h1, h2⟩ := ih (i + 1) k s (by simpa using hk) hp
        exact ⟨r, h1, by omega⟩

theorem getAssigned_has {F : Frame} {x : VarId} {r : Reg} (h : F.getAssigned x = some r) : Has F r x := by
  obtain ⟨_, s, h1, h2⟩ := findSlot_some _ _ _ _ h
  simp at h1 h2
  simp [Has, h1, h2]

theorem has_getAssigned {F : Frame} {x : VarId} {r : Reg} (hw : WF F) (h : Has F r x) : F.getAssigned x = some r := by
  obtain ⟨r', h1, _⟩ := findSlot_first (fun s => s == .assigned x) F.locals 0 r _ h (by simp)
  have h2 := getAssigned_has (F := F) h1
  have := hw.uniq r' r x h2.named h.named
  subst this
  exact h1

theorem getAOR_named {F : Frame} {x : VarId} {r : Reg} (h : F.getAssignedOrReserved x = some r) : Named F r x := by
  obtain ⟨_, s, h1, h2⟩ := findSlot_some _ _ _ _ h
  simp at h1 h2
  simp [Named, h1, h2]

theorem getAOR_none {F : Frame} {x : VarId} (h : F.getAssignedOrReserved x = none) : ∀ r, ¬ Named F r x := by
  intro r hn
  unfold Named at hn
  cases hs : F.locals[r]? with
  | none => simp [hs] at hn
  | some s =>
    have := findSlot_none _ _ _ h r s hs
    simp [hs] at hn
    simp [hn] at this

/-! ### pushReg / popReg -/

theorem pushReg_spec {F F' : Frame} {r : Reg} (h : F.pushReg = some (r, F')) :
    r = F.tb + F.tc ∧ F'.locals = F.locals ∧ F'.tb = F.tb ∧ F'.tc = F.tc + 1 := by
  unfold Frame.pushReg at h
  simp only at h
  split at h
  · cases h
  · cases h; simp

theorem popReg_spec {F F' : Frame} (h : F.popReg = some F') :
    F'.locals = F.locals ∧ F'.tb = F.tb ∧ F'.tc + 1 = F.tc := by
  unfold Frame.popReg at h
  split at h
  · cases h
  · cases h; simp; omega

/-- 1 for `true`, 0 for `false` (kept opaque to `omega`) -/
def bcount (b : Bool) : Nat := if b then 1 else 0
@[simp] theorem bcount_true : bcount true = 1 := rfl
@[simp] theorem bcount_false : bcount false = 0 := rfl

theorem popIf_spec {b : Bool} {F F' : Frame} (h : popIf b F = some F') :
    F'.locals = F.locals ∧ F'.tb = F.tb ∧ F'.tc + bcount b = F.tc := by
  unfold popIf at h
  cases b with
  | true => simpa using popReg_spec h
  | false => simp at h; subst h; simp

theorem WF.of_locals_eq {F F' : Frame} (hw : WF F) (h1 : F'.locals = F.locals) (h2 : F'.tb = F.tb) : WF F' := by
  refine ⟨by rw [h1, h2]; exact hw.len, ?_⟩
  intro i j x hi hj
  exact hw.uniq i j x (by simpa [Named, h1] using hi) (by simpa [Named, h1] using hj)

/-! ### reserve / commit -/

theorem reserve_spec {F F' : Frame} {x : VarId} {r : Reg} (hw : WF F) (h : F.reserve x = some (r, F')) :
    Named F' r x ∧ WF F' ∧ F'.tb = F.tb ∧ F'.tc = F.tc ∧
    (∀ (k : Nat) (s : Slot), F.locals[k]? = some s → F'.locals[k]? = some s) ∧
    (∀ k y, Has F' k y → Has F k y) := by
  unfold Frame.reserve at h
  cases hg : F.getAssignedOrReserved x with
  | some r0 =>
    simp [hg] at h
    obtain ⟨rfl, rfl⟩ := h
    exact ⟨getAOR_named hg, hw, rfl, rfl, fun _ _ h => h, fun _ _ h => h⟩
  | none =>
    simp only [hg] at h
    split at h
    · rename_i hlt
      cases h
      refine ⟨?_, ⟨?_, ?_⟩, rfl, rfl, ?_, ?_⟩
      · simp [Named, Slot.id?]
      · simp; omega
      · intro i j y hi hj
        simp only [Named] at hi hj
        by_cases h1 : i < F.locals.length <;> by_cases h2 : j < F.locals.length
        · rw [List.getElem?_append_left h1] at hi
          rw [List.getElem?_append_left h2] at hj
          exact hw.uniq i j y hi hj
        · rw [List.getElem?_append_left h1] at hi
          have hj' : j = F.locals.length := by
            by_cases h3 : j = F.locals.length
            · exact h3
            · have : (F.locals ++ [Slot.reserved x])[j]? = none := List.getElem?_eq_none (by simp; omega)
              simp [this] at hj
          subst hj'
          simp [Slot.id?] at hj
          subst hj
          exact absurd hi (getAOR_none hg i)
        · rw [List.getElem?_append_left h2] at hj
          have hi' : i = F.locals.length := by
            by_cases h3 : i = F.locals.length
            · exact h3
            · have : (F.locals ++ [Slot.reserved x])[i]? = none := List.getElem?_eq_none (by simp; omega)
              simp [this] at hi
          subst hi'
          simp [Slot.id?] at hi
          subst hi
          exact absurd hj (getAOR_none hg j)
        · have hi' : i = F.locals.length := by
            by_cases h3 : i = F.locals.length
            · exact h3
            · have : (F.locals ++ [Slot.reserved x])[i]? = none := List.getElem?_eq_none (by simp; omega)
              simp [this] at hi
          have hj' : j = F.locals.length := by
            by_cases h3 : j = F.locals.length
            · exact h3
            · have : (F.locals ++ [Slot.reserved x])[j]? = none := List.getElem?_eq_none (by simp; omega)
              simp [this] at hj
          omega
      · intro k s hk
        have : k < F.locals.length := by
          by_cases hk' : k < F.locals.length
          · exact hk'
          · have : F.locals[k]? = none := List.getElem?_eq_none (by omega)
            simp [this] at hk
        simp only
        rw [List.getElem?_append_left this]; exact hk
      · intro k y hk
        simp only [Has] at hk ⊢
        by_cases h1 : k < F.locals.length
        · rw [List.getElem?_append_left h1] at hk; exact hk
        · by_cases h3 : k = F.locals.length
          · subst h3; simp at hk
          · have : (F.locals ++ [Slot.reserved x])[k]? = none := List.getElem?_eq_none (by simp; omega)
            simp [this] at hk
    · cases h

theorem commit_spec {F F' : Frame} {r : Reg} {x : VarId} (hw : WF F) (hn : Named F r x)
    (h : F.commit r = some F') :
    Has F' r x ∧ WF F' ∧ F'.tb = F.tb ∧ F'.tc = F.tc ∧
    (∀ k y, Has F k y → Has F' k y) ∧ (∀ k y, Named F k y → Named F' k y) ∧
    (∀ k y, Has F' k y → k ≠ r → Has F k y) := by
  unfold Frame.commit at h
  have hlt := hn.lt
  cases hs : F.locals[r]? with
  | none => simp [hs] at h
  | some s =>
    cases s with
    | allocated => simp [hs] at h
    | assigned y =>
      simp [hs] at h
      subst h
      have : y = x := by simpa [Named, hs, Slot.id?] using hn
      subst this
      exact ⟨hs, hw, rfl, rfl, fun _ _ h => h, fun _ _ h => h, fun _ _ h _ => h⟩
    | reserved y =>
      simp [hs] at h
      subst h
      have : y = x := by simpa [Named, hs, Slot.id?] using hn
      subst this
      have hnamed : ∀ k z, Named F k z ↔ Named { F with locals := F.locals.set r (Slot.assigned y) } k z := by
        intro k z
        simp only [Named]
        by_cases hk : k = r
        · subst hk
          rw [List.getElem?_set_self hlt, hs]
          simp [Slot.id?]
        · rw [List.getElem?_set_ne (Ne.symm hk)]
      refine ⟨?_, ⟨?_, ?_⟩, rfl, rfl, ?_, ?_, ?_⟩
      · simp [Has, List.getElem?_set, hlt]
      · simpa using hw.len
      · intro i j z hi hj
        exact hw.uniq i j z ((hnamed i z).2 hi) ((hnamed j z).2 hj)
      · intro k z hk
        simp only [Has] at hk ⊢
        by_cases hkr : k = r
        · subst hkr; rw [hs] at hk; cases hk
        · simp [List.getElem?_set, Ne.symm hkr, hk]
      · intro k z hk; exact (hnamed k z).1 hk
      · intro k z hk hkr
        simp only [Has] at hk ⊢
        simpa [List.getElem?_set, Ne.symm hkr] using hk

end KotoVerif.Compile
