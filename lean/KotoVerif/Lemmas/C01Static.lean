/-
C01 layer 5: static side conditions of compiler correctness and the semantic lemmas about them.

* `writes x e`     — `e` may assign the local `x`
* `outLocal e`     — the local whose *own register* the compiler returns for `e` under
                     `ResultRegister::Any` (no copy is made: the value is read later, by the consumer)
* `safe E fx e`    — the two conditions under which the result-register protocol is sound:
    - *no late read*: when an operand's result is a local's own register, the following operand
      must not assign that local (F-C01-2 is exactly a program violating this);
    - *fixed safe*: when an expression is compiled into a local's register (`x = e`), `e` must not
      read `x` after a partial result has been written there — `and`/`or` write their left operand
      into the result register before evaluating the right one (F-C01-1 is exactly a program
      violating this). `E` is the list of locals whose register currently holds a partial result,
      `fx` the local (if any) that owns the fixed result register.
-/
import KotoVerif.Lemmas.C01Frame

namespace KotoVerif.Compile

def writes (x : VarId) : Expr → Bool
  | .null | .bool _ | .int _ | .var _ => false
  | .un _ a => writes x a
  | .bin _ a b | .cmp _ a b | .and a b | .or a b | .seq a b | .ifThen a b => writes x a || writes x b
  | .assign y e | .compound _ y e => y == x || writes x e
  | .ite c t e => writes x c || writes x t || writes x e
  | .chain3 _ _ a b c => writes x a || writes x b || writes x c

def outLocal : Expr → Option VarId
  | .var x => some x
  | .assign x _ => some x
  | .seq _ b => outLocal b
  | _ => none

def addOpt (fx : Option VarId) (E : List VarId) : List VarId :=
  match fx with
  | some x => x :: E
  | none => E

/-- no late read between operand `a` (compiled first, with `Any`) and operand `b` -/
def lateOk (E : List VarId) (a b : Expr) : Bool :=
  match outLocal a with
  | some y => !E.contains y && !writes y b
  | none => true

def safe (E : List VarId) (fx : Option VarId) : Expr → Bool
  | .null | .bool _ | .int _ => true
  | .var y => !E.contains y
  | .un _ a => safe E none a
  | .bin _ a b | .cmp _ a b => safe E none a && safe E none b && lateOk E a b
  | .chain3 _ _ a b c =>
    -- the first comparison's result is written to the comparison register (= the fixed result
    -- register, if any) before `c` is evaluated; `b`'s register is read again after `c`
    safe E none a && safe E none b && lateOk E a b && safe (addOpt fx E) none c && lateOk (addOpt fx E) b c
  | .and a b | .or a b => safe E fx a && safe (addOpt fx E) fx b
  | .assign y e => safe E (some y) e
  | .compound _ y e => safe E none e && !E.contains y && !writes y e
  | .seq a b => safe E none a && safe E fx b
  | .ite c t e => safe E none c && safe E fx t && safe E fx e
  | .ifThen c t => safe E none c && safe E fx t

variable {S : Sem}

@[simp] theorem Env.set_same (ρ : Env S) (x : VarId) (v : S.V) : (ρ.set x v) x = some v := by
  simp [Env.set]

theorem Env.set_other (ρ : Env S) {x y : VarId} (v : S.V) (h : y ≠ x) : (ρ.set x v) y = ρ y := by
  simp [Env.set, h]

@[simp] theorem Regs.set_same (σ : Regs S) (r : Reg) (v : S.V) : (σ.set r v) r = v := by
  simp [Regs.set]

theorem Regs.set_other (σ : Regs S) {r q : Reg} (v : S.V) (h : q ≠ r) : (σ.set r v) q = σ q := by
  simp [Regs.set, h]

/-- an expression that does not write `x` leaves `x` as it was -/
theorem eval_not_writes (x : VarId) : ∀ (e : Expr) (ρ ρ' : Env S) (v : S.V),
    writes x e = false → eval S e ρ = some (v, ρ') → ρ' x = ρ x := by
  intro e
  induction e with
  | null | bool _ | int _ => intro ρ ρ' v _ h; simp [eval] at h; rw [h.2]
  | var y =>
    intro ρ ρ' v _ h
    simp only [eval, Option.map_eq_some_iff] at h
    obtain ⟨_, _, h⟩ := h; cases h; rfl
  | un op a ih =>
    intro ρ ρ' v hw h
    simp only [writes] at hw
    simp only [eval] at h
    cases ha : eval S a ρ with
    | none => simp [ha] at h
    | some p =>
      obtain ⟨va, ρ1⟩ := p
      simp only [ha, Option.map_eq_some_iff] at h
      obtain ⟨_, _, h⟩ := h; cases h
      exact ih ρ ρ' va hw ha
  | bin op a b iha ihb | cmp op a b iha ihb =>
    intro ρ ρ' v hw h
    simp only [writes, Bool.or_eq_false_iff] at hw
    simp only [eval] at h
    cases ha : eval S a ρ with
    | none => simp [ha] at h
    | some p =>
      obtain ⟨va, ρ1⟩ := p
      simp only [ha] at h
      cases hb : eval S b ρ1 with
      | none => simp [hb] at h
      | some q =>
        obtain ⟨vb, ρ2⟩ := q
        simp only [hb, Option.map_eq_some_iff] at h
        obtain ⟨_, _, h⟩ := h; cases h
        rw [ihb ρ1 ρ' vb hw.2 hb, iha ρ ρ1 va hw.1 ha]
  | and a b iha ihb =>
    intro ρ ρ' v hw h
    simp only [writes, Bool.or_eq_false_iff] at hw
    simp only [eval] at h
    cases ha : eval S a ρ with
    | none => simp [ha] at h
    | some p =>
      obtain ⟨va, ρ1⟩ := p
      simp only [ha] at h
      split at h
      · rw [ihb ρ1 ρ' v hw.2 h, iha ρ ρ1 va hw.1 ha]
      · cases h; exact iha ρ ρ' v hw.1 ha
  | or a b iha ihb =>
    intro ρ ρ' v hw h
    simp only [writes, Bool.or_eq_false_iff] at hw
    simp only [eval] at h
    cases ha : eval S a ρ with
    | none => simp [ha] at h
    | some p =>
      obtain ⟨va, ρ1⟩ := p
      simp only [ha] at h
      split at h
      · cases h; exact iha ρ ρ' v hw.1 ha
      · rw [ihb ρ1 ρ' v hw.2 h, iha ρ ρ1 va hw.1 ha]
  | assign y e ih =>
    intro ρ ρ' v hw h
    simp only [writes, Bool.or_eq_false_iff, beq_eq_false_iff_ne] at hw
    simp only [eval] at h
    cases he : eval S e ρ with
    | none => simp [he] at h
    | some p =>
      obtain ⟨ve, ρ1⟩ := p
      simp only [he, Option.some.injEq, Prod.mk.injEq] at h
      obtain ⟨_, h⟩ := h
      subst h
      rw [Env.set_other _ _ (Ne.symm hw.1), ih ρ ρ1 ve hw.2 he]
  | compound op y e ih =>
    intro ρ ρ' v hw h
    simp only [writes, Bool.or_eq_false_iff, beq_eq_false_iff_ne] at hw
    simp only [eval] at h
    cases hy : ρ y with
    | none => simp [hy] at h
    | some vy =>
      simp only [hy] at h
      cases he : eval S e ρ with
      | none => simp [he] at h
      | some p =>
        obtain ⟨ve, ρ1⟩ := p
        simp only [he, Option.map_eq_some_iff] at h
        obtain ⟨_, _, h⟩ := h; cases h
        rw [Env.set_other _ _ (Ne.symm hw.1), ih ρ ρ1 ve hw.2 he]
  | seq a b iha ihb =>
    intro ρ ρ' v hw h
    simp only [writes, Bool.or_eq_false_iff] at hw
    simp only [eval] at h
    cases ha : eval S a ρ with
    | none => simp [ha] at h
    | some p =>
      obtain ⟨va, ρ1⟩ := p
      simp only [ha] at h
      rw [ihb ρ1 ρ' v hw.2 h, iha ρ ρ1 va hw.1 ha]
  | ite c t e ihc iht ihe =>
    intro ρ ρ' v hw h
    simp only [writes, Bool.or_eq_false_iff] at hw
    simp only [eval] at h
    cases hc : eval S c ρ with
    | none => simp [hc] at h
    | some p =>
      obtain ⟨vc, ρ1⟩ := p
      simp only [hc] at h
      split at h
      · rw [iht ρ1 ρ' v hw.1.2 h, ihc ρ ρ1 vc hw.1.1 hc]
      · rw [ihe ρ1 ρ' v hw.2 h, ihc ρ ρ1 vc hw.1.1 hc]
  | ifThen c t ihc iht =>
    intro ρ ρ' v hw h
    simp only [writes, Bool.or_eq_false_iff] at hw
    simp only [eval] at h
    cases hc : eval S c ρ with
    | none => simp [hc] at h
    | some p =>
      obtain ⟨vc, ρ1⟩ := p
      simp only [hc] at h
      split at h
      · rw [iht ρ1 ρ' v hw.2 h, ihc ρ ρ1 vc hw.1 hc]
      · cases h; exact ihc ρ ρ' vc hw.1 hc
  | chain3 op1 op2 a b c iha ihb ihc =>
    intro ρ ρ' v hw h
    simp only [writes, Bool.or_eq_false_iff] at hw
    simp only [eval] at h
    cases ha : eval S a ρ with
    | none => simp [ha] at h
    | some p =>
      obtain ⟨va, ρ1⟩ := p
      simp only [ha] at h
      cases hb : eval S b ρ1 with
      | none => simp [hb] at h
      | some q =>
        obtain ⟨vb, ρ2⟩ := q
        simp only [hb] at h
        cases h1 : S.binop op1 va vb with
        | none => simp [h1] at h
        | some r1 =>
          simp only [h1] at h
          split at h
          · cases hc : eval S c ρ2 with
            | none => simp [hc] at h
            | some t =>
              obtain ⟨vc, ρ3⟩ := t
              simp only [hc, Option.map_eq_some_iff] at h
              obtain ⟨_, _, h⟩ := h; cases h
              rw [ihc ρ2 ρ' vc hw.2 hc, ihb ρ1 ρ2 vb hw.1.2 hb, iha ρ ρ1 va hw.1.1 ha]
          · cases h
            rw [ihb ρ1 ρ' vb hw.1.2 hb, iha ρ ρ1 va hw.1.1 ha]

/-- after evaluating an expression whose `Any` result is a local's own register, that local holds
the expression's value -/
theorem outLocal_eval : ∀ (e : Expr) (y : VarId) (ρ ρ' : Env S) (v : S.V),
    outLocal e = some y → eval S e ρ = some (v, ρ') → ρ' y = some v := by
  intro e
  induction e with
  | var x =>
    intro y ρ ρ' v ho h
    simp only [outLocal, Option.some.injEq] at ho; subst ho
    simp only [eval, Option.map_eq_some_iff] at h
    obtain ⟨w, hw, h⟩ := h; cases h; exact hw
  | assign x e _ =>
    intro y ρ ρ' v ho h
    simp only [outLocal, Option.some.injEq] at ho; subst ho
    simp only [eval] at h
    cases he : eval S e ρ with
    | none => simp [he] at h
    | some p =>
      obtain ⟨ve, ρ1⟩ := p
      simp only [he, Option.some.injEq, Prod.mk.injEq] at h
      obtain ⟨h1, h2⟩ := h
      subst h1 h2
      simp
  | seq a b _ ihb =>
    intro y ρ ρ' v ho h
    simp only [outLocal] at ho
    simp only [eval] at h
    cases ha : eval S a ρ with
    | none => simp [ha] at h
    | some p =>
      obtain ⟨va, ρ1⟩ := p
      simp only [ha] at h
      exact ihb y ρ1 ρ' v ho h
  | _ => intro y ρ ρ' v ho; simp [outLocal] at ho

end KotoVerif.Compile
