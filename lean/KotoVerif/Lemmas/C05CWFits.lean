/-
C05 `compile_wf`: the compiler core never lets the register count exceed the u8 register file.
-/
import KotoVerif.Lemmas.C05CompileWF

namespace KotoVerif.Compile

/-- the frame's register count fits the u8 register file -/
def U (F : Frame) : Prop := F.tb + F.tmax ≤ 255

theorem pushReg_U {F F' : Frame} {r : Reg} (h : F.pushReg = some (r, F')) (hu : U F) : U F' := by
  unfold Frame.pushReg at h
  simp only at h
  split at h
  · cases h
  · cases h
    simp only [U] at *
    omega

theorem popReg_U {F F' : Frame} (h : F.popReg = some F') (hu : U F) : U F' := by
  unfold Frame.popReg at h
  split at h
  · cases h
  · cases h; exact hu

theorem popIf_U {b : Bool} {F F' : Frame} (h : popIf b F = some F') (hu : U F) : U F' := by
  unfold popIf at h
  cases b with
  | true => exact popReg_U h hu
  | false => simp at h; subst h; exact hu

theorem assignResult_U {m : Mode} {F F1 : Frame} {res : Out} (h : assignResult m F = some (res, F1)) (hu : U F) : U F1 := by
  unfold assignResult at h
  cases m with
  | fixed r => simp at h; obtain ⟨_, rfl⟩ := h; exact hu
  | none => simp at h; obtain ⟨_, rfl⟩ := h; exact hu
  | any =>
    simp only [Option.map_eq_some_iff, Prod.exists] at h
    obtain ⟨r, F2, hp, h⟩ := h
    simp only [Prod.mk.injEq] at h
    obtain ⟨_, rfl⟩ := h
    exact pushReg_U hp hu

theorem resultOrTemp_U {res : Out} {F1 F2 : Frame} {reg : Reg} (h : resultOrTemp res F1 = some (reg, F2)) (hu : U F1) : U F2 := by
  unfold resultOrTemp at h
  cases hr : res.reg with
  | some r => simp [hr] at h; obtain ⟨_, rfl⟩ := h; exact hu
  | none => simp only [hr] at h; exact pushReg_U h hu

theorem reserve_U {F F' : Frame} {x : VarId} {r : Reg} (h : F.reserve x = some (r, F')) (hu : U F) : U F' := by
  unfold Frame.reserve at h
  split at h
  · cases h; exact hu
  · simp only at h
    split at h
    · cases h; exact hu
    · cases h

theorem commit_U {F F' : Frame} {r : Reg} (h : F.commit r = some F') (hu : U F) : U F' := by
  unfold Frame.commit at h
  split at h
  · cases h; exact hu
  · cases h; exact hu
  · cases h

theorem commitIf_U {o : Out} {vr : Reg} {F F' : Frame} (h : commitIf o vr F = some F') (hu : U F) : U F' := by
  unfold commitIf at h
  split at h
  · cases h; exact hu
  · exact commit_U h hu

/-- `compile` never makes the frame's register count exceed 255: `push_register` refuses register 255 -/
theorem compile_fits : ∀ (e : Expr) (m : Mode) (F : Frame) (code : Code) (out : Out) (F' : Frame),
    compile e m F = some (code, out, F') → U F → U F' := by
  intro e
  induction e with
  | null | bool _ | int _ =>
    intro m F code out F' h hu
    simp only [compile, bind, Option.bind_eq_some_iff, Prod.exists, pure, Option.some.injEq, Prod.mk.injEq] at h
    obtain ⟨res, F1, ha, _, _, rfl⟩ := h
    exact assignResult_U ha hu
  | var x =>
    intro m F code out F' h hu
    simp only [compile] at h
    cases hg : F.getAssigned x with
    | none => simp [hg] at h
    | some rx =>
      simp only [hg] at h
      cases m <;> simp at h <;> obtain ⟨_, _, rfl⟩ := h <;> exact hu
  | un op e ih =>
    intro m F code out F' h hu
    simp only [compile, bind, Option.bind_eq_some_iff, Prod.exists, pure, Option.some.injEq, Prod.mk.injEq] at h
    obtain ⟨res, F1, ha, c, o, F2, hc, vr, hvr, F3, hp, _, _, rfl⟩ := h
    exact popIf_U hp (ih _ _ _ _ _ hc (assignResult_U ha hu))
  | bin op a b iha ihb =>
    intro m F code out F' h hu
    simp only [compile, bind, Option.bind_eq_some_iff, Prod.exists] at h
    obtain ⟨res, F1, ha, h⟩ := h
    have u1 := assignResult_U ha hu
    cases hr : res.reg with
    | some r =>
      simp only [hr, Option.bind_eq_some_iff, Prod.exists, pure, Option.some.injEq, Prod.mk.injEq] at h
      obtain ⟨ca, oa, F2, hca, ra, hra, cb, ob, F3, hcb, rb, hrb, F4, hp1, F5, hp2, _, _, rfl⟩ := h
      exact popIf_U hp2 (popIf_U hp1 (ihb _ _ _ _ _ hcb (iha _ _ _ _ _ hca u1)))
    | none =>
      simp only [hr, Option.bind_eq_some_iff, Prod.exists, pure, Option.some.injEq, Prod.mk.injEq] at h
      obtain ⟨ca, oa, F2, hca, cb, ob, F3, hcb, _, _, rfl⟩ := h
      exact ihb _ _ _ _ _ hcb (iha _ _ _ _ _ hca u1)
  | cmp op a b iha ihb =>
    intro m F code out F' h hu
    simp only [compile, bind, Option.bind_eq_some_iff, Prod.exists, pure, Option.some.injEq, Prod.mk.injEq] at h
    obtain ⟨res, F1, ha, r0, F1', hrt, ca, oa, F2, hca, ra, hra, cb, ob, F3, hcb, rb, hrb, _, _, rfl⟩ := h
    have := ihb _ _ _ _ _ hcb (iha _ _ _ _ _ hca (resultOrTemp_U hrt (assignResult_U ha hu)))
    exact this
  | chain3 op1 op2 a b c iha ihb ihc =>
    intro m F code out F' h hu
    simp only [compile, bind, Option.bind_eq_some_iff, Prod.exists, pure, Option.some.injEq, Prod.mk.injEq] at h
    obtain ⟨res, F1, ha, creg, F1', hrt, ca, oa, F2, hca, ra, hra, cb, ob, F3, hcb, rb, hrb, cc, oc, F4, hcc, rc, hrc, _, _, rfl⟩ := h
    have := ihc _ _ _ _ _ hcc (ihb _ _ _ _ _ hcb (iha _ _ _ _ _ hca (resultOrTemp_U hrt (assignResult_U ha hu))))
    exact this
  | and a b iha ihb | or a b iha ihb =>
    intro m F code out F' h hu
    simp only [compile, bind, Option.bind_eq_some_iff, Prod.exists, pure, Option.some.injEq, Prod.mk.injEq] at h
    obtain ⟨res, F1, ha, reg, F2, hrt, ca, oa, F3, hca, cb, ob, F4, hcb, F5, hp, _, _, rfl⟩ := h
    exact popIf_U hp (ihb _ _ _ _ _ hcb (iha _ _ _ _ _ hca (resultOrTemp_U hrt (assignResult_U ha hu))))
  | assign x e ih =>
    intro m F code out F' h hu
    simp only [compile, bind, Option.bind_eq_some_iff, Prod.exists, pure, Option.some.injEq, Prod.mk.injEq] at h
    obtain ⟨rx, F1, hres, c, o, F2, hc, vr, hvr, F3, hcm, _, _, rfl⟩ := h
    exact commitIf_U hcm (ih _ _ _ _ _ hc (reserve_U hres hu))
  | compound op x e ih =>
    intro m F code out F' h hu
    simp only [compile, bind, Option.bind_eq_some_iff, Prod.exists, pure, Option.some.injEq, Prod.mk.injEq] at h
    obtain ⟨res, F1, ha, cr, orr, F2, hc, rr, hrr, rl, hrl, F5, hp, _, _, rfl⟩ := h
    exact popIf_U hp (ih _ _ _ _ _ hc (assignResult_U ha hu))
  | seq a b iha ihb =>
    intro m F code out F' h hu
    simp only [compile, bind, Option.bind_eq_some_iff, Prod.exists, pure, Option.some.injEq, Prod.mk.injEq] at h
    obtain ⟨ca, oa, F1, hca, cb, o, F2, hcb, _, _, rfl⟩ := h
    exact ihb _ _ _ _ _ hcb (iha _ _ _ _ _ hca hu)
  | ite c t e ihc iht ihe =>
    intro m F code out F' h hu
    simp only [compile, bind, Option.bind_eq_some_iff, Prod.exists, pure, Option.some.injEq, Prod.mk.injEq] at h
    obtain ⟨res, F1, ha, cc, oc, F2, hcc, rc, hrc, F3, hp, ct, ot, F4, hct, ce, oe, F5, hce, _, _, rfl⟩ := h
    exact ihe _ _ _ _ _ hce (iht _ _ _ _ _ hct (popIf_U hp (ihc _ _ _ _ _ hcc (assignResult_U ha hu))))
  | ifThen c t ihc iht =>
    intro m F code out F' h hu
    simp only [compile, bind, Option.bind_eq_some_iff, Prod.exists, pure, Option.some.injEq, Prod.mk.injEq] at h
    obtain ⟨res, F1, ha, cc, oc, F2, hcc, rc, hrc, F3, hp, ct, ot, F4, hct, _, _, rfl⟩ := h
    exact iht _ _ _ _ _ hct (popIf_U hp (ihc _ _ _ _ _ hcc (assignResult_U ha hu)))

end KotoVerif.Compile
