/-
C04 helper lemmas: the implementation's try/catch/finally code layout (`Mech.compile`, run on the
frame machine of `Model/TryMech.lean`) *refines* the guide-level evaluator on the fragment `Frag`:
no `return`/`break`/`continue`, no error leaving a catch block of a try that has `finally`.
`sim_all` is the simulation (one induction on the evaluator's fuel, three task kinds);
`mech_refines_guide` is the whole-program statement.
-/
import KotoVerif.Model.TryEval
import KotoVerif.Model.TryMech
import KotoVerif.Lemmas.C04

namespace KotoVerif.Mech
open KotoVerif.Try

/-- the instruction list `c` sits at position `pc` of function `fn` -/
def CodeAt (code : Code) (fn pc : Nat) (c : List Ins) : Prop :=
  ∃ pre post, fnCode code fn = pre ++ c ++ post ∧ pre.length = pc

theorem codeAt_append_left {code : Code} {fn pc : Nat} {a b : List Ins}
    (h : CodeAt code fn pc (a ++ b)) : CodeAt code fn pc a := by
  obtain ⟨pre, post, h1, h2⟩ := h
  exact ⟨pre, b ++ post, by simp [h1], h2⟩

theorem codeAt_append_right {code : Code} {fn pc : Nat} {a b : List Ins}
    (h : CodeAt code fn pc (a ++ b)) : CodeAt code fn (pc + a.length) b := by
  obtain ⟨pre, post, h1, h2⟩ := h
  exact ⟨pre ++ a, post, by simp [h1], by simp [h2]⟩

theorem codeAt_head {code : Code} {fn pc : Nat} {i : Ins} {r : List Ins}
    (h : CodeAt code fn pc (i :: r)) : fetchAt code fn pc = some i := by
  obtain ⟨pre, post, h1, h2⟩ := h
  subst h2
  simp [fetchAt, h1]

theorem codeAt_tail {code : Code} {fn pc : Nat} {i : Ins} {r : List Ins}
    (h : CodeAt code fn pc (i :: r)) : CodeAt code fn (pc + 1) r := by
  have := codeAt_append_right (a := [i]) (b := r) (by simpa using h)
  simpa using this

theorem steps_add (code : Code) (a b : Nat) (s : VM) : steps code (a + b) s = steps code b (steps code a s) := by
  induction a generalizing s with
  | zero => simp [steps]
  | succ a ih => rw [Nat.succ_add]; simp [steps, ih]

theorem steps_trans {code : Code} {a b : Nat} {s s1 s2 : VM} (h1 : steps code a s = s1)
    (h2 : steps code b s1 = s2) : steps code (a + b) s = s2 := by
  rw [steps_add, h1, h2]

theorem steps_one (code : Code) (s : VM) : steps code 1 s = step code s := rfl

def SameCtl (f f' : Frame) : Prop :=
  f'.fn = f.fn ∧ f'.catchStack = f.catchStack ∧ f'.barrier = f.barrier ∧ f'.loops = f.loops

theorem SameCtl.refl (f : Frame) : SameCtl f f := ⟨rfl, rfl, rfl, rfl⟩
theorem SameCtl.trans {a b c : Frame} (h1 : SameCtl a b) (h2 : SameCtl b c) : SameCtl a c :=
  ⟨h2.1.trans h1.1, h2.2.1.trans h1.2.1, h2.2.2.1.trans h1.2.2.1, h2.2.2.2.trans h1.2.2.2⟩

def mk (f : Frame) (rest : List Frame) (o : List Nat) : VM := { frames := f :: rest, out := o, result := .running }

def tags (d : List Ev) : List Nat := d.map (·.tag)

/-- what the machine does, for an outcome `sig` of the guide-level evaluator -/
def Sim (code : Code) (sig : Sig) (σ σ' : St) (f : Frame) (rest : List Frame) (o : List Nat)
    (endIp : Nat) (g : Frame) : Prop :=
  match sig with
  | .ok _ => ∃ k f' d, steps code k (mk f rest o) = mk f' rest (o ++ tags d) ∧ σ'.out = σ.out ++ d ∧
      SameCtl g f' ∧ f'.ip = endIp
  | .err v => ∃ k f' d, steps code k (mk f rest o) = raise v (mk f' rest (o ++ tags d)) ∧
      σ'.out = σ.out ++ d ∧ SameCtl g f'
  | .oof => True
  | _ => False

theorem step_emit {code : Code} {f : Frame} {rest : List Frame} {o : List Nat} {t : Nat}
    (h : fetchAt code f.fn f.ip = some (.emit t)) :
    step code (mk f rest o) = mk { f with ip := f.ip + 1 } rest (o ++ [t]) := by
  simp [step, mk, h, setTop]

theorem step_throw {code : Code} {f : Frame} {rest : List Frame} {o : List Nat} {v : Val}
    (h : fetchAt code f.fn f.ip = some (.throw v)) :
    step code (mk f rest o) = raise v (mk f rest o) := by
  simp [step, mk, h]

theorem step_tryStart {code : Code} {f : Frame} {rest : List Frame} {o : List Nat} {reg off : Nat}
    (h : fetchAt code f.fn f.ip = some (.tryStart reg off)) :
    step code (mk f rest o) =
      mk { f with ip := f.ip + 1, catchStack := (reg, f.ip + 1 + off, f.loops.length) :: f.catchStack } rest o := by
  simp [step, mk, h, setTop]

theorem step_tryEnd {code : Code} {f : Frame} {rest : List Frame} {o : List Nat}
    (h : fetchAt code f.fn f.ip = some .tryEnd) :
    step code (mk f rest o) = mk { f with ip := f.ip + 1, catchStack := f.catchStack.drop 1 } rest o := by
  simp [step, mk, h, setTop]

theorem step_jump {code : Code} {f : Frame} {rest : List Frame} {o : List Nat} {off : Nat}
    (h : fetchAt code f.fn f.ip = some (.jumpFwd off)) :
    step code (mk f rest o) = mk { f with ip := f.ip + 1 + off } rest o := by
  simp [step, mk, h, setTop]

theorem step_copy {code : Code} {f : Frame} {rest : List Frame} {o : List Nat} {d s : Nat}
    (h : fetchAt code f.fn f.ip = some (.copy d s)) :
    step code (mk f rest o) = mk { f with ip := f.ip + 1, regs := (d, regGet f.regs s) :: f.regs } rest o := by
  simp [step, mk, h, setTop]

theorem step_check {code : Code} {f : Frame} {rest : List Frame} {o : List Nat} {reg off : Nat} {ty : Ty}
    (h : fetchAt code f.fn f.ip = some (.checkType reg ty off)) :
    step code (mk f rest o) =
      if accepts (some ty) (regGet f.regs reg) then mk { f with ip := f.ip + 1 } rest o
      else mk { f with ip := f.ip + 1 + off } rest o := by
  simp [step, mk, h, setTop]

/-- raising with this frame's own catch entry on top resumes in this frame -/
theorem raise_here (v : Val) (f : Frame) (rest : List Frame) (o : List Nat) (reg ip d : Nat)
    (K : List (Nat × Nat × Nat)) (h : f.catchStack = (reg, ip, d) :: K) (hd : d = f.loops.length) :
    raise v (mk f rest o) = mk { f with ip := ip, regs := (reg, v) :: f.regs } rest o := by
  simp [raise, mk, unwind, h, hd]


/-! ### the fragment -/

/-- straight-line marker code: cannot raise -/
inductive Plain : E → Prop where
  | emit t : Plain (.emit t none)
  | lit v : Plain (.lit v)
  | seq es : (∀ e ∈ es, Plain e) → Plain (.seq es)

def LastUntyped : List Catch → Prop
  | [] => False
  | [(ty, _, _)] => ty = none
  | _ :: c :: rest => LastUntyped (c :: rest)

/-- The fragment on which the implementation's layout refines the guide: markers, `throw` of a
literal, sequences, and try/typed-catch*/catch/finally — with no `return`/`break`/`continue`, and
no error leaving a catch block of a try that has a `finally` (its catch blocks are `Plain`); the
last catch block is untyped (the compiler rejects anything else). An error may leave a catch block
of a try *without* finally, may be raised inside `finally`, and tries nest arbitrarily. -/
inductive Frag : E → Prop where
  | emit t : Frag (.emit t none)
  | lit v : Frag (.lit v)
  | throw v : Frag (.throw (.lit v))
  | seq es : (∀ e ∈ es, Frag e) → Frag (.seq es)
  | tryNoFin b cs : Frag b → (∀ c ∈ cs, Frag c.2.2) → LastUntyped cs → Frag (.try_ b cs none)
  | tryFin b cs f : Frag b → (∀ c ∈ cs, Plain c.2.2) → LastUntyped cs → Frag f →
      Frag (.try_ b cs (some f))

theorem Plain.frag {e : E} (h : Plain e) : Frag e := by
  induction h with
  | emit t => exact .emit t
  | lit v => exact .lit v
  | seq es _ ih => exact .seq es ih

def OkOrOof (sig : Sig) : Prop := (∃ v, sig = .ok v) ∨ sig = .oof

theorem plain_not_err (P : Prog) : ∀ n,
    (∀ e σ sig σ', Plain e → run guide P n (.ev e) σ = (sig, σ') → OkOrOof sig) ∧
    (∀ es last σ sig σ', (∀ e ∈ es, Plain e) → run guide P n (.seq es last) σ = (sig, σ') → OkOrOof sig) := by
  intro n
  induction n with
  | zero =>
    constructor <;> intros <;> simp_all [run, OkOrOof]
  | succ n ih =>
    constructor
    · intro e σ sig σ' he h
      cases he with
      | emit t => simp [run] at h; exact .inl ⟨_, h.1.symm⟩
      | lit v => simp [run] at h; exact .inl ⟨_, h.1.symm⟩
      | seq es hes => simp only [run] at h; exact ih.2 es _ σ sig σ' hes h
    · intro es last σ sig σ' hes h
      cases es with
      | nil => simp [run] at h; exact .inl ⟨_, h.1.symm⟩
      | cons e rest =>
        simp only [run] at h
        split at h
        · rename_i v σ1 heq
          exact ih.2 rest v σ1 sig σ' (fun e he => hes e (by simp [he])) h
        · rename_i hne
          have := ih.1 e σ _ _ (hes e (by simp)) (Prod.ext rfl rfl : run guide P n (.ev e) σ = (_, _))
          rw [h] at this
          exact this

theorem catches_plain_not_err (P : Prog) (cs : List Catch) (hp : ∀ c ∈ cs, Plain c.2.2)
    (hl : LastUntyped cs) : ∀ n v σ sig σ', run guide P n (.catches cs v) σ = (sig, σ') → OkOrOof sig := by
  induction cs with
  | nil => exact absurd hl (by simp [LastUntyped])
  | cons c rest ih =>
    intro n v σ sig σ' h
    obtain ⟨ty, x, body⟩ := c
    cases n with
    | zero => simp [run] at h; exact .inr h.1.symm
    | succ n =>
      simp only [run] at h
      split at h
      · exact (plain_not_err P n).1 body _ sig σ' (hp (ty, x, body) (by simp)) h
      · rename_i hacc
        cases rest with
        | nil =>
          simp [LastUntyped] at hl
          subst hl
          simp [accepts] at hacc
        | cons c2 rest2 =>
          exact ih (fun c hc => hp c (by simp [hc])) (by simpa [LastUntyped] using hl) n v σ sig σ' h


theorem tags_append (a b : List Ev) : tags (a ++ b) = tags a ++ tags b := by simp [tags]

/-- prefix: the machine first runs from `f` to `f1`, then simulates from there -/
theorem sim_prefix {code : Code} {sig : Sig} {σ σ1 σ' : St} {f f1 g : Frame} {rest : List Frame}
    {o : List Nat} {d1 : List Ev} {e : Nat} {k1 : Nat}
    (hr : steps code k1 (mk f rest o) = mk f1 rest (o ++ tags d1)) (ho : σ1.out = σ.out ++ d1)
    (hs : Sim code sig σ1 σ' f1 rest (o ++ tags d1) e g) : Sim code sig σ σ' f rest o e g := by
  cases sig with
  | ok v =>
    obtain ⟨k, f', d, h1, h2, h3, h4⟩ := hs
    exact ⟨k1 + k, f', d1 ++ d, by rw [steps_trans hr h1, tags_append, List.append_assoc],
      by rw [h2, ho, List.append_assoc], h3, h4⟩
  | err v =>
    obtain ⟨k, f', d, h1, h2, h3⟩ := hs
    exact ⟨k1 + k, f', d1 ++ d, by rw [steps_trans hr h1, tags_append, List.append_assoc],
      by rw [h2, ho, List.append_assoc], h3⟩
  | oof => trivial
  | vals _ => exact hs
  | ret _ => exact hs
  | brk => exact hs
  | cont => exact hs

theorem sim_ref {code : Code} {sig : Sig} {σ σ' : St} {f g g' : Frame} {rest : List Frame}
    {o : List Nat} {e : Nat} (hg : SameCtl g' g) (hs : Sim code sig σ σ' f rest o e g) :
    Sim code sig σ σ' f rest o e g' := by
  cases sig with
  | ok v =>
    obtain ⟨k, f', d, h1, h2, h3, h4⟩ := hs
    exact ⟨k, f', d, h1, h2, hg.trans h3, h4⟩
  | err v =>
    obtain ⟨k, f', d, h1, h2, h3⟩ := hs
    exact ⟨k, f', d, h1, h2, hg.trans h3⟩
  | oof => trivial
  | vals _ => exact hs
  | ret _ => exact hs
  | brk => exact hs
  | cont => exact hs

/-- zero-length prefix with no output -/
theorem sim_prefix0 {code : Code} {sig : Sig} {σ σ' : St} {f f1 g : Frame} {rest : List Frame}
    {o : List Nat} {e : Nat} {k1 : Nat}
    (hr : steps code k1 (mk f rest o) = mk f1 rest o)
    (hs : Sim code sig σ σ' f1 rest o e g) : Sim code sig σ σ' f rest o e g := by
  have hr' : steps code k1 (mk f rest o) = mk f1 rest (o ++ tags []) := by simpa [tags] using hr
  have hs' : Sim code sig σ σ' f1 rest (o ++ tags []) e g := by simpa [tags] using hs
  exact sim_prefix (d1 := []) hr' (by simp) hs'

/-! ### compiler inversion -/

theorem concatOpt_cons_some {a : Option (List Ins)} {rest : List (Option (List Ins))} {c : List Ins}
    (h : concatOpt (a :: rest) = some c) :
    ∃ ca cr, a = some ca ∧ concatOpt rest = some cr ∧ c = ca ++ cr := by
  cases a with
  | none => simp [concatOpt] at h
  | some ca =>
    simp [concatOpt] at h
    obtain ⟨cr, h1, h2⟩ := h
    exact ⟨ca, cr, rfl, h1, h2.symm⟩

theorem compile_try_inv {cf d op : Nat} {b : E} {cs : List Catch} {fin : Option E} {c : List Ins}
    (h : compile (cf + 1) d op (.try_ b cs fin) = some c) :
    ∃ bc cc fc, compile cf (d + 1) (op + 1) b = some bc ∧
      compileCatches (compile cf (d + 1) op) (100 + d) cs = some cc ∧
      (match fin with | some f => compile cf d op f | none => some []) = some fc ∧
      c = .tryStart (100 + d) (bc.length + 2) :: bc ++ [.tryEnd, .jumpFwd (1 + cc.length)] ++ [.tryEnd] ++ cc ++ fc := by
  cases fin with
  | none =>
    simp only [compile, Option.bind_eq_bind, Option.bind_eq_some_iff, Option.pure_def, Option.some.injEq] at h
    obtain ⟨bc, h1, cc, h2, fc, h3, h4⟩ := h
    exact ⟨bc, cc, fc, h1, h2, by simpa using h3, h4.symm⟩
  | some f =>
    simp only [compile, Option.bind_eq_bind, Option.bind_eq_some_iff, Option.pure_def, Option.some.injEq] at h
    obtain ⟨bc, h1, cc, h2, fc, h3, h4⟩ := h
    exact ⟨bc, cc, fc, h1, h2, h3, h4.symm⟩

theorem compileCatches_last_inv {comp : E → Option (List Ins)} {reg : Nat} {x : Nat}
    {body : E} {cc : List Ins} (h : compileCatches comp reg [(none, x, body)] = some cc) :
    ∃ b, comp body = some b ∧ cc = .copy x reg :: b := by
  simp only [compileCatches, Option.bind_eq_bind, Option.bind_eq_some_iff, Option.pure_def, Option.some.injEq] at h
  obtain ⟨b, h1, h2⟩ := h
  exact ⟨b, h1, h2.symm⟩

theorem compileCatches_cons_inv {comp : E → Option (List Ins)} {reg : Nat} {ty : Option Ty} {x : Nat}
    {body : E} {c2 : Catch} {rest : List Catch} {cc : List Ins}
    (h : compileCatches comp reg ((ty, x, body) :: c2 :: rest) = some cc) :
    ∃ b r, comp body = some b ∧ compileCatches comp reg (c2 :: rest) = some r ∧
      cc = (match ty with | some t => [Ins.checkType reg t (b.length + 2)] | none => []) ++
        (.copy x reg :: b ++ [.jumpFwd r.length]) ++ r := by
  simp only [compileCatches, Option.bind_eq_bind, Option.bind_eq_some_iff, Option.pure_def] at h
  obtain ⟨b, h1, r, h2, h3⟩ := h
  refine ⟨b, r, h1, h2, ?_⟩
  cases ty with
  | none => simp at h3 ⊢; exact h3.symm
  | some t => simp at h3 ⊢; exact h3.symm


theorem sim_endIp {code : Code} {sig : Sig} {σ σ' : St} {f g : Frame} {rest : List Frame}
    {o : List Nat} {e1 e2 : Nat} (hn : ∀ v, sig ≠ .ok v) (hs : Sim code sig σ σ' f rest o e1 g) :
    Sim code sig σ σ' f rest o e2 g := by
  cases sig with
  | ok v => exact absurd rfl (hn v)
  | _ => exact hs

theorem sim_out_eq {code : Code} {sig : Sig} {σa σb σ' : St} {f g : Frame} {rest : List Frame}
    {o : List Nat} {e : Nat} (ho : σa.out = σb.out) (hs : Sim code sig σa σ' f rest o e g) :
    Sim code sig σb σ' f rest o e g := by
  cases sig <;> simp_all [Sim]

theorem compile_zero (d op : Nat) (e : E) : compile 0 d op e = none := by
  simp [compile]

/-- code: `copy x reg; <body>; jumpFwd rl` (a non-last catch block) or `copy x reg; <body>` (the last) -/
theorem sim_catch_block {code : Code} {P : Prog} {n : Nat}
    (ih : ∀ e σ sig σ' cf depth op c f rest o, Frag e → run guide P n (.ev e) σ = (sig, σ') →
      compile cf depth op e = some c → CodeAt code f.fn f.ip c →
      Sim code sig σ σ' f rest o (f.ip + c.length) f)
    {body : E} {σ σ' : St} {sig : Sig} {cf depth op : Nat} {b tail : List Ins} {f : Frame}
    {rest : List Frame} {o : List Nat} {x reg : Nat} {endIp : Nat}
    {σb : St} (hσ : σb.out = σ.out)
    (hb : Frag body) (hrun : run guide P n (.ev body) σb = (sig, σ'))
    (hc : compile cf depth op body = some b)
    (hcode : CodeAt code f.fn f.ip (.copy x reg :: b ++ tail))
    (htail : (tail = [] ∧ endIp = f.ip + 1 + b.length) ∨
             (∃ rl, tail = [.jumpFwd rl] ∧ endIp = f.ip + 1 + b.length + 1 + rl)) :
    Sim code sig σ σ' f rest o endIp f := by
  have hcopy := codeAt_head hcode
  have hrest : CodeAt code f.fn (f.ip + 1) (b ++ tail) := codeAt_tail hcode
  let f1 : Frame := { f with ip := f.ip + 1, regs := (x, regGet f.regs reg) :: f.regs }
  have h1 : steps code 1 (mk f rest o) = mk f1 rest o := by rw [steps_one, step_copy hcopy]
  have hsame : SameCtl f f1 := ⟨rfl, rfl, rfl, rfl⟩
  have hb' := ih body σb sig σ' cf depth op b f1 rest o hb hrun hc (codeAt_append_left hrest)
  have hb'' : Sim code sig σ σ' f1 rest o (f1.ip + b.length) f1 := sim_out_eq hσ hb'
  apply sim_prefix0 h1
  apply sim_ref hsame
  cases sig with
  | ok w =>
    obtain ⟨k, f2, d, hk, hout, hctl, hip⟩ := hb''
    rcases htail with ⟨ht, he⟩ | ⟨rl, ht, he⟩
    · exact ⟨k, f2, d, hk, hout, hctl, by rw [hip, he]⟩
    · subst ht
      have hj : fetchAt code f2.fn f2.ip = some (.jumpFwd rl) := by
        have := codeAt_head (codeAt_append_right hrest)
        rw [hctl.1, hip]
        exact this
      refine ⟨k + 1, { f2 with ip := f2.ip + 1 + rl }, d, ?_, hout, ⟨hctl.1, hctl.2.1, hctl.2.2.1, hctl.2.2.2⟩, ?_⟩
      · rw [steps_trans hk (by rw [steps_one, step_jump hj])]
      · simp only [hip, he]; rfl
  | err w => exact hb''
  | oof => trivial
  | vals _ => exact hb''
  | ret _ => exact hb''
  | brk => exact hb''
  | cont => exact hb''


def SimEv (code : Code) (P : Prog) (n : Nat) : Prop :=
  ∀ e σ sig σ' cf depth op c f rest o, Frag e → run guide P n (.ev e) σ = (sig, σ') →
    compile cf depth op e = some c → CodeAt code f.fn f.ip c →
    Sim code sig σ σ' f rest o (f.ip + c.length) f

def SimSeq (code : Code) (P : Prog) (n : Nat) : Prop :=
  ∀ es last σ sig σ' cf depth op c f rest o, (∀ e ∈ es, Frag e) →
    run guide P n (.seq es last) σ = (sig, σ') →
    concatOpt (es.map (compile cf depth op)) = some c → CodeAt code f.fn f.ip c →
    Sim code sig σ σ' f rest o (f.ip + c.length) f

def SimCatches (code : Code) (P : Prog) (n : Nat) : Prop :=
  ∀ cs v σ sig σ' cf depth op reg cc f rest o, (∀ c ∈ cs, Frag c.2.2) → LastUntyped cs →
    run guide P n (.catches cs v) σ = (sig, σ') →
    compileCatches (compile cf depth op) reg cs = some cc → CodeAt code f.fn f.ip cc →
    regGet f.regs reg = v →
    Sim code sig σ σ' f rest o (f.ip + cc.length) f

theorem sim_zero_ev (code : Code) (P : Prog) : SimEv code P 0 := by
  intro e σ sig σ' cf depth op c f rest o _ h _ _
  simp [run] at h; rw [← h.1]; trivial
theorem sim_zero_seq (code : Code) (P : Prog) : SimSeq code P 0 := by
  intro es last σ sig σ' cf depth op c f rest o _ h _ _
  simp [run] at h; rw [← h.1]; trivial
theorem sim_zero_catches (code : Code) (P : Prog) : SimCatches code P 0 := by
  intro cs v σ sig σ' cf depth op reg cc f rest o _ _ h _ _ _
  simp [run] at h; rw [← h.1]; trivial

/-- catch chain, one more unit of fuel -/
theorem sim_succ_catches (code : Code) (P : Prog) (n : Nat) (ihE : SimEv code P n)
    (ihC : SimCatches code P n) : SimCatches code P (n + 1) := by
  intro cs v σ sig σ' cf depth op reg cc f rest o hcs hl h hcc hcode hreg
  match cs, hl with
  | [(ty, x, body)], hl =>
    simp [LastUntyped] at hl
    subst hl
    obtain ⟨b, hb, rfl⟩ := compileCatches_last_inv hcc
    simp only [run, accepts, if_true] at h
    have hcode' : CodeAt code f.fn f.ip (Ins.copy x reg :: b ++ []) := by simpa using hcode
    exact sim_catch_block ihE (bindCatch_out σ none x v) (hcs (none, x, body) (by simp)) h hb hcode'
      (.inl ⟨rfl, by simp; omega⟩)
  | (ty, x, body) :: c2 :: rest2, hl =>
    obtain ⟨b, r, hb, hr, rfl⟩ := compileCatches_cons_inv hcc
    have hl' : LastUntyped (c2 :: rest2) := by simpa [LastUntyped] using hl
    simp only [run] at h
    cases ty with
    | none =>
      simp only [accepts, if_true] at h
      have hcode' : CodeAt code f.fn f.ip (Ins.copy x reg :: b ++ [Ins.jumpFwd r.length]) := by
        have := codeAt_append_left hcode
        simpa using this
      exact sim_catch_block ihE (bindCatch_out σ none x v) (hcs (none, x, body) (by simp)) h hb hcode'
        (.inr ⟨r.length, rfl, by simp; omega⟩)
    | some t =>
      have hchk : fetchAt code f.fn f.ip = some (.checkType reg t (b.length + 2)) := by
        have : CodeAt code f.fn f.ip (Ins.checkType reg t (b.length + 2) ::
            ((Ins.copy x reg :: b ++ [Ins.jumpFwd r.length]) ++ r)) := by simpa using hcode
        exact codeAt_head this
      by_cases hacc : accepts (some t) v = true
      · -- accepted: fall through to the block
        simp only [hacc, if_true] at h
        let f1 : Frame := { f with ip := f.ip + 1 }
        have h1 : steps code 1 (mk f rest o) = mk f1 rest o := by
          rw [steps_one, step_check hchk, hreg, if_pos hacc]
        have hcode1 : CodeAt code f1.fn f1.ip (Ins.copy x reg :: b ++ [Ins.jumpFwd r.length]) := by
          have h2 : CodeAt code f.fn f.ip ([Ins.checkType reg t (b.length + 2)] ++
              ((Ins.copy x reg :: b ++ [Ins.jumpFwd r.length]) ++ r)) := by simpa using hcode
          have := codeAt_append_left (codeAt_append_right h2)
          simpa using this
        apply sim_prefix0 h1
        apply sim_ref (g := f1) ⟨rfl, rfl, rfl, rfl⟩
        exact sim_catch_block ihE (bindCatch_out σ (some t) x v) (hcs (some t, x, body) (by simp)) h hb hcode1
          (.inr ⟨r.length, rfl, by simp [f1]; omega⟩)
      · -- rejected: jump to the next block
        have hacc' : accepts (some t) v = false := by simpa using hacc
        simp only [hacc', Bool.false_eq_true, if_false] at h
        let f1 : Frame := { f with ip := f.ip + 1 + (b.length + 2) }
        have h1 : steps code 1 (mk f rest o) = mk f1 rest o := by
          rw [steps_one, step_check hchk, hreg, if_neg hacc]
        have hcode1 : CodeAt code f1.fn f1.ip r := by
          have h2 : CodeAt code f.fn f.ip (([Ins.checkType reg t (b.length + 2)] ++
              (Ins.copy x reg :: b ++ [Ins.jumpFwd r.length])) ++ r) := by simpa using hcode
          have := codeAt_append_right h2
          simp at this
          have e : f.ip + (b.length + 1 + 1 + 1) = f1.ip := by simp [f1]; omega
          rw [e] at this
          exact this
        apply sim_prefix0 h1
        apply sim_ref (g := f1) ⟨rfl, rfl, rfl, rfl⟩
        have := ihC (c2 :: rest2) v σ sig σ' cf depth op reg r f1 rest o
          (fun c hc => hcs c (by simp [hc])) hl' h hr hcode1 hreg
        have e : f1.ip + r.length = f.ip + (([Ins.checkType reg t (b.length + 2)] ++
            (Ins.copy x reg :: b ++ [Ins.jumpFwd r.length])) ++ r).length := by simp [f1]; omega
        simpa [e] using this


theorem sim_succ_seq (code : Code) (P : Prog) (n : Nat) (ihE : SimEv code P n)
    (ihS : SimSeq code P n) : SimSeq code P (n + 1) := by
  intro es last σ sig σ' cf depth op c f rest o hes h hc hcode
  cases es with
  | nil =>
    simp [run] at h
    simp [concatOpt] at hc
    subst hc
    rw [← h.1, ← h.2]
    exact ⟨0, f, [], by simp [steps, tags], by simp, SameCtl.refl f, by simp⟩
  | cons e rest' =>
    simp only [List.map_cons] at hc
    obtain ⟨ca, cr, hca, hcr, rfl⟩ := concatOpt_cons_some hc
    simp only [run] at h
    cases he : run guide P n (.ev e) σ with
    | mk se σ1 =>
      have h1 := ihE e σ se σ1 cf depth op ca f rest o (hes e (by simp)) he hca (codeAt_append_left hcode)
      rw [he] at h
      cases se with
      | ok v =>
        simp only at h
        obtain ⟨k, f1, d, hk, hout, hctl, hip⟩ := h1
        have hcode1 : CodeAt code f1.fn f1.ip cr := by
          rw [hctl.1, hip]; exact codeAt_append_right hcode
        have h2 := ihS rest' v σ1 sig σ' cf depth op cr f1 (rest := rest) (o ++ tags d)
          (fun e he => hes e (by simp [he])) h hcr hcode1
        have e2 : f1.ip + cr.length = f.ip + (ca ++ cr).length := by simp [hip]; omega
        rw [e2] at h2
        exact sim_prefix hk hout (sim_ref hctl h2)
      | err v =>
        simp only at h
        obtain ⟨rfl, rfl⟩ := Prod.mk.inj h
        exact sim_endIp (by intro v h; cases h) h1
      | oof =>
        simp only at h
        obtain ⟨rfl, rfl⟩ := Prod.mk.inj h
        trivial
      | vals _ => exact absurd h1 (by simp [Sim])
      | ret _ => exact absurd h1 (by simp [Sim])
      | brk => exact absurd h1 (by simp [Sim])
      | cont => exact absurd h1 (by simp [Sim])


/-- phase 1 of a try expression (try block, then the catch chain if it raised): the machine ends
at the `finally` entry with the frame's control state restored, or raises past this try with the
control state restored -/
theorem sim_try_phase1 (code : Code) (P : Prog) (n : Nat) (ihE : SimEv code P n)
    (ihC : SimCatches code P n) {b : E} {cs : List Catch} {σ : St} {cf depth op : Nat}
    {bc cc tail : List Ins} {f : Frame} {rest : List Frame} {o : List Nat}
    (hb : Frag b) (hcs : ∀ c ∈ cs, Frag c.2.2) (hl : LastUntyped cs)
    (hbc : compile cf (depth + 1) (op + 1) b = some bc)
    (hcc : compileCatches (compile cf (depth + 1) op) (100 + depth) cs = some cc)
    (hcode : CodeAt code f.fn f.ip
      (Ins.tryStart (100 + depth) (bc.length + 2) :: (bc ++ (Ins.tryEnd :: Ins.jumpFwd (1 + cc.length) ::
        Ins.tryEnd :: (cc ++ tail)))))
    {s1 : Sig} {σ1 : St}
    (h : catchWith (run guide P n (.ev b) σ) (fun v σb => run guide P n (.catches cs v) σb) = (s1, σ1)) :
    Sim code s1 σ σ1 f rest o (f.ip + bc.length + 4 + cc.length) f := by
  have hstart := codeAt_head hcode
  have hrest := codeAt_tail hcode
  let entry : Nat × Nat × Nat := (100 + depth, f.ip + 1 + (bc.length + 2), f.loops.length)
  let f1 : Frame := { f with ip := f.ip + 1, catchStack := entry :: f.catchStack }
  have h1 : steps code 1 (mk f rest o) = mk f1 rest o := by rw [steps_one, step_tryStart hstart]
  have hcodeB : CodeAt code f1.fn f1.ip bc := codeAt_append_left hrest
  have hafter : CodeAt code f.fn (f.ip + 1 + bc.length)
      (Ins.tryEnd :: Ins.jumpFwd (1 + cc.length) :: Ins.tryEnd :: (cc ++ tail)) := codeAt_append_right hrest
  cases hrb : run guide P n (.ev b) σ with
  | mk sb σb =>
    have hB := ihE b σ sb σb cf (depth + 1) (op + 1) bc f1 rest o hb hrb hbc hcodeB
    rw [hrb] at h
    apply sim_prefix0 h1
    cases sb with
    | ok v =>
      simp only [catchWith] at h
      obtain ⟨rfl, rfl⟩ := Prod.mk.inj h
      obtain ⟨k, f2, d, hk, hout, hctl, hip⟩ := hB
      have hip' : f2.ip = f.ip + 1 + bc.length := hip
      have he1 : fetchAt code f2.fn f2.ip = some .tryEnd := by
        rw [hctl.1, hip']; exact codeAt_head hafter
      let f3 : Frame := { f2 with ip := f2.ip + 1, catchStack := f2.catchStack.drop 1 }
      have he2 : fetchAt code f3.fn f3.ip = some (.jumpFwd (1 + cc.length)) := by
        show fetchAt code f2.fn (f2.ip + 1) = _
        rw [hctl.1, hip']; exact codeAt_head (codeAt_tail hafter)
      let f4 : Frame := { f3 with ip := f3.ip + 1 + (1 + cc.length) }
      refine ⟨k + 1 + 1, f4, d, ?_, hout, ?_, ?_⟩
      · rw [steps_trans (steps_trans hk (by rw [steps_one, step_tryEnd he1])) (by rw [steps_one, step_jump he2])]
      · refine ⟨hctl.1, ?_, hctl.2.2.1, hctl.2.2.2⟩
        show f2.catchStack.drop 1 = f.catchStack
        rw [hctl.2.1]; rfl
      · show f2.ip + 1 + 1 + (1 + cc.length) = _
        rw [hip']; omega
    | err v =>
      simp only [catchWith] at h
      obtain ⟨k, f2, d, hk, hout, hctl⟩ := hB
      have hcs2 : f2.catchStack = (100 + depth, f.ip + 1 + (bc.length + 2), f.loops.length) :: f.catchStack :=
        hctl.2.1
      have hraise := raise_here v f2 rest (o ++ tags d) _ _ _ _ hcs2 (by rw [hctl.2.2.2])
      let f2' : Frame := { f2 with ip := f.ip + 1 + (bc.length + 2), regs := (100 + depth, v) :: f2.regs }
      have he1 : fetchAt code f2'.fn f2'.ip = some .tryEnd := by
        show fetchAt code f2.fn (f.ip + 1 + (bc.length + 2)) = _
        rw [hctl.1]
        have := codeAt_head (codeAt_tail (codeAt_tail hafter))
        rw [show f.ip + 1 + bc.length + 1 + 1 = f.ip + 1 + (bc.length + 2) by omega] at this
        exact this
      let f3 : Frame := { f2' with ip := f2'.ip + 1, catchStack := f2'.catchStack.drop 1 }
      have hk3 : steps code (k + 1) (mk f1 rest o) = mk f3 rest (o ++ tags d) := by
        rw [steps_trans hk (by rw [steps_one, hraise, step_tryEnd he1])]
      have hcodeC : CodeAt code f3.fn f3.ip cc := by
        show CodeAt code f2.fn (f.ip + 1 + (bc.length + 2) + 1) cc
        rw [hctl.1]
        have := codeAt_append_left (codeAt_tail (codeAt_tail (codeAt_tail hafter)))
        rw [show f.ip + 1 + bc.length + 1 + 1 + 1 = f.ip + 1 + (bc.length + 2) + 1 by omega] at this
        exact this
      have hC := ihC cs v σb s1 σ1 cf (depth + 1) op (100 + depth) cc f3 rest (o ++ tags d) hcs hl h hcc hcodeC
        (by simp [f3, f2', regGet])
      have hsame : SameCtl f f3 := by
        refine ⟨hctl.1, ?_, hctl.2.2.1, hctl.2.2.2⟩
        show f2.catchStack.drop 1 = f.catchStack
        rw [hcs2]; rfl
      have e : f3.ip + cc.length = f.ip + bc.length + 4 + cc.length := by
        show f.ip + 1 + (bc.length + 2) + 1 + cc.length = _
        omega
      rw [e] at hC
      exact sim_prefix hk3 hout (sim_ref hsame hC)
    | oof =>
      simp only [catchWith] at h
      obtain ⟨rfl, rfl⟩ := Prod.mk.inj h
      trivial
    | vals _ => exact absurd hB (by simp [Sim])
    | ret _ => exact absurd hB (by simp [Sim])
    | brk => exact absurd hB (by simp [Sim])
    | cont => exact absurd hB (by simp [Sim])


theorem try_code_shape (reg : Nat) (bc cc fc : List Ins) :
    Ins.tryStart reg (bc.length + 2) :: bc ++ [Ins.tryEnd, Ins.jumpFwd (1 + cc.length)] ++ [Ins.tryEnd] ++ cc ++ fc =
    Ins.tryStart reg (bc.length + 2) :: (bc ++ (Ins.tryEnd :: Ins.jumpFwd (1 + cc.length) :: Ins.tryEnd :: (cc ++ fc))) := by
  simp

theorem sim_succ_ev (code : Code) (P : Prog) (n : Nat) (ihE : SimEv code P n)
    (ihS : SimSeq code P n) (ihC : SimCatches code P n) : SimEv code P (n + 1) := by
  intro e σ sig σ' cf depth op c f rest o he h hc hcode
  cases cf with
  | zero => simp [compile] at hc
  | succ cf =>
  cases he with
  | emit t =>
    simp [compile] at hc; subst hc
    simp [run] at h
    rw [← h.1, ← h.2]
    refine ⟨1, { f with ip := f.ip + 1 }, [⟨t, none⟩], ?_, rfl, ⟨rfl, rfl, rfl, rfl⟩, by simp⟩
    rw [steps_one, step_emit (codeAt_head hcode)]; rfl
  | lit v =>
    simp [compile] at hc; subst hc
    simp [run] at h
    rw [← h.1, ← h.2]
    exact ⟨0, f, [], by simp [steps, tags], by simp, SameCtl.refl f, by simp⟩
  | throw v =>
    simp [compile] at hc; subst hc
    cases n with
    | zero => simp [run] at h; rw [← h.1]; trivial
    | succ n =>
      simp [run] at h
      rw [← h.1, ← h.2]
      refine ⟨1, f, [], ?_, by simp, SameCtl.refl f⟩
      rw [steps_one, step_throw (codeAt_head hcode)]; simp [tags]
  | seq es hes =>
    simp only [compile] at hc
    simp only [run] at h
    exact ihS es .null σ sig σ' cf depth op c f rest o hes h hc hcode
  | tryNoFin b cs hb hcs hl =>
    obtain ⟨bc, cc, fc, hbc, hcc, hfc, rfl⟩ := compile_try_inv hc
    simp at hfc; subst hfc
    rw [try_code_shape] at hcode
    simp only [run] at h
    have := sim_try_phase1 code P n ihE ihC (rest := rest) (o := o) hb hcs hl hbc hcc hcode h
    have e : f.ip + bc.length + 4 + cc.length = f.ip + (Ins.tryStart (100 + depth) (bc.length + 2) :: bc ++
        [Ins.tryEnd, Ins.jumpFwd (1 + cc.length)] ++ [Ins.tryEnd] ++ cc ++ []).length := by
      simp; omega
    rw [← e]; exact this
  | tryFin b cs fe hb hcs hl hfe =>
    obtain ⟨bc, cc, fc, hbc, hcc, hfc, rfl⟩ := compile_try_inv hc
    simp only at hfc
    have hcodeAll := hcode
    rw [try_code_shape] at hcode
    simp only [run] at h
    cases hr1 : catchWith (run guide P n (.ev b) σ) (fun v σ1 => run guide P n (.catches cs v) σ1) with
    | mk s1 σ1 =>
      have h1 := sim_try_phase1 code P n ihE ihC (rest := rest) (o := o) hb
        (fun c hc => (hcs c hc).frag) hl hbc hcc hcode hr1
      rw [hr1] at h
      -- the outcome so far is never an error: the try block's error is caught, catch blocks are Plain
      have hnoerr : ∀ v, s1 ≠ .err v := by
        intro v hv
        subst hv
        cases hrb : run guide P n (.ev b) σ with
        | mk sb σb =>
          rw [hrb] at hr1
          cases sb with
          | err w =>
            simp only [catchWith] at hr1
            have := catches_plain_not_err P cs hcs hl n w σb _ _ hr1
            rcases this with ⟨_, h⟩ | h <;> cases h
          | _ => simp [catchWith] at hr1
      cases s1 with
      | ok v1 =>
        simp only [thenFinally] at h
        obtain ⟨k, f1, d, hk, hout, hctl, hip⟩ := h1
        have hcodeF : CodeAt code f1.fn f1.ip fc := by
          rw [hctl.1, hip]
          have h2 : CodeAt code f.fn f.ip ((Ins.tryStart (100 + depth) (bc.length + 2) :: bc ++
              [Ins.tryEnd, Ins.jumpFwd (1 + cc.length)] ++ [Ins.tryEnd] ++ cc) ++ fc) := by
            simpa using hcodeAll
          have := codeAt_append_right h2
          simp at this
          have e : f.ip + (bc.length + (cc.length + 1 + 1 + 1) + 1) = f.ip + bc.length + 4 + cc.length := by omega
          rw [e] at this
          exact this
        cases hrf : run guide P n (.ev fe) σ1 with
        | mk sf σf =>
          have hF := ihE fe σ1 sf σf cf depth op fc f1 rest (o ++ tags d) hfe hrf hfc hcodeF
          rw [hrf] at h
          have hres : (sig, σ') = (sf, σf) := by
            rw [← h]; cases sf <;> rfl
          obtain ⟨rfl, rfl⟩ := Prod.mk.inj hres
          have e : f1.ip + fc.length = f.ip + (Ins.tryStart (100 + depth) (bc.length + 2) :: bc ++
              [Ins.tryEnd, Ins.jumpFwd (1 + cc.length)] ++ [Ins.tryEnd] ++ cc ++ fc).length := by
            simp [hip]; omega
          rw [e] at hF
          exact sim_prefix hk hout (sim_ref hctl hF)
      | err v => exact absurd rfl (hnoerr v)
      | oof =>
        simp only [thenFinally] at h
        obtain ⟨rfl, rfl⟩ := Prod.mk.inj h
        trivial
      | vals _ => exact absurd h1 (by simp [Sim])
      | ret _ => exact absurd h1 (by simp [Sim])
      | brk => exact absurd h1 (by simp [Sim])
      | cont => exact absurd h1 (by simp [Sim])

theorem sim_all (code : Code) (P : Prog) : ∀ n, SimEv code P n ∧ SimSeq code P n ∧ SimCatches code P n := by
  intro n
  induction n with
  | zero => exact ⟨sim_zero_ev code P, sim_zero_seq code P, sim_zero_catches code P⟩
  | succ n ih =>
    exact ⟨sim_succ_ev code P n ih.1 ih.2.1 ih.2.2, sim_succ_seq code P n ih.1 ih.2.1,
      sim_succ_catches code P n ih.1 ih.2.2⟩


theorem step_stable (code : Code) (s : VM) (h : s.result ≠ .running) : step code s = s := by
  unfold step
  split
  · simp_all
  · simp_all
  · rfl

theorem steps_stable (code : Code) (k : Nat) (s : VM) (h : s.result ≠ .running) : steps code k s = s := by
  induction k with
  | zero => rfl
  | succ k ih => simp [steps, step_stable code s h, ih]

theorem steps_ge {code : Code} {k : Nat} {s t : VM} (h : steps code k s = t) (ht : t.result ≠ .running)
    (fuel : Nat) (hf : fuel ≥ k) : steps code fuel s = t := by
  obtain ⟨j, rfl⟩ : ∃ j, fuel = k + j := ⟨fuel - k, by omega⟩
  rw [steps_add, h, steps_stable code j t ht]

/-- **Refinement on the fragment.** For a program whose main chunk is in `Frag` (no definitions):
whatever the guide-level evaluator does with any fuel `n` — complete normally or end with an
uncaught error `v` — the machine running the code laid out as `compile_try_expression` lays it out
ends the same way with exactly the same marker trace, for every sufficient number of steps. -/
theorem mech_refines_guide (P : Prog) (hm : Frag P.main) (cf : Nat) (c : List Ins)
    (hc : compile cf 0 0 P.main = some c) (n : Nat) (sig : Sig) (σ' : St)
    (h : run guide P n (.ev P.main) (initSt P) = (sig, σ')) :
    match sig with
    | .ok _ => ∃ k, ∀ fuel ≥ k, exec [c] fuel = { out := tags σ'.out, result := .done }
    | .err v => ∃ k, ∀ fuel ≥ k, exec [c] fuel = { out := tags σ'.out, result := .uncaught v }
    | .oof => True
    | _ => False := by
  let f0 : Frame := { fn := 0 }
  have hcode : CodeAt [c] f0.fn f0.ip c := ⟨[], [], by simp [fnCode, f0], rfl⟩
  have hs := (sim_all [c] P n).1 P.main (initSt P) sig σ' cf 0 0 c f0 [] [] hm h hc hcode
  have hinit : mk f0 [] [] = initVM := rfl
  cases sig with
  | ok v =>
    obtain ⟨k, f', d, hk, hout, hctl, hip⟩ := hs
    have hout' : σ'.out = d := by simpa [initSt] using hout
    have hend : fetchAt [c] f'.fn f'.ip = none := by
      rw [hctl.1, hip]; simp [fetchAt, fnCode, f0]
    have hk1 : steps [c] (k + 1) initVM = { frames := [], out := tags d, result := .done } := by
      have hstep : step [c] (mk f' [] ([] ++ tags d)) = { frames := [], out := tags d, result := .done } := by
        simp [step, mk, hend]
      rw [← hinit, steps_trans hk (by rw [steps_one, hstep])]
    refine ⟨k + 1, fun fuel hf => ?_⟩
    have := steps_ge hk1 (by simp) fuel hf
    simp [exec, this, hout']
  | err v =>
    obtain ⟨k, f', d, hk, hout, hctl⟩ := hs
    have hout' : σ'.out = d := by simpa [initSt] using hout
    have hcs : f'.catchStack = [] := hctl.2.1
    have hk1 : steps [c] k initVM = { frames := [], out := tags d, result := .uncaught v } := by
      rw [← hinit, hk]
      simp [raise, mk, unwind, hcs]
    refine ⟨k, fun fuel hf => ?_⟩
    have := steps_ge hk1 (by simp) fuel hf
    simp [exec, this, hout']
  | oof => trivial
  | vals _ => exact hs
  | ret _ => exact hs
  | brk => exact hs
  | cont => exact hs

end KotoVerif.Mech
