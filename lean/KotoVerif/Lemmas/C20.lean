/-
Helper lemmas for C20 (core Lean only): association-list maps (`insertKV`/`buildMap`), and the
list-level forms of the recursive predicates of `Model/Serde.lean`.
-/
import KotoVerif.Model.Serde

namespace KotoVerif.Serde
open KotoVerif

def keysOf (es : List (Val × Val)) : List Val := es.map (·.1)

/-! ### `insertKV` / `buildFrom` -/

theorem insertKV_of_not_mem (k v : Val) :
    ∀ m : List (Val × Val), k ∉ keysOf m → insertKV k v m = m ++ [(k, v)]
  | [], _ => rfl
  | (k', v') :: r, h => by
    simp only [keysOf, List.map_cons, List.mem_cons, not_or] at h
    have hne : ¬ k' = k := fun e => h.1 e.symm
    simp only [insertKV, hne, ↓reduceIte, List.cons_append, List.cons.injEq, true_and]
    exact insertKV_of_not_mem k v r h.2

theorem keysOf_insertKV (k v : Val) :
    ∀ m : List (Val × Val), keysOf (insertKV k v m) = if k ∈ keysOf m then keysOf m else keysOf m ++ [k]
  | [] => by simp [insertKV, keysOf]
  | (k', v') :: r => by
    by_cases h : k' = k
    · simp [insertKV, h, keysOf]
    · have ih := keysOf_insertKV k v r
      have hne : ¬ k = k' := fun e => h e.symm
      simp only [insertKV, h, ↓reduceIte, keysOf, List.map_cons, List.mem_cons, hne, false_or] at ih ⊢
      rw [ih]
      by_cases hm : k ∈ List.map (fun x => x.fst) r <;> simp [hm]

theorem nodup_insertKV (k v : Val) (m : List (Val × Val)) (h : (keysOf m).Nodup) :
    (keysOf (insertKV k v m)).Nodup := by
  rw [keysOf_insertKV]
  split
  · exact h
  · rename_i hk
    exact List.nodup_append.mpr ⟨h, by simp, by
      intro a ha b hb
      simp only [List.mem_singleton] at hb
      subst hb
      exact fun e => hk (e ▸ ha)⟩

theorem nodup_buildFrom : ∀ (es acc : List (Val × Val)), (keysOf acc).Nodup → (keysOf (buildFrom acc es)).Nodup
  | [], _, h => h
  | (k, v) :: r, acc, h => nodup_buildFrom r _ (nodup_insertKV k v acc h)

theorem nodup_buildMap (es : List (Val × Val)) : (keysOf (buildMap es)).Nodup :=
  nodup_buildFrom es [] (by simp [keysOf])

theorem buildFrom_of_nodup : ∀ (es acc : List (Val × Val)),
    (keysOf acc ++ keysOf es).Nodup → buildFrom acc es = acc ++ es
  | [], acc, _ => by simp [buildFrom]
  | (k, v) :: r, acc, h => by
    have hk : k ∉ keysOf acc := by
      intro hm
      have := List.nodup_append.mp h
      exact this.2.2 k hm k (by simp [keysOf]) rfl
    rw [buildFrom, insertKV_of_not_mem k v acc hk, buildFrom_of_nodup r (acc ++ [(k, v)])]
    · simp
    · simpa [keysOf, List.append_assoc] using h

theorem buildMap_of_nodup (es : List (Val × Val)) (h : (keysOf es).Nodup) : buildMap es = es := by
  have := buildFrom_of_nodup es [] (by simpa [keysOf] using h)
  simpa [buildMap] using this

theorem buildMap_idem (es : List (Val × Val)) : buildMap (buildMap es) = buildMap es :=
  buildMap_of_nodup _ (nodup_buildMap es)

/-- every entry of the built map has a key and a value satisfying what all inserted ones satisfy -/
theorem insertKV_pres (P Q : Val → Prop) (k v : Val) (hk : P k) (hv : Q v) :
    ∀ m : List (Val × Val), (∀ e ∈ m, P e.1 ∧ Q e.2) → ∀ e ∈ insertKV k v m, P e.1 ∧ Q e.2
  | [], _, e, he => by
    simp only [insertKV, List.mem_singleton] at he
    subst he
    exact ⟨hk, hv⟩
  | (k', v') :: r, hm, e, he => by
    have h0 := hm (k', v') (by simp)
    have hr : ∀ e ∈ r, P e.1 ∧ Q e.2 := fun e he => hm e (by simp [he])
    by_cases h : k' = k
    · simp only [insertKV, h, ↓reduceIte, List.mem_cons] at he
      rcases he with he | he
      · subst he
        exact ⟨hk, hv⟩
      · exact hr e he
    · simp only [insertKV, h, ↓reduceIte, List.mem_cons] at he
      rcases he with he | he
      · subst he
        exact h0
      · exact insertKV_pres P Q k v hk hv r hr e he

theorem buildFrom_pres (P Q : Val → Prop) : ∀ (es acc : List (Val × Val)),
    (∀ e ∈ acc, P e.1 ∧ Q e.2) → (∀ e ∈ es, P e.1 ∧ Q e.2) → ∀ e ∈ buildFrom acc es, P e.1 ∧ Q e.2
  | [], _, ha, _ => ha
  | (k, v) :: r, acc, ha, he => by
    have h0 := he (k, v) (by simp)
    exact buildFrom_pres P Q r _ (insertKV_pres P Q k v h0.1 h0.2 acc ha) (fun e h => he e (by simp [h]))

theorem buildMap_pres (P Q : Val → Prop) (es : List (Val × Val)) (h : ∀ e ∈ es, P e.1 ∧ Q e.2) :
    ∀ e ∈ buildMap es, P e.1 ∧ Q e.2 :=
  buildFrom_pres P Q es [] (by simp) h

/-! ### list-level forms of the entry predicates -/

theorem serializableE_iff : ∀ es : List (Val × Val), serializableE es = true ↔ ∀ e ∈ es, serializable e.2 = true
  | [] => by simp [serializableE]
  | (k, v) :: r => by simp [serializableE, serializableE_iff r]

theorem noNullE_iff : ∀ es : List (Val × Val), noNullE es = true ↔ ∀ e ∈ es, noNull e.2 = true
  | [] => by simp [noNullE]
  | (k, v) :: r => by simp [noNullE, noNullE_iff r]

theorem allFiniteE_iff : ∀ es : List (Val × Val), allFiniteE es = true ↔ ∀ e ∈ es, allFinite e.2 = true
  | [] => by simp [allFiniteE]
  | (k, v) :: r => by simp [allFiniteE, allFiniteE_iff r]

theorem strKeysE_iff : ∀ es : List (Val × Val),
    strKeysE es = true ↔ ∀ e ∈ es, (∃ s, e.1 = .str s) ∧ strKeys e.2 = true
  | [] => by simp [strKeysE]
  | (k, v) :: r => by
    cases k <;> simp [strKeysE, strKeysE_iff r]

theorem normE_mem (X : Ext) : ∀ (es : List (Val × Val)) (e : Val × Val), e ∈ normE X es →
    ∃ e0 ∈ es, e = (.str (keyStr X e0.1), norm X e0.2)
  | [], e, h => by simp [normE] at h
  | (k, v) :: r, e, h => by
    simp only [normE, List.mem_cons] at h
    rcases h with h | h
    · exact ⟨(k, v), by simp, h⟩
    · obtain ⟨e0, h0, h1⟩ := normE_mem X r e h
      exact ⟨e0, by simp [h0], h1⟩

/-- `normE` is the identity on entries with string keys and normal values -/
theorem normE_fix (X : Ext) : ∀ es : List (Val × Val),
    (∀ e ∈ es, (∃ s, e.1 = .str s) ∧ norm X e.2 = e.2) → normE X es = es
  | [], _ => rfl
  | (k, v) :: r, h => by
    obtain ⟨⟨s, hs⟩, hv⟩ := h (k, v) (by simp)
    simp only at hs hv
    subst hs
    simp only [normE, keyStr, hv, List.cons.injEq, true_and]
    exact normE_fix X r (fun e he => h e (by simp [he]))

/-! ### Rust-type side -/

theorem insertN_of_not_mem (k : Name) (v : RVal) :
    ∀ m : List (Name × RVal), k ∉ names m → insertN k v m = m ++ [(k, v)]
  | [], _ => rfl
  | (k', v') :: r, h => by
    simp only [names, List.map_cons, List.mem_cons, not_or] at h
    have hne : ¬ k' = k := fun e => h.1 e.symm
    simp only [insertN, hne, ↓reduceIte, List.cons_append, List.cons.injEq, true_and]
    exact insertN_of_not_mem k v r h.2

theorem buildFromN_of_nodup : ∀ (es acc : List (Name × RVal)),
    (names acc ++ names es).Nodup → buildFromN acc es = acc ++ es
  | [], acc, _ => by simp [buildFromN]
  | (k, v) :: r, acc, h => by
    have hk : k ∉ names acc := by
      intro hm
      have := List.nodup_append.mp h
      exact this.2.2 k hm k (by simp [names]) rfl
    rw [buildFromN, insertN_of_not_mem k v acc hk, buildFromN_of_nodup r (acc ++ [(k, v)])]
    · simp
    · simpa [names, List.append_assoc] using h

theorem buildN_of_nodup (es : List (Name × RVal)) (h : (names es).Nodup) : buildFromN [] es = es := by
  have := buildFromN_of_nodup es [] (by simpa [names] using h)
  simpa using this

/-- UTF-8: decoding the encoding of a scalar value gives it back -/
theorem decodeOne_utf8 (cp : Nat) (h : scalar cp = true) : decodeOne (utf8 cp) = some cp := by
  have hlt : cp < 0x110000 := by
    simp only [scalar, Bool.or_eq_true, Bool.and_eq_true, decide_eq_true_eq] at h
    omega
  by_cases h1 : cp < 0x80
  · simp [utf8, decodeOne, h1]
  by_cases h2 : cp < 0x800
  · have e : (0xC0 + cp / 64 - 0xC0) * 64 + (0x80 + cp % 64 - 0x80) = cp := by omega
    have c : (decide (0xC0 ≤ 0xC0 + cp / 64) && decide (0xC0 + cp / 64 < 0xE0) && isCont (0x80 + cp % 64)) = true := by
      simp only [isCont, Bool.and_eq_true, decide_eq_true_eq]; omega
    simp only [utf8, h1, h2, ↓reduceIte, decodeOne, c, e]
  by_cases h3 : cp < 0x10000
  · have e : (0xE0 + cp / 4096 - 0xE0) * 4096 + (0x80 + cp / 64 % 64 - 0x80) * 64 + (0x80 + cp % 64 - 0x80) = cp := by omega
    have c : (decide (0xE0 ≤ 0xE0 + cp / 4096) && decide (0xE0 + cp / 4096 < 0xF0) && isCont (0x80 + cp / 64 % 64)
        && isCont (0x80 + cp % 64)) = true := by
      simp only [isCont, Bool.and_eq_true, decide_eq_true_eq]; omega
    simp only [utf8, h1, h2, h3, ↓reduceIte, decodeOne, c, e]
  · have e : (0xF0 + cp / 262144 - 0xF0) * 262144 + (0x80 + cp / 4096 % 64 - 0x80) * 4096
        + (0x80 + cp / 64 % 64 - 0x80) * 64 + (0x80 + cp % 64 - 0x80) = cp := by omega
    have c : (decide (0xF0 ≤ 0xF0 + cp / 262144) && decide (0xF0 + cp / 262144 < 0xF8) && isCont (0x80 + cp / 4096 % 64)
        && isCont (0x80 + cp / 64 % 64) && isCont (0x80 + cp % 64)) = true := by
      simp only [isCont, Bool.and_eq_true, decide_eq_true_eq]; omega
    simp only [utf8, h1, h2, h3, ↓reduceIte, decodeOne, c, e]

theorem toKotoF_keys (X : Ext) : ∀ (es : List (Name × RVal)) (kvs : List (Val × Val)),
    toKotoF X es = some kvs → keysOf kvs = (names es).map Val.str
  | [], kvs, h => by simp [toKotoF] at h; subst h; rfl
  | (n, x) :: es, kvs, h => by
    simp only [toKotoF] at h
    cases h1 : toKoto X x <;> cases h2 : toKotoF X es <;> simp [h1, h2] at h
    subst h
    have ih := toKotoF_keys X es _ h2
    simp only [keysOf, names, List.map_map] at ih
    simp [keysOf, names, ih]

theorem nodup_map_str (ns : List Name) (h : ns.Nodup) : (ns.map Val.str).Nodup := by
  induction ns with
  | nil => simp
  | cons a r ih =>
    simp only [List.nodup_cons, List.map_cons, List.mem_map, not_exists, not_and] at h ⊢
    exact ⟨fun x hx e => by cases e; exact h.1 hx, ih h.2⟩

/-- with distinct names the `ValueMap` built by `serialize_map`/`serialize_struct` is the plain
entry list -/
theorem buildMap_toKotoF (X : Ext) (es : List (Name × RVal)) (kvs : List (Val × Val))
    (h : toKotoF X es = some kvs) (hn : (names es).Nodup) : buildMap kvs = kvs :=
  buildMap_of_nodup kvs (by rw [toKotoF_keys X es kvs h]; exact nodup_map_str _ hn)

theorem allStrKeys_toKotoF (X : Ext) : ∀ (es : List (Name × RVal)) (kvs : List (Val × Val)),
    toKotoF X es = some kvs → allStrKeys kvs = true
  | [], kvs, h => by simp [toKotoF] at h; subst h; rfl
  | (n, x) :: es, kvs, h => by
    simp only [toKotoF] at h
    cases h1 : toKoto X x <;> cases h2 : toKotoF X es <;> simp [h1, h2] at h
    subst h
    simp [allStrKeys, allStrKeys_toKotoF X es _ h2]

theorem countKey_toKotoF (X : Ext) (n : Name) : ∀ (es : List (Name × RVal)) (kvs : List (Val × Val)),
    toKotoF X es = some kvs → countKey n kvs = (names es).count n
  | [], kvs, h => by simp [toKotoF] at h; subst h; rfl
  | (m, x) :: es, kvs, h => by
    simp only [toKotoF] at h
    cases h1 : toKoto X x <;> cases h2 : toKotoF X es <;> simp [h1, h2] at h
    subst h
    simp only [countKey, names, List.map_cons, List.count_cons, countKey_toKotoF X n es _ h2]
    by_cases hm : m = n <;> simp [hm, Nat.add_comm]

theorem fieldsOnce_of_nodup {α : Type} (X : Ext) (es : List (Name × RVal)) (kvs : List (Val × Val))
    (h : toKotoF X es = some kvs) (hn : (names es).Nodup) :
    ∀ fs : List (Name × α), fieldsOnce fs kvs = true
  | [] => rfl
  | (n, _) :: fs => by
    simp only [fieldsOnce, Bool.and_eq_true, decide_eq_true_eq]
    refine ⟨?_, fieldsOnce_of_nodup X es kvs h hn fs⟩
    rw [countKey_toKotoF X n es kvs h]
    exact List.nodup_iff_count.mp hn n

theorem lookup_toKotoF (X : Ext) : ∀ (es : List (Name × RVal)) (kvs : List (Val × Val)),
    toKotoF X es = some kvs → (names es).Nodup →
    ∀ e ∈ es, ∃ v, toKoto X e.2 = some v ∧ lookupStr e.1 kvs = some v
  | [], _, _, _, e, he => by simp at he
  | (n, x) :: es, kvs, h, hn, e, he => by
    simp only [toKotoF] at h
    cases h1 : toKoto X x <;> cases h2 : toKotoF X es <;> simp [h1, h2] at h
    subst h
    simp only [names, List.map_cons, List.nodup_cons] at hn
    simp only [List.mem_cons] at he
    rcases he with he | he
    · subst he
      exact ⟨_, h1, by simp [lookupStr]⟩
    · obtain ⟨v, hv1, hv2⟩ := lookup_toKotoF X es _ h2 hn.2 e he
      refine ⟨v, hv1, ?_⟩
      have hne : ¬ n = e.1 := fun heq => hn.1 (heq ▸ List.mem_map_of_mem (f := (·.1)) he)
      simp [lookupStr, hne, hv2]

theorem allM_rt (X : Ext) (f : Val → Option RVal) : ∀ (xs : List RVal) (vs : List Val),
    (∀ x ∈ xs, ∀ v, toKoto X x = some v → f v = some x) → toKotoL X xs = some vs → allM f vs = some xs
  | [], vs, _, h => by simp [toKotoL] at h; subst h; rfl
  | x :: xs, vs, hx, h => by
    simp only [toKotoL] at h
    cases h1 : toKoto X x <;> cases h2 : toKotoL X xs <;> simp [h1, h2] at h
    subst h
    simp [allM, hx x (by simp) _ h1, allM_rt X f xs _ (fun y hy => hx y (by simp [hy])) h2]

theorem entriesM_rt (X : Ext) (f : Val → Option RVal) : ∀ (es : List (Name × RVal)) (kvs : List (Val × Val)),
    (∀ e ∈ es, ∀ v, toKoto X e.2 = some v → f v = some e.2) → toKotoF X es = some kvs →
    entriesM f kvs = some es
  | [], kvs, _, h => by simp [toKotoF] at h; subst h; rfl
  | (n, x) :: es, kvs, hx, h => by
    simp only [toKotoF] at h
    cases h1 : toKoto X x <;> cases h2 : toKotoF X es <;> simp [h1, h2] at h
    subst h
    simp [entriesM, strKey?, hx (n, x) (by simp) _ h1,
      entriesM_rt X f es _ (fun e he => hx e (by simp [he])) h2]

/-- a value of a non-nullable type never serializes to null -/
theorem toKoto_ne_null (X : Ext) (t : Ty) (x : RVal) (hn : nullable t = false)
    (ht : hasTy t x = true) (hk : toKoto X x = some .null) : False := by
  cases t with
  | unit => simp [nullable] at hn
  | option _ => simp [nullable] at hn
  | bool => cases x <;> simp [hasTy] at ht; simp [toKoto] at hk
  | int k =>
    cases x <;> simp [hasTy] at ht
    simp only [toKoto, ofI] at hk
    split at hk <;> simp at hk
  | f32 => cases x <;> simp [hasTy] at ht; simp [toKoto] at hk
  | f64 => cases x <;> simp [hasTy] at ht; simp [toKoto] at hk
  | char => cases x <;> simp [hasTy] at ht; simp [toKoto] at hk
  | string => cases x <;> simp [hasTy] at ht; simp [toKoto] at hk
  | seq _ => cases x <;> simp [hasTy] at ht; simp [toKoto] at hk
  | tuple _ => cases x <;> simp [hasTy] at ht; simp [toKoto] at hk
  | map _ => cases x <;> simp [hasTy] at ht; simp [toKoto] at hk
  | struct _ => cases x <;> simp [hasTy] at ht; simp [toKoto] at hk
  | «enum» _ =>
    cases x <;> simp [hasTy] at ht
    rename_i n k p
    cases k <;> simp [toKoto] at hk


theorem fromInt_i (X : Ext) (k : IntK) (a : Int64) : fromInt X k (.i a) =
    if k.lo ≤ a.toInt ∧ a.toInt ≤ k.hi then some (.int a.toInt) else none := rfl

theorem rt_int (X : Ext) (k : IntK) (n : Int) (v : Val) (h1 : k.lo ≤ n) (h2 : n ≤ k.hi)
    (hk : toKoto X (.int n) = some v) : fromKoto X (.int k) v = some (.int n) := by
  simp only [toKoto, ofI] at hk
  split at hk <;> simp at hk
  rename_i hin
  subst hk
  have hin' : i64Min ≤ n ∧ n ≤ i64Max := by simpa [inI64] using hin
  obtain ⟨ha, hb⟩ := hin'
  simp only [i64Min, i64Max] at ha hb
  have hr : (Int64.ofInt n).toInt = n := Int64.toInt_ofInt_of_le (by omega) (by omega)
  simp only [fromKoto]
  rw [fromInt_i, hr]
  simp [h1, h2]

theorem hasTyFields_names : ∀ (fs : List (Name × Ty)) (xs : List (Name × RVal)),
    hasTyFields fs xs = true → names fs = names xs
  | [], xs, h => by cases xs <;> simp [hasTyFields] at h; rfl
  | (n, t) :: fs, xs, h => by
    cases xs with
    | nil => simp [hasTyFields] at h
    | cons e xs =>
      obtain ⟨m, x⟩ := e
      simp only [hasTyFields, Bool.and_eq_true, decide_eq_true_eq] at h
      have ih := hasTyFields_names fs xs h.2
      simp only [names] at ih
      simp [names, h.1.1, ih]

theorem rtVariantUnit (X : Ext) : ∀ (vs : List (Name × VKind × Ty)) (n : Name) (p : RVal),
    wfTyV vs = true → hasTyVariant vs n .unit p = true →
    fromVariant X vs n .null = some (.variant n .unit .unit) ∧ p = .unit
  | [], n, p, _, ht => by simp [hasTyVariant] at ht
  | (m, k', t) :: vs, n, p, hw, ht => by
    simp only [wfTyV, Bool.and_eq_true] at hw
    simp only [hasTyVariant] at ht
    by_cases hm : m = n
    · subst hm
      simp only [↓reduceIte, Bool.and_eq_true, decide_eq_true_eq] at ht
      obtain ⟨rfl, htp⟩ := ht
      have hk := hw.1.1
      cases t <;> simp [kindOk] at hk
      cases p <;> simp [hasTy] at htp
      simp [fromVariant]
    · simp only [hm, ↓reduceIte] at ht
      simpa [fromVariant, hm] using rtVariantUnit X vs n p hw.2 ht


theorem depthE_le_iff (d : Nat) : ∀ es : List (Val × Val), depthE es ≤ d ↔ ∀ e ∈ es, depth e.2 ≤ d
  | [] => by simp [depthE]
  | (k, v) :: r => by simp [depthE, Nat.max_le, depthE_le_iff d r]

theorem allSome_none_of_mem {α : Type} : ∀ l : List (Option α), none ∈ l → allSome l = none
  | [], h => by simp at h
  | none :: _, _ => rfl
  | some a :: r, h => by
    simp only [List.mem_cons, reduceCtorEq, false_or] at h
    simp [allSome, allSome_none_of_mem r h]

/-! ### TOML entry order -/

theorem isMap_tomlOrd (v : Val) : isMap (tomlOrd v) = isMap v := by
  cases v with
  | tuple xs =>
    by_cases h : (!xs.isEmpty && xs.all isMap) = true
    · simp only [tomlOrd, h, ↓reduceIte, isMap]
    · simp [tomlOrd, h]
  | list xs =>
    by_cases h : (!xs.isEmpty && xs.all isMap) = true
    · simp only [tomlOrd, h, ↓reduceIte, isMap]
    · simp [tomlOrd, h]
  | map es => simp only [tomlOrd, isMap]
  | null => rfl
  | bool _ => rfl
  | num _ => rfl
  | str _ => rfl
  | range _ _ => rfl

theorem tomlOrdL_isEmpty : ∀ xs : List Val, (tomlOrdL xs).isEmpty = xs.isEmpty
  | [] => rfl
  | _ :: _ => rfl

theorem tomlOrdL_all_isMap : ∀ xs : List Val, (tomlOrdL xs).all isMap = xs.all isMap
  | [] => rfl
  | x :: xs => by simp [tomlOrdL, isMap_tomlOrd, tomlOrdL_all_isMap xs]

theorem isTableLike_tomlOrd (v : Val) : isTableLike (tomlOrd v) = isTableLike v := by
  cases v with
  | tuple xs =>
    by_cases h : (!xs.isEmpty && xs.all isMap) = true
    · simp only [tomlOrd, h, ↓reduceIte, isTableLike, tomlOrdL_isEmpty, tomlOrdL_all_isMap]
    · simp [tomlOrd, h]
  | list xs =>
    by_cases h : (!xs.isEmpty && xs.all isMap) = true
    · simp only [tomlOrd, h, ↓reduceIte, isTableLike, tomlOrdL_isEmpty, tomlOrdL_all_isMap]
    · simp [tomlOrd, h]
  | map es => simp only [tomlOrd, isTableLike]
  | null => rfl
  | bool _ => rfl
  | num _ => rfl
  | str _ => rfl
  | range _ _ => rfl

theorem tomlPlain_append : ∀ a b : List (Val × Val), tomlPlain (a ++ b) = tomlPlain a ++ tomlPlain b
  | [], b => rfl
  | (k, v) :: a, b => by
    simp only [List.cons_append, tomlPlain]
    split <;> simp [tomlPlain_append a b]

theorem tomlTables_append : ∀ a b : List (Val × Val), tomlTables (a ++ b) = tomlTables a ++ tomlTables b
  | [], b => rfl
  | (k, v) :: a, b => by
    simp only [List.cons_append, tomlTables]
    split <;> simp [tomlTables_append a b]

theorem tomlPlain_plain : ∀ es : List (Val × Val), tomlPlain (tomlPlain es) = tomlPlain es
  | [] => rfl
  | (k, v) :: es => by
    simp only [tomlPlain]
    split
    · exact tomlPlain_plain es
    · rename_i h
      simp [tomlPlain, h, tomlPlain_plain es]

theorem tomlTables_plain : ∀ es : List (Val × Val), tomlTables (tomlPlain es) = []
  | [] => rfl
  | (k, v) :: es => by
    simp only [tomlPlain]
    split
    · exact tomlTables_plain es
    · rename_i h
      simp [tomlTables, h, tomlTables_plain es]

theorem tomlPlain_tables : ∀ es : List (Val × Val), tomlPlain (tomlTables es) = []
  | [] => rfl
  | (k, v) :: es => by
    simp only [tomlTables]
    split
    · rename_i h
      simp [tomlPlain, isTableLike_tomlOrd, h, tomlPlain_tables es]
    · exact tomlPlain_tables es


end KotoVerif.Serde
