/-
C14 — `keyEq` is a partial equivalence whenever number equality is transitive (true for IEEE doubles
as long as no integer lies beyond ±2^53; true outright for the toy instance `F0`).
-/
import KotoVerif.Model.Equal
import KotoVerif.Lemmas.C14Equal
import KotoVerif.Lemmas.C14Map

namespace KotoVerif
namespace Equal
open OMap

mutual
theorem keyEq_symm {F : FloatOps} (hF : FloatLaws F) : ∀ (a b : Val), keyEq F a b = keyEq F b a
  | .null, b => by cases b <;> simp [keyEq]
  | .bool x, b => by cases b <;> simp [keyEq, Bool.beq_comm]
  | .num x, b => by cases b <;> simp [keyEq, num_eq_symm hF x]
  | .str x, b => by cases b <;> simp [keyEq, Bool.beq_comm]
  | .range x y, b => by
    cases b <;> simp [keyEq]
    rename_i c d
    rw [Bool.beq_comm (a := x), Bool.beq_comm (a := y)]
  | .tuple xs, b => by
    cases b <;> simp [keyEq]
    rename_i ys
    exact keyEqList_symm hF xs ys
  | .list _, b => by cases b <;> simp [keyEq]
  | .map _, b => by cases b <;> simp [keyEq]
theorem keyEqList_symm {F : FloatOps} (hF : FloatLaws F) : ∀ (xs ys : List Val), keyEqList F xs ys = keyEqList F ys xs
  | [], ys => by cases ys <;> simp [keyEqList]
  | x :: xs, ys => by
    cases ys with
    | nil => simp [keyEqList]
    | cons y ys =>
      simp only [keyEqList]
      rw [keyEq_symm hF x y, keyEqList_symm hF xs ys]
end

mutual
theorem keyEq_trans {F : FloatOps}
    (hn : ∀ a b c : Num, Num.eq F a b = true → Num.eq F b c = true → Num.eq F a c = true) :
    ∀ (a b c : Val), keyEq F a b = true → keyEq F b c = true → keyEq F a c = true
  | .null, b, c, h1, h2 => by cases b <;> cases c <;> simp_all [keyEq]
  | .bool x, b, c, h1, h2 => by cases b <;> cases c <;> simp_all [keyEq]
  | .num x, b, c, h1, h2 => by
    cases b <;> cases c <;> simp_all [keyEq]
    exact hn _ _ _ h1 h2
  | .str x, b, c, h1, h2 => by cases b <;> cases c <;> simp_all [keyEq]
  | .range x y, b, c, h1, h2 => by cases b <;> cases c <;> simp_all [keyEq]
  | .tuple xs, b, c, h1, h2 => by
    cases b <;> cases c <;> simp_all [keyEq]
    rename_i ys zs
    exact keyEqList_trans hn xs ys zs h1 h2
  | .list _, b, c, h1, h2 => by cases b <;> simp [keyEq] at h1
  | .map _, b, c, h1, h2 => by cases b <;> simp [keyEq] at h1
theorem keyEqList_trans {F : FloatOps}
    (hn : ∀ a b c : Num, Num.eq F a b = true → Num.eq F b c = true → Num.eq F a c = true) :
    ∀ (xs ys zs : List Val), keyEqList F xs ys = true → keyEqList F ys zs = true → keyEqList F xs zs = true
  | [], ys, zs, h1, h2 => by cases ys <;> cases zs <;> simp_all [keyEqList]
  | x :: xs, ys, zs, h1, h2 => by
    cases ys with
    | nil => simp [keyEqList] at h1
    | cons y ys =>
      cases zs with
      | nil => simp [keyEqList] at h2
      | cons z zs =>
        simp only [keyEqList, Bool.and_eq_true] at h1 h2 ⊢
        exact ⟨keyEq_trans hn x y z h1.1 h2.1, keyEqList_trans hn xs ys zs h1.2 h2.2⟩
end

theorem keyEq_per {F : FloatOps} (hF : FloatLaws F)
    (hn : ∀ a b c : Num, Num.eq F a b = true → Num.eq F b c = true → Num.eq F a c = true) :
    KeyPER (keyEq F) := ⟨keyEq_symm hF, keyEq_trans hn⟩

theorem int64_shift_inj (a b : Int64)
    (h : a.toUInt64 + 9223372036854775808 = b.toUInt64 + 9223372036854775808) : a = b := by
  have h' : a.toUInt64 = b.toUInt64 := by
    have := congrArg (· - 9223372036854775808) h
    simpa using this
  cases a; cases b; simp_all

theorem F0_num_trans : ∀ a b c : Num, Num.eq F0 a b = true → Num.eq F0 b c = true → Num.eq F0 a c = true := by
  intro a b c h1 h2
  cases a <;> cases b <;> cases c <;>
    simp only [Num.eq, Num.toF, F0, beq_iff_eq] at h1 h2 ⊢
  all_goals first
    | (subst h1; exact h2)
    | (subst h2; exact h1)
    | (rw [h1]; exact h2)
    | (exact int64_shift_inj _ _ (h1.trans h2))

theorem F0_keyPER : KeyPER (keyEq F0) := keyEq_per F0_laws F0_num_trans

end Equal
end KotoVerif
