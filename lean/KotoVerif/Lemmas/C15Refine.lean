/-
Helper lemmas for C15: the code-level (`KStr`, offsets + `with_bounds(..).unwrap()`) operations compute
the byte-level definitions on well-formed strings, in every storage form. Core Lean only.
-/
import KotoVerif.Lemmas.C15Closed

namespace KotoVerif.Str
open KotoVerif.Utf8

/-- on a request inside the string and on character boundaries, `with_bounds` succeeds in every storage
form and returns exactly `bytes[a, b)` -/
theorem KStr.withBounds_ok {s : KStr} (hw : s.WF) {a b : Nat} (hab : a ≤ b) (hb : b ≤ s.len)
    (ha' : isBoundary s.bytes a = true) (hb' : isBoundary s.bytes b = true) :
    (s.withBounds a b).map KStr.bytes = some ((s.bytes.drop a).take (b - a)) := by
  by_cases hf : s.form = .full
  · exact KStr.withBounds_full hw hf a b
  · rw [KStr.withBounds_eq_strGet hw hf hb]
    simp only [strGet]
    rw [if_pos ⟨hab, ha', hb'⟩]

theorem Res.unwrap_of_map {o : Option KStr} {x : Bytes} (h : o.map KStr.bytes = some x) :
    Res.unwrap o = .str x := by
  cases o with
  | none => cases h
  | some t => simp only [Option.map_some, Option.some.injEq] at h; simp [Res.unwrap, h]

theorem Res.ofOpt_of_map {o : Option KStr} {x : Bytes} (h : o.map KStr.bytes = some x) :
    Res.ofOpt o = .str x := by
  cases o with
  | none => cases h
  | some t => simp only [Option.map_some, Option.some.injEq] at h; simp [Res.ofOpt, h]

/-- `trim_start()` at the code level is `trimStartB` -/
theorem trimStartOp_refines (U : UFacts) {s : KStr} (hw : s.WF) :
    trimStartOp U s none = .str (trimStartB U s.bytes) := by
  obtain ⟨ws, _, hs, _, hbd⟩ := trimStartB_spec U s.bytes
  have hlen := KStr.bytes_length hw
  have hl : s.len = (flat ws).length + (trimStartB U s.bytes).length := by
    rw [← hlen]; conv => lhs; rw [hs]
    simp
  simp only [trimStartOp]
  have ha : s.len - (trimStartB U s.bytes).length = (flat ws).length := by omega
  rw [ha]
  apply Res.unwrap_of_map
  rw [KStr.withBounds_ok hw (by omega) (Nat.le_refl _) hbd (hlen ▸ isBoundary_length _)]
  congr 1
  have : s.bytes.drop (flat ws).length = trimStartB U s.bytes := by
    conv => lhs; rw [hs]
    exact List.drop_left
  rw [this, List.take_of_length_le (by omega)]

/-- `trim_end()` at the code level is `trimEndB` -/
theorem trimEndOp_refines (U : UFacts) {s : KStr} (hw : s.WF) :
    trimEndOp U s none = .str (trimEndB U s.bytes) := by
  obtain ⟨ws, _, hs, hbd⟩ := trimEndB_spec U s.bytes
  have hlen := KStr.bytes_length hw
  have hl : s.len = (trimEndB U s.bytes).length + (flat ws).length := by
    rw [← hlen]
    have := congrArg List.length hs
    simpa using this
  simp only [trimEndOp]
  apply Res.unwrap_of_map
  rw [KStr.withBounds_ok hw (Nat.zero_le _) (by omega) (isBoundary_zero _) hbd]
  congr 1
  have h1 := congrArg (List.take (trimEndB U s.bytes).length) hs
  rw [List.take_left] at h1
  simpa using h1

/-- `strip_prefix` at the code level: the rest after the prefix, or null -/
theorem stripPrefixOp_refines {s : KStr} (hw : s.WF) {pat : Bytes} (hp : validUtf8 pat = true) :
    stripPrefixOp s pat =
      if pat.isPrefixOf s.bytes then .str (s.bytes.drop pat.length) else .null := by
  simp only [stripPrefixOp]
  split
  · rename_i hpre
    have hs := prefix_split hpre
    have hlen := KStr.bytes_length hw
    have hpl : pat.length ≤ s.len := by
      rw [← hlen]; have := congrArg List.length hs; simp at this; omega
    have ha : s.len - (s.len - pat.length) = pat.length := by omega
    rw [ha]
    apply Res.unwrap_of_map
    have hbd : isBoundary s.bytes pat.length = true := by
      have hv := hw.bytes_valid
      rw [hs] at hv ⊢
      exact boundary_after_valid_prefix hv hp
    rw [KStr.withBounds_ok hw hpl (Nat.le_refl _) hbd (hlen ▸ isBoundary_length _)]
    congr 1
    rw [List.take_of_length_le (by simp only [List.length_drop]; omega)]
  · rfl

end KotoVerif.Str

namespace KotoVerif.Str
open KotoVerif.Utf8

/-- the offset `find` returns is a character boundary (well-formed haystack and non-empty well-formed
pattern) -/
theorem findAt_boundary {pat s : Bytes} {e : Nat} (hv : validUtf8 s = true) (hpv : validUtf8 pat = true)
    (hp : pat ≠ []) (h : findAt pat s = some e) : isBoundary s e = true := by
  by_cases h0 : e = 0
  · rw [h0]; exact isBoundary_zero _
  have hd := drop_of_findAt h
  have hle := findAt_some_le h
  cases pat with
  | nil => exact absurd rfl hp
  | cons c pr =>
    have hcn : isCont c = false := valid_head_noncont hpv
    simp only [isBoundary, h0, if_false]
    have hlt : e < s.length := by simp only [List.length_cons] at hle; omega
    have : s[e]? = some c := by
      have h1 : (s.drop e)[0]? = some c := by rw [hd]; rfl
      rw [List.getElem?_drop] at h1
      simpa using h1
    rw [this]; simp [hcn]

/-- boundaries of a suffix, shifted -/
theorem isBoundary_drop_eq {s : Bytes} {a i : Nat} (ha : isBoundary s a = true) (hi : i ≠ 0) :
    isBoundary (s.drop a) i = isBoundary s (a + i) := by
  rcases isBoundary_drop (i := i) ha with h | h
  · exact h
  · exact absurd h hi

end KotoVerif.Str

namespace KotoVerif.Str
open KotoVerif.Utf8

theorem findByte_none {x : Nat} : ∀ {s : Bytes}, findByte x s = none → ∀ b ∈ s, b ≠ x
  | [], _, b, hb => by cases hb
  | c :: r, h, b, hb => by
    simp only [findByte] at h
    split at h
    · cases h
    · rename_i hc
      cases hr : findByte x r with
      | some e => simp [hr] at h
      | none =>
        rcases List.mem_cons.mp hb with rfl | hb
        · exact hc
        · exact findByte_none hr b hb

theorem findByte_some {x : Nat} : ∀ {s : Bytes} {e : Nat}, findByte x s = some e →
    s = s.take e ++ x :: s.drop (e + 1) ∧ (∀ b ∈ s.take e, b ≠ x) ∧ e < s.length
  | [], _, h => by cases h
  | c :: r, e, h => by
    simp only [findByte] at h
    split at h
    · rename_i hc
      cases h
      subst hc
      simp
    · rename_i hc
      cases hr : findByte x r with
      | none => simp [hr] at h
      | some e' =>
        simp only [hr, Option.map_some, Option.some.injEq] at h
        subst h
        obtain ⟨h1, h2, h3⟩ := findByte_some hr
        refine ⟨?_, ?_, by simp only [List.length_cons]; omega⟩
        · simp only [List.take_succ_cons, List.drop_succ_cons, List.cons_append]
          exact congrArg (c :: ·) h1
        · intro b hb
          simp only [List.take_succ_cons] at hb
          rcases List.mem_cons.mp hb with rfl | hb
          · exact hc
          · exact h2 b hb

theorem linesLoop_done (s : KStr) (fuel start : Nat) (h : s.len ≤ start) : linesLoop s fuel start = some [] := by
  cases fuel with
  | zero => rfl
  | succ f => simp only [linesLoop]; rw [if_neg (by omega)]

/-- `stripCR` of the text before a line feed, in terms of offsets -/
theorem stripCR_take (rem : Bytes) (e : Nat) (he : e ≤ rem.length) :
    stripCR (rem.take e) = if e > 0 ∧ rem[e - 1]? = some 13 then rem.take (e - 1) else rem.take e := by
  have hl : (rem.take e).length = e := by simp only [List.length_take]; omega
  simp only [stripCR, List.getLast?_eq_getElem?, hl]
  by_cases h0 : e = 0
  · subst h0; simp
  · have hlt : e - 1 < e := by omega
    rw [List.getElem?_take_of_lt hlt]
    by_cases hc : rem[e - 1]? = some 13
    · rw [if_pos hc, if_pos ⟨by omega, hc⟩, List.dropLast_eq_take, hl, List.take_take]
      congr 1; omega
    · rw [if_neg hc, if_neg (fun h => hc h.2)]

/-- **`lines` at the code level computes `linesB`** -/
theorem linesLoop_refines {s : KStr} (hw : s.WF) :
    ∀ (fuel start : Nat), start ≤ s.len → s.len - start < fuel → isBoundary s.bytes start = true →
      (linesLoop s fuel start).map (List.map KStr.bytes) = some (linesB (s.bytes.drop start) [])
  | 0, _, _, h, _ => by omega
  | fuel + 1, start, hle, hfuel, hbs => by
    have hlen := KStr.bytes_length hw
    have hv := hw.bytes_valid
    have hvd : validUtf8 (s.bytes.drop start) = true := (valid_split hv hbs).2
    by_cases hlt : start < s.len
    · simp only [linesLoop]
      rw [if_pos hlt]
      have hreml : (s.bytes.drop start).length = s.len - start := by simp only [List.length_drop, hlen]
      cases hf : findByte 10 (s.bytes.drop start) with
      | none =>
        simp only
        have hno := findByte_none hf
        have hok := KStr.withBounds_ok hw hle (Nat.le_refl _) hbs (hlen ▸ isBoundary_length _)
        cases hwb : s.withBounds start s.len with
        | none => rw [hwb] at hok; cases hok
        | some t =>
          rw [hwb] at hok
          simp only [Option.map_some, Option.some.injEq] at hok
          rw [linesLoop_done s fuel _ (by omega)]
          rw [linesB_no_lf _ [] hno]
          have hne : (s.bytes.drop start).isEmpty = false := by
            cases hd : s.bytes.drop start with
            | nil => rw [hd] at hreml; simp at hreml; omega
            | cons c r => rfl
          simp only [Option.map_some, List.map_cons, List.map_nil, hok, List.nil_append]
          rw [List.take_of_length_le (by omega)]
          simp [hne]
      | some e =>
        obtain ⟨hsplit, hpre, helt⟩ := findByte_some hf
        rw [hreml] at helt
        -- byte-level: first line, then the lines of the rest
        have hbl : linesB (s.bytes.drop start) [] =
            stripCR ((s.bytes.drop start).take e) :: linesB ((s.bytes.drop start).drop (e + 1)) [] := by
          conv => lhs; rw [hsplit]
          rw [linesB_unfold _ _ [] hpre]; simp
        -- boundaries at the line feed, before a CR in front of it, and after it
        have hv1 : validUtf8 ((s.bytes.drop start).take e) = true ∧
            validUtf8 (10 :: (s.bytes.drop start).drop (e + 1)) = true := by
          have := hvd; rw [hsplit] at this
          exact valid_append_noncont this (by decide)
        have hbe : isBoundary s.bytes (start + e) = true := by
          by_cases h0 : e = 0
          · rw [h0]; simpa using hbs
          · rw [← isBoundary_drop_eq hbs h0]
            have : isBoundary ((s.bytes.drop start).take e ++ 10 :: (s.bytes.drop start).drop (e + 1))
                ((s.bytes.drop start).take e).length = true :=
              boundary_after_valid_prefix (hsplit ▸ hvd) hv1.1
            rw [← hsplit] at this
            have hl : ((s.bytes.drop start).take e).length = e := by
              simp only [List.length_take, hreml]; omega
            rw [hl] at this; exact this
        have hbe1 : isBoundary s.bytes (start + e + 1) = true := by
          have hd2 : (s.bytes.drop start).drop e = 10 :: (s.bytes.drop start).drop (e + 1) := by
            have h1 := congrArg (List.drop e) hsplit
            have hl : ((s.bytes.drop start).take e).length = e := by
              simp only [List.length_take, hreml]; omega
            rw [List.drop_append, hl, Nat.sub_self, List.drop_zero,
              List.drop_of_length_le (by omega : ((s.bytes.drop start).take e).length ≤ e)] at h1
            simpa using h1
          have hb3 := boundary_after_valid_prefix (a := [10]) (b := (s.bytes.drop start).drop (e + 1))
            (by simpa using hv1.2) (by decide)
          have : [10] ++ (s.bytes.drop start).drop (e + 1) = (s.bytes.drop (start + e)) := by
            have h := hd2
            rw [List.drop_drop] at h
            rw [h]; rfl
          rw [this] at hb3
          rw [← isBoundary_drop_eq (i := 1) hbe (by decide)]; exact hb3
        have hrest : (s.bytes.drop start).drop (e + 1) = s.bytes.drop (start + e + 1) := by
          rw [List.drop_drop, Nat.add_assoc]
        have ih := linesLoop_refines hw fuel (start + e + 1) (by omega) (by omega) hbe1
        rw [← hrest] at ih
        rw [hbl, stripCR_take _ e (by omega)]
        simp only
        by_cases hcr : e > 0 ∧ (s.bytes.drop start)[e - 1]? = some 13
        · rw [if_pos hcr, if_pos hcr]
          simp only
          -- boundary in front of the CR
          have hbcr : isBoundary s.bytes (start + e - 1) = true := by
            by_cases h1 : e = 1
            · subst h1; simpa using hbs
            · have hne : start + e - 1 ≠ 0 := by omega
              simp only [isBoundary, hne, if_false]
              have : s.bytes[start + e - 1]? = some 13 := by
                have := hcr.2; rw [List.getElem?_drop] at this
                have e3 : start + (e - 1) = start + e - 1 := by omega
                rw [e3] at this; exact this
              rw [this]; rfl
          have hok := KStr.withBounds_ok hw (by omega : start ≤ start + e - 1) (by omega) hbs hbcr
          cases hwb : s.withBounds start (start + e - 1) with
          | none => rw [hwb] at hok; cases hok
          | some t =>
            rw [hwb] at hok
            simp only [Option.map_some, Option.some.injEq] at hok
            have e4 : start + e - 1 + 2 = start + e + 1 := by omega
            rw [e4]
            cases hrec : linesLoop s fuel (start + e + 1) with
            | none => rw [hrec] at ih; cases ih
            | some ts =>
              rw [hrec] at ih
              simp only [Option.map_some, Option.some.injEq] at ih
              simp only [Option.map_some, List.map_cons, hok, ih]
              have e5 : start + e - 1 - start = e - 1 := by omega
              rw [e5]
        · rw [if_neg hcr, if_neg hcr]
          simp only
          have hok := KStr.withBounds_ok hw (by omega : start ≤ start + e) (by omega) hbs hbe
          cases hwb : s.withBounds start (start + e) with
          | none => rw [hwb] at hok; cases hok
          | some t =>
            rw [hwb] at hok
            simp only [Option.map_some, Option.some.injEq] at hok
            cases hrec : linesLoop s fuel (start + e + 1) with
            | none => rw [hrec] at ih; cases ih
            | some ts =>
              rw [hrec] at ih
              simp only [Option.map_some, Option.some.injEq] at ih
              simp only [Option.map_some, List.map_cons, hok, ih]
              have e5 : start + e - start = e := by omega
              rw [e5]
    · -- start = len: no more lines
      rw [linesLoop_done s _ _ (by omega)]
      have : s.bytes.drop start = [] := List.drop_of_length_le (by omega)
      rw [this]; rfl

end KotoVerif.Str

namespace KotoVerif.Str
open KotoVerif.Utf8

theorem KStr.ofSlice_wf {buf : Bytes} {lo hi : Nat} (hv : validUtf8 buf = true) (hle : lo ≤ hi)
    (hhi : hi ≤ buf.length) (hbl : isBoundary buf lo = true) (hbh : isBoundary buf hi = true) :
    (KStr.ofSlice buf lo hi).WF := by
  refine ⟨hle, hhi, hv, hbl, hbh, ?_, ?_, ?_⟩
  · intro h; simp only [KStr.ofSlice] at h; split at h <;> cases h
  · intro h; simp only [KStr.ofSlice] at h; split at h <;> cases h
  · intro h
    simp only [KStr.ofSlice] at h ⊢
    split at h
    · rename_i hc; exact hc.2
    · cases h

/-- `StringSlice::split` at a character boundary inside a well-formed string -/
theorem splitAt_spec {s : KStr} (hw : s.WF) {g : Nat} (hgl : g ≤ s.len) (hgb : isBoundary s.bytes g = true) :
    ∃ p r, s.splitAt g = some (p, r) ∧ p.bytes = s.bytes.take g ∧ r.bytes = s.bytes.drop g ∧ r.WF := by
  have hle := hw.le; have hhi := hw.hiLe
  have hbuf : isBoundary s.buf (s.lo + g) = true := by
    rw [← KStr.boundary_iff hw hgl]; exact hgb
  simp only [KStr.len] at hgl
  have take_eq : (s.buf.drop s.lo).take (s.lo + g - s.lo) = ((s.buf.drop s.lo).take (s.hi - s.lo)).take g := by
    rw [List.take_take]; congr 1; omega
  have drop_eq : (s.buf.drop (s.lo + g)).take (s.hi - (s.lo + g)) = ((s.buf.drop s.lo).take (s.hi - s.lo)).drop g := by
    rw [List.drop_take, List.drop_drop]; congr 1; omega
  cases hform : s.form with
  | full =>
    have h0 := (hw.full hform).1; have h1 := (hw.full hform).2
    rw [h0] at hbuf; simp only [Nat.zero_add] at hbuf
    have hsb : s.bytes = s.buf := by simp [KStr.bytes, h0, h1]
    simp only [KStr.splitAt, hform, hbuf]
    refine ⟨_, _, rfl, ?_, ?_, ?_⟩
    · rw [KStr.ofSlice_bytes, hsb]; simp
    · rw [KStr.ofSlice_bytes, hsb]; exact List.take_of_length_le (by simp)
    · exact KStr.ofSlice_wf hw.valid (by omega) (Nat.le_refl _) hbuf (isBoundary_length _)
  | fullV =>
    have h0 := (hw.fullV hform).1; have h1 := (hw.fullV hform).2
    rw [h0] at hbuf; simp only [Nat.zero_add] at hbuf
    have hsb : s.bytes = s.buf := by simp [KStr.bytes, h0, h1]
    simp only [KStr.splitAt, hform, hbuf]
    refine ⟨_, _, rfl, ?_, ?_, ?_⟩
    · rw [KStr.ofSlice_bytes, hsb]; simp
    · rw [KStr.ofSlice_bytes, hsb]; exact List.take_of_length_le (by simp)
    · exact KStr.ofSlice_wf hw.valid (by omega) (Nat.le_refl _) hbuf (isBoundary_length _)
  | slice =>
    have h16 := hw.slice16 hform
    have hc : isBoundary s.buf (s.lo + g) = true ∧ s.lo + g ≤ u16max := ⟨hbuf, by omega⟩
    simp only [KStr.splitAt, hform, if_pos hc]
    refine ⟨_, _, rfl, ?_, ?_, ?_⟩
    · simp only [KStr.bytes]; exact take_eq
    · simp only [KStr.bytes]; exact drop_eq
    · exact ⟨by simp only; omega, hhi, hw.valid, hbuf, hw.bhi, (fun h => by cases h), (fun h => by cases h),
        (fun _ => h16)⟩
  | large =>
    simp only [KStr.splitAt, hform, if_pos hbuf]
    refine ⟨_, _, rfl, ?_, ?_, ?_⟩
    · simp only [KStr.bytes]; exact take_eq
    · simp only [KStr.bytes]; exact drop_eq
    · exact ⟨by simp only; omega, hhi, hw.valid, hbuf, hw.bhi, (fun h => by cases h), (fun h => by cases h),
        (fun h => by cases h)⟩

/-- `pop_front` on a well-formed non-empty string whose first cluster ends on a character boundary:
it succeeds, the popped part is the first `g` bytes, the rest is well-formed and holds the other bytes -/
theorem popFront_spec (U : UFacts) {s : KStr} (hw : s.WF) (hne : s.bytes ≠ [])
    (hgl : U.gFirst s.bytes ≤ s.len) (hgb : isBoundary s.bytes (U.gFirst s.bytes) = true) :
    ∃ p r, popFront U s = some (some (p, r)) ∧ p.bytes = s.bytes.take (U.gFirst s.bytes) ∧
      r.bytes = s.bytes.drop (U.gFirst s.bytes) ∧ r.WF := by
  have hemp : s.bytes.isEmpty = false := by cases hb : s.bytes <;> simp_all
  obtain ⟨p, r, hsp, hpb, hrb, hrw⟩ := splitAt_spec hw hgl hgb
  cases hform : s.form with
  | full => exact ⟨p, r, by simp [popFront, hemp, hform, hsp], hpb, hrb, hrw⟩
  | fullV => exact ⟨p, r, by simp [popFront, hemp, hform, hsp], hpb, hrb, hrw⟩
  | slice => exact ⟨p, r, by simp [popFront, hemp, hform, hsp], hpb, hrb, hrw⟩
  | large =>
    exact ⟨KStr.ofSlice p.buf p.lo p.hi, r, by simp [popFront, hemp, hform, hsp], hpb, hrb, hrw⟩

/-- **`chars()` at the code level computes the grapheme segmentation** (every `unwrap()` in `pop_front`
succeeds), for every oracle that makes progress and cuts at character boundaries -/
theorem charsLoop_refines (U : UFacts) (hp : Progress U.gFirst) (hb : CutsAtBoundaries U.gFirst) :
    ∀ (fuel : Nat) (s : KStr), s.WF →
      (charsLoop U fuel s).map (List.map KStr.bytes) = some (segs U.gFirst fuel s.bytes)
  | 0, _, _ => rfl
  | fuel + 1, s, hw => by
    cases hbs : s.bytes with
    | nil =>
      have : popFront U s = none := by simp [popFront, hbs]
      simp only [charsLoop, this, segs]; rfl
    | cons c r =>
      have hne : s.bytes ≠ [] := by rw [hbs]; simp
      obtain ⟨h0, h1⟩ := hp s.bytes hne
      have hlen := KStr.bytes_length hw
      obtain ⟨p, rest, hpop, hpb, hrb, hrw⟩ := popFront_spec U hw hne (hlen ▸ h1) (hb s.bytes hne)
      have ih := charsLoop_refines U hp hb fuel rest hrw
      simp only [charsLoop, hpop]
      cases hrec : charsLoop U fuel rest with
      | none => rw [hrec] at ih; cases ih
      | some ts =>
        rw [hrec] at ih
        simp only [Option.map_some, Option.some.injEq] at ih
        simp only [Option.map_some, List.map_cons, hpb, ih, hrb, segs]
        rw [hbs]

end KotoVerif.Str

namespace KotoVerif.Str
open KotoVerif.Utf8

/-- `trim()` at the code level is `trimB` -/
theorem trimOp_refines (U : UFacts) {s : KStr} (hw : s.WF) :
    trimOp U s none = .str (trimB U s.bytes) := by
  obtain ⟨ws, _, hs, _, hbd⟩ := trimStartB_spec U s.bytes
  obtain ⟨ws2, _, hs2, hbd2⟩ := trimEndB_spec U (trimStartB U s.bytes)
  have hlen := KStr.bytes_length hw
  have hl : s.len = (flat ws).length + (trimStartB U s.bytes).length := by
    rw [← hlen]; have := congrArg List.length hs; simpa using this
  have hl2 : (trimStartB U s.bytes).length = (trimB U s.bytes).length + (flat ws2).length := by
    have := congrArg List.length hs2; simpa [trimB] using this
  have hdrop : s.bytes.drop (flat ws).length = trimStartB U s.bytes := by
    have h1 := congrArg (List.drop (flat ws).length) hs
    rw [List.drop_left] at h1; exact h1
  simp only [trimOp]
  have ha : s.len - (trimStartB U s.bytes).length = (flat ws).length := by omega
  rw [ha]
  apply Res.unwrap_of_map
  have hb2 : isBoundary s.bytes ((flat ws).length + (trimEndB U (trimStartB U s.bytes)).length) = true := by
    by_cases h0 : (trimEndB U (trimStartB U s.bytes)).length = 0
    · rw [h0]; simpa using hbd
    · rw [← isBoundary_drop_eq hbd h0, hdrop]; exact hbd2
  have hle2 : (flat ws).length + (trimEndB U (trimStartB U s.bytes)).length ≤ s.len := by
    have : (trimEndB U (trimStartB U s.bytes)).length = (trimB U s.bytes).length := rfl
    omega
  rw [KStr.withBounds_ok hw (by omega) hle2 hbd hb2]
  congr 1
  rw [hdrop]
  have e : (flat ws).length + (trimEndB U (trimStartB U s.bytes)).length - (flat ws).length
      = (trimEndB U (trimStartB U s.bytes)).length := by omega
  rw [e]
  have h1 := congrArg (List.take (trimEndB U (trimStartB U s.bytes)).length) hs2
  rw [List.take_left] at h1
  exact h1

end KotoVerif.Str

namespace KotoVerif.Str
open KotoVerif.Utf8

/-- the reversed segmentation, re-reversed and concatenated, is the string -/
theorem rsegs_flatten {g : Bytes → Nat} (hp : Progress g) : ∀ (fuel : Nat) (s : Bytes), s.length < fuel →
    (rsegs g fuel s).reverse.flatten = s
  | 0, _, h => by omega
  | fuel + 1, s, h => by
    simp only [rsegs]
    split
    · rename_i he
      have : s = [] := by simpa using he
      subst this; rfl
    · rename_i hne
      have hne' : s ≠ [] := by intro h; subst h; simp at hne
      obtain ⟨h0, h1⟩ := hp s hne'
      have hl : 0 < s.length := List.length_pos_iff.mpr hne'
      simp only [List.reverse_cons, List.flatten_append, List.flatten_cons, List.flatten_nil, List.append_nil]
      rw [rsegs_flatten hp fuel _ (by simp only [List.length_take]; omega)]
      exact List.take_append_drop _ _

/-- **`chars().reversed()` at the code level computes the reversed segmentation** (every `unwrap()` in
`pop_back` succeeds), for every oracle `gLast` that makes progress and cuts at character boundaries -/
theorem rcharsLoop_refines (U : UFacts) (hp : Progress U.gLast)
    (hb : ∀ s : Bytes, s ≠ [] → isBoundary s (s.length - U.gLast s) = true) :
    ∀ (fuel : Nat) (s : KStr), s.WF →
      (rcharsLoop U fuel s).map (List.map KStr.bytes) = some (rsegs U.gLast fuel s.bytes)
  | 0, _, _ => rfl
  | fuel + 1, s, hw => by
    have hlen := KStr.bytes_length hw
    by_cases hemp : s.bytes.isEmpty = true
    · have : popBack U s = none := by simp [popBack, hemp]
      simp only [rcharsLoop, this, rsegs, hemp, if_true]; rfl
    · have hne : s.bytes ≠ [] := by intro h; rw [h] at hemp; simp at hemp
      have hemp' : s.bytes.isEmpty = false := by simpa using hemp
      obtain ⟨h0, h1⟩ := hp s.bytes hne
      have hbd := hb s.bytes hne
      rw [hlen] at hbd h1
      obtain ⟨r, p, hsp, hrb, hpb, _⟩ := splitAt_spec hw (g := s.len - U.gLast s.bytes) (by omega) hbd
      -- the rest (first component) is well-formed too
      have hrw : r.WF ∧ ∃ p', popBack U s = some (some (r, p')) ∧ p'.bytes = p.bytes := by
        have hle := hw.le; have hhi := hw.hiLe
        have hbuf : isBoundary s.buf (s.lo + (s.len - U.gLast s.bytes)) = true := by
          rw [← KStr.boundary_iff hw (by omega)]; exact hbd
        cases hform : s.form with
        | full =>
          have h0' := (hw.full hform).1
          simp only [KStr.splitAt, hform] at hsp
          rw [h0'] at hbuf; simp only [Nat.zero_add] at hbuf
          rw [if_pos hbuf] at hsp
          simp only [Option.some.injEq, Prod.mk.injEq] at hsp
          obtain ⟨rfl, rfl⟩ := hsp
          refine ⟨KStr.ofSlice_wf hw.valid (Nat.zero_le _) (by simp only [KStr.len] at *; omega)
            (isBoundary_zero _) hbuf, _, ?_, rfl⟩
          simp [popBack, hemp', hform, KStr.splitAt, hbuf]
        | fullV =>
          have h0' := (hw.fullV hform).1
          simp only [KStr.splitAt, hform] at hsp
          rw [h0'] at hbuf; simp only [Nat.zero_add] at hbuf
          rw [if_pos hbuf] at hsp
          simp only [Option.some.injEq, Prod.mk.injEq] at hsp
          obtain ⟨rfl, rfl⟩ := hsp
          refine ⟨KStr.ofSlice_wf hw.valid (Nat.zero_le _) (by simp only [KStr.len] at *; omega)
            (isBoundary_zero _) hbuf, _, ?_, rfl⟩
          simp [popBack, hemp', hform, KStr.splitAt, hbuf]
        | slice =>
          have h16 := hw.slice16 hform
          have hc : isBoundary s.buf (s.lo + (s.len - U.gLast s.bytes)) = true ∧
              s.lo + (s.len - U.gLast s.bytes) ≤ u16max := ⟨hbuf, by simp only [KStr.len]; omega⟩
          simp only [KStr.splitAt, hform, if_pos hc, Option.some.injEq, Prod.mk.injEq] at hsp
          obtain ⟨rfl, rfl⟩ := hsp
          refine ⟨⟨by simp only [KStr.len]; omega, by simp only [KStr.len]; omega, hw.valid, hw.blo, hbuf,
            (fun h => by cases h), (fun h => by cases h), (fun _ => by simp only [KStr.len]; omega)⟩, _, ?_, rfl⟩
          simp [popBack, hemp', hform, KStr.splitAt, hc]
        | large =>
          simp only [KStr.splitAt, hform, if_pos hbuf, Option.some.injEq, Prod.mk.injEq] at hsp
          obtain ⟨rfl, rfl⟩ := hsp
          refine ⟨⟨by simp only [KStr.len]; omega, by simp only [KStr.len]; omega, hw.valid, hw.blo, hbuf,
            (fun h => by cases h), (fun h => by cases h), (fun h => by cases h)⟩,
            KStr.ofSlice s.buf (s.lo + (s.len - U.gLast s.bytes)) s.hi, ?_, rfl⟩
          simp [popBack, hemp', hform, KStr.splitAt, hbuf]
      obtain ⟨hrwf, p', hpop, hpb'⟩ := hrw
      have ih := rcharsLoop_refines U hp hb fuel r hrwf
      simp only [rcharsLoop, hpop, rsegs, hemp', Bool.false_eq_true, if_false]
      cases hrec : rcharsLoop U fuel r with
      | none => rw [hrec] at ih; cases ih
      | some ts =>
        rw [hrec] at ih
        simp only [Option.map_some, Option.some.injEq] at ih
        simp only [Option.map_some, List.map_cons, ih, hpb', hpb, hrb, hlen]

end KotoVerif.Str
