/-
C16 helper lemmas: the walks over a possibly cyclic `@base` graph terminate (visited list).
-/
import KotoVerif.Model.Types

namespace KotoVerif.C16
open KotoVerif.Types

/-- number of nodes `< N` not yet in `vis` -/
def unvisited (N : Nat) (vis : List Nat) : Nat := ((List.range N).filter fun m => !vis.contains m).length

theorem filter_len_le (l : List Nat) (p q : Nat → Bool) (hqp : ∀ m, q m = true → p m = true) :
    (l.filter q).length ≤ (l.filter p).length := by
  induction l with
  | nil => simp
  | cons a l ih =>
    simp only [List.filter_cons]
    cases hq : q a
    · cases hp : p a <;> simp <;> omega
    · simp [hqp a hq]; exact ih

theorem filter_len_lt (l : List Nat) (p q : Nat → Bool) (hqp : ∀ m, q m = true → p m = true)
    (n : Nat) (hn : n ∈ l) (hpn : p n = true) (hqn : q n = false) :
    (l.filter q).length < (l.filter p).length := by
  induction l with
  | nil => simp at hn
  | cons a l ih =>
    simp only [List.filter_cons]
    rcases List.mem_cons.mp hn with rfl | hmem
    · have := filter_len_le l p q hqp
      simp [hpn, hqn]; omega
    · have := ih hmem
      cases hq : q a
      · cases hp : p a <;> simp <;> omega
      · simp [hqp a hq]; exact this

theorem unvisited_lt (N n : Nat) (vis : List Nat) (hn : n < N) (hv : vis.contains n = false) :
    unvisited N (n :: vis) < unvisited N vis := by
  unfold unvisited
  apply filter_len_lt _ _ _ _ n (List.mem_range.mpr hn)
  · simpa using hv
  · simp
  · intro m hm
    simp only [List.contains_cons, Bool.not_eq_true', Bool.or_eq_false_iff] at hm
    simpa using hm.2

theorem unvisited_nil (N : Nat) : unvisited N [] = N := by
  unfold unvisited
  rw [List.filter_eq_self.mpr (by intro a _; simp)]
  simp

theorem lt_of_getElem?_some {α : Type} (l : List α) (n : Nat) (a : α) (h : l[n]? = some a) : n < l.length := by
  rcases Nat.lt_or_ge n l.length with hlt | hge
  · exact hlt
  · rw [List.getElem?_eq_none hge] at h; cases h

theorem metaTypeG_total (g : Graph) :
    ∀ fuel vis n, vis.contains n = false → unvisited g.length vis < fuel → ∃ r, metaTypeG g fuel vis n = some r := by
  intro fuel
  induction fuel with
  | zero => intro vis n _ h; omega
  | succ fuel ih =>
    intro vis n hv hf
    simp only [metaTypeG]
    cases hg : g[n]? with
    | none => exact ⟨_, rfl⟩
    | some nd =>
      have hn := lt_of_getElem?_some g n nd hg
      simp only
      cases nd.ty with
      | str s => exact ⟨_, rfl⟩
      | nonString => exact ⟨_, rfl⟩
      | absent =>
        cases nd.base with
        | none => exact ⟨_, rfl⟩
        | some b =>
          simp only
          by_cases hc : (n :: vis).contains b = true
          · rw [if_pos hc]; exact ⟨_, rfl⟩
          · have hc' : (n :: vis).contains b = false := by simpa using hc
            rw [if_neg hc]
            exact ih (n :: vis) b hc' (by have := unvisited_lt g.length n vis hn hv; omega)

theorem walkG_total (g : Graph) (h : TyName) :
    ∀ fuel vis n, unvisited g.length vis < fuel → ∃ r, walkG g h fuel vis n = some r := by
  intro fuel
  induction fuel with
  | zero => intro vis n hf; omega
  | succ fuel ih =>
    intro vis n hf
    simp only [walkG]
    cases hb : gBase g n with
    | none => exact ⟨_, rfl⟩
    | some b =>
      simp only
      by_cases hv : vis.contains n = true
      · rw [if_pos hv]; exact ⟨_, rfl⟩
      · have hv' : vis.contains n = false := by simpa using hv
        rw [if_neg hv]
        by_cases ht : typeNameG g b = h
        · rw [if_pos ht]; exact ⟨_, rfl⟩
        · rw [if_neg ht]
          have hn : n < g.length := by
            unfold gBase at hb
            cases hg : g[n]? with
            | none => simp [hg] at hb
            | some nd => exact lt_of_getElem?_some g n nd hg
          exact ih (n :: vis) b (by have := unvisited_lt g.length n vis hn hv'; omega)

theorem walkG_sound (g : Graph) (h : TyName) :
    ∀ fuel vis n, walkG g h fuel vis n = some true → ∃ k b, reachesG g (k + 1) n b ∧ typeNameG g b = h := by
  intro fuel
  induction fuel with
  | zero => intro vis n hw; simp [walkG] at hw
  | succ fuel ih =>
    intro vis n hw
    simp only [walkG] at hw
    cases hb : gBase g n with
    | none => simp [hb] at hw
    | some b =>
      simp only [hb] at hw
      by_cases hv : vis.contains n = true
      · rw [if_pos hv] at hw; cases hw
      · rw [if_neg hv] at hw
        by_cases ht : typeNameG g b = h
        · exact ⟨0, b, ⟨b, hb, rfl⟩, ht⟩
        · rw [if_neg ht] at hw
          obtain ⟨k, c, hr, hc⟩ := ih _ _ hw
          exact ⟨k + 1, c, ⟨b, hb, hr⟩, hc⟩

end KotoVerif.C16
