/-
C14 — lemmas about the stable insertion sort of `Model/Sort.lean`, for an arbitrary strict test
`lt` that comes from a total preorder (`a ≤ b :⇔ ¬ b < a`).
-/
import KotoVerif.Model.Sort

namespace KotoVerif
namespace Sorting

variable {α : Type}

/-- what the comparator has to satisfy: `<` is asymmetric and `≤` (= not `>`) is transitive.
(Totality of `≤` is the asymmetry of `<`.) -/
structure TotalPreorder (lt : α → α → Bool) : Prop where
  asymm : ∀ a b, lt a b = true → lt b a = false
  le_trans : ∀ a b c, lt b a = false → lt c b = false → lt c a = false

/-- ordered: no element is strictly greater than a later one -/
def Sorted (lt : α → α → Bool) (xs : List α) : Prop := xs.Pairwise (fun a b => lt b a = false)

/-- the comparator cannot tell `a` and `b` apart -/
def equiv (lt : α → α → Bool) (a b : α) : Bool := !lt a b && !lt b a

theorem insertBy_perm (lt : α → α → Bool) (x : α) (ys : List α) :
    (insertBy lt x ys).Perm (x :: ys) := by
  induction ys with
  | nil => simp [insertBy]
  | cons y ys ih =>
    simp only [insertBy]
    split
    · exact (List.Perm.cons y ih).trans (List.Perm.swap x y ys)
    · exact List.Perm.refl _

theorem sortBy_perm (lt : α → α → Bool) (xs : List α) : (sortBy lt xs).Perm xs := by
  induction xs with
  | nil => simp [sortBy]
  | cons x xs ih =>
    simp only [sortBy]
    exact (insertBy_perm lt x _).trans (List.Perm.cons x ih)

theorem insertBy_sorted {lt : α → α → Bool} (h : TotalPreorder lt) (x : α) (ys : List α)
    (hs : Sorted lt ys) : Sorted lt (insertBy lt x ys) := by
  induction ys with
  | nil => simp [insertBy, Sorted]
  | cons y ys ih =>
    simp only [insertBy]
    have hs' := List.pairwise_cons.mp hs
    split
    · rename_i hyx
      apply List.pairwise_cons.mpr
      constructor
      · intro z hz
        have hz' : z ∈ x :: ys := (insertBy_perm lt x ys).mem_iff.mp hz
        rcases List.mem_cons.mp hz' with rfl | hz''
        · exact h.asymm _ _ hyx
        · exact hs'.1 z hz''
      · exact ih hs'.2
    · rename_i hyx
      have hyx' : lt y x = false := by simpa using hyx
      apply List.pairwise_cons.mpr
      constructor
      · intro z hz
        rcases List.mem_cons.mp hz with rfl | hz'
        · exact hyx'
        · exact h.le_trans x y z hyx' (hs'.1 z hz')
      · exact hs

theorem sortBy_sorted {lt : α → α → Bool} (h : TotalPreorder lt) (xs : List α) :
    Sorted lt (sortBy lt xs) := by
  induction xs with
  | nil => simp [sortBy, Sorted]
  | cons x xs ih => exact insertBy_sorted h x _ ih

/-- two elements of one class are never strictly ordered -/
theorem equiv_not_lt {lt : α → α → Bool} (h : TotalPreorder lt) (a x y : α)
    (hx : equiv lt a x = true) (hy : equiv lt a y = true) : lt y x = false := by
  simp only [equiv, Bool.and_eq_true, Bool.not_eq_true'] at hx hy
  -- x ≤ a (¬ a < x) and a ≤ y (¬ y < a) give x ≤ y
  exact h.le_trans x a y hx.1 hy.2

theorem insertBy_filter {lt : α → α → Bool} (h : TotalPreorder lt) (a x : α) (ys : List α) :
    (insertBy lt x ys).filter (equiv lt a) = (x :: ys).filter (equiv lt a) := by
  induction ys with
  | nil => simp [insertBy]
  | cons y ys ih =>
    simp only [insertBy]
    split
    · rename_i hyx
      rw [List.filter_cons, ih]
      by_cases hx : equiv lt a x = true
      · by_cases hy : equiv lt a y = true
        · have := equiv_not_lt h a x y hx hy
          rw [this] at hyx
          exact absurd hyx (by simp)
        · simp [hx, hy]
      · simp [List.filter_cons, hx]
    · rfl

/-- stability: the members of every class appear in their input order -/
theorem sortBy_stable {lt : α → α → Bool} (h : TotalPreorder lt) (a : α) (xs : List α) :
    (sortBy lt xs).filter (equiv lt a) = xs.filter (equiv lt a) := by
  induction xs with
  | nil => simp [sortBy]
  | cons x xs ih =>
    simp only [sortBy]
    rw [insertBy_filter h, List.filter_cons, List.filter_cons, ih]

theorem equiv_self {lt : α → α → Bool} (h : TotalPreorder lt) (a : α) : equiv lt a a = true := by
  have : lt a a = false := by
    cases hh : lt a a with
    | false => rfl
    | true => have := h.asymm a a hh; rw [hh] at this; exact absurd this (by simp)
  simp [equiv, this]

/-- two ordered lists with the same members and the same order inside every class are equal -/
theorem sorted_stable_unique {lt : α → α → Bool} (h : TotalPreorder lt) :
    ∀ (ys zs : List α), ys.Perm zs → Sorted lt ys → Sorted lt zs →
      (∀ a, ys.filter (equiv lt a) = zs.filter (equiv lt a)) → ys = zs := by
  intro ys
  induction ys with
  | nil => intro zs hp _ _ _; exact (List.Perm.nil_eq hp)
  | cons y ys ih =>
    intro zs hp hsy hsz hf
    cases zs with
    | nil => exact absurd hp.symm (by simp)
    | cons z zs =>
      have hsy' := List.pairwise_cons.mp hsy
      have hsz' := List.pairwise_cons.mp hsz
      -- y ≤ z and z ≤ y
      have hzy : lt z y = false := by
        have : z ∈ y :: ys := hp.mem_iff.mpr (by simp)
        rcases List.mem_cons.mp this with e | hm
        · subst e
          have := equiv_self h z
          simp only [equiv, Bool.and_eq_true, Bool.not_eq_true'] at this
          exact this.1
        · exact hsy'.1 z hm
      have hyz : lt y z = false := by
        have : y ∈ z :: zs := hp.mem_iff.mp (by simp)
        rcases List.mem_cons.mp this with e | hm
        · subst e
          have := equiv_self h y
          simp only [equiv, Bool.and_eq_true, Bool.not_eq_true'] at this
          exact this.1
        · exact hsz'.1 y hm
      have he : equiv lt y z = true := by simp [equiv, hyz, hzy]
      have hfy := hf y
      rw [List.filter_cons, List.filter_cons] at hfy
      simp only [equiv_self h y, he, if_true] at hfy
      have hyz' : y = z := (List.cons.inj hfy).1
      subst hyz'
      have hp' : ys.Perm zs := List.Perm.cons_inv hp
      have hf' : ∀ a, ys.filter (equiv lt a) = zs.filter (equiv lt a) := by
        intro a
        have := hf a
        rw [List.filter_cons, List.filter_cons] at this
        split at this
        · exact (List.cons.inj this).2
        · exact this
      rw [ih zs hp' hsy'.2 hsz'.2 hf']

theorem sortBy_unique {lt : α → α → Bool} (h : TotalPreorder lt) (xs ys : List α)
    (hp : ys.Perm xs) (hs : Sorted lt ys) (hst : ∀ a, ys.filter (equiv lt a) = xs.filter (equiv lt a)) :
    ys = sortBy lt xs :=
  sorted_stable_unique h ys (sortBy lt xs) (hp.trans (sortBy_perm lt xs).symm) hs (sortBy_sorted h xs)
    (fun a => (hst a).trans (sortBy_stable h a xs).symm)

end Sorting
end KotoVerif
