/-
C14 — reflexivity of `==` on data with maps (keys pairwise different), for the spec-level and the
hashed lookup alike.
-/
import KotoVerif.Model.Equal
import KotoVerif.Lemmas.C14Equal
import KotoVerif.Lemmas.C14Map

namespace KotoVerif
namespace Equal

/-- keys pairwise non-equivalent (both directions), as a Boolean -/
def distinctKeysB (F : FloatOps) : List Val → Bool
  | [] => true
  | k :: rest => rest.all (fun x => !keyEq F k x && !keyEq F x k) && distinctKeysB F rest

mutual
/-- every map in the value has hashable, pairwise different keys -/
def keysDistinct (F : FloatOps) : Val → Bool
  | .tuple xs => keysDistinctList F xs
  | .list xs => keysDistinctList F xs
  | .map es => distinctKeysB F (es.map Prod.fst) && keysDistinctEntries F es
  | _ => true
def keysDistinctList (F : FloatOps) : List Val → Bool
  | [] => true
  | x :: xs => keysDistinct F x && keysDistinctList F xs
def keysDistinctEntries (F : FloatOps) : List (Val × Val) → Bool
  | [] => true
  | (k, v) :: es => hashable k && keysDistinct F v && keysDistinctEntries F es
end

mutual
theorem keyEq_refl {F : FloatOps} (hF : FloatLaws F) :
    ∀ (k : Val), hashable k = true → noNaN F k = true → keyEq F k k = true
  | .null, _, _ => by simp [keyEq]
  | .bool _, _, _ => by simp [keyEq]
  | .num n, _, h => by
    simp only [noNaN, Bool.not_eq_true'] at h
    simpa [keyEq] using num_eq_refl hF n h
  | .str _, _, _ => by simp [keyEq]
  | .range _ _, _, _ => by simp [keyEq]
  | .tuple xs, h1, h2 => by
    simp only [keyEq]
    exact keyEqList_refl hF xs (by simpa [hashable] using h1) (by simpa [noNaN] using h2)
  | .list _, h1, _ => by simp [hashable] at h1
  | .map _, h1, _ => by simp [hashable] at h1
theorem keyEqList_refl {F : FloatOps} (hF : FloatLaws F) :
    ∀ (xs : List Val), hashableList xs = true → noNaNList F xs = true → keyEqList F xs xs = true
  | [], _, _ => by simp [keyEqList]
  | x :: xs, h1, h2 => by
    simp only [hashableList, Bool.and_eq_true] at h1
    simp only [noNaNList, Bool.and_eq_true] at h2
    simp only [keyEqList, Bool.and_eq_true]
    exact ⟨keyEq_refl hF x h1.1 h2.1, keyEqList_refl hF xs h1.2 h2.2⟩
end

theorem hashEq_refl (F : FloatOps) (k : Val) : hashEq F k k = true := by simp [hashEq]

/-- the matcher used by `veqMap` -/
def eqMatcher (F : FloatOps) (mech : Bool) (n : Nat) : Val → Val → Bool :=
  if mech then getMatch F n else keyEq F

theorem eqMatcher_refl (F : FloatOps) (mech : Bool) (n : Nat) (k : Val) (h : keyEq F k k = true) :
    eqMatcher F mech n k k = true := by
  unfold eqMatcher getMatch keyEqH
  cases mech <;> simp [h]
  split <;> simp [h, hashEq_refl]

theorem eqMatcher_sound (F : FloatOps) (mech : Bool) (n : Nat) (a b : Val)
    (h : keyEq F a b = false) : eqMatcher F mech n a b = false := by
  unfold eqMatcher getMatch keyEqH
  cases mech <;> simp [h]
  split <;> simp [h]

theorem lookup_self {β : Type} (m : Val → Val → Bool) (k : Val) (v : β) (pre post : List (Val × β))
    (hpre : ∀ p ∈ pre, m k p.1 = false) (hk : m k k = true) :
    lookupBy m k (pre ++ (k, v) :: post) = some v := by
  induction pre with
  | nil => simp [lookupBy, hk]
  | cons p pre ih =>
    obtain ⟨k0, v0⟩ := p
    have h0 : m k k0 = false := hpre (k0, v0) (by simp)
    simp only [List.cons_append, lookupBy, h0, Bool.false_eq_true, if_false]
    exact ih (fun p hp => hpre p (List.mem_cons_of_mem _ hp))

mutual
theorem veq_refl {F : FloatOps} (hF : FloatLaws F) (mech : Bool) :
    ∀ (v : Val), noNaN F v = true → keysDistinct F v = true → veq F mech v v = true
  | .null, _, _ => by simp [veq]
  | .bool _, _, _ => by simp [veq]
  | .num n, h, _ => by
    simp only [noNaN, Bool.not_eq_true'] at h
    simpa [veq] using num_eq_refl hF n h
  | .str _, _, _ => by simp [veq]
  | .range _ _, _, _ => by simp [veq]
  | .tuple xs, h1, h2 => by
    simp only [veq]
    exact veqList_refl hF mech xs (by simpa [noNaN] using h1) (by simpa [keysDistinct] using h2)
  | .list xs, h1, h2 => by
    simp only [veq]
    exact veqList_refl hF mech xs (by simpa [noNaN] using h1) (by simpa [keysDistinct] using h2)
  | .map es, h1, h2 => by
    simp only [keysDistinct, Bool.and_eq_true] at h2
    simp only [veq, beq_self_eq_true, Bool.true_and]
    have := veqMap_refl hF mech es [] (by simpa [noNaN] using h1) h2.2 h2.1 (by simp)
    simpa using this
theorem veqList_refl {F : FloatOps} (hF : FloatLaws F) (mech : Bool) :
    ∀ (xs : List Val), noNaNList F xs = true → keysDistinctList F xs = true → veqList F mech xs xs = true
  | [], _, _ => by simp [veqList]
  | x :: xs, h1, h2 => by
    simp only [noNaNList, Bool.and_eq_true] at h1
    simp only [keysDistinctList, Bool.and_eq_true] at h2
    simp only [veqList, Bool.and_eq_true]
    exact ⟨veq_refl hF mech x h1.1 h2.1, veqList_refl hF mech xs h1.2 h2.2⟩
theorem veqMap_refl {F : FloatOps} (hF : FloatLaws F) (mech : Bool) :
    ∀ (sub pre : List (Val × Val)), noNaNEntries F sub = true → keysDistinctEntries F sub = true →
      distinctKeysB F (sub.map Prod.fst) = true →
      (∀ p ∈ pre, ∀ s ∈ sub, keyEq F s.1 p.1 = false) →
      veqMap F mech sub (pre ++ sub) = true
  | [], _, _, _, _, _ => by simp [veqMap]
  | (k, v) :: rest, pre, h1, h2, h3, h4 => by
    simp only [noNaNEntries, Bool.and_eq_true] at h1
    simp only [keysDistinctEntries, Bool.and_eq_true] at h2
    simp only [List.map_cons, distinctKeysB, Bool.and_eq_true, List.all_eq_true, Bool.not_eq_true',
      List.mem_map, forall_exists_index, and_imp] at h3
    have hkk : keyEq F k k = true := keyEq_refl hF k h2.1.1 h1.1.1
    have hlook : lookupBy (if mech = true then getMatch F (pre ++ (k, v) :: rest).length else keyEq F) k
        (pre ++ (k, v) :: rest) = some v := by
      apply lookup_self
      · intro p hp
        exact eqMatcher_sound F mech _ k p.1 (h4 p hp (k, v) (by simp))
      · exact eqMatcher_refl F mech _ k hkk
    simp only [veqMap, hlook, Bool.and_eq_true]
    refine ⟨veq_refl hF mech v h1.1.2 h2.1.2, ?_⟩
    have hrec := veqMap_refl hF mech rest (pre ++ [(k, v)]) h1.2 h2.2 h3.2 (by
      intro p hp s hs
      rcases List.mem_append.mp hp with hp' | hp'
      · exact h4 p hp' s (List.mem_cons_of_mem _ hs)
      · simp only [List.mem_singleton] at hp'
        subst hp'
        exact (h3.1 s.1 s hs rfl).2)
    simpa [List.append_assoc] using hrec
end

end Equal
end KotoVerif
