/-
C01 layer 5: semantic correctness of the compiler model, `compile_sem` — for every expression of
the core, every frame state and every result mode, under the static side conditions `safe`.
-/
import KotoVerif.Lemmas.C01FrameFacts

namespace KotoVerif.Compile

variable {S : Sem}

/-- the registers of all committed locals outside `E` hold the locals' values -/
def RelEx (E : List VarId) (F : Frame) (σ : Regs S) (ρ : Env S) : Prop :=
  ∀ x v, ρ x = some v → x ∉ E → ∃ r, Has F r x ∧ σ r = v

/-- the result mode is meaningful in frame `F`: a fixed register is either the slot of the local
`fx` (assignment target) or a live temporary -/
def ModeFx (m : Mode) (fx : Option VarId) (F : Frame) : Prop :=
  match m, fx with
  | .fixed r, some x => Named F r x
  | .fixed r, none => F.tb ≤ r ∧ r < F.tb + F.tc
  | .any, none => True
  | .none, none => True
  | _, _ => False

/-- live temporaries of `F` (other than a fixed target) are not disturbed -/
def TempsKept (m : Mode) (F : Frame) (σ σ' : Regs S) : Prop :=
  ∀ t, F.tb ≤ t → t < F.tb + F.tc → m ≠ .fixed t → σ' t = σ t

theorem RelEx.frame {E : List VarId} {F F' : Frame} {σ : Regs S} {ρ : Env S}
    (h : RelEx E F σ ρ) (hle : FrameLe F F') : RelEx E F' σ ρ := by
  intro x v hx hE
  obtain ⟨r, h1, h2⟩ := h x v hx hE
  exact ⟨r, hle.has r x h1, h2⟩

theorem RelEx.weaken {E E' : List VarId} {F : Frame} {σ : Regs S} {ρ : Env S}
    (h : RelEx E F σ ρ) (hsub : ∀ x, x ∈ E → x ∈ E') : RelEx E' F σ ρ := by
  intro x v hx hE
  exact h x v hx (fun hc => hE (hsub x hc))

theorem RelEx.addOpt {E : List VarId} {fx : Option VarId} {F : Frame} {σ : Regs S} {ρ : Env S}
    (h : RelEx E F σ ρ) : RelEx (addOpt fx E) F σ ρ := by
  apply h.weaken
  intro x hx
  cases fx <;> simp [Compile.addOpt, hx]

/-- writing a register that no committed local outside `E` lives in -/
theorem RelEx.set {E : List VarId} {F : Frame} {σ : Regs S} {ρ : Env S} (h : RelEx E F σ ρ)
    (r : Reg) (w : S.V) (hr : ∀ x, Has F r x → x ∈ E) : RelEx E F (σ.set r w) ρ := by
  intro x v hx hE
  obtain ⟨q, h1, h2⟩ := h x v hx hE
  refine ⟨q, h1, ?_⟩
  have : q ≠ r := by
    intro hq; subst hq; exact hE (hr x h1)
  rw [Regs.set_other _ _ this]; exact h2

theorem named_unique_name {F : Frame} {r : Reg} {x y : VarId} (h1 : Named F r x) (h2 : Named F r y) : x = y := by
  unfold Named at h1 h2
  rw [h1] at h2
  exact Option.some.inj h2

/-- the register the result is written to: a fixed one, or the fresh temporary -/
def ResReg (m : Mode) (F : Frame) (r : Reg) : Prop :=
  m = .fixed r ∨ (m = .any ∧ r = F.tb + F.tc)

theorem resReg_of_assignResult {m : Mode} {F F1 : Frame} {res : Out} {r : Reg}
    (h : assignResult m F = some (res, F1)) (hr : res.reg = some r) : ResReg m F r := by
  have := (assignResult_spec h).2.2.2
  cases m with
  | fixed q => simp at this; subst this; simp at hr; subst hr; exact Or.inl rfl
  | none => simp at this; subst this; simp at hr
  | any => simp at this; subst this; simp at hr; subst hr; exact Or.inr ⟨rfl, rfl⟩

/-- writing the result register keeps every committed local outside `fx :: E` intact -/
theorem RelEx.setResult {E : List VarId} {fx : Option VarId} {m : Mode} {F F' : Frame} {σ : Regs S} {ρ : Env S}
    {r : Reg} (h : RelEx E F' σ ρ) (hle : FrameLe F F') (hw : WF F') (hm : ModeFx m fx F)
    (hres : ResReg m F r) (w : S.V) : RelEx (Compile.addOpt fx E) F' (σ.set r w) ρ := by
  apply (h.addOpt (fx := fx)).set
  intro x hx
  have hlt := hx.lt_tb hw
  rw [hle.tb] at hlt
  rcases hres with rfl | ⟨rfl, rfl⟩
  · cases fx with
    | some y =>
      have : Named F' r y := hle.named _ _ hm
      have := named_unique_name hx.named this
      subst this
      simp [Compile.addOpt]
    | none =>
      have := hm.1
      omega
  · omega

theorem TempsKept.refl (m : Mode) (F : Frame) (σ : Regs S) : TempsKept m F σ σ := fun _ _ _ _ => rfl

theorem TempsKept.setResult {m : Mode} {F : Frame} {σ σ' : Regs S} {r : Reg}
    (h : TempsKept m F σ σ') (hres : ResReg m F r) (w : S.V) : TempsKept m F σ (σ'.set r w) := by
  intro t h1 h2 h3
  have : t ≠ r := by
    rcases hres with rfl | ⟨_, rfl⟩
    · intro ht; subst ht; exact h3 rfl
    · omega
  rw [Regs.set_other _ _ this]
  exact h t h1 h2 h3

/-- temporaries kept by a sub-compilation in an extended frame -/
theorem TempsKept.sub {m m1 : Mode} {F F1 : Frame} {σ σ0 σ1 : Regs S}
    (h0 : TempsKept m F σ σ0) (h : TempsKept m1 F1 σ0 σ1) (htb : F1.tb = F.tb) (htc : F.tc ≤ F1.tc)
    (hm : ∀ t, m1 = .fixed t → F.tb ≤ t → t < F.tb + F.tc → m = .fixed t) : TempsKept m F σ σ1 := by
  intro t h1 h2 h3
  rw [h t (by omega) (by omega) (fun hc => h3 (hm t hc h1 h2))]
  exact h0 t h1 h2 h3

theorem exec_seq {a b : Code} {σ σ1 : Regs S} (h : exec S a σ = some σ1) :
    exec S (.seq a b) σ = exec S b σ1 := by
  simp [exec, h]

theorem exec_instrIf_some {r : Reg} {f : Reg → Instr} {σ : Regs S} :
    exec S (instrIf (some r) f) σ = stepInstr S (f r) σ := by
  simp [instrIf, exec]

theorem exec_instrIf_none {f : Reg → Instr} {σ : Regs S} :
    exec S (instrIf Option.none f) σ = some σ := by
  simp [instrIf, exec]

end KotoVerif.Compile
