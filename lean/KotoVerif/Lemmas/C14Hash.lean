/-
C14 — keys that are equal hash equally (the property restored by fix 7e76332), hence the hashed
`IndexMap` probe and the spec-level lookup coincide for *all* keys.
-/
import KotoVerif.Model.Equal
import KotoVerif.Lemmas.C14Equal
import KotoVerif.Lemmas.C14Map

namespace KotoVerif
namespace Equal
open OMap

/-- what the hash theorem assumes about IEEE-754 doubles (evaluated for the driver's `Float` on the
pool in every run): equal doubles truncate to the same integer, `==` is a congruence for `==`, and two
equal doubles with different bit patterns (that is `0.0` / `-0.0`) are integral -/
structure HashLaws (F : FloatOps) : Prop where
  toInt_congr : ∀ a b, F.eq a b = true → F.toInt a = F.toInt b
  eq_congr : ∀ a b c, F.eq a b = true → F.eq c a = F.eq c b
  bits_or_integral : ∀ a b, F.eq a b = true → a = b ∨ F.eq (F.ofInt (F.toInt a)) a = true

theorem F0_hashLaws : HashLaws F0 where
  toInt_congr a b h := by
    have : a = b := by simpa [F0] using h
    rw [this]
  eq_congr a b c h := by
    have : a = b := by simpa [F0] using h
    rw [this]
  bits_or_integral a b h := Or.inl (by simpa [F0] using h)

theorem floatHashWord_congr {F : FloatOps} (hH : HashLaws F) (a b : UInt64) (h : F.eq a b = true) :
    floatHashWord F a = floatHashWord F b := by
  unfold floatHashWord
  rw [hH.toInt_congr a b h]
  rw [hH.eq_congr a b (F.ofInt (F.toInt b)) h]
  split
  · rfl
  · rename_i hne
    rcases hH.bits_or_integral a b h with e | e
    · exact e
    · rw [hH.toInt_congr a b h, hH.eq_congr a b _ h] at e
      exact absurd e hne

theorem numHashWord_congr {F : FloatOps} (hH : HashLaws F) (a b : Num) (h : Num.eq F a b = true) :
    numHashWord F a = numHashWord F b := by
  unfold numHashWord
  cases a with
  | i x =>
    cases b with
    | i y =>
      have : x = y := by simpa [Num.eq] using h
      rw [this]
    | f y => exact floatHashWord_congr hH _ _ (by simpa [Num.eq, Num.toF] using h)
  | f x =>
    cases b with
    | i y => exact floatHashWord_congr hH _ _ (by simpa [Num.eq, Num.toF] using h)
    | f y => exact floatHashWord_congr hH _ _ (by simpa [Num.eq, Num.toF] using h)

mutual
theorem keyEq_hashStream {F : FloatOps} (hH : HashLaws F) :
    ∀ (a b : Val), keyEq F a b = true → hashStream F a = hashStream F b
  | .null, b, h => by cases b <;> simp_all [keyEq]
  | .bool x, b, h => by cases b <;> simp_all [keyEq, hashStream]
  | .num x, b, h => by
    cases b <;> simp_all [keyEq, hashStream]
    exact numHashWord_congr hH _ _ h
  | .str x, b, h => by cases b <;> simp_all [keyEq, hashStream]
  | .range x y, b, h => by cases b <;> simp_all [keyEq, hashStream]
  | .tuple xs, b, h => by
    cases b <;> simp_all [keyEq, hashStream]
    rename_i ys
    exact keyEqList_hashStream hH xs ys h
  | .list _, b, h => by cases b <;> simp [keyEq] at h
  | .map _, b, h => by cases b <;> simp [keyEq] at h
theorem keyEqList_hashStream {F : FloatOps} (hH : HashLaws F) :
    ∀ (xs ys : List Val), keyEqList F xs ys = true → hashStreamList F xs = hashStreamList F ys
  | [], ys, h => by cases ys <;> simp_all [keyEqList]
  | x :: xs, ys, h => by
    cases ys with
    | nil => simp [keyEqList] at h
    | cons y ys =>
      simp only [keyEqList, Bool.and_eq_true] at h
      simp only [hashStreamList]
      rw [keyEq_hashStream hH x y h.1, keyEqList_hashStream hH xs ys h.2]
end

/-- equal keys hash equally -/
theorem keyEq_hashEq {F : FloatOps} (hH : HashLaws F) (a b : Val) (h : keyEq F a b = true) :
    hashEq F a b = true := by
  simp [hashEq, keyEq_hashStream hH a b h]

/-- so the hashed probe accepts exactly the equal keys -/
theorem keyEqH_eq_keyEq {F : FloatOps} (hH : HashLaws F) (a b : Val) : keyEqH F a b = keyEq F a b := by
  unfold keyEqH
  cases h : keyEq F a b
  · simp
  · simp [keyEq_hashEq hH a b h]

theorem getMatch_eq_keyEq {F : FloatOps} (hH : HashLaws F) (n : Nat) : getMatch F n = keyEq F := by
  unfold getMatch
  split
  · rfl
  · funext a b; exact keyEqH_eq_keyEq hH a b

end Equal
end KotoVerif
