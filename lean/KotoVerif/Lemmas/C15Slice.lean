/-
Helper lemmas for C15: `KStr` well-formedness and `withBounds` (checked re-slicing). Core Lean only.
-/
import KotoVerif.Model.Str
import KotoVerif.Lemmas.C15Utf8

namespace KotoVerif.Str
open KotoVerif.Utf8

/-- the invariant the code relies on ("bounds always delimit valid UTF-8") -/
structure KStr.WF (s : KStr) : Prop where
  le : s.lo ≤ s.hi
  hiLe : s.hi ≤ s.buf.length
  valid : validUtf8 s.buf = true
  blo : isBoundary s.buf s.lo = true
  bhi : isBoundary s.buf s.hi = true
  full : s.form = .full → s.lo = 0 ∧ s.hi = s.buf.length
  fullV : s.form = .fullV → s.lo = 0 ∧ s.hi = s.buf.length
  slice16 : s.form = .slice → s.hi ≤ u16max

theorem KStr.bytes_length {s : KStr} (h : s.WF) : s.bytes.length = s.len := by
  have := h.le; have := h.hiLe
  simp only [KStr.bytes, KStr.len, List.length_take, List.length_drop]
  omega

/-- the bytes of a well-formed `KStr` are well-formed UTF-8 -/
theorem KStr.WF.bytes_valid {s : KStr} (h : s.WF) : validUtf8 s.bytes = true :=
  valid_slice h.valid h.le h.blo h.bhi

theorem KStr.ofString_wf {bs : Bytes} (h : validUtf8 bs = true) : (KStr.ofString bs).WF :=
  ⟨Nat.zero_le _, Nat.le_refl _, h, isBoundary_zero _, isBoundary_length _, fun _ => ⟨rfl, rfl⟩,
    fun _ => ⟨rfl, rfl⟩, fun h => by simp [KStr.ofString] at h⟩

theorem KStr.ofStringV_wf {bs : Bytes} (h : validUtf8 bs = true) : (KStr.ofStringV bs).WF :=
  ⟨Nat.zero_le _, Nat.le_refl _, h, isBoundary_zero _, isBoundary_length _, fun _ => ⟨rfl, rfl⟩,
    fun _ => ⟨rfl, rfl⟩, fun h => by simp [KStr.ofStringV] at h⟩

theorem KStr.ofString_bytes (bs : Bytes) : (KStr.ofString bs).bytes = bs := by
  simp [KStr.ofString, KStr.bytes]

theorem KStr.ofSlice_bytes (buf : Bytes) (a b : Nat) :
    (KStr.ofSlice buf a b).bytes = (buf.drop a).take (b - a) := rfl

theorem strGet_isSome {bs : Bytes} {a b : Nat} :
    (strGet bs a b).isSome = true ↔ a ≤ b ∧ isBoundary bs a = true ∧ isBoundary bs b = true := by
  simp only [strGet]
  split <;> simp_all

/-- character boundaries of a slice, seen in the slice and in the shared buffer -/
theorem KStr.boundary_iff {s : KStr} (h : s.WF) {i : Nat} (hi : i ≤ s.len) :
    isBoundary s.bytes i = isBoundary s.buf (s.lo + i) := by
  have hle := h.le; have hhi := h.hiLe
  have hlen := KStr.bytes_length h
  simp only [KStr.len] at hi hlen
  by_cases h0 : i = 0
  · subst h0; simp [isBoundary_zero, h.blo]
  by_cases hl : i = s.hi - s.lo
  · have e : s.lo + i = s.hi := by omega
    rw [e, h.bhi, hl, ← hlen]; exact isBoundary_length _
  have hne : s.lo + i ≠ 0 := by omega
  have hlt : i < s.hi - s.lo := by omega
  simp only [isBoundary, h0, hne, if_false, KStr.bytes]
  rw [List.getElem?_take_of_lt hlt, List.getElem?_drop]
  have hlt2 : s.lo + i < s.buf.length := by omega
  rw [List.getElem?_eq_getElem hlt2]

theorem bytes_sub {buf : Bytes} {lo hi a b : Nat} (hb : b ≤ hi - lo) :
    (((buf.drop lo).take (hi - lo)).drop a).take (b - a) = (buf.drop (a + lo)).take (b + lo - (a + lo)) := by
  have e : b + lo - (a + lo) = b - a := by omega
  rw [e, List.drop_take, List.take_take, List.drop_drop]
  congr 1
  · omega
  · congr 1; omega

/-- the form-independent description of what a successful `withBounds` returns -/
theorem KStr.withBounds_bytes {s t : KStr} {a b : Nat} (hw : s.WF) (h : s.withBounds a b = some t) :
    t.buf = s.buf ∧ t.lo = a + s.lo ∧ t.hi = b + s.lo := by
  simp only [KStr.withBounds] at h
  split at h
  · rename_i hf
    have := (hw.full hf).1
    cases h
    simp [KStr.ofSlice, this]
  · rename_i hf
    have := (hw.fullV hf).1
    split at h
    · cases h; simp [KStr.ofSlice, this]
    · cases h
  · split at h
    · cases h; exact ⟨rfl, rfl, rfl⟩
    · cases h
  · split at h
    · cases h; exact ⟨rfl, rfl, rfl⟩
    · cases h

/-- **checked re-slicing is exact**: on the `Slice` / `SliceLarge` forms, for a request inside the string,
`with_bounds(a..b)` behaves exactly like `str::get(a..b)` on the string's own bytes — whatever else is
in the shared buffer. -/
theorem KStr.withBounds_eq_strGet {s : KStr} (hw : s.WF) (hf : s.form ≠ .full) {a b : Nat} (hb : b ≤ s.len) :
    (s.withBounds a b).map KStr.bytes = strGet s.bytes a b := by
  have hle := hw.le; have hhi := hw.hiLe
  simp only [KStr.len] at hb
  by_cases hab : a ≤ b
  · have ha' : a ≤ s.len := by simp only [KStr.len]; omega
    have hb' : b ≤ s.len := by simp only [KStr.len]; omega
    have ea := KStr.boundary_iff hw ha'
    have eb := KStr.boundary_iff hw hb'
    have eqb : (s.buf.drop (a + s.lo)).take (b + s.lo - (a + s.lo)) = (s.bytes.drop a).take (b - a) := by
      simp only [KStr.bytes]; exact (bytes_sub hb).symm
    have hcond : (strGet s.buf (a + s.lo) (b + s.lo)).isSome = true ↔
        (a ≤ b ∧ isBoundary s.bytes a = true ∧ isBoundary s.bytes b = true) := by
      rw [strGet_isSome, ea, eb, Nat.add_comm a s.lo, Nat.add_comm b s.lo]
      constructor
      · rintro ⟨_, h2, h3⟩; exact ⟨hab, h2, h3⟩
      · rintro ⟨_, h2, h3⟩; exact ⟨by omega, h2, h3⟩
    cases hform : s.form with
    | full => exact absurd hform hf
    | fullV =>
      have h0 := (hw.fullV hform).1
      have hcond0 : (strGet s.buf a b).isSome = true ↔
          (a ≤ b ∧ isBoundary s.bytes a = true ∧ isBoundary s.bytes b = true) := by
        have := hcond; rw [h0] at this; simpa using this
      have eqb0 : (s.buf.drop a).take (b - a) = (s.bytes.drop a).take (b - a) := by
        have := eqb; rw [h0] at this; simpa using this
      simp only [KStr.withBounds, hform]
      by_cases hc : a ≤ b ∧ isBoundary s.bytes a = true ∧ isBoundary s.bytes b = true
      · have hs : strGet s.bytes a b = some ((s.bytes.drop a).take (b - a)) := by
          simp only [strGet]; rw [if_pos hc]
        rw [if_pos (hcond0.mpr hc), hs]
        exact congrArg some eqb0
      · have : ¬((strGet s.buf a b).isSome = true) := fun h => hc (hcond0.mp h)
        rw [if_neg this]
        simp [strGet, if_neg hc]
    | slice =>
      have h16 := hw.slice16 hform
      simp only [KStr.withBounds, hform]
      by_cases hc : a ≤ b ∧ isBoundary s.bytes a = true ∧ isBoundary s.bytes b = true
      · have : (strGet s.buf (a + s.lo) (b + s.lo)).isSome = true ∧ a + s.lo ≤ u16max ∧ b + s.lo ≤ u16max :=
          ⟨hcond.mpr hc, by omega, by omega⟩
        have hs : strGet s.bytes a b = some ((s.bytes.drop a).take (b - a)) := by
          simp only [strGet]; rw [if_pos hc]
        rw [if_pos this, hs]
        exact congrArg some eqb
      · have : ¬((strGet s.buf (a + s.lo) (b + s.lo)).isSome = true ∧ a + s.lo ≤ u16max ∧ b + s.lo ≤ u16max) :=
          fun h => hc (hcond.mp h.1)
        rw [if_neg this]
        simp [strGet, if_neg hc]
    | large =>
      simp only [KStr.withBounds, hform]
      by_cases hc : a ≤ b ∧ isBoundary s.bytes a = true ∧ isBoundary s.bytes b = true
      · have hs : strGet s.bytes a b = some ((s.bytes.drop a).take (b - a)) := by
          simp only [strGet]; rw [if_pos hc]
        rw [if_pos (hcond.mpr hc), hs]
        exact congrArg some eqb
      · have : ¬((strGet s.buf (a + s.lo) (b + s.lo)).isSome = true) := fun h => hc (hcond.mp h)
        rw [if_neg this]
        simp [strGet, if_neg hc]
  · -- a > b: both sides are `none`
    have hn : strGet s.bytes a b = none := by simp [strGet, hab]
    have hn2 : (strGet s.buf (a + s.lo) (b + s.lo)).isSome = false := by
      simp only [strGet]; rw [if_neg]; · rfl
      intro h; omega
    rw [hn]
    cases hform : s.form with
    | full => exact absurd hform hf
    | fullV =>
      have h0 := (hw.fullV hform).1
      rw [h0] at hn2
      simp only [Nat.add_zero] at hn2
      simp [KStr.withBounds, hform, hn2]
    | slice => simp [KStr.withBounds, hform, hn2]
    | large => simp [KStr.withBounds, hform, hn2]

/-- the `Full` form: `with_bounds` never fails and returns the raw bytes -/
theorem KStr.withBounds_full {s : KStr} (hw : s.WF) (hf : s.form = .full) (a b : Nat) :
    (s.withBounds a b).map KStr.bytes = some ((s.bytes.drop a).take (b - a)) := by
  have h0 := (hw.full hf).1
  have h1 := (hw.full hf).2
  simp only [KStr.withBounds, hf, Option.map_some, KStr.ofSlice_bytes]
  have : s.bytes = s.buf := by simp [KStr.bytes, h0, h1]
  rw [this]

end KotoVerif.Str
