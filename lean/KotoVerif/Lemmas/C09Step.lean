/-
C09: the decision taken by one call of `get_next_token` consumes exactly a prefix of the remaining
input (bytes and line breaks), for every non-error token, and maintains the mode-stack invariant
that makes `consume_raw_string_end`'s blind `advance_line(1 + hash_count)` correct.
-/
import KotoVerif.Lemmas.C09Scanners3

namespace KotoVerif.Lexer
open KotoVerif.Gen

/-- what the top string mode requires of the remaining input -/
def ModeOk (modes : List Mode) (rest : List Ch) : Prop :=
  match modes.head? with
  | some (.rawEnd _ h) => 1 + h ≤ asciiRun rest
  | _ => True

def isRawEnd : Mode → Bool
  | .rawEnd _ _ => true
  | _ => false

/-- `RawEnd` only ever sits on top of the mode stack -/
def NoRawEndBelow (modes : List Mode) : Prop := ∀ m ∈ modes.tail, isRawEnd m = false

def NoRawEnd (modes : List Mode) : Prop := ∀ m ∈ modes, isRawEnd m = false

theorem modeOk_of_noRawEnd {modes : List Mode} (h : NoRawEnd modes) (rest : List Ch) : ModeOk modes rest := by
  unfold ModeOk
  cases modes with
  | nil => simp
  | cons m ms =>
    have := h m (by simp)
    cases m <;> simp_all [isRawEnd]

theorem noRawEndBelow_of_noRawEnd {modes : List Mode} (h : NoRawEnd modes) : NoRawEndBelow modes :=
  fun m hm => h m (List.mem_of_mem_tail hm)

theorem noRawEnd_tail {modes : List Mode} (h : NoRawEndBelow modes) : NoRawEnd (popMode modes) := by
  intro m hm
  apply h m
  simpa [popMode, List.drop_one] using hm

theorem noRawEnd_cons {m : Mode} {modes : List Mode} (hm : isRawEnd m = false) (h : NoRawEnd modes) :
    NoRawEnd (m :: modes) := by
  intro x hx
  simp at hx
  rcases hx with rfl | hx
  · exact hm
  · exact h x hx

theorem noRawEnd_of_head {modes : List Mode} (hb : NoRawEndBelow modes)
    (hh : ∀ m, modes.head? = some m → isRawEnd m = false) : NoRawEnd modes := by
  cases modes with
  | nil => intro m hm; simp at hm
  | cons m ms =>
    intro x hx
    simp at hx
    rcases hx with rfl | hx
    · exact hh _ (by simp)
    · exact hb x (by simpa using hx)

/-- The decision for a non-error token: it moves, by exactly the bytes of a prefix of the input;
the line counter advances by the line breaks of that prefix; and the new mode stack is consistent
with the input that remains. -/
def DecOk (cs : List Ch) (p : Pos) (d : Decision) : Prop :=
  ∃ n q k, d.move = .adv n q ∧ k ≤ cs.length ∧ n = byteLen (cs.take k) ∧
    q.line = p.line + nlCount (cs.take k) ∧
    ModeOk d.modes (cs.drop k) ∧ NoRawEndBelow d.modes

theorem decOk_of_consumes {cs : List Ch} {p : Pos} {d : Decision} {n : Nat} {q : Pos}
    (hm : d.move = .adv n q) (hc : Consumes true cs p (.adv n q))
    (hmodes : NoRawEnd d.modes) : DecOk cs p d := by
  obtain ⟨k, h1, h2, h3⟩ := hc
  exact ⟨n, q, k, hm, h1, h2, h3 rfl, modeOk_of_noRawEnd hmodes _, noRawEndBelow_of_noRawEnd hmodes⟩

/-! ### tokens other than Error always move -/

theorem consumeNewline_adv (p : Pos) (cs : List Ch) (h : (consumeNewline p cs).1 ≠ .error) :
    ∃ n q, (consumeNewline p cs).2 = .adv n q := by
  unfold consumeNewline at h ⊢
  cases cs with
  | nil => simp at h
  | cons c rest =>
    by_cases hc : c.cp = cpCR
    · simp only [hc, if_true] at h ⊢
      cases rest with
      | nil => simp at h
      | cons d rest' =>
        by_cases hd : d.cp = cpNL
        · simp [hd]
        · simp [hd] at h
    · simp only [hc, if_false] at h ⊢
      by_cases hd : c.cp = cpNL
      · simp [hd]
      · simp [hd] at h

theorem consumeComment_adv (p : Pos) (cs : List Ch) (h : (consumeComment p cs).1 ≠ .error) :
    ∃ n q, (consumeComment p cs).2 = .adv n q := by
  unfold consumeComment at h ⊢
  cases cs with
  | nil => simp at h
  | cons c rest =>
    simp only at h ⊢
    by_cases hm : peekIs rest cpMinus = true
    · simp only [hm, if_true] at h ⊢
      cases hl : multiCommentLoop rest 1 ⟨p.line, p.col + 1⟩ with
      | none => simp [hl] at h
      | some r => obtain ⟨b, q, f⟩ := r; simp
    · simp [hm, advLineUtf8]

theorem stringLiteralLoop_adv (q : Quote) (cs : List Ch) (p : Pos)
    (h : (stringLiteralLoop q cs 0 p).1 ≠ .error) : ∃ n q', (stringLiteralLoop q cs 0 p).2 = .adv n q' := by
  revert h
  unfold stringLiteralLoop
  apply scan_spec (stringLiteralAct q) _ (fun r => r.1 ≠ .error → ∃ n q', r.2 = .adv n q') cs 0 p
    (stringLiteralAct_ok q)
  · intro done c cs' b p' r _ _ _ hA
    rcases stringLiteralAct_stop hA with hr | hr
    · subst hr; intro _; exact ⟨_, _, rfl⟩
    · subst hr; intro h; simp at h
  · intro b p' _ _ h
    simp at h

theorem consumeFormatOptions_adv (p : Pos) (cs : List Ch) (h : (consumeFormatOptions p cs).1 ≠ .error) :
    (consumeFormatOptions p cs).1 = .stringLiteral ∧ ∃ n q, (consumeFormatOptions p cs).2 = .adv n q := by
  unfold consumeFormatOptions at h ⊢
  simp only at h ⊢
  cases hd : dropBytes (formatSkip cs) cs with
  | none => simp [hd] at h
  | some rest =>
    cases hf : findRBrace rest with
    | none => simp [hd, hf] at h
    | some e =>
      cases hp : prefixAt (e + formatSkip cs) cs with
      | none => simp [hd, hf, hp] at h
      | some consumed => simp [hf, hp]

/-! ### consume_id_or_keyword -/

/-- what `consume_id_or_keyword` returns always moves, by the bytes of a prefix of the input -/
def IdResOk (cs : List Ch) (p : Pos) : IdRes → Prop
  | .tok _ m => (∃ n q, m = .adv n q) ∧ Consumes true cs p m
  | .raw _ _ m => (∃ n q, m = .adv n q) ∧ Consumes true cs p m

theorem consumeIdOrKeyword_ok (p : Pos) (prevTok : Option Token) (c : Ch) (rest : List Ch)
    (ht : TableOk (c :: rest)) (hs : c.idStart = true) :
    IdResOk (c :: rest) p (consumeIdOrKeyword p prevTok (c :: rest)) := by
  unfold consumeIdOrKeyword
  simp only
  by_cases helse : ((takeIdChars (c :: rest)).map (·.cp) == elseCps) = true
  · simp only [helse, if_true]
    simp only [beq_iff_eq] at helse
    by_cases h7 : (startsWith elseIfCps (c :: rest) && elseIfBoundary (c :: rest)) = true
    · simp only [h7, if_true]
      have h7' : startsWith elseIfCps (c :: rest) = true := (Bool.and_eq_true _ _ ▸ h7).1
      exact ⟨⟨_, _, rfl⟩, consumes_ascii true (startsWith_asciiRun elseIfCps _ h7' (by decide))⟩
    · simp only [h7]
      exact ⟨⟨_, _, rfl⟩, consumes_ascii true (idCps_asciiRun (k := elseCps) helse (by decide))⟩
  · simp only [helse]
    cases hraw : (if ((takeIdChars (c :: rest)).map (·.cp) == [cp_r]) = true then rawStringStart rest 0 else none) with
    | some qh =>
      obtain ⟨q, h⟩ := qh
      simp only
      refine ⟨⟨_, _, rfl⟩, consumes_ascii true ?_⟩
      split at hraw
      · rename_i hr
        simp only [beq_iff_eq] at hr
        have hc : plain c.cp = true := by
          have : c.cp = cp_r := by
            simp only [takeIdChars, List.map_cons] at hr
            exact (List.cons.inj hr).1
          rw [this]; decide
        have := rawStringStart_asciiRun _ _ _ _ hraw
        rw [asciiRun_cons_plain hc]
        omega
      · simp at hraw
    | none =>
      simp only
      cases hkw : (if (prevTok == some (Token.sym Sym.Dot)) = true then none
          else lookupKeyword ((takeIdChars (c :: rest)).map (·.cp)) keywordTable) with
      | some nt =>
        obtain ⟨n, t⟩ := nt
        simp only
        refine ⟨⟨_, _, rfl⟩, ?_⟩
        split at hkw
        · simp at hkw
        · obtain ⟨k, h1, h2, h3⟩ := lookupKeyword_spec _ _ _ _ hkw
          subst h3
          exact consumes_ascii true (idCps_asciiRun h2 (keywordTable_plain _ h1))
      | none =>
        simp only
        exact ⟨⟨_, _, rfl⟩, id_consumes p ht (Or.inl hs) _⟩

/-! ### the dispatch -/

theorem decOk_ascii {cs : List Ch} {p : Pos} {d : Decision} {k : Nat}
    (hm : d.move = advLine p k) (hk : k ≤ asciiRun cs)
    (hmodes : NoRawEnd d.modes) : DecOk cs p d :=
  decOk_of_consumes (n := k) (q := ⟨p.line, p.col + k⟩) hm (consumes_ascii true hk) hmodes

theorem decideDefault_ok (p : Pos) (prevTok : Option Token) (modes : List Mode) (c : Ch) (rest : List Ch)
    (ht : TableOk (c :: rest)) (hmodes : NoRawEnd modes)
    (h : (decideDefault p prevTok modes c rest).tok ≠ .error) :
    DecOk (c :: rest) p (decideDefault p prevTok modes c rest) := by
  unfold decideDefault at h ⊢
  simp only at h ⊢
  by_cases h1 : isWhitespace c.cp = true
  · simp only [h1, if_true] at h ⊢
    exact decOk_ascii rfl (countWhile_le_asciiRun _ (fun _ h => isWhitespace_plain h) _) hmodes
  simp only [h1] at h ⊢
  by_cases h2 : (c.cp = cpCR || c.cp = cpNL) = true
  · simp only [h2, if_true] at h ⊢
    obtain ⟨n, q, hm⟩ := consumeNewline_adv p (c :: rest) h
    have := consumeNewline_consumes p (c :: rest)
    rw [hm] at this
    exact decOk_of_consumes hm this hmodes
  simp only [h2] at h ⊢
  by_cases h3 : c.cp = cpHash
  · simp only [h3, if_true] at h ⊢
    obtain ⟨n, q, hm⟩ := consumeComment_adv p (c :: rest) h
    have := consumeComment_consumes p c rest h3
    rw [hm] at this
    exact decOk_of_consumes hm this hmodes
  simp only [h3, if_false] at h ⊢
  by_cases h4 : c.cp = cpDQ
  · simp only [h4, if_true] at h ⊢
    have hc : plain c.cp = true := by rw [h4]; decide
    exact decOk_ascii (k := 1) rfl (by rw [asciiRun_cons_plain hc]; omega)
      (noRawEnd_cons rfl hmodes)
  simp only [h4, if_false] at h ⊢
  by_cases h5 : c.cp = cpSQ
  · simp only [h5, if_true] at h ⊢
    have hc : plain c.cp = true := by rw [h5]; decide
    exact decOk_ascii (k := 1) rfl (by rw [asciiRun_cons_plain hc]; omega)
      (noRawEnd_cons rfl hmodes)
  simp only [h5, if_false] at h ⊢
  by_cases h6 : isAsciiDigit c.cp = true
  · simp only [h6, if_true] at h ⊢
    exact decOk_ascii rfl (numberBytes_le _) hmodes
  simp only [h6] at h ⊢
  by_cases h7 : c.idStart = true
  · simp only [h7, if_true] at h ⊢
    have := consumeIdOrKeyword_ok p prevTok c rest ht h7
    cases hr : consumeIdOrKeyword p prevTok (c :: rest) with
    | tok t m =>
      rw [hr] at this
      obtain ⟨⟨n, q, hm⟩, hc⟩ := this
      simp only
      subst hm
      exact decOk_of_consumes rfl hc hmodes
    | raw q' h' m =>
      rw [hr] at this
      obtain ⟨⟨n, q, hm⟩, hc⟩ := this
      simp only
      subst hm
      exact decOk_of_consumes rfl hc (noRawEnd_cons rfl hmodes)
  simp only [h7] at h ⊢
  by_cases h8 : c.cp = cpUnderscore
  · simp only [h8, if_true] at h ⊢
    simp only [consumeIgnored]
    exact decOk_of_consumes rfl (id_consumes p ht (Or.inr h8) _) hmodes
  simp only [h8, if_false] at h ⊢
  cases hs : lookupSymbol (c :: rest) symbolTable with
  | none => simp [hs] at h
  | some nsy =>
    obtain ⟨n, sy⟩ := nsy
    simp only
    have hc := symbol_consumes p hs
    refine decOk_of_consumes rfl hc ?_
    show NoRawEnd (if _ then _ else _)
    split
    · exact noRawEnd_cons rfl hmodes
    · split
      · exact noRawEnd_cons rfl hmodes
      · split
        · exact noRawEnd_tail (noRawEndBelow_of_noRawEnd hmodes)
        · exact hmodes

theorem decideTok_ok (p : Pos) (prevTok : Option Token) (modes : List Mode) (c : Ch) (rest : List Ch)
    (ht : TableOk (c :: rest)) (hmo : ModeOk modes (c :: rest)) (hnb : NoRawEndBelow modes)
    (h : (decideTok p prevTok modes c rest).tok ≠ .error) :
    DecOk (c :: rest) p (decideTok p prevTok modes c rest) := by
  unfold decideTok at h ⊢
  simp only at h ⊢
  cases hmode : modes.head? with
  | none =>
    simp only [hmode] at h ⊢
    exact decideDefault_ok p prevTok modes c rest ht
      (noRawEnd_of_head hnb (fun m hm => by simp [hmode] at hm)) h
  | some m =>
    have hne : modes ≠ [] := by intro h0; simp [h0] at hmode
    cases m with
    | literal q =>
      simp only [hmode] at h ⊢
      have hall : NoRawEnd modes := noRawEnd_of_head hnb (fun m hm => by
        simp [hmode] at hm; subst hm; rfl)
      by_cases h1 : isQuote q c.cp = true
      · simp only [h1, if_true] at h ⊢
        exact decOk_ascii (k := 1) rfl (by rw [asciiRun_cons_plain (isQuote_plain h1)]; omega)
          (noRawEnd_tail hnb)
      · simp only [h1] at h ⊢
        by_cases h2 : c.cp = cpLBrace
        · simp only [h2, if_true] at h ⊢
          have hc : plain c.cp = true := by rw [h2]; decide
          exact decOk_ascii (k := 1) rfl (by rw [asciiRun_cons_plain hc]; omega)
            (noRawEnd_cons rfl hall)
        · simp only [h2, if_false] at h ⊢
          obtain ⟨n, q', hm⟩ := stringLiteralLoop_adv q (c :: rest) p h
          have := stringLiteralLoop_consumes q (c :: rest) p
          rw [hm] at this
          exact decOk_of_consumes hm this hall
    | templateExpr =>
      simp only [hmode] at h ⊢
      exact decideDefault_ok p prevTok modes c rest ht
        (noRawEnd_of_head hnb (fun m hm => by simp [hmode] at hm; subst hm; rfl)) h
    | templateInlineMap =>
      simp only [hmode] at h ⊢
      exact decideDefault_ok p prevTok modes c rest ht
        (noRawEnd_of_head hnb (fun m hm => by simp [hmode] at hm; subst hm; rfl)) h
    | templateFormat =>
      simp only [hmode] at h ⊢
      obtain ⟨h1, n, q, hm⟩ := consumeFormatOptions_adv p (c :: rest) h
      obtain ⟨k, hk1, hk2, hk3⟩ := consumeFormatOptions_spec p (c :: rest) n q hm
      have hpop : NoRawEnd (popMode modes) := noRawEnd_tail hnb
      refine ⟨n, q, k, hm, hk1, hk2, hk3, ?_, ?_⟩
      · simp only [h1, if_true]; exact modeOk_of_noRawEnd hpop _
      · simp only [h1, if_true]; exact noRawEndBelow_of_noRawEnd hpop
    | rawStart q hsh =>
      simp only [hmode] at h ⊢
      have hspec := rawContentsLoop_spec q hsh (c :: rest) p
      cases hr : rawContentsLoop q hsh (c :: rest) 0 p with
      | none => simp [hr] at h
      | some bp =>
        obtain ⟨bytes, pos⟩ := bp
        rw [hr] at hspec
        obtain ⟨k, hk1, hk2, hk3, hk4⟩ := hspec
        simp only
        refine ⟨bytes, pos, k, rfl, hk1, hk2, hk3, ?_, ?_⟩
        · simp only [ModeOk, List.head?_cons]; exact hk4
        · intro m hm
          exact noRawEnd_tail hnb m (by simpa using hm)
    | rawEnd q hsh =>
      simp only [hmode] at h ⊢
      have hrun : 1 + hsh ≤ asciiRun (c :: rest) := by
        simpa [ModeOk, hmode] using hmo
      exact decOk_ascii rfl hrun (noRawEnd_tail hnb)

end KotoVerif.Lexer
