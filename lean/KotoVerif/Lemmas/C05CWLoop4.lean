/-
C05 `compile_wf`, statement layer, part 4: the listing of a structured loop block (conditions, `if`,
`while` / `until` with their `JumpBack`) is covered and target-closed — by induction over `LCode`.
-/
import KotoVerif.Lemmas.C05CWLoop3

set_option linter.unusedSimpArgs false

namespace KotoVerif.Compile
open KotoVerif.Gen KotoVerif.Bytecode

theorem succ_jc (pc r : Nat) (neg : Bool) (off : Nat) :
    succPcs (JC pc r neg off) = some [pc + 4, pc + 4 + off] ∧ isTerminal (JC pc r neg off).ins.op = false
    ∧ (JC pc r neg off).pc = pc := by
  cases neg
  · simp [JC, JIF, succ_jif, isTerminal]
  · simp [JC, JIT, succ_jit, isTerminal]

theorem fwd_jc (pc r : Nat) (neg : Bool) (off : Nat) (h : 0 < off) : pc + 4 + off ∈ fwdTgts (JC pc r neg off) := by
  cases neg
  · simpa [JC] using fwd_jif pc r off h
  · simpa [JC] using fwd_jit pc r off h

theorem succ_jb (pc off : Nat) (h : off ≤ pc + 3) :
    succPcs (JB pc off) = some [pc + 3 - off] ∧ isTerminal (JB pc off).ins.op = true := by
  simp [JB, succPcs, argAt, Ann.next, isTerminal, h]

theorem block_okL (cidx : Int → Nat) : ∀ (c : LCode), Simple c → ∀ (pc : Nat) (cOk : Bool) (L : List Nat),
    (cOk = true ∨ pc ∈ L) →
    CovU cOk L (SL cidx c pc) ∧ ExitOk cOk L (SL cidx c pc) (pc + szL cidx c)
      ∧ LandsB [] (SL cidx c pc) (pc + szL cidx c) := by
  intro c
  induction c with
  | base c =>
    intro _ pc cOk L h
    obtain ⟨hS, hsz⟩ := SL_base cidx c pc
    obtain ⟨h1, h2, h3⟩ := block_ok cidx c pc cOk L h
    rw [hS, hsz]
    exact ⟨h1, h2, LandsB_of_Lands _ _ _ h3⟩
  | seq a b iha ihb =>
    intro hs pc cOk L h
    obtain ⟨hS, hsz⟩ := SL_seq cidx a b pc hs
    obtain ⟨ca, ea, la⟩ := iha hs.1 pc cOk L h
    obtain ⟨cb, eb, lb⟩ := ihb hs.2 (pc + szL cidx a) _ _ ea
    rw [hS, hsz]
    refine ⟨CovU_append _ _ _ _ ca cb, ?_, ?_⟩
    · unfold ExitOk at *
      rw [covAfter_append, ← Nat.add_assoc]
      exact eb
    · rw [← Nat.add_assoc]
      refine LandsB_append _ _ (pc + szL cidx a) _ [] la (LandsB_mono _ _ [] _ (by simp) lb) ?_
      rcases SL_start cidx b (pc + szL cidx a) with ⟨h1, h2⟩ | h1
      · exact .inl ⟨h1, by omega⟩
      · exact .inr h1
  | ifElse r t w e iht ihe =>
    intro hs pc cOk L h
    cases w with
    | false =>
      obtain ⟨hS, hsz⟩ := SL_ite_false cidx r t e pc hs
      have hterm : isTerminal (JIF pc r (szL cidx t)).ins.op = false := by simp [JIF, isTerminal]
      obtain ⟨ct, et, lt⟩ := iht hs.1 (pc + 4) true (fwdTgts (JIF pc r (szL cidx t)) ++ L) (.inl rfl)
      obtain ⟨ce, ee, le⟩ := ihe hs.2 (pc + 4 + szL cidx t) _ _ et
      rw [hS, hsz]
      have hadd : pc + (4 + szL cidx t + szL cidx e) = pc + 4 + szL cidx t + szL cidx e := by omega
      rw [hadd]
      refine ⟨⟨h, by simpa [hterm] using CovU_append _ _ _ _ ct ce⟩, ?_, ?_⟩
      · unfold ExitOk at *
        simp only [covAfter, hterm, Bool.not_false]
        rw [covAfter_append]
        exact ee
      · have hstartE : (SL cidx e (pc + 4 + szL cidx t) = [] ∧ pc + 4 + szL cidx t = pc + 4 + szL cidx t + szL cidx e)
            ∨ ∃ b rest, SL cidx e (pc + 4 + szL cidx t) = b :: rest ∧ b.pc = pc + 4 + szL cidx t := by
          rcases SL_start cidx e (pc + 4 + szL cidx t) with ⟨h1, h2⟩ | h1
          · exact .inl ⟨h1, by omega⟩
          · exact .inr h1
        refine ⟨⟨_, succ_jif pc 4 r (szL cidx t) (some Z), ?_⟩,
          LandsB_append _ _ _ _ _ (LandsB_mono _ _ [] _ (by simp) lt) (LandsB_mono _ _ [] _ (by simp) le) hstartE⟩
        intro p hp
        simp at hp
        have hE : ∀ q, q = pc + 4 + szL cidx t →
            (∃ b ∈ SL cidx t (pc + 4) ++ SL cidx e (pc + 4 + szL cidx t), b.pc = q) ∨ q = pc + 4 + szL cidx t + szL cidx e := by
          intro q hq
          rcases hstartE with ⟨_, h2⟩ | ⟨b, rest, h1, h2⟩
          · exact .inr (by omega)
          · exact .inl ⟨b, by simp [h1], by omega⟩
        left
        rcases hp with rfl | rfl
        · refine ⟨by simp [JIF], ?_⟩
          rcases SL_start cidx t (pc + 4) with ⟨h1, h2⟩ | ⟨b, rest, h1, h2⟩
          · exact hE _ (by omega)
          · exact .inl ⟨b, by simp [h1], h2⟩
        · exact ⟨by simp [JIF]; omega, hE _ rfl⟩
    | true =>
      obtain ⟨hS, hsz⟩ := SL_ite_true cidx r t e pc hs
      have hterm : isTerminal (JIF pc r (szL cidx t + 3)).ins.op = false := by simp [JIF, isTerminal]
      have htermJ : isTerminal (JMP (pc + 4 + szL cidx t) (szL cidx e)).ins.op = true := by simp [JMP, isTerminal]
      obtain ⟨ct, et, lt⟩ := iht hs.1 (pc + 4) true (fwdTgts (JIF pc r (szL cidx t + 3)) ++ L) (.inl rfl)
      have hpcE : pc + 4 + szL cidx t + 3 ∈
          fwdTgts (JMP (pc + 4 + szL cidx t) (szL cidx e)) ++
            (covAfter true (fwdTgts (JIF pc r (szL cidx t + 3)) ++ L) (SL cidx t (pc + 4))).2 := by
        simp only [List.mem_append]
        right
        apply covAfter_mono
        simp only [List.mem_append]
        left
        have := fwd_jif pc r (szL cidx t + 3) (by omega)
        have e1 : pc + 4 + (szL cidx t + 3) = pc + 4 + szL cidx t + 3 := by omega
        rw [e1] at this
        exact this
      obtain ⟨ce, ee, le⟩ := ihe hs.2 (pc + 4 + szL cidx t + 3) false _ (.inr hpcE)
      rw [hS, hsz]
      have hadd : pc + (4 + szL cidx t + 3 + szL cidx e) = pc + 4 + szL cidx t + 3 + szL cidx e := by omega
      rw [hadd]
      have hcovJ : CovU (covAfter true (fwdTgts (JIF pc r (szL cidx t + 3)) ++ L) (SL cidx t (pc + 4))).1
          (covAfter true (fwdTgts (JIF pc r (szL cidx t + 3)) ++ L) (SL cidx t (pc + 4))).2
          (JMP (pc + 4 + szL cidx t) (szL cidx e) :: SL cidx e (pc + 4 + szL cidx t + 3)) := by
        refine ⟨et, ?_⟩
        simpa [htermJ] using ce
      refine ⟨⟨h, by simpa [hterm] using CovU_append _ _ _ _ ct hcovJ⟩, ?_, ?_⟩
      · unfold ExitOk at *
        simp only [covAfter, hterm, Bool.not_false]
        rw [covAfter_append]
        simp only [covAfter, htermJ, Bool.not_true]
        exact ee
      · have hstartE : (SL cidx e (pc + 4 + szL cidx t + 3) = [] ∧ pc + 4 + szL cidx t + 3 = pc + 4 + szL cidx t + 3 + szL cidx e)
            ∨ ∃ b rest, SL cidx e (pc + 4 + szL cidx t + 3) = b :: rest ∧ b.pc = pc + 4 + szL cidx t + 3 := by
          rcases SL_start cidx e (pc + 4 + szL cidx t + 3) with ⟨h1, h2⟩ | h1
          · exact .inl ⟨h1, by omega⟩
          · exact .inr h1
        have hLJ : ∀ seen, LandsB seen (JMP (pc + 4 + szL cidx t) (szL cidx e) :: SL cidx e (pc + 4 + szL cidx t + 3))
            (pc + 4 + szL cidx t + 3 + szL cidx e) := by
          intro seen
          refine ⟨⟨_, succ_jump (pc + 4 + szL cidx t) 3 (szL cidx e) (some Z), ?_⟩, LandsB_mono _ _ [] _ (by simp) le⟩
          intro p hp
          simp at hp
          subst hp
          exact .inl ⟨by simp [JMP]; omega, .inr rfl⟩
        refine ⟨⟨_, succ_jif pc 4 r (szL cidx t + 3) (some Z), ?_⟩,
          LandsB_append _ _ (pc + 4 + szL cidx t) _ _ (LandsB_mono _ _ [] _ (by simp) lt) (hLJ _) (.inr ⟨_, _, rfl, rfl⟩)⟩
        intro p hp
        simp at hp
        left
        rcases hp with rfl | rfl
        · refine ⟨by simp [JIF], ?_⟩
          rcases SL_start cidx t (pc + 4) with ⟨h1, h2⟩ | ⟨b, rest, h1, h2⟩
          · exact .inl ⟨JMP (pc + 4 + szL cidx t) (szL cidx e), by simp, by simp [JMP]; omega⟩
          · exact .inl ⟨b, by simp [h1], h2⟩
        · refine ⟨by simp [JIF]; omega, ?_⟩
          rcases hstartE with ⟨_, h2⟩ | ⟨b, rest, h1, h2⟩
          · exact .inr (by omega)
          · exact .inl ⟨b, by simp [h1], by omega⟩
  | loop cond body ih =>
    intro hs pc cOk L h
    cases cond with
    | none => exact absurd hs (by simp [Simple])
    | some hd =>
      obtain ⟨cc, r, neg⟩ := hd
      obtain ⟨hS, hsz⟩ := SL_loop cidx cc r neg body pc hs
      -- names
      obtain ⟨c1, e1, l1⟩ := block_ok cidx cc pc cOk L h
      obtain ⟨hsJ, htJ, hpJ⟩ := succ_jc (pc + sz cidx cc) r neg (szL cidx body + 3)
      have hX := fwd_jc (pc + sz cidx cc) r neg (szL cidx body + 3) (by omega)
      obtain ⟨cb, eb, lb⟩ := ih hs (pc + sz cidx cc + 4) true
        (fwdTgts (JC (pc + sz cidx cc) r neg (szL cidx body + 3)) ++ (covAfter cOk L (S cidx cc pc)).2) (.inl rfl)
      obtain ⟨hsB, htB⟩ := succ_jb (pc + sz cidx cc + 4 + szL cidx body) (sz cidx cc + 4 + szL cidx body + 3) (by omega)
      rw [hS, hsz]
      have hadd : pc + (sz cidx cc + 4 + szL cidx body + 3) = pc + sz cidx cc + 4 + szL cidx body + 3 := by omega
      rw [hadd]
      have hcovB : CovU true
          (fwdTgts (JC (pc + sz cidx cc) r neg (szL cidx body + 3)) ++ (covAfter cOk L (S cidx cc pc)).2)
          (SL cidx body (pc + sz cidx cc + 4) ++
            [JB (pc + sz cidx cc + 4 + szL cidx body) (sz cidx cc + 4 + szL cidx body + 3)]) :=
        CovU_append _ _ _ _ cb ⟨eb, trivial⟩
      have hcovJ : CovU (covAfter cOk L (S cidx cc pc)).1 (covAfter cOk L (S cidx cc pc)).2
          (JC (pc + sz cidx cc) r neg (szL cidx body + 3) ::
            (SL cidx body (pc + sz cidx cc + 4) ++
              [JB (pc + sz cidx cc + 4 + szL cidx body) (sz cidx cc + 4 + szL cidx body + 3)])) := by
        refine ⟨by rw [hpJ]; exact e1, ?_⟩
        simpa [htJ] using hcovB
      refine ⟨CovU_append _ _ _ _ c1 hcovJ, ?_, ?_⟩
      · unfold ExitOk
        rw [covAfter_append]
        simp only [covAfter, htJ, Bool.not_false]
        rw [covAfter_append]
        simp only [covAfter, htB, Bool.not_true]
        right
        simp only [List.mem_append]
        right
        apply covAfter_mono
        simp only [List.mem_append]
        left
        have e2 : pc + sz cidx cc + 4 + (szL cidx body + 3) = pc + sz cidx cc + 4 + szL cidx body + 3 := by omega
        rw [e2] at hX
        exact hX
      · -- landing
        have hstartB : ∀ q, q = pc + sz cidx cc + 4 →
            ∃ b ∈ SL cidx body (pc + sz cidx cc + 4) ++
              [JB (pc + sz cidx cc + 4 + szL cidx body) (sz cidx cc + 4 + szL cidx body + 3)], b.pc = q := by
          intro q hq
          rcases SL_start cidx body (pc + sz cidx cc + 4) with ⟨h1, h2⟩ | ⟨b, rest, h1, h2⟩
          · exact ⟨JB (pc + sz cidx cc + 4 + szL cidx body) (sz cidx cc + 4 + szL cidx body + 3), by simp, by simp [JB]; omega⟩
          · exact ⟨b, by simp [h1], by omega⟩
        have hback : ∀ seen', ∃ b ∈ JB (pc + sz cidx cc + 4 + szL cidx body) (sz cidx cc + 4 + szL cidx body + 3) ::
              ((SL cidx body (pc + sz cidx cc + 4)).reverse ++
                (JC (pc + sz cidx cc) r neg (szL cidx body + 3) :: ((S cidx cc pc).reverse ++ seen'))), b.pc = pc := by
          intro seen'
          rcases S_start cidx cc pc with ⟨h1, h2⟩ | ⟨b, rest, h1, h2⟩
          · exact ⟨JC (pc + sz cidx cc) r neg (szL cidx body + 3), by simp, by rw [hpJ]; omega⟩
          · exact ⟨b, by simp [h1], h2⟩
        have hLB : LandsB ((S cidx cc pc).reverse ++ [])
            (JC (pc + sz cidx cc) r neg (szL cidx body + 3) ::
              (SL cidx body (pc + sz cidx cc + 4) ++
                [JB (pc + sz cidx cc + 4 + szL cidx body) (sz cidx cc + 4 + szL cidx body + 3)]))
            (pc + sz cidx cc + 4 + szL cidx body + 3) := by
          refine ⟨⟨_, hsJ, ?_⟩, ?_⟩
          · intro p hp
            simp at hp
            left
            rcases hp with rfl | rfl
            · exact ⟨by rw [hpJ]; omega, .inl (hstartB _ rfl)⟩
            · exact ⟨by rw [hpJ]; omega, .inr (by omega)⟩
          · refine LandsB_append _ _ (pc + sz cidx cc + 4 + szL cidx body) _ _
              (LandsB_mono _ _ [] _ (by simp) lb) ?_ (.inr ⟨_, _, rfl, by simp [JB]⟩)
            refine ⟨⟨_, hsB, ?_⟩, trivial⟩
            intro p hp
            simp at hp
            subst hp
            right
            refine ⟨by simp only [JB]; omega, ?_⟩
            obtain ⟨b, hb, hbp⟩ := hback []
            exact ⟨b, hb, by omega⟩
        exact LandsB_append _ _ (pc + sz cidx cc) _ [] (LandsB_of_Lands _ _ _ l1) hLB (.inr ⟨_, _, rfl, hpJ⟩)
  | brk => intro hs; exact absurd hs (by simp [Simple])
  | cont => intro hs; exact absurd hs (by simp [Simple])

end KotoVerif.Compile
