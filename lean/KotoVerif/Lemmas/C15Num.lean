/-
Helper lemmas for C15: rendering an integer and parsing it back (`'{n}'.to_number() = n`).
Core Lean only.
-/
import KotoVerif.Model.Str
import KotoVerif.Model.FmtSpec

namespace KotoVerif.Str
open KotoVerif.Utf8 KotoVerif.FmtSpec

theorem digitVal_digitChar {base d : Nat} (hb : base ≤ 36) (hd : d < base) :
    digitVal base (digitChar d false) = some d := by
  simp only [digitChar, digitVal]
  by_cases h10 : d < 10
  · simp only [h10, if_true]
    have h1 : 48 ≤ 48 + d ∧ 48 + d ≤ 57 := by omega
    simp [h1, hd]
  · simp only [h10, if_false, Bool.false_eq_true]
    have h1 : ¬(48 ≤ 87 + d ∧ 87 + d ≤ 57) := by omega
    have h2 : 97 ≤ 87 + d ∧ 87 + d ≤ 122 := by omega
    have h3 : 87 + d - 97 + 10 = d := by omega
    simp [h1, h2, h3, hd]

theorem digitsVal_append (base : Nat) : ∀ (xs : Bytes) (d acc : Nat),
    digitsVal base (xs ++ [d]) acc = (digitsVal base xs acc).bind (fun a => (digitVal base d).map (fun v => a * base + v))
  | [], d, acc => by
    simp only [List.nil_append, digitsVal]
    cases digitVal base d <;> simp [digitsVal]
  | x :: xs, d, acc => by
    simp only [List.cons_append, digitsVal]
    cases digitVal base x with
    | none => simp
    | some v => simp only; exact digitsVal_append base xs d _

/-- parsing the digits of `n` gives `n` (enough fuel: `n < base ^ fuel`) -/
theorem digitsVal_natDigits {base : Nat} (hb2 : 2 ≤ base) (hb : base ≤ 36) :
    ∀ (fuel n : Nat), n < base ^ fuel → digitsVal base (natDigits base false fuel n) 0 = some n
  | 0, n, h => by simp at h; subst h; simp [natDigits, digitsVal]
  | fuel + 1, n, h => by
    simp only [natDigits]
    split
    · rename_i hlt
      simp [digitsVal, digitVal_digitChar hb hlt]
    · rename_i hge
      have hdiv : n / base < base ^ fuel := by
        rw [Nat.div_lt_iff_lt_mul (by omega)]
        rw [Nat.pow_succ] at h; exact h
      rw [digitsVal_append, digitsVal_natDigits hb2 hb fuel _ hdiv]
      have hmod : n % base < base := Nat.mod_lt _ (by omega)
      simp only [Option.bind_some, digitVal_digitChar hb hmod, Option.map_some, Nat.zero_mul, Nat.zero_add]
      congr 1
      exact Nat.div_add_mod' n base

theorem natDigits_ne_nil (base : Nat) (upper : Bool) (fuel n : Nat) : natDigits base upper (fuel + 1) n ≠ [] := by
  simp only [natDigits]
  split <;> simp

/-- every byte of a decimal rendering is a digit -/
theorem natDigits10_digits : ∀ (fuel n : Nat), ∀ b ∈ natDigits 10 false fuel n, 48 ≤ b ∧ b ≤ 57
  | 0, _, b, h => by simp [natDigits] at h
  | fuel + 1, n, b, h => by
    simp only [natDigits] at h
    split at h
    · simp only [List.mem_singleton] at h; subst h
      simp only [digitChar]; split <;> omega
    · rcases List.mem_append.mp h with h | h
      · exact natDigits10_digits fuel _ b h
      · simp only [List.mem_singleton] at h; subst h
        have := Nat.mod_lt n (by omega : 0 < 10)
        simp only [digitChar]; split <;> omega

theorem pow10_70_big : (9223372036854775808 : Nat) < 10 ^ 70 := by decide

/-- the decimal text of a non-negative `i64` parses back to it -/
theorem fromStrRadix_showDec {n : Nat} (h : (n : Int) ≤ i64max) :
    fromStrRadix 10 (showDec n) = some (n : Int) := by
  have hlt : n < 10 ^ 70 := by
    have : n ≤ 9223372036854775807 := by simp only [i64max] at h; omega
    have := pow10_70_big; omega
  have hd := digitsVal_natDigits (base := 10) (by omega) (by omega) 70 n hlt
  have hdig := natDigits10_digits 70 n
  have hne := natDigits_ne_nil 10 false 69 n
  simp only [showDec, showNat] at *
  cases hs : natDigits 10 false 70 n with
  | nil => exact absurd hs hne
  | cons c r =>
    rw [hs] at hd hdig
    have hc := hdig c (by simp)
    have h43 : c ≠ 43 := by omega
    have h45 : c ≠ 45 := by omega
    cases r with
    | nil =>
      simp only [fromStrRadix]
      split
      · rename_i heq; cases heq
      · rename_i heq; simp only [List.cons.injEq, and_true] at heq; omega
      · rename_i heq; simp only [List.cons.injEq, and_true] at heq; omega
      · rename_i heq; simp only [List.cons.injEq] at heq; omega
      · rename_i heq; simp only [List.cons.injEq] at heq; omega
      · rw [hd]; simp [h]
    | cons c2 r2 =>
      simp only [fromStrRadix]
      split
      · rename_i heq; cases heq
      · rename_i heq; cases heq
      · rename_i heq; cases heq
      · rename_i heq; simp only [List.cons.injEq] at heq; omega
      · rename_i heq; simp only [List.cons.injEq] at heq; omega
      · rw [hd]; simp [h]

/-- **rendering an `i64` in decimal and parsing it with `to_number` gives the same integer** -/
theorem toNumberB_showInt {n : Int} (hlo : i64min ≤ n) (hhi : n ≤ i64max) :
    toNumberB (showInt n) = .int n := by
  by_cases hneg : n < 0
  · -- "-" ++ digits
    have hna : (n.natAbs : Int) = -n := by omega
    have hlt : n.natAbs < 10 ^ 70 := by
      have : n.natAbs ≤ 9223372036854775808 := by simp only [i64min] at hlo; omega
      have := pow10_70_big; omega
    have hd := digitsVal_natDigits (base := 10) (by omega) (by omega) 70 n.natAbs hlt
    have hne := natDigits_ne_nil 10 false 69 n.natAbs
    simp only [showInt, hneg, if_true, showDec, showNat]
    cases hs : natDigits 10 false 70 n.natAbs with
    | nil => exact absurd hs hne
    | cons c r =>
      rw [hs] at hd
      have hrp : radixPrefix (45 :: c :: r) = none := rfl
      simp only [toNumberB, hrp, fromStrRadix, hd, Option.bind_some]
      have : -(n.natAbs : Int) ≥ i64min := by omega
      simp only [this, if_true]
      congr 1; omega
  · have hn : ((n.toNat : Nat) : Int) = n := by omega
    have hfs := fromStrRadix_showDec (n := n.toNat) (by omega)
    have hdig := natDigits10_digits 70 n.toNat
    simp only [showInt, hneg, if_false]
    have hrp : radixPrefix (showDec n.toNat) = none := by
      simp only [showDec, showNat] at hdig ⊢
      unfold radixPrefix
      split
      · rename_i r heq
        have := hdig 120 (by rw [heq]; simp); omega
      · rename_i r heq
        have := hdig 111 (by rw [heq]; simp); omega
      · rename_i r heq
        have := hdig 98 (by rw [heq]; simp); omega
      · rfl
    simp only [toNumberB, hrp, hfs, hn]

end KotoVerif.Str

namespace KotoVerif.Str
open KotoVerif.Utf8 KotoVerif.FmtSpec

/-- leading zeroes do not change the value -/
theorem digitsVal_zeros (k : Nat) (ds : Bytes) : digitsVal 10 (List.replicate k 48 ++ ds) 0 = digitsVal 10 ds 0 := by
  induction k with
  | zero => rfl
  | succ k ih =>
    simp only [List.replicate_succ, List.cons_append, digitsVal]
    have : digitVal 10 48 = some 0 := by decide
    rw [this]
    simpa using ih

/-- a non-empty all-digit text parses (radix 10) to the value of its digits -/
theorem fromStrRadix_digits {ds : Bytes} (hne : ds ≠ []) (hd : ∀ b ∈ ds, 48 ≤ b ∧ b ≤ 57) {m : Nat}
    (hv : digitsVal 10 ds 0 = some m) (hm : (m : Int) ≤ i64max) : fromStrRadix 10 ds = some (m : Int) := by
  cases ds with
  | nil => exact absurd rfl hne
  | cons c r =>
    have hc := hd c (by simp)
    cases r with
    | nil =>
      simp only [fromStrRadix]
      split
      · rename_i heq; cases heq
      · rename_i heq; simp only [List.cons.injEq, and_true] at heq; omega
      · rename_i heq; simp only [List.cons.injEq, and_true] at heq; omega
      · rename_i heq; simp only [List.cons.injEq] at heq; omega
      · rename_i heq; simp only [List.cons.injEq] at heq; omega
      · rw [hv]; simp [hm]
    | cons c2 r2 =>
      simp only [fromStrRadix]
      split
      · rename_i heq; cases heq
      · rename_i heq; cases heq
      · rename_i heq; cases heq
      · rename_i heq; simp only [List.cons.injEq] at heq; omega
      · rename_i heq; simp only [List.cons.injEq] at heq; omega
      · rw [hv]; simp [hm]

theorem radixPrefix_digits {ds : Bytes} (hd : ∀ b ∈ ds, 48 ≤ b ∧ b ≤ 57) : radixPrefix ds = none := by
  unfold radixPrefix
  split
  · have := hd 120 (by simp); omega
  · have := hd 111 (by simp); omega
  · have := hd 98 (by simp); omega
  · rfl

/-- a number padded by the `0` flag (zeroes directly in front of its digits) is the fill followed by the text -/
theorem pad_zero_form (g : Bytes → Nat) (r : Bytes) (mw : Option Nat) (c : Bool) :
    ∃ k, pad g true r (some { minWidth := mw, fill := some [48] }) c = List.replicate k 48 ++ r := by
  simp only [pad, Option.getD_some]
  split
  · refine ⟨mw.getD 0 - (Utf8.graphemes g r).length, ?_⟩
    simp [fillCounts, rep_]
  · exact ⟨0, rfl⟩

/-- **with the sign-aware `0` flag a zero-padded integer is still that integer**: `'{n:0w}'.to_number() = n` for
every `i64` and every width, whatever the segmentation oracle -/
theorem toNumberB_zero_flag (g : Bytes → Nat) {n : Int} (hlo : i64min ≤ n) (hhi : n ≤ i64max) (w : Nat) (c : Bool) :
    toNumberB (applyFmtSign g (.int n) (some { minWidth := some w, fill := some [48] }) c) = .int n := by
  have hrender : render g (.int n) (some { minWidth := some w, fill := some [48] }) = showInt n := by
    simp [render]
  by_cases hneg : n < 0
  · have hlt : n.natAbs < 10 ^ 70 := by
      have : n.natAbs ≤ 9223372036854775808 := by simp only [i64min] at hlo; omega
      have := pow10_70_big; omega
    have hd := digitsVal_natDigits (base := 10) (by omega) (by omega) 70 n.natAbs hlt
    have hsi : showInt n = 45 :: showDec n.natAbs := by simp [showInt, hneg]
    obtain ⟨k, hk⟩ := pad_zero_form g (showDec n.natAbs) (some (w - 1)) c
    have happ : applyFmtSign g (.int n) (some { minWidth := some w, fill := some [48] }) c
        = 45 :: (List.replicate k 48 ++ showDec n.natAbs) := by
      simp only [applyFmtSign, hrender, hsi, isNumber, List.head?_cons, List.drop_succ_cons, List.drop_zero,
        Option.map_some, true_and, and_self, if_true]
      rw [← hk]
    rw [happ]
    have hne := natDigits_ne_nil 10 false 69 n.natAbs
    have hdv : digitsVal 10 (List.replicate k 48 ++ showDec n.natAbs) 0 = some n.natAbs := by
      rw [digitsVal_zeros]; exact hd
    cases hds : List.replicate k 48 ++ showDec n.natAbs with
    | nil =>
      have : showDec n.natAbs = [] := (List.append_eq_nil_iff.mp hds).2
      exact absurd this hne
    | cons c0 r0 =>
      rw [hds] at hdv
      have hrp : radixPrefix (45 :: c0 :: r0) = none := rfl
      simp only [toNumberB, hrp, fromStrRadix, hdv, Option.bind_some]
      have : -(n.natAbs : Int) ≥ i64min := by omega
      simp only [this, if_true]
      congr 1; omega
  · have hn : ((n.toNat : Nat) : Int) = n := by omega
    have hsi : showInt n = showDec n.toNat := by simp [showInt, hneg]
    have hdig := natDigits10_digits 70 n.toNat
    have hne := natDigits_ne_nil 10 false 69 n.toNat
    have hlt : n.toNat < 10 ^ 70 := by
      have : n.toNat ≤ 9223372036854775807 := by simp only [i64max] at hhi; omega
      have := pow10_70_big; omega
    have hd := digitsVal_natDigits (base := 10) (by omega) (by omega) 70 n.toNat hlt
    obtain ⟨k, hk⟩ := pad_zero_form g (showDec n.toNat) (some w) c
    have hhead : (showDec n.toNat).head? ≠ some 45 := by
      intro h
      cases hs : showDec n.toNat with
      | nil => rw [hs] at h; cases h
      | cons c0 r0 =>
        rw [hs] at h
        simp only [List.head?_cons, Option.some.injEq] at h
        have := hdig c0 (by simp only [showDec, showNat] at hs; rw [hs]; simp)
        omega
    have happ : applyFmtSign g (.int n) (some { minWidth := some w, fill := some [48] }) c
        = List.replicate k 48 ++ showDec n.toNat := by
      simp only [applyFmtSign, hrender, hsi, isNumber, hhead, and_false, if_false]
      exact hk
    rw [happ]
    have hall : ∀ b ∈ List.replicate k 48 ++ showDec n.toNat, 48 ≤ b ∧ b ≤ 57 := by
      intro b hb
      rcases List.mem_append.mp hb with hb | hb
      · have := (List.mem_replicate.mp hb).2; omega
      · exact hdig b hb
    have hnn : List.replicate k 48 ++ showDec n.toNat ≠ [] := by
      intro h; exact hne (List.append_eq_nil_iff.mp h).2
    have hdv : digitsVal 10 (List.replicate k 48 ++ showDec n.toNat) 0 = some n.toNat := by
      rw [digitsVal_zeros]; exact hd
    have hfs := fromStrRadix_digits hnn hall hdv (by omega)
    simp only [toNumberB, radixPrefix_digits hall, hfs, hn]

end KotoVerif.Str
