/-
Helper lemmas for C15: `split` with the repaired `Split` iterator (empty pattern included): termination
(the fuel is irrelevant), piece counts, join laws, and the code-level loop computes the byte-level
definition for every pattern. Core Lean only.
-/
import KotoVerif.Lemmas.C15Refine

namespace KotoVerif.Str
open KotoVerif.Utf8

/-! ### the one-character oracle -/

theorem charsOf_cons_ne_nil (b : Nat) (bs : Bytes) : charsOf (b :: bs) ≠ [] := by
  simp only [charsOf]
  split
  · simp
  · simp
  · split <;> simp

theorem progress_gFirstChar : Progress gFirstChar := by
  intro s hs
  cases s with
  | nil => exact absurd rfl hs
  | cons b bs =>
    cases hc : charsOf (b :: bs) with
    | nil => exact absurd hc (charsOf_cons_ne_nil b bs)
    | cons g gs =>
      have hne := (charsOf_ok (b :: bs)).2 g (by rw [hc]; simp)
      have hfl := charsOf_flatten (b :: bs)
      rw [hc] at hfl
      have hl := congrArg List.length hfl
      simp only [List.flatten_cons, List.length_append] at hl
      simp only [gFirstChar, hc, List.head?_cons, Option.map_some, Option.getD_some]
      exact ⟨List.length_pos_iff.mpr hne, by omega⟩

theorem cuts_gFirstChar : CutsAtBoundaries gFirstChar := by
  intro s hs
  cases hc : charsOf s with
  | nil =>
    simp only [gFirstChar, hc]; exact isBoundary_zero s
  | cons g gs =>
    have := boundary_between_groups (s := s) (xs := [g]) (ys := gs) (by simpa using hc)
    simpa [gFirstChar, hc] using this

/-! ### non-empty pattern -/

/-- more fuel than bytes changes nothing: the iteration ends by itself -/
theorem splitNE_fuel_irrelevant {pat : Bytes} (hp : pat ≠ []) : ∀ (fuel fuel' : Nat) (rest : Bytes),
    rest.length < fuel → rest.length < fuel' → splitNE pat fuel rest = splitNE pat fuel' rest
  | 0, _, _, h, _ => by omega
  | _, 0, _, _, h => by omega
  | fuel + 1, fuel' + 1, rest, h, h' => by
    simp only [splitNE]
    cases hf : findAt pat rest with
    | none => rfl
    | some e =>
      simp only
      have hle := findAt_some_le hf
      have hpl : 0 < pat.length := List.length_pos_iff.mpr hp
      rw [splitNE_fuel_irrelevant hp fuel fuel' _ (by simp only [List.length_drop]; omega)
        (by simp only [List.length_drop]; omega)]

/-- at most one piece per byte, plus one -/
theorem splitNE_length_le {pat : Bytes} (hp : pat ≠ []) : ∀ (fuel : Nat) (rest : Bytes),
    (splitNE pat fuel rest).length ≤ rest.length + 1
  | 0, _ => by simp [splitNE]
  | fuel + 1, rest => by
    simp only [splitNE]
    cases hf : findAt pat rest with
    | none => simp
    | some e =>
      simp only [List.length_cons]
      have hle := findAt_some_le hf
      have hpl : 0 < pat.length := List.length_pos_iff.mpr hp
      have := splitNE_length_le hp fuel (rest.drop (e + pat.length))
      simp only [List.length_drop] at this
      omega

/-- the first piece is empty exactly when the input is empty or starts with the pattern (so an empty piece
only arises at the start, at the end, or between two adjacent matches) -/
theorem splitNE_head_empty {pat : Bytes} (hp : pat ≠ []) (fuel : Nat) (rest : Bytes) :
    (splitNE pat (fuel + 1) rest).head? = some [] ↔ (rest = [] ∨ pat.isPrefixOf rest = true) := by
  simp only [splitNE]
  cases hf : findAt pat rest with
  | none =>
    simp only [List.head?_cons, Option.some.injEq]
    constructor
    · intro h; exact Or.inl h
    · rintro (h | h)
      · exact h
      · rw [findAt_zero_of_prefix h] at hf; cases hf
  | some e =>
    simp only [List.head?_cons, Option.some.injEq]
    have hle := findAt_some_le hf
    have hpl : 0 < pat.length := List.length_pos_iff.mpr hp
    constructor
    · intro h
      right
      have he : e = 0 := by
        have := congrArg List.length h
        simp only [List.length_take, List.length_nil] at this
        omega
      subst he
      have hs := findAt_some hf
      simp only [List.take_zero, List.nil_append, Nat.zero_add] at hs
      rw [List.isPrefixOf_iff_prefix]
      exact ⟨_, hs.symm⟩
    · rintro (h | h)
      · subst h; simp only [List.length_nil] at hle; omega
      · rw [findAt_zero_of_prefix h] at hf
        cases hf; simp

/-! ### empty pattern -/

theorem splitEmptyTail_eq : ∀ (fuel : Nat) (rest : Bytes), rest.length < fuel →
    splitEmptyTail fuel rest = segs gFirstChar fuel rest ++ [[]]
  | 0, _, h => by omega
  | fuel + 1, [], _ => by simp [splitEmptyTail, segs]
  | fuel + 1, b :: bs, h => by
    obtain ⟨h0, h1⟩ := progress_gFirstChar (b :: bs) (by simp)
    simp only [splitEmptyTail, List.isEmpty_cons, Bool.false_eq_true, if_false, segs, List.cons_append]
    rw [splitEmptyTail_eq fuel _ (by simp only [List.length_drop]; simp at h ⊢; omega)]

theorem segs_fuel_irrelevant {g : Bytes → Nat} (hp : Progress g) : ∀ (fuel fuel' : Nat) (s : Bytes),
    s.length ≤ fuel → s.length ≤ fuel' → segs g fuel s = segs g fuel' s
  | 0, fuel', s, h, _ => by
    have : s = [] := List.length_eq_zero_iff.mp (by omega)
    subst this; cases fuel' <;> rfl
  | fuel + 1, 0, s, _, h => by
    have : s = [] := List.length_eq_zero_iff.mp (by omega)
    subst this; rfl
  | fuel + 1, fuel' + 1, [], _, _ => rfl
  | fuel + 1, fuel' + 1, b :: bs, h, h' => by
    obtain ⟨h0, h1⟩ := hp (b :: bs) (by simp)
    simp only [segs]
    rw [segs_fuel_irrelevant hp fuel fuel' _ (by simp only [List.length_drop]; simp at h ⊢; omega)
      (by simp only [List.length_drop]; simp at h' ⊢; omega)]

/-- the pieces of a split by the empty pattern: `''`, the characters, `''` -/
theorem splitB_empty (fuel : Nat) (s : Bytes) (h : s.length < fuel) :
    splitB [] fuel s = [] :: (Utf8.graphemes gFirstChar s ++ [[]]) := by
  simp only [splitB, List.isEmpty_nil, if_true, Utf8.graphemes]
  rw [splitEmptyTail_eq fuel s h, segs_fuel_irrelevant progress_gFirstChar fuel s.length s (by omega) (Nat.le_refl _)]

theorem segs_length_le {g : Bytes → Nat} (hp : Progress g) (fuel : Nat) (s : Bytes) (h : s.length ≤ fuel) :
    (segs g fuel s).length ≤ s.length := by
  have hfl := segs_flatten hp fuel s h
  have hne := segs_nonempty hp fuel s
  have : ∀ (xs : List Bytes), (∀ p ∈ xs, p ≠ []) → xs.length ≤ xs.flatten.length := by
    intro xs
    induction xs with
    | nil => intro _; simp
    | cons x r ih =>
      intro hx
      have h1 := List.length_pos_iff.mpr (hx x (by simp))
      have h2 := ih (fun p hp' => hx p (by simp [hp']))
      simp only [List.length_cons, List.flatten_cons, List.length_append]; omega
  have := this _ hne
  rw [hfl] at this; exact this

/-! ### the code-level loop -/

theorem splitLoop_done2 (s : KStr) (pat : Bytes) (fuel start : Nat) (st : Bool) (h : s.len < start) :
    splitLoop s pat fuel start st = some [] := by
  cases fuel with
  | zero => rfl
  | succ f => simp only [splitLoop]; rw [if_neg (by omega)]

/-- non-empty pattern: the loop computes `splitNE` -/
theorem splitLoop_refines_ne {s : KStr} (hw : s.WF) {pat : Bytes} (hpv : validUtf8 pat = true) (hp : pat ≠ []) :
    ∀ (fuel start : Nat) (st : Bool), start ≤ s.len → isBoundary s.bytes start = true →
      (splitLoop s pat fuel start st).map (List.map KStr.bytes) = some (splitNE pat fuel (s.bytes.drop start))
  | 0, _, _, _, _ => rfl
  | fuel + 1, start, st, hle, hbs => by
    have hlen := KStr.bytes_length hw
    have hv := hw.bytes_valid
    have hvd : validUtf8 (s.bytes.drop start) = true := (valid_split hv hbs).2
    have hpl : 0 < pat.length := List.length_pos_iff.mpr hp
    have hpe : pat.isEmpty = false := by cases pat <;> simp_all
    simp only [splitLoop, splitNE, hpe, Bool.false_eq_true, if_false]
    rw [if_pos hle]
    cases hf : findAt pat (s.bytes.drop start) with
    | none =>
      simp only
      have hok := KStr.withBounds_ok hw hle (Nat.le_refl _) hbs (hlen ▸ isBoundary_length _)
      cases hwb : s.withBounds start s.len with
      | none => rw [hwb] at hok; cases hok
      | some t =>
        rw [hwb] at hok
        simp only [Option.map_some, Option.some.injEq] at hok
        rw [splitLoop_done2 s pat fuel _ true (by omega)]
        simp only [Option.map_some, List.map_cons, List.map_nil, hok]
        rw [List.take_of_length_le (by simp only [List.length_drop]; omega)]
    | some e =>
      simp only
      have hle2 := findAt_some_le hf
      simp only [List.length_drop, hlen] at hle2
      have hbe : isBoundary (s.bytes.drop start) e = true := findAt_boundary hvd hpv hp hf
      have hbe' : isBoundary s.bytes (start + e) = true := by
        by_cases h0 : e = 0
        · rw [h0]; simpa using hbs
        · rw [← isBoundary_drop_eq hbs h0]; exact hbe
      have hok := KStr.withBounds_ok hw (by omega : start ≤ start + e) (by omega) hbs hbe'
      cases hwb : s.withBounds start (start + e) with
      | none => rw [hwb] at hok; cases hok
      | some t =>
        rw [hwb] at hok
        simp only [Option.map_some, Option.some.injEq] at hok
        have hd := drop_of_findAt hf
        have hv2 : validUtf8 ((s.bytes.drop start).drop e) = true := (valid_split hvd hbe).2
        rw [hd] at hv2
        have hb3 := boundary_after_valid_prefix hv2 hpv
        rw [← hd, List.drop_drop] at hb3
        have hb4 : isBoundary s.bytes (start + e + pat.length) = true := by
          rw [← isBoundary_drop_eq hbe' (by omega)]; exact hb3
        have ih := splitLoop_refines_ne hw hpv hp fuel (start + e + pat.length) true (by omega) hb4
        cases hrec : splitLoop s pat fuel (start + e + pat.length) true with
        | none => rw [hrec] at ih; cases ih
        | some ts =>
          rw [hrec] at ih
          simp only [Option.map_some, Option.some.injEq] at ih
          simp only [Option.map_some, List.map_cons, hok, ih]
          have e1 : start + e - start = e := by omega
          rw [e1, List.drop_drop]
          have e2 : start + (e + pat.length) = start + e + pat.length := by omega
          rw [e2]

/-- empty pattern, after the first piece: the loop computes `splitEmptyTail` -/
theorem splitLoop_refines_empty {s : KStr} (hw : s.WF) :
    ∀ (fuel start : Nat), start ≤ s.len → isBoundary s.bytes start = true →
      (splitLoop s [] fuel start true).map (List.map KStr.bytes) = some (splitEmptyTail fuel (s.bytes.drop start))
  | 0, _, _, _ => rfl
  | fuel + 1, start, hle, hbs => by
    have hlen := KStr.bytes_length hw
    have hv := hw.bytes_valid
    simp only [splitLoop, splitEmptyTail, List.isEmpty_nil, if_true]
    rw [if_pos hle]
    cases hd : s.bytes.drop start with
    | nil =>
      simp only [List.isEmpty_nil, if_true]
      have hsl : start = s.len := by
        have := congrArg List.length hd
        simp only [List.length_drop, List.length_nil, hlen] at this; omega
      have hok := KStr.withBounds_ok hw hle (Nat.le_refl _) hbs (hlen ▸ isBoundary_length _)
      cases hwb : s.withBounds start s.len with
      | none => rw [hwb] at hok; cases hok
      | some t =>
        rw [hwb] at hok
        simp only [Option.map_some, Option.some.injEq] at hok
        rw [splitLoop_done2 s [] fuel _ true (by omega)]
        simp only [Option.map_some, List.map_cons, List.map_nil, hok, hd, List.take_nil]
    | cons b r =>
      simp only [List.isEmpty_cons, Bool.false_eq_true, if_false]
      obtain ⟨h0, h1⟩ := progress_gFirstChar (b :: r) (by simp)
      have hrl : (b :: r).length = s.len - start := by rw [← hd]; simp [hlen]
      have hbe : isBoundary (s.bytes.drop start) (gFirstChar (b :: r)) = true := by
        rw [hd]; exact cuts_gFirstChar (b :: r) (by simp)
      have hbe' : isBoundary s.bytes (start + gFirstChar (b :: r)) = true := by
        rw [← isBoundary_drop_eq hbs (by omega)]; exact hbe
      have hok := KStr.withBounds_ok hw (by omega : start ≤ start + gFirstChar (b :: r)) (by omega) hbs hbe'
      cases hwb : s.withBounds start (start + gFirstChar (b :: r)) with
      | none => rw [hwb] at hok; cases hok
      | some t =>
        rw [hwb] at hok
        simp only [Option.map_some, Option.some.injEq] at hok
        have ih := splitLoop_refines_empty hw fuel (start + gFirstChar (b :: r)) (by omega) hbe'
        cases hrec : splitLoop s [] fuel (start + gFirstChar (b :: r)) true with
        | none => rw [hrec] at ih; cases ih
        | some ts =>
          rw [hrec] at ih
          simp only [Option.map_some, Option.some.injEq] at ih
          simp only [Option.map_some, List.map_cons, hok, ih]
          have e1 : start + gFirstChar (b :: r) - start = gFirstChar (b :: r) := by omega
          rw [e1, hd, ← List.drop_drop, hd]

theorem splitLoop_first_empty (s : KStr) (fuel : Nat) :
    splitLoop s [] (fuel + 1) 0 false =
      match s.withBounds 0 0 with
      | none => none
      | some t => (splitLoop s [] fuel 0 true).map (t :: ·) := by
  simp only [splitLoop, List.isEmpty_nil, if_true, Nat.zero_le, Bool.false_eq_true, if_false]
  cases s.withBounds 0 0 <;> rfl

/-- **`split` at the code level computes `splitB`, for every pattern** (every `with_bounds(..).unwrap()`
succeeds, the iteration ends by itself) -/
theorem splitLoop_refines_all {s : KStr} (hw : s.WF) {pat : Bytes} (hpv : validUtf8 pat = true) :
    (splitLoop s pat (s.len + 3) 0 false).map (List.map KStr.bytes) = some (splitB pat (s.len + 2) s.bytes) := by
  have hlen := KStr.bytes_length hw
  cases pat with
  | cons c r =>
    have h := splitLoop_refines_ne hw hpv (by simp) (s.len + 3) 0 false (Nat.zero_le _) (isBoundary_zero _)
    rw [h]
    simp only [List.drop_zero, splitB, List.isEmpty_cons, Bool.false_eq_true, if_false]
    rw [splitNE_fuel_irrelevant (by simp) (s.len + 3) (s.len + 2) s.bytes (by omega) (by omega)]
  | nil =>
    have hok := KStr.withBounds_ok hw (Nat.le_refl 0) (Nat.zero_le _) (isBoundary_zero _) (isBoundary_zero _)
    have ih := splitLoop_refines_empty hw (s.len + 2) 0 (Nat.zero_le _) (isBoundary_zero _)
    rw [splitLoop_first_empty s (s.len + 2)]
    cases hwb : s.withBounds 0 0 with
    | none => rw [hwb] at hok; cases hok
    | some t =>
      rw [hwb] at hok
      simp only [Option.map_some, Option.some.injEq] at hok
      cases hrec : splitLoop s [] (s.len + 2) 0 true with
      | none => rw [hrec] at ih; cases ih
      | some ts =>
        rw [hrec] at ih
        simp only [Option.map_some, Option.some.injEq, List.drop_zero] at ih
        simp only [Option.map_some, List.map_cons, hok, ih, splitB, List.isEmpty_nil, if_true]
        simp

end KotoVerif.Str

namespace KotoVerif.Str
open KotoVerif.Utf8

theorem charsOf_head (c : Nat) (r : Bytes) : ∃ g gs, charsOf (c :: r) = (c :: g) :: gs := by
  simp only [charsOf]
  split
  · exact ⟨[], [], rfl⟩
  · exact ⟨[], _, rfl⟩
  · split
    · exact ⟨_, _, rfl⟩
    · exact ⟨[], _, rfl⟩

theorem charsOf_cons_of {b c : Nat} {bs g : Bytes} {gs : List Bytes} (h : charsOf bs = (c :: g) :: gs) :
    charsOf (b :: bs) = if isCont c then (b :: c :: g) :: gs else [b] :: (c :: g) :: gs := by
  rw [charsOf, h]

/-- a lead byte followed by continuation bytes is one group -/
theorem charsOf_group : ∀ (t : Bytes) (b : Nat) (rest : Bytes), (∀ x ∈ t, isCont x = true) →
    (rest = [] ∨ ∃ c r, rest = c :: r ∧ isCont c = false) →
    charsOf (b :: (t ++ rest)) = (b :: t) :: charsOf rest
  | [], b, rest, _, hr => by
    rcases hr with rfl | ⟨c, r, rfl, hc⟩
    · rfl
    · obtain ⟨g, gs, hg⟩ := charsOf_head c r
      rw [List.nil_append, charsOf_cons_of hg, hg]
      simp [hc]
  | x :: t, b, rest, ht, hr => by
    have ih := charsOf_group t x rest (fun y hy => ht y (by simp [hy])) hr
    have hx : isCont x = true := ht x (by simp)
    rw [List.cons_append, charsOf_cons_of ih]
    simp [hx]

/-- every group is a byte followed by continuation bytes only -/
theorem charsOf_tails : ∀ (s : Bytes), ∀ g ∈ charsOf s, ∃ b t, g = b :: t ∧ ∀ x ∈ t, isCont x = true
  | [], g, h => by simp [charsOf] at h
  | b :: bs, g, h => by
    have ih := charsOf_tails bs
    simp only [charsOf] at h
    split at h
    · simp only [List.mem_singleton] at h; exact ⟨b, [], h, by simp⟩
    · rename_i gs heq
      rcases List.mem_cons.mp h with rfl | h
      · exact ⟨b, [], rfl, by simp⟩
      · exact ih g (by rw [heq]; simp [h])
    · rename_i c g' gs heq
      obtain ⟨b', t', hb', ht'⟩ := ih (c :: g') (by rw [heq]; simp)
      simp only [List.cons.injEq] at hb'
      split at h
      · rename_i hc
        rcases List.mem_cons.mp h with rfl | h
        · refine ⟨b, c :: g', rfl, ?_⟩
          intro x hx
          rcases List.mem_cons.mp hx with rfl | hx
          · exact hc
          · exact ht' x (hb'.2 ▸ hx)
        · exact ih g (by rw [heq]; simp [h])
      · rcases List.mem_cons.mp h with rfl | h
        · exact ⟨b, [], rfl, by simp⟩
        · exact ih g (by rw [heq]; exact h)

/-- the characters of the rest after the first character are the remaining groups -/
theorem charsOf_tail_eq {s g : Bytes} {gs : List Bytes} (h : charsOf s = g :: gs) : charsOf gs.flatten = gs := by
  obtain ⟨b, t, hg, ht⟩ := charsOf_tails s g (by rw [h]; simp)
  have hfl := charsOf_flatten s
  rw [h] at hfl
  simp only [List.flatten_cons] at hfl
  have hok := (charsOf_ok s).1
  have hne := (charsOf_ok s).2
  rw [h] at hok hne
  simp only [GroupsOK] at hok
  have hrest : gs.flatten = [] ∨ ∃ c r, gs.flatten = c :: r ∧ isCont c = false := by
    cases gs with
    | nil => left; rfl
    | cons g2 gr =>
      right
      obtain ⟨c, r, hg2, hc⟩ := hok.2 g2 (by simp)
      exact ⟨c, r ++ gr.flatten, by simp [hg2], hc⟩
  have := charsOf_group t b gs.flatten ht hrest
  rw [← hfl, hg] at h
  simp only [List.cons_append] at h
  rw [this] at h
  exact (List.cons.inj h).2

/-- the one-character oracle segments a string into its characters -/
theorem segs_gFirstChar_eq : ∀ (fuel : Nat) (s : Bytes), s.length ≤ fuel → segs gFirstChar fuel s = charsOf s
  | 0, s, h => by
    have : s = [] := List.length_eq_zero_iff.mp (by omega)
    subst this; rfl
  | fuel + 1, [], _ => rfl
  | fuel + 1, b :: bs, h => by
    cases hc : charsOf (b :: bs) with
    | nil => exact absurd hc (charsOf_cons_ne_nil b bs)
    | cons g gs =>
      have hfl := charsOf_flatten (b :: bs)
      rw [hc] at hfl
      simp only [List.flatten_cons] at hfl
      have hne := (charsOf_ok (b :: bs)).2 g (by rw [hc]; simp)
      have hgl : gFirstChar (b :: bs) = g.length := by simp [gFirstChar, hc]
      simp only [segs, hgl]
      have ht : (b :: bs).take g.length = g := by rw [← hfl]; exact List.take_left
      have hd : (b :: bs).drop g.length = gs.flatten := by rw [← hfl]; exact List.drop_left
      rw [ht, hd]
      have hl : gs.flatten.length ≤ fuel := by
        have := congrArg List.length hfl
        have hp := List.length_pos_iff.mpr hne
        simp only [List.length_append, List.length_cons] at this h
        omega
      rw [segs_gFirstChar_eq fuel _ hl, charsOf_tail_eq hc]

end KotoVerif.Str
