/-
C14 — the number comparator of `sort` (`compare_values` on numbers = `<` on `KNumber`) is a total
preorder on numbers without NaN whose integers convert to `f64` strictly monotonically (for IEEE
doubles: |n| ≤ 2^53). Beyond that range it is *not* one: `2^53+1 ≤ 2^53.0 ≤ 2^53` but not
`2^53+1 ≤ 2^53` — such lists are outside the sort theorem (and outside the generated envelope).
-/
import KotoVerif.Model.Sort
import KotoVerif.Lemmas.C14Sort
import KotoVerif.Lemmas.C14Equal

namespace KotoVerif
namespace Equal
open Sorting

/-- the float facts the number order needs; `S` marks the integers that convert exactly -/
structure NumOrderLaws (F : FloatOps) (S : Int64 → Prop) : Prop where
  ofInt_notNaN : ∀ n, F.isNaN (F.ofInt n) = false
  lt_asymm : ∀ a b, F.lt a b = true → F.lt b a = false
  le_trans : ∀ a b c, F.isNaN a = false → F.isNaN b = false → F.isNaN c = false →
    F.lt b a = false → F.lt c b = false → F.lt c a = false
  ofInt_mono : ∀ x y : Int64, x ≤ y → F.lt (F.ofInt y) (F.ofInt x) = false
  ofInt_strict : ∀ x y : Int64, S x → S y → x < y → F.lt (F.ofInt x) (F.ofInt y) = true

/-- numbers a sort may contain: no NaN, integers exactly convertible -/
def GoodNum (F : FloatOps) (S : Int64 → Prop) : Type :=
  { n : Num // numIsNaN F n = false ∧ ∀ x, n = .i x → S x }

/-- off NaN the VM's `<` (through `Ord for KNumber`) is the promoted comparison -/
theorem numLt_eq_lt (F : FloatOps) (a b : Num) (ha : numIsNaN F a = false) (hb : numIsNaN F b = false) :
    numLt F a b = Num.lt F a b := by
  unfold numLt numCmp
  cases h1 : Num.lt F a b
  · cases h2 : Num.lt F b a <;> cases h3 : Num.eq F a b <;> simp [ha, hb]
  · simp

theorem int64_le_trans (a b c : Int64) (h1 : decide (b < a) = false) (h2 : decide (c < b) = false) :
    decide (c < a) = false := by
  simp only [decide_eq_false_iff_not, Int64.lt_iff_toInt_lt] at *
  omega

theorem num_total_preorder {F : FloatOps} {S : Int64 → Prop} (hL : NumOrderLaws F S) :
    TotalPreorder (fun (a b : GoodNum F S) => Num.lt F a.1 b.1) where
  asymm a b h := by
    obtain ⟨a, _, _⟩ := a
    obtain ⟨b, _, _⟩ := b
    simp only at h ⊢
    cases a <;> cases b <;> simp only [Num.lt, Num.toF] at h ⊢
    · simp only [decide_eq_true_eq, decide_eq_false_iff_not, Int64.lt_iff_toInt_lt] at *; omega
    all_goals exact hL.lt_asymm _ _ h
  le_trans a b c h1 h2 := by
    obtain ⟨a, ha, sa⟩ := a
    obtain ⟨b, hb, sb⟩ := b
    obtain ⟨c, hc, sc⟩ := c
    simp only at h1 h2 ⊢
    have nn := hL.ofInt_notNaN
    cases a with
    | i x =>
      cases b with
      | i y =>
        cases c with
        | i z => exact int64_le_trans _ _ _ h1 h2
        | f z =>
          simp only [Num.lt, Num.toF] at h1 h2 ⊢
          have hxy : x ≤ y := by
            simp only [decide_eq_false_iff_not, Int64.lt_iff_toInt_lt] at h1
            exact Int64.le_iff_toInt_le.mpr (by omega)
          exact hL.le_trans _ _ _ (nn x) (nn y) hc (hL.ofInt_mono x y hxy) h2
      | f y =>
        cases c with
        | i z =>
          simp only [Num.lt, Num.toF] at h1 h2 ⊢
          have hf := hL.le_trans _ _ _ (nn x) hb (nn z) h1 h2
          cases hzx : decide (z < x) with
          | false => rfl
          | true =>
            have := hL.ofInt_strict z x (sc z rfl) (sa x rfl) (by simpa using hzx)
            rw [hf] at this; exact absurd this (by simp)
        | f z =>
          simp only [Num.lt, Num.toF] at h1 h2 ⊢
          exact hL.le_trans _ _ _ (nn x) hb hc h1 h2
    | f x =>
      cases b with
      | i y =>
        cases c with
        | i z =>
          simp only [Num.lt, Num.toF] at h1 h2 ⊢
          have hyz : y ≤ z := by
            simp only [decide_eq_false_iff_not, Int64.lt_iff_toInt_lt] at h2
            exact Int64.le_iff_toInt_le.mpr (by omega)
          exact hL.le_trans _ _ _ ha (nn y) (nn z) h1 (hL.ofInt_mono y z hyz)
        | f z =>
          simp only [Num.lt, Num.toF] at h1 h2 ⊢
          exact hL.le_trans _ _ _ ha (nn y) hc h1 h2
      | f y =>
        cases c with
        | i z =>
          simp only [Num.lt, Num.toF] at h1 h2 ⊢
          exact hL.le_trans _ _ _ ha hb (nn z) h1 h2
        | f z =>
          simp only [Num.lt, Num.toF] at h1 h2 ⊢
          exact hL.le_trans _ _ _ ha hb hc h1 h2

/-- sorting commutes with a projection the comparator factors through -/
theorem map_insertBy {α β : Type} (g : α → β) (lt : β → β → Bool) (e : α) (es : List α) :
    (insertBy (fun a b => lt (g a) (g b)) e es).map g = insertBy lt (g e) (es.map g) := by
  induction es with
  | nil => simp [insertBy]
  | cons x xs ih =>
    simp only [insertBy, List.map_cons]
    split <;> simp [ih]

theorem map_sortBy {α β : Type} (g : α → β) (lt : β → β → Bool) (es : List α) :
    (sortBy (fun a b => lt (g a) (g b)) es).map g = sortBy lt (es.map g) := by
  induction es with
  | nil => simp [sortBy]
  | cons x xs ih => simp only [sortBy, List.map_cons, map_insertBy, ih]

/-! #### the toy instance satisfies the laws with every integer exact -/

theorem shift_toNat (x : Int64) :
    ((x.toUInt64 + 9223372036854775808).toNat : Int) = x.toInt + 9223372036854775808 := by
  have h1 : x.toUInt64.toNat = x.toBitVec.toNat := by
    rw [← UInt64.toNat_toBitVec, Int64.toBitVec_toUInt64]
  have h2 : x.toInt = x.toBitVec.toInt := (Int64.toInt_toBitVec x).symm
  have h3 := BitVec.toInt_eq_toNat_cond x.toBitVec
  have h4 : x.toBitVec.toNat < 2 ^ 64 := x.toBitVec.isLt
  rw [UInt64.toNat_add, h1, h2, h3]
  have : (9223372036854775808 : UInt64).toNat = 9223372036854775808 := by decide
  rw [this]
  split <;> omega

theorem F0_numOrderLaws : NumOrderLaws F0 (fun _ => True) where
  ofInt_notNaN _ := rfl
  lt_asymm a b h := by
    simp only [F0, decide_eq_true_eq, decide_eq_false_iff_not, UInt64.lt_iff_toNat_lt] at *; omega
  le_trans a b c _ _ _ h1 h2 := by
    simp only [F0, decide_eq_false_iff_not, UInt64.lt_iff_toNat_lt] at *; omega
  ofInt_mono x y h := by
    have hx := shift_toNat x
    have hy := shift_toNat y
    have := Int64.le_iff_toInt_le.mp h
    simp only [F0, decide_eq_false_iff_not, UInt64.lt_iff_toNat_lt]
    omega
  ofInt_strict x y _ _ h := by
    have hx := shift_toNat x
    have hy := shift_toNat y
    have := Int64.lt_iff_toInt_lt.mp h
    simp only [F0, decide_eq_true_eq, UInt64.lt_iff_toNat_lt]
    omega

end Equal
end KotoVerif
