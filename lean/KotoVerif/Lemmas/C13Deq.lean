/-
C13 helper lemmas, part 3: double-ended semantics.

`Deq c s xs` — for *every* sequence of `next` / `next_back` calls the iterator answers exactly like
the ideal double-ended sequence `xs` (front calls take the head, back calls take the last element,
an empty sequence answers `None` and stays empty). `Reversed` swaps the two ends, so
`reversed_deq : Deq c s xs → Deq (reversedCo c) s xs.reverse`.
-/
import KotoVerif.Lemmas.C13Adaptors

namespace KotoVerif.Iter

/-- outputs of a sequence of calls (`true` = `next`, `false` = `next_back`) -/
def outsD (c : Co) : List Bool → c.σ → List (Option Val)
  | [], _ => []
  | true :: ds, s => (c.next s).out :: outsD c ds (c.next s).st
  | false :: ds, s => (c.back s).out :: outsD c ds (c.back s).st

/-- the same calls on an ideal double-ended sequence -/
def idealD : List Bool → List Val → List (Option Val)
  | [], _ => []
  | true :: ds, xs => xs.head? :: idealD ds xs.tail
  | false :: ds, xs => xs.getLast? :: idealD ds xs.dropLast

def Deq (c : Co) (s : c.σ) (xs : List Val) : Prop := ∀ ds, outsD c ds s = idealD ds xs

theorem deq_iff {c : Co} {s : c.σ} {xs : List Val} :
    Deq c s xs ↔ ((c.next s).out = xs.head? ∧ Deq c (c.next s).st xs.tail) ∧
      ((c.back s).out = xs.getLast? ∧ Deq c (c.back s).st xs.dropLast) := by
  constructor
  · intro h
    refine ⟨⟨?_, ?_⟩, ⟨?_, ?_⟩⟩
    · have := h [true]; simp [outsD, idealD] at this; exact this
    · intro ds; have := h (true :: ds); simp [outsD, idealD] at this; exact this.2
    · have := h [false]; simp [outsD, idealD] at this; exact this
    · intro ds; have := h (false :: ds); simp [outsD, idealD] at this; exact this.2
  · intro ⟨⟨a1, a2⟩, ⟨b1, b2⟩⟩ ds
    cases ds with
    | nil => rfl
    | cons d ds => cases d <;> simp [outsD, idealD, a1, a2 ds, b1, b2 ds]

theorem deq_coind (c : Co) (R : c.σ → List Val → Prop)
    (hstep : ∀ s xs, R s xs → ((c.next s).out = xs.head? ∧ R (c.next s).st xs.tail) ∧
      ((c.back s).out = xs.getLast? ∧ R (c.back s).st xs.dropLast)) :
    ∀ s xs, R s xs → Deq c s xs := by
  intro s xs h ds
  induction ds generalizing s xs with
  | nil => rfl
  | cons d ds ih =>
    have ⟨⟨a1, a2⟩, ⟨b1, b2⟩⟩ := hstep s xs h
    cases d <;> simp [outsD, idealD, a1, ih _ _ a2, b1, ih _ _ b2]

/-- forgetting the back end -/
theorem deq_fwd {c : Co} {s : c.σ} {xs : List Val} (h : Deq c s xs) : Fwd c s xs := by
  apply fwd_coind c (fun s xs => Deq c s xs)
  · intro s h
    have ⟨⟨a1, a2⟩, _⟩ := deq_iff.mp h
    exact ⟨a1, a2⟩
  · intro s x xs h
    have ⟨⟨a1, a2⟩, _⟩ := deq_iff.mp h
    exact ⟨a1, a2⟩
  · exact h

/-! ### bidirectional sources -/

theorem getElem?_mid (pre post : List Val) (x : Val) : (pre ++ x :: post)[pre.length]? = some x := by
  simp

theorem nil_or_snoc (xs : List Val) : xs = [] ∨ ∃ ini l, xs = ini ++ [l] := by
  rcases List.eq_nil_or_concat xs with h | ⟨a, b, h⟩
  · exact Or.inl h
  · exact Or.inr ⟨a, b, by simpa [List.concat_eq_append] using h⟩

theorem seq_deq_gen (xs0 : List Val) : ∀ (s : Idx) (xs : List Val),
    (∃ pre post, xs0 = pre ++ xs ++ post ∧ pre.length = s.idx ∧ s.stop = pre.length + xs.length) →
    Deq (seqCo xs0) s xs := by
  apply deq_coind (seqCo xs0)
  intro (s : Idx) xs ⟨pre, post, e0, e1, e2⟩
  constructor
  · cases xs with
    | nil =>
      have hc : ¬ s.idx < s.stop := by simp at e2; omega
      have e : (seqCo xs0).next s = ⟨none, s, []⟩ := by simp [seqCo, hc]
      rw [e]
      exact ⟨rfl, pre, post, e0, e1, e2⟩
    | cons x xs =>
      have hc : s.idx < s.stop := by simp at e2; omega
      have hx : xs0[s.idx]? = some x := by
        rw [e0, ← e1]; simp
      have e : (seqCo xs0).next s = ⟨some x, ⟨s.idx + 1, s.stop⟩, []⟩ := by simp [seqCo, hc, hx]
      rw [e]
      exact ⟨rfl, pre ++ [x], post, by simp [e0], by simp [e1], by simp at e2 ⊢; omega⟩
  · rcases nil_or_snoc xs with rfl | ⟨ini, l, rfl⟩
    · have hc : ¬ s.idx < s.stop := by simp at e2; omega
      have e : (seqCo xs0).back s = ⟨none, s, []⟩ := by simp [seqCo, hc]
      rw [e]
      exact ⟨rfl, pre, post, e0, e1, e2⟩
    · have hc : s.idx < s.stop := by simp at e2; omega
      have hx : xs0[s.stop - 1]? = some l := by
        have h1 : s.stop - 1 = (pre ++ ini).length := by simp at e2 ⊢; omega
        have h2 : pre ++ (ini ++ [l]) ++ post = (pre ++ ini) ++ l :: post := by simp
        rw [e0, h1, h2]; exact getElem?_mid _ _ _
      have e : (seqCo xs0).back s = ⟨some l, ⟨s.idx, s.stop - 1⟩, []⟩ := by simp [seqCo, hc, hx]
      rw [e]
      refine ⟨by simp, pre, l :: post, ?_, e1, ?_⟩
      · simp [e0]
      · simp at e2 ⊢; omega

theorem seq_deq (xs : List Val) : Deq (seqCo xs) ⟨0, xs.length⟩ xs :=
  seq_deq_gen xs ⟨0, xs.length⟩ xs ⟨[], [], by simp, rfl, by simp⟩

/-- the host byte iterator is the same double-ended cursor (as repaired by /repo commit 0c6b903) -/
theorem hostBytes_deq_gen (xs0 : List Val) : ∀ (s : Idx) (xs : List Val),
    (∃ pre post, xs0 = pre ++ xs ++ post ∧ pre.length = s.idx ∧ s.stop = pre.length + xs.length) →
    Deq (hostBytesCo xs0) s xs := by
  apply deq_coind (hostBytesCo xs0)
  intro (s : Idx) xs ⟨pre, post, e0, e1, e2⟩
  constructor
  · cases xs with
    | nil =>
      have hc : ¬ s.idx < s.stop := by simp at e2; omega
      have e : (hostBytesCo xs0).next s = ⟨none, s, []⟩ := by simp [hostBytesCo, hc]
      rw [e]
      exact ⟨rfl, pre, post, e0, e1, e2⟩
    | cons x xs =>
      have hc : s.idx < s.stop := by simp at e2; omega
      have hx : xs0[s.idx]? = some x := by
        rw [e0, ← e1]; simp
      have e : (hostBytesCo xs0).next s = ⟨some x, ⟨s.idx + 1, s.stop⟩, []⟩ := by simp [hostBytesCo, hc, hx]
      rw [e]
      exact ⟨rfl, pre ++ [x], post, by simp [e0], by simp [e1], by simp at e2 ⊢; omega⟩
  · rcases nil_or_snoc xs with rfl | ⟨ini, l, rfl⟩
    · have hc : ¬ s.idx < s.stop := by simp at e2; omega
      have e : (hostBytesCo xs0).back s = ⟨none, s, []⟩ := by simp [hostBytesCo, hc]
      rw [e]
      exact ⟨rfl, pre, post, e0, e1, e2⟩
    · have hc : s.idx < s.stop := by simp at e2; omega
      have hx : xs0[s.stop - 1]? = some l := by
        have h1 : s.stop - 1 = (pre ++ ini).length := by simp at e2 ⊢; omega
        have h2 : pre ++ (ini ++ [l]) ++ post = (pre ++ ini) ++ l :: post := by simp
        rw [e0, h1, h2]; exact getElem?_mid _ _ _
      have e : (hostBytesCo xs0).back s = ⟨some l, ⟨s.idx, s.stop - 1⟩, []⟩ := by simp [hostBytesCo, hc, hx]
      rw [e]
      refine ⟨by simp, pre, l :: post, ?_, e1, ?_⟩
      · simp [e0]
      · simp at e2 ⊢; omega

theorem hostBytes_deq (xs : List Val) : Deq (hostBytesCo xs) ⟨0, xs.length⟩ xs :=
  hostBytes_deq_gen xs ⟨0, xs.length⟩ xs ⟨[], [], by simp, rfl, by simp⟩

theorem metab_deq_gen (k : Nat) (xs0 : List Val) : ∀ (s : Idx) (xs : List Val),
    (∃ pre post, xs0 = pre ++ xs ++ post ∧ pre.length = s.idx ∧ s.stop = pre.length + xs.length) →
    Deq (metabCo k xs0) s xs := by
  apply deq_coind (metabCo k xs0)
  intro (s : Idx) xs ⟨pre, post, e0, e1, e2⟩
  constructor
  · cases xs with
    | nil =>
      have hc : ¬ s.idx < s.stop := by simp at e2; omega
      have e : (metabCo k xs0).next s = ⟨none, s, [Ev.pull k s.idx]⟩ := by simp [metabCo, hc]
      rw [e]
      exact ⟨rfl, pre, post, e0, e1, e2⟩
    | cons x xs =>
      have hc : s.idx < s.stop := by simp at e2; omega
      have hx : xs0[s.idx]? = some x := by
        rw [e0, ← e1]; simp
      have e : (metabCo k xs0).next s = ⟨some x, ⟨s.idx + 1, s.stop⟩, [Ev.pull k s.idx]⟩ := by simp [metabCo, hc, hx]
      rw [e]
      exact ⟨rfl, pre ++ [x], post, by simp [e0], by simp [e1], by simp at e2 ⊢; omega⟩
  · rcases nil_or_snoc xs with rfl | ⟨ini, l, rfl⟩
    · have hc : ¬ s.idx < s.stop := by simp at e2; omega
      have e : (metabCo k xs0).back s = ⟨none, s, [Ev.back k s.stop]⟩ := by simp [metabCo, hc]
      rw [e]
      exact ⟨rfl, pre, post, e0, e1, e2⟩
    · have hc : s.idx < s.stop := by simp at e2; omega
      have hx : xs0[s.stop - 1]? = some l := by
        have h1 : s.stop - 1 = (pre ++ ini).length := by simp at e2 ⊢; omega
        have h2 : pre ++ (ini ++ [l]) ++ post = (pre ++ ini) ++ l :: post := by simp
        rw [e0, h1, h2]; exact getElem?_mid _ _ _
      have e : (metabCo k xs0).back s = ⟨some l, ⟨s.idx, s.stop - 1⟩, [Ev.back k s.stop]⟩ := by simp [metabCo, hc, hx]
      rw [e]
      refine ⟨by simp, pre, l :: post, ?_, e1, ?_⟩
      · simp [e0]
      · simp at e2 ⊢; omega

theorem metab_deq (k : Nat) (xs : List Val) : Deq (metabCo k xs) ⟨0, xs.length⟩ xs :=
  metab_deq_gen k xs ⟨0, xs.length⟩ xs ⟨[], [], by simp, rfl, by simp⟩

theorem str_deq (cl : List Val) : Deq strCo cl cl := by
  apply deq_coind strCo (fun (s : List Val) xs => xs = s)
  · intro (s : List Val) xs h
    subst h
    constructor
    · cases xs <;> simp [strCo]
    · cases hl : xs.getLast? with
      | none =>
        have : xs = [] := by simpa using hl
        subst this
        simp [strCo]
      | some l => simp [strCo, hl]
  · rfl

/-! ### bidirectional adaptors -/

theorem each_deq (f : Fn) (c : Co) (s : c.σ) (ys : List Val) (h : Deq c s ys) :
    Deq (eachCo f c) s (ys.map f.app) := by
  apply deq_coind (eachCo f c) (fun (s : c.σ) xs => ∃ ys, Deq c s ys ∧ xs = ys.map f.app)
  · intro (s : c.σ) xs ⟨ys, h, e⟩
    subst e
    have ⟨⟨a1, a2⟩, ⟨b1, b2⟩⟩ := deq_iff.mp h
    constructor
    · cases ys with
      | nil =>
        simp at a1
        refine ⟨by simp [eachCo, a1], [], ?_, rfl⟩
        simpa [eachCo, a1] using a2
      | cons y ys =>
        simp at a1
        refine ⟨by simp [eachCo, a1], ys, ?_, by simp⟩
        simpa [eachCo, a1] using a2
    · rcases List.eq_nil_or_concat ys with rfl | ⟨ini, l, rfl⟩
      · simp at b1
        refine ⟨by simp [eachCo, b1], [], ?_, rfl⟩
        simpa [eachCo, b1] using b2
      · simp at b1 b2
        refine ⟨by simp [eachCo, b1], ini, ?_, by simp⟩
        simpa [eachCo, b1] using b2
  · exact ⟨ys, h, rfl⟩

theorem reversed_deq (c : Co) (s : c.σ) (ys : List Val) (h : Deq c s ys) :
    Deq (reversedCo c) s ys.reverse := by
  apply deq_coind (reversedCo c) (fun (s : c.σ) xs => Deq c s xs.reverse)
  · intro (s : c.σ) xs h
    have ⟨⟨a1, a2⟩, ⟨b1, b2⟩⟩ := deq_iff.mp h
    refine ⟨⟨?_, ?_⟩, ⟨?_, ?_⟩⟩
    · show (c.back s).out = xs.head?
      rw [b1]; simp
    · show Deq c (c.back s).st xs.tail.reverse
      have : xs.tail.reverse = xs.reverse.dropLast := by simp
      rw [this]; exact b2
    · show (c.next s).out = xs.getLast?
      rw [a1]; simp
    · show Deq c (c.next s).st xs.dropLast.reverse
      have : xs.dropLast.reverse = xs.reverse.tail := by simp
      rw [this]; exact a2
  · simpa using h

theorem peekable_deq (c : Co) (s : c.σ) (ys : List Val) (hb : c.bidir = true) (h : Deq c s ys) :
    Deq (peekableCo c) ⟨s, none, none⟩ ys := by
  apply deq_coind (peekableCo c)
    (fun (st : Peek c.σ) xs => st.front = none ∧ st.rear = none ∧ Deq c st.inner xs)
  · intro (st : Peek c.σ) xs ⟨hf, hr, h⟩
    have ⟨⟨a1, a2⟩, ⟨b1, b2⟩⟩ := deq_iff.mp h
    constructor
    · cases ho : (c.next st.inner).out with
      | none =>
        have hx : xs = [] := by
          rw [ho] at a1
          cases xs with
          | nil => rfl
          | cons x xs => simp at a1
        subst hx
        refine ⟨by simp [peekableCo, hf, ho, hr], ?_⟩
        simp [peekableCo, hf, ho]
        exact a2
      | some v =>
        refine ⟨by simp [peekableCo, hf, ho]; rw [← a1, ho], ?_⟩
        simp [peekableCo, hf, ho]
        exact ⟨hr, a2⟩
    · cases ho : (c.back st.inner).out with
      | none =>
        have hx : xs = [] := by
          rw [ho] at b1
          rcases List.eq_nil_or_concat xs with rfl | ⟨ini, l, rfl⟩
          · rfl
          · simp at b1
        subst hx
        refine ⟨by simp [peekableCo, hb, hr, ho, hf], ?_⟩
        simp [peekableCo, hb, hr, ho]
        exact b2
      | some v =>
        refine ⟨by simp [peekableCo, hb, hr, ho]; rw [← b1, ho], ?_⟩
        simp [peekableCo, hb, hr, ho]
        exact ⟨hf, b2⟩
  · exact ⟨rfl, rfl, h⟩

theorem advance_deq (c : Co) : ∀ (k : Nat) (s : c.σ) (ys : List Val), Deq c s ys →
    Deq c (advance c k s).2.1 (ys.drop k) := by
  intro k
  induction k with
  | zero => intro s ys h; simpa [advance] using h
  | succ k ih =>
    intro s ys h
    have ⟨⟨a1, a2⟩, _⟩ := deq_iff.mp h
    cases ys with
    | nil =>
      simp at a1 a2
      simp [advance, a1]
      exact a2
    | cons y ys =>
      simp at a1 a2
      have := ih (c.next s).st ys a2
      simp [advance, a1]
      exact this

theorem nth_deq (c : Co) (k : Nat) (s : c.σ) (ys : List Val) (h : Deq c s ys) :
    Deq c (nth c k s).st (ys.drop (k + 1)) := by
  have ⟨a1, _⟩ := advance_fwd c k s ys (deq_fwd h)
  have a2 := advance_deq c k s ys h
  unfold nth
  generalize advance c k s = r at a1 a2
  obtain ⟨ok, s', e⟩ := r
  by_cases hk : k ≤ ys.length
  · have hok : ok = true := by simpa [hk] using a1
    subst hok
    have ⟨⟨_, t⟩, _⟩ := deq_iff.mp a2
    rw [List.tail_drop] at t
    exact t
  · have hok : ok = false := by simpa [hk] using a1
    subst hok
    have hd : ys.drop k = [] := by simp; omega
    have hd' : ys.drop (k + 1) = [] := by simp; omega
    rw [hd']
    rw [hd] at a2
    exact a2

/-- `Skip::next_back` first performs the pending forward skip, then takes from the back -/
theorem skip_deq (c : Co) (s : c.σ) (k : Nat) (ys : List Val) (h : Deq c s ys) :
    Deq (skipCo c) (s, k) (ys.drop k) := by
  apply deq_coind (skipCo c) (fun (st : c.σ × Nat) xs => ∃ ys, Deq c st.1 ys ∧ xs = ys.drop st.2)
  · intro (st : c.σ × Nat) xs ⟨ys, h, e⟩
    subst e
    have hf := deq_fwd h
    constructor
    · by_cases hk : st.2 > 0
      · have ⟨n1, _⟩ := nth_fwd c st.2 st.1 ys hf
        have hd := nth_deq c st.2 st.1 ys h
        have e1 : (skipCo c).next st =
            ⟨(nth c st.2 st.1).out, ((nth c st.2 st.1).st, 0), (nth c st.2 st.1).ev⟩ := by
          simp [skipCo, hk]
        rw [e1]
        refine ⟨n1, ys.drop (st.2 + 1), hd, ?_⟩
        simp [List.tail_drop]
      · have hz : st.2 = 0 := by omega
        have ⟨⟨a1, a2⟩, _⟩ := deq_iff.mp h
        have e1 : (skipCo c).next st = ⟨(c.next st.1).out, ((c.next st.1).st, 0), (c.next st.1).ev⟩ := by
          simp [skipCo, hz]
        rw [e1, hz]
        exact ⟨by simpa using a1, ys.tail, a2, by simp⟩
    · by_cases hk : st.2 > 0
      · -- `nth (remaining - 1)` consumes `remaining` elements, then `next_back` on what is left
        have hd := nth_deq c (st.2 - 1) st.1 ys h
        have hk' : st.2 - 1 + 1 = st.2 := by omega
        rw [hk'] at hd
        have ⟨_, ⟨b1, b2⟩⟩ := deq_iff.mp hd
        have e1 : (skipCo c).back st =
            ⟨(c.back (nth c (st.2 - 1) st.1).st).out, ((c.back (nth c (st.2 - 1) st.1).st).st, 0),
             (nth c (st.2 - 1) st.1).ev ++ (c.back (nth c (st.2 - 1) st.1).st).ev⟩ := by
          simp [skipCo, hk]
        rw [e1]
        exact ⟨b1, (ys.drop st.2).dropLast, b2, by simp⟩
      · have hz : st.2 = 0 := by omega
        have ⟨_, ⟨b1, b2⟩⟩ := deq_iff.mp h
        have e1 : (skipCo c).back st = ⟨(c.back st.1).out, ((c.back st.1).st, 0), (c.back st.1).ev⟩ := by
          simp [skipCo, hz]
        rw [e1, hz]
        exact ⟨by simpa using b1, ys.dropLast, b2, by simp⟩
  · exact ⟨ys, h, rfl⟩


/-! ### ranges (`KRange::pop_front` / `pop_back`) -/

/-- `a, a+1, …` (`n` values) -/
def upto (a : Int) : Nat → List Val
  | 0 => []
  | n + 1 => Val.int a :: upto (a + 1) n

theorem upto_snoc (a : Int) (n : Nat) : upto a (n + 1) = upto a n ++ [Val.int (a + n)] := by
  induction n generalizing a with
  | zero => simp [upto]
  | succ n ih =>
    have := ih (a + 1)
    simp only [upto] at this ⊢
    rw [this]
    have : a + 1 + (n : Int) = a + ((n + 1 : Nat) : Int) := by omega
    rw [this]
    rfl

theorem upto_eq_map (a : Int) (n : Nat) :
    upto a n = (List.range n).map (fun (i : Nat) => Val.int (a + i)) := by
  induction n generalizing a with
  | zero => rfl
  | succ n ih =>
    rw [List.range_succ_eq_map]
    simp only [upto, List.map_cons, List.map_map, ih (a + 1)]
    congr 1
    · simp
    · apply List.map_congr_left
      intro i _
      simp only [Function.comp]
      have : a + 1 + (i : Int) = a + ((i + 1 : Nat) : Int) := by omega
      rw [this]

/-- number of values left in a bounded range (descending ranges are empty) -/
def Rng.count (r : Rng) : Nat := ((if r.incl then r.b + 1 else r.b) - r.a).toNat

theorem range_deq (r : Rng) : Deq rangeCo r (upto r.a r.count) := by
  apply deq_coind rangeCo (fun (r : Rng) xs => xs = upto r.a r.count)
  · intro (r : Rng) xs e
    subst e
    obtain ⟨a, b, incl⟩ := r
    constructor
    · by_cases h1 : a < b
      · have hc : Rng.count ⟨a, b, incl⟩ = Rng.count ⟨a + 1, b, incl⟩ + 1 := by
          cases incl <;> simp [Rng.count] <;> omega
        have e : rangeCo.next ⟨a, b, incl⟩ = ⟨some (Val.int a), ⟨a + 1, b, incl⟩, []⟩ := by
          simp [rangeCo, Rng.popFront, h1]
        rw [e, hc]
        exact ⟨rfl, rfl⟩
      · by_cases h2 : a = b ∧ incl = true
        · obtain ⟨rfl, rfl⟩ := h2
          have hc : Rng.count ⟨a, a, true⟩ = 1 := by simp [Rng.count]; omega
          have hc' : Rng.count ⟨a, a, false⟩ = 0 := by simp [Rng.count]
          have e : rangeCo.next ⟨a, a, true⟩ = ⟨some (Val.int a), ⟨a, a, false⟩, []⟩ := by
            simp [rangeCo, Rng.popFront]
          rw [e, hc]
          refine ⟨rfl, ?_⟩
          show [] = upto a (Rng.count ⟨a, a, false⟩)
          rw [hc']; rfl
        · have hc : Rng.count ⟨a, b, incl⟩ = 0 := by
            cases incl <;> simp [Rng.count] <;> simp at h2 <;> omega
          have e : rangeCo.next ⟨a, b, incl⟩ = ⟨none, ⟨a, b, incl⟩, []⟩ := by
            by_cases h3 : a = b
            · have : incl = false := by cases incl <;> simp_all
              subst this; subst h3
              simp [rangeCo, Rng.popFront]
            · simp [rangeCo, Rng.popFront, h1, h3]
          rw [e, hc]
          exact ⟨rfl, rfl⟩
    · by_cases h1 : a < b
      · have hc : Rng.count ⟨a, b, incl⟩ = Rng.count ⟨a, b - 1, incl⟩ + 1 := by
          cases incl <;> simp [Rng.count] <;> omega
        have hl : a + (Rng.count ⟨a, b - 1, incl⟩ : Int) = (if incl then b else b - 1) := by
          cases incl <;> simp [Rng.count] <;> omega
        have e : rangeCo.back ⟨a, b, incl⟩ =
            ⟨some (Val.int (if incl then b else b - 1)), ⟨a, b - 1, incl⟩, []⟩ := by
          simp [rangeCo, Rng.popBack, h1]
        rw [e, hc, upto_snoc, hl]
        refine ⟨by simp, ?_⟩
        simp
      · by_cases h2 : a = b ∧ incl = true
        · obtain ⟨rfl, rfl⟩ := h2
          have hc : Rng.count ⟨a, a, true⟩ = 1 := by simp [Rng.count]; omega
          have hc' : Rng.count ⟨a, a, false⟩ = 0 := by simp [Rng.count]
          have e : rangeCo.back ⟨a, a, true⟩ = ⟨some (Val.int a), ⟨a, a, false⟩, []⟩ := by
            simp [rangeCo, Rng.popBack]
          rw [e, hc]
          refine ⟨rfl, ?_⟩
          show [] = upto a (Rng.count ⟨a, a, false⟩)
          rw [hc']; rfl
        · have hc : Rng.count ⟨a, b, incl⟩ = 0 := by
            cases incl <;> simp [Rng.count] <;> simp at h2 <;> omega
          have e : rangeCo.back ⟨a, b, incl⟩ = ⟨none, ⟨a, b, incl⟩, []⟩ := by
            by_cases h3 : a = b
            · have : incl = false := by cases incl <;> simp_all
              subst this; subst h3
              simp [rangeCo, Rng.popBack]
            · simp [rangeCo, Rng.popBack, h1, h3]
          rw [e, hc]
          exact ⟨rfl, rfl⟩
  · rfl

end KotoVerif.Iter
