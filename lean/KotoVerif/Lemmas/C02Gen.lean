/-
Helper lemmas for C02 (generators): `next` (run to the next yield) against the straight-through
run of the same machine.
-/
import KotoVerif.Model.Gen

namespace KotoVerif.C02
open KotoVerif.Gen

/-- the machine has nothing left to run (the body has returned) -/
def Halted (c : Cfg) : Prop := step c = none

theorem run_zero (c : Cfg) : run 0 c = ([], c) := rfl

theorem run_succ_none (n : Nat) (c : Cfg) (h : step c = none) : run (n + 1) c = ([], c) := by
  simp [run, h]

theorem run_succ_some (n : Nat) (c c' : Cfg) (ev : Option Event) (h : step c = some (ev, c')) :
    run (n + 1) c = (ev.toList ++ (run n c').1, (run n c').2) := by
  simp [run, h]

theorem run_halted (n : Nat) (c : Cfg) (h : Halted c) : run n c = ([], c) := by
  cases n with
  | zero => rfl
  | succ n => exact run_succ_none n c h

/-- running `a` steps and then `b` more is running `a + b` steps -/
theorem run_add (a b : Nat) (c : Cfg) :
    run (a + b) c = ((run a c).1 ++ (run b (run a c).2).1, (run b (run a c).2).2) := by
  induction a generalizing c with
  | zero => simp [run]
  | succ a ih =>
    have e : a + 1 + b = (a + b) + 1 := by omega
    rw [e]
    cases hs : step c with
    | none =>
      rw [run_succ_none _ _ hs, run_succ_none _ _ hs]
      simp [run_halted b c hs]
    | some p =>
      obtain ⟨ev, c'⟩ := p
      rw [run_succ_some _ _ _ _ hs, run_succ_some _ _ _ _ hs, ih c']
      simp [List.append_assoc]

/-- `next` returning a value = the machine ran (some number of steps) through emits only, then
executed exactly one `yield`, and is paused right after it -/
theorem next_yielded (n : Nat) (c : Cfg) (es : List Int64) (v : Int64) (c' : Cfg) (m : Nat)
    (h : next n c = .yielded es v c' m) :
    ∃ k, run k c = (es.map Event.emit ++ [Event.yield v], c') := by
  induction n generalizing c es m with
  | zero => simp [next] at h
  | succ n ih =>
    unfold next at h
    cases hs : step c with
    | none => simp [hs] at h
    | some p =>
      obtain ⟨ev, c1⟩ := p
      cases ev with
      | none =>
        simp only [hs] at h
        obtain ⟨k, hk⟩ := ih c1 es m h
        exact ⟨k + 1, by rw [run_succ_some _ _ _ _ hs, hk]; rfl⟩
      | some e =>
        cases e with
        | yield w =>
          simp only [hs, NextResult.yielded.injEq] at h
          obtain ⟨h1, h2, h3, _⟩ := h
          subst h1 h2 h3
          exact ⟨1, by rw [run_succ_some _ _ _ _ hs]; rfl⟩
        | emit w =>
          simp only [hs] at h
          cases hn : next n c1 with
          | yielded es1 v1 c2 m1 =>
            simp only [hn, NextResult.yielded.injEq] at h
            obtain ⟨h1, h2, h3, _⟩ := h
            subst h1 h2 h3
            obtain ⟨k, hk⟩ := ih c1 es1 m1 hn
            exact ⟨k + 1, by rw [run_succ_some _ _ _ _ hs, hk]; rfl⟩
          | finished es1 c2 => simp [hn] at h
          | outOfFuel es1 c2 => simp [hn] at h

/-- `next` reporting the end = the machine ran through emits only and the body has returned -/
theorem next_finished (n : Nat) (c : Cfg) (es : List Int64) (c' : Cfg)
    (h : next n c = .finished es c') :
    ∃ k, run k c = (es.map Event.emit, c') ∧ Halted c' := by
  induction n generalizing c es with
  | zero => simp [next] at h
  | succ n ih =>
    unfold next at h
    cases hs : step c with
    | none =>
      simp only [hs, NextResult.finished.injEq] at h
      obtain ⟨h1, h2⟩ := h
      subst h1 h2
      exact ⟨0, rfl, hs⟩
    | some p =>
      obtain ⟨ev, c1⟩ := p
      cases ev with
      | none =>
        simp only [hs] at h
        obtain ⟨k, hk, hh⟩ := ih c1 es h
        exact ⟨k + 1, by rw [run_succ_some _ _ _ _ hs, hk]; rfl, hh⟩
      | some e =>
        cases e with
        | yield w => simp [hs] at h
        | emit w =>
          simp only [hs] at h
          cases hn : next n c1 with
          | yielded es1 v1 c2 m1 => simp [hn] at h
          | finished es1 c2 =>
            simp only [hn, NextResult.finished.injEq] at h
            obtain ⟨h1, h2⟩ := h
            subst h1 h2
            obtain ⟨k, hk, hh⟩ := ih c1 es1 hn
            exact ⟨k + 1, by rw [run_succ_some _ _ _ _ hs, hk]; rfl, hh⟩
          | outOfFuel es1 c2 => simp [hn] at h

/-- after the end, `next` keeps reporting the end and the machine does not move -/
theorem next_after_end (n : Nat) (c : Cfg) (h : Halted c) : next (n + 1) c = .finished [] c := by
  unfold next
  simp [show step c = none from h]

theorem interleave_append (a b : List Event) : interleave (a ++ b) = interleave a ++ interleave b := by
  induction a with
  | nil => rfl
  | cons e a ih => cases e <;> simp [interleave, ih]

theorem interleave_emits (es : List Int64) : interleave (es.map Event.emit) = es.map T.g := by
  induction es with
  | nil => rfl
  | cons e es ih => simp [interleave, ih]

theorem yields_append (a b : List Event) : yields (a ++ b) = yields a ++ yields b := by
  induction a with
  | nil => rfl
  | cons e a ih => cases e <;> simp [yields, ih]

theorem yields_emits (es : List Int64) : yields (es.map Event.emit) = [] := by
  induction es with
  | nil => rfl
  | cons e es ih => simp [yields, ih]

/-- the generator's own emits of a straight-through run -/
def emitsOf : List Event → List Int64
  | [] => []
  | .emit v :: r => v :: emitsOf r
  | .yield _ :: r => emitsOf r

theorem emitsOf_append (a b : List Event) : emitsOf (a ++ b) = emitsOf a ++ emitsOf b := by
  induction a with
  | nil => rfl
  | cons e a ih => cases e <;> simp [emitsOf, ih]

theorem emitsOf_emits (es : List Int64) : emitsOf (es.map Event.emit) = es := by
  induction es with
  | nil => rfl
  | cons e es ih => simp [emitsOf, ih]

end KotoVerif.C02
