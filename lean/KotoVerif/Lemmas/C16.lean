/-
C16 helper lemmas: the erasure invariant `Good` and its closure under the evaluator's combinators.
-/
import KotoVerif.Model.HintEval

namespace KotoVerif.C16
open KotoVerif.Types KotoVerif.HintEval

/-- A computation indexed by `checks` is *good* when, from every state, the run with checks enabled
never decreases the ghost counter of failed assertions, and — if that counter did not move, i.e. no
assertion failed — the run with checks disabled returns exactly the same result and state. -/
def Good {α : Type} (m : Bool → St → α × St) : Prop :=
  ∀ s, s.fails ≤ (m true s).2.fails ∧ ((m true s).2.fails = s.fails → m false s = m true s)

theorem good_const {α : Type} (g : St → α × St) (hg : ∀ s, (g s).2.fails = s.fails) :
    Good (fun _ s => g s) := by
  intro s
  exact ⟨by rw [hg s]; exact Nat.le_refl _, fun _ => rfl⟩

theorem good_bindR {α β : Type} {m : Bool → St → α × St} {k : Bool → α → St → β × St}
    (hm : Good m) (hk : ∀ a, Good (fun c s => k c a s)) :
    Good (fun c s => bindR (m c s) (k c)) := by
  intro s
  have h1 := hm s
  have h2 := hk (m true s).1 (m true s).2
  simp only [bindR] at *
  refine ⟨Nat.le_trans h1.1 h2.1, fun h => ?_⟩
  have e1 : (m true s).2.fails = s.fails := by omega
  have e2 : (k true (m true s).1 (m true s).2).2.fails = (m true s).2.fails := by omega
  rw [h1.2 e1, h2.2 e2]

theorem good_andThen {m : Bool → St → Res × St} {k : Bool → V → St → Res × St}
    (hm : Good m) (hk : ∀ v, Good (fun c s => k c v s)) :
    Good (fun c s => andThen (m c s) (k c)) := by
  have : (fun c s => andThen (m c s) (k c)) =
      (fun c s => bindR (m c s) (fun r s1 => match r with | .ok v => k c v s1 | r => (r, s1))) := by
    funext c s
    simp only [andThen, bindR]
    split <;> simp_all
  rw [this]
  apply good_bindR hm
  intro r
  cases r with
  | ok v => exact hk v
  | ret v => exact good_const _ (fun _ => rfl)
  | err e => exact good_const _ (fun _ => rfl)
  | stuck n => exact good_const _ (fun _ => rfl)

/-- running a good computation from a state that was first changed without touching `fails` -/
theorem good_pre {α : Type} {m : Bool → St → α × St} (f : St → St) (hf : ∀ s, (f s).fails = s.fails)
    (hm : Good m) : Good (fun c s => m c (f s)) := by
  intro s
  have h := hm (f s)
  rw [hf s] at h
  exact h

theorem good_restore {m : Bool → St → Res × St} (s0 : St) (hm : Good m) :
    Good (fun c s => restore s0 (m c s)) := by
  intro s
  have h := hm s
  simp only [restore]
  refine ⟨h.1, fun e => ?_⟩
  rw [h.2 e]

theorem good_assert (h : Option Hint) (v : V) : Good (fun c s => assertHint c h v s) := by
  intro s
  cases h with
  | none => simp [assertHint]
  | some h =>
    simp only [assertHint]
    by_cases hc : check h.name h.opt v = true
    · simp [hc]
    · simp [hc]

theorem good_assert_pre (h : Option Hint) (v : V) (f : St → St) (hf : ∀ s, (f s).fails = s.fails) :
    Good (fun c s => assertHint c h v (f s)) :=
  good_pre f hf (good_assert h v)

theorem good_bindOne (b : Binder) (v : V) : Good (fun c s => bindOne c b v s) := by
  unfold bindOne
  apply good_assert_pre
  intro s
  cases b.1 <;> rfl

theorem good_bindMany (bs : List Binder) : ∀ vs, Good (fun c s => bindMany c bs vs s) := by
  induction bs with
  | nil => intro vs; exact good_const _ (fun _ => rfl)
  | cons b bs ih =>
    intro vs
    simp only [bindMany]
    exact good_andThen (good_bindOne b _) (fun _ => ih _)

theorem good_bindLoop (bs : List Binder) (item : V) : Good (fun c s => bindLoop c bs item s) := by
  unfold bindLoop
  split
  · exact good_const _ (fun _ => rfl)
  · exact good_bindOne _ _
  · split
    · exact good_bindMany _ _
    · exact good_const _ (fun _ => rfl)

theorem good_ret {α : Type} (a : α) : Good (fun (_ : Bool) s => (a, s)) := good_const _ (fun _ => rfl)

theorem good_restore_self {m : Bool → St → Res × St} (hm : Good m) :
    Good (fun c s => restore s (m c s)) := by
  intro s
  have h := hm s
  simp only [restore]
  refine ⟨h.1, fun e => ?_⟩
  rw [h.2 e]

theorem good_assert_out (v : V) : Good (fun c s => assertHint c s.out v s) :=
  fun s => good_assert s.out v s

theorem good_finishCall (out : Option Hint) (r : Res) : Good (fun c s => finishCall c out r s) := by
  unfold finishCall
  split
  · exact good_andThen (good_assert _ _) (fun _ => good_ret _)
  · exact good_ret _
  · exact good_ret _

theorem setOpt_fails (s : St) (x : Option Var) (v : V) : (s.setOpt x v).fails = s.fails := by
  cases x <;> rfl

theorem pat_fails : ∀ k,
    (∀ p v s, (patM k p v s).2.fails = s.fails) ∧ (∀ ps vs s, (patsM k ps vs s).2.fails = s.fails) := by
  intro k
  induction k with
  | zero => exact ⟨fun p v s => by simp [patM], fun ps vs s => by simp [patsM]⟩
  | succ k ih =>
    constructor
    · intro p v s
      cases p with
      | b x h =>
        simp only [patM]
        split
        · exact setOpt_fails s x v
        · split
          · exact setOpt_fails s x v
          · rfl
      | lit n => simp [patM]
      | tup ps =>
        simp only [patM]
        split
        · split
          · exact ih.2 _ _ _
          · rfl
        · rfl
        · rfl
    · intro ps vs s
      cases ps with
      | nil => simp [patsM]
      | cons p ps =>
        simp only [patsM]
        have h1 := ih.1 p (vs.headD .null) s
        split
        · next s1 heq =>
          rw [heq] at h1
          rw [ih.2 ps vs.tail s1]; exact h1
        · exact h1

theorem altsM_fails (k : Nat) (alts : List (List P)) (vs : List V) : ∀ s, (altsM k alts vs s).2.fails = s.fails := by
  induction alts with
  | nil => intro s; rfl
  | cons alt alts ih =>
    intro s
    simp only [altsM]
    have h1 := (pat_fails k).2 alt vs s
    split
    · next s1 heq =>
      rw [heq] at h1
      rw [ih s1]; exact h1
    · exact h1

theorem armM_fails (k : Nat) (alts : List (List P)) (vs : List V) (s : St) : (armM k alts vs s).2.fails = s.fails := by
  unfold armM
  split
  · rfl
  · exact altsM_fails k alts vs s

theorem good_bindArg : ∀ k,
    (∀ p v, Good (fun c s => bindArg c k p v s)) ∧ (∀ ps vs, Good (fun c s => bindArgs c k ps vs s)) := by
  intro k
  induction k with
  | zero =>
    exact ⟨fun p v => by simp only [bindArg]; exact good_ret _, fun ps vs => by simp only [bindArgs]; exact good_ret _⟩
  | succ k ih =>
    constructor
    · intro p v
      cases p with
      | b x h => simp only [bindArg]; exact good_bindOne _ _
      | lit n => simp only [bindArg]; exact good_ret _
      | tup ps =>
        simp only [bindArg]
        split
        · split
          · exact ih.2 _ _
          · exact good_ret _
        · exact good_ret _
    · intro ps vs
      cases ps with
      | nil => simp only [bindArgs]; exact good_ret _
      | cons p ps =>
        simp only [bindArgs]
        exact good_andThen (ih.1 p _) (fun _ => ih.2 ps _)

theorem selectCatch_fails (cv : V) (typed : List CatchArm) (x : Option Var) (final : Expr) :
    ∀ s, (selectCatch cv typed x final s).2.fails = s.fails := by
  induction typed with
  | nil => intro s; cases x <;> rfl
  | cons a rest ih =>
    intro s
    cases a with
    | mk y h body =>
      simp only [selectCatch]
      split
      · cases y <;> rfl
      · exact ih s

/-- The erasure invariant for all five mutually recursive evaluator functions at fuel `n`. -/
structure GoodAt (F : Funs) (n : Nat) : Prop where
  eval : ∀ e, Good (fun c s => eval c F n e s)
  args : ∀ es, Good (fun c s => evalArgs c F n es s)
  forItems : ∀ bs xs body last, Good (fun c s => forItems c F n bs xs body last s)
  forGen : ∀ bs i genv st pc body last, Good (fun c s => forGen c F n bs i genv st pc body last s)
  genNext : ∀ i st pc, Good (fun c s => genNext c F n i st pc s)
  matchArms : ∀ vs arms, Good (fun c s => matchArms c F n vs arms s)
  unpackGen : ∀ bs i genv st pc, Good (fun c s => unpackGen c F n bs i genv st pc s)

theorem goodAt_zero (F : Funs) : GoodAt F 0 := by
  constructor
  · intro e; simp only [eval]; exact good_ret _
  · intro es; simp only [evalArgs]; exact good_ret _
  · intro bs xs body last; simp only [forItems]; exact good_ret _
  · intro bs i genv st pc body last; simp only [forGen]; exact good_ret _
  · intro i st pc; simp only [genNext]; exact good_ret _
  · intro vs arms; simp only [matchArms]; exact good_ret _
  · intro bs i genv st pc; simp only [unpackGen]; exact good_ret _

theorem good_eval_succ (F : Funs) (n : Nat) (ih : GoodAt F n) (e : Expr) :
    Good (fun c s => eval c F (n + 1) e s) := by
  cases e with
  | lit v => simp only [eval]; exact good_ret _
  | var x =>
    simp only [eval]
    apply good_const
    intro s; split <;> rfl
  | add a b =>
    simp only [eval]
    refine good_andThen (ih.eval a) (fun va => good_andThen (ih.eval b) (fun vb => ?_))
    split <;> exact good_ret _
  | lt a b =>
    simp only [eval]
    refine good_andThen (ih.eval a) (fun va => good_andThen (ih.eval b) (fun vb => ?_))
    split <;> exact good_ret _
  | typeOf e =>
    simp only [eval]
    exact good_andThen (ih.eval e) (fun v => good_ret _)
  | letH x h e =>
    simp only [eval]
    refine good_andThen (ih.eval e) (fun v => good_andThen (good_assert_pre h v _ ?_) (fun _ => good_ret _))
    intro s; cases x <;> rfl
  | letTemps bs es =>
    simp only [eval]
    refine good_andThen (ih.args es) (fun r => ?_)
    split
    · split
      · exact good_ret _
      · exact good_andThen (good_bindMany _ _) (fun _ => good_ret _)
    · exact good_ret _
  | letUnpack bs e =>
    simp only [eval]
    refine good_andThen (ih.eval e) (fun v => ?_)
    split
    · exact good_andThen (ih.unpackGen _ _ _ _ _) (fun _ => good_ret _)
    · split
      · exact good_andThen (good_bindMany _ _) (fun _ => good_ret _)
      · exact good_ret _
  | seq a b =>
    simp only [eval]
    exact good_andThen (ih.eval a) (fun _ => ih.eval b)
  | emit e =>
    simp only [eval]
    exact good_andThen (ih.eval e) (fun v => good_const _ (fun _ => rfl))
  | ite c t e =>
    simp only [eval]
    refine good_andThen (ih.eval c) (fun cv => ?_)
    split
    · exact ih.eval t
    · exact ih.eval e
  | forIn bs it body =>
    simp only [eval]
    refine good_andThen (ih.eval it) (fun iv => ?_)
    split
    · exact ih.forGen _ _ _ _ _ _ _
    · split
      · exact ih.forItems _ _ _ _
      · exact good_ret _
  | call f args =>
    simp only [eval]
    refine good_andThen (ih.eval f) (fun fv => good_andThen (ih.args args) (fun av => ?_))
    split
    · split
      · split
        · exact good_ret _
        · apply good_restore_self
          refine good_andThen (good_pre _ (fun _ => rfl) ((good_bindArg _).2 _ _)) (fun _ => ?_)
          exact good_bindR (ih.eval _) (fun r => good_finishCall _ r)
      · exact good_ret _
    · split
      · split <;> exact good_ret _
      · exact good_ret _
    · exact good_ret _
  | ret e =>
    simp only [eval]
    exact good_andThen (ih.eval e) (fun v => good_andThen (good_assert_out v) (fun _ => good_ret _))
  | throw e =>
    simp only [eval]
    exact good_andThen (ih.eval e) (fun v => good_ret _)
  | tryC body typed x final =>
    simp only [eval]
    refine good_bindR (ih.eval body) (fun r => ?_)
    split
    · exact good_bindR (good_const _ (selectCatch_fails _ _ _ _)) (fun blk => ih.eval blk)
    · exact good_ret _
  | matchE scruts arms =>
    simp only [eval]
    refine good_andThen (ih.args scruts) (fun r => ?_)
    split
    · exact ih.matchArms _ _
    · exact good_ret _

theorem goodAt_succ (F : Funs) (n : Nat) (ih : GoodAt F n) : GoodAt F (n + 1) := by
  constructor
  · exact good_eval_succ F n ih
  · intro es
    cases es with
    | nil => simp only [evalArgs]; exact good_ret _
    | cons e es =>
      simp only [evalArgs]
      refine good_andThen (ih.eval e) (fun v => good_andThen (ih.args es) (fun r => ?_))
      split <;> exact good_ret _
  · intro bs xs body last
    cases xs with
    | nil => simp only [forItems]; exact good_ret _
    | cons v rest =>
      simp only [forItems]
      exact good_andThen (good_bindLoop bs v) (fun _ => good_andThen (ih.eval body) (fun w => ih.forItems _ _ _ _))
  · intro bs i genv st pc body last
    simp only [forGen]
    refine good_andThen (good_restore_self (good_pre _ (fun _ => rfl) (ih.genNext i st pc))) (fun r => ?_)
    split
    · exact good_andThen (good_bindLoop bs _) (fun _ => good_andThen (ih.eval body) (fun w => ih.forGen _ _ _ _ _ _ _))
    · exact good_ret _
  · intro i st pc
    simp only [genNext]
    split
    · refine good_andThen ?_ (fun _ => ?_)
      · split
        · exact good_ret _
        · exact fun s => good_pre (fun s' => { s' with env := [] }) (fun _ => rfl) ((good_bindArg _).2 _ (s.env.map (·.2))) s
      · split
        · exact good_ret _
        · exact good_andThen (ih.eval _) (fun v => good_andThen (good_assert _ _) (fun _ => good_const _ (fun _ => rfl)))
        · refine good_bindR (ih.eval _) (fun r => ?_)
          split
          · exact ih.genNext _ _ _
          · exact good_ret _
          · exact good_ret _
    · exact good_ret _
  · intro vs arms
    cases arms with
    | nil => simp only [matchArms]; exact good_ret _
    | cons arm rest =>
      cases arm with
      | mk alts guard body =>
        simp only [matchArms]
        refine good_bindR (good_const _ (armM_fails n alts vs)) (fun m => ?_)
        cases m with
        | yes =>
          cases guard with
          | none => exact ih.eval body
          | some g =>
            refine good_andThen (ih.eval g) (fun gv => ?_)
            split
            · exact ih.eval body
            · exact ih.matchArms _ _
        | no => exact ih.matchArms _ _
        | stuck => exact good_ret _
  · intro bs i genv st pc
    cases bs with
    | nil => simp only [unpackGen]; exact good_ret _
    | cons b bs =>
      simp only [unpackGen]
      refine good_andThen (good_restore_self (good_pre _ (fun _ => rfl) (ih.genNext i st pc))) (fun r => ?_)
      split
      · exact good_andThen (good_bindOne b _) (fun _ => ih.unpackGen _ _ _ _ _)
      · exact good_bindMany _ _

theorem goodAt (F : Funs) : ∀ n, GoodAt F n
  | 0 => goodAt_zero F
  | n + 1 => goodAt_succ F n (goodAt F n)

end KotoVerif.C16
