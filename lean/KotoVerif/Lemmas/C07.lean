/-
Lemmas for C07: the bracket invariant of `Model/Unwind.lean`.

While a host entry bracket opened in state `s0` is running, the continuation stack is
`Y ++ s0.conts` and the call stack is "what the conts in `Y` account for" on top of `s0.vm.stack`:
every `loop` cont owns the non-barrier frames above its barrier frame plus that barrier frame
(`peelAll`). This is an invariant of *every* event, in particular of unwinding across any number
of nested re-entries — including nested entries that leak registers.
-/
import KotoVerif.Model.Unwind

namespace KotoVerif.Unwind

/-! ### consistency of a VM state (holds whenever native/host code can run) -/

def topBase : List Frame → Nat
  | [] => 0
  | f :: _ => f.base

def topMin : List Frame → Nat
  | [] => 0
  | f :: _ => f.base + f.required

/-- `register_base` / `min_frame_registers` agree with the current frame, and the value stack
reaches at least the frame base. True for a fresh VM and whenever a frame has executed its
`NewFrame` (always the first instruction of a chunk / function body). -/
structure Consistent (vm : VM) : Prop where
  base : vm.base = topBase vm.stack
  minr : vm.minRegs = topMin vm.stack
  regs : vm.base ≤ vm.regs

/-! ### accounting of frames by continuations -/

/-- drop the non-barrier frames above a barrier frame, and that barrier frame -/
def dropLoop : List Frame → Option (List Frame)
  | [] => none
  | f :: rest => if f.barrier then some rest else dropLoop rest

def peelAll : List Cont → List Frame → Option (List Frame)
  | [], fs => some fs
  | .loop _ :: cs, fs => (dropLoop fs).bind (peelAll cs)
  | .native _ _ :: cs, fs => peelAll cs fs
  | .importing _ _ :: cs, fs => peelAll cs fs

def hasLoop : List Cont → Bool
  | [] => false
  | .loop _ :: _ => true
  | .native _ _ :: cs => hasLoop cs
  | .importing _ _ :: cs => hasLoop cs

def impMods : List Cont → List Nat
  | [] => []
  | .importing m _ :: cs => m :: impMods cs
  | .loop _ :: cs => impMods cs
  | .native _ _ :: cs => impMods cs

def isLoop : Cont → Bool
  | .loop _ => true
  | _ => false

theorem peelAll_noLoop : ∀ (Y : List Cont) (fs R : List Frame),
    hasLoop Y = false → peelAll Y fs = some R → fs = R := by
  intro Y
  induction Y with
  | nil => intro fs R _ h; simpa [peelAll] using h
  | cons c cs ih =>
    intro fs R hl h
    cases c with
    | loop x => simp [hasLoop] at hl
    | native a b => exact ih fs R (by simpa [hasLoop] using hl) (by simpa [peelAll] using h)
    | importing a b => exact ih fs R (by simpa [hasLoop] using hl) (by simpa [peelAll] using h)

theorem impMods_append_loops : ∀ (Z Y : List Cont), (∀ z ∈ Z, isLoop z = true) →
    impMods (Z ++ Y) = impMods Y := by
  intro Z
  induction Z with
  | nil => intro Y _; rfl
  | cons z zs ih =>
    intro Y h
    have hz := h z (by simp)
    cases z with
    | loop x => simpa [impMods] using ih Y (fun w hw => h w (by simp [hw]))
    | native a b => simp [isLoop] at hz
    | importing a b => simp [isLoop] at hz

/-! ### `popTo` -/

theorem popTo_fields (f : Frame) (rest : List Frame) (vm : VM) :
    (popTo f rest vm).1.stack = rest ∧ (popTo f rest vm).1.base = topBase rest ∧
    (popTo f rest vm).1.minRegs = topMin rest ∧
    (popTo f rest vm).1.placeholders = vm.placeholders ∧
    (popTo f rest vm).1.seq = min vm.seq f.seq0 ∧
    (popTo f rest vm).1.str = min vm.str f.str0 ∧ (popTo f rest vm).1.exports = vm.exports ∧
    (popTo f rest vm).1.cached = vm.cached := by
  cases rest with
  | nil => simp [popTo, topBase, topMin]
  | cons r rs => by_cases hb : f.barrier <;> simp [popTo, hb, topBase, topMin]

theorem popTo_stop_of_barrier (f : Frame) (rest : List Frame) (vm : VM) (hb : f.barrier = true) :
    (popTo f rest vm).2 = true ∧ ((popTo f rest vm).1.regs = vm.regs) := by
  cases rest with
  | nil => simp [popTo]
  | cons r rs => simp [popTo, hb]

theorem popTo_continue (f : Frame) (r : Frame) (rs : List Frame) (vm : VM) (hb : f.barrier = false) :
    (popTo f (r :: rs) vm).2 = false := by
  simp [popTo, hb]

/-! ### unwinding (`pop_call_stack_on_error`) -/

/-- What `unwindGo` guarantees when the frames above the innermost barrier are accounted for by the
running loop: it never pops past that barrier; caught ⇒ the accounting is unchanged; uncaught ⇒ the
barrier frame is on top. Builders, exports and the module cache are never touched. -/
theorem unwindGo_spec (c : Bool) : ∀ (fs : List Frame) (vm : VM) (R : List Frame),
    vm.stack = fs → vm.base = topBase fs → dropLoop fs = some R →
    let r := unwindGo c fs vm
    dropLoop r.1.stack = some R ∧ r.1.base = topBase r.1.stack ∧
    (r.2 = none → ∃ b, r.1.stack = b :: R ∧ b.barrier = true) ∧
    r.1.placeholders = vm.placeholders ∧ r.1.seq ≤ vm.seq ∧ r.1.str ≤ vm.str ∧
    r.1.exports = vm.exports ∧ r.1.cached = vm.cached := by
  intro fs
  induction fs with
  | nil => intro vm R _ _ h; simp [dropLoop] at h
  | cons f rest ih =>
    intro vm R hs hb hd
    unfold unwindGo
    split
    · -- caught by this frame
      simp [hs, hb, hd]
      exact ⟨Nat.min_le_left _ _, Nat.min_le_left _ _⟩
    · by_cases hbar : f.barrier = true
      · simp [hbar, hs, hb]
        simp [dropLoop, hbar] at hd
        simp [dropLoop, hbar, hd]
      · have hbar' : f.barrier = false := by simpa using hbar
        simp [hbar']
        have hd' : dropLoop rest = some R := by simpa [dropLoop, hbar'] using hd
        have hp := popTo_fields f rest vm
        have := ih (popTo f rest vm).1 R hp.1 hp.2.1 hd'
        simp only [] at this
        refine ⟨this.1, this.2.1, this.2.2.1, ?_, ?_, ?_, ?_, ?_⟩
        · rw [this.2.2.2.1, hp.2.2.2.1]
        · exact Nat.le_trans this.2.2.2.2.1 (by rw [hp.2.2.2.2.1]; exact Nat.min_le_left _ _)
        · exact Nat.le_trans this.2.2.2.2.2.1 (by rw [hp.2.2.2.2.2.1]; exact Nat.min_le_left _ _)
        · rw [this.2.2.2.2.2.2.1, hp.2.2.2.2.2.2.1]
        · rw [this.2.2.2.2.2.2.2, hp.2.2.2.2.2.2.2]


/-! ### the bracket invariant -/

/-- What is known when the bracket's own continuation `e` has been popped: an entry that ends with
`truncate_registers(rr)` leaves at most `register_base + rr` registers. -/
def DoneP (e : Cont) (vm : VM) : Prop :=
  match e with
  | .loop (.truncate rr) => vm.regs ≤ vm.base + rr
  | _ => True

structure Inv (s0 : St) (e : Cont) (st : St) (Y : List Cont) : Prop where
  conts : st.conts = Y ++ s0.conts
  peel : peelAll Y st.vm.stack = some s0.vm.stack
  base : st.vm.base = topBase st.vm.stack
  minr : hasLoop Y = false → st.vm.minRegs = s0.vm.minRegs
  ph : st.vm.placeholders = impMods Y ++ s0.vm.placeholders
  lastc : Y ≠ [] → Y.getLast? = some e
  done : Y = [] → DoneP e st.vm

theorem raiseGo_loop (x : Exit) (rest : List Cont) (c : Bool) (vm : VM) :
    raiseGo (.loop x :: rest) c vm =
      match unwind c vm with
      | (vm1, some _) => ⟨vm1, .loop x :: rest⟩
      | (vm1, none) =>
        if (match rest with | .loop _ :: _ => true | _ => false)
        then raiseGo rest true (exitErr x vm1) else ⟨exitErr x vm1, rest⟩ := by
  rcases h : unwind c vm with ⟨vm1, _ | cr⟩
  · cases rest with
    | nil => simp [raiseGo, h]
    | cons r rs => cases r <;> simp [raiseGo, h]
  · cases rest with
    | nil => simp [raiseGo, h]
    | cons r rs => cases r <;> simp [raiseGo, h]

theorem raiseGo_notLoop (conts : List Cont) (c : Bool) (vm : VM)
    (h : (match conts with | .loop _ :: _ => true | _ => false) = false) :
    raiseGo conts c vm = ⟨vm, conts⟩ := by
  cases conts with
  | nil => simp [raiseGo]
  | cons r rs => cases r <;> simp_all [raiseGo]

theorem truncate_fields (rr : Nat) (vm : VM) :
    (truncate rr vm).stack = vm.stack ∧ (truncate rr vm).base = vm.base ∧
    (truncate rr vm).minRegs = vm.minRegs ∧ (truncate rr vm).placeholders = vm.placeholders ∧
    (truncate rr vm).regs ≤ vm.base + rr := by
  simp [truncate]; omega

theorem exitErr_fields (x : Exit) (vm : VM) (b : Frame) (R : List Frame) (hs : vm.stack = b :: R) :
    (exitErr x vm).stack = R ∧ (exitErr x vm).base = topBase R ∧ (exitErr x vm).minRegs = topMin R ∧
    (exitErr x vm).placeholders = vm.placeholders ∧ DoneP (.loop x) (exitErr x vm) := by
  have hp := popTo_fields b R vm
  cases x with
  | truncate rr =>
    have ht := truncate_fields rr (popTo b R vm).1
    simp only [exitErr, popFrameD, popFrame, hs, DoneP]
    refine ⟨?_, ?_, ?_, ?_, ?_⟩
    · rw [ht.1, hp.1]
    · rw [ht.2.1, hp.2.1]
    · rw [ht.2.2.1, hp.2.2.1]
    · rw [ht.2.2.2.1, hp.2.2.2.1]
    · exact ht.2.2.2.2
  | propagate =>
    simp only [exitErr, popFrameD, popFrame, hs, DoneP]
    exact ⟨hp.1, hp.2.1, hp.2.2.1, hp.2.2.2.1, trivial⟩

theorem inLoop_eq (st : St) :
    inLoop st = (match st.conts with | .loop _ :: _ => true | _ => false) := rfl

/-- Raising an error anywhere inside the bracket keeps the invariant: unwinding pops exactly the
frames owned by the loops it terminates, never a frame of the bracket's caller. -/
theorem raiseGo_inv (s0 : St) (e : Cont) (hs0 : inLoop s0 = false) (hc : Consistent s0.vm) :
    ∀ (Y : List Cont) (c : Bool) (vm : VM),
      peelAll Y vm.stack = some s0.vm.stack → vm.base = topBase vm.stack →
      (hasLoop Y = false → vm.minRegs = s0.vm.minRegs) →
      vm.placeholders = impMods Y ++ s0.vm.placeholders →
      (Y ≠ [] → Y.getLast? = some e) →
      (Y = [] → DoneP e vm) →
      ∃ Y', Inv s0 e (raiseGo (Y ++ s0.conts) c vm) Y' := by
  intro Y
  induction Y with
  | nil =>
    intro c vm hp hb hm hph hl hd
    refine ⟨[], ?_⟩
    rw [List.nil_append, raiseGo_notLoop _ _ _ (by rw [← inLoop_eq]; exact hs0)]
    exact ⟨rfl, hp, hb, hm, hph, hl, hd⟩
  | cons c1 Y1 ih =>
    intro c vm hp hb hm hph hl hd
    cases c1 with
    | native a b =>
      refine ⟨.native a b :: Y1, ?_⟩
      rw [List.cons_append, raiseGo_notLoop _ _ _ (by simp)]
      exact ⟨rfl, hp, hb, hm, hph, hl, hd⟩
    | importing a b =>
      refine ⟨.importing a b :: Y1, ?_⟩
      rw [List.cons_append, raiseGo_notLoop _ _ _ (by simp)]
      exact ⟨rfl, hp, hb, hm, hph, hl, hd⟩
    | loop x =>
      rw [List.cons_append, raiseGo_loop]
      -- the frames owned by this loop
      simp only [peelAll] at hp
      cases hdl : dropLoop vm.stack with
      | none => simp [hdl] at hp
      | some R1 =>
        simp only [hdl, Option.bind_some] at hp
        have hu := unwindGo_spec c vm.stack vm R1 rfl hb hdl
        simp only [] at hu
        have hune : unwind c vm = unwindGo c vm.stack vm := rfl
        rw [hune]
        rcases hres : unwindGo c vm.stack vm with ⟨vm1, r⟩
        rw [hres] at hu
        simp only [] at hu
        cases r with
        | some cr =>
          -- caught: the loop continues
          refine ⟨.loop x :: Y1, ?_⟩
          simp only []
          refine ⟨rfl, ?_, hu.2.1, ?_, ?_, hl, ?_⟩
          · simp [peelAll, hu.1, hp]
          · intro h; simp [hasLoop] at h
          · rw [hu.2.2.2.1]; exact hph
          · intro h; simp at h
        | none =>
          obtain ⟨b, hstk, _⟩ := hu.2.2.1 rfl
          have hx := exitErr_fields x vm1 b R1 hstk
          have hph1 : (exitErr x vm1).placeholders = impMods Y1 ++ s0.vm.placeholders := by
            rw [hx.2.2.2.1, hu.2.2.2.1, hph]; simp [impMods]
          have hl1 : Y1 ≠ [] → Y1.getLast? = some e := by
            intro hne
            have := hl (by simp)
            cases Y1 with
            | nil => exact absurd rfl hne
            | cons y ys => simpa [List.getLast?_cons_cons] using this
          have hd1 : Y1 = [] → DoneP e (exitErr x vm1) := by
            intro hnil
            have := hl (by simp)
            subst hnil
            simp at this
            rw [← this]
            exact hx.2.2.2.2
          have hm1 : hasLoop Y1 = false → (exitErr x vm1).minRegs = s0.vm.minRegs := by
            intro hnl
            have := peelAll_noLoop Y1 R1 _ hnl hp
            rw [hx.2.2.1, this, hc.minr]
          have hp1 : peelAll Y1 (exitErr x vm1).stack = some s0.vm.stack := by rw [hx.1]; exact hp
          have hb1 : (exitErr x vm1).base = topBase (exitErr x vm1).stack := by rw [hx.2.1, hx.1]
          simp only []
          split
          · -- the caller is an instruction of an outer loop: the error is raised there
            exact ih true (exitErr x vm1) hp1 hb1 hm1 hph1 hl1 hd1
          · exact ⟨Y1, rfl, hp1, hb1, hm1, hph1, hl1, hd1⟩


/-! ### every event keeps the invariant -/

theorem getLast_cons_ne {α} (a : α) (l : List α) (h : l ≠ []) : (a :: l).getLast? = l.getLast? := by
  cases l with
  | nil => exact absurd rfl h
  | cons b bs => simp [List.getLast?_cons_cons]

/-- re-raise helper: the state's VM may have changed in `regs`/builders/exports only -/
theorem raise_inv_of (s0 : St) (e : Cont) (hs0 : inLoop s0 = false) (hc : Consistent s0.vm)
    (st : St) (Y : List Cont) (h : Inv s0 e st Y) (hY : Y ≠ []) (c : Bool) (vm : VM)
    (h1 : vm.stack = st.vm.stack) (h2 : vm.base = st.vm.base) (h3 : vm.minRegs = st.vm.minRegs)
    (h4 : vm.placeholders = st.vm.placeholders) :
    ∃ Y', Inv s0 e (raiseGo st.conts c vm) Y' := by
  rw [h.conts]
  apply raiseGo_inv s0 e hs0 hc Y c vm
  · rw [h1]; exact h.peel
  · rw [h1, h2]; exact h.base
  · intro hl; rw [h3]; exact h.minr hl
  · rw [h4]; exact h.ph
  · exact h.lastc
  · intro hn; exact absurd hn hY

theorem enterWith_inv (s0 : St) (e : Cont) (hs0 : inLoop s0 = false) (hc : Consistent s0.vm)
    (st : St) (Y : List Cont) (h : Inv s0 e st Y) (hY : Y ≠ []) (t : Bool) (pre args : Nat)
    (c : Callee) :
    ∃ Y', Inv s0 e (enterWith t pre args c st) Y' := by
  cases c with
  | koto a =>
    refine ⟨.loop (.truncate (nextRegister st.vm)) :: Y, ?_⟩
    refine ⟨?_, ?_, ?_, ?_, ?_, ?_, ?_⟩
    · simp [enterWith, h.conts]
    · simp [enterWith, callKoto, pushFrame, peelAll, dropLoop, h.peel]
    · simp [enterWith, callKoto, pushFrame, topBase]
    · intro hl; simp [hasLoop] at hl
    · simp [enterWith, callKoto, pushFrame, impMods, h.ph]
    · intro _; rw [getLast_cons_ne _ _ hY]; exact h.lastc hY
    · intro hn; simp at hn
  | native =>
    refine ⟨.native (nextRegister { st.vm with regs := st.vm.regs + pre })
      (some (nextRegister st.vm, t)) :: Y, ?_⟩
    refine ⟨?_, ?_, ?_, ?_, ?_, ?_, ?_⟩
    · simp [enterWith, h.conts]
    · simp [enterWith, peelAll, h.peel]
    · simp [enterWith, h.base]
    · intro hl; simp [enterWith]; exact h.minr (by simpa [hasLoop] using hl)
    · simp [enterWith, impMods, h.ph]
    · intro _; rw [getLast_cons_ne _ _ hY]; exact h.lastc hY
    · intro hn; simp at hn
  | fail =>
    simp only [enterWith]
    cases t with
    | true =>
      exact raise_inv_of s0 e hs0 hc st Y h hY true _ (by simp [truncate]) (by simp [truncate])
        (by simp [truncate]) (by simp [truncate])
    | false =>
      exact raise_inv_of s0 e hs0 hc st Y h hY true _ (by simp) (by simp) (by simp) (by simp)

theorem enter_inv (s0 : St) (e : Cont) (hs0 : inLoop s0 = false) (hc : Consistent s0.vm)
    (st : St) (Y : List Cont) (h : Inv s0 e st Y) (hY : Y ≠ []) (pre args : Nat) (c : Callee) :
    ∃ Y', Inv s0 e (enter pre args c st) Y' :=
  enterWith_inv s0 e hs0 hc st Y h hY true pre args c

theorem enterOp_inv (s0 : St) (e : Cont) (hs0 : inLoop s0 = false) (hc : Consistent s0.vm)
    (st : St) (Y : List Cont) (h : Inv s0 e st Y) (hY : Y ≠ []) (pre args : Nat) (c : Callee) :
    ∃ Y', Inv s0 e (enterOp pre args c st) Y' :=
  enterWith_inv s0 e hs0 hc st Y h hY true pre args c

theorem enterChecked_inv (s0 : St) (e : Cont) (hs0 : inLoop s0 = false) (hc : Consistent s0.vm)
    (st : St) (Y : List Cont) (h : Inv s0 e st Y) (hY : Y ≠ []) (pre args : Nat) (c : Callee) :
    ∃ Y', Inv s0 e (enterChecked pre args c st) Y' := by
  unfold enterChecked
  split
  · exact enter_inv s0 e hs0 hc st Y h hY pre args c
  · exact raise_inv_of s0 e hs0 hc st Y h hY true _ rfl rfl rfl rfl

theorem enterOpChecked_inv (s0 : St) (e : Cont) (hs0 : inLoop s0 = false) (hc : Consistent s0.vm)
    (st : St) (Y : List Cont) (h : Inv s0 e st Y) (hY : Y ≠ []) (pre args : Nat) (c : Callee) :
    ∃ Y', Inv s0 e (enterOpChecked pre args c st) Y' := by
  unfold enterOpChecked
  split
  · exact enterOp_inv s0 e hs0 hc st Y h hY pre args c
  · exact raise_inv_of s0 e hs0 hc st Y h hY true _ rfl rfl rfl rfl

theorem enterDirect_inv (s0 : St) (e : Cont) (hs0 : inLoop s0 = false) (hc : Consistent s0.vm)
    (st : St) (Y : List Cont) (h : Inv s0 e st Y) (hY : Y ≠ []) (pre : Nat) (ok : Bool) :
    ∃ Y', Inv s0 e (enterDirect pre ok st) Y' := by
  cases ok with
  | true =>
    refine ⟨Y, ?_⟩
    simp only [enterDirect, if_true]
    exact ⟨h.conts, by simpa [truncate] using h.peel, by simpa [truncate] using h.base,
      by simpa [truncate] using h.minr, by simpa [truncate] using h.ph, h.lastc,
      fun hn => absurd hn hY⟩
  | false =>
    simp only [enterDirect]
    exact raise_inv_of s0 e hs0 hc st Y h hY true _ (by simp [truncate]) (by simp [truncate])
      (by simp [truncate]) (by simp [truncate])

theorem enterDirectChecked_inv (s0 : St) (e : Cont) (hs0 : inLoop s0 = false)
    (hc : Consistent s0.vm) (st : St) (Y : List Cont) (h : Inv s0 e st Y) (hY : Y ≠ [])
    (pre : Nat) (ok : Bool) :
    ∃ Y', Inv s0 e (enterDirectChecked pre ok st) Y' := by
  unfold enterDirectChecked
  split
  · exact enterDirect_inv s0 e hs0 hc st Y h hY pre ok
  · exact raise_inv_of s0 e hs0 hc st Y h hY true _ rfl rfl rfl rfl

theorem nested_inv (s0 : St) (e : Cont) (hs0 : inLoop s0 = false) (hc : Consistent s0.vm)
    (st : St) (Y : List Cont) (h : Inv s0 e st Y) (hY : Y ≠ []) (args a : Nat) :
    ∃ Y', Inv s0 e (nested args a st) Y' := by
  by_cases hfb : st.vm.regs - st.vm.base > 255
  · simp only [nested, hfb, if_true, raise]
    exact raise_inv_of s0 e hs0 hc st Y h hY true _ rfl rfl rfl rfl
  · refine ⟨.loop .propagate :: Y, ?_⟩
    refine ⟨?_, ?_, ?_, ?_, ?_, ?_, ?_⟩
    · simp [nested, hfb, h.conts]
    · simp [nested, hfb, callKoto, pushFrame, peelAll, dropLoop, h.peel]
    · simp [nested, hfb, callKoto, pushFrame, topBase]
    · intro hl; simp [hasLoop] at hl
    · simp [nested, hfb, callKoto, pushFrame, impMods, h.ph]
    · intro _; rw [getLast_cons_ne _ _ hY]; exact h.lastc hY
    · intro hn; simp at hn

/-- events that only touch `regs` / builders / exports / cached / frame details that the
accounting does not look at -/
theorem inv_of_same (s0 : St) (e : Cont) (st st' : St) (Y : List Cont) (h : Inv s0 e st Y)
    (hY : Y ≠ [])
    (h0 : st'.conts = st.conts)
    (h1 : dropLoop st'.vm.stack = dropLoop st.vm.stack ∨ st'.vm.stack = st.vm.stack)
    (h2 : st'.vm.base = topBase st'.vm.stack)
    (h3 : hasLoop Y = false → st'.vm.minRegs = st.vm.minRegs)
    (h4 : st'.vm.placeholders = st.vm.placeholders)
    (hl : ∃ x Y1, Y = .loop x :: Y1 ∨ st'.vm.stack = st.vm.stack) :
    Inv s0 e st' Y := by
  refine ⟨by rw [h0, h.conts], ?_, h2, ?_, by rw [h4, h.ph], h.lastc, fun hn => absurd hn hY⟩
  · obtain ⟨x, Y1, hx⟩ := hl
    cases hx with
    | inl hx =>
      subst hx
      have := h.peel
      simp only [peelAll] at this ⊢
      cases h1 with
      | inl h1 => rw [h1]; exact this
      | inr h1 => rw [h1]; exact this
    | inr hx => rw [hx]; exact h.peel
  · intro hnl; rw [h3 hnl]; exact h.minr hnl

theorem step_inv_loop (s0 : St) (e : Cont) (hs0 : inLoop s0 = false) (hc : Consistent s0.vm)
    (st : St) (x : Exit) (Y1 : List Cont) (h : Inv s0 e st (.loop x :: Y1)) (ev : Ev) :
    ∃ Y', Inv s0 e (step ev st) Y' := by
  have hY : (Cont.loop x :: Y1) ≠ [] := by simp
  have hconts : st.conts = .loop x :: (Y1 ++ s0.conts) := by rw [h.conts]; rfl
  have hin : inLoop st = true := by simp [inLoop, hconts]
  have hnl : hasLoop (Cont.loop x :: Y1) = false → False := by simp [hasLoop]
  -- the frames owned by the running loop
  have hpeel := h.peel
  simp only [peelAll] at hpeel
  cases hdl : dropLoop st.vm.stack with
  | none => simp [hdl] at hpeel
  | some R1 =>
  simp only [hdl, Option.bind_some] at hpeel
  cases hstk : st.vm.stack with
  | nil => simp [hstk, dropLoop] at hdl
  | cons f rest =>
  have hbase : st.vm.base = f.base := by rw [h.base, hstk]; rfl
  cases ev with
  | enter pre args c => exact enterChecked_inv s0 e hs0 hc st _ h hY pre args c
  | enterOp pre args c => exact enterOpChecked_inv s0 e hs0 hc st _ h hY pre args c
  | enterDirect pre ok => exact enterDirectChecked_inv s0 e hs0 hc st _ h hY pre ok
  | newFrame n =>
    refine ⟨_, inv_of_same s0 e st _ _ h hY ?_ ?_ ?_ ?_ ?_ ⟨x, Y1, Or.inl rfl⟩⟩
    · simp [step, hin]
    · left; simp [step, hin, modTop, hstk, dropLoop]
    · simp [step, hin, modTop, hstk, topBase, hbase]
    · intro hl; exact absurd hl (by simp [hasLoop])
    · simp [step, hin, modTop, hstk]
  | tryStart r ip =>
    refine ⟨_, inv_of_same s0 e st _ _ h hY ?_ ?_ ?_ ?_ ?_ ⟨x, Y1, Or.inl rfl⟩⟩
    · simp [step, hin]
    · left; simp [step, hin, modTop, hstk, dropLoop]
    · simp [step, hin, modTop, hstk, topBase, hbase]
    · intro hl; exact absurd hl (by simp [hasLoop])
    · simp [step, hin, modTop, hstk]
  | tryEnd =>
    refine ⟨_, inv_of_same s0 e st _ _ h hY ?_ ?_ ?_ ?_ ?_ ⟨x, Y1, Or.inl rfl⟩⟩
    · simp [step, hin]
    · left; simp [step, hin, modTop, hstk, dropLoop]
    · simp [step, hin, modTop, hstk, topBase, hbase]
    · intro hl; exact absurd hl (by simp [hasLoop])
    · simp [step, hin, modTop, hstk]
  | call fb a =>
    refine ⟨_, inv_of_same s0 e st _ _ h hY ?_ ?_ ?_ ?_ ?_ ⟨x, Y1, Or.inl rfl⟩⟩
    · simp [step, hin]
    · left; simp [step, hin, callKoto, pushFrame, dropLoop]
    · simp [step, hin, callKoto, pushFrame, topBase]
    · intro hl; exact absurd hl (by simp [hasLoop])
    · simp [step, hin, callKoto, pushFrame]
  | callNative fb =>
    refine ⟨.native fb none :: .loop x :: Y1, ?_⟩
    refine ⟨?_, ?_, ?_, ?_, ?_, ?_, ?_⟩
    · simp [step, hin, h.conts]
    · simp [step, hin, peelAll, hdl, hpeel]
    · simp [step, hin, h.base]
    · intro hl; simp [hasLoop] at hl
    · simp [step, hin, impMods, h.ph]
    · intro _; rw [getLast_cons_ne _ _ hY]; exact h.lastc hY
    · intro hn; simp at hn
  | ret =>
    have hp := popTo_fields f rest st.vm
    by_cases hbar : f.barrier = true
    · -- the loop returns Ok to its caller
      have hs := popTo_stop_of_barrier f rest st.vm hbar
      have hR : rest = R1 := by simpa [hstk, dropLoop, hbar] using hdl
      have hl1 : Y1 ≠ [] → Y1.getLast? = some e := by
        intro hne; rw [← getLast_cons_ne (Cont.loop x) Y1 hne]; exact h.lastc hY
      have hex : Y1 = [] → e = .loop x := by
        intro hn; have := h.lastc hY; subst hn; simpa using this.symm
      refine ⟨Y1, ?_⟩
      cases x with
      | truncate rr =>
        have hstep : step .ret st = ⟨truncate rr (popTo f rest st.vm).1, Y1 ++ s0.conts⟩ := by
          simp only [step, hin, if_true, hstk, hconts]
          rcases hpt : popTo f rest st.vm with ⟨vm1, b⟩
          rw [hpt] at hs
          simp only [] at hs
          simp [hs.1]
        rw [hstep]
        have ht := truncate_fields rr (popTo f rest st.vm).1
        refine ⟨rfl, ?_, ?_, ?_, ?_, hl1, ?_⟩
        · simp only []; rw [ht.1, hp.1, hR]; exact hpeel
        · simp only []; rw [ht.2.1, ht.1, hp.2.1, hp.1]
        · intro hl; simp only []
          rw [ht.2.2.1, hp.2.2.1, hR, peelAll_noLoop Y1 R1 _ hl hpeel, hc.minr]
        · simp only []; rw [ht.2.2.2.1, hp.2.2.2.1, h.ph]; simp [impMods]
        · intro hn; rw [hex hn]; simp only [DoneP]; exact ht.2.2.2.2
      | propagate =>
        have hstep : step .ret st = ⟨(popTo f rest st.vm).1, Y1 ++ s0.conts⟩ := by
          simp only [step, hin, if_true, hstk, hconts]
          rcases hpt : popTo f rest st.vm with ⟨vm1, b⟩
          rw [hpt] at hs
          simp only [] at hs
          simp [hs.1]
        rw [hstep]
        refine ⟨rfl, ?_, ?_, ?_, ?_, hl1, ?_⟩
        · simp only []; rw [hp.1, hR]; exact hpeel
        · simp only []; rw [hp.2.1, hp.1]
        · intro hl; simp only []
          rw [hp.2.2.1, hR, peelAll_noLoop Y1 R1 _ hl hpeel, hc.minr]
        · simp only []; rw [hp.2.2.2.1, h.ph]; simp [impMods]
        · intro hn; rw [hex hn]; simp [DoneP]
    · -- an inner frame returns, the loop goes on
      have hbar' : f.barrier = false := by simpa using hbar
      have hdr : dropLoop rest = some R1 := by simpa [hstk, dropLoop, hbar'] using hdl
      cases rest with
      | nil => simp [dropLoop] at hdr
      | cons r rs =>
        have hcont := popTo_continue f r rs st.vm hbar'
        have hstep : step .ret st = { st with vm := (popTo f (r :: rs) st.vm).1 } := by
          simp only [step, hin, if_true, hstk, hconts]
          rcases hpt : popTo f (r :: rs) st.vm with ⟨vm1, b⟩
          rw [hpt] at hcont
          simp only [] at hcont
          simp [hcont]
        refine ⟨.loop x :: Y1, ?_⟩
        rw [hstep]
        refine ⟨h.conts, ?_, ?_, ?_, ?_, h.lastc, fun hn => absurd hn hY⟩
        · simp only [peelAll]; rw [hp.1, hdr]; exact hpeel
        · simp only []; rw [hp.2.1, hp.1]
        · intro hl; exact absurd hl (by simp [hasLoop])
        · simp only []; rw [hp.2.2.2.1]; exact h.ph
  | seqStart =>
    refine ⟨_, inv_of_same s0 e st _ _ h hY ?_ ?_ ?_ ?_ ?_ ⟨x, Y1, Or.inr ?_⟩⟩ <;>
      simp [step, hin, h.base]
  | strStart =>
    refine ⟨_, inv_of_same s0 e st _ _ h hY ?_ ?_ ?_ ?_ ?_ ⟨x, Y1, Or.inr ?_⟩⟩ <;>
      simp [step, hin, h.base]
  | exportVal k =>
    refine ⟨_, inv_of_same s0 e st _ _ h hY ?_ ?_ ?_ ?_ ?_ ⟨x, Y1, Or.inr ?_⟩⟩ <;>
      simp [step, hin, h.base]
  | seqEnd =>
    by_cases hz : st.vm.seq = 0
    · simp only [step, hin, if_true, hz, raise]
      exact raise_inv_of s0 e hs0 hc st _ h hY true _ rfl rfl rfl rfl
    · refine ⟨_, inv_of_same s0 e st _ _ h hY ?_ ?_ ?_ ?_ ?_ ⟨x, Y1, Or.inr ?_⟩⟩ <;>
        simp [step, hin, h.base, hz]
  | strEnd =>
    by_cases hz : st.vm.str = 0
    · simp only [step, hin, if_true, hz, raise]
      exact raise_inv_of s0 e hs0 hc st _ h hY true _ rfl rfl rfl rfl
    · refine ⟨_, inv_of_same s0 e st _ _ h hY ?_ ?_ ?_ ?_ ?_ ⟨x, Y1, Or.inr ?_⟩⟩ <;>
        simp [step, hin, h.base, hz]
  | raise c =>
    simp only [step, hin, if_true, raise]
    exact raise_inv_of s0 e hs0 hc st _ h hY c _ rfl rfl rfl rfl
  | opSetupFail n =>
    simp only [step, hin, if_true, raise]
    exact raise_inv_of s0 e hs0 hc st _ h hY true _ rfl rfl rfl rfl
  | nested args a => exact nested_inv s0 e hs0 hc st _ h hY args a
  | importBegin m =>
    by_cases hm : m ∈ st.vm.placeholders
    · simp only [step, hin, if_true, hm, raise]
      exact raise_inv_of s0 e hs0 hc st _ h hY true _ rfl rfl rfl rfl
    · by_cases hcached : m ∈ st.vm.cached
      · refine ⟨.loop x :: Y1, ?_⟩
        simp only [step, hin, if_true, hm, if_false, hcached]
        exact h
      · refine ⟨.importing m st.vm.exports :: .loop x :: Y1, ?_⟩
        refine ⟨?_, ?_, ?_, ?_, ?_, ?_, ?_⟩
        · simp [step, hin, hm, hcached, h.conts]
        · simp [step, hin, hm, hcached, peelAll, hdl, hpeel]
        · simp [step, hin, hm, hcached, h.base]
        · intro hl; simp [hasLoop] at hl
        · simp only [step, hin, if_true, hm, if_false, hcached]
          simp [impMods, h.ph]
        · intro _; rw [getLast_cons_ne _ _ hY]; exact h.lastc hY
        · intro hn; simp at hn
  | nativeRet ok => exact ⟨.loop x :: Y1, by simpa [step, hin] using h⟩
  | importEnd ok => exact ⟨.loop x :: Y1, by simpa [step, hin] using h⟩


theorem nativeOk_fields (fb : Nat) (vm : VM) :
    (nativeOk fb vm).stack = vm.stack ∧ (nativeOk fb vm).base = vm.base ∧
    (nativeOk fb vm).minRegs = vm.minRegs ∧ (nativeOk fb vm).placeholders = vm.placeholders := by
  cases hs : vm.stack <;> simp [nativeOk, hs, truncate]

theorem step_inv_native (s0 : St) (e : Cont) (hs0 : inLoop s0 = false) (hc : Consistent s0.vm)
    (st : St) (fb : Nat) (host : Option (Nat × Bool)) (Y1 : List Cont)
    (h : Inv s0 e st (.native fb host :: Y1)) (ev : Ev) :
    ∃ Y', Inv s0 e (step ev st) Y' := by
  have hY : (Cont.native fb host :: Y1) ≠ [] := by simp
  have hconts : st.conts = .native fb host :: (Y1 ++ s0.conts) := by rw [h.conts]; rfl
  have hin : inLoop st = false := by simp [inLoop, hconts]
  have hl1 : Y1 ≠ [] → Y1.getLast? = some e := by
    intro hne; rw [← getLast_cons_ne (Cont.native fb host) Y1 hne]; exact h.lastc hY
  have hex : Y1 = [] → e = .native fb host := by
    intro hn; have := h.lastc hY; subst hn; simpa using this.symm
  have hpeel : peelAll Y1 st.vm.stack = some s0.vm.stack := by simpa [peelAll] using h.peel
  have hph : st.vm.placeholders = impMods Y1 ++ s0.vm.placeholders := by simpa [impMods] using h.ph
  have hminr : hasLoop Y1 = false → st.vm.minRegs = s0.vm.minRegs := by
    intro hl; exact h.minr (by simpa [hasLoop] using hl)
  cases ev with
  | enter pre args c => exact enterChecked_inv s0 e hs0 hc st _ h hY pre args c
  | enterOp pre args c => exact enterOpChecked_inv s0 e hs0 hc st _ h hY pre args c
  | enterDirect pre ok => exact enterDirectChecked_inv s0 e hs0 hc st _ h hY pre ok
  | nativeRet ok =>
    cases ok with
    | true =>
      have hn := nativeOk_fields fb st.vm
      refine ⟨Y1, ?_⟩
      cases host with
      | some rr =>
        have ht := truncate_fields rr.1 (nativeOk fb st.vm)
        have hstep : step (.nativeRet true) st = ⟨truncate rr.1 (nativeOk fb st.vm), Y1 ++ s0.conts⟩ := by
          simp [step, hin, hconts]
        rw [hstep]
        refine ⟨rfl, ?_, ?_, ?_, ?_, hl1, ?_⟩
        · simp only []; rw [ht.1, hn.1]; exact hpeel
        · simp only []; rw [ht.2.1, ht.1, hn.2.1, hn.1]; exact h.base
        · intro hl; simp only []; rw [ht.2.2.1, hn.2.2.1]; exact hminr hl
        · simp only []; rw [ht.2.2.2.1, hn.2.2.2]; exact hph
        · intro hnil; rw [hex hnil]; simp [DoneP]
      | none =>
        have hstep : step (.nativeRet true) st = ⟨nativeOk fb st.vm, Y1 ++ s0.conts⟩ := by
          simp [step, hin, hconts]
        rw [hstep]
        refine ⟨rfl, ?_, ?_, ?_, ?_, hl1, ?_⟩
        · simp only []; rw [hn.1]; exact hpeel
        · simp only []; rw [hn.2.1, hn.1]; exact h.base
        · intro hl; simp only []; rw [hn.2.2.1]; exact hminr hl
        · simp only []; rw [hn.2.2.2]; exact hph
        · intro hnil; rw [hex hnil]; simp [DoneP]
    | false =>
      cases host with
      | none =>
        have hstep : step (.nativeRet false) st = raiseGo (Y1 ++ s0.conts) true st.vm := by
          simp [step, hin, hconts]
        rw [hstep]
        exact raiseGo_inv s0 e hs0 hc Y1 true st.vm hpeel h.base hminr hph hl1
          (fun hnil => by rw [hex hnil]; simp [DoneP])
      | some rr =>
        have hstep : step (.nativeRet false) st =
            raiseGo (Y1 ++ s0.conts) true (if rr.2 then truncate rr.1 st.vm else st.vm) := by
          simp [step, hin, hconts]
        rw [hstep]
        cases hr2 : rr.2 with
        | false =>
          simp only [Bool.false_eq_true, if_false]
          exact raiseGo_inv s0 e hs0 hc Y1 true st.vm hpeel h.base hminr hph hl1
            (fun hnil => by rw [hex hnil]; simp [DoneP])
        | true =>
          simp only [if_true]
          have ht := truncate_fields rr.1 st.vm
          exact raiseGo_inv s0 e hs0 hc Y1 true (truncate rr.1 st.vm)
            (by rw [ht.1]; exact hpeel) (by rw [ht.2.1, ht.1]; exact h.base)
            (fun hl => by rw [ht.2.2.1]; exact hminr hl) (by rw [ht.2.2.2.1]; exact hph) hl1
            (fun hnil => by rw [hex hnil]; simp [DoneP])
  | newFrame n => exact ⟨_, by simpa [step, hin] using h⟩
  | tryStart r ip => exact ⟨_, by simpa [step, hin] using h⟩
  | tryEnd => exact ⟨_, by simpa [step, hin] using h⟩
  | call fb a => exact ⟨_, by simpa [step, hin] using h⟩
  | callNative fb => exact ⟨_, by simpa [step, hin] using h⟩
  | ret => exact ⟨_, by simpa [step, hin] using h⟩
  | seqStart => exact ⟨_, by simpa [step, hin] using h⟩
  | seqEnd => exact ⟨_, by simpa [step, hin] using h⟩
  | strStart => exact ⟨_, by simpa [step, hin] using h⟩
  | strEnd => exact ⟨_, by simpa [step, hin] using h⟩
  | exportVal k => exact ⟨_, by simpa [step, hin] using h⟩
  | raise c => exact ⟨_, by simpa [step, hin] using h⟩
  | opSetupFail n => exact ⟨_, by simpa [step, hin] using h⟩
  | nested a b => exact nested_inv s0 e hs0 hc st _ h hY a b
  | importBegin m => exact ⟨_, by simpa [step, hin] using h⟩
  | importEnd ok => exact ⟨_, by simpa [step, hin, hconts] using h⟩

theorem step_inv_importing (s0 : St) (e : Cont) (hs0 : inLoop s0 = false) (hc : Consistent s0.vm)
    (st : St) (m : Nat) (saved : List Nat) (Y1 : List Cont)
    (h : Inv s0 e st (.importing m saved :: Y1)) (ev : Ev) :
    ∃ Y', Inv s0 e (step ev st) Y' := by
  have hY : (Cont.importing m saved :: Y1) ≠ [] := by simp
  have hconts : st.conts = .importing m saved :: (Y1 ++ s0.conts) := by rw [h.conts]; rfl
  have hin : inLoop st = false := by simp [inLoop, hconts]
  have hl1 : Y1 ≠ [] → Y1.getLast? = some e := by
    intro hne; rw [← getLast_cons_ne (Cont.importing m saved) Y1 hne]; exact h.lastc hY
  have hex : Y1 = [] → e = .importing m saved := by
    intro hn; have := h.lastc hY; subst hn; simpa using this.symm
  have hpeel : peelAll Y1 st.vm.stack = some s0.vm.stack := by simpa [peelAll] using h.peel
  have hph : st.vm.placeholders = m :: (impMods Y1 ++ s0.vm.placeholders) := by
    simpa [impMods] using h.ph
  have hminr : hasLoop Y1 = false → st.vm.minRegs = s0.vm.minRegs := by
    intro hl; exact h.minr (by simpa [hasLoop] using hl)
  cases ev with
  | enter pre args c => exact enterChecked_inv s0 e hs0 hc st _ h hY pre args c
  | enterOp pre args c => exact enterOpChecked_inv s0 e hs0 hc st _ h hY pre args c
  | enterDirect pre ok => exact enterDirectChecked_inv s0 e hs0 hc st _ h hY pre ok
  | importEnd ok =>
    have herase : st.vm.placeholders.erase m = impMods Y1 ++ s0.vm.placeholders := by
      rw [hph]; simp
    cases ok with
    | true =>
      refine ⟨Y1, ?_⟩
      have hstep : step (.importEnd true) st =
          ⟨{ st.vm with
              placeholders := st.vm.placeholders.erase m, cached := m :: st.vm.cached,
              exports := saved }, Y1 ++ s0.conts⟩ := by
        simp [step, hin, hconts]
      rw [hstep]
      exact ⟨rfl, hpeel, h.base, hminr, herase, hl1, fun hnil => by rw [hex hnil]; simp [DoneP]⟩
    | false =>
      have hstep : step (.importEnd false) st =
          raiseGo (Y1 ++ s0.conts) true { st.vm with
            placeholders := st.vm.placeholders.erase m, exports := saved } := by
        simp [step, hin, hconts]
      rw [hstep]
      exact raiseGo_inv s0 e hs0 hc Y1 true _ hpeel h.base hminr herase hl1
        (fun hnil => by rw [hex hnil]; simp [DoneP])
  | newFrame n => exact ⟨_, by simpa [step, hin] using h⟩
  | tryStart r ip => exact ⟨_, by simpa [step, hin] using h⟩
  | tryEnd => exact ⟨_, by simpa [step, hin] using h⟩
  | call fb a => exact ⟨_, by simpa [step, hin] using h⟩
  | callNative fb => exact ⟨_, by simpa [step, hin] using h⟩
  | ret => exact ⟨_, by simpa [step, hin] using h⟩
  | seqStart => exact ⟨_, by simpa [step, hin] using h⟩
  | seqEnd => exact ⟨_, by simpa [step, hin] using h⟩
  | strStart => exact ⟨_, by simpa [step, hin] using h⟩
  | strEnd => exact ⟨_, by simpa [step, hin] using h⟩
  | exportVal k => exact ⟨_, by simpa [step, hin] using h⟩
  | raise c => exact ⟨_, by simpa [step, hin] using h⟩
  | opSetupFail n => exact ⟨_, by simpa [step, hin] using h⟩
  | nested a b => exact nested_inv s0 e hs0 hc st _ h hY a b
  | importBegin m => exact ⟨_, by simpa [step, hin] using h⟩
  | nativeRet ok => exact ⟨_, by simpa [step, hin, hconts] using h⟩

/-- Every event keeps the bracket invariant. -/
theorem step_inv (s0 : St) (e : Cont) (hs0 : inLoop s0 = false) (hc : Consistent s0.vm)
    (st : St) (Y : List Cont) (h : Inv s0 e st Y) (hY : Y ≠ []) (ev : Ev) :
    ∃ Y', Inv s0 e (step ev st) Y' := by
  cases Y with
  | nil => exact absurd rfl hY
  | cons c1 Y1 =>
    cases c1 with
    | loop x => exact step_inv_loop s0 e hs0 hc st x Y1 h ev
    | native fb host => exact step_inv_native s0 e hs0 hc st fb host Y1 h ev
    | importing m saved => exact step_inv_importing s0 e hs0 hc st m saved Y1 h ev

theorem runUntil_inv (s0 : St) (e : Cont) (hs0 : inLoop s0 = false) (hc : Consistent s0.vm) :
    ∀ (evs : List Ev) (st : St) (Y : List Cont), Inv s0 e st Y →
      ∃ Y', Inv s0 e (runUntil s0.conts.length evs st) Y' := by
  intro evs
  induction evs with
  | nil => intro st Y h; exact ⟨Y, h⟩
  | cons ev rest ih =>
    intro st Y h
    simp only [runUntil]
    split
    · exact ⟨Y, h⟩
    · rename_i hlen
      have hY : Y ≠ [] := by
        intro hn; subst hn; apply hlen; rw [h.conts]; simp
      obtain ⟨Y', h'⟩ := step_inv s0 e hs0 hc st Y h hY ev
      exact ih (step ev st) Y' h'

/-- At the bracket's exit the caller's frames, register base, minimum frame size and module
placeholders are exactly what they were, whatever happened inside. -/
theorem inv_exit (s0 : St) (e : Cont) (hc : Consistent s0.vm) (st : St) (Y : List Cont)
    (h : Inv s0 e st Y) (hex : st.conts.length ≤ s0.conts.length) :
    st.conts = s0.conts ∧ st.vm.stack = s0.vm.stack ∧ st.vm.base = s0.vm.base ∧
    st.vm.minRegs = s0.vm.minRegs ∧ st.vm.placeholders = s0.vm.placeholders ∧ DoneP e st.vm := by
  have hY : Y = [] := by
    have := h.conts
    rw [this] at hex
    simp at hex
    exact List.eq_nil_of_length_eq_zero (by omega)
  subst hY
  have hp : st.vm.stack = s0.vm.stack := by simpa [peelAll] using h.peel
  refine ⟨by simpa using h.conts, hp, ?_, h.minr rfl, by simpa [impMods] using h.ph, h.done rfl⟩
  rw [h.base, hp, hc.base]


/-- An error handed to native/host code changes nothing by itself. -/
theorem raiseGo_host (s : St) (h : inLoop s = false) (c : Bool) (vm : VM) :
    raiseGo s.conts c vm = ⟨vm, s.conts⟩ :=
  raiseGo_notLoop _ _ _ (by rw [← inLoop_eq]; exact h)


theorem raiseGo_loop_some (x : Exit) (rest : List Cont) (c : Bool) (vm vm1 : VM) (cr : Nat × Nat)
    (h : unwind c vm = (vm1, some cr)) :
    raiseGo (.loop x :: rest) c vm = ⟨vm1, .loop x :: rest⟩ := by
  rw [raiseGo_loop, h]

theorem raiseGo_loop_none (x : Exit) (rest : List Cont) (c : Bool) (vm vm1 : VM)
    (h : unwind c vm = (vm1, none)) :
    raiseGo (.loop x :: rest) c vm = raiseGo rest true (exitErr x vm1) ∨
    raiseGo (.loop x :: rest) c vm = ⟨exitErr x vm1, rest⟩ := by
  rw [raiseGo_loop, h]
  simp only []
  split
  · exact Or.inl rfl
  · exact Or.inr rfl

end KotoVerif.Unwind
