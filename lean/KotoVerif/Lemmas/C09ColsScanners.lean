/-
C09 (columns): every scanner's position update equals `posAfter` over the characters it consumes
(line AND column), given that printable ASCII characters have display width 1 (`WidthOk`).
The two scanners for which this is not so — identifiers (first character counted as one column
whatever its width) and whitespace (every character counted as one column) — get conditional
statements.
-/
import KotoVerif.Lemmas.C09ColsBasic

namespace KotoVerif.Lexer
open KotoVerif.Gen

theorem pos_ext {a b c d : Nat} (h1 : a = c) (h2 : b = d) : (⟨a, b⟩ : Pos) = ⟨c, d⟩ := by
  subst h1; subst h2; rfl

/-- The move accounts exactly for a prefix of `cs`: its bytes and its end position. -/
def ConsumesP (cs : List Ch) (p : Pos) : Move → Prop
  | .stay => True
  | .adv n q => ∃ k, k ≤ cs.length ∧ n = byteLen (cs.take k) ∧ q = posAfter p (cs.take k)

theorem consumesP_printable {cs : List Ch} {p : Pos} {k : Nat} (hw : WidthOk cs) (h : k ≤ printRun cs) :
    ConsumesP cs p (advLine p k) := by
  have h1 := take_asciiRun cs k (Nat.le_trans h (printRun_le_asciiRun cs))
  exact ⟨k, Nat.le_trans h (printRun_le_length cs), h1.1.symm, (posAfter_take_printRun p cs k hw h).symm⟩

/-! ### consume_newline -/

theorem consumeNewline_consumesP (p : Pos) (cs : List Ch) :
    ConsumesP cs p (consumeNewline p cs).2 := by
  unfold consumeNewline
  cases cs with
  | nil => simp [ConsumesP]
  | cons c rest =>
    by_cases hc : c.cp = cpCR
    · simp only [hc, if_true]
      cases rest with
      | nil => simp [ConsumesP]
      | cons d rest' =>
        by_cases hd : d.cp = cpNL
        · simp only [hd, if_true]
          refine ⟨2, by simp, ?_, ?_⟩
          · simp [Ch.len, hc, hd, utf8Len, cpCR, cpNL]
          · simp [posAfter, hc, hd, cpCR, cpNL]
        · simp [hd, ConsumesP]
    · simp only [hc, if_false]
      by_cases hd : c.cp = cpNL
      · simp only [hd, if_true]
        refine ⟨1, by simp, ?_, ?_⟩
        · simp [Ch.len, hd, utf8Len, cpNL]
        · simp [posAfter, hd]
      · simp [hd, ConsumesP]

theorem consumeNewline_tok (p : Pos) (cs : List Ch) :
    (consumeNewline p cs).1 = .newLine ∨ (consumeNewline p cs).1 = .error := by
  unfold consumeNewline
  cases cs with
  | nil => simp
  | cons c rest =>
    by_cases hc : c.cp = cpCR
    · simp only [hc, if_true]
      cases rest with
      | nil => simp
      | cons d rest' => by_cases hd : d.cp = cpNL <;> simp [hd]
    · simp only [hc, if_false]
      by_cases hd : c.cp = cpNL <;> simp [hd]

/-! ### consume_comment -/

theorem multiCommentAct_pos : ActNextPos multiCommentAct := by
  intro c cs b p extra b' p' hw h
  unfold multiCommentAct at h
  by_cases h1 : c.cp = cpHash
  · simp only [h1, if_true] at h
    have hc : printable c.cp = true := by rw [h1]; decide
    have hnl : ¬ c.cp = cpNL := by rw [h1]; decide
    by_cases h2 : peekIs cs cpMinus = true
    · simp only [h2, if_true] at h
      cases h
      have hr : 1 + 1 ≤ printRun (c :: cs) := by
        rw [printRun_cons_printable hc]
        have := peekIs_printRun h2 (by decide)
        omega
      rw [cons_take_printable p hw hr, hw.head hc]
    · simp only [h2] at h
      cases h
      simp [posAfter, hnl]
  · simp only [h1, if_false] at h
    by_cases h2 : c.cp = cpMinus
    · simp only [h2, if_true] at h
      have hc : ¬ c.cp = cpNL := by rw [h2]; decide
      by_cases h3 : peekIs cs cpHash = true
      · simp [h3] at h
      · simp only [h3] at h
        cases h
        simp [posAfter, hc]
    · simp only [h2, if_false] at h
      by_cases h3 : c.cp = cpCR
      · simp only [h3, if_true] at h
        have hc : ¬ c.cp = cpNL := by rw [h3]; decide
        by_cases h4 : peekIs cs cpNL = true
        · simp only [h4, if_true] at h
          cases h
          cases cs with
          | nil => simp [peekIs] at h4
          | cons d cs' =>
            simp [peekIs] at h4
            simp [posAfter, hc, h4]
        · simp [h4] at h
      · simp only [h3, if_false] at h
        by_cases h4 : c.cp = cpNL
        · simp only [h4, if_true] at h
          cases h
          simp [posAfter, h4]
        · simp only [h4, if_false] at h
          cases h
          simp [posAfter, h4]

/-- what the multi-line comment loop returns accounts for a prefix of its input, position included -/
theorem multiCommentLoop_specP (rest : List Ch) (b0 : Nat) (p0 : Pos) (hw : WidthOk rest) :
    match multiCommentLoop rest b0 p0 with
    | none => True
    | some (bytes, pos, _) => ∃ k, k ≤ rest.length ∧ bytes = b0 + byteLen (rest.take k) ∧
        pos = posAfter p0 (rest.take k) := by
  unfold multiCommentLoop
  apply scan_specP multiCommentAct _ (fun r => match r with
    | none => True
    | some (bytes, pos, _) => ∃ k, k ≤ rest.length ∧ bytes = b0 + byteLen (rest.take k) ∧
        pos = posAfter p0 (rest.take k)) rest b0 p0 hw multiCommentAct_ok multiCommentAct_pos
  · intro done c cs b p r h0 hb hp hA
    rcases multiCommentAct_stop hA with hr | ⟨hr, h2, h3⟩
    · subst hr; trivial
    · subst hr
      cases cs with
      | nil => simp [peekIs] at h3
      | cons d cs' =>
        simp [peekIs] at h3
        have ht : (done ++ c :: d :: cs').take (done.length + 2) = done ++ [c, d] := by
          rw [List.take_length_add_append]; simp
        have hc : ¬ c.cp = cpNL := by rw [h2]; decide
        have hd : ¬ d.cp = cpNL := by rw [h3]; decide
        have hdw : d.width = 1 := hw d (by simp [h0]) (by rw [h3]; decide)
        refine ⟨done.length + 2, by simp [h0], ?_, ?_⟩
        · simp [h0, ht, hb, Ch.len, h3, utf8Len, cpHash]; omega
        · rw [h0, ht, posAfter_append, ← hp]
          simp [posAfter, hc, hd, hdw]
  · intro b p hb hp
    exact ⟨rest.length, by omega, by simpa using hb, by simpa using hp⟩

theorem consumeComment_consumesP (p : Pos) (c : Ch) (rest : List Ch) (hc : c.cp = cpHash)
    (hw : WidthOk (c :: rest)) :
    ConsumesP (c :: rest) p (consumeComment p (c :: rest)).2 := by
  have hlen : c.len = 1 := by simp [Ch.len, hc, utf8Len, cpHash]
  have hnl : ¬ c.cp = cpNL := by rw [hc]; decide
  have hcw : c.width = 1 := hw.head (by rw [hc]; decide)
  unfold consumeComment
  simp only
  split
  · -- multi-line
    have := multiCommentLoop_specP rest 1 ⟨p.line, p.col + 1⟩ hw.tail
    split
    · trivial
    · rename_i bytes pos found heq
      rw [heq] at this
      obtain ⟨k, h1, h2, h3⟩ := this
      refine ⟨k + 1, by simp; omega, ?_, ?_⟩
      · simp [List.take_succ_cons, hlen, h2]
      · simp only [List.take_succ_cons]
        rw [posAfter_cons_ne _ _ _ hnl, hcw, h3]
  · -- single-line
    simp only [advLineUtf8]
    have hb := countWhileUtf8_spec notLineEnd rest
    have hwid := countWhileUtf8_width notLineEnd rest
    have hn := nlCount_takeWhile notLineEnd notLineEnd_not_nl rest
    have ht := takeWhile_eq_take notLineEnd rest
    refine ⟨(rest.takeWhile notLineEnd).length + 1, ?_, ?_, ?_⟩
    · have := (List.takeWhile_sublist (l := rest) notLineEnd).length_le
      simp; omega
    · simp only [List.take_succ_cons, byteLen_cons, hlen, ← ht, hb]; omega
    · simp only [List.take_succ_cons, ← ht]
      rw [posAfter_cons_ne _ _ _ hnl, posAfter_noNL _ _ hn, hcw, hwid]
      dsimp only
      exact pos_ext rfl (by omega)

theorem consumeComment_tok (p : Pos) (cs : List Ch) :
    (consumeComment p cs).1 ≠ .id ∧ (consumeComment p cs).1 ≠ .whitespace := by
  unfold consumeComment
  cases cs with
  | nil => simp
  | cons c rest =>
    simp only
    split
    · split
      · simp
      · rename_i b q f _; cases f <;> simp
    · simp

/-! ### consume_string_literal -/

theorem isQuote_printable {q : Quote} {cp : Nat} (h : isQuote q cp = true) : printable cp = true := by
  unfold isQuote quoteOf at h
  split at h
  · rename_i h1; rw [h1]; decide
  · split at h
    · rename_i h2; rw [h2]; decide
    · simp at h

theorem quoteOf_printable {q : Quote} {cp : Nat} (h : quoteOf cp = some q) : printable cp = true := by
  unfold quoteOf at h
  split at h
  · rename_i h1; rw [h1]; decide
  · split at h
    · rename_i h2; rw [h2]; decide
    · simp at h

theorem crnl_pos {c : Ch} {cs : List Ch} (p : Pos) (hc : c.cp = cpCR) (hn : peekIs cs cpNL = true) :
    posAfter p (c :: cs.take 1) = ⟨p.line + 1, 0⟩ := by
  cases cs with
  | nil => simp [peekIs] at hn
  | cons d cs' =>
    simp [peekIs] at hn
    have h1 : ¬ c.cp = cpNL := by rw [hc]; decide
    simp [posAfter, h1, hn]

theorem stringLiteralAct_pos (q : Quote) : ActNextPos (stringLiteralAct q) := by
  intro c cs b p extra b' p' hw h
  unfold stringLiteralAct at h
  by_cases h1 : isQuote q c.cp = true
  · simp [h1] at h
  · simp only [h1] at h
    by_cases h2 : c.cp = cpLBrace
    · simp [h2] at h
    · simp only [h2, if_false] at h
      by_cases h3 : c.cp = cpBackslash
      · simp only [h3, if_true] at h
        have hc : printable c.cp = true := by rw [h3]; decide
        by_cases h4 : peekIs cs cp_u = true
        · simp only [h4, if_true] at h
          have a := peekIs_printRun h4 (by decide)
          by_cases h5 : peekIs (cs.drop 1) cpLBrace = true
          · simp only [h5, if_true] at h
            cases h
            have hr : 1 + 2 ≤ printRun (c :: cs) := by
              rw [printRun_cons_printable hc]
              have b := peekIs_printRun h5 (by decide)
              have := printRun_drop_add cs 1 1 a b
              omega
            rw [cons_take_printable p hw hr]
          · simp only [h5] at h
            cases h
            have hr : 1 + 1 ≤ printRun (c :: cs) := by
              rw [printRun_cons_printable hc]; omega
            rw [cons_take_printable p hw hr]
        · simp only [h4] at h
          by_cases h5 : (peekIs cs cpLBrace || peekIs cs cpBackslash || peekSat cs (isQuote q)) = true
          · simp only [h5, if_true] at h
            cases h
            have a : 1 ≤ printRun cs := by
              simp only [Bool.or_eq_true] at h5
              rcases h5 with (h5 | h5) | h5
              · exact peekIs_printRun h5 (by decide)
              · exact peekIs_printRun h5 (by decide)
              · exact peekSat_printRun h5 (fun cp hcp => isQuote_printable hcp)
            have hr : 1 + 1 ≤ printRun (c :: cs) := by
              rw [printRun_cons_printable hc]; omega
            rw [cons_take_printable p hw hr]
          · simp only [h5] at h
            cases h
            have hr : 1 + 0 ≤ printRun (c :: cs) := by
              rw [printRun_cons_printable hc]; omega
            rw [cons_take_printable p hw hr]
      · simp only [h3, if_false] at h
        by_cases h4 : c.cp = cpCR
        · simp only [h4, if_true] at h
          by_cases h5 : peekIs cs cpNL = true
          · simp only [h5, if_true] at h
            cases h
            rw [crnl_pos p h4 h5]
          · simp [h5] at h
        · simp only [h4, if_false] at h
          by_cases h5 : c.cp = cpNL
          · simp only [h5, if_true] at h
            cases h
            simp [posAfter, h5]
          · simp only [h5, if_false] at h
            cases h
            simp [posAfter, h5]

theorem stringLiteralLoop_consumesP (q : Quote) (cs : List Ch) (p : Pos) (hw : WidthOk cs) :
    ConsumesP cs p (stringLiteralLoop q cs 0 p).2 := by
  unfold stringLiteralLoop
  apply scan_specP (stringLiteralAct q) _ (fun r => ConsumesP cs p r.2) cs 0 p hw
    (stringLiteralAct_ok q) (stringLiteralAct_pos q)
  · intro done c cs' b p' r h0 hb hp hA
    have key : ConsumesP cs p (.adv b p') := by
      refine ⟨done.length, by simp [h0], ?_, ?_⟩
      · rw [h0, take_length_append]; omega
      · rw [h0, take_length_append]; exact hp
    rcases stringLiteralAct_stop hA with hr | hr
    · subst hr; exact key
    · subst hr; trivial
  · intro b p' _ _
    trivial

theorem stringLiteralLoop_tok (q : Quote) (cs : List Ch) (p : Pos) :
    (stringLiteralLoop q cs 0 p).1 ≠ .id ∧ (stringLiteralLoop q cs 0 p).1 ≠ .whitespace := by
  unfold stringLiteralLoop
  apply scan_spec (stringLiteralAct q) _ (fun r => r.1 ≠ .id ∧ r.1 ≠ .whitespace) cs 0 p
    (stringLiteralAct_ok q)
  · intro done c cs' b p' r _ _ _ hA
    rcases stringLiteralAct_stop hA with hr | hr <;> subst hr <;> simp
  · intro b p' _ _; simp

/-! ### raw strings -/

theorem matchHashes_le_printRun : ∀ (n : Nat) (cs : List Ch), matchHashes n cs ≤ printRun cs := by
  intro n
  induction n with
  | zero => intro cs; simp [matchHashes]
  | succ n ih =>
    intro cs
    cases cs with
    | nil => simp [matchHashes]
    | cons c cs =>
      simp only [matchHashes]
      split
      · rename_i h
        have hc : printable c.cp = true := by rw [h]; decide
        rw [printRun_cons_printable hc]
        have := ih cs
        omega
      · omega

theorem rawContentsAct_pos (q : Quote) (hashes : Nat) : ActNextPos (rawContentsAct q hashes) := by
  intro c cs b p extra b' p' hw h
  unfold rawContentsAct at h
  by_cases h1 : isQuote q c.cp = true
  · simp only [h1, if_true] at h
    split at h
    · cases h
    · cases h
      have hc := isQuote_printable h1
      have hr : 1 + matchHashes hashes cs ≤ printRun (c :: cs) := by
        rw [printRun_cons_printable hc]
        have := matchHashes_le_printRun hashes cs
        omega
      rw [cons_take_printable p hw hr]
  · simp only [h1] at h
    by_cases h4 : c.cp = cpCR
    · simp only [h4, if_true] at h
      by_cases h5 : peekIs cs cpNL = true
      · simp only [h5, if_true] at h
        cases h
        rw [crnl_pos p h4 h5]
      · simp [h5] at h
    · simp only [h4, if_false] at h
      by_cases h5 : c.cp = cpNL
      · simp only [h5, if_true] at h
        cases h
        simp [posAfter, h5]
      · simp only [h5, if_false] at h
        cases h
        simp [posAfter, h5]

/-- the raw string contents scanner stops exactly in front of the end delimiter (a quote and
`hashes` '#' characters, all printable), with exact byte count and position -/
theorem rawContentsLoop_specP (q : Quote) (hashes : Nat) (cs : List Ch) (p : Pos) (hw : WidthOk cs) :
    match rawContentsLoop q hashes cs 0 p with
    | none => True
    | some (bytes, pos) => ∃ k, k ≤ cs.length ∧ bytes = byteLen (cs.take k) ∧
        pos = posAfter p (cs.take k) ∧ 1 + hashes ≤ printRun (cs.drop k) := by
  unfold rawContentsLoop
  apply scan_specP (rawContentsAct q hashes) _ (fun r => match r with
    | none => True
    | some (bytes, pos) => ∃ k, k ≤ cs.length ∧ bytes = byteLen (cs.take k) ∧
        pos = posAfter p (cs.take k) ∧ 1 + hashes ≤ printRun (cs.drop k)) cs 0 p hw
    (rawContentsAct_ok q hashes) (rawContentsAct_pos q hashes)
  · intro done c cs' b p' r h0 hb hp hA
    rcases rawContentsAct_stop hA with hr | ⟨hr, h1, hk⟩
    · subst hr; trivial
    · subst hr
      refine ⟨done.length, by simp [h0], ?_, ?_, ?_⟩
      · rw [h0, take_length_append]; omega
      · rw [h0, take_length_append]; exact hp
      · have : (done ++ c :: cs').drop done.length = c :: cs' := by simp
        rw [h0, this, printRun_cons_printable (isQuote_printable h1)]
        have := matchHashes_le_printRun hashes cs'
        omega
  · intro b p' _ _
    trivial

theorem rawStringStart_printRun : ∀ (cs : List Ch) (h0 : Nat) (q : Quote) (h : Nat),
    rawStringStart cs h0 = some (q, h) → h0 ≤ h ∧ (h - h0) + 1 ≤ printRun cs := by
  intro cs
  induction cs with
  | nil => intro h0 q h hh; simp [rawStringStart] at hh
  | cons c cs ih =>
    intro h0 q h hh
    simp only [rawStringStart] at hh
    split at hh
    · rename_i hc
      have hp : printable c.cp = true := by rw [hc]; decide
      split at hh
      · cases hh
      · have := ih _ _ _ hh
        rw [printRun_cons_printable hp]
        omega
    · split at hh
      · rename_i q' hq
        cases hh
        have hp := quoteOf_printable hq
        rw [printRun_cons_printable hp]
        omega
      · cases hh

/-! ### consume_format_options -/

theorem consumeFormatOptions_specP (p : Pos) (cs : List Ch) (n : Nat) (q : Pos)
    (h : (consumeFormatOptions p cs).2 = .adv n q) :
    ∃ k, k ≤ cs.length ∧ n = byteLen (cs.take k) ∧ q = posAfter p (cs.take k) := by
  unfold consumeFormatOptions at h
  simp only at h
  cases hd : dropBytes (formatSkip cs) cs with
  | none => simp [hd] at h
  | some rest =>
    cases hf : findRBrace rest with
    | none => simp [hd, hf] at h
    | some e =>
      cases hp : prefixAt (e + formatSkip cs) cs with
      | none => simp [hd, hf, hp] at h
      | some consumed =>
        simp only [hd, hf, hp, Move.adv.injEq] at h
        obtain ⟨hn, hq⟩ := h
        obtain ⟨e1, e2, e3⟩ := prefixAt_spec _ _ _ hp
        refine ⟨consumed.length, e3, ?_, ?_⟩
        · rw [← e1, e2, hn]
        · rw [← e1, ← hq]

/-! ### consume_number -/

theorem isAsciiDigit_printable {cp : Nat} (h : isAsciiDigit cp = true) : printable cp = true := by
  simp [isAsciiDigit] at h
  simp [printable]; omega

theorem isDecimalDigit_printable {cp : Nat} (h : isDecimalDigit cp = true) : printable cp = true := by
  simp [isDecimalDigit, isAsciiDigit, cpUnderscore] at h
  simp [printable]; omega

theorem isBinaryDigit_printable {cp : Nat} (h : isBinaryDigit cp = true) : printable cp = true := by
  simp [isBinaryDigit, cpUnderscore] at h
  simp [printable]; omega

theorem isOctalDigit_printable {cp : Nat} (h : isOctalDigit cp = true) : printable cp = true := by
  simp [isOctalDigit, cpUnderscore] at h
  simp [printable]; omega

theorem isHexDigit_printable {cp : Nat} (h : isHexDigit cp = true) : printable cp = true := by
  simp [isHexDigit, isAsciiDigit, cpUnderscore] at h
  simp [printable]; omega

theorem printRun_step {cs : List Ch} {k : Nat} {cp : Nat} (hk : k ≤ printRun cs)
    (h : peekIs (cs.drop k) cp = true) (hp : printable cp = true) : k + 1 ≤ printRun cs :=
  printRun_drop_add cs k 1 hk (peekIs_printRun h hp)

theorem printRun_count {cs : List Ch} {k : Nat} {p : Nat → Bool} (hk : k ≤ printRun cs)
    (hp : ∀ cp, p cp = true → printable cp = true) : k + countWhile p (cs.drop k) ≤ printRun cs :=
  printRun_drop_add cs k _ hk (countWhile_le_printRun p hp _)

theorem numberExponent_leP {cs : List Ch} {k : Nat} (hk : k ≤ printRun cs) :
    numberExponent k (cs.drop k) ≤ printRun cs := by
  unfold numberExponent
  split
  · rename_i he
    have h1 := printRun_step hk he (by decide)
    simp only [List.drop_drop]
    split
    · rename_i hs
      have h2 : k + 1 + 1 ≤ printRun cs := by
        simp only [Bool.or_eq_true] at hs
        rcases hs with hs | hs
        · exact printRun_step h1 hs (by decide)
        · exact printRun_step h1 hs (by decide)
      have := printRun_count (p := isDecimalDigit) h2 (fun _ h => isDecimalDigit_printable h)
      simp only [Nat.add_assoc] at this ⊢
      omega
    · have := printRun_count (p := isDecimalDigit) h1 (fun _ h => isDecimalDigit_printable h)
      omega
  · exact hk

theorem numberBytes_leP (cs : List Ch) : numberBytes cs ≤ printRun cs := by
  unfold numberBytes
  simp only
  have hn0 : (if peekSat cs isAsciiDigit = true then 1 + countWhile isDecimalDigit (cs.drop 1) else 0)
      ≤ printRun cs := by
    split
    · rename_i h
      have h1 : 1 ≤ printRun cs := peekSat_printRun h (fun _ h => isAsciiDigit_printable h)
      have := printRun_count (p := isDecimalDigit) h1 (fun _ h => isDecimalDigit_printable h)
      omega
    · omega
  generalize (if peekSat cs isAsciiDigit = true then 1 + countWhile isDecimalDigit (cs.drop 1) else 0) = n0 at hn0 ⊢
  split
  · rename_i h
    simp only [Bool.and_eq_true] at h
    have h1 := printRun_step hn0 h.1.1 (by decide)
    have := printRun_count (p := isBinaryDigit) h1 (fun _ h => isBinaryDigit_printable h)
    simp only [List.drop_drop]; omega
  · split
    · rename_i h
      simp only [Bool.and_eq_true] at h
      have h1 := printRun_step hn0 h.1.1 (by decide)
      have := printRun_count (p := isOctalDigit) h1 (fun _ h => isOctalDigit_printable h)
      simp only [List.drop_drop]; omega
    · split
      · rename_i h
        simp only [Bool.and_eq_true] at h
        have h1 := printRun_step hn0 h.1.1 (by decide)
        have := printRun_count (p := isHexDigit) h1 (fun _ h => isHexDigit_printable h)
        simp only [List.drop_drop]; omega
      · split
        · rename_i h
          have h1 := printRun_step hn0 h (by decide)
          have h2 := printRun_count (p := isDecimalDigit) h1 (fun _ h => isDecimalDigit_printable h)
          have key := numberExponent_leP h2
          simp only [List.drop_drop] at key ⊢
          repeat' split
          all_goals first
            | exact hn0
            | exact key
            | (simpa [Nat.add_comm, Nat.add_left_comm, Nat.add_assoc] using key)
        · exact numberExponent_leP hn0

/-! ### identifiers, keywords, symbols -/

theorem idCps_printRun {cs : List Ch} {k : List Nat} (h : (takeIdChars cs).map (·.cp) = k)
    (hk : ∀ cp ∈ k, printable cp = true) : k.length ≤ printRun cs := by
  have hl : (takeIdChars cs).length = k.length := by rw [← h]; simp
  have ht := takeIdChars_eq_take cs
  have hle : k.length ≤ cs.length := by
    rw [← hl, ht]; simp only [List.length_take]; omega
  apply map_cp_printRun cs k.length hle
  rw [← hl, ← ht, h]
  exact hk

/-- every code point in the generated keyword table is printable ASCII -/
theorem keywordTable_printable : ∀ e ∈ keywordTable, ∀ cp ∈ e.1, printable cp = true := by decide

/-- every code point in the generated symbol table is printable ASCII -/
theorem symbolTable_printable : ∀ e ∈ symbolTable, ∀ cp ∈ e.1, printable cp = true := by decide

theorem symbol_consumesP {cs : List Ch} {n : Nat} {sy : Sym} (p : Pos) (hw : WidthOk cs)
    (h : lookupSymbol cs symbolTable = some (n, sy)) : ConsumesP cs p (advLine p n) := by
  obtain ⟨k, h1, h2, h3⟩ := lookupSymbol_spec _ _ _ _ h
  subst h3
  exact consumesP_printable hw (startsWith_printRun k cs h2 (symbolTable_printable _ h1))

/-- the identifier scanner: its byte count is that of the first character plus the XID_Continue run,
that text has no line break, and its column advance `1 + widths(rest)` is the display width when the
FIRST character has width 1 (the code counts the first character as one column whatever its width) -/
theorem id_pos {c : Ch} {rest : List Ch} (p : Pos) (ht : TableOk (c :: rest))
    (hs : c.idStart = true ∨ c.cp = cpUnderscore) :
    ∃ k, k ≤ (c :: rest).length ∧
      (c :: rest).take k = c :: rest.takeWhile (·.idCont) ∧
      c.len + (countWhileUtf8 (·.idCont) rest).1 = byteLen ((c :: rest).take k) ∧
      nlCount ((c :: rest).take k) = 0 ∧
      (c.width = 1 → (⟨p.line, p.col + (1 + (countWhileUtf8 (·.idCont) rest).2)⟩ : Pos) =
        posAfter p ((c :: rest).take k)) := by
  have hb := countWhileUtf8_spec (·.idCont) rest
  have hwid := countWhileUtf8_width (·.idCont) rest
  have hn := nlCount_takeWhile_mem (·.idCont) rest (fun d hd hc => ht d (by simp [hd]) (Or.inr hc))
  have htk := takeWhile_eq_take (·.idCont) rest
  have hc : ¬ c.cp = cpNL := by
    rcases hs with hs | hs
    · exact ht c (by simp) (Or.inl hs)
    · rw [hs]; decide
  have hn' : nlCount (c :: rest.takeWhile (·.idCont)) = 0 := by
    simp [nlCount_cons, hc, hn]
  refine ⟨(rest.takeWhile (·.idCont)).length + 1, ?_, ?_, ?_, ?_, ?_⟩
  · have := (List.takeWhile_sublist (l := rest) (·.idCont)).length_le
    simp; omega
  · simp only [List.take_succ_cons, ← htk]
  · simp only [List.take_succ_cons, byteLen_cons, ← htk, hb]
  · simp only [List.take_succ_cons, ← htk]; exact hn'
  · intro hcw
    simp only [List.take_succ_cons, ← htk]
    rw [posAfter_noNL _ _ hn', widthSum_cons, hcw, hwid]

end KotoVerif.Lexer
