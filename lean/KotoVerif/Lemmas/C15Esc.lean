/-
Helper lemmas for C15: every character group of a well-formed string is well-formed; escape processing
of a well-formed literal yields well-formed UTF-8; `replace` with the empty pattern. Core Lean only.
-/
import KotoVerif.Lemmas.C15Closed
import KotoVerif.Lemmas.C15Enc

namespace KotoVerif.Str
open KotoVerif.Utf8

/-- every character group of a well-formed string is well-formed -/
theorem charsOf_valid {s : Bytes} (hv : validUtf8 s = true) : ∀ c ∈ charsOf s, validUtf8 c = true := by
  intro c hc
  obtain ⟨xs, ys, hsplit⟩ := List.append_of_mem hc
  have hb1 := boundary_between_groups (s := s) (xs := xs) (ys := c :: ys) hsplit
  have hb2 := boundary_between_groups (s := s) (xs := xs ++ [c]) (ys := ys) (by simp [hsplit])
  have hfl := charsOf_flatten s
  rw [hsplit] at hfl
  have hlen : (xs ++ [c]).flatten.length = xs.flatten.length + c.length := by simp
  have hsl := valid_slice hv (a := xs.flatten.length) (b := (xs ++ [c]).flatten.length) (by omega) hb1 hb2
  have : (s.drop xs.flatten.length).take ((xs ++ [c]).flatten.length - xs.flatten.length) = c := by
    rw [hlen, Nat.add_sub_cancel_left, ← hfl]
    simp only [List.flatten_append, List.flatten_cons, List.append_assoc]
    rw [List.drop_left, List.take_left]
  rw [this] at hsl; exact hsl

/-- `replace` with the empty pattern (the replacement is inserted around every character) -/
theorem replaceB_empty_valid {to s : Bytes} (htv : validUtf8 to = true) (hv : validUtf8 s = true) :
    validUtf8 (replaceB [] to s) = true := by
  simp only [replaceB, List.isEmpty_nil, if_true]
  apply valid_append htv
  apply valid_flatten
  intro x hx
  obtain ⟨c, hc, rfl⟩ := List.mem_map.mp hx
  exact valid_append (charsOf_valid hv c hc) htv

/-! ### escape processing -/

theorem ascii_valid {b : Nat} (h : b < 0x80) : validUtf8 [b] = true := by
  rw [validUtf8_iff]; simp [u8run, step_ascii h]

theorem simpleEscape_ascii {b r : Nat} (h : KotoVerif.Gen.simpleEscape b = some r) : r < 0x80 := by
  simp only [KotoVerif.Gen.simpleEscape] at h
  cases hf : KotoVerif.Gen.simpleEscapeTable.find? (fun r => r.1 == b) with
  | none => rw [hf] at h; cases h
  | some p =>
    rw [hf] at h
    simp only [Option.map_some, Option.some.injEq] at h
    have hm := List.mem_of_find?_eq_some hf
    have hall : ∀ q ∈ KotoVerif.Gen.simpleEscapeTable, q.2 < 0x80 := by decide
    rw [← h]; exact hall p hm

theorem skipLineWs_sub (U : UFacts) : ∀ (cs : List Bytes), ∀ x ∈ skipLineWs U cs, x ∈ cs
  | [], x, h => by simp [skipLineWs] at h
  | c :: cs, x, h => by
    simp only [skipLineWs] at h
    split at h
    · exact List.mem_cons_of_mem _ (skipLineWs_sub U cs x h)
    · exact h

theorem hexRun_sub : ∀ (cs : List Bytes) (acc : Nat) (ovf : Bool), ∀ x ∈ (hexRun cs acc ovf).2.2, x ∈ cs
  | [], _, _, x, h => by simp [hexRun] at h
  | c :: cs, acc, ovf, x, h => by
    simp only [hexRun] at h
    split at h
    · exact List.mem_cons_of_mem _ (hexRun_sub cs _ _ x h)
    · exact h

/-- one escape sequence: what is pushed is well-formed, what remains is a part of the input -/
theorem escapeOne_ok (U : UFacts) (checked : EscCfg) {cs rest : List Bytes} {o : Bytes}
    (h : escapeOne U checked cs = .ok (o, rest)) : validUtf8 o = true ∧ ∀ x ∈ rest, x ∈ cs := by
  cases cs with
  | nil => simp [escapeOne] at h
  | cons c cs =>
    simp only [escapeOne] at h
    cases hc : ascii? c with
    | none => simp [hc] at h
    | some b =>
      simp only [hc] at h
      cases hs : KotoVerif.Gen.simpleEscape b with
      | some r =>
        simp only [hs, Except.ok.injEq, Prod.mk.injEq] at h
        obtain ⟨rfl, rfl⟩ := h
        exact ⟨ascii_valid (simpleEscape_ascii hs), fun x hx => List.mem_cons_of_mem _ hx⟩
      | none =>
        simp only [hs] at h
        split at h
        · -- line feed
          simp only [Except.ok.injEq, Prod.mk.injEq] at h
          obtain ⟨rfl, rfl⟩ := h
          exact ⟨valid_nil, fun x hx => List.mem_cons_of_mem _ (skipLineWs_sub U cs x hx)⟩
        · split at h
          · -- carriage return
            split at h
            · simp only [Except.ok.injEq, Prod.mk.injEq] at h
              obtain ⟨rfl, rfl⟩ := h
              exact ⟨valid_nil, fun x hx =>
                List.mem_cons_of_mem _ (List.mem_cons_of_mem _ (skipLineWs_sub U _ x hx))⟩
            · simp only [Except.ok.injEq, Prod.mk.injEq] at h
              obtain ⟨rfl, rfl⟩ := h
              exact ⟨valid_nil, fun x hx => List.mem_cons_of_mem _ hx⟩
          · split at h
            · -- \xNN
              split at h
              · cases h
              · rename_i c1 cs1
                split at h
                · cases h
                · split at h
                  · cases h
                  · rename_i d1 _ c2 cs2
                    split at h
                    · cases h
                    · rename_i d2 _
                      split at h
                      · rename_i hle
                        simp only [Except.ok.injEq, Prod.mk.injEq] at h
                        obtain ⟨rfl, rfl⟩ := h
                        exact ⟨ascii_valid (by omega), fun x hx =>
                          List.mem_cons_of_mem _ (List.mem_cons_of_mem _ (List.mem_cons_of_mem _ hx))⟩
                      · cases h
            · split at h
              · -- \u{…}
                split at h
                · cases h
                · rename_i c1 cs1
                  split at h
                  · cases h
                  · have hsub := hexRun_sub cs1 0 false
                    cases hr : hexRun cs1 0 false with
                    | mk code rest2 =>
                      cases rest2 with
                      | mk ovf rest3 =>
                        rw [hr] at h hsub
                        simp only at h hsub
                        split at h
                        · cases h
                        · split at h
                          · cases h
                          · rename_i c2 cs2
                            split at h
                            · split at h
                              · cases h
                              · split at h
                                · cases h
                                · split at h
                                  · rename_i hsc
                                    simp only [Except.ok.injEq, Prod.mk.injEq] at h
                                    obtain ⟨rfl, rfl⟩ := h
                                    refine ⟨utf8Enc_valid hsc, fun x hx => ?_⟩
                                    have : x ∈ cs1 := hsub x (List.mem_cons_of_mem _ hx)
                                    exact List.mem_cons_of_mem _ (List.mem_cons_of_mem _ this)
                                  · cases h
                            · cases h
              · cases h

/-- escape processing keeps well-formedness -/
theorem unescapeLoop_valid (U : UFacts) (checked : EscCfg) :
    ∀ (fuel : Nat) (cs : List Bytes) (out : Bytes), (∀ c ∈ cs, validUtf8 c = true) →
      unescapeLoop U checked fuel cs = .ok out → validUtf8 out = true
  | 0, _, out, _, h => by simp only [unescapeLoop, Except.ok.injEq] at h; rw [← h]; exact valid_nil
  | _ + 1, [], out, _, h => by simp only [unescapeLoop, Except.ok.injEq] at h; rw [← h]; exact valid_nil
  | fuel + 1, c :: cs, out, hcs, h => by
    simp only [unescapeLoop] at h
    split at h
    · cases he : escapeOne U checked cs with
      | error e => simp [he] at h
      | ok p =>
        obtain ⟨o, rest⟩ := p
        simp only [he] at h
        obtain ⟨hov, hsub⟩ := escapeOne_ok U checked he
        cases hr : unescapeLoop U checked fuel rest with
        | error e => simp [hr] at h
        | ok tail =>
          simp only [hr, Except.ok.injEq] at h
          rw [← h]
          exact valid_append hov (unescapeLoop_valid U checked fuel rest tail
            (fun x hx => hcs x (List.mem_cons_of_mem _ (hsub x hx))) hr)
    · cases hr : unescapeLoop U checked fuel cs with
      | error e => simp [hr] at h
      | ok tail =>
        simp only [hr, Except.ok.injEq] at h
        rw [← h]
        exact valid_append (hcs c (by simp)) (unescapeLoop_valid U checked fuel cs tail
          (fun x hx => hcs x (List.mem_cons_of_mem _ hx)) hr)

theorem unescape_valid (U : UFacts) (checked : EscCfg) {lit out : Bytes} (hv : validUtf8 lit = true)
    (h : unescape U lit checked = .ok out) : validUtf8 out = true :=
  unescapeLoop_valid U checked _ _ out (charsOf_valid hv) h

end KotoVerif.Str
