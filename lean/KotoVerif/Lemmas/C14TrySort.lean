/-
C14 — `try_sort_by` (the merge sort with a comparison that can fail): whatever the comparison does —
succeed, fail part-way, be inconsistent — the values afterwards are a permutation of the values
before. (So a caught failure of `list.sort`, `map.sort` with or without key function loses nothing.)
-/
import KotoVerif.Model.Sort

namespace KotoVerif
namespace Sorting

variable {α : Type}

theorem tryMerge_perm (less : α → α → Option Bool) :
    ∀ (f : Nat) (l r m : List α), tryMerge less f l r = some m → m.Perm (l ++ r) := by
  intro f
  induction f with
  | zero =>
    intro l r m h
    cases l with
    | nil => simp only [tryMerge, Option.some.injEq] at h; subst h; simp
    | cons a l =>
      cases r with
      | nil => simp only [tryMerge, Option.some.injEq] at h; subst h; simp
      | cons b r => simp [tryMerge] at h
  | succ f ih =>
    intro l r m h
    cases l with
    | nil => simp only [tryMerge, Option.some.injEq] at h; subst h; simp
    | cons a l =>
      cases r with
      | nil => simp only [tryMerge, Option.some.injEq] at h; subst h; simp
      | cons b r =>
        simp only [tryMerge] at h
        cases hl : less b a with
        | none => simp [hl] at h
        | some c =>
          cases c with
          | true =>
            simp only [hl, Option.map_eq_some_iff] at h
            obtain ⟨m', hm', rfl⟩ := h
            have := ih (a :: l) r m' hm'
            -- b :: m' ~ b :: (a :: l ++ r) ~ a :: l ++ b :: r
            exact (List.Perm.cons b this).trans (List.perm_middle.symm)
          | false =>
            simp only [hl, Option.map_eq_some_iff] at h
            obtain ⟨m', hm', rfl⟩ := h
            have := ih l (b :: r) m' hm'
            exact List.Perm.cons a this

theorem tryPass_perm (less : α → α → Option Bool) (w : Nat) :
    ∀ (f : Nat) (xs : List α), (tryPass less w f xs).1.Perm xs := by
  intro f
  induction f with
  | zero => intro xs; exact List.Perm.refl _
  | succ f ih =>
    intro xs
    simp only [tryPass]
    split
    · exact List.Perm.refl _
    · split
      · exact List.Perm.refl _
      · rename_i m hm
        have h1 := tryMerge_perm less _ _ _ m hm
        have h2 := ih ((xs.drop w).drop w)
        have hsplit : xs = xs.take w ++ ((xs.drop w).take w ++ (xs.drop w).drop w) := by
          rw [List.take_append_drop, List.take_append_drop]
        simp only
        calc m ++ (tryPass less w f ((xs.drop w).drop w)).1
            |>.Perm ((xs.take w ++ (xs.drop w).take w) ++ (xs.drop w).drop w) := List.Perm.append h1 h2
          _ = xs := by rw [List.append_assoc, ← hsplit]

theorem trySortLoop_perm (less : α → α → Option Bool) :
    ∀ (f w : Nat) (xs : List α), (trySortLoop less f w xs).1.Perm xs := by
  intro f
  induction f with
  | zero => intro w xs; exact List.Perm.refl _
  | succ f ih =>
    intro w xs
    simp only [trySortLoop]
    split
    · exact List.Perm.refl _
    · split
      · exact (ih (2 * w) _).trans (tryPass_perm less w _ xs)
      · exact tryPass_perm less w _ xs

/-- after `try_sort_by` — `Ok` or `Err` — the slice holds a permutation of what it held -/
theorem trySortBy_perm (less : α → α → Option Bool) (xs : List α) : (trySortBy less xs).1.Perm xs :=
  trySortLoop_perm less xs.length 1 xs

end Sorting
end KotoVerif
