/-
C14 — `deep_copy` returns a value that denotes the same tree as its argument.
-/
import KotoVerif.Model.Heap
import KotoVerif.Lemmas.C14Heap
import KotoVerif.Lemmas.C14DeepCopy

namespace KotoVerif
namespace Heap

theorem mapOpt_imp {α β : Type} (f f' : α → Option β) (xs : List α) (ts : List β)
    (h : ∀ x ∈ xs, ∀ t, f x = some t → f' x = some t) (hm : mapOpt f xs = some ts) :
    mapOpt f' xs = some ts := by
  induction xs generalizing ts with
  | nil => simpa [mapOpt] using hm
  | cons x xs ih =>
    simp only [mapOpt] at hm ⊢
    cases h1 : f x with
    | none => simp [h1] at hm
    | some t0 =>
      simp only [h1] at hm
      cases h2 : mapOpt f xs with
      | none => simp [h2] at hm
      | some ts0 =>
        simp only [h2] at hm
        rw [h x (by simp) t0 h1, ih ts0 (fun y hy => h y (List.mem_cons_of_mem _ hy)) h2]
        exact hm

theorem mapOpt_cons_some {α β : Type} (f : α → Option β) (x : α) (xs : List α) (ts : List β)
    (hm : mapOpt f (x :: xs) = some ts) :
    ∃ t0 ts0, f x = some t0 ∧ mapOpt f xs = some ts0 ∧ ts = t0 :: ts0 := by
  simp only [mapOpt] at hm
  cases h1 : f x with
  | none => simp [h1] at hm
  | some t0 =>
    simp only [h1] at hm
    cases h2 : mapOpt f xs with
    | none => simp [h2] at hm
    | some ts0 =>
      simp only [h2, Option.some.injEq] at hm
      exact ⟨t0, ts0, rfl, rfl, hm.symm⟩

/-- a successful read is unaffected by appending objects to the heap -/
theorem snapshot_ext (g : Nat) (heap ext : Heap) :
    ∀ (v : HVal) (t : Val), snapshot g heap v = some t → snapshot g (heap ++ ext) v = some t := by
  induction g with
  | zero => intro v t h; simp [snapshot] at h
  | succ g ih =>
    intro v t h
    cases v with
    | tuple xs =>
      simp only [snapshot] at h ⊢
      cases hm : mapOpt (snapshot g heap) xs with
      | none => simp [hm] at h
      | some ts =>
        rw [mapOpt_imp _ _ xs ts (fun x _ t0 hx => ih x t0 hx) hm]
        simpa [hm] using h
    | lref a =>
      simp only [snapshot] at h ⊢
      cases hgl : getList heap a with
      | none => simp [hgl] at h
      | some xs =>
        simp only [hgl] at h
        rw [getList_append_left heap ext a xs hgl]
        simp only
        cases hm : mapOpt (snapshot g heap) xs with
        | none => simp [hm] at h
        | some ts =>
          rw [mapOpt_imp _ _ xs ts (fun x _ t0 hx => ih x t0 hx) hm]
          simpa [hm] using h
    | mref a =>
      simp only [snapshot] at h ⊢
      cases hgl : getMap heap a with
      | none => simp [hgl] at h
      | some es =>
        simp only [hgl] at h
        rw [getMap_append_left heap ext a es hgl]
        simp only
        cases hm : mapOpt (snapshot g heap) (es.map Prod.snd) with
        | none => simp [hm] at h
        | some ts =>
          rw [mapOpt_imp _ _ _ ts (fun x _ t0 hx => ih x t0 hx) hm]
          simpa [hm] using h
    | null => simpa [snapshot] using h
    | bool _ => simpa [snapshot] using h
    | num _ => simpa [snapshot] using h
    | str _ => simpa [snapshot] using h
    | range _ _ => simpa [snapshot] using h

theorem mapAccumOpt_length {σ α β : Type} (g : σ → α → Option (σ × β)) (s s' : σ) (xs : List α)
    (ys : List β) (h : mapAccumOpt g s xs = some (s', ys)) : ys.length = xs.length := by
  induction xs generalizing s ys with
  | nil =>
    simp only [mapAccumOpt, Option.some.injEq, Prod.mk.injEq] at h
    rw [← h.2]
    rfl
  | cons x xs ih =>
    obtain ⟨s1, y, ys', _, h2, hys⟩ := mapAccumOpt_cons g s s' x xs ys h
    rw [hys]
    simp [ih s1 ys' h2]

theorem mapAccum_snapshot (f : Nat)
    (H : ∀ heap heap' v v', deepCopy f heap v = some (heap', v') →
      ∀ g t, snapshot g heap v = some t → snapshot g heap' v' = some t)
    (heap heap' : Heap) (xs xs' : List HVal) (h : mapAccumOpt (deepCopy f) heap xs = some (heap', xs'))
    (g : Nat) (ts : List Val) (hs : mapOpt (snapshot g heap) xs = some ts) :
    mapOpt (snapshot g heap') xs' = some ts := by
  induction xs generalizing heap xs' ts with
  | nil =>
    simp only [mapAccumOpt, Option.some.injEq, Prod.mk.injEq] at h
    rw [← h.2]
    simpa [mapOpt] using hs
  | cons x xs ih =>
    obtain ⟨s1, y, ys', h1, h2, hys⟩ := mapAccumOpt_cons _ heap heap' x xs xs' h
    obtain ⟨t0, ts0, hx, hxs, hts⟩ := mapOpt_cons_some _ x xs ts hs
    obtain ⟨e1, he1⟩ := deepCopy_extends f heap s1 x y h1
    obtain ⟨e2, he2⟩ := mapAccum_extends (deepCopy f) (fun a b c d => deepCopy_extends f a c b d) s1 heap' xs ys' h2
    have hy1 : snapshot g s1 y = some t0 := H _ _ _ _ h1 g t0 hx
    have hy : snapshot g heap' y = some t0 := by rw [he2]; exact snapshot_ext g s1 e2 y t0 hy1
    have hxs1 : mapOpt (snapshot g s1) xs = some ts0 := by
      rw [he1]
      exact mapOpt_imp _ _ xs ts0 (fun z _ t hz => snapshot_ext g heap e1 z t hz) hxs
    have hrest := ih s1 ys' h2 ts0 hxs1
    rw [hys, hts]
    simp [mapOpt, hy, hrest]

theorem deepCopy_snapshot (f : Nat) : ∀ (heap heap' : Heap) (v v' : HVal),
    deepCopy f heap v = some (heap', v') →
    ∀ g t, snapshot g heap v = some t → snapshot g heap' v' = some t := by
  induction f with
  | zero => intro heap heap' v v' h; simp [deepCopy] at h
  | succ f ih =>
    intro heap heap' v v' h g t hs
    have hl := mapAccum_snapshot f ih
    cases g with
    | zero => simp [snapshot] at hs
    | succ g =>
      cases v with
      | tuple xs =>
        simp only [deepCopy] at h
        cases hm : mapAccumOpt (deepCopy f) heap xs with
        | none => simp [hm] at h
        | some r =>
          obtain ⟨h1, xs'⟩ := r
          simp only [hm, Option.some.injEq, Prod.mk.injEq] at h
          simp only [snapshot] at hs
          cases hms : mapOpt (snapshot g heap) xs with
          | none => simp [hms] at hs
          | some ts =>
            have := hl heap h1 xs xs' hm g ts hms
            rw [← h.1, ← h.2]
            simp only [snapshot, this]
            simpa [hms] using hs
      | lref a =>
        simp only [deepCopy] at h
        cases hgl : getList heap a with
        | none => simp [hgl] at h
        | some xs =>
          simp only [hgl] at h
          cases hm : mapAccumOpt (deepCopy f) heap xs with
          | none => simp [hm] at h
          | some r =>
            obtain ⟨h1, xs'⟩ := r
            simp only [hm, Option.some.injEq, Prod.mk.injEq] at h
            simp only [snapshot, hgl] at hs
            cases hms : mapOpt (snapshot g heap) xs with
            | none => simp [hms] at hs
            | some ts =>
              have h2 := hl heap h1 xs xs' hm g ts hms
              have h3 : mapOpt (snapshot g (h1 ++ [Obj.list xs'])) xs' = some ts :=
                mapOpt_imp _ _ xs' ts (fun z _ t0 hz => snapshot_ext g h1 _ z t0 hz) h2
              rw [← h.1, ← h.2]
              have hget : getList (h1 ++ [Obj.list xs']) h1.length = some xs' := by simp [getList]
              simp only [snapshot, hget, h3]
              simpa [hms] using hs
      | mref a =>
        simp only [deepCopy] at h
        cases hgl : getMap heap a with
        | none => simp [hgl] at h
        | some es =>
          simp only [hgl] at h
          cases hm : mapAccumOpt (deepCopy f) heap (es.map Prod.snd) with
          | none => simp [hm] at h
          | some r =>
            obtain ⟨h1, vs'⟩ := r
            simp only [hm, Option.some.injEq, Prod.mk.injEq] at h
            simp only [snapshot, hgl] at hs
            cases hms : mapOpt (snapshot g heap) (es.map Prod.snd) with
            | none => simp [hms] at hs
            | some ts =>
              have h2 := hl heap h1 _ vs' hm g ts hms
              have hlen : vs'.length = (es.map Prod.fst).length := by
                rw [mapAccumOpt_length _ _ _ _ _ hm]; simp
              have h3 : mapOpt (snapshot g (h1 ++ [Obj.map ((es.map Prod.fst).zip vs')])) vs' = some ts :=
                mapOpt_imp _ _ vs' ts (fun z _ t0 hz => snapshot_ext g h1 _ z t0 hz) h2
              rw [← h.1, ← h.2]
              have hget : getMap (h1 ++ [Obj.map ((es.map Prod.fst).zip vs')]) h1.length
                  = some ((es.map Prod.fst).zip vs') := by simp [getMap]
              have hsnd : ((es.map Prod.fst).zip vs').map Prod.snd = vs' :=
                List.map_snd_zip (by omega)
              have hfst : ((es.map Prod.fst).zip vs').map Prod.fst = es.map Prod.fst :=
                List.map_fst_zip (by omega)
              simp only [snapshot, hget, hsnd, hfst, h3]
              simpa [hms] using hs
      | null => simp only [deepCopy, Option.some.injEq, Prod.mk.injEq] at h; rw [← h.1, ← h.2]; exact hs
      | bool _ => simp only [deepCopy, Option.some.injEq, Prod.mk.injEq] at h; rw [← h.1, ← h.2]; exact hs
      | num _ => simp only [deepCopy, Option.some.injEq, Prod.mk.injEq] at h; rw [← h.1, ← h.2]; exact hs
      | str _ => simp only [deepCopy, Option.some.injEq, Prod.mk.injEq] at h; rw [← h.1, ← h.2]; exact hs
      | range _ _ => simp only [deepCopy, Option.some.injEq, Prod.mk.injEq] at h; rw [← h.1, ← h.2]; exact hs

end Heap
end KotoVerif
