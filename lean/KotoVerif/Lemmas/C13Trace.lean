/-
C13 helper lemmas, part 8: pull order for arbitrary pipelines.

`runD c ds s` runs a sequence of calls (`true` = `next`, `false` = `next_back`) and returns the final
state and *all* events. `strip` removes the callback events, leaving the events of the sources.

Simulation: every adaptor drives its input only through the input's own `next` / `next_back`:
one call on the adaptor is *some sequence of calls on the input* (from the input's current state, to
the input's new state) plus callback events (`Sim`). Hence (`sim_run`) the source events of any run of
the adaptor are the source events of a run of its input, and by induction over the pipeline the
source events of any run of a pipeline are a run of its source — resp. an interleaving (`Shuffle`)
of runs of its sources for `chain` / `zip` (`SrcTr`, `pipe_trace`).
-/
import KotoVerif.Lemmas.C13Peek

namespace KotoVerif.Iter

def isCall : Ev → Bool
  | .call .. => true
  | _ => false

/-- the source events of a trace -/
def strip (es : List Ev) : List Ev := es.filter (fun e => !isCall e)

theorem strip_append (a b : List Ev) : strip (a ++ b) = strip a ++ strip b := by
  simp [strip]

theorem strip_call (f : Nat) (args : List Val) : strip [Ev.call f args] = [] := rfl

theorem strip_nil : strip [] = [] := rfl

theorem strip_cons_call (f : Nat) (args : List Val) (es : List Ev) :
    strip (Ev.call f args :: es) = strip es := rfl

/-- run a sequence of calls: final state and all events -/
def runD (c : Co) : List Bool → c.σ → c.σ × List Ev
  | [], s => (s, [])
  | true :: ds, s =>
    let r := c.next s
    let (s', e) := runD c ds r.st
    (s', r.ev ++ e)
  | false :: ds, s =>
    let r := c.back s
    let (s', e) := runD c ds r.st
    (s', r.ev ++ e)

theorem runD_nil (c : Co) (s : c.σ) : runD c [] s = (s, []) := rfl

theorem runD_true (c : Co) (ds : List Bool) (s : c.σ) :
    runD c (true :: ds) s = ((runD c ds (c.next s).st).1, (c.next s).ev ++ (runD c ds (c.next s).st).2) := rfl

theorem runD_false (c : Co) (ds : List Bool) (s : c.σ) :
    runD c (false :: ds) s = ((runD c ds (c.back s).st).1, (c.back s).ev ++ (runD c ds (c.back s).st).2) := rfl

theorem runD_append (c : Co) : ∀ (d1 d2 : List Bool) (s : c.σ),
    runD c (d1 ++ d2) s =
      ((runD c d2 (runD c d1 s).1).1, (runD c d1 s).2 ++ (runD c d2 (runD c d1 s).1).2) := by
  intro d1
  induction d1 with
  | nil => intro d2 s; simp [runD_nil]
  | cons d d1 ih =>
    intro d2 s
    cases d with
    | true =>
      rw [List.cons_append, runD_true, runD_true, ih]
      simp
    | false =>
      rw [List.cons_append, runD_false, runD_false, ih]
      simp

/-- one call on `A` (in a state related to the input state `s`) = a run of the input from `s` -/
structure Sim (A c : Co) (R : A.σ → c.σ → Prop) : Prop where
  next : ∀ st s, R st s → ∃ ds, R (A.next st).st (runD c ds s).1 ∧ strip (A.next st).ev = strip (runD c ds s).2
  back : ∀ st s, R st s → ∃ ds, R (A.back st).st (runD c ds s).1 ∧ strip (A.back st).ev = strip (runD c ds s).2

theorem sim_run {A c : Co} {R : A.σ → c.σ → Prop} (h : Sim A c R) : ∀ (ds : List Bool) (st : A.σ) (s : c.σ),
    R st s → ∃ ds', R (runD A ds st).1 (runD c ds' s).1 ∧ strip (runD A ds st).2 = strip (runD c ds' s).2 := by
  intro ds
  induction ds with
  | nil => intro st s hr; exact ⟨[], hr, rfl⟩
  | cons d ds ih =>
    intro st s hr
    cases d with
    | true =>
      obtain ⟨d1, r1, e1⟩ := h.next st s hr
      obtain ⟨d2, r2, e2⟩ := ih (A.next st).st (runD c d1 s).1 r1
      refine ⟨d1 ++ d2, ?_, ?_⟩
      · rw [runD_true, runD_append]; exact r2
      · rw [runD_true, runD_append]; simp only [strip_append, e1, e2]
    | false =>
      obtain ⟨d1, r1, e1⟩ := h.back st s hr
      obtain ⟨d2, r2, e2⟩ := ih (A.back st).st (runD c d1 s).1 r1
      refine ⟨d1 ++ d2, ?_, ?_⟩
      · rw [runD_false, runD_append]; exact r2
      · rw [runD_false, runD_append]; simp only [strip_append, e1, e2]

/-- `next_back` default implementation: no call on the input -/
theorem noBack_sim {A c : Co} {R : A.σ → c.σ → Prop} (st : A.σ) (s : c.σ) (hr : R st s)
    (hb : A.back st = ⟨none, st, []⟩) :
    ∃ ds, R (A.back st).st (runD c ds s).1 ∧ strip (A.back st).ev = strip (runD c ds s).2 :=
  ⟨[], by rw [hb]; exact hr, by rw [hb]; rfl⟩

/-! ### the loops as runs of the input -/

/-- "state `s'` and events `e` result from some run of `c` from `s`" (up to callback events) -/
def IsRun (c : Co) (s s' : c.σ) (e : List Ev) : Prop :=
  ∃ ds, s' = (runD c ds s).1 ∧ strip e = strip (runD c ds s).2

theorem isRun_refl (c : Co) (s : c.σ) : IsRun c s s [] := ⟨[], rfl, rfl⟩

theorem isRun_next (c : Co) (s : c.σ) : IsRun c s (c.next s).st (c.next s).ev :=
  ⟨[true], by simp [runD_true, runD_nil], by simp [runD_true, runD_nil]⟩

theorem isRun_back (c : Co) (s : c.σ) : IsRun c s (c.back s).st (c.back s).ev :=
  ⟨[false], by simp [runD_false, runD_nil], by simp [runD_false, runD_nil]⟩

theorem isRun_trans {c : Co} {s1 s2 s3 : c.σ} {e1 e2 : List Ev}
    (h1 : IsRun c s1 s2 e1) (h2 : IsRun c s2 s3 e2) : IsRun c s1 s3 (e1 ++ e2) := by
  obtain ⟨d1, a1, b1⟩ := h1
  obtain ⟨d2, a2, b2⟩ := h2
  refine ⟨d1 ++ d2, ?_, ?_⟩
  · rw [runD_append, ← a1]; exact a2
  · rw [runD_append, ← a1]; simp only [strip_append, b1, b2]

/-- callback events do not matter -/
theorem isRun_calls {c : Co} {s s' : c.σ} {e e' : List Ev} (h : IsRun c s s' e) (he : strip e' = strip e) :
    IsRun c s s' e' := by
  obtain ⟨ds, a, b⟩ := h
  exact ⟨ds, a, by rw [he, b]⟩

theorem advance_run (c : Co) : ∀ (n : Nat) (s : c.σ), IsRun c s (advance c n s).2.1 (advance c n s).2.2 := by
  intro n
  induction n with
  | zero => intro s; exact isRun_refl c s
  | succ n ih =>
    intro s
    cases ho : (c.next s).out with
    | none =>
      have e : advance c (n + 1) s = (false, (c.next s).st, (c.next s).ev) := by simp [advance, ho]
      rw [e]; exact isRun_next c s
    | some v =>
      have e : advance c (n + 1) s = ((advance c n (c.next s).st).1, (advance c n (c.next s).st).2.1,
          (c.next s).ev ++ (advance c n (c.next s).st).2.2) := by simp [advance, ho]
      rw [e]; exact isRun_trans (isRun_next c s) (ih _)

theorem nth_run (c : Co) (n : Nat) (s : c.σ) : IsRun c s (nth c n s).st (nth c n s).ev := by
  have h := advance_run c n s
  unfold nth
  generalize advance c n s = r at h
  obtain ⟨ok, s', e⟩ := r
  cases ok with
  | true => exact isRun_trans h (isRun_next c s')
  | false => exact h

theorem pullN_run (c : Co) : ∀ (n : Nat) (s : c.σ), IsRun c s (pullN c n s).1 (pullN c n s).2 := by
  intro n
  induction n with
  | zero => intro s; exact isRun_refl c s
  | succ n ih =>
    intro s
    have e : pullN c (n + 1) s = ((pullN c n (c.next s).st).1, (c.next s).ev ++ (pullN c n (c.next s).st).2) := rfl
    rw [e]; exact isRun_trans (isRun_next c s) (ih _)

theorem takeUpTo_run (c : Co) : ∀ (n : Nat) (s : c.σ), IsRun c s (takeUpTo c n s).2.1 (takeUpTo c n s).2.2 := by
  intro n
  induction n with
  | zero => intro s; exact isRun_refl c s
  | succ n ih =>
    intro s
    cases ho : (c.next s).out with
    | none =>
      have e : takeUpTo c (n + 1) s = ([], (c.next s).st, (c.next s).ev) := by simp [takeUpTo, ho]
      rw [e]; exact isRun_next c s
    | some v =>
      have e : takeUpTo c (n + 1) s = (v :: (takeUpTo c n (c.next s).st).1, (takeUpTo c n (c.next s).st).2.1,
          (c.next s).ev ++ (takeUpTo c n (c.next s).st).2.2) := by simp [takeUpTo, ho]
      rw [e]; exact isRun_trans (isRun_next c s) (ih _)

theorem fillCache_run (c : Co) : ∀ (n : Nat) (s : c.σ) (cache : List Val),
    IsRun c s (fillCache c n s cache).2.1 (fillCache c n s cache).2.2 := by
  intro n
  induction n with
  | zero => intro s cache; exact isRun_refl c s
  | succ n ih =>
    intro s cache
    cases ho : (c.next s).out with
    | none =>
      have e : fillCache c (n + 1) s cache = (cache, (c.next s).st, (c.next s).ev) := by simp [fillCache, ho]
      rw [e]; exact isRun_next c s
    | some v =>
      have e : fillCache c (n + 1) s cache = ((fillCache c n (c.next s).st (cache ++ [v])).1,
          (fillCache c n (c.next s).st (cache ++ [v])).2.1,
          (c.next s).ev ++ (fillCache c n (c.next s).st (cache ++ [v])).2.2) := by simp [fillCache, ho]
      rw [e]; exact isRun_trans (isRun_next c s) (ih _ _)

theorem keepLoop_run (p : Pred) (c : Co) : ∀ (n : Nat) (s : c.σ),
    IsRun c s (keepLoop p c n s).st (keepLoop p c n s).ev := by
  intro n
  induction n with
  | zero => intro s; exact isRun_refl c s
  | succ n ih =>
    intro s
    cases ho : (c.next s).out with
    | none =>
      have e : keepLoop p c (n + 1) s = ⟨none, (c.next s).st, (c.next s).ev⟩ := by simp [keepLoop, ho]
      rw [e]; exact isRun_next c s
    | some v =>
      by_cases hp : p.app v = true
      · have e : keepLoop p c (n + 1) s = ⟨some v, (c.next s).st, (c.next s).ev ++ [Ev.call p.tag [v]]⟩ := by
          simp [keepLoop, ho, hp]
        rw [e]
        exact isRun_calls (isRun_next c s) (by simp [strip_append, strip_call])
      · have e : keepLoop p c (n + 1) s = ⟨(keepLoop p c n (c.next s).st).out, (keepLoop p c n (c.next s).st).st,
            (c.next s).ev ++ [Ev.call p.tag [v]] ++ (keepLoop p c n (c.next s).st).ev⟩ := by
          simp [keepLoop, ho, hp]
        rw [e]
        exact isRun_calls (isRun_trans (isRun_next c s) (ih _))
          (by simp [strip_append, strip_call, strip_cons_call])

theorem flattenLoop_run (c : Co) : ∀ (n : Nat) (s : c.σ) (nested : Option (List Val)),
    IsRun c s (flattenLoop c n s nested).st.1 (flattenLoop c n s nested).ev := by
  intro n
  induction n with
  | zero => intro s nested; exact isRun_refl c s
  | succ n ih =>
    intro s nested
    have rest : (nested = none ∨ nested = some []) →
        IsRun c s (flattenLoop c (n + 1) s nested).st.1 (flattenLoop c (n + 1) s nested).ev := by
      intro hn
      cases ho : (c.next s).out with
      | none =>
        have e : flattenLoop c (n + 1) s nested = ⟨none, ((c.next s).st, nested), (c.next s).ev⟩ := by
          rcases hn with rfl | rfl <;> simp [flattenLoop, ho]
        rw [e]; exact isRun_next c s
      | some v =>
        cases he : elemsOf v with
        | some es =>
          have e : flattenLoop c (n + 1) s nested =
              ⟨(flattenLoop c n (c.next s).st (some es)).out, (flattenLoop c n (c.next s).st (some es)).st,
               (c.next s).ev ++ (flattenLoop c n (c.next s).st (some es)).ev⟩ := by
            rcases hn with rfl | rfl <;> simp [flattenLoop, ho, he]
          rw [e]; exact isRun_trans (isRun_next c s) (ih _ _)
        | none =>
          have e : flattenLoop c (n + 1) s nested = ⟨some v, ((c.next s).st, nested), (c.next s).ev⟩ := by
            rcases hn with rfl | rfl <;> simp [flattenLoop, ho, he]
          rw [e]; exact isRun_next c s
    match nested with
    | none => exact rest (Or.inl rfl)
    | some [] => exact rest (Or.inr rfl)
    | some (x :: more) =>
      have e : flattenLoop c (n + 1) s (some (x :: more)) = ⟨some x, (s, some more), []⟩ := by
        simp [flattenLoop]
      rw [e]; exact isRun_refl c s


/-! ### every adaptor is a simulation over its input -/

theorem sim_of_proj {A c : Co} (π : A.σ → c.σ)
    (hn : ∀ st, IsRun c (π st) (π (A.next st).st) (A.next st).ev)
    (hb : ∀ st, IsRun c (π st) (π (A.back st).st) (A.back st).ev) :
    Sim A c (fun st s => π st = s) := by
  constructor
  · intro st s hr
    subst hr
    obtain ⟨ds, a, b⟩ := hn st
    exact ⟨ds, a, b⟩
  · intro st s hr
    subst hr
    obtain ⟨ds, a, b⟩ := hb st
    exact ⟨ds, a, b⟩

theorem each_sim (f : Fn) (c : Co) : Sim (eachCo f c) c (fun st s => st = s) := by
  apply sim_of_proj (A := eachCo f c) (c := c) (fun st => st)
  · intro (st : c.σ)
    cases ho : (c.next st).out with
    | none =>
      have e : (eachCo f c).next st = ⟨none, (c.next st).st, (c.next st).ev⟩ := by simp [eachCo, ho]
      rw [e]; exact isRun_next c st
    | some v =>
      have e : (eachCo f c).next st = ⟨some (f.app v), (c.next st).st, (c.next st).ev ++ [Ev.call f.tag [v]]⟩ := by
        simp [eachCo, ho]
      rw [e]; exact isRun_calls (isRun_next c st) (by simp [strip_append, strip_call])
  · intro (st : c.σ)
    cases ho : (c.back st).out with
    | none =>
      have e : (eachCo f c).back st = ⟨none, (c.back st).st, (c.back st).ev⟩ := by simp [eachCo, ho]
      rw [e]; exact isRun_back c st
    | some v =>
      have e : (eachCo f c).back st = ⟨some (f.app v), (c.back st).st, (c.back st).ev ++ [Ev.call f.tag [v]]⟩ := by
        simp [eachCo, ho]
      rw [e]; exact isRun_calls (isRun_back c st) (by simp [strip_append, strip_call])

theorem pair_sim (first : Bool) (c : Co) : Sim (pairCo first c) c (fun st s => st = s) := by
  apply sim_of_proj (A := pairCo first c) (c := c) (fun st => st)
  · intro (st : c.σ); exact isRun_next c st
  · intro (st : c.σ); exact isRun_refl c st

theorem enumerate_sim (c : Co) : Sim (enumerateCo c) c (fun st s => st.1 = s) := by
  apply sim_of_proj (A := enumerateCo c) (c := c) (fun st => st.1)
  · intro (st : c.σ × Nat); exact isRun_next c st.1
  · intro (st : c.σ × Nat); exact isRun_refl c st.1

theorem take_sim (c : Co) : Sim (takeCo c) c (fun st s => st.1 = s) := by
  apply sim_of_proj (A := takeCo c) (c := c) (fun st => st.1)
  · intro (st : c.σ × Nat)
    by_cases hk : st.2 > 0
    · have e : (takeCo c).next st = ⟨(c.next st.1).out, ((c.next st.1).st, st.2 - 1), (c.next st.1).ev⟩ := by
        simp [takeCo, hk]
      rw [e]; exact isRun_next c st.1
    · have e : (takeCo c).next st = ⟨none, st, []⟩ := by simp [takeCo, hk]
      rw [e]; exact isRun_refl c st.1
  · intro (st : c.σ × Nat); exact isRun_refl c st.1

theorem takeWhile_sim (p : Pred) (c : Co) : Sim (takeWhileCo p c) c (fun st s => st.1 = s) := by
  apply sim_of_proj (A := takeWhileCo p c) (c := c) (fun st => st.1)
  · intro (st : c.σ × Bool)
    cases hf : st.2 with
    | true =>
      have e : (takeWhileCo p c).next st = ⟨none, st, []⟩ := by simp [takeWhileCo, hf]
      rw [e]; exact isRun_refl c st.1
    | false =>
      cases ho : (c.next st.1).out with
      | none =>
        have e : (takeWhileCo p c).next st = ⟨none, ((c.next st.1).st, false), (c.next st.1).ev⟩ := by
          simp [takeWhileCo, hf, ho]
        rw [e]; exact isRun_next c st.1
      | some v =>
        by_cases hp : p.app v = true
        · have e : (takeWhileCo p c).next st =
              ⟨some v, ((c.next st.1).st, false), (c.next st.1).ev ++ [Ev.call p.tag [v]]⟩ := by
            simp [takeWhileCo, hf, ho, hp]
          rw [e]; exact isRun_calls (isRun_next c st.1) (by simp [strip_append, strip_call])
        · have e : (takeWhileCo p c).next st =
              ⟨none, ((c.next st.1).st, true), (c.next st.1).ev ++ [Ev.call p.tag [v]]⟩ := by
            simp [takeWhileCo, hf, ho, hp]
          rw [e]; exact isRun_calls (isRun_next c st.1) (by simp [strip_append, strip_call])
  · intro (st : c.σ × Bool); exact isRun_refl c st.1

theorem skip_sim (c : Co) : Sim (skipCo c) c (fun st s => st.1 = s) := by
  apply sim_of_proj (A := skipCo c) (c := c) (fun st => st.1)
  · intro (st : c.σ × Nat)
    by_cases hk : st.2 > 0
    · have e : (skipCo c).next st = ⟨(nth c st.2 st.1).out, ((nth c st.2 st.1).st, 0), (nth c st.2 st.1).ev⟩ := by
        simp [skipCo, hk]
      rw [e]; exact nth_run c st.2 st.1
    · have e : (skipCo c).next st = ⟨(c.next st.1).out, ((c.next st.1).st, 0), (c.next st.1).ev⟩ := by
        simp [skipCo, hk]
      rw [e]; exact isRun_next c st.1
  · intro (st : c.σ × Nat)
    by_cases hk : st.2 > 0
    · have e : (skipCo c).back st =
          ⟨(c.back (nth c (st.2 - 1) st.1).st).out, ((c.back (nth c (st.2 - 1) st.1).st).st, 0),
           (nth c (st.2 - 1) st.1).ev ++ (c.back (nth c (st.2 - 1) st.1).st).ev⟩ := by
        simp [skipCo, hk]
      rw [e]; exact isRun_trans (nth_run c (st.2 - 1) st.1) (isRun_back c _)
    · have e : (skipCo c).back st = ⟨(c.back st.1).out, ((c.back st.1).st, 0), (c.back st.1).ev⟩ := by
        simp [skipCo, hk]
      rw [e]; exact isRun_back c st.1

theorem step_sim (n : Nat) (c : Co) : Sim (stepCo n c) c (fun st s => st.1 = s) := by
  apply sim_of_proj (A := stepCo n c) (c := c) (fun st => st.1)
  · intro (st : c.σ × Nat)
    have ⟨_, e2, e3, _⟩ := step_next_eq n c st
    rw [e2, e3]; exact nth_run c st.2 st.1
  · intro (st : c.σ × Nat); exact isRun_refl c st.1

theorem chunks_sim (n : Nat) (c : Co) : Sim (chunksCo n c) c (fun st s => st = s) := by
  apply sim_of_proj (A := chunksCo n c) (c := c) (fun st => st)
  · intro (st : c.σ)
    have e : ((chunksCo n c).next st).st = (takeUpTo c n st).2.1 ∧
        ((chunksCo n c).next st).ev = (takeUpTo c n st).2.2 := by simp [chunksCo]
    rw [e.1, e.2]; exact takeUpTo_run c n st
  · intro (st : c.σ); exact isRun_refl c st

theorem windows_sim (n : Nat) (c : Co) : Sim (windowsCo n c) c (fun st s => st.1 = s) := by
  apply sim_of_proj (A := windowsCo n c) (c := c) (fun st => st.1)
  · intro (st : c.σ × List Val)
    have e : ((windowsCo n c).next st).st.1 = (fillCache c (n - (st.2.drop 1).length) st.1 (st.2.drop 1)).2.1 ∧
        ((windowsCo n c).next st).ev = (fillCache c (n - (st.2.drop 1).length) st.1 (st.2.drop 1)).2.2 := by
      simp [windowsCo]
    rw [e.1, e.2]; exact fillCache_run c _ _ _
  · intro (st : c.σ × List Val); exact isRun_refl c st.1

theorem intersperse_sim (sep : Val) (lg : Bool) (c : Co) :
    Sim (intersperseCo sep lg c) c (fun st s => st.inner = s) := by
  apply sim_of_proj (A := intersperseCo sep lg c) (c := c) (fun st => st.inner)
  · intro (st : Inter c.σ)
    cases hp : st.peeked with
    | some v =>
      cases hn : st.nextIsSep with
      | true =>
        have e : (intersperseCo sep lg c).next st =
            ⟨some sep, ⟨st.inner, some v, false⟩, [] ++ (if lg then [Ev.call tagSep []] else [])⟩ := by
          simp [intersperseCo, hp, hn]
        rw [e]
        exact isRun_calls (isRun_refl c st.inner) (by cases lg <;> simp [strip, isCall])
      | false =>
        have e : (intersperseCo sep lg c).next st = ⟨some v, ⟨st.inner, none, true⟩, []⟩ := by
          simp [intersperseCo, hp, hn]
        rw [e]; exact isRun_refl c st.inner
    | none =>
      cases ho : (c.next st.inner).out with
      | none =>
        have e : (intersperseCo sep lg c).next st =
            ⟨none, ⟨(c.next st.inner).st, none, st.nextIsSep⟩, (c.next st.inner).ev⟩ := by
          simp [intersperseCo, hp, ho]
        rw [e]; exact isRun_next c st.inner
      | some v =>
        cases hn : st.nextIsSep with
        | true =>
          have e : (intersperseCo sep lg c).next st =
              ⟨some sep, ⟨(c.next st.inner).st, some v, false⟩,
               (c.next st.inner).ev ++ (if lg then [Ev.call tagSep []] else [])⟩ := by
            simp [intersperseCo, hp, ho, hn]
          rw [e]
          exact isRun_calls (isRun_next c st.inner) (by cases lg <;> simp [strip_append, strip, isCall])
        | false =>
          have e : (intersperseCo sep lg c).next st =
              ⟨some v, ⟨(c.next st.inner).st, none, true⟩, (c.next st.inner).ev⟩ := by
            simp [intersperseCo, hp, ho, hn]
          rw [e]; exact isRun_next c st.inner
  · intro (st : Inter c.σ); exact isRun_refl c st.inner

theorem keep_sim (fuel : Nat) (p : Pred) (c : Co) : Sim (keepCo fuel p c) c (fun st s => st = s) := by
  apply sim_of_proj (A := keepCo fuel p c) (c := c) (fun st => st)
  · intro (st : c.σ); exact keepLoop_run p c fuel st
  · intro (st : c.σ); exact isRun_refl c st

theorem flatten_sim (fuel : Nat) (c : Co) : Sim (flattenCo fuel c) c (fun st s => st.1 = s) := by
  apply sim_of_proj (A := flattenCo fuel c) (c := c) (fun st => st.1)
  · intro (st : c.σ × Option (List Val)); exact flattenLoop_run c fuel st.1 st.2
  · intro (st : c.σ × Option (List Val)); exact isRun_refl c st.1

theorem cycle_sim (c : Co) : Sim (cycleCo c) c (fun st s => st.inner = s) := by
  apply sim_of_proj (A := cycleCo c) (c := c) (fun st => st.inner)
  · intro (st : Cyc c.σ)
    have e : ((cycleCo c).next st).st.inner = (c.next st.inner).st ∧
        ((cycleCo c).next st).ev = (c.next st.inner).ev := by
      simp only [cycleCo]
      cases (c.next st.inner).out with
      | some v => exact ⟨rfl, rfl⟩
      | none => cases st.cache.isEmpty <;> exact ⟨rfl, rfl⟩
    rw [e.1, e.2]; exact isRun_next c st.inner
  · intro (st : Cyc c.σ); exact isRun_refl c st.inner

theorem reversed_sim (c : Co) : Sim (reversedCo c) c (fun st s => st = s) := by
  apply sim_of_proj (A := reversedCo c) (c := c) (fun st => st)
  · intro (st : c.σ); exact isRun_back c st
  · intro (st : c.σ); exact isRun_next c st

theorem peekable_sim (c : Co) : Sim (peekableCo c) c (fun st s => st.inner = s) := by
  apply sim_of_proj (A := peekableCo c) (c := c) (fun st => st.inner)
  · intro (st : Peek c.σ)
    cases hf : st.front with
    | some v =>
      have e : (peekableCo c).next st = ⟨some v, { st with front := none }, []⟩ := by simp [peekableCo, hf]
      rw [e]; exact isRun_refl c st.inner
    | none =>
      have e : ((peekableCo c).next st).st.inner = (c.next st.inner).st ∧
          ((peekableCo c).next st).ev = (c.next st.inner).ev := by
        simp only [peekableCo, hf]
        cases (c.next st.inner).out <;> exact ⟨rfl, rfl⟩
      rw [e.1, e.2]; exact isRun_next c st.inner
  · intro (st : Peek c.σ)
    cases hbd : c.bidir with
    | false =>
      have e : (peekableCo c).back st = ⟨none, st, []⟩ := by simp [peekableCo, hbd]
      rw [e]; exact isRun_refl c st.inner
    | true =>
      cases hf : st.rear with
      | some v =>
        have e : (peekableCo c).back st = ⟨some v, { st with rear := none }, []⟩ := by
          simp [peekableCo, hbd, hf]
        rw [e]; exact isRun_refl c st.inner
      | none =>
        have e : ((peekableCo c).back st).st.inner = (c.back st.inner).st ∧
            ((peekableCo c).back st).ev = (c.back st.inner).ev := by
          simp only [peekableCo, hbd, hf, if_true]
          cases (c.back st.inner).out <;> exact ⟨rfl, rfl⟩
        rw [e.1, e.2]; exact isRun_back c st.inner

/-! ### two inputs: interleavings -/

/-- `c` is an interleaving of `a` and `b` (each keeps its own order) -/
inductive Shuffle : List Ev → List Ev → List Ev → Prop
  | nil : Shuffle [] [] []
  | left {a b c : List Ev} (x : Ev) : Shuffle a b c → Shuffle (x :: a) b (x :: c)
  | right {a b c : List Ev} (y : Ev) : Shuffle a b c → Shuffle a (y :: b) (y :: c)

theorem shuffle_prefix (x y : List Ev) {a b c : List Ev} (h : Shuffle a b c) :
    Shuffle (x ++ a) (y ++ b) (x ++ y ++ c) := by
  induction x with
  | cons e x ih => exact Shuffle.left e ih
  | nil =>
    induction y with
    | nil => exact h
    | cons e y ih => exact Shuffle.right e ih

theorem shuffle_nil_right : ∀ (a : List Ev), Shuffle a [] a
  | [] => Shuffle.nil
  | x :: a => Shuffle.left x (shuffle_nil_right a)

theorem shuffle_nil_left : ∀ (b : List Ev), Shuffle [] b b
  | [] => Shuffle.nil
  | y :: b => Shuffle.right y (shuffle_nil_left b)

/-- one call on a two-input adaptor = a run of `a` followed by a run of `b` -/
structure Sim2 (A a b : Co) (R : A.σ → a.σ → b.σ → Prop) : Prop where
  next : ∀ st sa sb, R st sa sb → ∃ sa' sb' ea eb, R (A.next st).st sa' sb' ∧
    IsRun a sa sa' ea ∧ IsRun b sb sb' eb ∧ strip (A.next st).ev = strip ea ++ strip eb
  back : ∀ st sa sb, R st sa sb → ∃ sa' sb' ea eb, R (A.back st).st sa' sb' ∧
    IsRun a sa sa' ea ∧ IsRun b sb sb' eb ∧ strip (A.back st).ev = strip ea ++ strip eb

theorem sim2_run {A a b : Co} {R : A.σ → a.σ → b.σ → Prop} (h : Sim2 A a b R) :
    ∀ (ds : List Bool) (st : A.σ) (sa : a.σ) (sb : b.σ), R st sa sb →
    ∃ dsa dsb, Shuffle (strip (runD a dsa sa).2) (strip (runD b dsb sb).2) (strip (runD A ds st).2) := by
  intro ds
  induction ds with
  | nil => intro st sa sb _; exact ⟨[], [], Shuffle.nil⟩
  | cons d ds ih =>
    intro st sa sb hr
    have key : ∀ (r : Res A.σ), (∃ sa' sb' ea eb, R r.st sa' sb' ∧ IsRun a sa sa' ea ∧ IsRun b sb sb' eb ∧
        strip r.ev = strip ea ++ strip eb) →
        ∃ dsa dsb, Shuffle (strip (runD a dsa sa).2) (strip (runD b dsb sb).2)
          (strip (r.ev ++ (runD A ds r.st).2)) := by
      intro r ⟨sa', sb', ea, eb, hr', ⟨da, a1, a2⟩, ⟨db, b1, b2⟩, he⟩
      obtain ⟨da2, db2, hs⟩ := ih r.st sa' sb' hr'
      refine ⟨da ++ da2, db ++ db2, ?_⟩
      rw [runD_append, runD_append, strip_append, strip_append, strip_append, he, a2, b2, ← a1, ← b1]
      exact shuffle_prefix _ _ hs
    cases d with
    | true => rw [runD_true]; exact key (A.next st) (h.next st sa sb hr)
    | false => rw [runD_false]; exact key (A.back st) (h.back st sa sb hr)

theorem zip_sim2 (a b : Co) : Sim2 (zipCo a b) a b (fun st sa sb => st = (sa, sb)) := by
  constructor
  · intro (st : a.σ × b.σ) sa sb hr
    subst hr
    cases ha : (a.next sa).out with
    | none =>
      have e : (zipCo a b).next (sa, sb) = ⟨none, ((a.next sa).st, sb), (a.next sa).ev⟩ := by simp [zipCo, ha]
      rw [e]
      exact ⟨_, _, _, [], rfl, isRun_next a sa, isRun_refl b sb, by simp [strip_nil]⟩
    | some va =>
      have e : ((zipCo a b).next (sa, sb)).st = ((a.next sa).st, (b.next sb).st) ∧
          ((zipCo a b).next (sa, sb)).ev = (a.next sa).ev ++ (b.next sb).ev := by
        simp only [zipCo, ha]
        cases (b.next sb).out <;> exact ⟨rfl, rfl⟩
      rw [e.1, e.2]
      exact ⟨_, _, _, _, rfl, isRun_next a sa, isRun_next b sb, strip_append _ _⟩
  · intro (st : a.σ × b.σ) sa sb hr
    subst hr
    exact ⟨sa, sb, [], [], rfl, isRun_refl a sa, isRun_refl b sb, rfl⟩

theorem chain_sim2 (a b : Co) :
    Sim2 (chainCo a b) a b (fun st sa sb => st.2 = sb ∧ (st.1 = some sa ∨ st.1 = none)) := by
  constructor
  · intro (st : Option a.σ × b.σ) sa sb ⟨h2, h1⟩
    subst h2
    rcases h1 with h1 | h1
    · cases ha : (a.next sa).out with
      | some v =>
        have e : (chainCo a b).next st = ⟨some v, (some (a.next sa).st, st.2), (a.next sa).ev⟩ := by
          simp [chainCo, h1, ha]
        rw [e]
        exact ⟨_, _, _, [], ⟨rfl, Or.inl rfl⟩, isRun_next a sa, isRun_refl b st.2, by simp [strip_nil]⟩
      | none =>
        have e : (chainCo a b).next st =
            ⟨(b.next st.2).out, (none, (b.next st.2).st), (a.next sa).ev ++ (b.next st.2).ev⟩ := by
          simp [chainCo, h1, ha]
        rw [e]
        exact ⟨(a.next sa).st, _, _, _, ⟨rfl, Or.inr rfl⟩, isRun_next a sa, isRun_next b st.2, strip_append _ _⟩
    · have e : (chainCo a b).next st = ⟨(b.next st.2).out, (none, (b.next st.2).st), (b.next st.2).ev⟩ := by
        simp [chainCo, h1]
      rw [e]
      exact ⟨sa, _, [], _, ⟨rfl, Or.inr rfl⟩, isRun_refl a sa, isRun_next b st.2, by simp [strip_nil]⟩
  · intro (st : Option a.σ × b.σ) sa sb hr
    exact ⟨sa, sb, [], [], hr, isRun_refl a sa, isRun_refl b sb, rfl⟩

/-! ### whole pipelines -/

/-- "`es` is a run of the pipeline's source(s)": a run of the source itself; for `chain` / `zip` an
interleaving of such runs of the two sides; adaptors with one input add nothing -/
def SrcTr : Pipe → List Ev → Prop
  | .src s, es => ∃ ds, es = strip (runD s.it.c ds s.it.s).2
  | .chain p q, es | .zip p q, es => ∃ ea eb, SrcTr p ea ∧ SrcTr q eb ∧ Shuffle ea eb es
  | .each _ p, es | .keep _ p, es | .take _ p, es | .takeWhile _ p, es | .skip _ p, es | .step _ p, es
  | .enumerate p, es | .chunks _ p, es | .windows _ p, es | .flatten p, es | .intersperse _ p, es
  | .intersperseWith p, es | .cycle p, es | .reversed p, es | .peekable p, es | .pairFirst p, es
  | .pairSecond p, es => SrcTr p es

/-- the source events of *any* run (any sequence of `next` / `next_back` calls) of *any* pipeline
are a run of its sources -/
theorem pipe_trace (fuel : Nat) (p : Pipe) :
    ∀ ds, SrcTr p (strip (runD (build fuel p).c ds (build fuel p).s).2) := by
  induction p with
  | src s => intro ds; exact ⟨ds, rfl⟩
  | each f p ih =>
    intro ds
    obtain ⟨ds', _, he⟩ := sim_run (each_sim f (build fuel p).c) ds (build fuel p).s (build fuel p).s rfl
    show SrcTr p _
    rw [show (build fuel (.each f p)) = ⟨eachCo f (build fuel p).c, (build fuel p).s⟩ from rfl, he]
    exact ih ds'
  | keep q p ih =>
    intro ds
    obtain ⟨ds', _, he⟩ := sim_run (keep_sim fuel q (build fuel p).c) ds (build fuel p).s (build fuel p).s rfl
    show SrcTr p _
    rw [show (build fuel (.keep q p)) = ⟨keepCo fuel q (build fuel p).c, (build fuel p).s⟩ from rfl, he]
    exact ih ds'
  | take n p ih =>
    intro ds
    obtain ⟨ds', _, he⟩ := sim_run (take_sim (build fuel p).c) ds ((build fuel p).s, n) (build fuel p).s rfl
    show SrcTr p _
    rw [show (build fuel (.take n p)) = ⟨takeCo (build fuel p).c, ((build fuel p).s, n)⟩ from rfl, he]
    exact ih ds'
  | takeWhile q p ih =>
    intro ds
    obtain ⟨ds', _, he⟩ := sim_run (takeWhile_sim q (build fuel p).c) ds ((build fuel p).s, false) (build fuel p).s rfl
    show SrcTr p _
    rw [show (build fuel (.takeWhile q p)) = ⟨takeWhileCo q (build fuel p).c, ((build fuel p).s, false)⟩ from rfl, he]
    exact ih ds'
  | skip n p ih =>
    intro ds
    obtain ⟨ds', _, he⟩ := sim_run (skip_sim (build fuel p).c) ds ((build fuel p).s, n) (build fuel p).s rfl
    show SrcTr p _
    rw [show (build fuel (.skip n p)) = ⟨skipCo (build fuel p).c, ((build fuel p).s, n)⟩ from rfl, he]
    exact ih ds'
  | step n p ih =>
    intro ds
    obtain ⟨ds', _, he⟩ := sim_run (step_sim n (build fuel p).c) ds ((build fuel p).s, 0) (build fuel p).s rfl
    show SrcTr p _
    rw [show (build fuel (.step n p)) = ⟨stepCo n (build fuel p).c, ((build fuel p).s, 0)⟩ from rfl, he]
    exact ih ds'
  | chain p q ihp ihq =>
    intro ds
    obtain ⟨da, db, hs⟩ := sim2_run (chain_sim2 (build fuel p).c (build fuel q).c) ds
      (some (build fuel p).s, (build fuel q).s) (build fuel p).s (build fuel q).s ⟨rfl, Or.inl rfl⟩
    exact ⟨_, _, ihp da, ihq db, hs⟩
  | zip p q ihp ihq =>
    intro ds
    obtain ⟨da, db, hs⟩ := sim2_run (zip_sim2 (build fuel p).c (build fuel q).c) ds
      ((build fuel p).s, (build fuel q).s) (build fuel p).s (build fuel q).s rfl
    exact ⟨_, _, ihp da, ihq db, hs⟩
  | enumerate p ih =>
    intro ds
    obtain ⟨ds', _, he⟩ := sim_run (enumerate_sim (build fuel p).c) ds ((build fuel p).s, 0) (build fuel p).s rfl
    show SrcTr p _
    rw [show (build fuel (.enumerate p)) = ⟨enumerateCo (build fuel p).c, ((build fuel p).s, 0)⟩ from rfl, he]
    exact ih ds'
  | chunks n p ih =>
    intro ds
    obtain ⟨ds', _, he⟩ := sim_run (chunks_sim n (build fuel p).c) ds (build fuel p).s (build fuel p).s rfl
    show SrcTr p _
    rw [show (build fuel (.chunks n p)) = ⟨chunksCo n (build fuel p).c, (build fuel p).s⟩ from rfl, he]
    exact ih ds'
  | windows n p ih =>
    intro ds
    obtain ⟨ds', _, he⟩ := sim_run (windows_sim n (build fuel p).c) ds ((build fuel p).s, []) (build fuel p).s rfl
    show SrcTr p _
    rw [show (build fuel (.windows n p)) = ⟨windowsCo n (build fuel p).c, ((build fuel p).s, [])⟩ from rfl, he]
    exact ih ds'
  | flatten p ih =>
    intro ds
    obtain ⟨ds', _, he⟩ := sim_run (flatten_sim fuel (build fuel p).c) ds ((build fuel p).s, none) (build fuel p).s rfl
    show SrcTr p _
    rw [show (build fuel (.flatten p)) = ⟨flattenCo fuel (build fuel p).c, ((build fuel p).s, none)⟩ from rfl, he]
    exact ih ds'
  | intersperse v p ih =>
    intro ds
    obtain ⟨ds', _, he⟩ := sim_run (intersperse_sim v false (build fuel p).c) ds
      ⟨(build fuel p).s, none, false⟩ (build fuel p).s rfl
    show SrcTr p _
    rw [show (build fuel (.intersperse v p)) =
      ⟨intersperseCo v false (build fuel p).c, ⟨(build fuel p).s, none, false⟩⟩ from rfl, he]
    exact ih ds'
  | intersperseWith p ih =>
    intro ds
    obtain ⟨ds', _, he⟩ := sim_run (intersperse_sim sepVal true (build fuel p).c) ds
      ⟨(build fuel p).s, none, false⟩ (build fuel p).s rfl
    show SrcTr p _
    rw [show (build fuel (.intersperseWith p)) =
      ⟨intersperseCo sepVal true (build fuel p).c, ⟨(build fuel p).s, none, false⟩⟩ from rfl, he]
    exact ih ds'
  | cycle p ih =>
    intro ds
    obtain ⟨ds', _, he⟩ := sim_run (cycle_sim (build fuel p).c) ds ⟨(build fuel p).s, [], 0⟩ (build fuel p).s rfl
    show SrcTr p _
    rw [show (build fuel (.cycle p)) = ⟨cycleCo (build fuel p).c, ⟨(build fuel p).s, [], 0⟩⟩ from rfl, he]
    exact ih ds'
  | reversed p ih =>
    intro ds
    obtain ⟨ds', _, he⟩ := sim_run (reversed_sim (build fuel p).c) ds (build fuel p).s (build fuel p).s rfl
    show SrcTr p _
    rw [show (build fuel (.reversed p)) = ⟨reversedCo (build fuel p).c, (build fuel p).s⟩ from rfl, he]
    exact ih ds'
  | peekable p ih =>
    intro ds
    obtain ⟨ds', _, he⟩ := sim_run (peekable_sim (build fuel p).c) ds ⟨(build fuel p).s, none, none⟩ (build fuel p).s rfl
    show SrcTr p _
    rw [show (build fuel (.peekable p)) = ⟨peekableCo (build fuel p).c, ⟨(build fuel p).s, none, none⟩⟩ from rfl, he]
    exact ih ds'
  | pairFirst p ih =>
    intro ds
    obtain ⟨ds', _, he⟩ := sim_run (pair_sim true (build fuel p).c) ds (build fuel p).s (build fuel p).s rfl
    show SrcTr p _
    rw [show (build fuel (.pairFirst p)) = ⟨pairCo true (build fuel p).c, (build fuel p).s⟩ from rfl, he]
    exact ih ds'
  | pairSecond p ih =>
    intro ds
    obtain ⟨ds', _, he⟩ := sim_run (pair_sim false (build fuel p).c) ds (build fuel p).s (build fuel p).s rfl
    show SrcTr p _
    rw [show (build fuel (.pairSecond p)) = ⟨pairCo false (build fuel p).c, (build fuel p).s⟩ from rfl, he]
    exact ih ds'


/-! ### what a run of a logging source looks like -/

/-- traces of a generator over `n` elements standing at element `i`:
`pull i, pull (i+1), …` one element at a time, in order, optionally ended by `done` -/
inductive GenOrd (k n : Nat) : Nat → List Ev → Prop
  | nil (i : Nat) : GenOrd k n i []
  | pull (i : Nat) (es : List Ev) : i < n → GenOrd k n (i + 1) es → GenOrd k n i (Ev.pull k i :: es)
  | done (i : Nat) : n ≤ i → GenOrd k n i [Ev.done k]

theorem gen_silent (k : Nat) (xs : List Val) : ∀ (ds : List Bool) (i : Nat), xs.length ≤ i →
    runD (genCo k xs) ds (i, true) = ((i, true), []) := by
  intro ds
  induction ds with
  | nil => intro i _; rfl
  | cons d ds ih =>
    intro i hi
    have hx : xs[i]? = none := by simp [hi]
    cases d with
    | true =>
      have e : (genCo k xs).next (i, true) = ⟨none, (i, true), []⟩ := by simp [genCo, hx]
      rw [runD_true (genCo k xs) ds (i, true), e]
      simp only
      rw [ih i hi]; rfl
    | false =>
      have e : (genCo k xs).back (i, true) = ⟨none, (i, true), []⟩ := rfl
      rw [runD_false (genCo k xs) ds (i, true), e]
      simp only
      rw [ih i hi]; rfl

theorem gen_ordered (k : Nat) (xs : List Val) : ∀ (ds : List Bool) (s : Nat × Bool),
    GenOrd k xs.length s.1 (runD (genCo k xs) ds s).2 := by
  intro ds
  induction ds with
  | nil => intro s; exact GenOrd.nil _
  | cons d ds ih =>
    intro s
    cases d with
    | false =>
      have e : (genCo k xs).back s = ⟨none, s, []⟩ := rfl
      rw [runD_false (genCo k xs) ds s, e]
      simpa using ih s
    | true =>
      cases hx : xs[s.1]? with
      | some x =>
        have hlt : s.1 < xs.length := by
          by_cases h : s.1 < xs.length
          · exact h
          · have : xs[s.1]? = none := by simp; omega
            rw [this] at hx; cases hx
        have e : (genCo k xs).next s = ⟨some x, (s.1 + 1, false), [Ev.pull k s.1]⟩ := by simp [genCo, hx]
        rw [runD_true (genCo k xs) ds s, e]
        exact GenOrd.pull _ _ hlt (ih (s.1 + 1, false))
      | none =>
        have hle : xs.length ≤ s.1 := by
          by_cases h : s.1 < xs.length
          · have : xs[s.1]? = some xs[s.1] := by simp [h]
            rw [this] at hx; cases hx
          · omega
        cases hb : s.2 with
        | true =>
          have e : (genCo k xs).next s = ⟨none, s, []⟩ := by simp [genCo, hx, hb]
          rw [runD_true (genCo k xs) ds s, e]
          simpa using ih s
        | false =>
          have e : (genCo k xs).next s = ⟨none, (s.1, true), [Ev.done k]⟩ := by simp [genCo, hx, hb]
          rw [runD_true (genCo k xs) ds s, e]
          simp only
          rw [gen_silent k xs ds s.1 hle]
          exact GenOrd.done _ hle

theorem genOrd_strip {k n i : Nat} {es : List Ev} (h : GenOrd k n i es) : strip es = es := by
  induction h with
  | nil => rfl
  | pull i es _ _ ih => simp [strip, isCall] at ih ⊢; exact ih
  | done => rfl

/-- traces of an `@next` object over `n` elements standing at index `i`: every call logs the current
index; it advances by one while there are elements and stays at `n` afterwards -/
inductive ObjOrd (k n : Nat) : Nat → List Ev → Prop
  | nil (i : Nat) : ObjOrd k n i []
  | pull (i : Nat) (es : List Ev) : i < n → ObjOrd k n (i + 1) es → ObjOrd k n i (Ev.pull k i :: es)
  | stay (i : Nat) (es : List Ev) : n ≤ i → ObjOrd k n i es → ObjOrd k n i (Ev.pull k i :: es)

theorem obj_ordered (k : Nat) (xs : List Val) : ∀ (ds : List Bool) (i : Nat),
    ObjOrd k xs.length i (runD (metaCo k xs) ds i).2 := by
  intro ds
  induction ds with
  | nil => intro i; exact ObjOrd.nil _
  | cons d ds ih =>
    intro i
    cases d with
    | false =>
      have e : (metaCo k xs).back i = ⟨none, i, []⟩ := rfl
      rw [runD_false (metaCo k xs) ds i, e]
      simpa using ih i
    | true =>
      cases hx : xs[i]? with
      | some x =>
        have hlt : i < xs.length := by
          by_cases h : i < xs.length
          · exact h
          · have : xs[i]? = none := by simp; omega
            rw [this] at hx; cases hx
        have e : (metaCo k xs).next i = ⟨some x, (i + 1 : Nat), [Ev.pull k i]⟩ := by simp [metaCo, hx]
        rw [runD_true (metaCo k xs) ds i, e]
        exact ObjOrd.pull _ _ hlt (ih (i + 1))
      | none =>
        have hle : xs.length ≤ i := by
          by_cases h : i < xs.length
          · have : xs[i]? = some xs[i] := by simp [h]
            rw [this] at hx; cases hx
          · omega
        have e : (metaCo k xs).next i = ⟨none, i, [Ev.pull k i]⟩ := by simp [metaCo, hx]
        rw [runD_true (metaCo k xs) ds i, e]
        exact ObjOrd.stay _ _ hle (ih i)

theorem objOrd_strip {k n i : Nat} {es : List Ev} (h : ObjOrd k n i es) : strip es = es := by
  induction h with
  | nil => rfl
  | pull i es _ _ ih => simp [strip, isCall] at ih ⊢; exact ih
  | stay i es _ _ ih => simp [strip, isCall] at ih ⊢; exact ih

/-- the source of a pipeline without `chain` / `zip` -/
def Pipe.root : Pipe → Option Src
  | .src s => some s
  | .chain _ _ | .zip _ _ => none
  | .each _ p => p.root
  | .keep _ p => p.root
  | .take _ p => p.root
  | .takeWhile _ p => p.root
  | .skip _ p => p.root
  | .step _ p => p.root
  | .enumerate p => p.root
  | .chunks _ p => p.root
  | .windows _ p => p.root
  | .flatten p => p.root
  | .intersperse _ p => p.root
  | .intersperseWith p => p.root
  | .cycle p => p.root
  | .reversed p => p.root
  | .peekable p => p.root
  | .pairFirst p => p.root
  | .pairSecond p => p.root

theorem srcTr_root (p : Pipe) : ∀ (s : Src) (es : List Ev), p.root = some s → SrcTr p es →
    ∃ ds, es = strip (runD s.it.c ds s.it.s).2 := by
  induction p with
  | src s0 => intro s es h hs; simp [Pipe.root] at h; subst h; exact hs
  | chain p q _ _ => intro s es h; simp [Pipe.root] at h
  | zip p q _ _ => intro s es h; simp [Pipe.root] at h
  | each x p ih => intro s es h hs; exact ih s es h hs
  | keep x p ih => intro s es h hs; exact ih s es h hs
  | take x p ih => intro s es h hs; exact ih s es h hs
  | takeWhile x p ih => intro s es h hs; exact ih s es h hs
  | skip x p ih => intro s es h hs; exact ih s es h hs
  | step x p ih => intro s es h hs; exact ih s es h hs
  | enumerate p ih => intro s es h hs; exact ih s es h hs
  | chunks x p ih => intro s es h hs; exact ih s es h hs
  | windows x p ih => intro s es h hs; exact ih s es h hs
  | flatten p ih => intro s es h hs; exact ih s es h hs
  | intersperse x p ih => intro s es h hs; exact ih s es h hs
  | intersperseWith p ih => intro s es h hs; exact ih s es h hs
  | cycle p ih => intro s es h hs; exact ih s es h hs
  | reversed p ih => intro s es h hs; exact ih s es h hs
  | peekable p ih => intro s es h hs; exact ih s es h hs
  | pairFirst p ih => intro s es h hs; exact ih s es h hs
  | pairSecond p ih => intro s es h hs; exact ih s es h hs

end KotoVerif.Iter
