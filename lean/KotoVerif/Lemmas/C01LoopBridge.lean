/-
C01 — bridge for the loop layer: the statement semantics `Compile.evalS (coreSem F)` of the compiler
model (`Model/CompileLoop.lean`) against the reference semantics of the language guide `Core.eval`
(`Model/CoreEval.lean`) on the embedded statement `toCoreS s` (`while` / `until` / `loop`, `break`,
`continue`, blocks, `if` with statement branches).

`stmt_conv`: whenever the guide's evaluation of `toCoreS s` finishes — normally, or with a `break`
/ `continue` travelling to an enclosing loop — `evalS` finishes with the same signal and a related
environment. Expression parts are discharged by `lockstep` (`Lemmas/C01Bridge.lean`).
-/
import KotoVerif.Lemmas.C01Bridge
import KotoVerif.Lemmas.C01LoopSem

namespace KotoVerif.C01
open KotoVerif KotoVerif.Core

/-! ## the embedding -/

def coreCond : Option (Compile.Expr × Bool) → Option (Core.Expr × Bool)
  | none => none
  | some (c, neg) => some (toCore c, neg)

def toCoreS : Compile.Stmt → Core.Expr
  | .expr e => toCore e
  | .seq a b => .block (.cons (toCoreS a) (.cons (toCoreS b) .nil))
  | .ite c t e => .ifElse (toCore c) (toCoreS t) (toCoreS e)
  | .ifThen c t => .ifThen (toCore c) (toCoreS t)
  | .loop cond b =>
    match cond with
    | some (c, false) => .while (toCore c) (toCoreS b)
    | some (c, true) => .until (toCore c) (toCoreS b)
    | none => .loop (toCoreS b)
  | .brk => .brk
  | .cont => .cont

/-- every expression of the statement is well-formed (`wfE`) -/
def wfS : Compile.Stmt → Bool
  | .expr e => wfE e
  | .seq a b => wfS a && wfS b
  | .ite c t e => wfE c && wfS t && wfS e
  | .ifThen c t => wfE c && wfS t
  | .loop (some (c, _)) b => wfE c && wfS b
  | .loop none b => wfS b
  | .brk | .cont => true

/-- the completion signal of a finished guide evaluation -/
def sigOf : Res Val → Option Compile.Sig
  | .ok _ => some .normal
  | .brk _ => some .brk
  | .cont => some .cont
  | .err _ => none
  | .nofuel => none

theorem eval_toCoreS_loop (F : FloatOps) (n : Nat) (cond : Option (Compile.Expr × Bool)) (b : Compile.Stmt)
    (s : St) :
    eval F (n + 1) (toCoreS (.loop cond b)) s = evalLoop F n (coreCond cond) (toCoreS b) .null s := by
  cases cond with
  | none => simp only [toCoreS, coreCond, eval_loop]
  | some p =>
    obtain ⟨c, neg⟩ := p
    cases neg with
    | false => simp only [toCoreS, coreCond, eval_while]
    | true => simp only [toCoreS, coreCond, eval_until]

theorem wfS_loop_body {cond : Option (Compile.Expr × Bool)} {b : Compile.Stmt} (h : wfS (.loop cond b) = true) :
    wfS b = true := by
  cases cond with
  | none => simpa [wfS] using h
  | some p => obtain ⟨c, neg⟩ := p; simp only [wfS, Bool.and_eq_true] at h; exact h.2

/-! ## expressions: a finished guide evaluation is a successful `Compile.eval` -/

/-- more fuel never changes a finished result, whatever it is -/
theorem eval_fuel_add' (F : FloatOps) (n : Nat) (e : Expr) (s s' : St) (r : Res Val)
    (h : eval F n e s = (r, s')) (hr : r ≠ .nofuel) (k : Nat) : eval F (n + k) e s = (r, s') := by
  induction k with
  | zero => exact h
  | succ k ih =>
    rcases (fuel_mono_succ F (n + k)).1 e s with ⟨s'', hs⟩ | heq
    · rw [ih] at hs
      simp only [Prod.mk.injEq] at hs
      exact absurd hs.1 hr
    · rw [← ih]; exact heq.symm

/-- an embedded *expression* never signals: if the guide's evaluation finishes without an error, it
finishes normally, and `Compile.eval` agrees -/
theorem expr_conv (F : FloatOps) (e : Compile.Expr) (ρ : Compile.Env (coreSem F)) (st st' : St)
    (fuel : Nat) (r : Res Val) (sig : Compile.Sig)
    (hw : wfE e = true) (hr : EnvRel ρ st.env)
    (hev : Core.eval F fuel (toCore e) st = (r, st')) (hs : sigOf r = some sig) :
    ∃ v ρ', r = .ok v ∧ Compile.eval (coreSem F) e ρ = some (v, ρ') ∧ EnvRel ρ' st'.env := by
  have hnf : r ≠ .nofuel := by intro h; subst h; simp [sigOf] at hs
  have h1 := eval_fuel_add' F _ _ _ _ _ hev hnf (need e)
  have h0 := lockstep F e ρ st (fuel + need e) hw hr (by omega)
  rw [h1] at h0
  cases hc : Compile.eval (coreSem F) e ρ with
  | none =>
    rw [hc] at h0
    obtain ⟨er, s2, h2⟩ := h0
    simp only [Prod.mk.injEq] at h2
    rw [h2.1] at hs
    simp [sigOf] at hs
  | some p =>
    obtain ⟨v2, ρ2⟩ := p
    rw [hc] at h0
    obtain ⟨s2, h2, h3, _⟩ := h0
    simp only [Prod.mk.injEq] at h2
    obtain ⟨rfl, rfl⟩ := h2
    exact ⟨v2, ρ2, rfl, rfl, h3⟩

/-! ## blocks of two -/

/-- `a; b`: either `a` finishes normally and the block's result is `b`'s, or `a` signals and that is
the block's result -/
theorem block2_inv (F : FloatOps) (m : Nat) (a b : Expr) (st st' : St) (r : Res Val) (sig : Compile.Sig)
    (h : eval F (m + 1) (.block (.cons a (.cons b .nil))) st = (r, st')) (hs : sigOf r = some sig) :
    (∃ k j va sa, k ≤ m ∧ j ≤ m ∧ eval F k a st = (.ok va, sa) ∧ eval F j b sa = (r, st')) ∨
    (∃ k, k ≤ m ∧ eval F k a st = (r, st') ∧ sig ≠ .normal) := by
  cases m with
  | zero => simp only [eval, evalBlock, Prod.mk.injEq] at h; rw [← h.1] at hs; simp [sigOf] at hs
  | succ k =>
    simp only [eval, evalBlock] at h
    cases hra : eval F k a st with
    | mk ra sa =>
      rw [hra] at h
      cases ra with
      | ok va =>
        simp only [seq] at h
        cases k with
        | zero => simp only [evalBlock, Prod.mk.injEq] at h; rw [← h.1] at hs; simp [sigOf] at hs
        | succ j =>
          simp only [evalBlock] at h
          cases hrb : eval F j b sa with
          | mk rb sb =>
            rw [hrb] at h
            cases rb with
            | ok vb =>
              simp only [seq] at h
              cases j with
              | zero => simp only [evalBlock, Prod.mk.injEq] at h; rw [← h.1] at hs; simp [sigOf] at hs
              | succ i =>
                simp only [evalBlock] at h
                exact Or.inl ⟨i + 1 + 1, i + 1, va, sa, by omega, by omega, hra, by rw [hrb]; exact h⟩
            | err e => simp only [seq] at h; exact Or.inl ⟨j + 1, j, va, sa, by omega, by omega, hra, by rw [hrb]; exact h⟩
            | brk v => simp only [seq] at h; exact Or.inl ⟨j + 1, j, va, sa, by omega, by omega, hra, by rw [hrb]; exact h⟩
            | cont => simp only [seq] at h; exact Or.inl ⟨j + 1, j, va, sa, by omega, by omega, hra, by rw [hrb]; exact h⟩
            | nofuel => simp only [seq] at h; exact Or.inl ⟨j + 1, j, va, sa, by omega, by omega, hra, by rw [hrb]; exact h⟩
      | err e => simp only [seq, Prod.mk.injEq] at h; rw [← h.1] at hs; simp [sigOf] at hs
      | nofuel => simp only [seq, Prod.mk.injEq] at h; rw [← h.1] at hs; simp [sigOf] at hs
      | brk v =>
        simp only [seq] at h
        refine Or.inr ⟨k, by omega, by rw [hra]; exact h, ?_⟩
        simp only [Prod.mk.injEq] at h; rw [← h.1] at hs; simp only [sigOf, Option.some.injEq] at hs
        rw [← hs]; intro hc; cases hc
      | cont =>
        simp only [seq] at h
        refine Or.inr ⟨k, by omega, by rw [hra]; exact h, ?_⟩
        simp only [Prod.mk.injEq] at h; rw [← h.1] at hs; simp only [sigOf, Option.some.injEq] at hs
        rw [← hs]; intro hc; cases hc

/-- a condition followed by a continuation: the condition finishes normally -/
theorem cond_inv (F : FloatOps) (c : Compile.Expr) (ρ : Compile.Env (coreSem F)) (st st' : St) (m : Nat)
    (k : Val → St → Res Val × St) (r : Res Val) (sig : Compile.Sig)
    (hw : wfE c = true) (hr : EnvRel ρ st.env)
    (h : seq (eval F m (toCore c) st) k = (r, st')) (hs : sigOf r = some sig) :
    ∃ vc ρ1 s1, Compile.eval (coreSem F) c ρ = some (vc, ρ1) ∧ EnvRel ρ1 s1.env ∧ k vc s1 = (r, st') := by
  cases hrc : eval F m (toCore c) st with
  | mk rc sc =>
    rw [hrc] at h
    cases rc with
    | ok vc =>
      simp only [seq] at h
      obtain ⟨v, ρ1, hv, he, hrel⟩ := expr_conv F c ρ st sc m (.ok vc) .normal hw hr hrc rfl
      cases hv
      exact ⟨vc, ρ1, sc, he, hrel, h⟩
    | err e => simp only [seq, Prod.mk.injEq] at h; rw [← h.1] at hs; simp [sigOf] at hs
    | nofuel => simp only [seq, Prod.mk.injEq] at h; rw [← h.1] at hs; simp [sigOf] at hs
    | brk v =>
      obtain ⟨v', _, hv, _⟩ := expr_conv F c ρ st sc m (.brk v) .brk hw hr hrc rfl
      cases hv
    | cont =>
      obtain ⟨v', _, hv, _⟩ := expr_conv F c ρ st sc m .cont .cont hw hr hrc rfl
      cases hv

/-! ## statements -/

/-- the statement proved for every fuel up to `N`, for `eval` on statements and for `evalLoop` -/
def ConvUpTo (F : FloatOps) (N : Nat) : Prop :=
  (∀ fuel, fuel ≤ N → ∀ (s : Compile.Stmt) (ρ : Compile.Env (coreSem F)) (st st' : St) (r : Res Val)
      (sig : Compile.Sig), wfS s = true → EnvRel ρ st.env →
      Core.eval F fuel (toCoreS s) st = (r, st') → sigOf r = some sig →
      ∃ n ρ', Compile.evalS (coreSem F) n s ρ = .ok (sig, ρ') ∧ EnvRel ρ' st'.env) ∧
  (∀ fuel, fuel ≤ N → ∀ (cond : Option (Compile.Expr × Bool)) (b : Compile.Stmt) (acc : Val)
      (ρ : Compile.Env (coreSem F)) (st st' : St) (r : Res Val) (sig : Compile.Sig),
      wfS (.loop cond b) = true → EnvRel ρ st.env →
      evalLoop F fuel (coreCond cond) (toCoreS b) acc st = (r, st') → sigOf r = some sig →
      ∃ n ρ', Compile.evalS (coreSem F) n (.loop cond b) ρ = .ok (sig, ρ') ∧ EnvRel ρ' st'.env)

/-- one loop round, given the condition's outcome `go` in `(ρ1, s1)` -/
theorem loop_round (F : FloatOps) (N m : Nat) (hm : m ≤ N) (ih : ConvUpTo F N)
    (cond : Option (Compile.Expr × Bool)) (b : Compile.Stmt)
    (ρ ρ1 : Compile.Env (coreSem F)) (s1 st' : St) (r : Res Val) (sig : Compile.Sig)
    (hw : wfS (.loop cond b) = true) (hr1 : EnvRel ρ1 s1.env)
    (hcnd : Compile.evalCond (coreSem F) cond ρ = some (true, ρ1))
    (h : loopStep (eval F m (toCoreS b) s1) (fun v s => evalLoop F m (coreCond cond) (toCoreS b) v s) = (r, st'))
    (hs : sigOf r = some sig) :
    ∃ n ρ', Compile.evalS (coreSem F) n (.loop cond b) ρ = .ok (sig, ρ') ∧ EnvRel ρ' st'.env := by
  have hwb := wfS_loop_body hw
  cases hrb : eval F m (toCoreS b) s1 with
  | mk rb sb =>
    rw [hrb] at h
    cases rb with
    | err e => simp only [loopStep, Prod.mk.injEq] at h; rw [← h.1] at hs; simp [sigOf] at hs
    | nofuel => simp only [loopStep, Prod.mk.injEq] at h; rw [← h.1] at hs; simp [sigOf] at hs
    | brk v =>
      simp only [loopStep, Prod.mk.injEq] at h
      obtain ⟨rfl, rfl⟩ := h
      simp only [sigOf, Option.some.injEq] at hs
      subst hs
      obtain ⟨n1, ρ2, e1, r2⟩ := ih.1 m hm b ρ1 s1 sb (.brk v) .brk hwb hr1 hrb rfl
      refine ⟨n1 + 1, ρ2, ?_, r2⟩
      rw [Compile.evalS_loop, hcnd]
      exact Compile.Res.loopNext_brk e1
    | ok v =>
      simp only [loopStep] at h
      obtain ⟨n1, ρ2, e1, r2⟩ := ih.1 m hm b ρ1 s1 sb (.ok v) .normal hwb hr1 hrb rfl
      obtain ⟨n2, ρ3, e2, r3⟩ := ih.2 m hm cond b v ρ2 sb st' r sig hw r2 h hs
      refine ⟨max n1 n2 + 1, ρ3, ?_, r3⟩
      rw [Compile.evalS_loop, hcnd]
      simp only
      rw [Compile.Res.loopNext_go (Compile.evalS_mono _ _ _ _ e1 _ (Nat.le_max_left _ _)) (by intro hc; cases hc)]
      exact Compile.evalS_mono _ _ _ _ e2 _ (Nat.le_max_right _ _)
    | cont =>
      simp only [loopStep] at h
      obtain ⟨n1, ρ2, e1, r2⟩ := ih.1 m hm b ρ1 s1 sb .cont .cont hwb hr1 hrb rfl
      obtain ⟨n2, ρ3, e2, r3⟩ := ih.2 m hm cond b .null ρ2 sb st' r sig hw r2 h hs
      refine ⟨max n1 n2 + 1, ρ3, ?_, r3⟩
      rw [Compile.evalS_loop, hcnd]
      simp only
      rw [Compile.Res.loopNext_go (Compile.evalS_mono _ _ _ _ e1 _ (Nat.le_max_left _ _)) (by intro hc; cases hc)]
      exact Compile.evalS_mono _ _ _ _ e2 _ (Nat.le_max_right _ _)

theorem stmt_conv_upto (F : FloatOps) : ∀ N, ConvUpTo F N := by
  intro N
  induction N with
  | zero =>
    constructor
    · intro fuel hf s ρ st st' r sig _ _ hev hs
      obtain rfl : fuel = 0 := by omega
      simp only [eval, Prod.mk.injEq] at hev
      rw [← hev.1] at hs; simp [sigOf] at hs
    · intro fuel hf cond b acc ρ st st' r sig _ _ hev hs
      obtain rfl : fuel = 0 := by omega
      simp only [evalLoop, Prod.mk.injEq] at hev
      rw [← hev.1] at hs; simp [sigOf] at hs
  | succ N ih =>
    constructor
    · intro fuel hf s ρ st st' r sig hw hr hev hs
      by_cases hle : fuel ≤ N
      · exact ih.1 fuel hle s ρ st st' r sig hw hr hev hs
      obtain rfl : fuel = N + 1 := by omega
      cases s with
      | expr e =>
        simp only [wfS] at hw
        simp only [toCoreS] at hev
        obtain ⟨v, ρ', rfl, he, hrel⟩ := expr_conv F e ρ st st' _ _ sig hw hr hev hs
        simp only [sigOf, Option.some.injEq] at hs
        subst hs
        exact ⟨1, ρ', by rw [Compile.evalS_expr, he], hrel⟩
      | brk =>
        simp only [toCoreS, eval, Prod.mk.injEq] at hev
        obtain ⟨rfl, rfl⟩ := hev
        simp only [sigOf, Option.some.injEq] at hs
        subst hs
        exact ⟨1, ρ, rfl, hr⟩
      | cont =>
        simp only [toCoreS, eval, Prod.mk.injEq] at hev
        obtain ⟨rfl, rfl⟩ := hev
        simp only [sigOf, Option.some.injEq] at hs
        subst hs
        exact ⟨1, ρ, rfl, hr⟩
      | seq a b =>
        simp only [wfS, Bool.and_eq_true] at hw
        simp only [toCoreS] at hev
        rcases block2_inv F N _ _ st st' r sig hev hs with ⟨k, j, va, sa, hk, hj, ha, hb⟩ | ⟨k, hk, ha, hne⟩
        · obtain ⟨n1, ρ1, e1, r1⟩ := ih.1 k hk a ρ st sa (.ok va) .normal hw.1 hr ha rfl
          obtain ⟨n2, ρ2, e2, r2⟩ := ih.1 j hj b ρ1 sa st' r sig hw.2 r1 hb hs
          refine ⟨max n1 n2 + 1, ρ2, ?_, r2⟩
          rw [Compile.evalS_seq, Compile.Res.andThen_normal (Compile.evalS_mono _ _ _ _ e1 _ (Nat.le_max_left _ _))]
          exact Compile.evalS_mono _ _ _ _ e2 _ (Nat.le_max_right _ _)
        · obtain ⟨n1, ρ1, e1, r1⟩ := ih.1 k hk a ρ st st' r sig hw.1 hr ha hs
          exact ⟨n1 + 1, ρ1, by rw [Compile.evalS_seq, Compile.Res.andThen_abrupt e1 hne], r1⟩
      | ite c t e =>
        simp only [wfS, Bool.and_eq_true] at hw
        simp only [toCoreS, eval_ifElse'] at hev
        obtain ⟨vc, ρ1, s1, hc, hr1, hk⟩ := cond_inv F c ρ st st' N _ r sig hw.1.1 hr hev hs
        by_cases htr : vc.truthy = true
        · simp only [htr, if_true] at hk
          obtain ⟨n1, ρ2, e1, r2⟩ := ih.1 N (Nat.le_refl _) t ρ1 s1 st' r sig hw.1.2 hr1 hk hs
          refine ⟨n1 + 1, ρ2, ?_, r2⟩
          rw [Compile.evalS_ite, hc]
          simp only [htr, if_true]
          exact e1
        · simp only [htr, Bool.false_eq_true, if_false] at hk
          obtain ⟨n1, ρ2, e1, r2⟩ := ih.1 N (Nat.le_refl _) e ρ1 s1 st' r sig hw.2 hr1 hk hs
          refine ⟨n1 + 1, ρ2, ?_, r2⟩
          rw [Compile.evalS_ite, hc]
          simp only [htr, Bool.false_eq_true, if_false]
          exact e1
      | ifThen c t =>
        simp only [wfS, Bool.and_eq_true] at hw
        simp only [toCoreS, eval_ifThen] at hev
        obtain ⟨vc, ρ1, s1, hc, hr1, hk⟩ := cond_inv F c ρ st st' N _ r sig hw.1 hr hev hs
        by_cases htr : vc.truthy = true
        · simp only [htr, if_true] at hk
          obtain ⟨n1, ρ2, e1, r2⟩ := ih.1 N (Nat.le_refl _) t ρ1 s1 st' r sig hw.2 hr1 hk hs
          refine ⟨n1 + 1, ρ2, ?_, r2⟩
          rw [Compile.evalS_ifThen, hc]
          simp only [htr, if_true]
          exact e1
        · simp only [htr, Bool.false_eq_true, if_false, Prod.mk.injEq] at hk
          obtain ⟨rfl, rfl⟩ := hk
          simp only [sigOf, Option.some.injEq] at hs
          subst hs
          refine ⟨1, ρ1, ?_, hr1⟩
          rw [Compile.evalS_ifThen, hc]
          simp only [htr, Bool.false_eq_true, if_false]
      | loop cond b =>
        rw [eval_toCoreS_loop] at hev
        exact ih.2 N (Nat.le_refl _) cond b .null ρ st st' r sig hw hr hev hs
    · intro fuel hf cond b acc ρ st st' r sig hw hr hev hs
      by_cases hle : fuel ≤ N
      · exact ih.2 fuel hle cond b acc ρ st st' r sig hw hr hev hs
      obtain rfl : fuel = N + 1 := by omega
      cases cond with
      | none =>
        simp only [coreCond, evalLoop_none] at hev
        exact loop_round F N N (Nat.le_refl _) ih none b ρ ρ st st' r sig hw hr rfl hev hs
      | some p =>
        obtain ⟨c, neg⟩ := p
        have hwc : wfE c = true := by simp only [wfS, Bool.and_eq_true] at hw; exact hw.1
        simp only [coreCond, evalLoop_cond] at hev
        obtain ⟨vc, ρ1, s1, hc, hr1, hk⟩ := cond_inv F c ρ st st' N _ r sig hwc hr hev hs
        by_cases hgo : (vc.truthy != neg) = true
        · simp only [hgo, if_true] at hk
          have hcnd : Compile.evalCond (coreSem F) (some (c, neg)) ρ = some (true, ρ1) := by
            simp only [Compile.evalCond, hc]
            exact congrArg (fun b => some (b, ρ1)) hgo
          exact loop_round F N N (Nat.le_refl _) ih (some (c, neg)) b ρ ρ1 s1 st' r sig hw hr1 hcnd hk hs
        · simp only [hgo, Bool.false_eq_true, if_false, Prod.mk.injEq] at hk
          obtain ⟨rfl, rfl⟩ := hk
          simp only [sigOf, Option.some.injEq] at hs
          subst hs
          have hgo' : (vc.truthy != neg) = false := by simpa using hgo
          have hcnd : Compile.evalCond (coreSem F) (some (c, neg)) ρ = some (false, ρ1) := by
            simp only [Compile.evalCond, hc]
            exact congrArg (fun b => some (b, ρ1)) hgo'
          exact ⟨1, ρ1, by rw [Compile.evalS_loop, hcnd], hr1⟩

/-- **guide ⇒ compiler model, statements.** A finished evaluation of the embedded statement by the
reference semantics of the guide (any fuel; normal completion, or a `break` / `continue` on its way
to an enclosing loop) is a finished evaluation by `evalS (coreSem F)` with the same signal and a
related final environment. -/
theorem stmt_conv (F : FloatOps) (s : Compile.Stmt) (ρ : Compile.Env (coreSem F)) (st st' : St)
    (fuel : Nat) (r : Res Val) (sig : Compile.Sig)
    (hw : wfS s = true) (hr : EnvRel ρ st.env)
    (hev : Core.eval F fuel (toCoreS s) st = (r, st')) (hs : sigOf r = some sig) :
    ∃ n ρ', Compile.evalS (coreSem F) n s ρ = .ok (sig, ρ') ∧ EnvRel ρ' st'.env :=
  (stmt_conv_upto F fuel).1 fuel (Nat.le_refl _) s ρ st st' r sig hw hr hev hs

/-! ## the other direction: compiler model ⇒ guide -/

theorem evalLoop_fuel_add' (F : FloatOps) (n : Nat) (c : Option (Expr × Bool)) (b : Expr) (acc : Val)
    (s s' : St) (r : Res Val)
    (h : evalLoop F n c b acc s = (r, s')) (hr : r ≠ .nofuel) (k : Nat) :
    evalLoop F (n + k) c b acc s = (r, s') := by
  induction k with
  | zero => exact h
  | succ k ih =>
    rcases (fuel_mono_succ F (n + k)).2.2.2.2.2.2.1 c b acc s with ⟨s'', hs⟩ | heq
    · rw [ih] at hs
      simp only [Prod.mk.injEq] at hs
      exact absurd hs.1 hr
    · rw [← ih]; exact heq.symm

theorem sigOf_ne_nofuel {r : Res Val} {sig : Compile.Sig} (h : sigOf r = some sig) : r ≠ .nofuel := by
  intro hc; subst hc; simp [sigOf] at h

theorem eval_fuel_le (F : FloatOps) {n m : Nat} {e : Expr} {s s' : St} {r : Res Val} {sig : Compile.Sig}
    (h : eval F n e s = (r, s')) (hs : sigOf r = some sig) (hm : n ≤ m) : eval F m e s = (r, s') := by
  obtain ⟨k, rfl⟩ : ∃ k, m = n + k := ⟨m - n, by omega⟩
  exact eval_fuel_add' F _ _ _ _ _ h (sigOf_ne_nofuel hs) k

theorem evalLoop_fuel_le (F : FloatOps) {n m : Nat} {c : Option (Expr × Bool)} {b : Expr} {acc : Val}
    {s s' : St} {r : Res Val} {sig : Compile.Sig}
    (h : evalLoop F n c b acc s = (r, s')) (hs : sigOf r = some sig) (hm : n ≤ m) :
    evalLoop F m c b acc s = (r, s') := by
  obtain ⟨k, rfl⟩ : ∃ k, m = n + k := ⟨m - n, by omega⟩
  exact evalLoop_fuel_add' F _ _ _ _ _ _ _ h (sigOf_ne_nofuel hs) k

/-- the last step of a two-expression block hands the second result through -/
theorem seq_ret {rb : Res Val} {sb : St} {sig : Compile.Sig} (h : sigOf rb = some sig) :
    ∃ r, (seq (rb, sb) fun v s => ((.ok v : Res Val), s)) = (r, sb) ∧ sigOf r = some sig := by
  cases rb with
  | ok v => exact ⟨.ok v, rfl, h⟩
  | brk v => exact ⟨.brk v, rfl, h⟩
  | cont => exact ⟨.cont, rfl, h⟩
  | err e => simp [sigOf] at h
  | nofuel => simp [sigOf] at h

/-- the loop header on the guide's side: with enough fuel, `evalLoop` evaluates the condition as
`evalCond` does and then either runs the body or ends the loop -/
theorem hdr_fwd (F : FloatOps) (cond : Option (Compile.Expr × Bool)) (b : Compile.Stmt) (b' : Expr)
    (ρ ρ1 : Compile.Env (coreSem F)) (st : St) (go : Bool)
    (hw : wfS (.loop cond b) = true) (hr : EnvRel ρ st.env)
    (h : Compile.evalCond (coreSem F) cond ρ = some (go, ρ1)) :
    ∃ s1 M, EnvRel ρ1 s1.env ∧ ∀ N, M ≤ N → ∀ acc,
      evalLoop F (N + 1) (coreCond cond) b' acc st =
        if go then loopStep (eval F N b' s1) (fun v s => evalLoop F N (coreCond cond) b' v s)
        else (.ok acc, s1) := by
  cases cond with
  | none =>
    simp only [Compile.evalCond, Option.some.injEq, Prod.mk.injEq] at h
    obtain ⟨rfl, rfl⟩ := h
    exact ⟨st, 0, hr, fun N _ acc => by simp only [coreCond, evalLoop_none, if_true]⟩
  | some p =>
    obtain ⟨c, neg⟩ := p
    have hwc : wfE c = true := by simp only [wfS, Bool.and_eq_true] at hw; exact hw.1
    simp only [Compile.evalCond] at h
    cases hv : Compile.eval (coreSem F) c ρ with
    | none => simp [hv] at h
    | some q =>
      obtain ⟨v, ρ2⟩ := q
      simp only [hv, Option.some.injEq, Prod.mk.injEq] at h
      obtain ⟨rfl, rfl⟩ := h
      obtain ⟨s1, h1, h2, _⟩ := bridge_fwd F c ρ ρ2 st v hwc hr hv
      refine ⟨s1, need c, h2, fun N hN acc => ?_⟩
      simp only [coreCond, evalLoop_cond, h1 N hN, seq]

/-- the statement proved for every `evalS` fuel `n`, for statements and for loops with an
arbitrary value-so-far -/
def FwdAt (F : FloatOps) (n : Nat) : Prop :=
  (∀ (s : Compile.Stmt) (ρ ρ' : Compile.Env (coreSem F)) (sig : Compile.Sig) (st : St),
      wfS s = true → EnvRel ρ st.env → Compile.evalS (coreSem F) n s ρ = .ok (sig, ρ') →
      ∃ fuel r st', Core.eval F fuel (toCoreS s) st = (r, st') ∧ sigOf r = some sig ∧ EnvRel ρ' st'.env) ∧
  (∀ (cond : Option (Compile.Expr × Bool)) (b : Compile.Stmt) (acc : Val)
      (ρ ρ' : Compile.Env (coreSem F)) (sig : Compile.Sig) (st : St),
      wfS (.loop cond b) = true → EnvRel ρ st.env →
      Compile.evalS (coreSem F) n (.loop cond b) ρ = .ok (sig, ρ') →
      ∃ fuel r st', evalLoop F fuel (coreCond cond) (toCoreS b) acc st = (r, st') ∧ sigOf r = some sig ∧
        EnvRel ρ' st'.env)

theorem stmt_fwd_at (F : FloatOps) : ∀ n, FwdAt F n := by
  intro n
  induction n with
  | zero =>
    constructor
    · intro s ρ ρ' sig st _ _ h; simp [Compile.evalS] at h
    · intro cond b acc ρ ρ' sig st _ _ h; simp [Compile.evalS] at h
  | succ n ih =>
    have hloop : ∀ (cond : Option (Compile.Expr × Bool)) (b : Compile.Stmt) (acc : Val)
        (ρ ρ' : Compile.Env (coreSem F)) (sig : Compile.Sig) (st : St),
        wfS (.loop cond b) = true → EnvRel ρ st.env →
        Compile.evalS (coreSem F) (n + 1) (.loop cond b) ρ = .ok (sig, ρ') →
        ∃ fuel r st', evalLoop F fuel (coreCond cond) (toCoreS b) acc st = (r, st') ∧ sigOf r = some sig ∧
          EnvRel ρ' st'.env := by
      intro cond b acc ρ ρ' sig st hw hr h
      have hwb := wfS_loop_body hw
      rw [Compile.evalS_loop] at h
      cases hcnd : Compile.evalCond (coreSem F) cond ρ with
      | none => simp [hcnd] at h
      | some p =>
        obtain ⟨go, ρ1⟩ := p
        obtain ⟨s1, M, hr1, hM⟩ := hdr_fwd F cond b (toCoreS b) ρ ρ1 st go hw hr hcnd
        cases go with
        | false =>
          simp only [hcnd, Compile.Res.ok.injEq, Prod.mk.injEq] at h
          obtain ⟨rfl, rfl⟩ := h
          exact ⟨M + 1, .ok acc, s1, by rw [hM M (Nat.le_refl _) acc]; rfl, rfl, hr1⟩
        | true =>
          simp only [hcnd] at h
          rcases Compile.Res.loopNext_ok h with ⟨rfl, h1⟩ | ⟨sg, ρ2, hsg, h1, h2⟩
          · obtain ⟨fb, rb, sb, e1, g1, r1⟩ := ih.1 b ρ1 ρ' .brk s1 hwb hr1 h1
            have e1' := eval_fuel_le F e1 g1 (Nat.le_max_right M fb)
            cases rb with
            | brk v =>
              refine ⟨max M fb + 1, .ok v, sb, ?_, rfl, r1⟩
              rw [hM _ (Nat.le_max_left M fb) acc]
              simp only [if_true, e1', loopStep]
            | ok v => simp [sigOf] at g1
            | cont => simp [sigOf] at g1
            | err e => simp [sigOf] at g1
            | nofuel => simp [sigOf] at g1
          · obtain ⟨fb, rb, sb, e1, g1, r1⟩ := ih.1 b ρ1 ρ2 sg s1 hwb hr1 h1
            -- the value the guide's loop carries on with
            have hnext : ∃ w, ∀ (k : Val → St → Res Val × St), loopStep (rb, sb) k = k w sb := by
              cases rb with
              | ok v => exact ⟨v, fun _ => rfl⟩
              | cont => exact ⟨.null, fun _ => rfl⟩
              | brk v => simp only [sigOf, Option.some.injEq] at g1; exact absurd g1.symm hsg
              | err e => simp [sigOf] at g1
              | nofuel => simp [sigOf] at g1
            obtain ⟨w, hwk⟩ := hnext
            obtain ⟨fl, r, st', e2, g2, r2⟩ := ih.2 cond b w ρ2 ρ' sig sb hw r1 h2
            let N := max M (max fb fl)
            have e1' := eval_fuel_le F e1 g1 (show fb ≤ N by omega)
            have e2' := evalLoop_fuel_le F e2 g2 (show fl ≤ N by omega)
            refine ⟨N + 1, r, st', ?_, g2, r2⟩
            rw [hM N (by omega) acc]
            simp only [if_true, e1', hwk]
            exact e2'
    refine ⟨?_, hloop⟩
    intro s ρ ρ' sig st hw hr h
    cases s with
    | expr e =>
      simp only [wfS] at hw
      rw [Compile.evalS_expr] at h
      cases he : Compile.eval (coreSem F) e ρ with
      | none => simp [he] at h
      | some p =>
        obtain ⟨v, ρ1⟩ := p
        simp only [he, Compile.Res.ok.injEq, Prod.mk.injEq] at h
        obtain ⟨rfl, rfl⟩ := h
        obtain ⟨st', h1, h2, _⟩ := bridge_fwd F e ρ ρ1 st v hw hr he
        exact ⟨need e, .ok v, st', h1 _ (Nat.le_refl _), rfl, h2⟩
    | brk =>
      simp only [Compile.evalS_brk, Compile.Res.ok.injEq, Prod.mk.injEq] at h
      obtain ⟨rfl, rfl⟩ := h
      exact ⟨1, .brk .null, st, by simp [toCoreS, eval], rfl, hr⟩
    | cont =>
      simp only [Compile.evalS_cont, Compile.Res.ok.injEq, Prod.mk.injEq] at h
      obtain ⟨rfl, rfl⟩ := h
      exact ⟨1, .cont, st, by simp [toCoreS, eval], rfl, hr⟩
    | seq a b =>
      simp only [wfS, Bool.and_eq_true] at hw
      rw [Compile.evalS_seq] at h
      rcases Compile.Res.andThen_ok h with ⟨ρ1, h1, h2⟩ | ⟨hne, h1⟩
      · obtain ⟨fa, ra, sa, e1, g1, r1⟩ := ih.1 a ρ ρ1 .normal st hw.1 hr h1
        obtain ⟨fb, rb, sb, e2, g2, r2⟩ := ih.1 b ρ1 ρ' sig sa hw.2 r1 h2
        cases ra with
        | ok va =>
          let N := max fa fb
          have e1' := eval_fuel_le F e1 g1 (show fa ≤ N + 2 by omega)
          have e2' := eval_fuel_le F e2 g2 (show fb ≤ N + 1 by omega)
          obtain ⟨r, hr', gr⟩ := seq_ret (sb := sb) g2
          refine ⟨N + 4, r, sb, ?_, gr, r2⟩
          simp only [toCoreS]
          rw [eval_block2, e1']
          simp only [seq]
          rw [e2']
          exact hr'
        | brk v => simp [sigOf] at g1
        | cont => simp [sigOf] at g1
        | err e => simp [sigOf] at g1
        | nofuel => simp [sigOf] at g1
      · obtain ⟨fa, ra, sa, e1, g1, r1⟩ := ih.1 a ρ ρ' sig st hw.1 hr h1
        have e1' := eval_fuel_le F e1 g1 (show fa ≤ fa + 2 by omega)
        refine ⟨fa + 4, ra, sa, ?_, g1, r1⟩
        simp only [toCoreS]
        rw [eval_block2, e1']
        cases ra with
        | ok v => simp only [sigOf, Option.some.injEq] at g1; exact absurd g1.symm hne
        | brk v => rfl
        | cont => rfl
        | err e => simp [sigOf] at g1
        | nofuel => simp [sigOf] at g1
    | ite c t e =>
      simp only [wfS, Bool.and_eq_true] at hw
      rw [Compile.evalS_ite] at h
      cases hv : Compile.eval (coreSem F) c ρ with
      | none => simp [hv] at h
      | some p =>
        obtain ⟨v, ρ1⟩ := p
        simp only [hv] at h
        obtain ⟨s1, c1, c2, _⟩ := bridge_fwd F c ρ ρ1 st v hw.1.1 hr hv
        by_cases htr : v.truthy = true
        · simp only [htr, if_true] at h
          obtain ⟨ft, r, st', e1, g1, r1⟩ := ih.1 t ρ1 ρ' sig s1 hw.1.2 c2 h
          refine ⟨max (need c) ft + 1, r, st', ?_, g1, r1⟩
          simp only [toCoreS, eval_ifElse', c1 _ (Nat.le_max_left _ _), seq, htr, if_true]
          exact eval_fuel_le F e1 g1 (Nat.le_max_right _ _)
        · simp only [htr, Bool.false_eq_true, if_false] at h
          obtain ⟨fe, r, st', e1, g1, r1⟩ := ih.1 e ρ1 ρ' sig s1 hw.2 c2 h
          refine ⟨max (need c) fe + 1, r, st', ?_, g1, r1⟩
          simp only [toCoreS, eval_ifElse', c1 _ (Nat.le_max_left _ _), seq, htr, Bool.false_eq_true, if_false]
          exact eval_fuel_le F e1 g1 (Nat.le_max_right _ _)
    | ifThen c t =>
      simp only [wfS, Bool.and_eq_true] at hw
      rw [Compile.evalS_ifThen] at h
      cases hv : Compile.eval (coreSem F) c ρ with
      | none => simp [hv] at h
      | some p =>
        obtain ⟨v, ρ1⟩ := p
        simp only [hv] at h
        obtain ⟨s1, c1, c2, _⟩ := bridge_fwd F c ρ ρ1 st v hw.1 hr hv
        by_cases htr : v.truthy = true
        · simp only [htr, if_true] at h
          obtain ⟨ft, r, st', e1, g1, r1⟩ := ih.1 t ρ1 ρ' sig s1 hw.2 c2 h
          refine ⟨max (need c) ft + 1, r, st', ?_, g1, r1⟩
          simp only [toCoreS, eval_ifThen, c1 _ (Nat.le_max_left _ _), seq, htr, if_true]
          exact eval_fuel_le F e1 g1 (Nat.le_max_right _ _)
        · simp only [htr, Bool.false_eq_true, if_false, Compile.Res.ok.injEq, Prod.mk.injEq] at h
          obtain ⟨rfl, rfl⟩ := h
          refine ⟨need c + 1, .ok .null, s1, ?_, rfl, c2⟩
          simp only [toCoreS, eval_ifThen, c1 _ (Nat.le_refl _), seq, htr, Bool.false_eq_true, if_false]
    | loop cond b =>
      obtain ⟨fl, r, st', e1, g1, r1⟩ := hloop cond b .null ρ ρ' sig st hw hr h
      exact ⟨fl + 1, r, st', by rw [eval_toCoreS_loop]; exact e1, g1, r1⟩

/-- **compiler model ⇒ guide, statements.** A finished `evalS (coreSem F)` evaluation is a finished
evaluation of the embedded statement by the reference semantics of the guide, with the same signal
and a related final environment. -/
theorem stmt_fwd (F : FloatOps) (s : Compile.Stmt) (ρ ρ' : Compile.Env (coreSem F)) (st : St)
    (n : Nat) (sig : Compile.Sig) (hw : wfS s = true) (hr : EnvRel ρ st.env)
    (hev : Compile.evalS (coreSem F) n s ρ = .ok (sig, ρ')) :
    ∃ fuel r st', Core.eval F fuel (toCoreS s) st = (r, st') ∧ sigOf r = some sig ∧ EnvRel ρ' st'.env :=
  (stmt_fwd_at F n).1 s ρ ρ' sig st hw hr hev

end KotoVerif.C01
