/-
C13 helper lemmas, part 5: consumers, laziness and pull order.

* `foldIt_spec`: the generic consumer loop over an iterator that denotes `xs` computes the same answer
  as the early-exit fold over the list `xs` (for every fuel larger than the length).
* call counting: `pullN c m s` is "m consecutive `next` calls" (final state, all events). The lemmas
  say exactly how many calls an adaptor makes on its input: `take k` makes `min m k` calls for `m`
  calls on itself — never more than `k` —, `each`/`enumerate` make one call per call, the lazy `step`
  makes the pending skips plus one (`step_next_eq`), `zip` asks `a` before `b` and does not ask `b` when `a` is exhausted.
* pull order of the logging sources.
-/
import KotoVerif.Lemmas.C13Refine

namespace KotoVerif.Iter

theorem foldIt_spec {α : Type} (f : α → Val → List Ev × Sum α Ans) (fin : α → Ans) :
    ∀ (xs : List Val) (fuel : Nat) (it : It) (a : α), Fwd it.c it.s xs → xs.length < fuel →
    (foldIt f fin fuel it a).1 = foldSpec f fin xs a := by
  intro xs
  induction xs with
  | nil =>
    intro fuel it a h hl
    cases fuel with
    | zero => simp at hl
    | succ fuel =>
      have ⟨h1, _⟩ := fwd_nil.mp h
      simp [foldIt, foldSpec, h1]
  | cons x xs ih =>
    intro fuel it a h hl
    cases fuel with
    | zero => simp at hl
    | succ fuel =>
      have ⟨h1, h2⟩ := fwd_cons.mp h
      cases hfx : f a x with
      | mk e y =>
        cases y with
        | inr ans => simp [foldIt, foldSpec, h1, hfx]
        | inl a' =>
          simp [foldIt, foldSpec, h1, hfx]
          exact ih fuel ⟨it.c, (it.c.next it.s).st⟩ a' h2 (by simp at hl; omega)

theorem listIt_fwd (xs : List Val) : Fwd (listIt xs).c (listIt xs).s xs := by
  have := seq_fwd xs 0
  simp only [List.drop_zero] at this
  exact this

/-- every single-loop consumer computes, on an iterator denoting `xs`, what it computes on the list -/
theorem runLoop_spec (c : Cons) (fuel : Nat) (it : It) (xs : List Val)
    (h : Fwd it.c it.s xs) (hl : xs.length < fuel) :
    (runLoop fuel it c).1 = (runLoop (xs.length + 1) (listIt xs) c).1 := by
  have hL := listIt_fwd xs
  cases c <;> simp only [runLoop, drain] <;>
    first
    | rfl
    | (rw [foldIt_spec _ _ xs fuel it _ h hl,
           foldIt_spec _ _ xs (xs.length + 1) (listIt xs) _ hL (Nat.lt_succ_self _)])

/-! ### the consumers as list functions -/

theorem drain_list (xs acc : List Val) :
    foldSpec (fun (acc : List Val) v => cont (acc ++ [v]))
      (fun acc => .ok (.list acc)) xs acc = .ok (.list (acc ++ xs)) := by
  induction xs generalizing acc with
  | nil => simp [foldSpec]
  | cons x xs ih =>
    have := ih (acc ++ [x])
    simp only [foldSpec, cont] at this ⊢
    simpa using this

theorem count_list (xs : List Val) (n : Nat) :
    foldSpec (fun (n : Nat) (_ : Val) => cont (n + 1))
      (fun n => .ok (Val.int n)) xs n = .ok (Val.int ((n + xs.length : Nat) : Int)) := by
  induction xs generalizing n with
  | nil => simp [foldSpec]
  | cons x xs ih =>
    have := ih (n + 1)
    simp only [foldSpec, cont, List.length_cons] at this ⊢
    rw [this]
    congr 3
    omega

/-! ### how often an adaptor asks its input -/

theorem pullN_add (c : Co) (m n : Nat) (s : c.σ) :
    pullN c (m + n) s = ((pullN c n (pullN c m s).1).1, (pullN c m s).2 ++ (pullN c n (pullN c m s).1).2) := by
  induction m generalizing s with
  | zero => simp [pullN]
  | succ m ih =>
    have : m + 1 + n = (m + n) + 1 := by omega
    rw [this]
    simp only [pullN]
    rw [ih]
    simp

/-- `take k`: `m` calls make exactly `min m k` calls on the input, with exactly their events -/
theorem take_calls (c : Co) : ∀ (m : Nat) (s : c.σ) (k : Nat),
    pullN (takeCo c) m (s, k) =
      (((pullN c (min m k) s).1, k - min m k), (pullN c (min m k) s).2) := by
  intro m
  induction m with
  | zero => intro s k; simp only [Nat.zero_min, pullN, Nat.sub_zero]; rfl
  | succ m ih =>
    intro s k
    cases k with
    | zero =>
      have e : (takeCo c).next (s, 0) = ⟨none, (s, 0), []⟩ := by simp [takeCo]
      simp only [pullN]
      rw [e]
      simp only
      rw [ih s 0]
      simp [pullN]
      rfl
    | succ k =>
      have e : (takeCo c).next (s, k + 1) = ⟨(c.next s).out, ((c.next s).st, k), (c.next s).ev⟩ := by
        simp [takeCo]
      have hmin : min (m + 1) (k + 1) = min m k + 1 := by omega
      simp only [pullN]
      rw [e]
      simp only
      rw [ih (c.next s).st k, hmin]
      simp only [pullN, Nat.add_sub_add_right]
      rfl

/-- `each f`: one call on the input per call -/
theorem each_calls (f : Fn) (c : Co) : ∀ (m : Nat) (s : c.σ),
    (pullN (eachCo f c) m s).1 = (pullN c m s).1 := by
  intro m
  induction m with
  | zero => intro s; rfl
  | succ m ih =>
    intro s
    have e : ((eachCo f c).next s).st = (c.next s).st := by
      simp only [eachCo]; cases (c.next s).out <;> rfl
    simp only [pullN]
    rw [e]
    exact ih _

/-- `enumerate`: one call on the input per call -/
theorem enumerate_calls (c : Co) : ∀ (m : Nat) (s : c.σ) (i : Nat),
    (pullN (enumerateCo c) m (s, i)).1 = ((pullN c m s).1, i + m) := by
  intro m
  induction m with
  | zero => intro s i; rfl
  | succ m ih =>
    intro s i
    simp only [pullN]
    have := ih (c.next s).st (i + 1)
    simp only [enumerateCo] at this ⊢
    rw [this]
    congr 1
    omega

/-- `step n`, first call (nothing pending): exactly one call on the input, exactly its events -/
theorem step_first_call (n : Nat) (c : Co) (s : c.σ) :
    (stepCo n c).next (s, 0) =
      ⟨(c.next s).out, ((c.next s).st, if (c.next s).out.isSome then n - 1 else 0), (c.next s).ev⟩ := by
  simp [stepCo, advance]
  rfl

/-- `Iterator::nth(k)` when the `k` skips all succeed: exactly `k + 1` consecutive calls -/
theorem nth_eq_pullN (c : Co) : ∀ (k : Nat) (s : c.σ), (advance c k s).1 = true →
    (nth c k s).st = (pullN c (k + 1) s).1 ∧ (nth c k s).ev = (pullN c (k + 1) s).2 := by
  intro k
  induction k with
  | zero => intro s _; simp [nth, advance, pullN]
  | succ k ih =>
    intro s hok
    cases ho : (c.next s).out with
    | none => simp [advance, ho] at hok
    | some v =>
      have hadv : advance c (k + 1) s = ((advance c k (c.next s).st).1, (advance c k (c.next s).st).2.1,
          (c.next s).ev ++ (advance c k (c.next s).st).2.2) := by simp [advance, ho]
      have hok' : (advance c k (c.next s).st).1 = true := by rw [hadv] at hok; exact hok
      have ⟨i1, i2⟩ := ih (c.next s).st hok'
      have hn : nth c (k + 1) s = ⟨(nth c k (c.next s).st).out, (nth c k (c.next s).st).st,
          (c.next s).ev ++ (nth c k (c.next s).st).ev⟩ := by
        simp only [nth, hadv]
        cases (advance c k (c.next s).st).1 <;> simp
      rw [hn]
      have hp : pullN c (k + 1 + 1) s = ((pullN c (k + 1) (c.next s).st).1,
          (c.next s).ev ++ (pullN c (k + 1) (c.next s).st).2) := rfl
      rw [hp]
      exact ⟨i1, by rw [i2]⟩

/-- `zip`: `a` is asked first; `b` is asked only if `a` produced a value -/
theorem zip_order (a b : Co) (sa : a.σ) (sb : b.σ) :
    ((a.next sa).out = none →
      ((zipCo a b).next (sa, sb)).ev = (a.next sa).ev ∧ ((zipCo a b).next (sa, sb)).st.2 = sb) ∧
    ((a.next sa).out ≠ none →
      ((zipCo a b).next (sa, sb)).ev = (a.next sa).ev ++ (b.next sb).ev) := by
  constructor
  · intro h; simp [zipCo, h]
  · intro h
    cases ha : (a.next sa).out with
    | none => exact absurd ha h
    | some va => cases hb : (b.next sb).out <;> simp [zipCo, ha, hb]

/-- `chain`: `b` is not asked while `a` still produces values -/
theorem chain_order (a b : Co) (sa : a.σ) (sb : b.σ) (h : (a.next sa).out ≠ none) :
    ((chainCo a b).next (some sa, sb)).ev = (a.next sa).ev ∧
    ((chainCo a b).next (some sa, sb)).st.2 = sb := by
  cases ha : (a.next sa).out with
  | none => exact absurd ha h
  | some va => simp [chainCo, ha]

/-! ### pull order of the logging sources -/

/-- a generator logs `pull k i, pull k (i+1), …` while it has elements -/
theorem gen_pulls (k : Nat) (xs : List Val) : ∀ (m i : Nat), i + m ≤ xs.length →
    (pullN (genCo k xs) m (i, false)).2 = (List.range m).map (fun j => Ev.pull k (i + j)) ∧
    (pullN (genCo k xs) m (i, false)).1 = (i + m, false) := by
  intro m
  induction m with
  | zero => intro i _; exact ⟨by simp [pullN], rfl⟩
  | succ m ih =>
    intro i hi
    have hlt : i < xs.length := by omega
    have hx : xs[i]? = some xs[i] := by simp [hlt]
    have e : (genCo k xs).next (i, false) = ⟨some xs[i], (i + 1, false), [Ev.pull k i]⟩ := by
      simp [genCo, hx]
    have ⟨i1, i2⟩ := ih (i + 1) (by omega)
    simp only [pullN]
    rw [e]
    simp only
    rw [i1, i2, List.range_succ_eq_map]
    refine ⟨?_, by congr 1; omega⟩
    simp only [List.map_cons, List.map_map, List.singleton_append, Nat.add_zero]
    congr 1
    apply List.map_congr_left
    intro j _
    simp only [Function.comp]
    congr 1
    omega

/-- an `@next` object logs `pull k i, pull k (i+1), …` while it has elements -/
theorem obj_pulls (k : Nat) (xs : List Val) : ∀ (m i : Nat), i + m ≤ xs.length →
    (pullN (metaCo k xs) m i).2 = (List.range m).map (fun j => Ev.pull k (i + j)) ∧
    (pullN (metaCo k xs) m i).1 = i + m := by
  intro m
  induction m with
  | zero => intro i _; exact ⟨by simp [pullN], rfl⟩
  | succ m ih =>
    intro i hi
    have hlt : i < xs.length := by omega
    have hx : xs[i]? = some xs[i] := by simp [hlt]
    have e : (metaCo k xs).next i = ⟨some xs[i], i + 1, [Ev.pull k i]⟩ := by
      simp [metaCo, hx]
    have ⟨i1, i2⟩ := ih (i + 1) (by omega)
    simp only [pullN]
    rw [e]
    show [Ev.pull k i] ++ (pullN (metaCo k xs) m (i + 1 : Nat)).2 = _ ∧
      (pullN (metaCo k xs) m (i + 1 : Nat)).1 = (i + (m + 1) : Nat)
    rw [i1, i2, List.range_succ_eq_map]
    refine ⟨?_, by show (i + 1 + m : Nat) = i + (m + 1); omega⟩
    simp only [List.map_cons, List.map_map, List.singleton_append, Nat.add_zero]
    congr 1
    apply List.map_congr_left
    intro j _
    simp only [Function.comp]
    congr 1
    omega

end KotoVerif.Iter
