/-
Helper lemmas for C05: soundness of the per-unit check `checkAnns` w.r.t. the abstract VM.
-/
import KotoVerif.Model.AbsVM

namespace KotoVerif.Bytecode
open KotoVerif.Gen

/-! ### sorted listings: lookups are unique -/

theorem pcsFrom_ge (lo : Nat) (l : List Ann) (h : pcsFrom lo l = true) : ∀ a ∈ l, lo ≤ a.pc := by
  induction l generalizing lo with
  | nil => intro a ha; simp at ha
  | cons x xs ih =>
    simp [pcsFrom] at h
    intro a ha
    simp at ha
    rcases ha with rfl | ha
    · exact h.1
    · have := ih _ h.2 a ha; omega

theorem findPc_some (l : List Ann) (p : Nat) (b : Ann) (h : findPc l p = some b) : b ∈ l ∧ b.pc = p := by
  unfold findPc at h
  exact ⟨List.mem_of_find?_eq_some h, by simpa using List.find?_some h⟩

theorem findPc_of_mem (lo : Nat) (l : List Ann) (h : pcsFrom lo l = true) (b : Ann) (hb : b ∈ l) :
    findPc l b.pc = some b := by
  induction l generalizing lo with
  | nil => simp at hb
  | cons x xs ih =>
    simp [pcsFrom] at h
    simp at hb
    rcases hb with rfl | hb
    · simp [findPc]
    · have hge := pcsFrom_ge _ _ h.2 b hb
      have hne : (x.pc == b.pc) = false := by simp; omega
      simp only [findPc, List.find?_cons, hne]
      exact ih _ h.2 hb

theorem lookupFrom_global (lo : Nat) (l seen rest : List Ann) (a : Ann)
    (hs : pcsFrom lo l = true) (hl : l = seen.reverse ++ a :: rest) (p : Nat) (b : Ann)
    (h : lookupFrom seen rest a p = some b) : findPc l p = some b := by
  unfold lookupFrom at h
  have hm : b ∈ l ∧ b.pc = p := by
    split at h
    · obtain ⟨hm, hp⟩ := findPc_some _ _ _ h
      exact ⟨by rw [hl]; simp [hm], hp⟩
    · obtain ⟨hm, hp⟩ := findPc_some _ _ _ h
      refine ⟨?_, hp⟩
      rw [hl]
      simp at hm ⊢
      rcases hm with rfl | hm
      · simp
      · exact .inl hm
  rw [← hm.2]
  exact findPc_of_mem lo l hs b hm.1

/-! ### the local check is monotone in the lookup function -/

theorem localOk_mono (rc : Nat) (consts : List CKind) (look look' : Nat → Option Ann) (a : Ann)
    (hm : ∀ p b, look p = some b → look' p = some b)
    (h : localOk rc consts look a = true) : localOk rc consts look' a = true := by
  have hsome : ∀ p, (look p).isSome = true → (look' p).isSome = true := by
    intro p hp
    obtain ⟨b, hb⟩ := Option.isSome_iff_exists.mp hp
    simp [hm p b hb]
  have hany : ∀ p (f : Ann → Bool), (look p).any f = true → (look' p).any f = true := by
    intro p f hp
    cases hb : look p with
    | none => simp [hb] at hp
    | some b => simp [hb] at hp; simp [hm p b hb, hp]
  simp only [localOk, localChecks, List.all_cons, List.all_nil, Bool.and_true, Bool.and_eq_true] at h ⊢
  obtain ⟨h1, h2, h3, h4⟩ := h
  refine ⟨h1, h2, ?_, ?_⟩
  · cases hs : succPcs a with
    | none => simp [hs] at h3
    | some ps =>
      simp only [hs, List.all_eq_true] at h3 ⊢
      exact fun p hp => hsome p (h3 p hp)
  · cases hd : a.d with
    | none => simp
    | some d =>
      simp only [hd] at h4 ⊢
      cases he : applyEff a.ins.op d with
      | none => simp [he] at h4
      | some d' =>
        cases hs : succPcs a with
        | none => simp [he, hs] at h4
        | some ps =>
          simp only [he, hs, List.all_eq_true] at h4 ⊢
          exact fun p hp => hany p _ (h4 p hp)

theorem checkFrom_all (rc : Nat) (consts : List CKind) (lo : Nat) (l : List Ann)
    (hs : pcsFrom lo l = true) :
    ∀ seen rest, l = seen.reverse ++ rest → checkFrom rc consts seen rest = true →
      ∀ a ∈ rest, localOk rc consts (findPc l) a = true := by
  intro seen rest
  induction rest generalizing seen with
  | nil => intro _ _ a ha; simp at ha
  | cons x xs ih =>
    intro hl hc a ha
    simp only [checkFrom, Bool.and_eq_true] at hc
    simp at ha
    rcases ha with rfl | ha
    · exact localOk_mono rc consts _ _ a (fun p b hb => lookupFrom_global lo l seen xs a hs hl p b hb) hc.1
    · exact ih (x :: seen) (by rw [hl]; simp) hc.2 a ha

/-! ### what the local check says -/

structure LocalFacts (rc : Nat) (consts : List CKind) (l : List Ann) (a : Ann) : Prop where
  regs : ∀ r ∈ regAccesses a.ins, r < rc
  consts : ∀ kc ∈ constOperands a.ins.fields a.ins.args, consts[kc.2]? = some kc.1
  succs : ∃ ps, succPcs a = some ps ∧ ∀ p ∈ ps, ∃ b, findPc l p = some b
  flow : ∀ d, a.d = some d → ∃ d' ps, applyEff a.ins.op d = some d' ∧ succPcs a = some ps
    ∧ ∀ p ∈ ps, ∃ b, findPc l p = some b ∧ b.d = some d'

theorem localFacts_of_localOk (rc : Nat) (consts : List CKind) (l : List Ann) (a : Ann)
    (h : localOk rc consts (findPc l) a = true) : LocalFacts rc consts l a := by
  simp only [localOk, localChecks, List.all_cons, List.all_nil, Bool.and_true, Bool.and_eq_true] at h
  obtain ⟨h1, h2, h3, h4⟩ := h
  refine ⟨?_, ?_, ?_, ?_⟩
  · simpa [regsOk] using h1
  · intro kc hkc
    have := (List.all_eq_true.mp h2) kc hkc
    simpa using this
  · cases hs : succPcs a with
    | none => simp [hs] at h3
    | some ps =>
      simp only [hs, List.all_eq_true] at h3
      exact ⟨ps, rfl, fun p hp => Option.isSome_iff_exists.mp (h3 p hp)⟩
  · intro d hd
    simp only [hd] at h4
    cases he : applyEff a.ins.op d with
    | none => simp [he] at h4
    | some d' =>
      cases hs : succPcs a with
      | none => simp [he, hs] at h4
      | some ps =>
        simp only [he, hs, List.all_eq_true] at h4
        refine ⟨d', ps, rfl, rfl, fun p hp => ?_⟩
        have := h4 p hp
        cases hb : findPc l p with
        | none => simp [hb] at this
        | some b => simp [hb] at this; exact ⟨b, rfl, this⟩

/-- Everything `checkAnns` establishes for a unit's listing. -/
structure UnitFacts (consts : List CKind) (base need : Nat) (l : List Ann) : Prop where
  entry : ∃ a0, findPc l base = some a0 ∧ a0.ins.op = .NewFrame ∧ a0.d = some ⟨0, 0, 0⟩
    ∧ need ≤ argAt a0.ins 0
      ∧ ∀ a ∈ l, LocalFacts (argAt a0.ins 0) consts l a
  sorted : pcsFrom base l = true
  oneFrame : ∀ a ∈ l, a.ins.op = .NewFrame → a.pc = base
  brackets : linOk 0 0 l = true

theorem unitFacts_of_checkAnns (consts : List CKind) (base need : Nat) (l : List Ann)
    (h : checkAnns consts base need l = true) : UnitFacts consts base need l := by
  cases l with
  | nil => simp [checkAnns] at h
  | cons a0 rest =>
    simp only [checkAnns, Bool.and_eq_true, decide_eq_true_eq] at h
    obtain ⟨⟨⟨⟨⟨⟨⟨hpc, hop⟩, hneed⟩, hd⟩, hnf⟩, hsorted⟩, hcheck⟩, hlin⟩ := h
    refine ⟨⟨a0, ?_, hop, by simpa using hd, hneed, ?_⟩, hsorted, ?_, hlin⟩
    · simp [findPc, hpc]
    · intro a ha
      exact localFacts_of_localOk _ _ _ _
        (checkFrom_all _ consts base _ hsorted [] (a0 :: rest) (by simp) hcheck a ha)
    · intro a ha hnew
      simp at ha
      rcases ha with rfl | ha
      · exact hpc
      · have := (List.all_eq_true.mp hnf) a ha
        simp [hnew] at this

/-! ### bracket structure -/

/-- in the static depths that `linLex` computes, a reachable instruction has its inferred depths -/
theorem lookup_of_linLex (lo : Nat) (l : List Ann) (s t : Nat) (run : List (Nat × Nat)) (lex : List (Nat × Nat))
    (hs : pcsFrom lo l = true) (h : linLex s t run l = some lex) (b : Ann) (hb : b ∈ l) (d : Depth)
    (hd : b.d = some d) :
    ((l.zip lex).find? (fun x => x.1.pc == b.pc)).map (·.2) = some (d.seq, d.str) := by
  induction l generalizing lo s t run lex with
  | nil => simp at hb
  | cons a rest ih =>
    simp only [pcsFrom, Bool.and_eq_true, decide_eq_true_eq] at hs
    cases hc : depthIs a s t with
    | false => simp [linLex, hc] at h
    | true =>
      cases hl : linStep a.ins.op s t with
      | none => simp [linLex, hc, hl] at h
      | some st =>
        obtain ⟨s', t'⟩ := st
        simp only [linLex, hc, hl, Option.map_eq_some_iff] at h
        obtain ⟨lex', hlex', rfl⟩ := h
        simp at hb
        rcases hb with rfl | hb
        · simp only [depthIs, hd, Bool.and_eq_true, decide_eq_true_eq] at hc
          simp [List.zip_cons_cons, List.find?_cons, hc.1, hc.2]
        · have hge := pcsFrom_ge _ _ hs.2 b hb
          have hne : (a.pc == b.pc) = false := by
            simp; omega
          simp only [List.zip_cons_cons, List.find?_cons, hne]
          split at hlex'
          · obtain ⟨st, _, hst⟩ := List.exists_of_findSome?_eq_some hlex'
            exact ih _ _ _ _ _ hs.2 hst hb
          · exact ih _ _ _ _ _ hs.2 hlex' hb

theorem bracketAt_of_linOk (lo : Nat) (l : List Ann) (s t : Nat) (hs : pcsFrom lo l = true)
    (h : linOk s t l = true) (b : Ann) (hb : b ∈ l) (d : Depth) (hd : b.d = some d) :
    bracketAt s t l b.pc = some (d.seq, d.str) := by
  simp only [linOk, Option.isSome_iff_exists] at h
  obtain ⟨lex, hlex⟩ := h
  simp only [bracketAt, hlex]
  exact lookup_of_linLex lo l s t [] lex hs hlex b hb d hd

/-! ### the invariant of the abstract VM -/

/-- every handler on the catch stack points at an instruction whose inferred depth is the one
recorded when its `TryStart` ran, with the try depth of its position on the stack -/
def CatchesOk (l : List Ann) : List (Nat × Nat × Nat) → Prop
  | [] => True
  | h :: rest => (∃ b, findPc l h.1 = some b ∧ b.d = some ⟨h.2.1, h.2.2, rest.length + 1⟩)
      ∧ CatchesOk l rest

/-- the configuration sits on an instruction of the listing whose inferred depth is the actual one -/
def Good (l : List Ann) (c : Cfg) : Prop :=
  (∃ a, findPc l c.pc = some a ∧ a.d = some ⟨c.seq, c.str, c.catches.length⟩) ∧ CatchesOk l c.catches

theorem catchIp_mem (a : Ann) (ps : List Nat) (hop : a.ins.op = .TryStart) (h : succPcs a = some ps) :
    catchIp a ∈ ps := by
  simp only [succPcs, hop] at h
  simp at h
  subst h
  unfold catchIp
  cases fwdOffsets a.ins.fields a.ins.args with
  | nil => simp
  | cons o os => simp

theorem CatchesOk_tail (l : List Ann) (cs : List (Nat × Nat × Nat)) (h : CatchesOk l cs) :
    CatchesOk l cs.tail := by
  cases cs with
  | nil => exact h
  | cons x xs => exact h.2

/-- The verifier's depth transformer and the VM's effect agree. -/
theorem effect_agree (l : List Ann) (a : Ann) (c : Cfg) (d' : Depth) (ps : List Nat)
    (he : applyEff a.ins.op ⟨c.seq, c.str, c.catches.length⟩ = some d')
    (hs : succPcs a = some ps)
    (hflow : ∀ p ∈ ps, ∃ b, findPc l p = some b ∧ b.d = some d')
    (hc : CatchesOk l c.catches) :
    ∃ c', vmEffect a c = some c' ∧ d' = ⟨c'.seq, c'.str, c'.catches.length⟩ ∧ CatchesOk l c'.catches := by
  cases hop : a.ins.op <;> simp only [applyEff, vmEffect, hop] at he ⊢
  case TryStart =>
    simp at he
    subst he
    refine ⟨_, rfl, by simp, ?_, hc⟩
    exact hflow _ (catchIp_mem a ps hop hs)
  case TryEnd =>
    split at he
    · simp at he
    · simp at he
      subst he
      refine ⟨_, rfl, ?_, CatchesOk_tail l _ hc⟩
      simp
  all_goals first
    | (simp at he; subst he; exact ⟨_, rfl, rfl, hc⟩)
    | (split at he
       · simp at he
       · rename_i hne
         simp at he
         subst he
         simp only [if_neg hne]
         exact ⟨_, rfl, rfl, hc⟩)

theorem good_entry (consts : List CKind) (base need : Nat) (l : List Ann)
    (h : UnitFacts consts base need l) : Good l ⟨base, 0, 0, []⟩ := by
  obtain ⟨a0, hf, _, hd, _, _⟩ := h.entry
  exact ⟨⟨a0, hf, hd⟩, trivial⟩

theorem good_step (consts : List CKind) (base need : Nat) (l : List Ann)
    (h : UnitFacts consts base need l) (c c' : Cfg) (hg : Good l c) (hst : Step l c c') : Good l c' := by
  obtain ⟨a0, _, _, _, _, hall⟩ := h.entry
  obtain ⟨⟨a, hfa, hda⟩, hcs⟩ := hg
  cases hst with
  | exec c1 a' ps p hf hv hs hp =>
    rw [hfa] at hf
    cases hf
    have hmem := (findPc_some _ _ _ hfa).1
    obtain ⟨d', ps', he, hs', hflow⟩ := (hall a hmem).flow _ hda
    rw [hs] at hs'
    cases hs'
    obtain ⟨c2, hv2, hd', hc2⟩ := effect_agree l a c d' ps he hs hflow hcs
    rw [hv] at hv2
    cases hv2
    obtain ⟨b, hb, hbd⟩ := hflow p hp
    exact ⟨⟨b, hb, by rw [hbd, hd']⟩, hc2⟩
  | unwind a' hd rest hf hcat =>
    rw [hcat] at hcs
    have hcs' := hcs
    obtain ⟨⟨b, hb, hbd⟩, _⟩ := hcs
    refine ⟨⟨b, hb, ?_⟩, ?_⟩
    · simp only [hcat, List.length_cons]; exact hbd
    · simp only [hcat]; exact hcs'

theorem good_reach (consts : List CKind) (base need : Nat) (l : List Ann)
    (h : UnitFacts consts base need l) (c : Cfg) (hr : Reach l ⟨base, 0, 0, []⟩ c) : Good l c := by
  induction hr with
  | refl => exact good_entry consts base need l h
  | step c1 c2 _ hst ih => exact good_step consts base need l h c1 c2 ih hst

theorem good_no_fault (consts : List CKind) (base need : Nat) (l : List Ann)
    (h : UnitFacts consts base need l) (c : Cfg) (hg : Good l c) : ¬ Fault l c := by
  obtain ⟨a0, _, _, _, _, hall⟩ := h.entry
  obtain ⟨⟨a, hfa, hda⟩, hcs⟩ := hg
  have hmem := (findPc_some _ _ _ hfa).1
  obtain ⟨d', ps, he, hs, hflow⟩ := (hall a hmem).flow _ hda
  obtain ⟨c2, hv2, _, _⟩ := effect_agree l a c d' ps he hs hflow hcs
  unfold Fault
  rw [hfa]
  simp only [hv2, hs]
  intro hf
  rcases hf with hf | hf
  · simp at hf
  · simp at hf

/-! ### from the chunk to its units -/

theorem wfUnit_units (consts : List CKind) (fuel base need : Nat) (bs : List Nat)
    (h : wfUnit consts fuel base need bs = true) :
    ∀ u ∈ unitsOf fuel base need bs, checkAnns consts u.1 u.2.1 u.2.2 = true := by
  induction fuel generalizing base need bs with
  | zero => simp [wfUnit] at h
  | succ fuel ih =>
    intro u hu
    simp only [wfUnit] at h
    simp only [unitsOf] at hu
    cases hl : unitListing base bs with
    | none => simp [hl] at h
    | some r =>
      obtain ⟨anns, subs⟩ := r
      simp only [hl, Bool.and_eq_true, List.all_eq_true] at h
      simp only [hl, List.mem_cons, List.mem_flatMap] at hu
      rcases hu with rfl | ⟨s, hs, hu⟩
      · exact h.1
      · exact ih s.base s.need s.bytes (h.2 s hs) u hu

theorem wfChunk_units (bytes : List Nat) (consts : List CKind) (h : wfChunk bytes consts = true) :
    ∀ u ∈ chunkUnits bytes, UnitFacts consts u.1 u.2.1 u.2.2 := by
  intro u hu
  unfold wfChunk at h
  unfold chunkUnits at hu
  by_cases he : bytes.isEmpty = true
  · simp [he] at hu
  · simp only [he, Bool.false_or] at h
    simp only [he] at hu
    exact unitFacts_of_checkAnns _ _ _ _ (wfUnit_units consts _ 0 0 bytes h u hu)

end KotoVerif.Bytecode
