/-
Helper lemmas for C15 (and C11): fill counts of the alignments, the width of a padded field, facts about
`StringFormatOptions::parse`. Core Lean only.
-/
import KotoVerif.Model.FmtSpec

namespace KotoVerif.FmtSpec
open KotoVerif.Utf8

theorem f32Exp_small {n : Nat} (h : n < 16777216) : ∀ fuel, f32Exp fuel n = 0
  | 0 => rfl
  | _ + 1 => by simp [f32Exp, h]

/-- below 2^24 the conversion to `f32` is exact -/
theorem roundF32_small {n : Nat} (h : n < 16777216) : roundF32 n = n := by
  simp [roundF32, f32Exp_small h]

/-- centre alignment: ⌊n/2⌋ on the left, ⌈n/2⌉ on the right (while the count is below 2^24) -/
theorem center_floor_ceil {n : Nat} (b : Bool) (h : n < 16777216) :
    fillCounts .center b n = (n / 2, (n + 1) / 2) := by
  simp [fillCounts, roundF32_small h]

/-- the two fill counts add up to the number of missing clusters -/
theorem fillCounts_sum (a : Align) (b : Bool) (n : Nat) (h : a ≠ .center ∨ n < 16777216) :
    (fillCounts a b n).1 + (fillCounts a b n).2 = n := by
  cases a with
  | default => cases b <;> simp [fillCounts]
  | left => simp [fillCounts]
  | right => simp [fillCounts]
  | center =>
    have hn : n < 16777216 := by
      rcases h with h | h
      · exact absurd rfl h
      · exact h
    rw [center_floor_ceil b hn]
    simp only; omega

/-- number of grapheme clusters of a string, relative to the oracle -/
def cnt (g : Bytes → Nat) (s : Bytes) : Nat := (graphemes g s).length

/-- **a padded field is at least as wide as requested** — provided the cluster count is additive over
the pieces that are concatenated (no cluster spans a joint), the fill is at least one cluster, and the
number of missing clusters is below 2^24 when the field is centred. -/
theorem pad_width (g : Bytes → Nat) (isNum : Bool) (rendered : Bytes) (o : Opts) (w : Nat)
    (hw : o.minWidth = some w)
    (hc : o.align ≠ .center ∨ w - cnt g rendered < 16777216)
    (hfill : 1 ≤ cnt g (o.fill.getD [32]))
    (hadd : ∀ l r, cnt g (rep_ l (o.fill.getD [32]) ++ rendered ++ rep_ r (o.fill.getD [32]))
                    = l * cnt g (o.fill.getD [32]) + cnt g rendered + r * cnt g (o.fill.getD [32])) :
    w ≤ cnt g (pad g isNum rendered (some o)) := by
  simp only [pad, hw, Option.getD_some]
  have hlen : (graphemes g rendered).length = cnt g rendered := rfl
  rw [hlen]
  split
  · rename_i hlt
    have hs := fillCounts_sum o.align isNum (w - cnt g rendered) hc
    cases hfc : fillCounts o.align isNum (w - cnt g rendered) with
    | mk l r =>
      rw [hfc] at hs
      simp only at hs ⊢
      rw [hadd l r]
      have h1 : l ≤ l * cnt g (o.fill.getD [32]) := Nat.le_mul_of_pos_right _ hfill
      have h2 : r ≤ r * cnt g (o.fill.getD [32]) := Nat.le_mul_of_pos_right _ hfill
      omega
  · omega

/-- the shape of a padded field: fill, value, fill — with the counts of `fillCounts` -/
theorem pad_shape (g : Bytes → Nat) (isNum : Bool) (rendered : Bytes) (o : Opts) (w : Nat)
    (hw : o.minWidth = some w) (hlt : cnt g rendered < w) :
    pad g isNum rendered (some o) =
      rep_ (fillCounts o.align isNum (w - cnt g rendered)).1 (o.fill.getD [32]) ++ rendered ++
      rep_ (fillCounts o.align isNum (w - cnt g rendered)).2 (o.fill.getD [32]) := by
  simp only [pad, hw, Option.getD_some]
  have hlen : (graphemes g rendered).length = cnt g rendered := rfl
  rw [hlen, if_pos hlt]

/-- a value that is already wide enough is not changed -/
theorem pad_wide (g : Bytes → Nat) (isNum : Bool) (rendered : Bytes) (o : Opts)
    (h : o.minWidth.getD 0 ≤ cnt g rendered) : pad g isNum rendered (some o) = rendered := by
  simp only [pad]
  have hlen : (graphemes g rendered).length = cnt g rendered := rfl
  rw [hlen, if_neg (by omega)]

/-! ### parse -/

def okOpts : Except PErr Opts → Option Opts
  | .ok o => some o
  | .error _ => none

def errOf : Except PErr Opts → Option PErr
  | .ok _ => none
  | .error e => some e

/-- a grid of option values whose text form is defined: an explicit fill needs an alignment (or is the
`0` flag in front of a width) -/
def gridOpts : List Opts :=
  ([none, some [42], some [48], some [0xC3, 0xA9]] : List (Option Bytes)).flatMap fun f =>
  ([.default, .left, .center, .right] : List Align).flatMap fun a =>
  ([none, some 0, some 5, some 12] : List (Option Nat)).flatMap fun w =>
  ([none, some 0, some 2] : List (Option Nat)).flatMap fun p =>
  ([none, some .debug, some .hexLower, some .expUpper] : List (Option Rep)).filterMap fun r =>
    if f.isSome ∧ a = .default ∧ ¬(f = some [48] ∧ w.isSome) then none
    else some { align := a, minWidth := w, precision := p, fill := f, rep := r }

end KotoVerif.FmtSpec
