/-
Helper lemmas for C15 (and C11): fill counts of the alignments, the width of a padded field, facts about
`StringFormatOptions::parse`. Core Lean only.
-/
import KotoVerif.Model.FmtSpec
import KotoVerif.Lemmas.C15Ops
import KotoVerif.Lemmas.C15Enc

namespace KotoVerif.FmtSpec
open KotoVerif.Utf8

theorem f32Exp_small {n : Nat} (h : n < 16777216) : ∀ fuel, f32Exp fuel n = 0
  | 0 => rfl
  | _ + 1 => by simp [f32Exp, h]

/-- below 2^24 the conversion to `f32` is exact -/
theorem roundF32_small {n : Nat} (h : n < 16777216) : roundF32 n = n := by
  simp [roundF32, f32Exp_small h]

/-- centre alignment: ⌊n/2⌋ on the left, ⌈n/2⌉ on the right (while the count is below 2^24) -/
theorem center_floor_ceil {n : Nat} (b : Bool) (h : n < 16777216) :
    fillCounts .center b n = (n / 2, (n + 1) / 2) := by
  simp [fillCounts, roundF32_small h]

/-- the two fill counts add up to the number of missing clusters -/
theorem fillCounts_sum (a : Align) (b : Bool) (n : Nat) (h : a ≠ .center ∨ n < 16777216) :
    (fillCounts a b n).1 + (fillCounts a b n).2 = n := by
  cases a with
  | default => cases b <;> simp [fillCounts]
  | left => simp [fillCounts]
  | right => simp [fillCounts]
  | center =>
    have hn : n < 16777216 := by
      rcases h with h | h
      · exact absurd rfl h
      · exact h
    rw [center_floor_ceil b hn]
    simp only; omega

/-- number of grapheme clusters of a string, relative to the oracle -/
def cnt (g : Bytes → Nat) (s : Bytes) : Nat := (graphemes g s).length

/-- **a padded field is at least as wide as requested** — provided the cluster count is additive over
the pieces that are concatenated (no cluster spans a joint), the fill is at least one cluster, and the
number of missing clusters is below 2^24 when the field is centred. -/
theorem pad_width (g : Bytes → Nat) (isNum : Bool) (rendered : Bytes) (o : Opts) (w : Nat)
    (hw : o.minWidth = some w)
    (hc : o.align ≠ .center ∨ w - cnt g rendered < 16777216)
    (hfill : 1 ≤ cnt g (o.fill.getD [32]))
    (hadd : ∀ l r, cnt g (rep_ l (o.fill.getD [32]) ++ rendered ++ rep_ r (o.fill.getD [32]))
                    = l * cnt g (o.fill.getD [32]) + cnt g rendered + r * cnt g (o.fill.getD [32])) :
    w ≤ cnt g (pad g isNum rendered (some o)) := by
  simp only [pad, hw, Option.getD_some]
  have hlen : (graphemes g rendered).length = cnt g rendered := rfl
  rw [hlen]
  split
  · rename_i hlt
    have hs := fillCounts_sum o.align isNum (w - cnt g rendered) hc
    cases hfc : fillCounts o.align isNum (w - cnt g rendered) with
    | mk l r =>
      rw [hfc] at hs
      simp only at hs ⊢
      rw [hadd l r]
      have h1 : l ≤ l * cnt g (o.fill.getD [32]) := Nat.le_mul_of_pos_right _ hfill
      have h2 : r ≤ r * cnt g (o.fill.getD [32]) := Nat.le_mul_of_pos_right _ hfill
      omega
  · omega

/-- the shape of a padded field: fill, value, fill — with the counts of `fillCounts` -/
theorem pad_shape (g : Bytes → Nat) (isNum : Bool) (rendered : Bytes) (o : Opts) (w : Nat)
    (hw : o.minWidth = some w) (hlt : cnt g rendered < w) :
    pad g isNum rendered (some o) =
      rep_ (fillCounts o.align isNum (w - cnt g rendered)).1 (o.fill.getD [32]) ++ rendered ++
      rep_ (fillCounts o.align isNum (w - cnt g rendered)).2 (o.fill.getD [32]) := by
  simp only [pad, hw, Option.getD_some]
  have hlen : (graphemes g rendered).length = cnt g rendered := rfl
  rw [hlen, if_pos hlt]

/-- a value that is already wide enough is not changed -/
theorem pad_wide (g : Bytes → Nat) (isNum : Bool) (rendered : Bytes) (o : Opts)
    (h : o.minWidth.getD 0 ≤ cnt g rendered) : pad g isNum rendered (some o) = rendered := by
  simp only [pad]
  have hlen : (graphemes g rendered).length = cnt g rendered := rfl
  rw [hlen, if_neg (by omega)]

/-! ### parse -/

def okOpts : Except PErr Opts → Option Opts
  | .ok o => some o
  | .error _ => none

def errOf : Except PErr Opts → Option PErr
  | .ok _ => none
  | .error e => some e

/-- a grid of option values whose text form is defined: an explicit fill needs an alignment (or is the
`0` flag in front of a width) -/
def gridOpts : List Opts :=
  ([none, some [42], some [48], some [0xC3, 0xA9]] : List (Option Bytes)).flatMap fun f =>
  ([.default, .left, .center, .right] : List Align).flatMap fun a =>
  ([none, some 0, some 5, some 12] : List (Option Nat)).flatMap fun w =>
  ([none, some 0, some 2] : List (Option Nat)).flatMap fun p =>
  ([none, some .debug, some .hexLower, some .expUpper] : List (Option Rep)).filterMap fun r =>
    if f.isSome ∧ a = .default ∧ ¬(f = some [48] ∧ w.isSome) then none
    else some { align := a, minWidth := w, precision := p, fill := f, rep := r }

/-! ### the formatted text is well-formed UTF-8 -/

theorem ascii_all_valid : ∀ {s : Bytes}, (∀ b ∈ s, b < 0x80) → validUtf8 s = true
  | [], _ => valid_nil
  | c :: r, h => by
    have hc : validUtf8 [c] = true := by
      rw [validUtf8_iff]; simp [u8run, step_ascii (h c (by simp))]
    have := valid_append hc (ascii_all_valid (s := r) (fun b hb => h b (by simp [hb])))
    simpa using this

theorem digitChar_ascii {d : Nat} (upper : Bool) (h : d < 36) : digitChar d upper < 0x80 := by
  simp only [digitChar]
  split
  · omega
  · split <;> omega

theorem natDigits_ascii {base : Nat} (upper : Bool) (hb : 2 ≤ base ∧ base ≤ 36) :
    ∀ (fuel n : Nat), ∀ b ∈ natDigits base upper fuel n, b < 0x80
  | 0, _, b, h => by simp [natDigits] at h
  | fuel + 1, n, b, h => by
    simp only [natDigits] at h
    split at h
    · simp only [List.mem_singleton] at h; subst h; exact digitChar_ascii upper (by omega)
    · rcases List.mem_append.mp h with h | h
      · exact natDigits_ascii upper hb fuel _ b h
      · simp only [List.mem_singleton] at h; subst h
        exact digitChar_ascii upper (by have := Nat.mod_lt n (by omega : 0 < base); omega)

theorem showDec_ascii (n : Nat) : ∀ b ∈ showDec n, b < 0x80 := natDigits_ascii false (by omega) _ _

theorem showInt_ascii (n : Int) : ∀ b ∈ showInt n, b < 0x80 := by
  intro b hb
  simp only [showInt] at hb
  split at hb
  · rcases List.mem_cons.mp hb with rfl | hb
    · omega
    · exact showDec_ascii _ b hb
  · exact showDec_ascii _ b hb

theorem showRadix_ascii {base : Nat} (upper : Bool) (hb : 2 ≤ base ∧ base ≤ 36) (n : Int) :
    ∀ b ∈ showRadix base upper n, b < 0x80 := natDigits_ascii upper hb _ _

theorem showExp_ascii (upper : Bool) (n : Int) : ∀ b ∈ showExp upper n, b < 0x80 := by
  intro b hb
  simp only [showExp] at hb
  cases hsz : stripZeros 20 n.natAbs 0 with
  | mk m tz =>
    rw [hsz] at hb
    simp only [List.mem_append] at hb
    have hds := showDec_ascii m
    rcases hb with ((hb | hb) | hb) | hb
    · split at hb
      · simp only [List.mem_singleton] at hb; omega
      · cases hb
    · cases hd : showDec m with
      | nil => rw [hd] at hb; cases hb
      | cons d r =>
        rw [hd] at hb hds
        cases r with
        | nil =>
          simp only [List.mem_singleton] at hb; subst hb
          exact hds b (by simp)
        | cons d2 r2 =>
          simp only [List.mem_cons] at hb
          rcases hb with rfl | rfl | rfl | hb
          · exact hds _ (by simp)
          · omega
          · exact hds _ (by simp)
          · exact hds b (by simp [hb])
    · simp only [List.mem_singleton] at hb
      split at hb <;> omega
    · exact showDec_ascii _ b hb

open KotoVerif.Str in
/-- the rendered value (precision and representation applied) is well-formed UTF-8 -/
theorem render_valid (g : Bytes → Nat) (hp : Progress g) (hb : CutsAtBoundaries g) (v : FVal) (o : Option Opts)
    (hv : ∀ s, v = .str s → validUtf8 s = true) : validUtf8 (render g v o) = true := by
  have trunc : ∀ (text : Bytes) (p : Nat), validUtf8 text = true →
      validUtf8 ((graphemes g text).take p).flatten = true := by
    intro text p ht
    apply valid_flatten
    intro x hx
    exact segs_valid hp hb text.length text ht x (List.mem_of_mem_take hx)
  have fin : ∀ (text : Bytes), validUtf8 text = true →
      validUtf8 (match o.bind (·.precision) with
        | some p => ((graphemes g text).take p).flatten
        | none => text) = true := by
    intro text ht
    split
    · exact trunc text _ ht
    · exact ht
  cases v with
  | int n =>
    simp only [render]
    repeat' split
    all_goals first
      | exact ascii_all_valid (showInt_ascii _)
      | exact ascii_all_valid (showRadix_ascii _ (by omega) _)
      | exact ascii_all_valid (showExp_ascii _ _)
      | (apply valid_append (ascii_all_valid (showInt_ascii _))
         apply ascii_all_valid
         intro b hb
         first
           | exact absurd hb List.not_mem_nil
           | (rcases List.mem_cons.mp hb with rfl | hb
              · omega
              · have := (List.mem_replicate.mp hb).2; omega))
  | str s =>
    have hs := hv s rfl
    simp only [render]
    apply fin
    split
    · simp only [debug]
      exact valid_append (valid_append (by decide) hs) (by decide)
    · exact hs
  | bool b =>
    simp only [render]
    apply fin
    cases b <;> (split <;> decide)
  | null =>
    simp only [render]
    apply fin
    split <;> decide

open KotoVerif.Str in
/-- **what `run_string_push` appends is well-formed UTF-8** -/
theorem applyFmt_valid (g : Bytes → Nat) (hp : Progress g) (hb : CutsAtBoundaries g) (v : FVal) (o : Opts)
    (exact : Bool) (hv : ∀ s, v = .str s → validUtf8 s = true) (hf : validUtf8 (o.fill.getD [32]) = true) :
    validUtf8 (applyFmt g v (some o) exact) = true := by
  have hr := render_valid g hp hb v (some o) hv
  simp only [applyFmt, pad]
  split
  · exact valid_append (valid_append (valid_replicate _ hf) hr) (valid_replicate _ hf)
  · exact hr

end KotoVerif.FmtSpec
