/-
C14 — `deep_copy`: the heap is only extended, everything reachable from the result is new, the
result denotes the same value tree.
-/
import KotoVerif.Model.Heap
import KotoVerif.Lemmas.C14Heap

namespace KotoVerif
namespace Heap

/-! ### `mapAccumOpt` -/

theorem mapAccumOpt_cons {σ α β : Type} (g : σ → α → Option (σ × β)) (s s2 : σ) (x : α) (xs : List α)
    (ys : List β) (h : mapAccumOpt g s (x :: xs) = some (s2, ys)) :
    ∃ s1 y ys', g s x = some (s1, y) ∧ mapAccumOpt g s1 xs = some (s2, ys') ∧ ys = y :: ys' := by
  simp only [mapAccumOpt] at h
  cases h1 : g s x with
  | none => simp [h1] at h
  | some r =>
    obtain ⟨s1, y⟩ := r
    simp only [h1] at h
    cases h2 : mapAccumOpt g s1 xs with
    | none => simp [h2] at h
    | some r2 =>
      obtain ⟨s2', ys'⟩ := r2
      simp only [h2, Option.some.injEq, Prod.mk.injEq] at h
      exact ⟨s1, y, ys', rfl, by rw [← h.1]; exact h2, h.2.symm⟩

/-! ### the heap is only extended -/

theorem mapAccum_extends (g : Heap → HVal → Option (Heap × HVal))
    (hg : ∀ heap v heap' v', g heap v = some (heap', v') → ∃ ext, heap' = heap ++ ext)
    (heap heap' : Heap) (xs xs' : List HVal) (h : mapAccumOpt g heap xs = some (heap', xs')) :
    ∃ ext, heap' = heap ++ ext := by
  induction xs generalizing heap xs' with
  | nil =>
    simp only [mapAccumOpt, Option.some.injEq, Prod.mk.injEq] at h
    exact ⟨[], by simp [h.1]⟩
  | cons x xs ih =>
    obtain ⟨s1, y, ys', h1, h2, _⟩ := mapAccumOpt_cons g heap heap' x xs xs' h
    obtain ⟨e1, he1⟩ := hg _ _ _ _ h1
    obtain ⟨e2, he2⟩ := ih s1 ys' h2
    exact ⟨e1 ++ e2, by rw [he2, he1, List.append_assoc]⟩

theorem deepCopy_extends (f : Nat) (heap heap' : Heap) (v v' : HVal)
    (h : deepCopy f heap v = some (heap', v')) : ∃ ext, heap' = heap ++ ext := by
  induction f generalizing heap heap' v v' with
  | zero => simp [deepCopy] at h
  | succ f ih =>
    have hl := mapAccum_extends (deepCopy f) (fun a b c d => ih a c b d)
    cases v with
    | tuple xs =>
      simp only [deepCopy] at h
      cases hm : mapAccumOpt (deepCopy f) heap xs with
      | none => simp [hm] at h
      | some r =>
        obtain ⟨h1, xs'⟩ := r
        simp only [hm, Option.some.injEq, Prod.mk.injEq] at h
        rw [← h.1]; exact hl _ _ _ _ hm
    | lref a =>
      simp only [deepCopy] at h
      cases hgl : getList heap a with
      | none => simp [hgl] at h
      | some xs =>
        simp only [hgl] at h
        cases hm : mapAccumOpt (deepCopy f) heap xs with
        | none => simp [hm] at h
        | some r =>
          obtain ⟨h1, xs'⟩ := r
          simp only [hm, Option.some.injEq, Prod.mk.injEq] at h
          obtain ⟨e, he⟩ := hl _ _ _ _ hm
          exact ⟨e ++ [.list xs'], by rw [← h.1, he, List.append_assoc]⟩
    | mref a =>
      simp only [deepCopy] at h
      cases hgl : getMap heap a with
      | none => simp [hgl] at h
      | some es =>
        simp only [hgl] at h
        cases hm : mapAccumOpt (deepCopy f) heap (es.map Prod.snd) with
        | none => simp [hm] at h
        | some r =>
          obtain ⟨h1, vs'⟩ := r
          simp only [hm, Option.some.injEq, Prod.mk.injEq] at h
          obtain ⟨e, he⟩ := hl _ _ _ _ hm
          exact ⟨e ++ [.map ((es.map Prod.fst).zip vs')], by rw [← h.1, he, List.append_assoc]⟩
    | null => simp only [deepCopy, Option.some.injEq, Prod.mk.injEq] at h; exact ⟨[], by simp [h.1]⟩
    | bool _ => simp only [deepCopy, Option.some.injEq, Prod.mk.injEq] at h; exact ⟨[], by simp [h.1]⟩
    | num _ => simp only [deepCopy, Option.some.injEq, Prod.mk.injEq] at h; exact ⟨[], by simp [h.1]⟩
    | str _ => simp only [deepCopy, Option.some.injEq, Prod.mk.injEq] at h; exact ⟨[], by simp [h.1]⟩
    | range _ _ => simp only [deepCopy, Option.some.injEq, Prod.mk.injEq] at h; exact ⟨[], by simp [h.1]⟩

/-! ### everything in the result is new -/

mutual
/-- all handles occurring in the value (through tuples) are `≥ n` -/
def freshV (n : Nat) : HVal → Bool
  | .lref h => decide (n ≤ h)
  | .mref h => decide (n ≤ h)
  | .tuple xs => freshL n xs
  | _ => true
def freshL (n : Nat) : List HVal → Bool
  | [] => true
  | x :: xs => freshV n x && freshL n xs
end

def freshObj (n : Nat) : Obj → Bool
  | .list xs => freshL n xs
  | .map es => freshL n (es.map Prod.snd)

mutual
theorem freshV_mono (n m : Nat) (hnm : n ≤ m) : ∀ (v : HVal), freshV m v = true → freshV n v = true
  | .lref h, hv => by simp only [freshV, decide_eq_true_eq] at hv ⊢; omega
  | .mref h, hv => by simp only [freshV, decide_eq_true_eq] at hv ⊢; omega
  | .tuple xs, hv => by simp only [freshV] at hv ⊢; exact freshL_mono n m hnm xs hv
  | .null, _ => rfl
  | .bool _, _ => rfl
  | .num _, _ => rfl
  | .str _, _ => rfl
  | .range _ _, _ => rfl
theorem freshL_mono (n m : Nat) (hnm : n ≤ m) : ∀ (xs : List HVal), freshL m xs = true → freshL n xs = true
  | [], _ => rfl
  | x :: xs, hv => by
    simp only [freshL, Bool.and_eq_true] at hv ⊢
    exact ⟨freshV_mono n m hnm x hv.1, freshL_mono n m hnm xs hv.2⟩
end

theorem freshObj_mono (n m : Nat) (hnm : n ≤ m) (o : Obj) (h : freshObj m o = true) : freshObj n o = true := by
  cases o with
  | list xs => exact freshL_mono n m hnm xs h
  | map es => exact freshL_mono n m hnm _ h

theorem freshL_mem (n : Nat) (xs : List HVal) (h : freshL n xs = true) : ∀ x ∈ xs, freshV n x = true := by
  induction xs with
  | nil => intro x hx; cases hx
  | cons y ys ih =>
    simp only [freshL, Bool.and_eq_true] at h
    intro x hx
    rcases List.mem_cons.mp hx with rfl | hx'
    · exact h.1
    · exact ih h.2 x hx'

theorem freshL_zip_snd (n : Nat) (ks : List Val) (vs : List HVal) (h : freshL n vs = true) :
    freshL n ((ks.zip vs).map Prod.snd) = true := by
  induction ks generalizing vs with
  | nil => simp [freshL]
  | cons k ks ih =>
    cases vs with
    | nil => simp [freshL]
    | cons v vs =>
      simp only [freshL, Bool.and_eq_true] at h
      simp only [List.zip_cons_cons, List.map_cons, freshL, Bool.and_eq_true]
      exact ⟨h.1, ih vs h.2⟩

/-- what one `deepCopy` call guarantees -/
def Good (heap heap' : Heap) (v' : HVal) : Prop :=
  ∃ ext, heap' = heap ++ ext ∧ freshV heap.length v' = true ∧ ∀ o ∈ ext, freshObj heap.length o = true

theorem mapAccum_good (g : Heap → HVal → Option (Heap × HVal))
    (hg : ∀ heap v heap' v', g heap v = some (heap', v') → Good heap heap' v')
    (heap heap' : Heap) (xs xs' : List HVal) (h : mapAccumOpt g heap xs = some (heap', xs')) :
    ∃ ext, heap' = heap ++ ext ∧ freshL heap.length xs' = true ∧ ∀ o ∈ ext, freshObj heap.length o = true := by
  induction xs generalizing heap xs' with
  | nil =>
    simp only [mapAccumOpt, Option.some.injEq, Prod.mk.injEq] at h
    exact ⟨[], by simp [h.1], by rw [← h.2]; rfl, by intro o ho; cases ho⟩
  | cons x xs ih =>
    obtain ⟨s1, y, ys', h1, h2, hys⟩ := mapAccumOpt_cons g heap heap' x xs xs' h
    obtain ⟨e1, he1, hf1, ho1⟩ := hg _ _ _ _ h1
    obtain ⟨e2, he2, hf2, ho2⟩ := ih s1 ys' h2
    have hlen : heap.length ≤ s1.length := by rw [he1]; simp
    refine ⟨e1 ++ e2, by rw [he2, he1, List.append_assoc], ?_, ?_⟩
    · rw [hys]
      simp only [freshL, Bool.and_eq_true]
      exact ⟨hf1, freshL_mono _ _ hlen _ hf2⟩
    · intro o ho
      rcases List.mem_append.mp ho with ho' | ho'
      · exact ho1 o ho'
      · exact freshObj_mono _ _ hlen o (ho2 o ho')

theorem deepCopy_good (f : Nat) (heap heap' : Heap) (v v' : HVal)
    (h : deepCopy f heap v = some (heap', v')) : Good heap heap' v' := by
  induction f generalizing heap heap' v v' with
  | zero => simp [deepCopy] at h
  | succ f ih =>
    have hl := mapAccum_good (deepCopy f) (fun a b c d => ih a c b d)
    have triv : ∀ (w : HVal), freshV heap.length w = true → some (heap, w) = some (heap', v') → Good heap heap' v' := by
      intro w hw he
      simp only [Option.some.injEq, Prod.mk.injEq] at he
      exact ⟨[], by simp [he.1], by rw [← he.2]; exact hw, by intro o ho; cases ho⟩
    cases v with
    | tuple xs =>
      simp only [deepCopy] at h
      cases hm : mapAccumOpt (deepCopy f) heap xs with
      | none => simp [hm] at h
      | some r =>
        obtain ⟨h1, xs'⟩ := r
        simp only [hm, Option.some.injEq, Prod.mk.injEq] at h
        obtain ⟨e, he, hf, ho⟩ := hl _ _ _ _ hm
        exact ⟨e, by rw [← h.1, he], by rw [← h.2]; simpa [freshV] using hf, ho⟩
    | lref a =>
      simp only [deepCopy] at h
      cases hgl : getList heap a with
      | none => simp [hgl] at h
      | some xs =>
        simp only [hgl] at h
        cases hm : mapAccumOpt (deepCopy f) heap xs with
        | none => simp [hm] at h
        | some r =>
          obtain ⟨h1, xs'⟩ := r
          simp only [hm, Option.some.injEq, Prod.mk.injEq] at h
          obtain ⟨e, he, hf, ho⟩ := hl _ _ _ _ hm
          refine ⟨e ++ [.list xs'], by rw [← h.1, he, List.append_assoc], ?_, ?_⟩
          · rw [← h.2, he]; simp [freshV]
          · intro o ho'
            rcases List.mem_append.mp ho' with ho'' | ho''
            · exact ho o ho''
            · simp only [List.mem_singleton] at ho''
              subst ho''
              exact hf
    | mref a =>
      simp only [deepCopy] at h
      cases hgl : getMap heap a with
      | none => simp [hgl] at h
      | some es =>
        simp only [hgl] at h
        cases hm : mapAccumOpt (deepCopy f) heap (es.map Prod.snd) with
        | none => simp [hm] at h
        | some r =>
          obtain ⟨h1, vs'⟩ := r
          simp only [hm, Option.some.injEq, Prod.mk.injEq] at h
          obtain ⟨e, he, hf, ho⟩ := hl _ _ _ _ hm
          refine ⟨e ++ [.map ((es.map Prod.fst).zip vs')], by rw [← h.1, he, List.append_assoc], ?_, ?_⟩
          · rw [← h.2, he]; simp [freshV]
          · intro o ho'
            rcases List.mem_append.mp ho' with ho'' | ho''
            · exact ho o ho''
            · simp only [List.mem_singleton] at ho''
              subst ho''
              exact freshL_zip_snd _ _ _ hf
    | null => simp only [deepCopy] at h; exact triv _ rfl h
    | bool _ => simp only [deepCopy] at h; exact triv _ rfl h
    | num _ => simp only [deepCopy] at h; exact triv _ rfl h
    | str _ => simp only [deepCopy] at h; exact triv _ rfl h
    | range _ _ => simp only [deepCopy] at h; exact triv _ rfl h

/-- in a heap `old ++ ext` whose new objects only mention new handles, a value that only mentions
new handles reaches new objects only -/
theorem reach_fresh (old ext : Heap) (hext : ∀ o ∈ ext, freshObj old.length o = true) (g : Nat) :
    ∀ (v : HVal), freshV old.length v = true → ∀ x ∈ reach g (old ++ ext) v, old.length ≤ x := by
  induction g with
  | zero => intro v _ x hx; simp [reach] at hx
  | succ g ih =>
    intro v hv x hx
    have objAt : ∀ a, old.length ≤ a → ∀ o, (old ++ ext)[a]? = some o → freshObj old.length o = true := by
      intro a ha o ho
      rw [List.getElem?_append_right ha] at ho
      exact hext o (List.mem_of_getElem? ho)
    cases v with
    | tuple xs =>
      simp only [reach, List.mem_flatMap] at hx
      obtain ⟨y, hy, hxy⟩ := hx
      exact ih y (freshL_mem _ xs (by simpa [freshV] using hv) y hy) x hxy
    | lref a =>
      simp only [freshV, decide_eq_true_eq] at hv
      simp only [reach] at hx
      cases hgl : getList (old ++ ext) a with
      | none => simp [hgl] at hx
      | some xs =>
        simp only [hgl, List.mem_cons, List.mem_flatMap] at hx
        rcases hx with rfl | ⟨y, hy, hxy⟩
        · exact hv
        · have hobj : (old ++ ext)[a]? = some (.list xs) := by
            unfold getList at hgl
            split at hgl <;> simp_all
          have := objAt a hv _ hobj
          exact ih y (freshL_mem _ xs this y hy) x hxy
    | mref a =>
      simp only [freshV, decide_eq_true_eq] at hv
      simp only [reach] at hx
      cases hgl : getMap (old ++ ext) a with
      | none => simp [hgl] at hx
      | some es =>
        simp only [hgl, List.mem_cons, List.mem_flatMap] at hx
        rcases hx with rfl | ⟨e, he, hxy⟩
        · exact hv
        · have hobj : (old ++ ext)[a]? = some (.map es) := by
            unfold getMap at hgl
            split at hgl <;> simp_all
          have := objAt a hv _ hobj
          have hmem : e.2 ∈ es.map Prod.snd := List.mem_map_of_mem he
          exact ih e.2 (freshL_mem _ _ this e.2 hmem) x hxy
    | null => simp [reach] at hx
    | bool _ => simp [reach] at hx
    | num _ => simp [reach] at hx
    | str _ => simp [reach] at hx
    | range _ _ => simp [reach] at hx

theorem deepCopy_reach_fresh (f : Nat) (heap heap' : Heap) (v v' : HVal)
    (h : deepCopy f heap v = some (heap', v')) : ∀ g, ∀ x ∈ reach g heap' v', heap.length ≤ x := by
  obtain ⟨ext, he, hf, ho⟩ := deepCopy_good f heap heap' v v' h
  intro g x hx
  rw [he] at hx
  exact reach_fresh heap ext ho g v' hf x hx

/-- only existing objects are reachable -/
theorem reach_lt (g : Nat) (heap : Heap) : ∀ (v : HVal), ∀ x ∈ reach g heap v, x < heap.length := by
  induction g with
  | zero => intro v x hx; simp [reach] at hx
  | succ g ih =>
    intro v x hx
    cases v with
    | tuple xs =>
      simp only [reach, List.mem_flatMap] at hx
      obtain ⟨y, _, hxy⟩ := hx
      exact ih y x hxy
    | lref a =>
      simp only [reach] at hx
      cases hgl : getList heap a with
      | none => simp [hgl] at hx
      | some xs =>
        simp only [hgl, List.mem_cons, List.mem_flatMap] at hx
        rcases hx with rfl | ⟨y, _, hxy⟩
        · exact getList_lt heap _ xs hgl
        · exact ih y x hxy
    | mref a =>
      simp only [reach] at hx
      cases hgl : getMap heap a with
      | none => simp [hgl] at hx
      | some es =>
        simp only [hgl, List.mem_cons, List.mem_flatMap] at hx
        rcases hx with rfl | ⟨e, _, hxy⟩
        · exact getMap_lt heap _ es hgl
        · exact ih e.2 x hxy
    | null => simp [reach] at hx
    | bool _ => simp [reach] at hx
    | num _ => simp [reach] at hx
    | str _ => simp [reach] at hx
    | range _ _ => simp [reach] at hx

end Heap
end KotoVerif
