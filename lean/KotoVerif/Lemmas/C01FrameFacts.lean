/-
C01 layer 5: what `compile` does to the compile-time frame (`compile_frame`): temporaries are
handed out and returned LIFO, the output register has the shape the result mode prescribes,
committed locals keep their registers, and the frame stays well-formed.
-/
import KotoVerif.Lemmas.C01Static

namespace KotoVerif.Compile

/-- `F'` extends `F`: same temporary base, every named / committed local keeps its register -/
structure FrameLe (F F' : Frame) : Prop where
  tb : F'.tb = F.tb
  has : ∀ k y, Has F k y → Has F' k y
  named : ∀ k y, Named F k y → Named F' k y

theorem FrameLe.refl (F : Frame) : FrameLe F F := ⟨rfl, fun _ _ h => h, fun _ _ h => h⟩

theorem FrameLe.trans {A B C : Frame} (h1 : FrameLe A B) (h2 : FrameLe B C) : FrameLe A C :=
  ⟨by rw [h2.tb, h1.tb], fun k y h => h2.has k y (h1.has k y h), fun k y h => h2.named k y (h1.named k y h)⟩

theorem FrameLe.of_locals_eq {F F' : Frame} (h1 : F'.locals = F.locals) (h2 : F'.tb = F.tb) : FrameLe F F' :=
  ⟨h2, fun k y h => by simpa [Has, h1] using h, fun k y h => by simpa [Named, h1] using h⟩

def tempCount (o : Out) : Nat := bcount o.temp

/-- the shape of the output register for each result mode -/
def OutShape (m : Mode) (e : Expr) (F : Frame) (out : Out) (F' : Frame) : Prop :=
  match m with
  | .fixed r => out = ⟨some r, false⟩
  | .none => out = ⟨Option.none, false⟩
  | .any => out = ⟨some (F.tb + F.tc), true⟩ ∨
      (out.temp = false ∧ ∃ y r, outLocal e = some y ∧ out.reg = some r ∧ Has F' r y)

/-- frame facts of one `compile` call -/
structure FF (m : Mode) (e : Expr) (F : Frame) (out : Out) (F' : Frame) : Prop where
  le : FrameLe F F'
  tc : F'.tc = F.tc + tempCount out
  wf : WF F'
  shape : OutShape m e F out F'

theorem assignResult_spec {m : Mode} {F F1 : Frame} {res : Out} (h : assignResult m F = some (res, F1)) :
    F1.locals = F.locals ∧ F1.tb = F.tb ∧ F1.tc = F.tc + tempCount res ∧
    (match m with
     | .fixed r => res = ⟨some r, false⟩
     | .none => res = ⟨Option.none, false⟩
     | .any => res = ⟨some (F.tb + F.tc), true⟩) := by
  unfold assignResult at h
  cases m with
  | fixed r => simp at h; obtain ⟨rfl, rfl⟩ := h; simp [tempCount]
  | none => simp at h; obtain ⟨rfl, rfl⟩ := h; simp [tempCount]
  | any =>
    simp only [Option.map_eq_some_iff, Prod.exists] at h
    obtain ⟨r, F2, hp, h⟩ := h
    simp only [Prod.mk.injEq] at h
    obtain ⟨rfl, rfl⟩ := h
    obtain ⟨h1, h2, h3, h4⟩ := pushReg_spec hp
    simp [tempCount, h1, h2, h3, h4]

theorem assignResult_shape {m : Mode} {e : Expr} {F F1 F' : Frame} {res : Out}
    (h : assignResult m F = some (res, F1)) : OutShape m e F res F' := by
  have := (assignResult_spec h).2.2.2
  unfold OutShape
  cases m <;> simp_all

theorem resultOrTemp_spec {res : Out} {F1 F2 : Frame} {reg : Reg} (h : resultOrTemp res F1 = some (reg, F2)) :
    F2.locals = F1.locals ∧ F2.tb = F1.tb ∧
    ((res.reg = some reg ∧ F2.tc = F1.tc) ∨ (res.reg = Option.none ∧ reg = F1.tb + F1.tc ∧ F2.tc = F1.tc + 1)) := by
  unfold resultOrTemp at h
  cases hr : res.reg with
  | some r => simp [hr] at h; obtain ⟨rfl, rfl⟩ := h; simp
  | none =>
    simp only [hr] at h
    obtain ⟨h1, h2, h3, h4⟩ := pushReg_spec h
    simp [h1, h2, h3, h4]

theorem compile_frame : ∀ (e : Expr) (m : Mode) (F : Frame) (code : Code) (out : Out) (F' : Frame),
    compile e m F = some (code, out, F') → WF F → FF m e F out F' := by
  intro e
  induction e with
  | null | bool _ | int _ =>
    intro m F code out F' h hw
    simp only [compile, bind, Option.bind_eq_some_iff, Prod.exists, pure, Option.some.injEq, Prod.mk.injEq] at h
    obtain ⟨res, F1, ha, _, rfl, rfl⟩ := h
    obtain ⟨h1, h2, h3, _⟩ := assignResult_spec ha
    exact ⟨FrameLe.of_locals_eq h1 h2, h3, hw.of_locals_eq h1 h2, assignResult_shape ha⟩
  | var x =>
    intro m F code out F' h hw
    simp only [compile] at h
    cases hg : F.getAssigned x with
    | none => simp [hg] at h
    | some rx =>
      simp only [hg] at h
      cases m with
      | none => simp at h; obtain ⟨_, rfl, rfl⟩ := h; exact ⟨FrameLe.refl _, by simp [tempCount], hw, rfl⟩
      | fixed r => simp at h; obtain ⟨_, rfl, rfl⟩ := h; exact ⟨FrameLe.refl _, by simp [tempCount], hw, rfl⟩
      | any =>
        simp at h; obtain ⟨_, rfl, rfl⟩ := h
        exact ⟨FrameLe.refl _, by simp [tempCount], hw,
          Or.inr ⟨rfl, x, rx, rfl, rfl, getAssigned_has hg⟩⟩
  | un op e ih =>
    intro m F code out F' h hw
    simp only [compile, bind, Option.bind_eq_some_iff, Prod.exists, pure, Option.some.injEq, Prod.mk.injEq] at h
    obtain ⟨res, F1, ha, c, o, F2, hc, vr, _, F3, hp, _, rfl, rfl⟩ := h
    obtain ⟨h1, h2, h3, _⟩ := assignResult_spec ha
    have hw1 := hw.of_locals_eq h1 h2
    have ff := ih .any F1 c o F2 hc hw1
    obtain ⟨p1, p2, p3⟩ := popIf_spec hp
    refine ⟨(FrameLe.of_locals_eq h1 h2).trans (ff.le.trans (FrameLe.of_locals_eq p1 p2)), ?_,
      ff.wf.of_locals_eq p1 p2, assignResult_shape ha⟩
    have := ff.tc
    simp only [tempCount] at *
    omega
  | bin op a b iha ihb =>
    intro m F code out F' h hw
    simp only [compile, bind, Option.bind_eq_some_iff, Prod.exists] at h
    obtain ⟨res, F1, ha, h⟩ := h
    obtain ⟨h1, h2, h3, _⟩ := assignResult_spec ha
    have hw1 := hw.of_locals_eq h1 h2
    cases hr : res.reg with
    | some r =>
      simp only [hr, Option.bind_eq_some_iff, Prod.exists, pure, Option.some.injEq, Prod.mk.injEq] at h
      obtain ⟨ca, oa, F2, hca, ra, _, cb, ob, F3, hcb, rb, _, F4, hp1, F5, hp2, _, rfl, rfl⟩ := h
      have ffa := iha .any F1 ca oa F2 hca hw1
      have ffb := ihb .any F2 cb ob F3 hcb ffa.wf
      obtain ⟨p1, p2, p3⟩ := popIf_spec hp1
      obtain ⟨q1, q2, q3⟩ := popIf_spec hp2
      refine ⟨(FrameLe.of_locals_eq h1 h2).trans (ffa.le.trans (ffb.le.trans
        ((FrameLe.of_locals_eq p1 p2).trans (FrameLe.of_locals_eq q1 q2)))), ?_,
        (ffb.wf.of_locals_eq p1 p2).of_locals_eq q1 q2, assignResult_shape ha⟩
      have := ffa.tc; have := ffb.tc
      simp only [tempCount] at *
      omega
    | none =>
      simp only [hr, Option.bind_eq_some_iff, Prod.exists, pure, Option.some.injEq, Prod.mk.injEq] at h
      obtain ⟨ca, oa, F2, hca, cb, ob, F3, hcb, _, rfl, rfl⟩ := h
      have ffa := iha .none F1 ca oa F2 hca hw1
      have ffb := ihb .none F2 cb ob F3 hcb ffa.wf
      have sa : oa = ⟨Option.none, false⟩ := ffa.shape
      have sb : ob = ⟨Option.none, false⟩ := ffb.shape
      refine ⟨(FrameLe.of_locals_eq h1 h2).trans (ffa.le.trans ffb.le), ?_, ffb.wf, assignResult_shape ha⟩
      have := ffa.tc; have := ffb.tc
      subst sa sb
      simp only [tempCount, bcount_false] at *
      omega
  | cmp op a b iha ihb =>
    intro m F code out F' h hw
    simp only [compile, bind, Option.bind_eq_some_iff, Prod.exists, pure, Option.some.injEq, Prod.mk.injEq] at h
    obtain ⟨res, F1, ha, r0, F1', hrt, ca, oa, F2, hca, ra, _, cb, ob, F3, hcb, rb, _, _, rfl, rfl⟩ := h
    obtain ⟨h1, h2, h3, _⟩ := assignResult_spec ha
    have hw1 := hw.of_locals_eq h1 h2
    obtain ⟨t1, t2, _⟩ := resultOrTemp_spec hrt
    have hw1' := hw1.of_locals_eq t1 t2
    have ffa := iha .any F1' ca oa F2 hca hw1'
    have ffb := ihb .any F2 cb ob F3 hcb ffa.wf
    refine ⟨(FrameLe.of_locals_eq h1 h2).trans ((FrameLe.of_locals_eq t1 t2).trans (ffa.le.trans (ffb.le.trans
      (FrameLe.of_locals_eq rfl rfl)))), h3, ffb.wf.of_locals_eq rfl rfl, assignResult_shape ha⟩
  | chain3 op1 op2 a b c iha ihb ihc =>
    intro m F code out F' h hw
    simp only [compile, bind, Option.bind_eq_some_iff, Prod.exists, pure, Option.some.injEq, Prod.mk.injEq] at h
    obtain ⟨res, F1, ha, r0, F1', hrt, ca, oa, F2, hca, ra, _, cb, ob, F3, hcb, rb, _, cc, oc, F4, hcc, rc, _, _, rfl, rfl⟩ := h
    obtain ⟨h1, h2, h3, _⟩ := assignResult_spec ha
    have hw1 := hw.of_locals_eq h1 h2
    obtain ⟨t1, t2, _⟩ := resultOrTemp_spec hrt
    have hw1' := hw1.of_locals_eq t1 t2
    have ffa := iha .any F1' ca oa F2 hca hw1'
    have ffb := ihb .any F2 cb ob F3 hcb ffa.wf
    have ffc := ihc .any F3 cc oc F4 hcc ffb.wf
    refine ⟨(FrameLe.of_locals_eq h1 h2).trans ((FrameLe.of_locals_eq t1 t2).trans (ffa.le.trans (ffb.le.trans
      (ffc.le.trans (FrameLe.of_locals_eq rfl rfl))))), h3, ffc.wf.of_locals_eq rfl rfl, assignResult_shape ha⟩
  | and a b iha ihb | or a b iha ihb =>
    intro m F code out F' h hw
    simp only [compile, bind, Option.bind_eq_some_iff, Prod.exists, pure, Option.some.injEq, Prod.mk.injEq] at h
    obtain ⟨res, F1, ha, reg, F2, hrt, ca, oa, F3, hca, cb, ob, F4, hcb, F5, hp, _, rfl, rfl⟩ := h
    obtain ⟨h1, h2, h3, _⟩ := assignResult_spec ha
    have hw1 := hw.of_locals_eq h1 h2
    obtain ⟨t1, t2, t3⟩ := resultOrTemp_spec hrt
    have hw2 := hw1.of_locals_eq t1 t2
    have ffa := iha (.fixed reg) F2 ca oa F3 hca hw2
    have ffb := ihb (.fixed reg) F3 cb ob F4 hcb ffa.wf
    have sa : oa = ⟨some reg, false⟩ := ffa.shape
    have sb : ob = ⟨some reg, false⟩ := ffb.shape
    obtain ⟨p1, p2, p3⟩ := popIf_spec hp
    refine ⟨(FrameLe.of_locals_eq h1 h2).trans ((FrameLe.of_locals_eq t1 t2).trans (ffa.le.trans (ffb.le.trans
      (FrameLe.of_locals_eq p1 p2)))), ?_, ffb.wf.of_locals_eq p1 p2, assignResult_shape ha⟩
    have := ffa.tc; have := ffb.tc
    subst sa sb
    simp only [tempCount, bcount_false] at *
    rcases t3 with ⟨t3, t4⟩ | ⟨t3, _, t4⟩
    · simp only [t3, Option.isNone_some, bcount_false] at p3; omega
    · simp only [t3, Option.isNone_none, bcount_true] at p3
      have : res.temp = false := by
        have := (assignResult_spec ha).2.2.2
        cases m <;> simp_all
      simp only [this, bcount_false] at *
      omega
  | assign x e ih =>
    intro m F code out F' h hw
    simp only [compile, bind, Option.bind_eq_some_iff, Prod.exists, pure, Option.some.injEq, Prod.mk.injEq] at h
    obtain ⟨rx, F1, hres, c, o, F2, hc, vr, hvr, F3, hcm, _, hout, rfl⟩ := h
    obtain ⟨r1, r2, r3, r4, r5, r6⟩ := reserve_spec hw hres
    have ff := ih (.fixed rx) F1 c o F2 hc r2
    have so : o = ⟨some rx, false⟩ := ff.shape
    subst so
    simp only [Option.some.injEq] at hvr
    subst hvr
    simp only [commitIf, Bool.false_eq_true, if_false] at hcm
    obtain ⟨c1, c2, c3, c4, c5, c6, _⟩ := commit_spec ff.wf (ff.le.named _ _ r1) hcm
    have le1 : FrameLe F F1 := ⟨r3, fun k y hk => r5 k _ hk, fun k y hk => by
      unfold Named at hk ⊢
      cases hs : F.locals[k]? with
      | none => simp [hs] at hk
      | some s => rw [r5 k s hs]; simpa [hs] using hk⟩
    have le3 : FrameLe F2 F3 := ⟨c3, c5, c6⟩
    refine ⟨le1.trans (ff.le.trans le3), ?_, c2, ?_⟩
    · have := ff.tc
      rw [← hout]
      cases m <;> simp [assignOut, tempCount] at * <;> omega
    · rw [← hout]
      unfold OutShape
      cases m with
      | fixed r => simp [assignOut]
      | none => simp [assignOut]
      | any => exact Or.inr ⟨rfl, x, rx, rfl, rfl, c1⟩
  | compound op x e ih =>
    intro m F code out F' h hw
    simp only [compile, bind, Option.bind_eq_some_iff, Prod.exists, pure, Option.some.injEq, Prod.mk.injEq] at h
    obtain ⟨res, F1, ha, cr, orr, F2, hc, rr, _, rl, _, F5, hp, _, rfl, rfl⟩ := h
    obtain ⟨h1, h2, h3, _⟩ := assignResult_spec ha
    have hw1 := hw.of_locals_eq h1 h2
    have ff := ih .any F1 cr orr F2 hc hw1
    obtain ⟨p1, p2, p3⟩ := popIf_spec hp
    refine ⟨(FrameLe.of_locals_eq h1 h2).trans (ff.le.trans (FrameLe.of_locals_eq p1 p2)), ?_,
      ff.wf.of_locals_eq p1 p2, assignResult_shape ha⟩
    have := ff.tc
    simp only [tempCount] at *
    omega
  | seq a b iha ihb =>
    intro m F code out F' h hw
    simp only [compile, bind, Option.bind_eq_some_iff, Prod.exists, pure, Option.some.injEq, Prod.mk.injEq] at h
    obtain ⟨ca, oa, F1, hca, cb, o, F2, hcb, _, rfl, rfl⟩ := h
    have ffa := iha .none F ca oa F1 hca hw
    have ffb := ihb m F1 cb o F2 hcb ffa.wf
    have sa : oa = ⟨Option.none, false⟩ := ffa.shape
    have ta : F1.tc = F.tc := by have := ffa.tc; simp [tempCount, sa] at this; exact this
    refine ⟨ffa.le.trans ffb.le, by rw [ffb.tc, ta], ffb.wf, ?_⟩
    have := ffb.shape
    unfold OutShape at this ⊢
    cases m with
    | fixed r => exact this
    | none => exact this
    | any =>
      rcases this with h | ⟨h1, y, r, h2, h3, h4⟩
      · left; rw [h, ffa.le.tb, ta]
      · right; exact ⟨h1, y, r, by simpa [outLocal] using h2, h3, h4⟩
  | ite c t e ihc iht ihe =>
    intro m F code out F' h hw
    simp only [compile, bind, Option.bind_eq_some_iff, Prod.exists, pure, Option.some.injEq, Prod.mk.injEq] at h
    obtain ⟨res, F1, ha, cc, oc, F2, hcc, rc, _, F3, hp, ct, ot, F4, hct, ce, oe, F5, hce, _, rfl, rfl⟩ := h
    obtain ⟨h1, h2, h3, _⟩ := assignResult_spec ha
    have hw1 := hw.of_locals_eq h1 h2
    have ffc := ihc .any F1 cc oc F2 hcc hw1
    obtain ⟨p1, p2, p3⟩ := popIf_spec hp
    have hw3 := ffc.wf.of_locals_eq p1 p2
    have fft := iht (branchMode res.reg) F3 ct ot F4 hct hw3
    have ffe := ihe (branchMode res.reg) F4 ce oe F5 hce fft.wf
    have st : bcount ot.temp = 0 := by
      have := fft.shape
      cases hr : res.reg <;> simp [branchMode, hr, OutShape] at this <;> simp [this]
    have se : bcount oe.temp = 0 := by
      have := ffe.shape
      cases hr : res.reg <;> simp [branchMode, hr, OutShape] at this <;> simp [this]
    refine ⟨(FrameLe.of_locals_eq h1 h2).trans (ffc.le.trans ((FrameLe.of_locals_eq p1 p2).trans
      (fft.le.trans ffe.le))), ?_, ffe.wf, assignResult_shape ha⟩
    have := ffc.tc; have := fft.tc; have := ffe.tc
    simp only [tempCount] at *
    omega
  | ifThen c t ihc iht =>
    intro m F code out F' h hw
    simp only [compile, bind, Option.bind_eq_some_iff, Prod.exists, pure, Option.some.injEq, Prod.mk.injEq] at h
    obtain ⟨res, F1, ha, cc, oc, F2, hcc, rc, _, F3, hp, ct, ot, F4, hct, _, rfl, rfl⟩ := h
    obtain ⟨h1, h2, h3, _⟩ := assignResult_spec ha
    have hw1 := hw.of_locals_eq h1 h2
    have ffc := ihc .any F1 cc oc F2 hcc hw1
    obtain ⟨p1, p2, p3⟩ := popIf_spec hp
    have hw3 := ffc.wf.of_locals_eq p1 p2
    have fft := iht (branchMode res.reg) F3 ct ot F4 hct hw3
    have st : bcount ot.temp = 0 := by
      have := fft.shape
      cases hr : res.reg <;> simp [branchMode, hr, OutShape] at this <;> simp [this]
    refine ⟨(FrameLe.of_locals_eq h1 h2).trans (ffc.le.trans ((FrameLe.of_locals_eq p1 p2).trans fft.le)),
      ?_, fft.wf, assignResult_shape ha⟩
    have := ffc.tc; have := fft.tc
    simp only [tempCount] at *
    omega

end KotoVerif.Compile
