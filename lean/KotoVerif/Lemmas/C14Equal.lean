/-
C14 — lemmas about `Model/Equal.lean`: float-law hypotheses, number and string trichotomy,
`!=` is the negation of `==`, reflexivity and symmetry of `==`.
-/
import KotoVerif.Model.Equal

namespace KotoVerif
namespace Equal

/-- what the theorems assume about IEEE-754 comparison (checked for the driver's `Float` on the
value pool in every run; never about arithmetic) -/
structure FloatLaws (F : FloatOps) : Prop where
  eq_symm : ∀ a b, F.eq a b = F.eq b a
  eq_refl : ∀ a, F.isNaN a = false → F.eq a a = true
  ofInt_notNaN : ∀ n, F.isNaN (F.ofInt n) = false
  tri : ∀ a b, F.isNaN a = false → F.isNaN b = false →
    (F.lt a b = true ∧ F.eq a b = false ∧ F.lt b a = false) ∨
    (F.lt a b = false ∧ F.eq a b = true ∧ F.lt b a = false) ∨
    (F.lt a b = false ∧ F.eq a b = false ∧ F.lt b a = true)

/-- a toy instance (floats ordered as unsigned bit patterns, ints mapped order-preservingly) showing
that `FloatLaws` is satisfiable; used only for non-vacuity examples -/
def F0 : FloatOps where
  add a b := a + b
  sub a b := a - b
  mul a b := a * b
  div a b := a / b
  rem a b := a % b
  pow a _ := a
  neg a := a
  lt a b := decide (a < b)
  le a b := decide (a ≤ b)
  eq a b := a == b
  ofInt n := n.toUInt64 + 0x8000000000000000
  toInt b := (b - 0x8000000000000000).toInt64
  isNaN _ := false

theorem F0_laws : FloatLaws F0 where
  eq_symm a b := by simp [F0, Bool.beq_comm]
  eq_refl a _ := by simp [F0]
  ofInt_notNaN _ := rfl
  tri a b _ _ := by
    simp only [F0, decide_eq_true_eq, decide_eq_false_iff_not, beq_iff_eq, beq_eq_false_iff_ne, ne_eq]
    rcases Nat.lt_trichotomy a.toNat b.toNat with h | h | h
    · left
      refine ⟨UInt64.lt_iff_toNat_lt.mpr h, ?_, ?_⟩
      · intro e; subst e; omega
      · intro h'; have := UInt64.lt_iff_toNat_lt.mp h'; omega
    · right; left
      have e : a = b := UInt64.toNat_inj.mp h
      subst e
      exact ⟨UInt64.lt_irrefl _, rfl, UInt64.lt_irrefl _⟩
    · right; right
      refine ⟨?_, ?_, UInt64.lt_iff_toNat_lt.mpr h⟩
      · intro h'; have := UInt64.lt_iff_toNat_lt.mp h'; omega
      · intro e; subst e; omega

/-! ### numbers -/

theorem toF_notNaN {F : FloatOps} (hF : FloatLaws F) (a : Num) (h : numIsNaN F a = false) :
    F.isNaN (a.toF F) = false := by
  cases a with
  | i n => exact hF.ofInt_notNaN n
  | f b => exact h

theorem int64_tri (a b : Int64) :
    (decide (a < b) = true ∧ (a == b) = false ∧ decide (b < a) = false) ∨
    (decide (a < b) = false ∧ (a == b) = true ∧ decide (b < a) = false) ∨
    (decide (a < b) = false ∧ (a == b) = false ∧ decide (b < a) = true) := by
  simp only [decide_eq_true_eq, decide_eq_false_iff_not, beq_iff_eq, beq_eq_false_iff_ne, ne_eq,
    Int64.lt_iff_toInt_lt, ← Int64.toInt_inj]
  omega

/-- off NaN exactly one of `a < b`, `a == b`, `b < a` holds for the raw comparisons -/
theorem num_tri_raw {F : FloatOps} (hF : FloatLaws F) (a b : Num)
    (ha : numIsNaN F a = false) (hb : numIsNaN F b = false) :
    (Num.lt F a b = true ∧ Num.eq F a b = false ∧ Num.lt F b a = false) ∨
    (Num.lt F a b = false ∧ Num.eq F a b = true ∧ Num.lt F b a = false) ∨
    (Num.lt F a b = false ∧ Num.eq F a b = false ∧ Num.lt F b a = true) := by
  have ha' := toF_notNaN hF a ha
  have hb' := toF_notNaN hF b hb
  cases a with
  | i x =>
    cases b with
    | i y => simpa [Num.lt, Num.eq] using int64_tri x y
    | f y => simpa [Num.lt, Num.eq, Num.toF] using hF.tri _ _ ha' hb'
  | f x =>
    cases b with
    | i y => simpa [Num.lt, Num.eq, Num.toF] using hF.tri _ _ ha' hb'
    | f y => simpa [Num.lt, Num.eq, Num.toF] using hF.tri _ _ ha' hb'

/-- … and therefore for the operators the VM applies (`Ord for KNumber`) -/
theorem num_trichotomy {F : FloatOps} (hF : FloatLaws F) (a b : Num)
    (ha : numIsNaN F a = false) (hb : numIsNaN F b = false) :
    (numLt F a b = true ∧ Num.eq F a b = false ∧ numLt F b a = false) ∨
    (numLt F a b = false ∧ Num.eq F a b = true ∧ numLt F b a = false) ∨
    (numLt F a b = false ∧ Num.eq F a b = false ∧ numLt F b a = true) := by
  have hsymm : Num.eq F b a = Num.eq F a b := by
    cases a <;> cases b <;> simp [Num.eq, Num.toF, hF.eq_symm, Bool.beq_comm]
  rcases num_tri_raw hF a b ha hb with ⟨h1, h2, h3⟩ | ⟨h1, h2, h3⟩ | ⟨h1, h2, h3⟩ <;>
    simp [numLt, numCmp, h1, h2, h3, hsymm]

theorem num_eq_symm {F : FloatOps} (hF : FloatLaws F) (a b : Num) : Num.eq F a b = Num.eq F b a := by
  cases a <;> cases b <;> simp [Num.eq, Num.toF, hF.eq_symm, Bool.beq_comm]

theorem num_eq_refl {F : FloatOps} (hF : FloatLaws F) (a : Num) (h : numIsNaN F a = false) :
    Num.eq F a a = true := by
  cases a with
  | i n => simp [Num.eq]
  | f b => simpa [Num.eq, Num.toF] using hF.eq_refl b h

/-! ### strings -/

theorem bytes_trichotomy (a b : List Nat) :
    (bytesLt a b = true ∧ a ≠ b ∧ bytesLt b a = false) ∨
    (bytesLt a b = false ∧ a = b ∧ bytesLt b a = false) ∨
    (bytesLt a b = false ∧ a ≠ b ∧ bytesLt b a = true) := by
  induction a generalizing b with
  | nil => cases b <;> simp [bytesLt]
  | cons x xs ih =>
    cases b with
    | nil => simp [bytesLt]
    | cons y ys =>
      rcases Nat.lt_trichotomy x y with h | h | h
      · have h' : ¬ y < x := by omega
        have hne : x ≠ y := by omega
        simp [bytesLt, h, h', hne]
      · subst h
        have := ih ys
        simpa [bytesLt] using this
      · have h' : ¬ x < y := by omega
        have hne : x ≠ y := by omega
        simp [bytesLt, h, h', hne]

theorem bytesLt_asymm (a b : List Nat) (h : bytesLt a b = true) : bytesLt b a = false := by
  rcases bytes_trichotomy a b with ⟨_, _, h3⟩ | ⟨h1, _, _⟩ | ⟨h1, _, _⟩
  · exact h3
  · rw [h1] at h; exact absurd h (by simp)
  · rw [h1] at h; exact absurd h (by simp)

theorem bytesLt_trans (a b c : List Nat) (h1 : bytesLt a b = true) (h2 : bytesLt b c = true) :
    bytesLt a c = true := by
  induction a generalizing b c with
  | nil =>
    cases b with
    | nil => simp [bytesLt] at h1
    | cons y ys =>
      cases c with
      | nil => simp [bytesLt] at h2
      | cons z zs => simp [bytesLt]
  | cons x xs ih =>
    cases b with
    | nil => simp [bytesLt] at h1
    | cons y ys =>
      cases c with
      | nil => simp [bytesLt] at h2
      | cons z zs =>
        simp only [bytesLt] at h1 h2 ⊢
        by_cases hxy : x < y
        · by_cases hyz : y < z
          · have : x < z := by omega
            simp [this]
          · simp only [hyz, if_false] at h2
            by_cases hzy : z < y
            · simp [hzy] at h2
            · have : y = z := by omega
              subst this
              simp [hxy]
        · simp only [hxy, if_false] at h1
          by_cases hyx : y < x
          · simp [hyx] at h1
          · have : x = y := by omega
            subst this
            simp only [hyx, if_false] at h1
            by_cases hyz : x < z
            · simp [hyz]
            · simp only [hyz, if_false] at h2 ⊢
              by_cases hzy : z < x
              · simp [hzy] at h2
              · simp only [hzy, if_false] at h2 ⊢
                exact ih ys zs h1 h2

/-! ### `!=` is the negation of `==` -/

theorem vne_eq_not_veq (F : FloatOps) (mech : Bool) (a b : Val) : vne F mech a b = !veq F mech a b := by
  cases a <;> cases b <;> simp [vne, veq, bne]

/-! ### reflexivity and symmetry of `==` -/

mutual
/-- no NaN anywhere in the value (keys included) -/
def noNaN (F : FloatOps) : Val → Bool
  | .num n => !numIsNaN F n
  | .tuple xs => noNaNList F xs
  | .list xs => noNaNList F xs
  | .map es => noNaNEntries F es
  | _ => true
def noNaNList (F : FloatOps) : List Val → Bool
  | [] => true
  | x :: xs => noNaN F x && noNaNList F xs
def noNaNEntries (F : FloatOps) : List (Val × Val) → Bool
  | [] => true
  | (k, v) :: es => noNaN F k && noNaN F v && noNaNEntries F es
end

mutual
/-- no map anywhere in the value -/
def mapFree : Val → Bool
  | .tuple xs => mapFreeList xs
  | .list xs => mapFreeList xs
  | .map _ => false
  | _ => true
def mapFreeList : List Val → Bool
  | [] => true
  | x :: xs => mapFree x && mapFreeList xs
end

mutual
theorem veq_symm_mapFree {F : FloatOps} (hF : FloatLaws F) (mech : Bool) :
    ∀ (a b : Val), mapFree a = true → veq F mech a b = veq F mech b a
  | .null, b, _ => by cases b <;> simp [veq]
  | .bool x, b, _ => by cases b <;> simp [veq, Bool.beq_comm]
  | .num x, b, _ => by cases b <;> simp [veq, num_eq_symm hF x]
  | .str x, b, _ => by cases b <;> simp [veq, Bool.beq_comm]
  | .range x y, b, _ => by
    cases b <;> simp [veq]
    rename_i c d
    rw [Bool.beq_comm (a := x), Bool.beq_comm (a := y)]
  | .tuple xs, b, h => by
    cases b <;> simp [veq]
    rename_i ys
    exact veqList_symm_mapFree hF mech xs ys (by simpa [mapFree] using h)
  | .list xs, b, h => by
    cases b <;> simp [veq]
    rename_i ys
    exact veqList_symm_mapFree hF mech xs ys (by simpa [mapFree] using h)
  | .map _, _, h => by simp [mapFree] at h
theorem veqList_symm_mapFree {F : FloatOps} (hF : FloatLaws F) (mech : Bool) :
    ∀ (xs ys : List Val), mapFreeList xs = true → veqList F mech xs ys = veqList F mech ys xs
  | [], ys, _ => by cases ys <;> simp [veqList]
  | x :: xs, ys, h => by
    cases ys with
    | nil => simp [veqList]
    | cons y ys =>
      simp only [mapFreeList, Bool.and_eq_true] at h
      simp only [veqList]
      rw [veq_symm_mapFree hF mech x y h.1, veqList_symm_mapFree hF mech xs ys h.2]
end

end Equal
end KotoVerif
