/-
C01 layer 5: `compile_sem`, assignment, compound assignment, blocks, conditionals, and the induction.
-/
import KotoVerif.Lemmas.C01Sem4

namespace KotoVerif.Compile

variable {S : Sem}

/-- after `x` has been (re)assigned: the relation holds again for `x` and for everything that was
related with `x` exempt -/
theorem relEx_after_assign {E : List VarId} {F2 F3 : Frame} {σ1 : Regs S} {ρ1 : Env S} {x : VarId} {rx : Reg}
    {v : S.V} (h : RelEx (x :: E) F2 σ1 ρ1) (hle : FrameLe F2 F3) (hhas : Has F3 rx x) (hv : σ1 rx = v) :
    RelEx E F3 σ1 (ρ1.set x v) := by
  intro y w hy hE
  by_cases hyx : y = x
  · subst hyx
    simp at hy; subst hy
    exact ⟨rx, hhas, hv⟩
  · rw [Env.set_other _ _ hyx] at hy
    obtain ⟨q, h1, h2⟩ := h y w hy (by simp [hyx, hE])
    exact ⟨q, hle.has _ _ h1, h2⟩

theorem sem_assign (x : VarId) (e : Expr) (ih : SemOk S e) : SemOk S (.assign x e) := by
  intro m F code out F' E fx h hw hm hsafe σ ρ ρ' v hrel hev
  have ff := compile_frame _ _ _ _ _ _ h hw
  simp only [compile, bind, Option.bind_eq_some_iff, Prod.exists, pure, Option.some.injEq, Prod.mk.injEq] at h
  obtain ⟨rx, F1, hres, c, o, F2, hc, vr, hvr, F3, hcm, hcode, hout, hF⟩ := h
  subst hF
  obtain ⟨r1, r2, r3, r4, r5, _⟩ := reserve_spec hw hres
  have le01 : FrameLe F F1 := ⟨r3, fun k y hk => r5 k _ hk, fun k y hk => by
    unfold Named at hk ⊢
    cases hs : F.locals[k]? with
    | none => simp [hs] at hk
    | some s => rw [r5 k s hs]; simpa [hs] using hk⟩
  have ffe := compile_frame _ _ _ _ _ _ hc r2
  have so : o = ⟨some rx, false⟩ := ffe.shape
  subst so
  simp only [Option.some.injEq] at hvr
  subst hvr
  simp only [commitIf, Bool.false_eq_true, if_false] at hcm
  obtain ⟨c1, _, c3, c4, c5, c6, _⟩ := commit_spec ffe.wf (ffe.le.named _ _ r1) hcm
  have le23 : FrameLe F2 F3 := ⟨c3, c5, c6⟩
  simp only [eval] at hev
  cases he : eval S e ρ with
  | none => simp [he] at hev
  | some p =>
    obtain ⟨ve, ρ1⟩ := p
    simp only [he, Option.some.injEq, Prod.mk.injEq] at hev
    obtain ⟨rfl, rfl⟩ := hev
    simp only [safe] at hsafe
    obtain ⟨σ1, x1, x2, x3, x4⟩ := ih (.fixed rx) F1 c _ F2 E (some x) hc r2 r1 hsafe σ ρ ρ1 ve (hrel.frame le01) he
    have hv : σ1 rx = ve := x3 rx rfl
    have hrel3 : RelEx E F3 σ1 (ρ1.set x ve) := relEx_after_assign x2 le23 c1 hv
    -- `rx` is a local slot, below every temporary
    have hrx : rx < F.tb := by
      have := r1.lt; have := r2.len; omega
    have hk : ∀ m', (∀ t, Mode.fixed rx = Mode.fixed t → F.tb ≤ t → t < F.tb + F.tc → m' = Mode.fixed t) := by
      intro m' t ht h5 _
      simp only [Mode.fixed.injEq] at ht
      omega
    have k1 : TempsKept m F σ σ1 := (TempsKept.refl m F σ).sub x4 r3 (by omega) (hk m)
    cases m with
    | none =>
      simp only [assignOut] at hcode hout
      subst hcode hout
      have := modeFx_fx_none hm (by intro r; simp)
      subst this
      exact ⟨σ1, x1, hrel3, fun r h => by simp at h, k1⟩
    | any =>
      simp only [assignOut] at hcode hout
      subst hcode hout
      have := modeFx_fx_none hm (by intro r; simp)
      subst this
      refine ⟨σ1, x1, hrel3, ?_, k1⟩
      intro r hr; simp at hr; subst hr; exact hv
    | fixed r =>
      simp only [assignOut] at hcode hout
      subst hout
      by_cases hrr : r = rx
      · subst hrr
        simp only [ne_eq, not_true_eq_false, if_false] at hcode
        subst hcode
        refine ⟨σ1, x1, hrel3.addOpt, ?_, k1⟩
        intro q hq; simp at hq; subst hq; exact hv
      · simp only [ne_eq, hrr, not_false_eq_true, if_true] at hcode
        subst hcode
        refine ⟨σ1.set r (σ1 rx), ?_, ?_, ?_, ?_⟩
        · rw [exec_seq x1]; rfl
        · exact hrel3.setResult ff.le ff.wf hm (Or.inl rfl) _
        · intro q hq; simp at hq; subst hq; simp [hv]
        · exact k1.setResult (Or.inl rfl) _

theorem sem_compound (op : BinOp) (x : VarId) (e : Expr) (ih : SemOk S e) : SemOk S (.compound op x e) := by
  intro m F code out F' E fx h hw hm hsafe σ ρ ρ' v hrel hev
  have ff := compile_frame _ _ _ _ _ _ h hw
  simp only [compile, bind, Option.bind_eq_some_iff, Prod.exists, pure, Option.some.injEq, Prod.mk.injEq] at h
  obtain ⟨res, F1, ha, cr, orr, F2, hc, rr, hrr, rl, hrl, F5, hp, hcode, hout, hF⟩ := h
  subst hcode hout hF
  simp only [safe, Bool.and_eq_true, Bool.not_eq_true', List.contains_eq_mem, decide_eq_false_iff_not] at hsafe
  obtain ⟨⟨hse, hxE⟩, hnw⟩ := hsafe
  simp only [eval] at hev
  cases hx : ρ x with
  | none => simp [hx] at hev
  | some vx =>
    simp only [hx] at hev
    cases he : eval S e ρ with
    | none => simp [he] at hev
    | some p =>
      obtain ⟨vr, ρ1⟩ := p
      simp only [he, Option.map_eq_some_iff, Prod.mk.injEq] at hev
      obtain ⟨w, hop, rfl, rfl⟩ := hev
      obtain ⟨h1, h2, h3, _⟩ := assignResult_spec ha
      have hw1 := hw.of_locals_eq h1 h2
      obtain ⟨σ1, x1, x2, x3, x4⟩ := ih .any F1 cr orr F2 E Option.none hc hw1 trivial hse σ ρ ρ1 vr
        (relEx_of_assignResult ha hrel) he
      have ffe := compile_frame _ _ _ _ _ _ hc hw1
      have hhas := getAssigned_has hrl
      have hx1 : ρ1 x = some vx := by rw [eval_not_writes x e ρ ρ1 vr hnw he]; exact hx
      obtain ⟨q, hq1, hq2⟩ := x2 x vx hx1 hxE
      have := has_unique ffe.wf hq1 hhas
      subst this
      -- the compound instruction updates the local's own register
      have hstep : stepInstr S (.compound op q rr) σ1 = some (σ1.set q w) := by
        simp [stepInstr, hq2, x3 rr hrr, hop]
      have hrel2 : RelEx E F2 (σ1.set q w) (ρ1.set x w) := by
        intro y u hy hE
        by_cases hyx : y = x
        · subst hyx; simp at hy; subst hy; exact ⟨q, hhas, by simp⟩
        · rw [Env.set_other _ _ hyx] at hy
          obtain ⟨q', h1', h2'⟩ := x2 y u hy hE
          refine ⟨q', h1', ?_⟩
          have : q' ≠ q := by
            intro hqq; subst hqq
            exact hyx (named_unique_name h1'.named hhas.named)
          rw [Regs.set_other _ _ this]; exact h2'
      obtain ⟨p1, p2, _⟩ := popIf_spec hp
      have hql : q < F.tb := by
        have := hhas.lt_tb ffe.wf; rw [ffe.le.tb, h2] at this; exact this
      have k1 : TempsKept m F σ (σ1.set q w) := by
        intro t t1 t2 t3
        rw [Regs.set_other _ _ (by omega)]
        exact tempsKept_any_of ha x4 t t1 t2 t3
      obtain ⟨σ', z1, z2, z3, z4⟩ := finish_result (f := fun r => Instr.copy r q) (v := w) ha ff.le ff.wf hm
        (hrel2.frame (FrameLe.of_locals_eq p1 p2)) k1 (fun r _ => by simp [stepInstr])
      refine ⟨σ', ?_, z2, z3, z4⟩
      rw [exec_seq x1]
      have : exec S (.instr (.compound op q rr)) σ1 = some (σ1.set q w) := hstep
      rw [exec_seq this]; exact z1

theorem sem_seq (a b : Expr) (iha : SemOk S a) (ihb : SemOk S b) : SemOk S (.seq a b) := by
  intro m F code out F' E fx h hw hm hsafe σ ρ ρ' v hrel hev
  simp only [compile, bind, Option.bind_eq_some_iff, Prod.exists, pure, Option.some.injEq, Prod.mk.injEq] at h
  obtain ⟨ca, oa, F1, hca, cb, o, F2, hcb, hcode, hout, hF⟩ := h
  subst hcode hout hF
  simp only [safe, Bool.and_eq_true] at hsafe
  simp only [eval] at hev
  cases hea : eval S a ρ with
  | none => simp [hea] at hev
  | some p =>
    obtain ⟨va, ρ1⟩ := p
    simp only [hea] at hev
    obtain ⟨σ1, x1, x2, _, x4⟩ := iha .none F ca oa F1 E Option.none hca hw trivial hsafe.1 σ ρ ρ1 va hrel hea
    have ffa := compile_frame _ _ _ _ _ _ hca hw
    have sa : oa = ⟨Option.none, false⟩ := ffa.shape
    subst sa
    have tca : F1.tc = F.tc := by have := ffa.tc; simpa [tempCount] using this
    obtain ⟨σ2, y1, y2, y3, y4⟩ := ihb m F1 cb o F2 E fx hcb ffa.wf (hm.transfer ffa.le tca) hsafe.2 σ1 ρ1 ρ' v x2 hev
    refine ⟨σ2, by rw [exec_seq x1]; exact y1, y2, y3, ?_⟩
    have k1 : TempsKept m F σ σ1 := (TempsKept.refl m F σ).sub x4 rfl (Nat.le_refl _) (by intro t ht; simp at ht)
    exact k1.sub y4 ffa.le.tb (by omega) (fun t ht _ _ => ht)

/-- the mode handed to the branches of a conditional is meaningful in the frame they are compiled in -/
theorem modeFx_branch {m : Mode} {fx : Option VarId} {F F1 G : Frame} {res : Out}
    (ha : assignResult m F = some (res, F1)) (hm : ModeFx m fx F) (hle : FrameLe F G) (htc : G.tc = F1.tc) :
    ModeFx (branchMode res.reg) fx G := by
  cases hr : res.reg with
  | some r => simp only [branchMode]; exact modeFx_fixed_of_res ha hm hr hle htc
  | none =>
    simp only [branchMode]
    have h4 := (assignResult_spec ha).2.2.2
    cases m with
    | fixed q => simp at h4; subst h4; simp at hr
    | any => simp at h4; subst h4; simp at hr
    | none =>
      have := modeFx_fx_none hm (by intro r; simp)
      subst this; trivial

theorem tempsKept_branch {m : Mode} {F F1 G : Frame} {res : Out} {σ σ0 σ1 : Regs S}
    (ha : assignResult m F = some (res, F1)) (h0 : TempsKept m F σ σ0)
    (h : TempsKept (branchMode res.reg) G σ0 σ1) (htb : G.tb = F.tb) (htc : F.tc ≤ G.tc) :
    TempsKept m F σ σ1 := by
  apply h0.sub h htb htc
  intro t ht t1 t2
  cases hr : res.reg with
  | none => simp [branchMode, hr] at ht
  | some r =>
    simp only [branchMode, hr, Mode.fixed.injEq] at ht
    subst ht
    rcases resReg_of_assignResult ha hr with h | ⟨_, h⟩
    · exact h
    · omega

theorem out_branch {bm : Mode} {e : Expr} {F : Frame} {o : Out} {F' : Frame} {res : Out}
    (hs : OutShape bm e F o F') (hbm : bm = branchMode res.reg) : ∀ r, res.reg = some r → o.reg = some r := by
  intro r hr
  subst hbm
  simp only [branchMode, hr, OutShape] at hs
  rw [hs]

theorem sem_ite (c t e : Expr) (ihc : SemOk S c) (iht : SemOk S t) (ihe : SemOk S e) : SemOk S (.ite c t e) := by
  intro m F code out F' E fx h hw hm hsafe σ ρ ρ' v hrel hev
  simp only [compile, bind, Option.bind_eq_some_iff, Prod.exists, pure, Option.some.injEq, Prod.mk.injEq] at h
  obtain ⟨res, F1, ha, cc, oc, F2, hcc, rc, hrc, F3, hp, ct, ot, F4, hct, ce, oe, F5, hce, hcode, hout, hF⟩ := h
  subst hcode hout hF
  simp only [safe, Bool.and_eq_true] at hsafe
  obtain ⟨⟨hsc, hst⟩, hse⟩ := hsafe
  simp only [eval] at hev
  cases hec : eval S c ρ with
  | none => simp [hec] at hev
  | some p =>
    obtain ⟨vc, ρ1⟩ := p
    simp only [hec] at hev
    obtain ⟨h1, h2, h3, _⟩ := assignResult_spec ha
    have hw1 := hw.of_locals_eq h1 h2
    obtain ⟨σ1, x1, x2, x3, x4⟩ := ihc .any F1 cc oc F2 E Option.none hcc hw1 trivial hsc σ ρ ρ1 vc
      (relEx_of_assignResult ha hrel) hec
    have ffc := compile_frame _ _ _ _ _ _ hcc hw1
    obtain ⟨p1, p2, p3⟩ := popIf_spec hp
    have hw3 := ffc.wf.of_locals_eq p1 p2
    have le03 : FrameLe F F3 := (FrameLe.of_locals_eq h1 h2).trans (ffc.le.trans (FrameLe.of_locals_eq p1 p2))
    have tc3 : F3.tc = F1.tc := by have := ffc.tc; simp only [tempCount] at this; omega
    have fft := compile_frame _ _ _ _ _ _ hct hw3
    have ffe := compile_frame _ _ _ _ _ _ hce fft.wf
    have tct : F4.tc = F3.tc := by
      have := fft.tc; have hs := fft.shape
      cases hr : res.reg <;> simp [branchMode, hr, OutShape] at hs <;> simp [hs, tempCount] at this <;> exact this
    have hm3 : ModeFx (branchMode res.reg) fx F3 := modeFx_branch ha hm le03 tc3
    have hrel3 : RelEx E F3 σ1 ρ1 := x2.frame (FrameLe.of_locals_eq p1 p2)
    have k1 : TempsKept m F σ σ1 := tempsKept_any_of ha x4
    have hcv : σ1 rc = vc := x3 rc hrc
    by_cases htr : S.truthy vc = true
    · simp only [htr, if_true] at hev
      obtain ⟨σ2, y1, y2, y3, y4⟩ := iht _ F3 ct ot F4 E fx hct hw3 hm3 hst σ1 ρ1 ρ' v hrel3 hev
      refine ⟨σ2, ?_, y2.frame ffe.le, ?_, ?_⟩
      · rw [exec_seq x1]; simp [exec, hcv, htr, y1]
      · intro r hr; exact y3 r (out_branch fft.shape rfl r hr)
      · exact tempsKept_branch ha k1 y4 le03.tb (by omega)
    · simp only [htr] at hev
      simp only [Bool.false_eq_true, if_false] at hev
      have hm4 : ModeFx (branchMode res.reg) fx F4 := hm3.transfer fft.le tct
      obtain ⟨σ2, y1, y2, y3, y4⟩ := ihe _ F4 ce oe F5 E fx hce fft.wf hm4 hse σ1 ρ1 ρ' v (hrel3.frame fft.le) hev
      refine ⟨σ2, ?_, y2, ?_, ?_⟩
      · rw [exec_seq x1]; simp [exec, hcv, htr, y1]
      · intro r hr; exact y3 r (out_branch ffe.shape rfl r hr)
      · exact tempsKept_branch ha k1 y4 (by rw [fft.le.tb, le03.tb]) (by omega)

theorem sem_ifThen (c t : Expr) (ihc : SemOk S c) (iht : SemOk S t) : SemOk S (.ifThen c t) := by
  intro m F code out F' E fx h hw hm hsafe σ ρ ρ' v hrel hev
  have ff := compile_frame _ _ _ _ _ _ h hw
  simp only [compile, bind, Option.bind_eq_some_iff, Prod.exists, pure, Option.some.injEq, Prod.mk.injEq] at h
  obtain ⟨res, F1, ha, cc, oc, F2, hcc, rc, hrc, F3, hp, ct, ot, F4, hct, hcode, hout, hF⟩ := h
  subst hcode hout hF
  simp only [safe, Bool.and_eq_true] at hsafe
  obtain ⟨hsc, hst⟩ := hsafe
  simp only [eval] at hev
  cases hec : eval S c ρ with
  | none => simp [hec] at hev
  | some p =>
    obtain ⟨vc, ρ1⟩ := p
    simp only [hec] at hev
    obtain ⟨h1, h2, h3, _⟩ := assignResult_spec ha
    have hw1 := hw.of_locals_eq h1 h2
    obtain ⟨σ1, x1, x2, x3, x4⟩ := ihc .any F1 cc oc F2 E Option.none hcc hw1 trivial hsc σ ρ ρ1 vc
      (relEx_of_assignResult ha hrel) hec
    have ffc := compile_frame _ _ _ _ _ _ hcc hw1
    obtain ⟨p1, p2, p3⟩ := popIf_spec hp
    have hw3 := ffc.wf.of_locals_eq p1 p2
    have le03 : FrameLe F F3 := (FrameLe.of_locals_eq h1 h2).trans (ffc.le.trans (FrameLe.of_locals_eq p1 p2))
    have tc3 : F3.tc = F1.tc := by have := ffc.tc; simp only [tempCount] at this; omega
    have fft := compile_frame _ _ _ _ _ _ hct hw3
    have hm3 : ModeFx (branchMode res.reg) fx F3 := modeFx_branch ha hm le03 tc3
    have hrel3 : RelEx E F3 σ1 ρ1 := x2.frame (FrameLe.of_locals_eq p1 p2)
    have k1 : TempsKept m F σ σ1 := tempsKept_any_of ha x4
    have hcv : σ1 rc = vc := x3 rc hrc
    by_cases htr : S.truthy vc = true
    · simp only [htr, if_true] at hev
      obtain ⟨σ2, y1, y2, y3, y4⟩ := iht _ F3 ct ot F4 E fx hct hw3 hm3 hst σ1 ρ1 ρ' v hrel3 hev
      refine ⟨σ2, ?_, y2, ?_, ?_⟩
      · rw [exec_seq x1]
        cases hr : res.reg <;> simp [exec, hcv, htr, y1, instrIf]
      · intro r hr; exact y3 r (out_branch fft.shape rfl r hr)
      · exact tempsKept_branch ha k1 y4 le03.tb (by omega)
    · simp only [htr] at hev
      simp only [Bool.false_eq_true, if_false, Option.some.injEq, Prod.mk.injEq] at hev
      obtain ⟨rfl, rfl⟩ := hev
      obtain ⟨σ', z1, z2, z3, z4⟩ := finish_result (f := Instr.setNull) (v := S.null) ha ff.le ff.wf hm
        (hrel3.frame fft.le) k1 (fun r _ => rfl)
      refine ⟨σ', ?_, z2, z3, z4⟩
      rw [exec_seq x1]; simp [exec, hcv, htr, z1]

end KotoVerif.Compile
