/-
C16 helper lemmas: in a program without `try`, a failed assertion always surfaces in the result.
-/
import KotoVerif.Lemmas.C16

namespace KotoVerif.C16
open KotoVerif.Types KotoVerif.HintEval

mutual
/-- the expression contains no `try` -/
def noTryE : Expr → Bool
  | .lit _ => true
  | .var _ => true
  | .add a b => noTryE a && noTryE b
  | .lt a b => noTryE a && noTryE b
  | .typeOf e => noTryE e
  | .letH _ _ e => noTryE e
  | .letTemps _ es => noTryL es
  | .letUnpack _ e => noTryE e
  | .seq a b => noTryE a && noTryE b
  | .emit e => noTryE e
  | .ite c t e => noTryE c && noTryE t && noTryE e
  | .forIn _ it body => noTryE it && noTryE body
  | .call f args => noTryE f && noTryL args
  | .ret e => noTryE e
  | .throw e => noTryE e
  | .tryC _ _ _ _ => false
  | .matchE ss arms => noTryL ss && noTryA arms
def noTryL : List Expr → Bool
  | [] => true
  | e :: es => noTryE e && noTryL es
def noTryA : List Arm → Bool
  | [] => true
  | .mk _ none b :: r => noTryE b && noTryA r
  | .mk _ (some g) b :: r => noTryE g && noTryE b && noTryA r
end

def noTryS : GStmt → Bool
  | .yld e => noTryE e
  | .exec e => noTryE e

def noTryB : Body → Bool
  | .plain e => noTryE e
  | .gen ss => ss.all noTryS

/-- no function of the table contains a `try` -/
def noTryF (F : Funs) : Bool := F.all fun fd => noTryB fd.body

/-- the result is a failed assertion (the type error) -/
def isFailRes (r : Res) : Prop := ∃ h t, r = .err (.type h t)

/-- either no assertion failed (checks enabled), or the result is the failure. The computation is
indexed by `checks` only so that the evaluator appears fully applied (as in `Good`). -/
def Surf (m : Bool → St → Res × St) : Prop := ∀ s, (m true s).2.fails = s.fails ∨ isFailRes (m true s).1

theorem surf_const (g : St → Res × St) (hg : ∀ s, (g s).2.fails = s.fails) : Surf (fun _ s => g s) :=
  fun s => Or.inl (hg s)

theorem surf_ret (r : Res) : Surf (fun _ s => (r, s)) := surf_const _ (fun _ => rfl)

theorem not_fail_ok (v : V) : ¬ isFailRes (.ok v) := by
  rintro ⟨h, t, e⟩; cases e

theorem surf_andThen {m : Bool → St → Res × St} {k : Bool → V → St → Res × St} (hm : Surf m)
    (hk : ∀ v, Surf (fun c s => k c v s)) : Surf (fun c s => andThen (m c s) (k c)) := by
  intro s
  have h1 := hm s
  show (andThen (m true s) (k true)).2.fails = s.fails ∨ isFailRes (andThen (m true s) (k true)).1
  generalize m true s = x at h1
  obtain ⟨r, s1⟩ := x
  cases r with
  | ok v =>
    show (k true v s1).2.fails = s.fails ∨ isFailRes (k true v s1).1
    rcases h1 with h1 | h1
    · rcases hk v s1 with h2 | h2
      · exact Or.inl (by rw [h2]; exact h1)
      · exact Or.inr h2
    · exact (not_fail_ok v h1).elim
  | ret v => exact h1
  | err e => exact h1
  | stuck c => exact h1

theorem surf_pre {m : Bool → St → Res × St} (f : St → St) (hf : ∀ s, (f s).fails = s.fails) (hm : Surf m) :
    Surf (fun c s => m c (f s)) := by
  intro s
  have h := hm (f s)
  rw [hf s] at h
  exact h

theorem surf_restore_self {m : Bool → St → Res × St} (hm : Surf m) : Surf (fun c s => restore s (m c s)) := by
  intro s
  exact hm s

theorem surf_assert (h : Option Hint) (v : V) : Surf (fun c s => assertHint c h v s) := by
  intro s
  cases h with
  | none => exact Or.inl rfl
  | some h =>
    simp only [assertHint]
    by_cases hc : check h.name h.opt v = true
    · simp [hc]
    · right; exact ⟨h, typeName v, by simp [hc]⟩

theorem surf_assert_out (v : V) : Surf (fun c s => assertHint c s.out v s) :=
  fun s => surf_assert s.out v s

theorem surf_bindOne (b : Binder) (v : V) : Surf (fun c s => bindOne c b v s) := by
  unfold bindOne
  refine surf_pre (fun s => s.setOpt b.1 v) ?_ (surf_assert b.2 v)
  intro s; cases b.1 <;> rfl

theorem surf_bindMany (bs : List Binder) : ∀ vs, Surf (fun c s => bindMany c bs vs s) := by
  induction bs with
  | nil => intro vs; exact surf_ret _
  | cons b bs ih =>
    intro vs
    simp only [bindMany]
    exact surf_andThen (surf_bindOne b _) (fun _ => ih _)

theorem surf_bindLoop (bs : List Binder) (item : V) : Surf (fun c s => bindLoop c bs item s) := by
  unfold bindLoop
  split
  · exact surf_ret _
  · exact surf_bindOne _ _
  · split
    · exact surf_bindMany _ _
    · exact surf_ret _

theorem surf_bindArg : ∀ k,
    (∀ p v, Surf (fun c s => bindArg c k p v s)) ∧ (∀ ps vs, Surf (fun c s => bindArgs c k ps vs s)) := by
  intro k
  induction k with
  | zero =>
    exact ⟨fun p v => by simp only [bindArg]; exact surf_ret _, fun ps vs => by simp only [bindArgs]; exact surf_ret _⟩
  | succ k ih =>
    constructor
    · intro p v
      cases p with
      | b x h => simp only [bindArg]; exact surf_bindOne _ _
      | lit n => simp only [bindArg]; exact surf_ret _
      | tup ps =>
        simp only [bindArg]
        split
        · split
          · exact ih.2 _ _
          · exact surf_ret _
        · exact surf_ret _
    · intro ps vs
      cases ps with
      | nil => simp only [bindArgs]; exact surf_ret _
      | cons p ps =>
        simp only [bindArgs]
        exact surf_andThen (ih.1 p _) (fun _ => ih.2 ps _)

/-- continuation on every result that hands failures through unchanged -/
theorem surf_bindR {m : Bool → St → Res × St} {k : Bool → Res → St → Res × St} (hm : Surf m)
    (hk : ∀ r, ¬ isFailRes r → Surf (fun c s => k c r s)) (hpass : ∀ r s, isFailRes r → k true r s = (r, s)) :
    Surf (fun c s => bindR (m c s) (k c)) := by
  intro s
  simp only [bindR]
  by_cases hf : isFailRes (m true s).1
  · rw [hpass _ _ hf]
    exact hm s
  · rcases hm s with h1 | h1
    · rcases hk _ hf (m true s).2 with h2 | h2
      · exact Or.inl (by rw [h2, h1])
      · exact Or.inr h2
    · exact (hf h1).elim

/-- a pure step that leaves `fails` alone, followed by a continuation -/
theorem surf_bindPure {α : Type} (g : St → α × St) (hg : ∀ s, (g s).2.fails = s.fails)
    {k : Bool → α → St → Res × St} (hk : ∀ a, Surf (fun c s => k c a s)) :
    Surf (fun c s => bindR (g s) (k c)) := by
  intro s
  simp only [bindR]
  have := hk (g s).1 (g s).2
  rw [hg s] at this
  exact this

theorem finishCall_pass (out : Option Hint) (r : Res) (s : St) (h : isFailRes r) :
    finishCall true out r s = (r, s) := by
  obtain ⟨hh, t, e⟩ := h; subst e; rfl

theorem surf_finishCall (out : Option Hint) (r : Res) : Surf (fun c s => finishCall c out r s) := by
  unfold finishCall
  split
  · exact surf_andThen (surf_assert _ _) (fun _ => surf_ret _)
  · exact surf_ret _
  · exact surf_ret _

theorem noTryF_get (F : Funs) (hF : noTryF F = true) (i : Nat) (fd : FunDef) (h : F[i]? = some fd) :
    noTryB fd.body = true := by
  unfold noTryF at hF
  rw [List.all_eq_true] at hF
  exact hF fd (List.mem_of_getElem? h)

theorem noTryS_get (ss : List GStmt) (h : ss.all noTryS = true) (pc : Nat) (st : GStmt) (hp : ss[pc]? = some st) :
    noTryS st = true := by
  rw [List.all_eq_true] at h
  exact h st (List.mem_of_getElem? hp)

/-- the invariant for all five evaluator functions at fuel `n` (checks enabled, `try`-free code) -/
structure SurfAt (F : Funs) (n : Nat) : Prop where
  eval : ∀ e, noTryE e = true → Surf (fun c s => eval c F n e s)
  args : ∀ es, noTryL es = true → Surf (fun c s => evalArgs c F n es s)
  forItems : ∀ bs xs body last, noTryE body = true → Surf (fun c s => forItems c F n bs xs body last s)
  forGen : ∀ bs i genv st pc body last, noTryE body = true → Surf (fun c s => forGen c F n bs i genv st pc body last s)
  genNext : ∀ i st pc, Surf (fun c s => genNext c F n i st pc s)
  matchArms : ∀ vs arms, noTryA arms = true → Surf (fun c s => matchArms c F n vs arms s)
  unpackGen : ∀ bs i genv st pc, Surf (fun c s => unpackGen c F n bs i genv st pc s)

theorem surfAt_zero (F : Funs) : SurfAt F 0 := by
  constructor
  · intro e _; simp only [eval]; exact surf_ret _
  · intro es _; simp only [evalArgs]; exact surf_ret _
  · intro bs xs body last _; simp only [forItems]; exact surf_ret _
  · intro bs i genv st pc body last _; simp only [forGen]; exact surf_ret _
  · intro i st pc; simp only [genNext]; exact surf_ret _
  · intro vs arms _; simp only [matchArms]; exact surf_ret _
  · intro bs i genv st pc; simp only [unpackGen]; exact surf_ret _

theorem surf_eval_succ (F : Funs) (hF : noTryF F = true) (n : Nat) (ih : SurfAt F n) (e : Expr) (he : noTryE e = true) :
    Surf (fun c s => eval c F (n + 1) e s) := by
  cases e with
  | lit v => simp only [eval]; exact surf_ret _
  | var x =>
    simp only [eval]
    apply surf_const
    intro s; split <;> rfl
  | add a b =>
    simp only [noTryE, Bool.and_eq_true] at he
    simp only [eval]
    refine surf_andThen (ih.eval a he.1) (fun va => surf_andThen (ih.eval b he.2) (fun vb => ?_))
    split <;> exact surf_ret _
  | lt a b =>
    simp only [noTryE, Bool.and_eq_true] at he
    simp only [eval]
    refine surf_andThen (ih.eval a he.1) (fun va => surf_andThen (ih.eval b he.2) (fun vb => ?_))
    split <;> exact surf_ret _
  | typeOf e =>
    simp only [noTryE] at he
    simp only [eval]
    exact surf_andThen (ih.eval e he) (fun v => surf_ret _)
  | letH x h e =>
    simp only [noTryE] at he
    simp only [eval]
    refine surf_andThen (ih.eval e he) (fun v => surf_andThen (surf_pre (fun s => s.setOpt x v) ?_ (surf_assert h v)) (fun _ => surf_ret _))
    intro s; cases x <;> rfl
  | letTemps bs es =>
    simp only [noTryE] at he
    simp only [eval]
    refine surf_andThen (ih.args es he) (fun r => ?_)
    split
    · split
      · exact surf_ret _
      · exact surf_andThen (surf_bindMany _ _) (fun _ => surf_ret _)
    · exact surf_ret _
  | letUnpack bs e =>
    simp only [noTryE] at he
    simp only [eval]
    refine surf_andThen (ih.eval e he) (fun v => ?_)
    split
    · exact surf_andThen (ih.unpackGen _ _ _ _ _) (fun _ => surf_ret _)
    · split
      · exact surf_andThen (surf_bindMany _ _) (fun _ => surf_ret _)
      · exact surf_ret _
  | seq a b =>
    simp only [noTryE, Bool.and_eq_true] at he
    simp only [eval]
    exact surf_andThen (ih.eval a he.1) (fun _ => ih.eval b he.2)
  | emit e =>
    simp only [noTryE] at he
    simp only [eval]
    exact surf_andThen (ih.eval e he) (fun v => surf_const _ (fun _ => rfl))
  | ite c t e =>
    simp only [noTryE, Bool.and_eq_true] at he
    simp only [eval]
    refine surf_andThen (ih.eval c he.1.1) (fun cv => ?_)
    split
    · exact ih.eval t he.1.2
    · exact ih.eval e he.2
  | forIn bs it body =>
    simp only [noTryE, Bool.and_eq_true] at he
    simp only [eval]
    refine surf_andThen (ih.eval it he.1) (fun iv => ?_)
    split
    · exact ih.forGen _ _ _ _ _ _ _ he.2
    · split
      · exact ih.forItems _ _ _ _ he.2
      · exact surf_ret _
  | call f args =>
    simp only [noTryE, Bool.and_eq_true] at he
    simp only [eval]
    refine surf_andThen (ih.eval f he.1) (fun fv => surf_andThen (ih.args args he.2) (fun av => ?_))
    split
    · split
      · next i vs params out body hget =>
        have hb : noTryE body = true := by
          have := noTryF_get F hF _ _ hget
          simpa [noTryB] using this
        split
        · exact surf_ret _
        · apply surf_restore_self
          refine surf_andThen (surf_pre _ (fun _ => rfl) ((surf_bindArg _).2 _ _)) (fun _ => ?_)
          exact surf_bindR (ih.eval _ hb) (fun r _ => surf_finishCall _ r) (fun r s h => finishCall_pass _ r s h)
      · exact surf_ret _
    · split
      · split <;> exact surf_ret _
      · exact surf_ret _
    · exact surf_ret _
  | ret e =>
    simp only [noTryE] at he
    simp only [eval]
    exact surf_andThen (ih.eval e he) (fun v => surf_andThen (surf_assert_out v) (fun _ => surf_ret _))
  | throw e =>
    simp only [noTryE] at he
    simp only [eval]
    exact surf_andThen (ih.eval e he) (fun v => surf_ret _)
  | tryC body typed x final => simp [noTryE] at he
  | matchE scruts arms =>
    simp only [noTryE, Bool.and_eq_true] at he
    simp only [eval]
    refine surf_andThen (ih.args scruts he.1) (fun r => ?_)
    split
    · exact ih.matchArms _ _ he.2
    · exact surf_ret _

theorem surfAt_succ (F : Funs) (hF : noTryF F = true) (n : Nat) (ih : SurfAt F n) : SurfAt F (n + 1) := by
  constructor
  · exact surf_eval_succ F hF n ih
  · intro es hes
    cases es with
    | nil => simp only [evalArgs]; exact surf_ret _
    | cons e es =>
      simp only [noTryL, Bool.and_eq_true] at hes
      simp only [evalArgs]
      refine surf_andThen (ih.eval e hes.1) (fun v => surf_andThen (ih.args es hes.2) (fun r => ?_))
      split <;> exact surf_ret _
  · intro bs xs body last hb
    cases xs with
    | nil => simp only [forItems]; exact surf_ret _
    | cons v rest =>
      simp only [forItems]
      exact surf_andThen (surf_bindLoop bs v) (fun _ => surf_andThen (ih.eval body hb) (fun w => ih.forItems _ _ _ _ hb))
  · intro bs i genv st pc body last hb
    simp only [forGen]
    refine surf_andThen (surf_restore_self (surf_pre _ (fun _ => rfl) (ih.genNext i st pc))) (fun r => ?_)
    split
    · exact surf_andThen (surf_bindLoop bs _) (fun _ => surf_andThen (ih.eval body hb) (fun w => ih.forGen _ _ _ _ _ _ _ hb))
    · exact surf_ret _
  · intro i st pc
    simp only [genNext]
    split
    · next params out ss hget =>
      have hss : ss.all noTryS = true := by
        have := noTryF_get F hF _ _ hget
        simpa [noTryB] using this
      refine surf_andThen ?_ (fun _ => ?_)
      · split
        · exact surf_ret _
        · exact fun s => surf_pre (fun s' => { s' with env := [] }) (fun _ => rfl) ((surf_bindArg _).2 _ (s.env.map (·.2))) s
      · split
        · exact surf_ret _
        · next e hpc =>
          have he : noTryE e = true := by simpa [noTryS] using noTryS_get ss hss _ _ hpc
          exact surf_andThen (ih.eval _ he) (fun v => surf_andThen (surf_assert _ _) (fun _ => surf_const _ (fun _ => rfl)))
        · next e hpc =>
          have he : noTryE e = true := by simpa [noTryS] using noTryS_get ss hss _ _ hpc
          refine surf_bindR (ih.eval _ he) (fun r _ => ?_) (fun r s h => ?_)
          · split
            · exact ih.genNext _ _ _
            · exact surf_ret _
            · exact surf_ret _
          · obtain ⟨hh, t, e⟩ := h; subst e; rfl
    · exact surf_ret _
  · intro vs arms ha
    cases arms with
    | nil => simp only [matchArms]; exact surf_ret _
    | cons arm rest =>
      cases arm with
      | mk alts guard body =>
        simp only [matchArms]
        refine surf_bindPure _ (armM_fails n alts vs) (fun m => ?_)
        cases m with
        | yes =>
          cases guard with
          | none =>
            simp only [noTryA, Bool.and_eq_true] at ha
            exact ih.eval body ha.1
          | some g =>
            simp only [noTryA, Bool.and_eq_true] at ha
            refine surf_andThen (ih.eval g ha.1.1) (fun gv => ?_)
            split
            · exact ih.eval body ha.1.2
            · exact ih.matchArms _ _ ha.2
        | no =>
          have har : noTryA rest = true := by
            cases guard <;> simp only [noTryA, Bool.and_eq_true] at ha <;> exact ha.2
          exact ih.matchArms _ _ har
        | stuck => exact surf_ret _
  · intro bs i genv st pc
    cases bs with
    | nil => simp only [unpackGen]; exact surf_ret _
    | cons b bs =>
      simp only [unpackGen]
      refine surf_andThen (surf_restore_self (surf_pre _ (fun _ => rfl) (ih.genNext i st pc))) (fun r => ?_)
      split
      · exact surf_andThen (surf_bindOne b _) (fun _ => ih.unpackGen _ _ _ _ _)
      · exact surf_bindMany _ _

theorem surfAt (F : Funs) (hF : noTryF F = true) : ∀ n, SurfAt F n
  | 0 => surfAt_zero F
  | n + 1 => surfAt_succ F hF n (surfAt F hF n)

end KotoVerif.C16
