/-
C16 helper lemmas: in a program without `try`, a failed assertion always surfaces in the result.
-/
import KotoVerif.Lemmas.C16

namespace KotoVerif.C16
open KotoVerif.Types KotoVerif.HintEval

mutual
/-- the expression contains no `try` -/
def noTryE : Expr → Bool
  | .lit _ => true
  | .var _ => true
  | .add a b => noTryE a && noTryE b
  | .lt a b => noTryE a && noTryE b
  | .typeOf e => noTryE e
  | .letH _ _ e => noTryE e
  | .seq a b => noTryE a && noTryE b
  | .emit e => noTryE e
  | .ite c t e => noTryE c && noTryE t && noTryE e
  | .forIn _ it body => noTryE it && noTryE body
  | .call f args => noTryE f && noTryL args
  | .ret e => noTryE e
  | .throw e => noTryE e
  | .tryC _ _ _ _ => false
  | .matchE s arms => noTryE s && noTryA arms
def noTryL : List Expr → Bool
  | [] => true
  | e :: es => noTryE e && noTryL es
def noTryA : List Arm → Bool
  | [] => true
  | .mk _ b :: r => noTryE b && noTryA r
end

def noTryS : GStmt → Bool
  | .yld e => noTryE e
  | .exec e => noTryE e

def noTryB : Body → Bool
  | .plain e => noTryE e
  | .gen ss => ss.all noTryS

/-- no function of the table contains a `try` -/
def noTryF (F : Funs) : Bool := F.all fun fd => noTryB fd.body

/-- the result is a failed assertion (the type error) -/
def isFailRes (r : Res) : Prop := ∃ h t, r = .err (.type h t)

/-- either no assertion failed, or the result is the failure -/
def Surf (m : St → Res × St) : Prop := ∀ s, (m s).2.fails = s.fails ∨ isFailRes (m s).1

theorem surf_const (g : St → Res × St) (hg : ∀ s, (g s).2.fails = s.fails) : Surf g :=
  fun s => Or.inl (hg s)

theorem surf_ret (r : Res) : Surf (fun s => (r, s)) := surf_const _ (fun _ => rfl)

theorem not_fail_ok (v : V) : ¬ isFailRes (.ok v) := by
  rintro ⟨h, t, e⟩; cases e

theorem surf_andThen {m : St → Res × St} {k : V → St → Res × St} (hm : Surf m) (hk : ∀ v, Surf (k v)) :
    Surf (fun s => andThen (m s) k) := by
  intro s
  have h1 := hm s
  show (andThen (m s) k).2.fails = s.fails ∨ isFailRes (andThen (m s) k).1
  generalize m s = x at h1
  obtain ⟨r, s1⟩ := x
  cases r with
  | ok v =>
    show (k v s1).2.fails = s.fails ∨ isFailRes (k v s1).1
    rcases h1 with h1 | h1
    · rcases hk v s1 with h2 | h2
      · exact Or.inl (by rw [h2]; exact h1)
      · exact Or.inr h2
    · exact (not_fail_ok v h1).elim
  | ret v => exact h1
  | err e => exact h1
  | stuck c => exact h1

theorem surf_pre {m : St → Res × St} (f : St → St) (hf : ∀ s, (f s).fails = s.fails) (hm : Surf m) :
    Surf (fun s => m (f s)) := by
  intro s
  have h := hm (f s)
  rw [hf s] at h
  exact h

theorem surf_restore_self {m : St → Res × St} (hm : Surf m) : Surf (fun s => restore s (m s)) := by
  intro s
  exact hm s

theorem surf_assert (h : Option Hint) (v : V) : Surf (fun s => assertHint true h v s) := by
  intro s
  cases h with
  | none => exact Or.inl rfl
  | some h =>
    simp only [assertHint]
    by_cases hc : check h.name h.opt v = true
    · simp [hc]
    · right; exact ⟨h, typeName v, by simp [hc]⟩

theorem surf_assert_out (v : V) : Surf (fun s => assertHint true s.out v s) :=
  fun s => surf_assert s.out v s

theorem surf_bindOne (b : Binder) (v : V) : Surf (fun s => bindOne true b v s) := by
  unfold bindOne
  refine surf_pre (fun s => s.setOpt b.1 v) ?_ (surf_assert b.2 v)
  intro s; cases b.1 <;> rfl

theorem surf_bindMany (bs : List Binder) : ∀ vs, Surf (fun s => bindMany true bs vs s) := by
  induction bs with
  | nil => intro vs; exact surf_ret _
  | cons b bs ih =>
    intro vs
    simp only [bindMany]
    exact surf_andThen (surf_bindOne b _) (fun _ => ih _)

theorem surf_bindLoop (bs : List Binder) (item : V) : Surf (fun s => bindLoop true bs item s) := by
  unfold bindLoop
  split
  · exact surf_ret _
  · exact surf_bindOne _ _
  · split
    · exact surf_bindMany _ _
    · exact surf_ret _

/-- continuation on every result that hands failures through unchanged -/
theorem surf_bindR {m : St → Res × St} {k : Res → St → Res × St} (hm : Surf m)
    (hk : ∀ r, ¬ isFailRes r → Surf (k r)) (hpass : ∀ r s, isFailRes r → k r s = (r, s)) :
    Surf (fun s => bindR (m s) k) := by
  intro s
  simp only [bindR]
  by_cases hf : isFailRes (m s).1
  · rw [hpass _ _ hf]
    exact hm s
  · rcases hm s with h1 | h1
    · rcases hk _ hf (m s).2 with h2 | h2
      · exact Or.inl (by rw [h2, h1])
      · exact Or.inr h2
    · exact (hf h1).elim

theorem finishCall_pass (out : Option Hint) (r : Res) (s : St) (h : isFailRes r) :
    finishCall true out r s = (r, s) := by
  obtain ⟨hh, t, e⟩ := h; subst e; rfl

theorem surf_finishCall (out : Option Hint) (r : Res) : Surf (finishCall true out r) := by
  unfold finishCall
  split
  · exact surf_andThen (surf_assert _ _) (fun _ => surf_ret _)
  · exact surf_ret _
  · exact surf_ret _

theorem noTryF_get (F : Funs) (hF : noTryF F = true) (i : Nat) (fd : FunDef) (h : F[i]? = some fd) :
    noTryB fd.body = true := by
  unfold noTryF at hF
  rw [List.all_eq_true] at hF
  exact hF fd (List.mem_of_getElem? h)

theorem noTryS_get (ss : List GStmt) (h : ss.all noTryS = true) (pc : Nat) (st : GStmt) (hp : ss[pc]? = some st) :
    noTryS st = true := by
  rw [List.all_eq_true] at h
  exact h st (List.mem_of_getElem? hp)

theorem selectArm_noTry (v : V) (arms : List Arm) (h : noTryA arms = true) :
    ∀ s b s', selectArm v arms s = (some b, s') → noTryE b = true := by
  induction arms with
  | nil => intro s b s' e; simp [selectArm] at e
  | cons a rest ih =>
    intro s b s' e
    cases a with
    | mk p body =>
      simp only [noTryA, Bool.and_eq_true] at h
      simp only [selectArm] at e
      split at e
      · simp only [Prod.mk.injEq, Option.some.injEq] at e
        rw [← e.1]; exact h.1
      · exact ih h.2 _ _ _ e

/-- the invariant for all five evaluator functions at fuel `n` (checks enabled, `try`-free code) -/
structure SurfAt (F : Funs) (n : Nat) : Prop where
  eval : ∀ e, noTryE e = true → Surf (eval true F n e)
  args : ∀ es, noTryL es = true → Surf (evalArgs true F n es)
  forItems : ∀ bs xs body last, noTryE body = true → Surf (forItems true F n bs xs body last)
  forGen : ∀ bs i genv st pc body last, noTryE body = true → Surf (forGen true F n bs i genv st pc body last)
  genNext : ∀ i st pc, Surf (genNext true F n i st pc)

theorem surfAt_zero (F : Funs) : SurfAt F 0 := by
  constructor
  · intro e _; simp only [eval]; exact surf_ret _
  · intro es _; simp only [evalArgs]; exact surf_ret _
  · intro bs xs body last _; simp only [forItems]; exact surf_ret _
  · intro bs i genv st pc body last _; simp only [forGen]; exact surf_ret _
  · intro i st pc; simp only [genNext]; exact surf_ret _

theorem surf_eval_succ (F : Funs) (hF : noTryF F = true) (n : Nat) (ih : SurfAt F n) (e : Expr) (he : noTryE e = true) :
    Surf (eval true F (n + 1) e) := by
  cases e with
  | lit v => simp only [eval]; exact surf_ret _
  | var x =>
    simp only [eval]
    apply surf_const
    intro s; split <;> rfl
  | add a b =>
    simp only [noTryE, Bool.and_eq_true] at he
    simp only [eval]
    refine surf_andThen (ih.eval a he.1) (fun va => surf_andThen (ih.eval b he.2) (fun vb => ?_))
    split <;> exact surf_ret _
  | lt a b =>
    simp only [noTryE, Bool.and_eq_true] at he
    simp only [eval]
    refine surf_andThen (ih.eval a he.1) (fun va => surf_andThen (ih.eval b he.2) (fun vb => ?_))
    split <;> exact surf_ret _
  | typeOf e =>
    simp only [noTryE] at he
    simp only [eval]
    exact surf_andThen (ih.eval e he) (fun v => surf_ret _)
  | letH x h e =>
    simp only [noTryE] at he
    simp only [eval]
    refine surf_andThen (ih.eval e he) (fun v => surf_andThen (surf_pre (fun s => s.setOpt x v) ?_ (surf_assert h v)) (fun _ => surf_ret _))
    intro s; cases x <;> rfl
  | seq a b =>
    simp only [noTryE, Bool.and_eq_true] at he
    simp only [eval]
    exact surf_andThen (ih.eval a he.1) (fun _ => ih.eval b he.2)
  | emit e =>
    simp only [noTryE] at he
    simp only [eval]
    exact surf_andThen (ih.eval e he) (fun v => surf_const _ (fun _ => rfl))
  | ite c t e =>
    simp only [noTryE, Bool.and_eq_true] at he
    simp only [eval]
    refine surf_andThen (ih.eval c he.1.1) (fun cv => ?_)
    split
    · exact ih.eval t he.1.2
    · exact ih.eval e he.2
  | forIn bs it body =>
    simp only [noTryE, Bool.and_eq_true] at he
    simp only [eval]
    refine surf_andThen (ih.eval it he.1) (fun iv => ?_)
    split
    · exact ih.forGen _ _ _ _ _ _ _ he.2
    · split
      · exact ih.forItems _ _ _ _ he.2
      · exact surf_ret _
  | call f args =>
    simp only [noTryE, Bool.and_eq_true] at he
    simp only [eval]
    refine surf_andThen (ih.eval f he.1) (fun fv => surf_andThen (ih.args args he.2) (fun av => ?_))
    split
    · split
      · next i vs params out body hget =>
        have hb : noTryE body = true := by
          have := noTryF_get F hF _ _ hget
          simpa [noTryB] using this
        split
        · exact surf_ret _
        · apply surf_restore_self
          refine surf_andThen (surf_pre _ (fun _ => rfl) (surf_bindMany _ _)) (fun _ => ?_)
          exact surf_bindR (ih.eval _ hb) (fun r _ => surf_finishCall _ r) (fun r s h => finishCall_pass _ r s h)
      · exact surf_ret _
    · split
      · split <;> exact surf_ret _
      · exact surf_ret _
    · exact surf_ret _
  | ret e =>
    simp only [noTryE] at he
    simp only [eval]
    exact surf_andThen (ih.eval e he) (fun v => surf_andThen (surf_assert_out v) (fun _ => surf_ret _))
  | throw e =>
    simp only [noTryE] at he
    simp only [eval]
    exact surf_andThen (ih.eval e he) (fun v => surf_ret _)
  | tryC body typed x final => simp [noTryE] at he
  | matchE scrut arms =>
    simp only [noTryE, Bool.and_eq_true] at he
    simp only [eval]
    refine surf_andThen (ih.eval scrut he.1) (fun v => ?_)
    intro s
    simp only [bindR]
    have hsf := selectArm_fails v arms s
    cases hsel : selectArm v arms s with
    | mk sel s2 =>
      rw [hsel] at hsf
      cases sel with
      | none => exact Or.inl hsf
      | some b =>
        have hb := selectArm_noTry v arms he.2 s b s2 hsel
        have := ih.eval b hb s2
        simp only at hsf ⊢
        rw [hsf] at this
        exact this

theorem surfAt_succ (F : Funs) (hF : noTryF F = true) (n : Nat) (ih : SurfAt F n) : SurfAt F (n + 1) := by
  constructor
  · exact surf_eval_succ F hF n ih
  · intro es hes
    cases es with
    | nil => simp only [evalArgs]; exact surf_ret _
    | cons e es =>
      simp only [noTryL, Bool.and_eq_true] at hes
      simp only [evalArgs]
      refine surf_andThen (ih.eval e hes.1) (fun v => surf_andThen (ih.args es hes.2) (fun r => ?_))
      split <;> exact surf_ret _
  · intro bs xs body last hb
    cases xs with
    | nil => simp only [forItems]; exact surf_ret _
    | cons v rest =>
      simp only [forItems]
      exact surf_andThen (surf_bindLoop bs v) (fun _ => surf_andThen (ih.eval body hb) (fun w => ih.forItems _ _ _ _ hb))
  · intro bs i genv st pc body last hb
    simp only [forGen]
    refine surf_andThen (surf_restore_self (surf_pre _ (fun _ => rfl) (ih.genNext i st pc))) (fun r => ?_)
    split
    · exact surf_andThen (surf_bindLoop bs _) (fun _ => surf_andThen (ih.eval body hb) (fun w => ih.forGen _ _ _ _ _ _ _ hb))
    · exact surf_ret _
  · intro i st pc
    simp only [genNext]
    split
    · next params out ss hget =>
      have hss : ss.all noTryS = true := by
        have := noTryF_get F hF _ _ hget
        simpa [noTryB] using this
      refine surf_andThen ?_ (fun _ => ?_)
      · split
        · exact surf_ret _
        · exact fun s => surf_pre (fun s' => { s' with env := [] }) (fun _ => rfl) (surf_bindMany _ (s.env.map (·.2))) s
      · split
        · exact surf_ret _
        · next e hpc =>
          have he : noTryE e = true := by simpa [noTryS] using noTryS_get ss hss _ _ hpc
          exact surf_andThen (ih.eval _ he) (fun v => surf_andThen (surf_assert _ _) (fun _ => surf_const _ (fun _ => rfl)))
        · next e hpc =>
          have he : noTryE e = true := by simpa [noTryS] using noTryS_get ss hss _ _ hpc
          refine surf_bindR (ih.eval _ he) (fun r _ => ?_) (fun r s h => ?_)
          · split
            · exact ih.genNext _ _ _
            · exact surf_ret _
            · exact surf_ret _
          · obtain ⟨hh, t, e⟩ := h; subst e; rfl
    · exact surf_ret _

theorem surfAt (F : Funs) (hF : noTryF F = true) : ∀ n, SurfAt F n
  | 0 => surfAt_zero F
  | n + 1 => surfAt_succ F hF n (surfAt F hF n)

end KotoVerif.C16
