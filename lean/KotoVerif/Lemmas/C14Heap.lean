/-
C14 — lemmas about the heap model: every operation writes only the object it is applied to
(frame), `copy` allocates a fresh top level holding the same element values, immediate values do
not depend on the heap.
-/
import KotoVerif.Model.HeapEval

namespace KotoVerif
namespace Heap
open Equal

/-! ### frame: an operation on handle `h` leaves every other object alone -/

theorem setObj_other (heap : Heap) (h h' : Nat) (o : Obj) (hne : h' ≠ h) :
    (setObj heap h o)[h']? = heap[h']? := by
  unfold setObj
  exact List.getElem?_set_ne (Ne.symm hne)

theorem setObj_length (heap : Heap) (h : Nat) (o : Obj) : (setObj heap h o).length = heap.length := by
  simp [setObj]

theorem onList_frame (F : FloatOps) (heap : Heap) (h : Nat) (op : LOp) (h' : Nat) (hne : h' ≠ h) :
    (onList F heap h op).1[h']? = heap[h']? := by
  unfold onList
  split
  · exact setObj_other _ _ _ _ hne
  · rfl

theorem onMap_frame (F : FloatOps) (mech : Bool) (heap : Heap) (h : Nat) (op : MOp) (h' : Nat)
    (hne : h' ≠ h) : (onMap F mech heap h op).1[h']? = heap[h']? := by
  unfold onMap
  split
  · exact setObj_other _ _ _ _ hne
  · rfl

theorem swapLists_frame (heap : Heap) (h h2 h' : Nat) (hne : h' ≠ h) (hne2 : h' ≠ h2) :
    (swapLists heap h h2).1[h']? = heap[h']? := by
  unfold swapLists
  split
  · simp only
    rw [setObj_other _ _ _ _ hne2, setObj_other _ _ _ _ hne]
  · rfl

theorem onList_length (F : FloatOps) (heap : Heap) (h : Nat) (op : LOp) :
    (onList F heap h op).1.length = heap.length := by
  unfold onList
  split
  · exact setObj_length _ _ _
  · rfl

theorem onMap_length (F : FloatOps) (mech : Bool) (heap : Heap) (h : Nat) (op : MOp) :
    (onMap F mech heap h op).1.length = heap.length := by
  unfold onMap
  split
  · exact setObj_length _ _ _
  · rfl

/-! ### copy -/

theorem getList_append_left (heap ext : Heap) (h : Nat) (xs : List HVal) (hg : getList heap h = some xs) :
    getList (heap ++ ext) h = some xs := by
  unfold getList at hg ⊢
  have hlt : h < heap.length := by
    by_cases hlt : h < heap.length
    · exact hlt
    · rw [List.getElem?_eq_none (by omega)] at hg
      simp at hg
  rw [List.getElem?_append_left hlt]
  exact hg

theorem getMap_append_left (heap ext : Heap) (h : Nat) (es : List (Val × HVal)) (hg : getMap heap h = some es) :
    getMap (heap ++ ext) h = some es := by
  unfold getMap at hg ⊢
  have hlt : h < heap.length := by
    by_cases hlt : h < heap.length
    · exact hlt
    · rw [List.getElem?_eq_none (by omega)] at hg
      simp at hg
  rw [List.getElem?_append_left hlt]
  exact hg

theorem getList_lt (heap : Heap) (h : Nat) (xs : List HVal) (hg : getList heap h = some xs) : h < heap.length := by
  unfold getList at hg
  by_cases hlt : h < heap.length
  · exact hlt
  · rw [List.getElem?_eq_none (by omega)] at hg
    simp at hg

theorem getMap_lt (heap : Heap) (h : Nat) (es : List (Val × HVal)) (hg : getMap heap h = some es) : h < heap.length := by
  unfold getMap at hg
  by_cases hlt : h < heap.length
  · exact hlt
  · rw [List.getElem?_eq_none (by omega)] at hg
    simp at hg

/-- the copy of a list is a *new* object holding the *same* element values -/
theorem copyVal_list (heap : Heap) (h : Nat) (xs : List HVal) (hg : getList heap h = some xs) :
    copyVal heap (.lref h) = (heap ++ [.list xs], .lref heap.length) ∧
    heap.length ≠ h ∧
    getList (heap ++ [.list xs]) heap.length = some xs ∧
    getList (heap ++ [.list xs]) h = some xs := by
  refine ⟨by simp [copyVal, hg, allocList], ?_, ?_, getList_append_left _ _ _ _ hg⟩
  · have := getList_lt _ _ _ hg; omega
  · simp [getList]

theorem copyVal_map (heap : Heap) (h : Nat) (es : List (Val × HVal)) (hg : getMap heap h = some es) :
    copyVal heap (.mref h) = (heap ++ [.map es], .mref heap.length) ∧
    heap.length ≠ h ∧
    getMap (heap ++ [.map es]) heap.length = some es ∧
    getMap (heap ++ [.map es]) h = some es := by
  refine ⟨by simp [copyVal, hg, allocMap], ?_, ?_, getMap_append_left _ _ _ _ hg⟩
  · have := getMap_lt _ _ _ hg; omega
  · simp [getMap]

/-! ### immediate values -/

mutual
/-- no handle anywhere in the value: numbers, strings, ranges, booleans, null and tuples of these -/
def immediate : HVal → Bool
  | .lref _ => false
  | .mref _ => false
  | .tuple xs => immediateList xs
  | _ => true
def immediateList : List HVal → Bool
  | [] => true
  | x :: xs => immediate x && immediateList xs
end

theorem mapOpt_congr {α β : Type} (f g : α → Option β) (xs : List α) (h : ∀ x ∈ xs, f x = g x) :
    mapOpt f xs = mapOpt g xs := by
  induction xs with
  | nil => rfl
  | cons x xs ih =>
    simp only [mapOpt]
    rw [h x (by simp), ih (fun y hy => h y (List.mem_cons_of_mem _ hy))]

theorem immediateList_mem (xs : List HVal) (h : immediateList xs = true) : ∀ x ∈ xs, immediate x = true := by
  induction xs with
  | nil => intro x hx; cases hx
  | cons y ys ih =>
    simp only [immediateList, Bool.and_eq_true] at h
    intro x hx
    rcases List.mem_cons.mp hx with rfl | hx'
    · exact h.1
    · exact ih h.2 x hx'

/-- what an immediate value denotes does not depend on the heap -/
theorem snapshot_immediate (f : Nat) (heap heap' : Heap) (v : HVal) (h : immediate v = true) :
    snapshot f heap v = snapshot f heap' v := by
  induction f generalizing v with
  | zero => rfl
  | succ f ih =>
    cases v with
    | tuple xs =>
      simp only [snapshot]
      have hx := immediateList_mem xs (by simpa [immediate] using h)
      rw [mapOpt_congr _ _ xs (fun x hx' => ih x (hx x hx'))]
    | lref _ => simp [immediate] at h
    | mref _ => simp [immediate] at h
    | _ => rfl

end Heap
end KotoVerif
