/-
Helper lemmas for C08 (poller run structure, unwinding). Core Lean only.
-/
import KotoVerif.Model.Timeout

namespace KotoVerif.C08L
open KotoVerif.Timeout

/-! ### `check` case analysis -/

theorem check_skip (F : TOps) (s : St) (now : Nat) (h : s.sinceLast < s.intervalInstr) :
    check F s now = ({ s with sinceLast := s.sinceLast + 1 }, .skip) := by
  simp [check, h]

theorem check_timeout (F : TOps) (s : St) (now : Nat) (h : ¬ s.sinceLast < s.intervalInstr)
    (hd : s.deadline ≤ now) : check F s now = (s, .timeout) := by
  simp [check, h, hd]

theorem check_ok (F : TOps) (s : St) (now : Nat) (h : ¬ s.sinceLast < s.intervalInstr)
    (hd : ¬ s.deadline ≤ now) :
    check F s now =
      ({ s with intervalInstr := nextInterval F s now, sinceLast := 0, lastCheck := now }, .ok) := by
  simp [check, h, hd]

/-- the three cases of `check_for_timeout` -/
theorem check_cases (F : TOps) (s : St) (now : Nat) :
    (s.sinceLast < s.intervalInstr ∧ check F s now = ({ s with sinceLast := s.sinceLast + 1 }, .skip)) ∨
    (¬ s.sinceLast < s.intervalInstr ∧ s.deadline ≤ now ∧ check F s now = (s, .timeout)) ∨
    (¬ s.sinceLast < s.intervalInstr ∧ ¬ s.deadline ≤ now ∧
      check F s now =
        ({ s with intervalInstr := nextInterval F s now, sinceLast := 0, lastCheck := now }, .ok)) := by
  by_cases h : s.sinceLast < s.intervalInstr
  · exact Or.inl ⟨h, check_skip F s now h⟩
  · by_cases hd : s.deadline ≤ now
    · exact Or.inr (Or.inl ⟨h, hd, check_timeout F s now h hd⟩)
    · exact Or.inr (Or.inr ⟨h, hd, check_ok F s now h hd⟩)

theorem check_deadline (F : TOps) (s : St) (now : Nat) : (check F s now).1.deadline = s.deadline := by
  rcases check_cases F s now with ⟨_, h⟩ | ⟨_, _, h⟩ | ⟨_, _, h⟩ <;> rw [h]

theorem check_limit (F : TOps) (s : St) (now : Nat) : (check F s now).1.limit = s.limit := by
  rcases check_cases F s now with ⟨_, h⟩ | ⟨_, _, h⟩ | ⟨_, _, h⟩ <;> rw [h]

theorem check_le (F : TOps) (s : St) (now : Nat) (h : s.sinceLast ≤ s.intervalInstr) :
    (check F s now).1.sinceLast ≤ (check F s now).1.intervalInstr := by
  rcases check_cases F s now with ⟨h1, h2⟩ | ⟨_, _, h2⟩ | ⟨_, _, h2⟩ <;> rw [h2] <;> simp <;> omega

/-! ### runs -/

theorem runN_deadline (F : TOps) (clk : Nat → Nat) (n : Nat) :
    ∀ (s : St) (i : Nat), (runN F clk n s i).deadline = s.deadline := by
  induction n with
  | zero => intro s i; rfl
  | succ n ih => intro s i; simp [runN, ih, check_deadline]

theorem runN_limit (F : TOps) (clk : Nat → Nat) (n : Nat) :
    ∀ (s : St) (i : Nat), (runN F clk n s i).limit = s.limit := by
  induction n with
  | zero => intro s i; rfl
  | succ n ih => intro s i; simp [runN, ih, check_limit]

theorem runN_le (F : TOps) (clk : Nat → Nat) (n : Nat) :
    ∀ (s : St) (i : Nat), s.sinceLast ≤ s.intervalInstr →
      (runN F clk n s i).sinceLast ≤ (runN F clk n s i).intervalInstr := by
  induction n with
  | zero => intro s i h; exact h
  | succ n ih => intro s i h; simp only [runN]; exact ih _ _ (check_le F s _ h)

theorem runN_add (F : TOps) (clk : Nat → Nat) (a : Nat) :
    ∀ (b : Nat) (s : St) (i : Nat), runN F clk (a + b) s i = runN F clk b (runN F clk a s i) (i + a) := by
  induction a with
  | zero => intro b s i; simp [runN]
  | succ a ih =>
    intro b s i
    have : a + 1 + b = (a + b) + 1 := by omega
    rw [this]
    simp only [runN]
    rw [ih]
    have : i + 1 + a = i + (a + 1) := by omega
    rw [this]

/-- the last check of a run, peeled off at the end -/
theorem runN_succ_last (F : TOps) (clk : Nat → Nat) (n : Nat) (s : St) (i : Nat) :
    runN F clk (n + 1) s i = (check F (runN F clk n s i) (clk (i + n))).1 := by
  rw [runN_add F clk n 1 s i]
  simp [runN]

/-- `k` checks that stay below the interval only advance the counter — whatever the clock says -/
theorem runN_skips (F : TOps) (clk : Nat → Nat) (k : Nat) :
    ∀ (s : St) (i : Nat), s.sinceLast + k ≤ s.intervalInstr → runN F clk k s i = skipMany s k := by
  induction k with
  | zero => intro s i _; simp [runN, skipMany]
  | succ k ih =>
    intro s i h
    simp only [runN]
    rw [check_skip F s _ (by omega)]
    rw [ih _ _ (by simp; omega)]
    simp [skipMany]
    omega

/-! ### unwinding -/

theorem unwind_spec (kind : ErrKind) (ac : Bool) (stack : List Frame) :
    (∀ h rest, unwind ac stack = (some h, rest) →
        deliverFlat kind ac stack = .caught h rest.length ∧ rest.length ≤ stack.length) ∧
    (unwind ac stack = (none, []) → deliverFlat kind ac stack = .escaped kind) ∧
    (∀ f below, unwind ac stack = (none, f :: below) →
        deliverFlat kind ac stack = deliverFlat kind kind.allowCatch below ∧
          below.length < stack.length) := by
  induction stack with
  | nil => simp [unwind, deliverFlat]
  | cons f rest ih =>
    cases ac <;> cases hc : f.catches <;> cases hb : f.barrier <;>
      simp [unwind, deliverFlat, hc, hb] <;> grind

theorem deliver_eq_flat (fuel : Nat) :
    ∀ (kind : ErrKind) (ac : Bool) (stack : List Frame), stack.length < fuel →
      deliver fuel kind ac stack = deliverFlat kind ac stack := by
  induction fuel with
  | zero => intro kind ac stack h; omega
  | succ fuel ih =>
    intro kind ac stack hlen
    have hs := unwind_spec kind ac stack
    unfold deliver
    split
    · rename_i h rest heq
      exact ((hs.1 h rest heq).1).symm
    · rename_i heq
      exact (hs.2.1 heq).symm
    · rename_i f heq
      have := hs.2.2 f [] heq
      rw [this.1]; simp [deliverFlat]
    · rename_i f below _ heq
      have := hs.2.2 f below heq
      rw [this.1]
      exact ih _ _ below (by omega)

theorem deliverTimeout_flat (stack : List Frame) : deliverTimeout stack = deliverFlat .timeout false stack :=
  deliver_eq_flat _ _ _ _ (by omega)

theorem deliverError_flat (stack : List Frame) : deliverError stack = deliverFlat .other true stack :=
  deliver_eq_flat _ _ _ _ (by omega)

/-- a timeout passes every frame of every entry -/
theorem flat_timeout_escaped (stack : List Frame) :
    deliverFlat .timeout false stack = .escaped .timeout := by
  induction stack with
  | nil => simp [deliverFlat]
  | cons f rest ih => cases hb : f.barrier <;> simp [deliverFlat, hb, ErrKind.allowCatch, ih]

theorem flat_true_handler (stack : List Frame) :
    (∀ h, firstHandler stack = some h →
      ∃ n, deliverFlat .other true stack = .caught h n ∧ 0 < n ∧ n ≤ stack.length) ∧
    (firstHandler stack = none → deliverFlat .other true stack = .escaped .other) := by
  induction stack with
  | nil => simp [firstHandler, deliverFlat]
  | cons f rest ih =>
    cases hc : f.catches with
    | nil =>
      cases hb : f.barrier <;> simp [firstHandler, deliverFlat, hc, hb, ErrKind.allowCatch] <;> grind
    | cons h hs => simp [firstHandler, deliverFlat, hc]

/-! ### arithmetic behind `bounded_slack` -/

/-- if the float update returned at most the exact quotient + 1 (`hu`) and the previous interval of
`I + 1` checks took at least `(I + 1) · tmin` (`he`), the new interval satisfies
`I' · tmin ≤ m + tmin` where `m = min(target, remaining)` -/
theorem adapt_bound (I I' e m tmin : Nat) (he : (I + 1) * tmin ≤ e)
    (hu : I' * e ≤ I * m + e) : I' * tmin ≤ m + tmin := by
  cases I' with
  | zero => simp
  | succ k =>
    rw [Nat.succ_mul] at hu
    have h0 : k * e ≤ I * m := by omega
    have h1 : k * ((I + 1) * tmin) ≤ k * e := Nat.mul_le_mul_left k he
    have h2 : I * m ≤ (I + 1) * m := Nat.mul_le_mul_right m (Nat.le_succ I)
    have h3 : (I + 1) * (k * tmin) ≤ (I + 1) * m := by
      rw [Nat.mul_left_comm]; omega
    have h4 : k * tmin ≤ m := Nat.le_of_mul_le_mul_left h3 (Nat.succ_pos I)
    rw [Nat.succ_mul]; omega

/-- detection at `c ≤ T + (I + 1) · tmax` with an adapted interval (`I · tmin ≤ m + tmin`,
`m ≤ target`, `T + m ≤ D`): `c ≤ D + target · (tmax/tmin − 1) + 2 · tmax`, multiplied out by `tmin` -/
theorem final_bound (c T I tmin tmax m target D : Nat) (hle : tmin ≤ tmax)
    (hc : c ≤ T + (I + 1) * tmax) (hI : I * tmin ≤ m + tmin) (hm : m ≤ target) (hT : T + m ≤ D) :
    c * tmin ≤ D * tmin + target * (tmax - tmin) + 2 * tmin * tmax := by
  obtain ⟨d, rfl⟩ : ∃ d, tmax = tmin + d := ⟨tmax - tmin, by omega⟩
  have e0 : tmin + d - tmin = d := by omega
  rw [e0]
  have a1 : c * tmin ≤ (T + (I + 1) * (tmin + d)) * tmin := Nat.mul_le_mul_right tmin hc
  have a2 : (I * tmin) * (tmin + d) ≤ (m + tmin) * (tmin + d) := Nat.mul_le_mul_right _ hI
  have a3 : m * d ≤ target * d := Nat.mul_le_mul_right d hm
  have a4 : (T + m) * tmin ≤ D * tmin := Nat.mul_le_mul_right tmin hT
  grind

/-! ### run invariant behind `bounded_slack` -/

/-- run invariant behind `bounded_slack` (state before check number `n`) -/
structure Inv (I0 t0 limit tmin tmax : Nat) (clk : Nat → Nat) (n : Nat) (s : St) : Prop where
  dl : s.deadline = t0 + limit
  lim : s.limit = limit
  le : s.sinceLast ≤ s.intervalInstr
  hi : clk n ≤ s.lastCheck + (s.sinceLast + 1) * tmax
  lo : s.lastCheck + (s.sinceLast + 1) * tmin ≤ clk n
  shape : (s.lastCheck = t0 ∧ s.intervalInstr = I0) ∨
          (s.intervalInstr * tmin ≤ min (limit / 10) (t0 + limit - s.lastCheck) + tmin ∧
            s.lastCheck < t0 + limit)

theorem inv_init (F : TOps) (rate cap : UInt64) (maxI : Nat) (limit t0 tmin tmax : Nat) (clk : Nat → Nat)
    (hc : Costs clk t0 tmin tmax) :
    Inv (new F rate cap maxI limit t0).intervalInstr t0 limit tmin tmax clk 0 (new F rate cap maxI limit t0) := by
  refine ⟨rfl, rfl, by simp [new], ?_, ?_, Or.inl ⟨rfl, rfl⟩⟩
  · simp [new]; exact hc.first_hi
  · simp [new]; exact hc.first_lo

theorem inv_step (F : TOps) (I0 t0 limit tmin tmax : Nat) (clk : Nat → Nat)
    (hc : Costs clk t0 tmin tmax) (n : Nat) (s : St)
    (hi : Inv I0 t0 limit tmin tmax clk n s)
    (hnt : (check F s (clk n)).2 ≠ .timeout)
    (hs : (check F s (clk n)).2 = .ok → UpdateSound F s (clk n)) :
    Inv I0 t0 limit tmin tmax clk (n + 1) (check F s (clk n)).1 := by
  have hlo := hc.step_lo n
  have hhi := hc.step_hi n
  rcases check_cases F s (clk n) with ⟨h1, h2⟩ | ⟨_, _, h2⟩ | ⟨h1, hd, h2⟩
  · -- skip
    rw [h2]
    refine ⟨hi.dl, hi.lim, by simp; omega, ?_, ?_, hi.shape⟩
    · have := hi.hi
      simp only
      rw [show s.sinceLast + 1 + 1 = (s.sinceLast + 1) + 1 by rfl, Nat.succ_mul]
      omega
    · have := hi.lo
      simp only
      rw [show s.sinceLast + 1 + 1 = (s.sinceLast + 1) + 1 by rfl, Nat.succ_mul]
      omega
  · rw [h2] at hnt; simp at hnt
  · -- ok: interval recomputed
    have hsound := hs (by rw [h2])
    rw [h2]
    have heq : s.sinceLast = s.intervalInstr := by have := hi.le; omega
    have hlo' := hi.lo
    rw [heq] at hlo'
    have hdl := hi.dl
    have hlt : clk n < t0 + limit := by omega
    refine ⟨hi.dl, hi.lim, by simp, ?_, ?_, Or.inr ⟨?_, hlt⟩⟩
    · simp; omega
    · simp; omega
    · simp only
      unfold UpdateSound at hsound
      rw [hi.lim, hi.dl] at hsound
      exact adapt_bound s.intervalInstr (nextInterval F s (clk n)) (clk n - s.lastCheck)
        (min (limit / 10) (t0 + limit - clk n)) tmin (by omega) hsound

theorem inv_run (F : TOps) (rate cap : UInt64) (maxI : Nat) (limit t0 tmin tmax : Nat) (clk : Nat → Nat)
    (hc : Costs clk t0 tmin tmax)
    (hs : ∀ j, pollAt F clk (new F rate cap maxI limit t0) j = .ok →
      UpdateSound F (runN F clk j (new F rate cap maxI limit t0) 0) (clk j)) :
    ∀ n, (∀ j, j < n → pollAt F clk (new F rate cap maxI limit t0) j ≠ .timeout) →
      Inv (new F rate cap maxI limit t0).intervalInstr t0 limit tmin tmax clk n
        (runN F clk n (new F rate cap maxI limit t0) 0) := by
  intro n
  induction n with
  | zero => intro _; exact inv_init F rate cap maxI limit t0 tmin tmax clk hc
  | succ n ih =>
    intro hnt
    have ihn := ih (fun j hj => hnt j (by omega))
    rw [runN_succ_last]
    simp only [Nat.zero_add]
    exact inv_step F _ t0 limit tmin tmax clk hc n _ ihn (hnt n (by omega)) (hs n)

theorem least_of_exists (P : Nat → Prop) (n : Nat) (h : P n) :
    ∃ m, m ≤ n ∧ P m ∧ ∀ j, j < m → ¬ P j := by
  induction n using Nat.strongRecOn with
  | _ n ih =>
    by_cases hex : ∃ j, j < n ∧ P j
    · obtain ⟨j, hj, hp⟩ := hex
      obtain ⟨m, hm, hpm, hmin⟩ := ih j hj hp
      exact ⟨m, by omega, hpm, hmin⟩
    · exact ⟨n, Nat.le_refl n, h, fun j hj hp => hex ⟨j, hj, hp⟩⟩

theorem clk_lower (clk : Nat → Nat) (t0 tmin tmax : Nat) (hc : Costs clk t0 tmin tmax) :
    ∀ n, t0 + n + 1 ≤ clk n := by
  intro n
  induction n with
  | zero => have := hc.first_lo; have := hc.pos; omega
  | succ n ih => have := hc.step_lo n; have := hc.pos; omega

/-! ### run invariant behind `bounded_slack_capped` (no lower cost bound, no float hypothesis) -/

theorem check_maxInterval (F : TOps) (s : St) (now : Nat) : (check F s now).1.maxInterval = s.maxInterval := by
  rcases check_cases F s now with ⟨_, h⟩ | ⟨_, _, h⟩ | ⟨_, _, h⟩ <;> rw [h]

/-- state before check number `n`, for a run whose consecutive checks are at most `tmax` apart -/
structure InvC (M D tmax : Nat) (clk : Nat → Nat) (n : Nat) (s : St) : Prop where
  dl : s.deadline = D
  mx : s.maxInterval = M
  le : s.sinceLast ≤ s.intervalInstr
  cap : s.intervalInstr ≤ M
  last : s.lastCheck ≤ D
  hi : clk n ≤ s.lastCheck + (s.sinceLast + 1) * tmax

theorem invC_step (F : TOps) (M D tmax : Nat) (clk : Nat → Nat)
    (hstep : ∀ i, clk (i + 1) ≤ clk i + tmax) (n : Nat) (s : St)
    (hi : InvC M D tmax clk n s) (hnt : (check F s (clk n)).2 ≠ .timeout) :
    InvC M D tmax clk (n + 1) (check F s (clk n)).1 := by
  have hhi := hstep n
  rcases check_cases F s (clk n) with ⟨h1, h2⟩ | ⟨_, _, h2⟩ | ⟨h1, hd, h2⟩
  · rw [h2]
    refine ⟨hi.dl, hi.mx, by simp; omega, hi.cap, hi.last, ?_⟩
    have := hi.hi
    simp only
    rw [show s.sinceLast + 1 + 1 = (s.sinceLast + 1) + 1 by rfl, Nat.succ_mul]
    omega
  · rw [h2] at hnt; simp at hnt
  · rw [h2]
    have hdl := hi.dl
    refine ⟨hi.dl, hi.mx, by simp, ?_, ?_, ?_⟩
    · simp only [nextInterval]; rw [hi.mx]; exact Nat.min_le_right _ _
    · simp; omega
    · simp; omega

end KotoVerif.C08L
