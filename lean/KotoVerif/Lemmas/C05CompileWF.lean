/-
C05 `compile_wf`: the code the C01 compiler core (`Model/Compile.lean`) emits is well-formed bytecode.
Part 1: register bound (every register mentioned is below `registers_used()`).
-/
import KotoVerif.Lemmas.C01FrameFacts
import KotoVerif.Model.WF

namespace KotoVerif.Compile
open KotoVerif.Gen KotoVerif.Bytecode

/-! ### registers mentioned by code -/

def instrRegs : Instr → List Reg
  | .setNull r => [r]
  | .setBool r _ => [r]
  | .setInt r _ => [r]
  | .copy d s => [d, s]
  | .unop _ d s => [d, s]
  | .binop _ d a b => [d, a, b]
  | .compound _ l r => [l, r]

def codeRegs : Code → List Reg
  | .nil => []
  | .instr i => instrRegs i
  | .seq a b => codeRegs a ++ codeRegs b
  | .jumpIfFalse r b => r :: codeRegs b
  | .jumpIfTrue r b => r :: codeRegs b
  | .ifElse r t _ e => r :: (codeRegs t ++ codeRegs e)

/-- every register mentioned by `c` is below `n` -/
def CB (c : Code) (n : Nat) : Prop := ∀ r ∈ codeRegs c, r < n

theorem CB.mono {c : Code} {n n' : Nat} (h : CB c n) (hn : n ≤ n') : CB c n' :=
  fun r hr => Nat.lt_of_lt_of_le (h r hr) hn

@[simp] theorem CB_nil (n : Nat) : CB .nil n := by simp [CB, codeRegs]
@[simp] theorem CB_seq (a b : Code) (n : Nat) : CB (.seq a b) n ↔ CB a n ∧ CB b n := by
  simp only [CB, codeRegs, List.mem_append]
  exact ⟨fun h => ⟨fun r hr => h r (.inl hr), fun r hr => h r (.inr hr)⟩,
    fun h r hr => hr.elim (h.1 r) (h.2 r)⟩
@[simp] theorem CB_jif (r : Reg) (b : Code) (n : Nat) : CB (.jumpIfFalse r b) n ↔ r < n ∧ CB b n := by
  simp [CB, codeRegs]
@[simp] theorem CB_jit (r : Reg) (b : Code) (n : Nat) : CB (.jumpIfTrue r b) n ↔ r < n ∧ CB b n := by
  simp [CB, codeRegs]
@[simp] theorem CB_ifElse (r : Reg) (t e : Code) (w : Bool) (n : Nat) :
    CB (.ifElse r t w e) n ↔ r < n ∧ CB t n ∧ CB e n := by
  simp only [CB, codeRegs, List.mem_cons, List.mem_append]
  constructor
  · intro h
    exact ⟨h r (.inl rfl), fun q hq => h q (.inr (.inl hq)), fun q hq => h q (.inr (.inr hq))⟩
  · rintro ⟨h1, h2, h3⟩ q (rfl | hq | hq)
    · exact h1
    · exact h2 q hq
    · exact h3 q hq
@[simp] theorem CB_instr (i : Instr) (n : Nat) : CB (.instr i) n ↔ ∀ r ∈ instrRegs i, r < n := by
  simp [CB, codeRegs]

theorem CB_instrIf (o : Option Reg) (f : Reg → Instr) (n : Nat)
    (h : ∀ r, o = some r → ∀ q ∈ instrRegs (f r), q < n) : CB (instrIf o f) n := by
  cases o with
  | none => simp [instrIf]
  | some r => simpa [instrIf] using h r rfl

/-! ### the high-water mark -/

/-- same temporary base, the high-water mark only grows -/
structure Mono (F F' : Frame) : Prop where
  tb : F'.tb = F.tb
  tmax : F.tmax ≤ F'.tmax

theorem Mono.refl (F : Frame) : Mono F F := ⟨rfl, Nat.le_refl _⟩
theorem Mono.trans {A B C : Frame} (h1 : Mono A B) (h2 : Mono B C) : Mono A C :=
  ⟨h2.tb.trans h1.tb, Nat.le_trans h1.tmax h2.tmax⟩
theorem Mono.bound {F F' : Frame} (h : Mono F F') : F.tb + F.tmax ≤ F'.tb + F'.tmax := by
  have := h.tb; have := h.tmax; omega

/-- the live temporaries are covered by the high-water mark -/
def T (F : Frame) : Prop := F.tc ≤ F.tmax

theorem pushReg_T {F F' : Frame} {r : Reg} (h : F.pushReg = some (r, F')) :
    Mono F F' ∧ T F' ∧ r < F'.tb + F'.tmax := by
  unfold Frame.pushReg at h
  simp only at h
  split at h
  · cases h
  · cases h
    refine ⟨⟨rfl, by simp; omega⟩, by simp [T]; omega, by simp; omega⟩

theorem popReg_T {F F' : Frame} (h : F.popReg = some F') : Mono F F' ∧ (T F → T F') := by
  unfold Frame.popReg at h
  split at h
  · cases h
  · cases h
    exact ⟨⟨rfl, Nat.le_refl _⟩, fun ht => by simp only [T] at *; omega⟩

theorem popIf_T {b : Bool} {F F' : Frame} (h : popIf b F = some F') : Mono F F' ∧ (T F → T F') := by
  unfold popIf at h
  cases b with
  | true => exact popReg_T h
  | false => simp at h; subst h; exact ⟨Mono.refl _, id⟩

theorem assignResult_T {m : Mode} {F F1 : Frame} {res : Out} (h : assignResult m F = some (res, F1)) :
    Mono F F1 ∧ (T F → T F1) := by
  unfold assignResult at h
  cases m with
  | fixed r => simp at h; obtain ⟨_, rfl⟩ := h; exact ⟨Mono.refl _, id⟩
  | none => simp at h; obtain ⟨_, rfl⟩ := h; exact ⟨Mono.refl _, id⟩
  | any =>
    simp only [Option.map_eq_some_iff, Prod.exists] at h
    obtain ⟨r, F2, hp, h⟩ := h
    simp only [Prod.mk.injEq] at h
    obtain ⟨_, rfl⟩ := h
    obtain ⟨a, b, _⟩ := pushReg_T hp
    exact ⟨a, fun _ => b⟩

theorem resultOrTemp_T {res : Out} {F1 F2 : Frame} {reg : Reg} (h : resultOrTemp res F1 = some (reg, F2)) :
    Mono F1 F2 ∧ (T F1 → T F2) ∧ (res.reg = Option.none → reg < F2.tb + F2.tmax) := by
  unfold resultOrTemp at h
  cases hr : res.reg with
  | some r => simp [hr] at h; obtain ⟨_, rfl⟩ := h; exact ⟨Mono.refl _, id, by simp⟩
  | none =>
    simp only [hr] at h
    obtain ⟨a, b, c⟩ := pushReg_T h
    exact ⟨a, fun _ => b, fun _ => c⟩

theorem reserve_T {F F' : Frame} {x : VarId} {r : Reg} (h : F.reserve x = some (r, F')) :
    Mono F F' ∧ (T F → T F') := by
  unfold Frame.reserve at h
  split at h
  · cases h; exact ⟨Mono.refl _, id⟩
  · simp only at h
    split at h
    · cases h; exact ⟨⟨rfl, Nat.le_refl _⟩, id⟩
    · cases h

theorem commit_T {F F' : Frame} {r : Reg} (h : F.commit r = some F') : Mono F F' ∧ (T F → T F') := by
  unfold Frame.commit at h
  split at h
  · cases h; exact ⟨Mono.refl _, id⟩
  · cases h; exact ⟨⟨rfl, Nat.le_refl _⟩, id⟩
  · cases h

theorem commitIf_T {o : Out} {vr : Reg} {F F' : Frame} (h : commitIf o vr F = some F') :
    Mono F F' ∧ (T F → T F') := by
  unfold commitIf at h
  split at h
  · cases h; exact ⟨Mono.refl _, id⟩
  · exact commit_T h

/-- the output register of a `compile` call is below the final frame's register count -/
theorem out_bound {m : Mode} {e : Expr} {F F' : Frame} {out : Out} (ff : FF m e F out F')
    (ht : T F') (hfix : ∀ r, m = .fixed r → r < F'.tb + F'.tmax) :
    ∀ r, out.reg = some r → r < F'.tb + F'.tmax := by
  intro r hr
  have hs := ff.shape
  unfold OutShape at hs
  cases m with
  | fixed q => subst hs; simp at hr; subst hr; exact hfix _ rfl
  | none => subst hs; simp at hr
  | any =>
    rcases hs with hs | ⟨_, y, q, _, hq, hh⟩
    · subst hs
      simp at hr
      subst hr
      have := ff.tc; have := ff.le.tb
      simp only [tempCount, bcount_true, T] at *
      omega
    · rw [hq] at hr; cases hr
      have := Has.lt_tb ff.wf hh
      omega


/-- the result register chosen by `assign_result_register` is below the register count -/
theorem res_bound {m : Mode} {F F1 : Frame} {res : Out} (h : assignResult m F = some (res, F1))
    (hfix : ∀ r, m = .fixed r → r < F.tb + F.tmax) :
    ∀ r, res.reg = some r → r < F1.tb + F1.tmax := by
  intro r hr
  obtain ⟨hm, ht⟩ := assignResult_T h
  have hb := hm.bound
  unfold assignResult at h
  cases m with
  | fixed q => simp at h; obtain ⟨rfl, rfl⟩ := h; simp at hr; subst hr; exact hfix _ rfl
  | none => simp at h; obtain ⟨rfl, rfl⟩ := h; simp at hr
  | any =>
    simp only [Option.map_eq_some_iff, Prod.exists] at h
    obtain ⟨q, F2, hp, h⟩ := h
    simp only [Prod.mk.injEq] at h
    obtain ⟨rfl, rfl⟩ := h
    simp at hr; subst hr
    exact (pushReg_T hp).2.2

theorem noFix_any {n : Nat} : ∀ r, Mode.any = .fixed r → r < n := by intro r h; cases h
theorem noFix_none {n : Nat} : ∀ r, Mode.none = .fixed r → r < n := by intro r h; cases h
theorem fix_of {q n : Nat} (h : q < n) : ∀ r, Mode.fixed q = .fixed r → r < n := by
  intro r hr; cases hr; exact h
theorem branch_fix {o : Option Reg} {n : Nat} (h : ∀ r, o = some r → r < n) :
    ∀ r, branchMode o = .fixed r → r < n := by
  intro r hr
  cases o with
  | none => simp [branchMode] at hr
  | some q => simp [branchMode] at hr; subst hr; exact h _ rfl

/-- **register bound**: every register mentioned by the code `compile` emits is below the final
frame's `registers_used()`; the high-water mark only grows and covers the live temporaries. -/
theorem compile_regs : ∀ (e : Expr) (m : Mode) (F : Frame) (code : Code) (out : Out) (F' : Frame),
    compile e m F = some (code, out, F') → WF F → T F → (∀ r, m = .fixed r → r < F.tb + F.tmax) →
    Mono F F' ∧ T F' ∧ CB code (F'.tb + F'.tmax) := by
  intro e
  induction e with
  | null | bool _ | int _ =>
    intro m F code out F' h hw ht hfix
    simp only [compile, bind, Option.bind_eq_some_iff, Prod.exists, pure, Option.some.injEq, Prod.mk.injEq] at h
    obtain ⟨res, F1, ha, rfl, _, rfl⟩ := h
    obtain ⟨hm, htt⟩ := assignResult_T ha
    refine ⟨hm, htt ht, CB_instrIf _ _ _ ?_⟩
    intro r hr q hq
    have := res_bound ha hfix r hr
    simp [instrRegs] at hq
    omega
  | var x =>
    intro m F code out F' h hw ht hfix
    simp only [compile] at h
    cases hg : F.getAssigned x with
    | none => simp [hg] at h
    | some rx =>
      simp only [hg] at h
      have hrx : rx < F.tb := Has.lt_tb hw (getAssigned_has hg)
      cases m with
      | none => simp at h; obtain ⟨rfl, _, rfl⟩ := h; exact ⟨Mono.refl _, ht, by simp⟩
      | any => simp at h; obtain ⟨rfl, _, rfl⟩ := h; exact ⟨Mono.refl _, ht, by simp⟩
      | fixed r =>
        simp at h; obtain ⟨rfl, _, rfl⟩ := h
        refine ⟨Mono.refl _, ht, ?_⟩
        have := hfix r rfl
        simp [instrRegs]; omega
  | un op e ih =>
    intro m F code out F' h hw ht hfix
    simp only [compile, bind, Option.bind_eq_some_iff, Prod.exists, pure, Option.some.injEq, Prod.mk.injEq] at h
    obtain ⟨res, F1, ha, c, o, F2, hc, vr, hvr, F3, hp, rfl, _, rfl⟩ := h
    obtain ⟨h1, h2, _, _⟩ := assignResult_spec ha
    have hw1 := hw.of_locals_eq h1 h2
    obtain ⟨m1, t1⟩ := assignResult_T ha
    obtain ⟨m2, t2, cb⟩ := ih .any F1 c o F2 hc hw1 (t1 ht) noFix_any
    have ff := compile_frame e .any F1 c o F2 hc hw1
    have hv := out_bound ff t2 noFix_any vr hvr
    obtain ⟨m3, t3⟩ := popIf_T hp
    have b12 := m2.bound; have b23 := m3.bound
    refine ⟨m1.trans (m2.trans m3), t3 t2, ?_⟩
    simp only [CB_seq]
    refine ⟨cb.mono b23, CB_instrIf _ _ _ ?_⟩
    intro r hr q hq
    have := res_bound ha hfix r hr
    simp [instrRegs] at hq
    rcases hq with rfl | rfl <;> omega
  | bin op a b iha ihb =>
    intro m F code out F' h hw ht hfix
    simp only [compile, bind, Option.bind_eq_some_iff, Prod.exists] at h
    obtain ⟨res, F1, ha, h⟩ := h
    obtain ⟨h1, h2, _, _⟩ := assignResult_spec ha
    have hw1 := hw.of_locals_eq h1 h2
    obtain ⟨m1, t1⟩ := assignResult_T ha
    cases hr : res.reg with
    | some r =>
      simp only [hr, Option.bind_eq_some_iff, Prod.exists, pure, Option.some.injEq, Prod.mk.injEq] at h
      obtain ⟨ca, oa, F2, hca, ra, hra, cb, ob, F3, hcb, rb, hrb, F4, hp1, F5, hp2, rfl, _, rfl⟩ := h
      obtain ⟨m2, t2, cba⟩ := iha .any F1 ca oa F2 hca hw1 (t1 ht) noFix_any
      have ffa := compile_frame a .any F1 ca oa F2 hca hw1
      obtain ⟨m3, t3, cbb⟩ := ihb .any F2 cb ob F3 hcb ffa.wf t2 noFix_any
      have ffb := compile_frame b .any F2 cb ob F3 hcb ffa.wf
      have hva := out_bound ffa t2 noFix_any ra hra
      have hvb := out_bound ffb t3 noFix_any rb hrb
      obtain ⟨m4, t4⟩ := popIf_T hp1
      obtain ⟨m5, t5⟩ := popIf_T hp2
      have b12 := m2.bound; have b23 := m3.bound; have b34 := m4.bound; have b45 := m5.bound
      have hres := res_bound ha hfix r hr
      refine ⟨m1.trans (m2.trans (m3.trans (m4.trans m5))), t5 (t4 t3), ?_⟩
      simp only [CB_seq, CB_instr]
      refine ⟨cba.mono (by omega), cbb.mono (by omega), ?_⟩
      intro q hq
      simp [instrRegs] at hq
      rcases hq with rfl | rfl | rfl <;> omega
    | none =>
      simp only [hr, Option.bind_eq_some_iff, Prod.exists, pure, Option.some.injEq, Prod.mk.injEq] at h
      obtain ⟨ca, oa, F2, hca, cb, ob, F3, hcb, rfl, _, rfl⟩ := h
      obtain ⟨m2, t2, cba⟩ := iha .none F1 ca oa F2 hca hw1 (t1 ht) noFix_none
      have ffa := compile_frame a .none F1 ca oa F2 hca hw1
      obtain ⟨m3, t3, cbb⟩ := ihb .none F2 cb ob F3 hcb ffa.wf t2 noFix_none
      have b23 := m3.bound
      refine ⟨m1.trans (m2.trans m3), t3, ?_⟩
      simp only [CB_seq]
      exact ⟨cba.mono b23, cbb⟩
  | cmp op a b iha ihb =>
    intro m F code out F' h hw ht hfix
    simp only [compile, bind, Option.bind_eq_some_iff, Prod.exists, pure, Option.some.injEq, Prod.mk.injEq] at h
    obtain ⟨res, F1, ha, r0, F1', hrt, ca, oa, F2, hca, ra, hra, cb, ob, F3, hcb, rb, hrb, rfl, _, rfl⟩ := h
    obtain ⟨h1, h2, _, _⟩ := assignResult_spec ha
    have hw1 := hw.of_locals_eq h1 h2
    obtain ⟨m1, t1⟩ := assignResult_T ha
    obtain ⟨u1, u2, _⟩ := resultOrTemp_spec hrt
    have hw1' := hw1.of_locals_eq u1 u2
    obtain ⟨m1', t1', _⟩ := resultOrTemp_T hrt
    obtain ⟨m2, t2, cba⟩ := iha .any F1' ca oa F2 hca hw1' (t1' (t1 ht)) noFix_any
    have ffa := compile_frame a .any F1' ca oa F2 hca hw1'
    obtain ⟨m3, t3, cbb⟩ := ihb .any F2 cb ob F3 hcb ffa.wf t2 noFix_any
    have ffb := compile_frame b .any F2 cb ob F3 hcb ffa.wf
    have hva := out_bound ffa t2 noFix_any ra hra
    have hvb := out_bound ffb t3 noFix_any rb hrb
    have b11 := m1'.bound; have b12 := m2.bound; have b23 := m3.bound
    have mall : Mono F1 F3 := m1'.trans (m2.trans m3)
    refine ⟨m1.trans ⟨mall.tb, mall.tmax⟩, ?_, ?_⟩
    · have := t1 ht
      have := mall.tmax
      simp only [T] at *
      omega
    · show CB _ (F3.tb + F3.tmax)
      simp only [CB_seq]
      refine ⟨cba.mono (by omega), cbb, CB_instrIf _ _ _ ?_⟩
      intro r hr q hq
      have := res_bound ha hfix r hr
      simp [instrRegs] at hq
      rcases hq with rfl | rfl | rfl <;> omega
  | chain3 op1 op2 a b c iha ihb ihc =>
    intro m F code out F' h hw ht hfix
    simp only [compile, bind, Option.bind_eq_some_iff, Prod.exists, pure, Option.some.injEq, Prod.mk.injEq] at h
    obtain ⟨res, F1, ha, creg, F1', hrt, ca, oa, F2, hca, ra, hra, cb, ob, F3, hcb, rb, hrb, cc, oc, F4, hcc, rc, hrc, rfl, _, rfl⟩ := h
    obtain ⟨h1, h2, _, _⟩ := assignResult_spec ha
    have hw1 := hw.of_locals_eq h1 h2
    obtain ⟨m1, t1⟩ := assignResult_T ha
    obtain ⟨u1, u2, u3⟩ := resultOrTemp_spec hrt
    have hw1' := hw1.of_locals_eq u1 u2
    obtain ⟨m1', t1', hcreg⟩ := resultOrTemp_T hrt
    obtain ⟨m2, t2, cba⟩ := iha .any F1' ca oa F2 hca hw1' (t1' (t1 ht)) noFix_any
    have ffa := compile_frame a .any F1' ca oa F2 hca hw1'
    obtain ⟨m3, t3, cbb⟩ := ihb .any F2 cb ob F3 hcb ffa.wf t2 noFix_any
    have ffb := compile_frame b .any F2 cb ob F3 hcb ffa.wf
    obtain ⟨m4, t4, cbc⟩ := ihc .any F3 cc oc F4 hcc ffb.wf t3 noFix_any
    have ffc := compile_frame c .any F3 cc oc F4 hcc ffb.wf
    have hva := out_bound ffa t2 noFix_any ra hra
    have hvb := out_bound ffb t3 noFix_any rb hrb
    have hvc := out_bound ffc t4 noFix_any rc hrc
    have b11 := m1'.bound; have b12 := m2.bound; have b23 := m3.bound; have b34 := m4.bound
    have mall : Mono F1 F4 := m1'.trans (m2.trans (m3.trans m4))
    have hcr : creg < F1'.tb + F1'.tmax := by
      rcases u3 with ⟨u3, _⟩ | ⟨u3, _, _⟩
      · have := res_bound ha hfix creg u3; omega
      · exact hcreg u3
    refine ⟨m1.trans ⟨mall.tb, mall.tmax⟩, ?_, ?_⟩
    · have := t1 ht
      have := mall.tmax
      simp only [T] at *
      omega
    · show CB _ (F4.tb + F4.tmax)
      simp only [CB_seq, CB_jif, CB_instr]
      refine ⟨cba.mono (by omega), cbb.mono (by omega), ?_, by omega, cbc, CB_instrIf _ _ _ ?_⟩
      · intro q hq
        simp [instrRegs] at hq
        rcases hq with rfl | rfl | rfl <;> omega
      · intro r hr q hq
        have := res_bound ha hfix r hr
        simp [instrRegs] at hq
        rcases hq with rfl | rfl | rfl <;> omega
  | and a b iha ihb | or a b iha ihb =>
    intro m F code out F' h hw ht hfix
    simp only [compile, bind, Option.bind_eq_some_iff, Prod.exists, pure, Option.some.injEq, Prod.mk.injEq] at h
    obtain ⟨res, F1, ha, reg, F2, hrt, ca, oa, F3, hca, cb, ob, F4, hcb, F5, hp, rfl, _, rfl⟩ := h
    obtain ⟨h1, h2, _, _⟩ := assignResult_spec ha
    have hw1 := hw.of_locals_eq h1 h2
    obtain ⟨m1, t1⟩ := assignResult_T ha
    obtain ⟨u1, u2, u3⟩ := resultOrTemp_spec hrt
    have hw2 := hw1.of_locals_eq u1 u2
    obtain ⟨m2, t2, hreg'⟩ := resultOrTemp_T hrt
    have b12 := m2.bound
    have hreg : reg < F2.tb + F2.tmax := by
      rcases u3 with ⟨u3, _⟩ | ⟨u3, _, _⟩
      · have := res_bound ha hfix reg u3; omega
      · exact hreg' u3
    obtain ⟨m3, t3, cba⟩ := iha (.fixed reg) F2 ca oa F3 hca hw2 (t2 (t1 ht)) (fix_of hreg)
    have ffa := compile_frame a (.fixed reg) F2 ca oa F3 hca hw2
    have b23 := m3.bound
    obtain ⟨m4, t4, cbb⟩ := ihb (.fixed reg) F3 cb ob F4 hcb ffa.wf t3 (fix_of (by omega))
    obtain ⟨m5, t5⟩ := popIf_T hp
    have b34 := m4.bound; have b45 := m5.bound
    refine ⟨m1.trans (m2.trans (m3.trans (m4.trans m5))), t5 t4, ?_⟩
    first
      | (simp only [CB_seq, CB_jif]; exact ⟨cba.mono (by omega), by omega, cbb.mono (by omega)⟩)
      | (simp only [CB_seq, CB_jit]; exact ⟨cba.mono (by omega), by omega, cbb.mono (by omega)⟩)
  | assign x e ih =>
    intro m F code out F' h hw ht hfix
    simp only [compile, bind, Option.bind_eq_some_iff, Prod.exists, pure, Option.some.injEq, Prod.mk.injEq] at h
    obtain ⟨rx, F1, hres, c, o, F2, hc, vr, hvr, F3, hcm, rfl, hout, rfl⟩ := h
    obtain ⟨r1, r2, r3, _, _, _⟩ := reserve_spec hw hres
    obtain ⟨m1, t1⟩ := reserve_T hres
    have hrx : rx < F1.tb := Nat.lt_of_lt_of_le r1.lt r2.len
    obtain ⟨m2, t2, cb⟩ := ih (.fixed rx) F1 c o F2 hc r2 (t1 ht) (fix_of (by omega))
    have ff := compile_frame e (.fixed rx) F1 c o F2 hc r2
    have so : o = ⟨some rx, false⟩ := ff.shape
    subst so
    simp only [Option.some.injEq] at hvr
    subst hvr
    obtain ⟨m3, t3⟩ := commitIf_T hcm
    have b01 := m1.bound; have b12 := m2.bound; have b23 := m3.bound
    have htb : F1.tb = F.tb := r3
    refine ⟨m1.trans (m2.trans m3), t3 t2, ?_⟩
    cases m with
    | none => simpa [assignOut] using cb.mono b23
    | any => simpa [assignOut] using cb.mono b23
    | fixed r =>
      have := hfix r rfl
      simp only [assignOut]
      split
      · simp only [CB_seq, CB_instr]
        refine ⟨cb.mono b23, ?_⟩
        intro q hq
        simp [instrRegs] at hq
        rcases hq with rfl | rfl <;> omega
      · exact cb.mono b23
  | compound op x e ih =>
    intro m F code out F' h hw ht hfix
    simp only [compile, bind, Option.bind_eq_some_iff, Prod.exists, pure, Option.some.injEq, Prod.mk.injEq] at h
    obtain ⟨res, F1, ha, cr, orr, F2, hc, rr, hrr, rl, hrl, F5, hp, rfl, _, rfl⟩ := h
    obtain ⟨h1, h2, _, _⟩ := assignResult_spec ha
    have hw1 := hw.of_locals_eq h1 h2
    obtain ⟨m1, t1⟩ := assignResult_T ha
    obtain ⟨m2, t2, cb⟩ := ih .any F1 cr orr F2 hc hw1 (t1 ht) noFix_any
    have ff := compile_frame e .any F1 cr orr F2 hc hw1
    have hv := out_bound ff t2 noFix_any rr hrr
    have hl : rl < F2.tb := Has.lt_tb ff.wf (getAssigned_has hrl)
    obtain ⟨m3, t3⟩ := popIf_T hp
    have b12 := m2.bound; have b23 := m3.bound
    refine ⟨m1.trans (m2.trans m3), t3 t2, ?_⟩
    simp only [CB_seq, CB_instr]
    refine ⟨cb.mono b23, ?_, CB_instrIf _ _ _ ?_⟩
    · intro q hq
      simp [instrRegs] at hq
      rcases hq with rfl | rfl <;> omega
    · intro r hr q hq
      have := res_bound ha hfix r hr
      simp [instrRegs] at hq
      rcases hq with rfl | rfl <;> omega
  | seq a b iha ihb =>
    intro m F code out F' h hw ht hfix
    simp only [compile, bind, Option.bind_eq_some_iff, Prod.exists, pure, Option.some.injEq, Prod.mk.injEq] at h
    obtain ⟨ca, oa, F1, hca, cb, o, F2, hcb, rfl, _, rfl⟩ := h
    obtain ⟨m1, t1, cba⟩ := iha .none F ca oa F1 hca hw ht noFix_none
    have ffa := compile_frame a .none F ca oa F1 hca hw
    have b01 := m1.bound
    obtain ⟨m2, t2, cbb⟩ := ihb m F1 cb o F2 hcb ffa.wf t1 (fun r hr => by have := hfix r hr; omega)
    have b12 := m2.bound
    refine ⟨m1.trans m2, t2, ?_⟩
    simp only [CB_seq]
    exact ⟨cba.mono b12, cbb⟩
  | ite c t e ihc iht ihe =>
    intro m F code out F' h hw ht hfix
    simp only [compile, bind, Option.bind_eq_some_iff, Prod.exists, pure, Option.some.injEq, Prod.mk.injEq] at h
    obtain ⟨res, F1, ha, cc, oc, F2, hcc, rc, hrc, F3, hp, ct, ot, F4, hct, ce, oe, F5, hce, rfl, _, rfl⟩ := h
    obtain ⟨h1, h2, _, _⟩ := assignResult_spec ha
    have hw1 := hw.of_locals_eq h1 h2
    obtain ⟨m1, t1⟩ := assignResult_T ha
    obtain ⟨m2, t2, cbc⟩ := ihc .any F1 cc oc F2 hcc hw1 (t1 ht) noFix_any
    have ffc := compile_frame c .any F1 cc oc F2 hcc hw1
    have hv := out_bound ffc t2 noFix_any rc hrc
    obtain ⟨p1, p2, _⟩ := popIf_spec hp
    have hw3 := ffc.wf.of_locals_eq p1 p2
    obtain ⟨m3, t3⟩ := popIf_T hp
    have b12 := m2.bound; have b23 := m3.bound
    have hres := res_bound ha hfix
    obtain ⟨m4, t4, cbt⟩ := iht (branchMode res.reg) F3 ct ot F4 hct hw3 (t3 t2)
      (branch_fix (fun r hr => by have := hres r hr; omega))
    have fft := compile_frame t (branchMode res.reg) F3 ct ot F4 hct hw3
    have b34 := m4.bound
    obtain ⟨m5, t5, cbe⟩ := ihe (branchMode res.reg) F4 ce oe F5 hce fft.wf t4
      (branch_fix (fun r hr => by have := hres r hr; omega))
    have b45 := m5.bound
    refine ⟨m1.trans (m2.trans (m3.trans (m4.trans m5))), t5, ?_⟩
    simp only [CB_seq, CB_ifElse]
    exact ⟨cbc.mono (by omega), by omega, cbt.mono (by omega), cbe⟩
  | ifThen c t ihc iht =>
    intro m F code out F' h hw ht hfix
    simp only [compile, bind, Option.bind_eq_some_iff, Prod.exists, pure, Option.some.injEq, Prod.mk.injEq] at h
    obtain ⟨res, F1, ha, cc, oc, F2, hcc, rc, hrc, F3, hp, ct, ot, F4, hct, rfl, _, rfl⟩ := h
    obtain ⟨h1, h2, _, _⟩ := assignResult_spec ha
    have hw1 := hw.of_locals_eq h1 h2
    obtain ⟨m1, t1⟩ := assignResult_T ha
    obtain ⟨m2, t2, cbc⟩ := ihc .any F1 cc oc F2 hcc hw1 (t1 ht) noFix_any
    have ffc := compile_frame c .any F1 cc oc F2 hcc hw1
    have hv := out_bound ffc t2 noFix_any rc hrc
    obtain ⟨p1, p2, _⟩ := popIf_spec hp
    have hw3 := ffc.wf.of_locals_eq p1 p2
    obtain ⟨m3, t3⟩ := popIf_T hp
    have b12 := m2.bound; have b23 := m3.bound
    have hres := res_bound ha hfix
    obtain ⟨m4, t4, cbt⟩ := iht (branchMode res.reg) F3 ct ot F4 hct hw3 (t3 t2)
      (branch_fix (fun r hr => by have := hres r hr; omega))
    have b34 := m4.bound
    refine ⟨m1.trans (m2.trans (m3.trans m4)), t4, ?_⟩
    simp only [CB_seq, CB_ifElse]
    refine ⟨cbc.mono (by omega), by omega, cbt, CB_instrIf _ _ _ ?_⟩
    intro r hr q hq
    have := hres r hr
    simp [instrRegs] at hq; subst hq
    omega


/-! ### jumps of the flattened stream stay inside their block -/

def Flat.skip : Flat → Nat
  | .op _ => 0
  | .jumpIfFalse _ s => s
  | .jumpIfTrue _ s => s
  | .jump s => s

/-- every jump skips at most the instructions that follow it in the list: its target is the
boundary of a later instruction of the list, or the end of the list -/
def jumpsOk : List Flat → Bool
  | [] => true
  | f :: rest => decide (f.skip ≤ rest.length) && jumpsOk rest

theorem jumpsOk_append (a b : List Flat) (ha : jumpsOk a = true) (hb : jumpsOk b = true) :
    jumpsOk (a ++ b) = true := by
  induction a with
  | nil => simpa using hb
  | cons f rest ih =>
    simp only [jumpsOk, Bool.and_eq_true, decide_eq_true_eq] at ha
    simp only [List.cons_append, jumpsOk, Bool.and_eq_true, decide_eq_true_eq, List.length_append]
    exact ⟨by omega, ih ha.2⟩

theorem flatten_ifElse_true (r : Reg) (t e : Code) :
    flatten (.ifElse r t true e)
      = .jumpIfFalse r ((flatten t).length + 1) :: (flatten t ++ .jump (flatten e).length :: flatten e) := by
  simp [flatten]

theorem flatten_ifElse_false (r : Reg) (t e : Code) :
    flatten (.ifElse r t false e) = .jumpIfFalse r (flatten t).length :: (flatten t ++ flatten e) := by
  simp [flatten]

theorem flatten_jumpsOk (c : Code) : jumpsOk (flatten c) = true := by
  induction c with
  | nil => rfl
  | instr i => simp [flatten, jumpsOk, Flat.skip]
  | seq a b iha ihb => exact jumpsOk_append _ _ iha ihb
  | jumpIfFalse r body ih => simp [flatten, jumpsOk, Flat.skip, ih]
  | jumpIfTrue r body ih => simp [flatten, jumpsOk, Flat.skip, ih]
  | ifElse r t w e iht ihe =>
    cases w with
    | true =>
      rw [flatten_ifElse_true]
      simp only [jumpsOk, Flat.skip, Bool.and_eq_true, decide_eq_true_eq]
      refine ⟨by simp, ?_⟩
      exact jumpsOk_append _ _ iht (by simp [jumpsOk, Flat.skip, ihe])
    | false =>
      rw [flatten_ifElse_false]
      simp only [jumpsOk, Flat.skip, Bool.and_eq_true, decide_eq_true_eq]
      exact ⟨by simp, jumpsOk_append _ _ iht ihe⟩

/-- registers of the flat stream are those of the structured code -/
def flatRegs : Flat → List Reg
  | .op i => instrRegs i
  | .jumpIfFalse r _ => [r]
  | .jumpIfTrue r _ => [r]
  | .jump _ => []

theorem flatten_regs (c : Code) (n : Nat) (h : CB c n) : ∀ f ∈ flatten c, ∀ r ∈ flatRegs f, r < n := by
  induction c with
  | nil => intro f hf; simp [flatten] at hf
  | instr i =>
    intro f hf r hr
    simp [flatten] at hf; subst hf
    exact (CB_instr i n).1 h r hr
  | seq a b iha ihb =>
    intro f hf
    simp only [flatten, List.mem_append] at hf
    rw [CB_seq] at h
    exact hf.elim (iha h.1 f) (ihb h.2 f)
  | jumpIfFalse q body ih =>
    intro f hf r hr
    rw [CB_jif] at h
    simp only [flatten, List.mem_cons] at hf
    rcases hf with rfl | hf
    · simp [flatRegs] at hr; omega
    · exact ih h.2 f hf r hr
  | jumpIfTrue q body ih =>
    intro f hf r hr
    rw [CB_jit] at h
    simp only [flatten, List.mem_cons] at hf
    rcases hf with rfl | hf
    · simp [flatRegs] at hr; omega
    · exact ih h.2 f hf r hr
  | ifElse q t w e iht ihe =>
    intro f hf r hr
    rw [CB_ifElse] at h
    cases w with
    | true =>
      rw [flatten_ifElse_true] at hf
      simp only [List.mem_cons, List.mem_append] at hf
      rcases hf with rfl | hf | rfl | hf
      · simp [flatRegs] at hr; omega
      · exact iht h.2.1 f hf r hr
      · simp [flatRegs] at hr
      · exact ihe h.2.2 f hf r hr
    | false =>
      rw [flatten_ifElse_false] at hf
      simp only [List.mem_cons, List.mem_append] at hf
      rcases hf with rfl | hf | hf
      · simp [flatRegs] at hr; omega
      · exact iht h.2.1 f hf r hr
      · exact ihe h.2.2 f hf r hr

/-! ### bytes: the flat stream encoded with `Model/Encode.lean` -/

def unOpcode : UnOp → Op
  | .neg => .Negate
  | .not => .Not

def binOpcode : BinOp → Op
  | .add => .Add | .sub => .Subtract | .mul => .Multiply | .div => .Divide | .rem => .Remainder
  | .pow => .Power | .lt => .Less | .le => .LessOrEqual | .gt => .Greater | .ge => .GreaterOrEqual
  | .eq => .Equal | .ne => .NotEqual

/-- compound assignment opcodes (`compile_compound_assignment_op` only exists for the arithmetic
operators; the parser produces no other `compound`) -/
def compoundOpcode : BinOp → Op
  | .add => .AddAssign | .sub => .SubtractAssign | .mul => .MultiplyAssign | .div => .DivideAssign
  | .rem => .RemainderAssign | .pow => .PowerAssign | _ => .AddAssign

/-- `compile_node` for `SmallInt` / `Int`: `Set0`, `Set1`, `SetNumberU8`, `SetNumberNegU8`, or
`LoadInt` with the constant's index `cidx n`. -/
def setIntInstr (cidx : Int → Nat) (r : Nat) (n : Int) : Bytecode.Instr :=
  if n = 0 then ⟨.Set0, [r]⟩
  else if n = 1 then ⟨.Set1, [r]⟩
  else if 0 ≤ n ∧ n ≤ 255 then ⟨.SetNumberU8, [r, n.toNat]⟩
  else if -255 ≤ n ∧ n < 0 then ⟨.SetNumberNegU8, [r, (-n).toNat]⟩
  else ⟨.LoadInt, [r, cidx n]⟩

def encInstr (cidx : Int → Nat) : Instr → Bytecode.Instr
  | .setNull r => ⟨.SetNull, [r]⟩
  | .setBool r b => ⟨if b then .SetTrue else .SetFalse, [r]⟩
  | .setInt r n => setIntInstr cidx r n
  | .copy d s => ⟨.Copy, [d, s]⟩
  | .unop op d s => ⟨unOpcode op, [d, s]⟩
  | .binop op d a b => ⟨binOpcode op, [d, a, b]⟩
  | .compound op l r => ⟨compoundOpcode op, [l, r]⟩

/-- byte size of one flat instruction -/
def flatSize (cidx : Int → Nat) : Flat → Nat
  | .op i => (encode (encInstr cidx i)).length
  | .jumpIfFalse _ _ => 4
  | .jumpIfTrue _ _ => 4
  | .jump _ => 3

def sizeOf (cidx : Int → Nat) (fs : List Flat) : Nat := (fs.map (flatSize cidx)).sum

/-- the flat stream as bytecode instructions: a skip of `k` instructions becomes the byte size of
the `k` instructions that follow (`update_offset_placeholder`: offset = bytes emitted since the
placeholder) -/
def encFlat (cidx : Int → Nat) : List Flat → List Bytecode.Instr
  | [] => []
  | .op i :: rest => encInstr cidx i :: encFlat cidx rest
  | .jumpIfFalse r k :: rest => ⟨.JumpIfFalse, [r, sizeOf cidx (rest.take k)]⟩ :: encFlat cidx rest
  | .jumpIfTrue r k :: rest => ⟨.JumpIfTrue, [r, sizeOf cidx (rest.take k)]⟩ :: encFlat cidx rest
  | .jump k :: rest => ⟨.Jump, [sizeOf cidx (rest.take k)]⟩ :: encFlat cidx rest

/-- `compile_frame` for a main block: `NewFrame registers_used`, the body, `Return result` -/
def encodeMain (cidx : Int → Nat) (registersUsed : Nat) (fs : List Flat) (result : Reg) : List Nat :=
  (⟨.NewFrame, [registersUsed]⟩ :: (encFlat cidx fs ++ [⟨.Return, [result]⟩])).flatMap encode

/-- the chunk of a compiled main block, when compilation succeeds -/
def compileMain (cidx : Int → Nat) (e : Expr) (lc : Nat) : Option (List Nat) :=
  match compile e .any { tb := 1 + lc } with
  | some (code, out, F') =>
    match out.reg with
    | some r => some (encodeMain cidx F'.registersUsed (flatten code) r)
    | none => none
  | none => none


/-- the frame of a main block with `lc` locals (the same record as `mainFrame` of Props/C01Compile) -/
theorem mainFrame_wf' (lc : Nat) : WF ({ tb := 1 + lc } : Frame) := by
  refine ⟨by simp, ?_⟩
  intro i j x hi _
  simp only [Named] at hi
  cases i with
  | zero => simp [Slot.id?] at hi
  | succ i => simp at hi

/-- **compile_wf, part proved for all expressions of the core**: for a main block compiled with
`Any`, every register of every instruction of the flattened stream and the returned register are
below the `registers_used()` written into `NewFrame`, every jump lands on the boundary of a later
instruction of the stream or on its end (where `Return` follows), and the frame keeps room for
`self` and the locals. The stream contains no builder or try instruction, so it is balanced. -/
theorem compile_wf_flat (e : Expr) (lc : Nat) (code : Code) (out : Out) (F' : Frame)
    (h : compile e .any { tb := 1 + lc } = some (code, out, F')) :
    (∀ f ∈ flatten code, ∀ r ∈ flatRegs f, r < F'.registersUsed)
    ∧ (∃ r, out.reg = some r ∧ r < F'.registersUsed)
    ∧ jumpsOk (flatten code) = true
    ∧ 1 + lc ≤ F'.registersUsed := by
  have hw := mainFrame_wf' lc
  have ht : T ({ tb := 1 + lc } : Frame) := by simp [T]
  obtain ⟨hm, ht', hcb⟩ := compile_regs e .any _ code out F' h hw ht noFix_any
  have ff := compile_frame e .any _ code out F' h hw
  refine ⟨flatten_regs code _ hcb, ?_, flatten_jumpsOk code, ?_⟩
  · have hreg : ∃ r, out.reg = some r := by
      rcases ff.shape with hs | ⟨_, _, r, _, hr, _⟩
      · exact ⟨_, by rw [hs]⟩
      · exact ⟨r, hr⟩
    obtain ⟨r, hr⟩ := hreg
    exact ⟨r, hr, out_bound ff ht' noFix_any r hr⟩
  · have := hm.tb
    simp only [Frame.registersUsed] at *
    omega

end KotoVerif.Compile
