/-
C05 `compile_wf`, byte level, part 4: the listing of a structured code block of the compiler core is
covered (every instruction reachable) and target-closed (every successor lands in the block or on
its end) — by induction over `Code`.
-/
import KotoVerif.Lemmas.C05CWBytes3

set_option linter.unusedSimpArgs false

namespace KotoVerif.Compile
open KotoVerif.Gen KotoVerif.Bytecode

/-- the Z-annotated listing of a code block laid out at `pc` -/
def S (cidx : Int → Nat) (c : Code) (pc : Nat) : List Ann := lay (some Z) pc (encFlat cidx (flatten c))
def sz (cidx : Int → Nat) (c : Code) : Nat := sizeOf cidx (flatten c)

theorem S_start (cidx : Int → Nat) (c : Code) (pc : Nat) :
    (S cidx c pc = [] ∧ sz cidx c = 0) ∨ ∃ b rest, S cidx c pc = b :: rest ∧ b.pc = pc := by
  rcases lay_start (some Z) pc (encFlat cidx (flatten c)) with h | h
  · left
    have := encFlat_eq_nil cidx _ h
    simp [S, sz, this, lay, sizeOf, encFlat]
  · exact .inr h

/-! ### single instructions -/

def JIF (pc r off : Nat) : Ann := ⟨pc, 4, ⟨.JumpIfFalse, [r, off]⟩, some Z⟩
def JIT (pc r off : Nat) : Ann := ⟨pc, 4, ⟨.JumpIfTrue, [r, off]⟩, some Z⟩
def JMP (pc off : Nat) : Ann := ⟨pc, 3, ⟨.Jump, [off]⟩, some Z⟩

theorem fwd_jif (pc r off : Nat) (h : 0 < off) : pc + 4 + off ∈ fwdTgts (JIF pc r off) := by
  simp [fwdTgts, succsOf, JIF, succ_jif, Ann.next]; omega
theorem fwd_jit (pc r off : Nat) (h : 0 < off) : pc + 4 + off ∈ fwdTgts (JIT pc r off) := by
  simp [fwdTgts, succsOf, JIT, succ_jit, Ann.next]; omega
theorem fwd_jmp (pc off : Nat) : pc + 3 + off ∈ fwdTgts (JMP pc off) := by
  simp [fwdTgts, succsOf, JMP, succ_jump, Ann.next, isTerminal]
  omega

/-! ### shapes of the listings -/

theorem S_seq (cidx : Int → Nat) (a b : Code) (pc : Nat) :
    S cidx (.seq a b) pc = S cidx a pc ++ S cidx b (pc + sz cidx a) ∧ sz cidx (.seq a b) = sz cidx a + sz cidx b := by
  refine ⟨?_, ?_⟩
  · simp only [S, sz, flatten, encFlat_append cidx _ _ (flatten_jumpsOk a), lay_append, esizes_encFlat]
  · simp only [sz, flatten, sizeOf_append]

theorem S_jif (cidx : Int → Nat) (r : Nat) (body : Code) (pc : Nat) :
    S cidx (.jumpIfFalse r body) pc = JIF pc r (sz cidx body) :: S cidx body (pc + 4)
    ∧ sz cidx (.jumpIfFalse r body) = 4 + sz cidx body := by
  refine ⟨?_, ?_⟩
  · simp only [S, sz, flatten, encFlat, List.take_length, lay, esize_jif, JIF]
  · simp only [sz, flatten, sizeOf, List.map_cons, List.sum_cons, flatSize]

theorem S_jit (cidx : Int → Nat) (r : Nat) (body : Code) (pc : Nat) :
    S cidx (.jumpIfTrue r body) pc = JIT pc r (sz cidx body) :: S cidx body (pc + 4)
    ∧ sz cidx (.jumpIfTrue r body) = 4 + sz cidx body := by
  refine ⟨?_, ?_⟩
  · simp only [S, sz, flatten, encFlat, List.take_length, lay, esize_jit, JIT]
  · simp only [sz, flatten, sizeOf, List.map_cons, List.sum_cons, flatSize]

theorem S_ite_false (cidx : Int → Nat) (r : Nat) (t e : Code) (pc : Nat) :
    S cidx (.ifElse r t false e) pc
      = JIF pc r (sz cidx t) :: (S cidx t (pc + 4) ++ S cidx e (pc + 4 + sz cidx t))
    ∧ sz cidx (.ifElse r t false e) = 4 + sz cidx t + sz cidx e := by
  have htake : (flatten t ++ flatten e).take (flatten t).length = flatten t := by simp
  refine ⟨?_, ?_⟩
  · simp only [S, sz, flatten_ifElse_false, encFlat, htake, encFlat_append cidx _ _ (flatten_jumpsOk t), lay, lay_append,
      esize_jif, esizes_encFlat, JIF]
  · simp only [sz, flatten_ifElse_false, sizeOf, List.map_cons, List.sum_cons, flatSize, List.map_append, List.sum_append]
    omega

theorem S_ite_true (cidx : Int → Nat) (r : Nat) (t e : Code) (pc : Nat) :
    S cidx (.ifElse r t true e) pc
      = JIF pc r (sz cidx t + 3) ::
          (S cidx t (pc + 4) ++ JMP (pc + 4 + sz cidx t) (sz cidx e) :: S cidx e (pc + 4 + sz cidx t + 3))
    ∧ sz cidx (.ifElse r t true e) = 4 + sz cidx t + 3 + sz cidx e := by
  have htake : (flatten t ++ Flat.jump (flatten e).length :: flatten e).take ((flatten t).length + 1)
      = flatten t ++ [Flat.jump (flatten e).length] := by
    rw [List.take_append, List.take_of_length_le (by omega)]; simp
  refine ⟨?_, ?_⟩
  · simp only [S, sz, flatten_ifElse_true, encFlat, htake, encFlat_append cidx _ _ (flatten_jumpsOk t), lay, lay_append,
      esize_jif, esize_jump, esizes_encFlat, JIF, JMP, sizeOf, List.map_cons, List.sum_cons, flatSize, List.map_append,
      List.sum_append, List.take_length, List.map_nil, List.sum_nil]
    simp [Nat.add_assoc]
  · simp only [sz, flatten_ifElse_true, sizeOf, List.map_cons, List.sum_cons, flatSize, List.map_append, List.sum_append]
    omega


/-! ### the structured control flow of a block: coverage, exit state, landing -/

/-- exit condition of a block entered in state `(c, L)`: control falls out of its end, or its end
is a recorded forward target -/
def ExitOk (c : Bool) (L : List Nat) (A : List Ann) (e : Nat) : Prop :=
  (covAfter c L A).1 = true ∨ e ∈ (covAfter c L A).2

theorem block_ok (cidx : Int → Nat) : ∀ (c : Code) (pc : Nat) (cOk : Bool) (L : List Nat),
    (cOk = true ∨ pc ∈ L) →
    CovU cOk L (S cidx c pc) ∧ ExitOk cOk L (S cidx c pc) (pc + sz cidx c)
      ∧ Lands (S cidx c pc) (pc + sz cidx c) := by
  intro c
  induction c with
  | nil =>
    intro pc cOk L h
    simp [S, sz, flatten, encFlat, lay, sizeOf, CovU, ExitOk, covAfter, Lands, h]
  | instr x =>
    intro pc cOk L h
    obtain ⟨hs, ht⟩ := encInstr_succ cidx x pc (esize (encInstr cidx x)) (some Z)
    have hsz : sz cidx (.instr x) = esize (encInstr cidx x) := by
      simp [sz, flatten, sizeOf, flatSize, esize]
    have hS : S cidx (.instr x) pc = [⟨pc, esize (encInstr cidx x), encInstr cidx x, some Z⟩] := by
      simp [S, flatten, encFlat, lay]
    rw [hS, hsz]
    refine ⟨⟨h, trivial⟩, ?_, ?_⟩
    · simp [ExitOk, covAfter, ht]
    · refine ⟨⟨_, hs, ?_⟩, trivial⟩
      intro p hp
      simp at hp
      subst hp
      exact ⟨by have := esize_pos (encInstr cidx x); simp only; omega, .inr rfl⟩
  | seq a b iha ihb =>
    intro pc cOk L h
    obtain ⟨hS, hsz⟩ := S_seq cidx a b pc
    obtain ⟨ca, ea, la⟩ := iha pc cOk L h
    obtain ⟨cb, eb, lb⟩ := ihb (pc + sz cidx a) _ _ ea
    rw [hS, hsz]
    refine ⟨CovU_append _ _ _ _ ca cb, ?_, ?_⟩
    · unfold ExitOk at *
      rw [covAfter_append, ← Nat.add_assoc]
      exact eb
    · rw [← Nat.add_assoc]
      refine Lands_append _ _ (pc + sz cidx a) _ la lb ?_
      rcases S_start cidx b (pc + sz cidx a) with ⟨h1, h2⟩ | h1
      · exact .inl ⟨h1, by omega⟩
      · exact .inr h1
  | jumpIfFalse r body ih =>
    intro pc cOk L h
    obtain ⟨hS, hsz⟩ := S_jif cidx r body pc
    obtain ⟨cb, eb, lb⟩ := ih (pc + 4) true (fwdTgts (JIF pc r (sz cidx body)) ++ L) (.inl rfl)
    have hterm : isTerminal (JIF pc r (sz cidx body)).ins.op = false := by simp [JIF, isTerminal]
    rw [hS, hsz]
    have hadd : pc + (4 + sz cidx body) = pc + 4 + sz cidx body := by omega
    rw [hadd]
    refine ⟨⟨h, by simpa [hterm] using cb⟩, ?_, ?_⟩
    · unfold ExitOk at *
      simpa [covAfter, hterm] using eb
    · refine ⟨⟨_, succ_jif pc 4 r (sz cidx body) (some Z), ?_⟩, lb⟩
      intro p hp
      simp at hp
      rcases hp with rfl | rfl
      · refine ⟨by simp [JIF], ?_⟩
        rcases S_start cidx body (pc + 4) with ⟨h1, h2⟩ | ⟨b, rest, h1, h2⟩
        · exact .inr (by omega)
        · exact .inl ⟨b, by simp [h1], h2⟩
      · exact ⟨by simp [JIF]; omega, .inr rfl⟩
  | jumpIfTrue r body ih =>
    intro pc cOk L h
    obtain ⟨hS, hsz⟩ := S_jit cidx r body pc
    obtain ⟨cb, eb, lb⟩ := ih (pc + 4) true (fwdTgts (JIT pc r (sz cidx body)) ++ L) (.inl rfl)
    have hterm : isTerminal (JIT pc r (sz cidx body)).ins.op = false := by simp [JIT, isTerminal]
    rw [hS, hsz]
    have hadd : pc + (4 + sz cidx body) = pc + 4 + sz cidx body := by omega
    rw [hadd]
    refine ⟨⟨h, by simpa [hterm] using cb⟩, ?_, ?_⟩
    · unfold ExitOk at *
      simpa [covAfter, hterm] using eb
    · refine ⟨⟨_, succ_jit pc 4 r (sz cidx body) (some Z), ?_⟩, lb⟩
      intro p hp
      simp at hp
      rcases hp with rfl | rfl
      · refine ⟨by simp [JIT], ?_⟩
        rcases S_start cidx body (pc + 4) with ⟨h1, h2⟩ | ⟨b, rest, h1, h2⟩
        · exact .inr (by omega)
        · exact .inl ⟨b, by simp [h1], h2⟩
      · exact ⟨by simp [JIT]; omega, .inr rfl⟩
  | ifElse r t w e iht ihe =>
    intro pc cOk L h
    cases w with
    | false =>
      obtain ⟨hS, hsz⟩ := S_ite_false cidx r t e pc
      have hterm : isTerminal (JIF pc r (sz cidx t)).ins.op = false := by simp [JIF, isTerminal]
      obtain ⟨ct, et, lt⟩ := iht (pc + 4) true (fwdTgts (JIF pc r (sz cidx t)) ++ L) (.inl rfl)
      obtain ⟨ce, ee, le⟩ := ihe (pc + 4 + sz cidx t) _ _ et
      rw [hS, hsz]
      have hadd : pc + (4 + sz cidx t + sz cidx e) = pc + 4 + sz cidx t + sz cidx e := by omega
      rw [hadd]
      refine ⟨⟨h, by simpa [hterm] using CovU_append _ _ _ _ ct ce⟩, ?_, ?_⟩
      · unfold ExitOk at *
        simp only [covAfter, hterm, Bool.not_false]
        rw [covAfter_append]
        exact ee
      · have hstartE : (S cidx e (pc + 4 + sz cidx t) = [] ∧ pc + 4 + sz cidx t = pc + 4 + sz cidx t + sz cidx e)
            ∨ ∃ b rest, S cidx e (pc + 4 + sz cidx t) = b :: rest ∧ b.pc = pc + 4 + sz cidx t := by
          rcases S_start cidx e (pc + 4 + sz cidx t) with ⟨h1, h2⟩ | h1
          · exact .inl ⟨h1, by omega⟩
          · exact .inr h1
        refine ⟨⟨_, succ_jif pc 4 r (sz cidx t) (some Z), ?_⟩, Lands_append _ _ _ _ lt le hstartE⟩
        intro p hp
        simp at hp
        have hE : ∀ q, q = pc + 4 + sz cidx t →
            (∃ b ∈ S cidx t (pc + 4) ++ S cidx e (pc + 4 + sz cidx t), b.pc = q) ∨ q = pc + 4 + sz cidx t + sz cidx e := by
          intro q hq
          rcases hstartE with ⟨_, h2⟩ | ⟨b, rest, h1, h2⟩
          · exact .inr (by omega)
          · exact .inl ⟨b, by simp [h1], by omega⟩
        rcases hp with rfl | rfl
        · refine ⟨by simp [JIF], ?_⟩
          rcases S_start cidx t (pc + 4) with ⟨h1, h2⟩ | ⟨b, rest, h1, h2⟩
          · exact hE _ (by omega)
          · exact .inl ⟨b, by simp [h1], h2⟩
        · exact ⟨by simp [JIF]; omega, hE _ rfl⟩
    | true =>
      obtain ⟨hS, hsz⟩ := S_ite_true cidx r t e pc
      have hterm : isTerminal (JIF pc r (sz cidx t + 3)).ins.op = false := by simp [JIF, isTerminal]
      have htermJ : isTerminal (JMP (pc + 4 + sz cidx t) (sz cidx e)).ins.op = true := by simp [JMP, isTerminal]
      obtain ⟨ct, et, lt⟩ := iht (pc + 4) true (fwdTgts (JIF pc r (sz cidx t + 3)) ++ L) (.inl rfl)
      have hpcE : pc + 4 + sz cidx t + 3 ∈
          fwdTgts (JMP (pc + 4 + sz cidx t) (sz cidx e)) ++
            (covAfter true (fwdTgts (JIF pc r (sz cidx t + 3)) ++ L) (S cidx t (pc + 4))).2 := by
        simp only [List.mem_append]
        right
        apply covAfter_mono
        simp only [List.mem_append]
        left
        have := fwd_jif pc r (sz cidx t + 3) (by omega)
        have e1 : pc + 4 + (sz cidx t + 3) = pc + 4 + sz cidx t + 3 := by omega
        rw [e1] at this
        exact this
      obtain ⟨ce, ee, le⟩ := ihe (pc + 4 + sz cidx t + 3) false _ (.inr hpcE)
      rw [hS, hsz]
      have hadd : pc + (4 + sz cidx t + 3 + sz cidx e) = pc + 4 + sz cidx t + 3 + sz cidx e := by omega
      rw [hadd]
      have hcovJ : CovU (covAfter true (fwdTgts (JIF pc r (sz cidx t + 3)) ++ L) (S cidx t (pc + 4))).1
          (covAfter true (fwdTgts (JIF pc r (sz cidx t + 3)) ++ L) (S cidx t (pc + 4))).2
          (JMP (pc + 4 + sz cidx t) (sz cidx e) :: S cidx e (pc + 4 + sz cidx t + 3)) := by
        refine ⟨et, ?_⟩
        simpa [htermJ] using ce
      refine ⟨⟨h, by simpa [hterm] using CovU_append _ _ _ _ ct hcovJ⟩, ?_, ?_⟩
      · unfold ExitOk at *
        simp only [covAfter, hterm, Bool.not_false]
        rw [covAfter_append]
        simp only [covAfter, htermJ, Bool.not_true]
        exact ee
      · have hstartE : (S cidx e (pc + 4 + sz cidx t + 3) = [] ∧ pc + 4 + sz cidx t + 3 = pc + 4 + sz cidx t + 3 + sz cidx e)
            ∨ ∃ b rest, S cidx e (pc + 4 + sz cidx t + 3) = b :: rest ∧ b.pc = pc + 4 + sz cidx t + 3 := by
          rcases S_start cidx e (pc + 4 + sz cidx t + 3) with ⟨h1, h2⟩ | h1
          · exact .inl ⟨h1, by omega⟩
          · exact .inr h1
        have hLJ : Lands (JMP (pc + 4 + sz cidx t) (sz cidx e) :: S cidx e (pc + 4 + sz cidx t + 3))
            (pc + 4 + sz cidx t + 3 + sz cidx e) := by
          refine ⟨⟨_, succ_jump (pc + 4 + sz cidx t) 3 (sz cidx e) (some Z), ?_⟩, le⟩
          intro p hp
          simp at hp
          subst hp
          exact ⟨by simp [JMP]; omega, .inr rfl⟩
        refine ⟨⟨_, succ_jif pc 4 r (sz cidx t + 3) (some Z), ?_⟩,
          Lands_append _ _ (pc + 4 + sz cidx t) _ lt hLJ (.inr ⟨_, _, rfl, rfl⟩)⟩
        intro p hp
        simp at hp
        rcases hp with rfl | rfl
        · refine ⟨by simp [JIF], ?_⟩
          rcases S_start cidx t (pc + 4) with ⟨h1, h2⟩ | ⟨b, rest, h1, h2⟩
          · exact .inl ⟨JMP (pc + 4 + sz cidx t) (sz cidx e), by simp, by simp [JMP]; omega⟩
          · exact .inl ⟨b, by simp [h1], h2⟩
        · refine ⟨by simp [JIF]; omega, ?_⟩
          rcases hstartE with ⟨_, h2⟩ | ⟨b, rest, h1, h2⟩
          · exact .inr (by omega)
          · exact .inl ⟨b, by simp [h1], by omega⟩

end KotoVerif.Compile
