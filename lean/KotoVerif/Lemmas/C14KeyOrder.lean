/-
C14 — `ValueKey::partial_cmp` (since fix abae06d) is a total order on keys that is consistent with key
equality: antisymmetric (`swap`), transitive (`le_trans`), and `Equal` exactly on equal keys.
The number arm is a hypothesis (`NumCmpLaws`), derived from the float laws in `numCmp_laws`.
-/
import KotoVerif.Model.Equal
import KotoVerif.Lemmas.C14Equal

namespace KotoVerif
namespace Equal

/-! ### integers, booleans, strings, ranges -/

theorem intCmp_swap (x y : Int) : intCmp y x = (intCmp x y).swap := by
  unfold intCmp
  by_cases h1 : x < y <;> by_cases h2 : y < x <;> simp [h1, h2] <;> omega

theorem intCmp_ne_gt (x y : Int) : intCmp x y ≠ .gt ↔ x ≤ y := by
  unfold intCmp
  by_cases h1 : x < y <;> by_cases h2 : y < x <;> simp [h1, h2] <;> omega

theorem intCmp_eq (x y : Int) : intCmp x y = .eq ↔ x = y := by
  unfold intCmp
  by_cases h1 : x < y <;> by_cases h2 : y < x <;> simp [h1, h2] <;> omega

theorem intCmp_lt (x y : Int) : intCmp x y = .lt ↔ x < y := by
  unfold intCmp
  by_cases h1 : x < y <;> by_cases h2 : y < x <;> simp [h1, h2] <;> omega

theorem bytesCmp_swap (a b : List Nat) : bytesCmp b a = (bytesCmp a b).swap := by
  unfold bytesCmp
  rcases bytes_trichotomy a b with ⟨h1, _, h3⟩ | ⟨h1, _, h3⟩ | ⟨h1, _, h3⟩ <;> simp [h1, h3]

theorem bytesCmp_ne_gt (a b : List Nat) : bytesCmp a b ≠ .gt ↔ bytesLt b a = false := by
  unfold bytesCmp
  rcases bytes_trichotomy a b with ⟨h1, _, h3⟩ | ⟨h1, _, h3⟩ | ⟨h1, _, h3⟩ <;> simp [h1, h3]

theorem bytesCmp_eq (a b : List Nat) : bytesCmp a b = .eq ↔ a = b := by
  unfold bytesCmp
  rcases bytes_trichotomy a b with ⟨h1, h2, h3⟩ | ⟨h1, h2, h3⟩ | ⟨h1, h2, h3⟩
  · simp [h1, h2]
  · subst h2; simp [h1]
  · simp [h1, h3, h2]

theorem bytesLe_trans (a b c : List Nat) (h1 : bytesLt b a = false) (h2 : bytesLt c b = false) :
    bytesLt c a = false := by
  cases hca : bytesLt c a with
  | false => rfl
  | true =>
    rcases bytes_trichotomy a b with ⟨h, _, _⟩ | ⟨_, h, _⟩ | ⟨_, _, h⟩
    · have := bytesLt_trans c a b hca h
      rw [this] at h2; exact absurd h2 (by simp)
    · subst h; rw [hca] at h2; exact absurd h2 (by simp)
    · rw [h] at h1; exact absurd h1 (by simp)

theorem rangeCode_inj (a c : Option Int64) (b d : Option (Int64 × Bool))
    (h : rangeCode a b = rangeCode c d) : a = c ∧ b = d := by
  have bnd : ∀ x : Int64, -9223372036854775808 ≤ x.toInt ∧ x.toInt < 9223372036854775808 :=
    fun x => ⟨by have := Int64.le_toInt x; omega, by have := Int64.toInt_lt x; omega⟩
  unfold rangeCode at h
  cases a with
  | none =>
    cases c with
    | none =>
      refine ⟨rfl, ?_⟩
      cases b with
      | none =>
        cases d with
        | none => rfl
        | some q => obtain ⟨y, j⟩ := q; have := bnd y; cases j <;> simp at h <;> omega
      | some p =>
        obtain ⟨x, i⟩ := p
        cases d with
        | none => have := bnd x; cases i <;> simp at h <;> omega
        | some q =>
          obtain ⟨y, j⟩ := q
          have := bnd x; have := bnd y
          cases i <;> cases j <;> simp at h <;>
            first
              | (have : x = y := Int64.toInt_inj.mp (by omega); subst this; rfl)
              | omega
    | some z =>
      have := bnd z
      cases b with
      | none =>
        cases d with
        | none => simp at h; omega
        | some q => obtain ⟨y, j⟩ := q; have := bnd y; cases j <;> simp at h <;> omega
      | some p =>
        obtain ⟨x, i⟩ := p
        have := bnd x
        cases d with
        | none => cases i <;> simp at h <;> omega
        | some q => obtain ⟨y, j⟩ := q; have := bnd y; cases i <;> cases j <;> simp at h <;> omega
  | some w =>
    have := bnd w
    cases c with
    | none =>
      cases b with
      | none =>
        cases d with
        | none => simp at h; omega
        | some q => obtain ⟨y, j⟩ := q; have := bnd y; cases j <;> simp at h <;> omega
      | some p =>
        obtain ⟨x, i⟩ := p
        have := bnd x
        cases d with
        | none => cases i <;> simp at h <;> omega
        | some q => obtain ⟨y, j⟩ := q; have := bnd y; cases i <;> cases j <;> simp at h <;> omega
    | some z =>
      have := bnd z
      cases b with
      | none =>
        cases d with
        | none =>
          simp at h
          have : w = z := Int64.toInt_inj.mp (by omega)
          subst this; exact ⟨rfl, rfl⟩
        | some q => obtain ⟨y, j⟩ := q; have := bnd y; cases j <;> simp at h <;> omega
      | some p =>
        obtain ⟨x, i⟩ := p
        have := bnd x
        cases d with
        | none => cases i <;> simp at h <;> omega
        | some q =>
          obtain ⟨y, j⟩ := q
          have := bnd y
          cases i <;> cases j <;> simp at h <;>
            first
              | (have h1 : w = z := Int64.toInt_inj.mp (by omega)
                 have h2 : x = y := Int64.toInt_inj.mp (by omega)
                 subst h1; subst h2; exact ⟨rfl, rfl⟩)
              | omega

theorem keyEqList_length (F : FloatOps) : ∀ (xs ys : List Val), keyEqList F xs ys = true → xs.length = ys.length
  | [], ys, h => by cases ys <;> simp_all [keyEqList]
  | x :: xs, ys, h => by
    cases ys with
    | nil => simp [keyEqList] at h
    | cons y ys =>
      simp only [keyEqList, Bool.and_eq_true] at h
      simp [keyEqList_length F xs ys h.2]

/-! ### keys -/

/-- what the key order needs from the number comparator on the numbers `Pn` admits -/
structure NumCmpLaws (F : FloatOps) (Pn : Num → Prop) : Prop where
  swap : ∀ a b, Pn a → Pn b → numCmp F b a = (numCmp F a b).swap
  le_trans : ∀ a b c, Pn a → Pn b → Pn c → numCmp F a b ≠ .gt → numCmp F b c ≠ .gt → numCmp F a c ≠ .gt
  eq_iff : ∀ a b, Pn a → Pn b → (numCmp F a b = .eq ↔ Num.eq F a b = true)

mutual
/-- a key (hashable value) all of whose numbers are admitted by `Pn` -/
def goodKey (Pn : Num → Prop) : Val → Prop
  | .null => True
  | .bool _ => True
  | .num n => Pn n
  | .str _ => True
  | .range _ _ => True
  | .tuple xs => goodKeys Pn xs
  | .list _ => False
  | .map _ => False
def goodKeys (Pn : Num → Prop) : List Val → Prop
  | [] => True
  | x :: xs => goodKey Pn x ∧ goodKeys Pn xs
end

theorem boolCmp_eq (a b : Bool) : intCmp a.toNat b.toNat = .eq ↔ (a == b) = true := by
  cases a <;> cases b <;> simp [intCmp]

mutual
theorem keyCmp_swap {F : FloatOps} {Pn : Num → Prop} (hN : NumCmpLaws F Pn) :
    ∀ (a b : Val), goodKey Pn a → goodKey Pn b → keyCmp F b a = (keyCmp F a b).swap
  | .null, b, _, _ => by cases b <;> simp [keyCmp]
  | .bool x, b, _, _ => by
    cases b <;> simp only [keyCmp, kindRank, Ordering.swap] <;> first | decide | exact intCmp_swap _ _
  | .num x, b, ha, hb => by
    cases b <;> simp only [keyCmp, kindRank, Ordering.swap] <;> first | decide | exact hN.swap x _ ha hb
  | .str x, b, _, _ => by
    cases b <;> simp only [keyCmp, kindRank, Ordering.swap] <;> first | decide | exact bytesCmp_swap x _
  | .range x y, b, _, _ => by
    cases b <;> simp only [keyCmp, kindRank, Ordering.swap] <;> first | decide | exact intCmp_swap _ _
  | .tuple xs, b, ha, hb => by
    cases b <;> simp only [keyCmp, kindRank, Ordering.swap] <;> try decide
    rename_i ys
    by_cases h1 : xs.length < ys.length
    · have h2 : ¬ ys.length < xs.length := by omega
      simp [h1, h2]
    · by_cases h2 : ys.length < xs.length
      · simp [h1, h2]
      · simp only [h1, h2, if_false]
        exact keyCmpList_swap hN xs ys ha hb
  | .list _, _, ha, _ => by simp [goodKey] at ha
  | .map _, _, ha, _ => by simp [goodKey] at ha
theorem keyCmpList_swap {F : FloatOps} {Pn : Num → Prop} (hN : NumCmpLaws F Pn) :
    ∀ (xs ys : List Val), goodKeys Pn xs → goodKeys Pn ys → keyCmpList F ys xs = (keyCmpList F xs ys).swap
  | [], ys, _, _ => by cases ys <;> simp [keyCmpList]
  | x :: xs, ys, ha, hb => by
    cases ys with
    | nil => simp [keyCmpList]
    | cons y ys =>
      simp only [goodKeys] at ha hb
      simp only [keyCmpList]
      rw [keyCmp_swap hN x y ha.1 hb.1]
      cases h : keyCmp F x y <;> simp
      exact keyCmpList_swap hN xs ys ha.2 hb.2
end

mutual
theorem keyCmp_eq_iff {F : FloatOps} {Pn : Num → Prop} (hN : NumCmpLaws F Pn) :
    ∀ (a b : Val), goodKey Pn a → goodKey Pn b → (keyCmp F a b = .eq ↔ keyEq F a b = true)
  | .null, b, _, _ => by cases b <;> simp [keyCmp, keyEq]
  | .bool x, b, _, _ => by
    cases b <;> simp only [keyCmp, keyEq, kindRank] <;> first | (simp; done) | (simp; decide) | exact boolCmp_eq x _
  | .num x, b, ha, hb => by
    cases b <;> simp only [keyCmp, keyEq, kindRank] <;> first | (simp; done) | (simp; decide) | exact hN.eq_iff x _ ha hb
  | .str x, b, _, _ => by
    cases b <;> simp only [keyCmp, keyEq, kindRank] <;>
      first | (simp; done) | (simp; decide) | (rw [bytesCmp_eq]; simp)
  | .range x y, b, _, _ => by
    cases b <;> simp only [keyCmp, keyEq, kindRank] <;> first | (simp; done) | (simp; decide) | skip
    rename_i c d _
    rw [intCmp_eq]
    simp only [Bool.and_eq_true, beq_iff_eq]
    constructor
    · intro h; exact rangeCode_inj x c y d h
    · rintro ⟨rfl, rfl⟩; rfl
  | .tuple xs, b, ha, hb => by
    cases b <;> simp only [keyCmp, keyEq, kindRank] <;> first | (simp; done) | (simp; decide) | skip
    rename_i ys
    by_cases h1 : xs.length < ys.length
    · simp only [h1, if_true]
      constructor
      · intro h; cases h
      · intro h; have := keyEqList_length F xs ys h; omega
    · by_cases h2 : ys.length < xs.length
      · simp only [h1, h2, if_true, if_false]
        constructor
        · intro h; cases h
        · intro h; have := keyEqList_length F xs ys h; omega
      · simp only [h1, h2, if_false]
        exact keyCmpList_eq_iff hN xs ys (by omega) ha hb
  | .list _, _, ha, _ => by simp [goodKey] at ha
  | .map _, _, ha, _ => by simp [goodKey] at ha
theorem keyCmpList_eq_iff {F : FloatOps} {Pn : Num → Prop} (hN : NumCmpLaws F Pn) :
    ∀ (xs ys : List Val), xs.length = ys.length → goodKeys Pn xs → goodKeys Pn ys →
      (keyCmpList F xs ys = .eq ↔ keyEqList F xs ys = true)
  | [], ys, hl, _, _ => by cases ys <;> simp_all [keyCmpList, keyEqList]
  | x :: xs, ys, hl, ha, hb => by
    cases ys with
    | nil => simp at hl
    | cons y ys =>
      simp only [goodKeys] at ha hb
      simp only [keyCmpList, keyEqList, Bool.and_eq_true]
      have h1 := keyCmp_eq_iff hN x y ha.1 hb.1
      have h2 := keyCmpList_eq_iff hN xs ys (by simpa using hl) ha.2 hb.2
      cases h : keyCmp F x y
      · simp only [h] at h1; simp; intro h'; exact absurd (h1.mpr h') (by simp)
      · simp only [h, true_iff] at h1; simp [h1, h2]
      · simp only [h] at h1; simp; intro h'; exact absurd (h1.mpr h') (by simp)
end

/-! ### transitivity -/

theorem keyCmp_diff_rank {F : FloatOps} {Pn : Num → Prop} (a b : Val) (ha : goodKey Pn a) (hb : goodKey Pn b)
    (h : kindRank a ≠ kindRank b) : keyCmp F a b = intCmp (kindRank a) (kindRank b) := by
  cases a <;> cases b <;> simp only [goodKey] at ha hb <;> simp only [kindRank] at h ⊢ <;>
    simp only [keyCmp] <;> first | rfl | decide | exact absurd rfl h | (simp [kindRank])

theorem keyCmp_rank_le {F : FloatOps} {Pn : Num → Prop} (a b : Val) (ha : goodKey Pn a) (hb : goodKey Pn b)
    (h : keyCmp F a b ≠ .gt) : kindRank a ≤ kindRank b := by
  by_cases heq : kindRank a = kindRank b
  · omega
  · rw [keyCmp_diff_rank a b ha hb heq, intCmp_ne_gt] at h
    exact h

theorem ordering_cases (o : Ordering) (h : o ≠ .gt) : o = .lt ∨ o = .eq := by
  cases o <;> simp_all

theorem goodKeys_mem {Pn : Num → Prop} (xs : List Val) (h : goodKeys Pn xs) : ∀ x ∈ xs, goodKey Pn x := by
  induction xs with
  | nil => intro x hx; cases hx
  | cons y ys ih =>
    simp only [goodKeys] at h
    intro x hx
    rcases List.mem_cons.mp hx with rfl | hx'
    · exact h.1
    · exact ih h.2 x hx'

/-- the element-wise step, given transitivity for all smaller triples -/
theorem keyCmpList_le_trans {F : FloatOps} {Pn : Num → Prop} (hN : NumCmpLaws F Pn) (n : Nat)
    (IH : ∀ a b c : Val, sizeOf a + sizeOf b + sizeOf c ≤ n → goodKey Pn a → goodKey Pn b → goodKey Pn c →
      keyCmp F a b ≠ .gt → keyCmp F b c ≠ .gt → keyCmp F a c ≠ .gt) :
    ∀ (xs ys zs : List Val), xs.length = ys.length → ys.length = zs.length →
      (∀ x ∈ xs, ∀ y ∈ ys, ∀ z ∈ zs, sizeOf x + sizeOf y + sizeOf z ≤ n) →
      goodKeys Pn xs → goodKeys Pn ys → goodKeys Pn zs →
      keyCmpList F xs ys ≠ .gt → keyCmpList F ys zs ≠ .gt → keyCmpList F xs zs ≠ .gt := by
  intro xs
  induction xs with
  | nil => intro ys zs _ _ _ _ _ _ _ _; cases zs <;> simp [keyCmpList]
  | cons x xs ih =>
    intro ys zs l1 l2 hsz gx gy gz h1 h2
    cases ys with
    | nil => simp at l1
    | cons y ys =>
      cases zs with
      | nil => simp at l2
      | cons z zs =>
        simp only [goodKeys] at gx gy gz
        have sz : sizeOf x + sizeOf y + sizeOf z ≤ n := hsz x (by simp) y (by simp) z (by simp)
        have swxy := keyCmp_swap hN x y gx.1 gy.1
        have swyz := keyCmp_swap hN y z gy.1 gz.1
        have swxz := keyCmp_swap hN x z gx.1 gz.1
        simp only [keyCmpList] at h1 h2 ⊢
        -- c1 = keyCmp x y, c2 = keyCmp y z
        have c1ne : keyCmp F x y ≠ .gt := by
          intro h; simp [h] at h1
        have c2ne : keyCmp F y z ≠ .gt := by
          intro h; simp [h] at h2
        have c3ne := IH x y z sz gx.1 gy.1 gz.1 c1ne c2ne
        rcases ordering_cases _ c3ne with c3 | c3
        · simp [c3]
        · simp only [c3]
          have zx : keyCmp F z x ≠ .gt := by rw [swxz, c3]; simp
          -- c1 = eq
          have c1 : keyCmp F x y = .eq := by
            rcases ordering_cases _ c1ne with c | c
            · exfalso
              have := IH y z x (by omega) gy.1 gz.1 gx.1 c2ne zx
              rw [swxy, c] at this
              exact this rfl
            · exact c
          have c2 : keyCmp F y z = .eq := by
            rcases ordering_cases _ c2ne with c | c
            · exfalso
              have := IH z x y (by omega) gz.1 gx.1 gy.1 zx c1ne
              rw [swyz, c] at this
              exact this rfl
            · exact c
          simp only [c1] at h1
          simp only [c2] at h2
          exact ih ys zs (by simpa using l1) (by simpa using l2)
            (fun a ha b hb c hc => hsz a (List.mem_cons_of_mem _ ha) b (List.mem_cons_of_mem _ hb) c (List.mem_cons_of_mem _ hc))
            gx.2 gy.2 gz.2 h1 h2

theorem keyCmp_le_trans_aux {F : FloatOps} {Pn : Num → Prop} (hN : NumCmpLaws F Pn) (n : Nat) :
    ∀ a b c : Val, sizeOf a + sizeOf b + sizeOf c ≤ n → goodKey Pn a → goodKey Pn b → goodKey Pn c →
      keyCmp F a b ≠ .gt → keyCmp F b c ≠ .gt → keyCmp F a c ≠ .gt := by
  induction n with
  | zero =>
    intro a b c h
    cases a <;> simp at h <;> omega
  | succ n ih =>
    intro a b c hsz ga gb gc h1 h2
    have r1 := keyCmp_rank_le a b ga gb h1
    have r2 := keyCmp_rank_le b c gb gc h2
    by_cases hlt : kindRank a < kindRank c
    · rw [keyCmp_diff_rank a c ga gc (by omega), intCmp_ne_gt]; omega
    · have e1 : kindRank a = kindRank b := by omega
      have e2 : kindRank b = kindRank c := by omega
      cases a <;> cases b <;> simp only [kindRank] at e1 <;> (try omega) <;>
        cases c <;> simp only [kindRank] at e2 <;> (try omega) <;>
        simp only [goodKey] at ga gb gc
      all_goals first
        | (simp [keyCmp]; done)
        | (simp only [keyCmp] at h1 h2 ⊢; rw [intCmp_ne_gt] at h1 h2 ⊢; omega)
        | (simp only [keyCmp] at h1 h2 ⊢; exact hN.le_trans _ _ _ ga gb gc h1 h2)
        | (simp only [keyCmp] at h1 h2 ⊢; rw [bytesCmp_ne_gt] at h1 h2 ⊢; exact bytesLe_trans _ _ _ h1 h2)
        | skip
      · rename_i xs ys zs
        simp only [keyCmp] at h1 h2 ⊢
        have l1 : xs.length ≤ ys.length := by
          by_cases h : ys.length < xs.length
          · have h' : ¬ xs.length < ys.length := by omega
            simp [h, h'] at h1
          · omega
        have l2 : ys.length ≤ zs.length := by
          by_cases h : zs.length < ys.length
          · have h' : ¬ ys.length < zs.length := by omega
            simp [h, h'] at h2
          · omega
        by_cases hl : xs.length < zs.length
        · simp [hl]
        · have e1 : xs.length = ys.length := by omega
          have e2 : ys.length = zs.length := by omega
          have n1 : ¬ xs.length < ys.length := by omega
          have n2 : ¬ ys.length < xs.length := by omega
          have n3 : ¬ ys.length < zs.length := by omega
          have n4 : ¬ zs.length < ys.length := by omega
          have n5 : ¬ zs.length < xs.length := by omega
          simp only [n1, n2, n3, n4, if_false] at h1 h2
          simp only [hl, n5, if_false]
          simp only [Val.tuple.sizeOf_spec] at hsz
          refine keyCmpList_le_trans hN n ih xs ys zs e1 e2 ?_ ga gb gc h1 h2
          intro x hx y hy z hz
          have := List.sizeOf_lt_of_mem hx
          have := List.sizeOf_lt_of_mem hy
          have := List.sizeOf_lt_of_mem hz
          omega

theorem keyCmp_le_trans {F : FloatOps} {Pn : Num → Prop} (hN : NumCmpLaws F Pn) (a b c : Val)
    (ga : goodKey Pn a) (gb : goodKey Pn b) (gc : goodKey Pn c)
    (h1 : keyCmp F a b ≠ .gt) (h2 : keyCmp F b c ≠ .gt) : keyCmp F a c ≠ .gt :=
  keyCmp_le_trans_aux hN _ a b c (Nat.le_refl _) ga gb gc h1 h2

end Equal
end KotoVerif
