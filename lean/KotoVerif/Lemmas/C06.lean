/-
Helper lemmas for Props/C06.lean: the checked-arithmetic constructors reduce to `ok` inside their
ranges, `Res.bind` computation rules, `IndexMap`-as-key-list facts. No property statements here.
-/
import KotoVerif.Model.Guards

namespace KotoVerif.C06
open KotoVerif.Guards

macro "arith" : tactic =>
  `(tactic| ((try simp only [inI64, inI32, inUsize, inU32, inU8, inI8, inLen, I64_MIN, I64_MAX, I32_MIN, I32_MAX,
      USIZE_MAX, U32_MAX, U8_MAX, I8_MIN, I8_MAX] at *) <;> omega))

theorem ckI64_ok {x : Int} (h : inI64 x) : ckI64 x = .ok x := by
  unfold ckI64; unfold inI64 at h; simp [h.1, h.2]
theorem ckI32_ok {x : Int} (h : inI32 x) : ckI32 x = .ok x := by
  unfold ckI32; unfold inI32 at h; simp [h.1, h.2]
theorem ckUsize_ok {x : Int} (h : inUsize x) : ckUsize x = .ok x := by
  unfold ckUsize; unfold inUsize at h; simp [h.1, h.2]
theorem ckU32_ok {x : Int} (h : inU32 x) : ckU32 x = .ok x := by
  unfold ckU32; unfold inU32 at h; simp [h.1, h.2]
theorem ckU8_ok {x : Int} (h : inU8 x) : ckU8 x = .ok x := by
  unfold ckU8; unfold inU8 at h; simp [h.1, h.2]

@[simp] theorem bind_ok {α β : Type} (a : α) (f : α → Res β) : (Res.ok a).bind f = f a := rfl
@[simp] theorem bind_panic {α β : Type} (f : α → Res β) : (Res.panic : Res α).bind f = .panic := rfl
@[simp] theorem bind_err {α β : Type} (f : α → Res β) : (Res.err : Res α).bind f = .err := rfl

/-- the triple of a well-formed range consists of `i64` values -/
theorem triple_wf (r : KRange) (h : KRange.wf r) : inI64 r.triple.1 ∧ inI64 r.triple.2.1 := by
  obtain ⟨st, sp⟩ := r
  have hs := h.1
  have he := h.2
  unfold KRange.triple
  match st, sp with
  | none, none => simp; constructor <;> arith
  | some s, none => simp; exact ⟨hs s rfl, by arith⟩
  | none, some (e, i) => simp; exact ⟨by arith, he e i rfl⟩
  | some s, some (e, i) => simp; exact ⟨hs s rfl, he e i rfl⟩

theorem length_swapRemoveIndex (ks : List Nat) (u : Nat) (h : u < ks.length) :
    (swapRemoveIndex ks u).length = ks.length - 1 := by
  unfold swapRemoveIndex
  simp only [h, ite_true]
  cases hl : ks.getLast? with
  | none =>
    have : ks = [] := List.getLast?_eq_none_iff.mp hl
    subst this; simp at h
  | some last => simp

theorem length_insertKey (ks : List Nat) (k : Nat) :
    (insertKey ks k).length = if k ∈ ks then ks.length else ks.length + 1 := by
  unfold insertKey; split <;> simp

theorem swapIndices_total (ks : List Nat) (i j : Nat) (hi : i < ks.length) (hj : j < ks.length) :
    swapIndices ks i j ≠ .panic := by
  unfold swapIndices
  rw [List.getElem?_eq_getElem hi, List.getElem?_eq_getElem hj]
  simp

theorem indexOfKey_none (ks : List Nat) (k : Nat) (h : indexOfKey ks k = none) : k ∉ ks := by
  induction ks with
  | nil => simp
  | cons x xs ih =>
    unfold indexOfKey at h
    split at h
    · cases h
    · rename_i hne
      cases hx : indexOfKey xs k with
      | none => simp; exact ⟨fun e => hne e.symm, ih hx⟩
      | some j => rw [hx] at h; cases h

theorem indexOfKey_some (ks : List Nat) (k j : Nat) (h : indexOfKey ks k = some j) : ks[j]? = some k := by
  induction ks generalizing j with
  | nil => cases h
  | cons x xs ih =>
    unfold indexOfKey at h
    split at h
    · cases h; rename_i hx; simp [hx]
    · cases hx : indexOfKey xs k with
      | none => rw [hx] at h; cases h
      | some j' => rw [hx] at h; cases h; simp; exact ih j' hx

theorem mem_swapRemoveIndex (ks : List Nat) (u : Nat) (k : Nat) (h : k ∈ swapRemoveIndex ks u) : k ∈ ks := by
  unfold swapRemoveIndex at h
  split at h
  · cases hl : ks.getLast? with
    | none => rw [hl] at h; exact h
    | some last =>
      rw [hl] at h; simp only at h
      have h1 : k ∈ ks.set u last := List.dropLast_subset _ h
      rcases List.mem_or_eq_of_mem_set h1 with h2 | h2
      · exact h2
      · subst h2; exact List.mem_of_getLast? hl
  · exact h

theorem wrap64_id {x : Int} (h : inI64 x) : wrap64 x = x := by unfold wrap64; arith

theorem ckI128_ok {x : Int} (h : -36893488147419103232 ≤ x ∧ x ≤ 36893488147419103232) : ckI128 x = .ok x := by
  unfold ckI128 I128_MIN I128_MAX
  have : -170141183460469231731687303715884105728 ≤ x ∧ x ≤ 170141183460469231731687303715884105727 := by omega
  simp [this]

theorem iabs_facts (start target : Int) (hs : inI64 start) (ht : inI64 target) :
    0 ≤ iabs (target - start) ∧ iabs (target - start) ≤ 18446744073709551615 ∧
    (target < start → iabs (target - start) = start - target) ∧
    (¬ target < start → iabs (target - start) = target - start) := by
  unfold iabs
  by_cases h : target - start < 0 <;> simp only [h, ite_true, ite_false] <;>
    exact ⟨by arith, by arith, fun hlt => by arith, fun hlt => by arith⟩

theorem stepCount_facts (start target step : Int) (hp : 0 < step) :
    stepCount start target step = Int.tdiv (iabs (target - start)) step ∧
    (0 ≤ iabs (target - start) → 0 ≤ stepCount start target step ∧
      stepCount start target step ≤ iabs (target - start) ∧
      step * stepCount start target step ≤ iabs (target - start)) := by
  unfold stepCount
  simp only [gt_iff_lt, hp, ite_true, true_and]
  intro habs
  refine ⟨Int.tdiv_nonneg habs (by omega), ?_, ?_⟩
  · rw [Int.tdiv_eq_ediv_of_nonneg habs]; exact Int.ediv_le_self _ habs
  · rw [Int.tdiv_eq_ediv_of_nonneg habs]; exact Int.mul_ediv_self_le (by omega)

theorem stepCount_nonpos (start target step : Int) (hp : ¬ 0 < step) : stepCount start target step = -1 := by
  unfold stepCount; simp [hp]

theorem stepSigned_mul (start target step m : Int) (hst : inI64 step) (hp : 0 < step) :
    stepSigned start target step * m = if target < start then -(step * m) else step * m := by
  unfold stepSigned
  split
  · rw [wrap64_id (by arith), Int.neg_mul]
  · rfl

/-- the `m`-th value (`0 ≤ m ≤ count`) lies between `start` and `target`, and the products the code
forms stay far inside `i128` -/
theorem step_value (start target step m : Int) (hs : inI64 start) (ht : inI64 target) (hst : inI64 step)
    (hp : 0 < step) (h0 : 0 ≤ m) (hm : m ≤ stepCount start target step) :
    between start target (start + stepSigned start target step * m) ∧
    -18446744073709551615 ≤ stepSigned start target step * m ∧
    stepSigned start target step * m ≤ 18446744073709551615 := by
  obtain ⟨ha0, ha1, hneg, hpos⟩ := iabs_facts start target hs ht
  obtain ⟨_, hc⟩ := stepCount_facts start target step hp
  obtain ⟨hn0, _, hmul⟩ := hc ha0
  have h1 : 0 ≤ step * m := Int.mul_nonneg (by omega) h0
  have h2 : step * m ≤ step * stepCount start target step := Int.mul_le_mul_of_nonneg_left hm (by omega)
  rw [stepSigned_mul start target step m hst hp]
  unfold between
  by_cases hlt : target < start
  · have := hneg hlt; simp only [hlt, ite_true]; omega
  · have := hpos hlt; simp only [hlt, ite_false]; omega

theorem retainLoop_checked_total (len0 : Int) (ms : List RetainMove) :
    ∀ r w len, retainLoop true len0 r w len ms ≠ .panic := by
  induction ms with
  | nil => intro r w len; simp [retainLoop]
  | cons m ms ih =>
    intro r w len
    obtain ⟨keep, len'⟩ := m
    unfold retainLoop
    split
    · split
      · split
        · split
          · exact ih _ _ _
          · simp only [ite_true]; exact ih _ _ _
        · exact ih _ _ _
      · simp
    · simp

end KotoVerif.C06
