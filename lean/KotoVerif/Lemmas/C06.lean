/-
Helper lemmas for Props/C06.lean: the checked-arithmetic constructors reduce to `ok` inside their
ranges, `Res.bind` computation rules, `IndexMap`-as-key-list facts. No property statements here.
-/
import KotoVerif.Model.Guards

namespace KotoVerif.C06
open KotoVerif.Guards

macro "arith" : tactic =>
  `(tactic| ((try simp only [inI64, inI32, inUsize, inU32, inU8, inI8, inLen, I64_MIN, I64_MAX, I32_MIN, I32_MAX,
      USIZE_MAX, U32_MAX, U8_MAX, I8_MIN, I8_MAX] at *) <;> omega))

theorem ckI64_ok {x : Int} (h : inI64 x) : ckI64 x = .ok x := by
  unfold ckI64; unfold inI64 at h; simp [h.1, h.2]
theorem ckI32_ok {x : Int} (h : inI32 x) : ckI32 x = .ok x := by
  unfold ckI32; unfold inI32 at h; simp [h.1, h.2]
theorem ckUsize_ok {x : Int} (h : inUsize x) : ckUsize x = .ok x := by
  unfold ckUsize; unfold inUsize at h; simp [h.1, h.2]
theorem ckU32_ok {x : Int} (h : inU32 x) : ckU32 x = .ok x := by
  unfold ckU32; unfold inU32 at h; simp [h.1, h.2]
theorem ckU8_ok {x : Int} (h : inU8 x) : ckU8 x = .ok x := by
  unfold ckU8; unfold inU8 at h; simp [h.1, h.2]

@[simp] theorem bind_ok {α β : Type} (a : α) (f : α → Res β) : (Res.ok a).bind f = f a := rfl
@[simp] theorem bind_panic {α β : Type} (f : α → Res β) : (Res.panic : Res α).bind f = .panic := rfl
@[simp] theorem bind_err {α β : Type} (f : α → Res β) : (Res.err : Res α).bind f = .err := rfl

/-- the triple of a well-formed range consists of `i64` values -/
theorem triple_wf (r : KRange) (h : KRange.wf r) : inI64 r.triple.1 ∧ inI64 r.triple.2.1 := by
  obtain ⟨st, sp⟩ := r
  have hs := h.1
  have he := h.2
  unfold KRange.triple
  match st, sp with
  | none, none => simp; constructor <;> arith
  | some s, none => simp; exact ⟨hs s rfl, by arith⟩
  | none, some (e, i) => simp; exact ⟨by arith, he e i rfl⟩
  | some s, some (e, i) => simp; exact ⟨hs s rfl, he e i rfl⟩

theorem length_swapRemoveIndex (ks : List Nat) (u : Nat) (h : u < ks.length) :
    (swapRemoveIndex ks u).length = ks.length - 1 := by
  unfold swapRemoveIndex
  simp only [h, ite_true]
  cases hl : ks.getLast? with
  | none =>
    have : ks = [] := List.getLast?_eq_none_iff.mp hl
    subst this; simp at h
  | some last => simp

theorem length_insertKey (ks : List Nat) (k : Nat) :
    (insertKey ks k).length = if k ∈ ks then ks.length else ks.length + 1 := by
  unfold insertKey; split <;> simp

theorem swapIndices_total (ks : List Nat) (i j : Nat) (hi : i < ks.length) (hj : j < ks.length) :
    swapIndices ks i j ≠ .panic := by
  unfold swapIndices
  rw [List.getElem?_eq_getElem hi, List.getElem?_eq_getElem hj]
  simp

theorem indexOfKey_none (ks : List Nat) (k : Nat) (h : indexOfKey ks k = none) : k ∉ ks := by
  induction ks with
  | nil => simp
  | cons x xs ih =>
    unfold indexOfKey at h
    split at h
    · cases h
    · rename_i hne
      cases hx : indexOfKey xs k with
      | none => simp; exact ⟨fun e => hne e.symm, ih hx⟩
      | some j => rw [hx] at h; cases h

theorem indexOfKey_some (ks : List Nat) (k j : Nat) (h : indexOfKey ks k = some j) : ks[j]? = some k := by
  induction ks generalizing j with
  | nil => cases h
  | cons x xs ih =>
    unfold indexOfKey at h
    split at h
    · cases h; rename_i hx; simp [hx]
    · cases hx : indexOfKey xs k with
      | none => rw [hx] at h; cases h
      | some j' => rw [hx] at h; cases h; simp; exact ih j' hx

theorem mem_swapRemoveIndex (ks : List Nat) (u : Nat) (k : Nat) (h : k ∈ swapRemoveIndex ks u) : k ∈ ks := by
  unfold swapRemoveIndex at h
  split at h
  · cases hl : ks.getLast? with
    | none => rw [hl] at h; exact h
    | some last =>
      rw [hl] at h; simp only at h
      have h1 : k ∈ ks.set u last := List.dropLast_subset _ h
      rcases List.mem_or_eq_of_mem_set h1 with h2 | h2
      · exact h2
      · subst h2; exact List.mem_of_getLast? hl
  · exact h

end KotoVerif.C06
