/-
C01 layer 5: `compile_sem` for a chained comparison `a op1 b op2 c`.
-/
import KotoVerif.Lemmas.C01Sem5

namespace KotoVerif.Compile

variable {S : Sem}

/-- the comparison register is the result register, or a fresh temporary above every live one -/
def CmpReg (m : Mode) (F : Frame) (creg : Reg) : Prop := ResReg m F creg ∨ F.tb + F.tc ≤ creg

theorem cmpReg_of {m : Mode} {fx : Option VarId} {F F1 F1' : Frame} {res : Out} {creg : Reg}
    (ha : assignResult m F = some (res, F1)) (hrt : resultOrTemp res F1 = some (creg, F1')) :
    CmpReg m F creg ∧ F1.tc ≤ F1'.tc ∧ (∀ r, res.reg = some r → r = creg) := by
  obtain ⟨_, h2, h3, _⟩ := assignResult_spec ha
  obtain ⟨_, _, t3⟩ := resultOrTemp_spec hrt
  rcases t3 with ⟨t3, t4⟩ | ⟨t3, t4, t5⟩
  · exact ⟨Or.inl (resReg_of_assignResult ha t3), by omega, fun r hr => by rw [t3] at hr; exact (Option.some.inj hr).symm⟩
  · exact ⟨Or.inr (by omega), by omega, fun r hr => by rw [t3] at hr; cases hr⟩

theorem RelEx.setCmpReg {E : List VarId} {fx : Option VarId} {m : Mode} {F G : Frame} {σ : Regs S} {ρ : Env S}
    {creg : Reg} (h : RelEx (Compile.addOpt fx E) G σ ρ) (hle : FrameLe F G) (hw : WF G) (hm : ModeFx m fx F)
    (hc : CmpReg m F creg) (w : S.V) : RelEx (Compile.addOpt fx E) G (σ.set creg w) ρ := by
  rcases hc with hc | hc
  · exact (h.setResult hle hw hm hc w).weaken addOpt_idem
  · apply h.set
    intro x hx
    have := hx.lt_tb hw
    rw [hle.tb] at this
    omega

theorem TempsKept.setCmpReg {m : Mode} {F : Frame} {σ σ' : Regs S} {creg : Reg}
    (h : TempsKept m F σ σ') (hc : CmpReg m F creg) (w : S.V) : TempsKept m F σ (σ'.set creg w) := by
  rcases hc with hc | hc
  · exact h.setResult hc w
  · intro t t1 t2 t3
    rw [Regs.set_other _ _ (by omega)]
    exact h t t1 t2 t3

/-- an operand register (a fresh temporary of a later frame, or a local outside `fx :: E`) is not the
comparison register -/
theorem operand_ne_cmpReg {b : Expr} {E : List VarId} {fx : Option VarId} {m : Mode} {F G G' : Frame}
    {cb : Code} {ob : Out} {rb creg : Reg}
    (hcb : compile b .any G = some (cb, ob, G')) (hwG : WF G) (hrb : ob.reg = some rb)
    (hle : FrameLe F G) (hlt : creg < G.tb + G.tc)
    (hm : ModeFx m fx F) (hc : CmpReg m F creg)
    (hy : ∀ y, outLocal b = some y → y ∉ addOpt fx E) : rb ≠ creg := by
  have ffb := compile_frame _ _ _ _ _ _ hcb hwG
  rcases ffb.shape with hs | ⟨_, y, r, hyo, hr, hhas⟩
  · rw [hs] at hrb
    simp only [Option.some.injEq] at hrb
    omega
  · rw [hr] at hrb
    simp only [Option.some.injEq] at hrb
    have hlt' := hhas.lt_tb ffb.wf
    rw [ffb.le.tb, hle.tb] at hlt'
    rcases hc with hc | hc
    · rcases hc with hc | ⟨_, hc⟩
      · cases fx with
        | some x =>
          intro heq
          have hn : Named G' creg x := by
            have : Named F creg x := by rw [hc] at hm; exact hm
            exact ffb.le.named _ _ (hle.named _ _ this)
          have hn2 : Named G' creg y := by rw [← heq, ← hrb]; exact hhas.named
          have := named_unique_name hn2 hn
          subst this
          exact hy y hyo (by simp [addOpt])
        | none =>
          have : F.tb ≤ creg := by rw [hc] at hm; exact hm.1
          omega
      · omega
    · omega

/-- the comparison register lies below the first free temporary of any frame the operands are
compiled in -/
theorem cmpReg_lt {m : Mode} {fx : Option VarId} {F F1 G H : Frame} {res : Out} {creg : Reg}
    (hw : WF F) (hm : ModeFx m fx F) (ha : assignResult m F = some (res, F1))
    (hrt : resultOrTemp res F1 = some (creg, G)) (htb : H.tb = F.tb) (htc : G.tc ≤ H.tc) :
    creg < H.tb + H.tc := by
  obtain ⟨_, g2, g3, g4⟩ := assignResult_spec ha
  obtain ⟨_, _, t3⟩ := resultOrTemp_spec hrt
  rcases t3 with ⟨t3, t4⟩ | ⟨_, t4, t5⟩
  · cases m with
    | none => simp at g4; subst g4; simp at t3
    | any =>
      simp at g4; subst g4; simp at t3
      simp [tempCount] at g3
      omega
    | fixed r =>
      simp at g4; subst g4; simp at t3; subst t3
      simp [tempCount] at g3
      cases fx with
      | some x => have := (hm : Named F r x).lt; have := hw.len; omega
      | none => have := (hm : F.tb ≤ r ∧ r < F.tb + F.tc).2; omega
  · omega

theorem sem_chain3 (op1 op2 : BinOp) (a b c : Expr) (iha : SemOk S a) (ihb : SemOk S b) (ihc : SemOk S c) :
    SemOk S (.chain3 op1 op2 a b c) := by
  intro m F code out F' E fx h hw hm hsafe σ ρ ρ' v hrel hev
  have ff := compile_frame _ _ _ _ _ _ h hw
  simp only [compile, bind, Option.bind_eq_some_iff, Prod.exists, pure, Option.some.injEq, Prod.mk.injEq] at h
  obtain ⟨res, F1, ha, creg, G, hrt, ca, oa, F2, hca, ra, hra, cb, ob, F3, hcb, rb, hrb, cc, oc, F4, hcc, rc, hrc,
    hcode, hout, hF⟩ := h
  subst hcode hout hF
  simp only [safe, Bool.and_eq_true] at hsafe
  obtain ⟨⟨⟨⟨hsa, hsb⟩, hlab⟩, hsc⟩, hlbc⟩ := hsafe
  simp only [eval] at hev
  cases hea : eval S a ρ with
  | none => simp [hea] at hev
  | some p =>
    obtain ⟨va, ρ1⟩ := p
    simp only [hea] at hev
    cases heb : eval S b ρ1 with
    | none => simp [heb] at hev
    | some q =>
      obtain ⟨vb, ρ2⟩ := q
      simp only [heb] at hev
      cases h1 : S.binop op1 va vb with
      | none => simp [h1] at hev
      | some r1 =>
        simp only [h1] at hev
        obtain ⟨g1, g2, g3, _⟩ := assignResult_spec ha
        have hw1 := hw.of_locals_eq g1 g2
        obtain ⟨t1, t2, t3⟩ := resultOrTemp_spec hrt
        have hwG := hw1.of_locals_eq t1 t2
        obtain ⟨hcreg, htcG, hresreg⟩ := cmpReg_of (fx := fx) ha hrt
        have le0G : FrameLe F G := (FrameLe.of_locals_eq g1 g2).trans (FrameLe.of_locals_eq t1 t2)
        have hrelG : RelEx E G σ ρ := hrel.frame le0G
        obtain ⟨σ1, x1, x2, x3, x4⟩ := iha .any G ca oa F2 E Option.none hca hwG trivial hsa σ ρ ρ1 va hrelG hea
        have ffa := compile_frame _ _ _ _ _ _ hca hwG
        obtain ⟨σ2, y1, y2, y3, y4⟩ := ihb .any F2 cb ob F3 E Option.none hcb ffa.wf trivial hsb σ1 ρ1 ρ2 vb x2 heb
        have ffb := compile_frame _ _ _ _ _ _ hcb ffa.wf
        have ffc := compile_frame _ _ _ _ _ _ hcc ffb.wf
        have hva : σ2 ra = va := operand_kept hca hwG hcb hra hlab hea heb (x3 ra hra) y2 y4
        have hvb : σ2 rb = vb := y3 rb hrb
        have le03 : FrameLe F F3 := le0G.trans (ffa.le.trans ffb.le)
        -- the first comparison is written to the comparison register
        have hstep1 : exec S (.instr (.binop op1 creg ra rb)) σ2 = some (σ2.set creg r1) := by
          simp [exec, stepInstr, hva, hvb, h1]
        have hrel3 : RelEx (addOpt fx E) F3 (σ2.set creg r1) ρ2 :=
          (y2.addOpt (fx := fx)).setCmpReg le03 ffb.wf hm hcreg r1
        have htcFG : F.tc ≤ G.tc := by omega
        have k2 : TempsKept m F σ σ2 := by
          have k1 : TempsKept m F σ σ1 :=
            (TempsKept.refl m F σ).sub x4 le0G.tb htcFG (by intro t ht; simp at ht)
          have := ffa.tc
          exact k1.sub y4 (by rw [ffa.le.tb, le0G.tb]) (by omega) (by intro t ht; simp at ht)
        have k3 : TempsKept m F σ (σ2.set creg r1) := k2.setCmpReg hcreg r1
        have hcv : (σ2.set creg r1) creg = r1 := by simp
        by_cases htr : S.truthy r1 = true
        · -- `c` is evaluated and compared with `b`
          simp only [htr, if_true] at hev
          cases hec : eval S c ρ2 with
          | none => simp [hec] at hev
          | some t =>
            obtain ⟨vc, ρ3⟩ := t
            simp only [hec, Option.map_eq_some_iff, Prod.mk.injEq] at hev
            obtain ⟨w, hop2, rfl, rfl⟩ := hev
            obtain ⟨σ4, z1, z2, z3, z4⟩ := ihc .any F3 cc oc F4 (addOpt fx E) Option.none hcc ffb.wf trivial hsc
              (σ2.set creg r1) ρ2 ρ3 vc hrel3 hec
            -- `b`'s register was not the comparison register, and survives `c`
            have hne : rb ≠ creg := by
              have tca := ffa.tc
              simp only [tempCount] at tca
              refine operand_ne_cmpReg (E := E) hcb ffa.wf hrb (le0G.trans ffa.le)
                (cmpReg_lt hw hm ha hrt (by rw [ffa.le.tb, le0G.tb]) (by omega)) hm hcreg ?_
              intro y hyo
              simp only [lateOk, hyo, Bool.and_eq_true, Bool.not_eq_true', List.contains_eq_mem,
                decide_eq_false_iff_not] at hlbc
              exact hlbc.1
            have hvb3 : (σ2.set creg r1) rb = vb := by rw [Regs.set_other _ _ hne]; exact hvb
            have hvb4 : σ4 rb = vb := operand_kept hcb ffa.wf hcc hrb hlbc heb hec hvb3 z2 z4
            have hrel' : RelEx (addOpt fx E) { F4 with tc := F1.tc } σ4 ρ3 :=
              z2.frame (FrameLe.of_locals_eq rfl rfl)
            have k4 : TempsKept m F σ σ4 := by
              have := ffa.tc; have := ffb.tc
              exact k3.sub z4 le03.tb (by omega) (by intro t ht; simp at ht)
            cases hr : res.reg with
            | none =>
              refine ⟨σ4, ?_, hrel', fun r h => by simp at h, k4⟩
              rw [exec_seq x1, exec_seq y1, exec_seq hstep1]
              simp [exec, hcv, htr, z1, instrIf]
            | some r =>
              have hrc' := hresreg r hr
              subst hrc'
              refine ⟨σ4.set r w, ?_, ?_, ?_, k4.setCmpReg hcreg w⟩
              · rw [exec_seq x1, exec_seq y1, exec_seq hstep1]
                simp [exec, hcv, htr, z1, instrIf, stepInstr, hvb4, z3 rc hrc, hop2]
              · exact hrel'.setCmpReg ff.le ff.wf hm hcreg w
              · intro q hq; simp at hq; subst hq; simp
        · -- the first comparison is false: it is the result, `c` is not evaluated
          simp only [htr] at hev
          simp only [Bool.false_eq_true, if_false, Option.some.injEq, Prod.mk.injEq] at hev
          obtain ⟨rfl, rfl⟩ := hev
          refine ⟨σ2.set creg r1, ?_, ?_, ?_, k3⟩
          · rw [exec_seq x1, exec_seq y1, exec_seq hstep1]
            simp [exec, hcv, htr]
          · exact (hrel3.frame ffc.le).frame (FrameLe.of_locals_eq rfl rfl)
          · intro r hr; rw [hresreg r hr]; exact hcv

/-- **Semantic correctness of the compiler model**, for every expression of the core. -/
theorem compile_sem (e : Expr) : SemOk S e := by
  induction e with
  | null => exact sem_null
  | bool b => exact sem_bool b
  | int n => exact sem_int n
  | var x => exact sem_var x
  | un op e ih => exact sem_un op e ih
  | bin op a b iha ihb => exact sem_bin op a b iha ihb
  | cmp op a b iha ihb => exact sem_cmp op a b iha ihb
  | chain3 op1 op2 a b c iha ihb ihc => exact sem_chain3 op1 op2 a b c iha ihb ihc
  | and a b iha ihb => exact sem_and a b iha ihb
  | or a b iha ihb => exact sem_or a b iha ihb
  | assign x e ih => exact sem_assign x e ih
  | compound op x e ih => exact sem_compound op x e ih
  | seq a b iha ihb => exact sem_seq a b iha ihb
  | ite c t e ihc iht ihe => exact sem_ite c t e ihc iht ihe
  | ifThen c t ihc iht => exact sem_ifThen c t ihc iht

end KotoVerif.Compile
