/-
Lemmas for C07, second invariant: the value stack never shrinks below its length at the entry.

While a bracket through a Koto callee is running, every frame above the caller's frames has
`register_base ≥ r0` (`r0` = `registers.len()` at the entry, given that the entry's own window does
not wrap the `u8` numbering), so every `truncate_registers` / `resize` executed inside — including
those of nested entries whose result register *did* wrap — keeps at least `r0` registers. Together
with `Lemmas/C07.lean` (`regs ≤ r0` at the exit) this gives `regs = r0`.
-/
import KotoVerif.Model.Unwind
import KotoVerif.Lemmas.C07

namespace KotoVerif.Unwind

/-- all frames of `fs` above the bottom part `S` have base ≥ `r0` -/
def GeAbove (r0 : Nat) (S fs : List Frame) : Prop :=
  ∀ X, fs = X ++ S → ∀ f ∈ X, r0 ≤ f.base

theorem GeAbove_suffix (r0 : Nat) (S fs fs' : List Frame) (hs : fs' <:+ fs)
    (h : GeAbove r0 S fs) : GeAbove r0 S fs' := by
  intro X' hX' f hf
  obtain ⟨t, ht⟩ := hs
  have : fs = (t ++ X') ++ S := by rw [← ht, hX', List.append_assoc]
  exact h (t ++ X') this f (List.mem_append_right t hf)

theorem GeAbove_cons (r0 : Nat) (S fs : List Frame) (g : Frame) (X : List Frame) (hfs : fs = X ++ S)
    (hg : r0 ≤ g.base) (h : GeAbove r0 S fs) : GeAbove r0 S (g :: fs) := by
  intro X' hX' f hf
  have h1 : (g :: X) ++ S = X' ++ S := by rw [← hX', hfs]; rfl
  have h2 : g :: X = X' := List.append_cancel_right h1
  rw [← h2] at hf
  cases List.mem_cons.mp hf with
  | inl h' => rw [h']; exact hg
  | inr h' => exact h X hfs f h'

theorem GeAbove_modTop (r0 : Nat) (S rest : List Frame) (f f' : Frame) (hb : f'.base = f.base)
    (h : GeAbove r0 S (f :: rest)) : GeAbove r0 S (f' :: rest) := by
  intro X' hX' g hg
  cases X' with
  | nil => simp at hg
  | cons y ys =>
    have hy : f' = y ∧ rest = ys ++ S := by simpa using hX'
    have : f :: rest = (f :: ys) ++ S := by rw [hy.2]; rfl
    cases List.mem_cons.mp hg with
    | inl h' => rw [h', ← hy.1, hb]; exact h (f :: ys) this f (by simp)
    | inr h' => exact h (f :: ys) this g (List.mem_cons_of_mem _ h')

theorem dropLoop_split : ∀ (fs R : List Frame), dropLoop fs = some R →
    ∃ X, fs = X ++ R ∧ X ≠ [] := by
  intro fs
  induction fs with
  | nil => intro R h; simp [dropLoop] at h
  | cons f rest ih =>
    intro R h
    by_cases hb : f.barrier = true
    · have : rest = R := by simpa [dropLoop, hb] using h
      exact ⟨[f], by simp [this], by simp⟩
    · have hb' : f.barrier = false := by simpa using hb
      obtain ⟨X, hX, _⟩ := ih R (by simpa [dropLoop, hb'] using h)
      exact ⟨f :: X, by simp [hX], by simp⟩

theorem peelAll_split : ∀ (Y : List Cont) (fs S : List Frame), peelAll Y fs = some S →
    ∃ X, fs = X ++ S ∧ (hasLoop Y = true → X ≠ []) := by
  intro Y
  induction Y with
  | nil => intro fs S h; exact ⟨[], by simpa [peelAll] using h, by simp [hasLoop]⟩
  | cons c cs ih =>
    intro fs S h
    cases c with
    | native a b =>
      obtain ⟨X, hX, hne⟩ := ih fs S (by simpa [peelAll] using h)
      exact ⟨X, hX, fun hl => hne (by simpa [hasLoop] using hl)⟩
    | importing a b =>
      obtain ⟨X, hX, hne⟩ := ih fs S (by simpa [peelAll] using h)
      exact ⟨X, hX, fun hl => hne (by simpa [hasLoop] using hl)⟩
    | loop x =>
      simp only [peelAll] at h
      cases hd : dropLoop fs with
      | none => simp [hd] at h
      | some R =>
        simp only [hd, Option.bind_some] at h
        obtain ⟨X1, hX1, hne1⟩ := dropLoop_split fs R hd
        obtain ⟨X2, hX2, _⟩ := ih R S h
        refine ⟨X1 ++ X2, by rw [hX1, hX2, List.append_assoc], fun _ => ?_⟩
        intro hnil
        exact hne1 (List.append_eq_nil_iff.mp hnil).1

theorem hasLoop_of_getLast : ∀ (Y : List Cont) (x : Exit), Y.getLast? = some (.loop x) →
    hasLoop Y = true := by
  intro Y
  induction Y with
  | nil => intro x h; simp at h
  | cons c cs ih =>
    intro x h
    cases cs with
    | nil =>
      have : c = .loop x := by simpa using h
      rw [this]; rfl
    | cons d ds =>
      have := ih x (by simpa [List.getLast?_cons_cons] using h)
      cases c <;> simp [hasLoop, this]

/-- inside the bracket the current frame lies above the caller's frames -/
theorem topGe (r0 : Nat) (Y : List Cont) (fs S : List Frame) (hp : peelAll Y fs = some S)
    (hl : hasLoop Y = true) (hg : GeAbove r0 S fs) : r0 ≤ topBase fs := by
  obtain ⟨X, hX, hne⟩ := peelAll_split Y fs S hp
  cases X with
  | nil => exact absurd rfl (hne hl)
  | cons f X1 =>
    rw [hX]
    exact hg (f :: X1) hX f (by simp)

/-! ### unwinding keeps at least `r0` registers -/

theorem unwindGo_low (c : Bool) (r0 : Nat) : ∀ (fs : List Frame) (vm : VM) (R : List Frame),
    vm.stack = fs → dropLoop fs = some R → (∀ X, fs = X ++ R → ∀ f ∈ X, r0 ≤ f.base) →
    r0 ≤ vm.regs →
    r0 ≤ (unwindGo c fs vm).1.regs ∧ (unwindGo c fs vm).1.stack <:+ fs := by
  intro fs
  induction fs with
  | nil => intro vm R _ h; simp [dropLoop] at h
  | cons f rest ih =>
    intro vm R hs hd hge hr
    unfold unwindGo
    split
    · exact ⟨hr, by rw [hs]; exact List.suffix_refl _⟩
    · by_cases hbar : f.barrier = true
      · simp only [hbar, if_true]
        exact ⟨hr, by rw [hs]; exact List.suffix_refl _⟩
      · have hbar' : f.barrier = false := by simpa using hbar
        simp only [hbar', Bool.false_eq_true, if_false]
        have hd' : dropLoop rest = some R := by simpa [dropLoop, hbar'] using hd
        obtain ⟨X1, hX1, hne1⟩ := dropLoop_split rest R hd'
        cases rest with
        | nil => simp [dropLoop] at hd'
        | cons r rs =>
          have hp := popTo_fields f (r :: rs) vm
          have hrb : r0 ≤ r.base := by
            cases X1 with
            | nil => exact absurd rfl hne1
            | cons y ys =>
              have hy : r = y := by
                have : r :: rs = y :: (ys ++ R) := by simpa using hX1
                exact (List.cons.inj this).1
              have : f :: r :: rs = (f :: y :: ys) ++ R := by rw [hX1]; rfl
              rw [hy]
              exact hge (f :: y :: ys) this y (by simp)
          have hregs : r0 ≤ (popTo f (r :: rs) vm).1.regs := by
            simp [popTo, hbar']; omega
          have hge' : ∀ X, r :: rs = X ++ R → ∀ g ∈ X, r0 ≤ g.base := by
            intro X hX g hg
            have : f :: r :: rs = (f :: X) ++ R := by rw [hX]; rfl
            exact hge (f :: X) this g (List.mem_cons_of_mem _ hg)
          have := ih (popTo f (r :: rs) vm).1 R hp.1 hd' hge' hregs
          exact ⟨this.1, List.IsSuffix.trans this.2 (List.suffix_cons f (r :: rs))⟩

/-- What is known about the register count when the bracket's own continuation has been popped. -/
def DoneR (e : Cont) (r0 : Nat) (vm : VM) : Prop :=
  match e with
  | .loop (.truncate rr) => min r0 (vm.base + rr) ≤ vm.regs
  | _ => True

structure Low (r0 : Nat) (e : Cont) (S : List Frame) (st : St) (Y : List Cont) : Prop where
  regsIn : Y ≠ [] → r0 ≤ st.vm.regs
  ge : Y ≠ [] → GeAbove r0 S st.vm.stack
  doneR : Y = [] → DoneR e r0 st.vm

theorem exitErr_regs (x : Exit) (vm : VM) (b : Frame) (R : List Frame) (hs : vm.stack = b :: R)
    (hb : b.barrier = true) :
    (exitErr x vm).regs = (match x with
      | .truncate rr => min vm.regs (topBase R + rr)
      | .propagate => vm.regs) := by
  have hp := popTo_fields b R vm
  have hst := popTo_stop_of_barrier b R vm hb
  cases x with
  | truncate rr => simp [exitErr, popFrameD, popFrame, hs, truncate, hp, hst]
  | propagate => simp [exitErr, popFrameD, popFrame, hs, hst]

theorem raiseGo_low (s0 : St) (x0 : Exit) (hs0 : inLoop s0 = false) (r0 : Nat) :
    ∀ (Y : List Cont) (c : Bool) (vm : VM),
      peelAll Y vm.stack = some s0.vm.stack → vm.base = topBase vm.stack →
      (Y ≠ [] → Y.getLast? = some (.loop x0)) → Y ≠ [] →
      r0 ≤ vm.regs → GeAbove r0 s0.vm.stack vm.stack →
      ∀ Y', (raiseGo (Y ++ s0.conts) c vm).conts = Y' ++ s0.conts →
        Low r0 (.loop x0) s0.vm.stack (raiseGo (Y ++ s0.conts) c vm) Y' := by
  intro Y
  induction Y with
  | nil => intro c vm _ _ _ hne; exact absurd rfl hne
  | cons c1 Y1 ih =>
    intro c vm hp hb hl _ hr hg Y' hY'
    cases c1 with
    | native a b =>
      rw [List.cons_append, raiseGo_notLoop _ _ _ (by simp)] at hY' ⊢
      have : Y' = .native a b :: Y1 := (List.append_cancel_right hY').symm
      subst this
      exact ⟨fun _ => hr, fun _ => hg, fun h => by simp at h⟩
    | importing a b =>
      rw [List.cons_append, raiseGo_notLoop _ _ _ (by simp)] at hY' ⊢
      have : Y' = .importing a b :: Y1 := (List.append_cancel_right hY').symm
      subst this
      exact ⟨fun _ => hr, fun _ => hg, fun h => by simp at h⟩
    | loop x =>
      simp only [peelAll] at hp
      cases hdl : dropLoop vm.stack with
      | none => simp [hdl] at hp
      | some R1 =>
        simp only [hdl, Option.bind_some] at hp
        obtain ⟨X2, hX2, _⟩ := peelAll_split Y1 R1 _ hp
        have hgeR : ∀ X, vm.stack = X ++ R1 → ∀ f ∈ X, r0 ≤ f.base := by
          intro X hX f hf
          have : vm.stack = (X ++ X2) ++ s0.vm.stack := by rw [hX, hX2, List.append_assoc]
          exact hg (X ++ X2) this f (List.mem_append_left X2 hf)
        have hu := unwindGo_spec c vm.stack vm R1 rfl hb hdl
        have hlow := unwindGo_low c r0 vm.stack vm R1 rfl hdl hgeR hr
        simp only [] at hu
        have hune : unwind c vm = unwindGo c vm.stack vm := rfl
        rcases hres : unwindGo c vm.stack vm with ⟨vm1, r⟩
        rw [hres] at hu hlow
        simp only [] at hu hlow
        have hg1 : GeAbove r0 s0.vm.stack vm1.stack := GeAbove_suffix r0 _ _ _ hlow.2 hg
        cases r with
        | some cr =>
          rw [List.cons_append, raiseGo_loop_some x _ c vm vm1 cr (by rw [hune, hres])] at hY' ⊢
          have : Y' = .loop x :: Y1 := (List.append_cancel_right hY').symm
          subst this
          exact ⟨fun _ => hlow.1, fun _ => hg1, fun h => by simp at h⟩
        | none =>
          obtain ⟨b, hstk, hbb⟩ := hu.2.2.1 rfl
          have hx := exitErr_fields x vm1 b R1 hstk
          have hxr := exitErr_regs x vm1 b R1 hstk hbb
          have hgR1 : GeAbove r0 s0.vm.stack R1 :=
            GeAbove_suffix r0 _ _ _ (by rw [hstk]; exact List.suffix_cons b R1) hg1
          have hl1 : Y1 ≠ [] → Y1.getLast? = some (.loop x0) := by
            intro hne; rw [← getLast_cons_ne (Cont.loop x) Y1 hne]; exact hl (by simp)
          -- register bound after the caller's epilogue
          have hregs1 : Y1 ≠ [] → r0 ≤ (exitErr x vm1).regs := by
            intro hne
            have htop := topGe r0 Y1 R1 _ hp (hasLoop_of_getLast Y1 x0 (hl1 hne)) hgR1
            rw [hxr]
            cases x with
            | truncate rr => simp only []; have := hlow.1; omega
            | propagate => exact hlow.1
          have hp1 : peelAll Y1 (exitErr x vm1).stack = some s0.vm.stack := by rw [hx.1]; exact hp
          have hb1 : (exitErr x vm1).base = topBase (exitErr x vm1).stack := by rw [hx.2.1, hx.1]
          have hg2 : GeAbove r0 s0.vm.stack (exitErr x vm1).stack := by rw [hx.1]; exact hgR1
          rw [List.cons_append] at hY' ⊢
          cases raiseGo_loop_none x (Y1 ++ s0.conts) c vm vm1 (by rw [hune, hres]) with
          | inl h =>
            -- re-raised in the loop below (which is in `Y1`: the caller `s0` is not a loop)
            rw [h] at hY' ⊢
            cases Y1 with
            | nil =>
              -- impossible: `s0.conts` does not start with a loop, so nothing is raised there;
              -- `raiseGo` is then the identity and the state is the exit state
              rw [List.nil_append, raiseGo_host s0 hs0] at hY' ⊢
              have : Y' = [] := by
                have : ([] : List Cont) ++ s0.conts = Y' ++ s0.conts := by simpa using hY'
                exact (List.append_cancel_right this).symm
              subst this
              refine ⟨fun h => absurd rfl h, fun h => absurd rfl h, fun _ => ?_⟩
              have hxe : x = x0 := by
                have := hl (by simp)
                simpa using this
              subst hxe
              cases x with
              | truncate rr =>
                simp only [DoneR]
                rw [hxr, hx.2.1]
                simp only []
                have := hlow.1
                omega
              | propagate => simp [DoneR]
            | cons y ys =>
              exact ih true (exitErr x vm1) hp1 hb1 hl1 (by simp) (hregs1 (by simp)) hg2 Y' hY'
          | inr h =>
            rw [h] at hY' ⊢
            have : Y' = Y1 := by
              have : Y1 ++ s0.conts = Y' ++ s0.conts := by simpa using hY'
              exact (List.append_cancel_right this).symm
            subst this
            refine ⟨fun hne => hregs1 hne, fun _ => hg2, fun hnil => ?_⟩
            subst hnil
            have hxe : x = x0 := by
              have := hl (by simp)
              simpa using this
            subst hxe
            cases x with
            | truncate rr =>
              simp only [DoneR]
              rw [hxr, hx.2.1]
              simp only []
              have := hlow.1
              omega
            | propagate => simp [DoneR]


/-! ### every event keeps the lower bound -/

theorem ne_of_conts (s0 st' : St) (Y' : List Cont) (h' : st'.conts = Y' ++ s0.conts)
    (hlen : s0.conts.length < st'.conts.length) : Y' ≠ [] := by
  intro hn; subst hn; simp at h'; rw [h'] at hlen; omega

theorem low_mk (r0 : Nat) (e : Cont) (S : List Frame) (st' : St) (Y' : List Cont) (hne : Y' ≠ [])
    (hr' : r0 ≤ st'.vm.regs) (hg' : GeAbove r0 S st'.vm.stack) : Low r0 e S st' Y' :=
  ⟨fun _ => hr', fun _ => hg', fun h => absurd h hne⟩

/-- facts available inside the bracket -/
structure Inside (s0 : St) (x0 : Exit) (r0 : Nat) (st : St) (Y : List Cont) : Prop where
  inv : Inv s0 (.loop x0) st Y
  ne : Y ≠ []
  regs : r0 ≤ st.vm.regs
  ge : GeAbove r0 s0.vm.stack st.vm.stack
  base : r0 ≤ st.vm.base
  split : ∃ X, st.vm.stack = X ++ s0.vm.stack

theorem inside_of (s0 : St) (x0 : Exit) (r0 : Nat) (st : St) (Y : List Cont)
    (h : Inv s0 (.loop x0) st Y) (hl : Low r0 (.loop x0) s0.vm.stack st Y) (hY : Y ≠ []) :
    Inside s0 x0 r0 st Y := by
  obtain ⟨X, hX, _⟩ := peelAll_split Y st.vm.stack _ h.peel
  refine ⟨h, hY, hl.regsIn hY, hl.ge hY, ?_, ⟨X, hX⟩⟩
  rw [h.base]
  exact topGe r0 Y _ _ h.peel (hasLoop_of_getLast Y x0 (h.lastc hY)) (hl.ge hY)

theorem raise_low_of (s0 : St) (x0 : Exit) (hs0 : inLoop s0 = false) (r0 : Nat) (st : St)
    (Y : List Cont) (hi : Inside s0 x0 r0 st Y) (c : Bool) (vm : VM)
    (h1 : vm.stack = st.vm.stack) (h2 : vm.base = st.vm.base) (h3 : r0 ≤ vm.regs)
    (Y' : List Cont) (hY' : (raiseGo st.conts c vm).conts = Y' ++ s0.conts) :
    Low r0 (.loop x0) s0.vm.stack (raiseGo st.conts c vm) Y' := by
  rw [hi.inv.conts] at hY' ⊢
  exact raiseGo_low s0 x0 hs0 r0 Y c vm (by rw [h1]; exact hi.inv.peel)
    (by rw [h1, h2]; exact hi.inv.base) hi.inv.lastc hi.ne h3 (by rw [h1]; exact hi.ge) Y' hY'

theorem enterWith_low (s0 : St) (x0 : Exit) (hs0 : inLoop s0 = false) (r0 : Nat) (st : St)
    (Y : List Cont) (hi : Inside s0 x0 r0 st Y) (t : Bool) (pre args : Nat) (c : Callee)
    (Y' : List Cont) (h' : Inv s0 (.loop x0) (enterWith t pre args c st) Y') :
    Low r0 (.loop x0) s0.vm.stack (enterWith t pre args c st) Y' := by
  have hr := hi.regs
  have hb := hi.base
  obtain ⟨X, hX⟩ := hi.split
  have hlen : s0.conts.length < st.conts.length := by
    rw [hi.inv.conts]; have := List.length_pos_iff.mpr hi.ne; simp; omega
  cases c with
  | koto a =>
    apply low_mk _ _ _ _ _ (ne_of_conts s0 _ Y' h'.conts (by simp [enterWith]; omega))
    · simp [enterWith, callKoto, pushFrame]; omega
    · simp only [enterWith, callKoto, pushFrame]
      exact GeAbove_cons r0 _ _ _ X hX (by simp; omega) hi.ge
  | native =>
    apply low_mk _ _ _ _ _ (ne_of_conts s0 _ Y' h'.conts (by simp [enterWith]; omega))
    · simp [enterWith]; omega
    · simpa [enterWith] using hi.ge
  | fail =>
    have hc' := h'.conts
    simp only [enterWith] at hc' ⊢
    cases t with
    | true =>
      exact raise_low_of s0 x0 hs0 r0 st Y hi true _ (by simp [truncate]) (by simp [truncate])
        (by simp [truncate]; omega) Y' hc'
    | false =>
      exact raise_low_of s0 x0 hs0 r0 st Y hi true _ (by simp) (by simp) (by simp; omega) Y' hc'

theorem enterDirect_low (s0 : St) (x0 : Exit) (hs0 : inLoop s0 = false) (r0 : Nat) (st : St)
    (Y : List Cont) (hi : Inside s0 x0 r0 st Y) (pre : Nat) (ok : Bool)
    (Y' : List Cont) (h' : Inv s0 (.loop x0) (enterDirect pre ok st) Y') :
    Low r0 (.loop x0) s0.vm.stack (enterDirect pre ok st) Y' := by
  have hr := hi.regs
  have hb := hi.base
  have hlen : s0.conts.length < st.conts.length := by
    rw [hi.inv.conts]; have := List.length_pos_iff.mpr hi.ne; simp; omega
  cases ok with
  | true =>
    apply low_mk _ _ _ _ _ (ne_of_conts s0 _ Y' h'.conts (by simpa [enterDirect] using hlen))
    · simp [enterDirect, truncate]; omega
    · simpa [enterDirect, truncate] using hi.ge
  | false =>
    have hc' := h'.conts
    simp only [enterDirect] at hc' ⊢
    exact raise_low_of s0 x0 hs0 r0 st Y hi true _ (by simp [truncate]) (by simp [truncate])
      (by simp [truncate]; omega) Y' hc'

theorem nested_low (s0 : St) (x0 : Exit) (hs0 : inLoop s0 = false) (r0 : Nat) (st : St)
    (Y : List Cont) (hi : Inside s0 x0 r0 st Y) (args a : Nat)
    (Y' : List Cont) (h' : Inv s0 (.loop x0) (nested args a st) Y') :
    Low r0 (.loop x0) s0.vm.stack (nested args a st) Y' := by
  have hr := hi.regs
  have hb := hi.base
  obtain ⟨X, hX⟩ := hi.split
  have hlen : s0.conts.length < st.conts.length := by
    rw [hi.inv.conts]; have := List.length_pos_iff.mpr hi.ne; simp; omega
  by_cases hfb : st.vm.regs - st.vm.base > 255
  · have hc' := h'.conts
    simp only [nested, hfb, if_true, raise] at hc' ⊢
    exact raise_low_of s0 x0 hs0 r0 st Y hi true _ rfl rfl hr Y' hc'
  · apply low_mk _ _ _ _ _ (ne_of_conts s0 _ Y' h'.conts (by simp [nested, hfb]; omega))
    · simp [nested, hfb, callKoto, pushFrame]; omega
    · simp only [nested, hfb, if_false, callKoto, pushFrame]
      exact GeAbove_cons r0 _ _ _ X hX (by simp; omega) hi.ge


theorem step_low_loop (s0 : St) (x0 : Exit) (hs0 : inLoop s0 = false) (r0 : Nat) (st : St)
    (x : Exit) (Y1 : List Cont) (hi : Inside s0 x0 r0 st (.loop x :: Y1)) (ev : Ev)
    (Y' : List Cont) (h' : Inv s0 (.loop x0) (step ev st) Y') :
    Low r0 (.loop x0) s0.vm.stack (step ev st) Y' := by
  have h := hi.inv
  have hr := hi.regs
  have hb := hi.base
  obtain ⟨X, hX⟩ := hi.split
  have hconts : st.conts = .loop x :: (Y1 ++ s0.conts) := by rw [h.conts]; rfl
  have hin : inLoop st = true := by simp [inLoop, hconts]
  have hlen : s0.conts.length < st.conts.length := by rw [hconts]; simp; omega
  have hpeel := h.peel
  simp only [peelAll] at hpeel
  cases hdl : dropLoop st.vm.stack with
  | none => simp [hdl] at hpeel
  | some R1 =>
  simp only [hdl, Option.bind_some] at hpeel
  cases hstk : st.vm.stack with
  | nil => simp [hstk, dropLoop] at hdl
  | cons f rest =>
  have hbase : st.vm.base = f.base := by rw [h.base, hstk]; rfl
  have hge := hi.ge
  rw [hstk] at hge
  cases ev with
  | enter pre args c => exact enterWith_low s0 x0 hs0 r0 st _ hi true pre args c Y' h'
  | enterOp pre args c => exact enterWith_low s0 x0 hs0 r0 st _ hi true pre args c Y' h'
  | enterDirect pre ok => exact enterDirect_low s0 x0 hs0 r0 st _ hi pre ok Y' h'
  | nested args a => exact nested_low s0 x0 hs0 r0 st _ hi args a Y' h'
  | newFrame n =>
    apply low_mk _ _ _ _ _ (ne_of_conts s0 _ Y' h'.conts (by simpa [step, hin] using hlen))
    · simp [step, hin, modTop, hstk]; omega
    · simp only [step, hin, if_true, modTop, hstk]
      exact GeAbove_modTop r0 _ rest f _ rfl hge
  | tryStart r ip =>
    apply low_mk _ _ _ _ _ (ne_of_conts s0 _ Y' h'.conts (by simpa [step, hin] using hlen))
    · simpa [step, hin, modTop, hstk] using hr
    · simp only [step, hin, if_true, modTop, hstk]
      exact GeAbove_modTop r0 _ rest f _ rfl hge
  | tryEnd =>
    apply low_mk _ _ _ _ _ (ne_of_conts s0 _ Y' h'.conts (by simpa [step, hin] using hlen))
    · simpa [step, hin, modTop, hstk] using hr
    · simp only [step, hin, if_true, modTop, hstk]
      exact GeAbove_modTop r0 _ rest f _ rfl hge
  | call fb a =>
    apply low_mk _ _ _ _ _ (ne_of_conts s0 _ Y' h'.conts (by simpa [step, hin] using hlen))
    · simp [step, hin, callKoto, pushFrame]; omega
    · simp only [step, hin, if_true, callKoto, pushFrame]
      exact GeAbove_cons r0 _ _ _ X hX (by simp; omega) hi.ge
  | callNative fb =>
    apply low_mk _ _ _ _ _ (ne_of_conts s0 _ Y' h'.conts (by simp [step, hin]; omega))
    · simpa [step, hin] using hr
    · simpa [step, hin] using hi.ge
  | seqStart =>
    apply low_mk _ _ _ _ _ (ne_of_conts s0 _ Y' h'.conts (by simpa [step, hin] using hlen))
    · simpa [step, hin] using hr
    · simpa [step, hin] using hi.ge
  | strStart =>
    apply low_mk _ _ _ _ _ (ne_of_conts s0 _ Y' h'.conts (by simpa [step, hin] using hlen))
    · simpa [step, hin] using hr
    · simpa [step, hin] using hi.ge
  | exportVal k =>
    apply low_mk _ _ _ _ _ (ne_of_conts s0 _ Y' h'.conts (by simpa [step, hin] using hlen))
    · simpa [step, hin] using hr
    · simpa [step, hin] using hi.ge
  | seqEnd =>
    by_cases hz : st.vm.seq = 0
    · have hc' := h'.conts
      simp only [step, hin, if_true, hz, raise] at hc' ⊢
      exact raise_low_of s0 x0 hs0 r0 st _ hi true _ rfl rfl hr Y' hc'
    · apply low_mk _ _ _ _ _ (ne_of_conts s0 _ Y' h'.conts (by simpa [step, hin, hz] using hlen))
      · simpa [step, hin, hz] using hr
      · simpa [step, hin, hz] using hi.ge
  | strEnd =>
    by_cases hz : st.vm.str = 0
    · have hc' := h'.conts
      simp only [step, hin, if_true, hz, raise] at hc' ⊢
      exact raise_low_of s0 x0 hs0 r0 st _ hi true _ rfl rfl hr Y' hc'
    · apply low_mk _ _ _ _ _ (ne_of_conts s0 _ Y' h'.conts (by simpa [step, hin, hz] using hlen))
      · simpa [step, hin, hz] using hr
      · simpa [step, hin, hz] using hi.ge
  | raise c =>
    have hc' := h'.conts
    simp only [step, hin, if_true, raise] at hc' ⊢
    exact raise_low_of s0 x0 hs0 r0 st _ hi c _ rfl rfl hr Y' hc'
  | importBegin m =>
    by_cases hm : m ∈ st.vm.placeholders
    · have hc' := h'.conts
      simp only [step, hin, if_true, hm, raise] at hc' ⊢
      exact raise_low_of s0 x0 hs0 r0 st _ hi true _ rfl rfl hr Y' hc'
    · by_cases hcd : m ∈ st.vm.cached
      · apply low_mk _ _ _ _ _ (ne_of_conts s0 _ Y' h'.conts (by simpa [step, hin, hm, hcd] using hlen))
        · simpa [step, hin, hm, hcd] using hr
        · simpa [step, hin, hm, hcd] using hi.ge
      · apply low_mk _ _ _ _ _ (ne_of_conts s0 _ Y' h'.conts (by simp [step, hin, hm, hcd]; omega))
        · simpa [step, hin, hm, hcd] using hr
        · simpa [step, hin, hm, hcd] using hi.ge
  | nativeRet ok =>
    apply low_mk _ _ _ _ _ (ne_of_conts s0 _ Y' h'.conts (by simpa [step, hin] using hlen))
    · simpa [step, hin] using hr
    · simpa [step, hin] using hi.ge
  | importEnd ok =>
    apply low_mk _ _ _ _ _ (ne_of_conts s0 _ Y' h'.conts (by simpa [step, hin] using hlen))
    · simpa [step, hin] using hr
    · simpa [step, hin] using hi.ge
  | ret =>
    have hp := popTo_fields f rest st.vm
    have hsuf : GeAbove r0 s0.vm.stack rest :=
      GeAbove_suffix r0 _ _ _ (List.suffix_cons f rest) hge
    by_cases hbar : f.barrier = true
    · have hs := popTo_stop_of_barrier f rest st.vm hbar
      have hlastx : Y1 = [] → x = x0 := by
        intro hn; have := h.lastc (by simp); subst hn; simpa using this
      have hl1 : Y1 ≠ [] → Y1.getLast? = some (.loop x0) := by
        intro hne; rw [← getLast_cons_ne (Cont.loop x) Y1 hne]; exact h.lastc (by simp)
      cases x with
      | truncate rr =>
        have hstep : step .ret st = ⟨truncate rr (popTo f rest st.vm).1, Y1 ++ s0.conts⟩ := by
          simp only [step, hin, if_true, hstk, hconts]
          rcases hpt : popTo f rest st.vm with ⟨vm1, b⟩
          rw [hpt] at hs
          simp only [] at hs
          simp [hs.1]
        rw [hstep] at h' ⊢
        have hYeq : Y' = Y1 := by
          have := h'.conts
          simp only [] at this
          exact (List.append_cancel_right this).symm
        subst hYeq
        have hregs : (truncate rr (popTo f rest st.vm).1).regs
            = min st.vm.regs (topBase rest + rr) := by
          simp [truncate, hs.2, hp.2.1]
        refine ⟨fun hne => ?_, fun _ => ?_, fun hn => ?_⟩
        · have hpe := h'.peel
          simp only [] at hpe
          rw [(truncate_fields rr _).1, hp.1] at hpe
          have := topGe r0 Y' rest _ hpe (hasLoop_of_getLast Y' x0 (hl1 hne)) hsuf
          simp only []; rw [hregs]; omega
        · simp only []; rw [(truncate_fields rr _).1, hp.1]; exact hsuf
        · have hx := hlastx hn
          rw [← hx]
          simp only [DoneR]
          rw [hregs, (truncate_fields rr _).2.1, hp.2.1]
          omega
      | propagate =>
        have hstep : step .ret st = ⟨(popTo f rest st.vm).1, Y1 ++ s0.conts⟩ := by
          simp only [step, hin, if_true, hstk, hconts]
          rcases hpt : popTo f rest st.vm with ⟨vm1, b⟩
          rw [hpt] at hs
          simp only [] at hs
          simp [hs.1]
        rw [hstep] at h' ⊢
        have hYeq : Y' = Y1 := by
          have := h'.conts
          simp only [] at this
          exact (List.append_cancel_right this).symm
        subst hYeq
        refine ⟨fun _ => ?_, fun _ => ?_, fun hn => ?_⟩
        · simp only []; rw [hs.2]; exact hr
        · simp only []; rw [hp.1]; exact hsuf
        · have hx := hlastx hn
          rw [← hx]; simp [DoneR]
    · have hbar' : f.barrier = false := by simpa using hbar
      have hdr : dropLoop rest = some R1 := by simpa [hstk, dropLoop, hbar'] using hdl
      cases rest with
      | nil => simp [dropLoop] at hdr
      | cons r rs =>
        have hcont := popTo_continue f r rs st.vm hbar'
        have hstep : step .ret st = { st with vm := (popTo f (r :: rs) st.vm).1 } := by
          simp only [step, hin, if_true, hstk, hconts]
          rcases hpt : popTo f (r :: rs) st.vm with ⟨vm1, b⟩
          rw [hpt] at hcont
          simp only [] at hcont
          simp [hcont]
        rw [hstep] at h' ⊢
        have hne' : Y' ≠ [] := ne_of_conts s0 _ Y' h'.conts (by simpa using hlen)
        have hpe := h'.peel
        simp only [] at hpe
        rw [hp.1] at hpe
        have htop := topGe r0 Y' (r :: rs) _ hpe
          (hasLoop_of_getLast Y' x0 (h'.lastc hne')) hsuf
        apply low_mk _ _ _ _ _ hne'
        · simp only [popTo, hbar']; simp [topBase] at htop ⊢; omega
        · simp only []; rw [hp.1]; exact hsuf


theorem tail_ne_of_last_loop (c1 : Cont) (Y1 : List Cont) (x0 : Exit) (hc1 : isLoop c1 = false)
    (hl : (c1 :: Y1).getLast? = some (.loop x0)) : Y1 ≠ [] := by
  intro hn; subst hn
  have : c1 = .loop x0 := by simpa using hl
  rw [this] at hc1; simp [isLoop] at hc1

theorem step_low_native (s0 : St) (x0 : Exit) (hs0 : inLoop s0 = false) (r0 : Nat) (st : St)
    (fb : Nat) (host : Option (Nat × Bool)) (Y1 : List Cont)
    (hi : Inside s0 x0 r0 st (.native fb host :: Y1)) (ev : Ev)
    (Y' : List Cont) (h' : Inv s0 (.loop x0) (step ev st) Y') :
    Low r0 (.loop x0) s0.vm.stack (step ev st) Y' := by
  have h := hi.inv
  have hr := hi.regs
  have hb := hi.base
  have hconts : st.conts = .native fb host :: (Y1 ++ s0.conts) := by rw [h.conts]; rfl
  have hin : inLoop st = false := by simp [inLoop, hconts]
  have hlen : s0.conts.length < st.conts.length := by rw [hconts]; simp; omega
  have hY1 : Y1 ≠ [] := tail_ne_of_last_loop _ Y1 x0 rfl (h.lastc (by simp))
  have hl1 : Y1.getLast? = some (.loop x0) := by
    rw [← getLast_cons_ne (Cont.native fb host) Y1 hY1]; exact h.lastc (by simp)
  have hpeel : peelAll Y1 st.vm.stack = some s0.vm.stack := by simpa [peelAll] using h.peel
  cases ev with
  | enter pre args c => exact enterWith_low s0 x0 hs0 r0 st _ hi true pre args c Y' h'
  | enterOp pre args c => exact enterWith_low s0 x0 hs0 r0 st _ hi true pre args c Y' h'
  | enterDirect pre ok => exact enterDirect_low s0 x0 hs0 r0 st _ hi pre ok Y' h'
  | nested args a => exact nested_low s0 x0 hs0 r0 st _ hi args a Y' h'
  | nativeRet ok =>
    have hn := nativeOk_fields fb st.vm
    have hnregs : r0 ≤ (nativeOk fb st.vm).regs := by
      cases hs : st.vm.stack with
      | nil => simpa [nativeOk, hs] using hr
      | cons f rest => simp [nativeOk, hs, truncate]; omega
    cases ok with
    | true =>
      cases host with
      | some rr =>
        have hstep : step (.nativeRet true) st = ⟨truncate rr.1 (nativeOk fb st.vm), Y1 ++ s0.conts⟩ := by
          simp [step, hin, hconts]
        rw [hstep] at h' ⊢
        have hYeq : Y' = Y1 := by
          have := h'.conts; simp only [] at this; exact (List.append_cancel_right this).symm
        subst hYeq
        apply low_mk _ _ _ _ _ hY1
        · simp [truncate, hn.2.1]; omega
        · simp only []; rw [(truncate_fields rr.1 _).1, hn.1]; exact hi.ge
      | none =>
        have hstep : step (.nativeRet true) st = ⟨nativeOk fb st.vm, Y1 ++ s0.conts⟩ := by
          simp [step, hin, hconts]
        rw [hstep] at h' ⊢
        have hYeq : Y' = Y1 := by
          have := h'.conts; simp only [] at this; exact (List.append_cancel_right this).symm
        subst hYeq
        apply low_mk _ _ _ _ _ hY1
        · exact hnregs
        · simp only []; rw [hn.1]; exact hi.ge
    | false =>
      have hraise : ∀ vm : VM, vm.stack = st.vm.stack → vm.base = st.vm.base → r0 ≤ vm.regs →
          ∀ Y', (raiseGo (Y1 ++ s0.conts) true vm).conts = Y' ++ s0.conts →
          Low r0 (.loop x0) s0.vm.stack (raiseGo (Y1 ++ s0.conts) true vm) Y' := by
        intro vm h1 h2 h3 Y'' hY''
        exact raiseGo_low s0 x0 hs0 r0 Y1 true vm (by rw [h1]; exact hpeel)
          (by rw [h1, h2]; exact h.base) (fun _ => hl1) hY1 h3 (by rw [h1]; exact hi.ge) Y'' hY''
      cases host with
      | none =>
        have hstep : step (.nativeRet false) st = raiseGo (Y1 ++ s0.conts) true st.vm := by
          simp [step, hin, hconts]
        rw [hstep] at h' ⊢
        exact hraise st.vm rfl rfl hr Y' h'.conts
      | some rr =>
        have hstep : step (.nativeRet false) st =
            raiseGo (Y1 ++ s0.conts) true (if rr.2 then truncate rr.1 st.vm else st.vm) := by
          simp [step, hin, hconts]
        rw [hstep] at h' ⊢
        cases hr2 : rr.2 with
        | false =>
          simp only [hr2, Bool.false_eq_true, if_false] at h' ⊢
          exact hraise st.vm rfl rfl hr Y' h'.conts
        | true =>
          simp only [hr2, if_true] at h' ⊢
          exact hraise (truncate rr.1 st.vm) (by simp [truncate]) (by simp [truncate])
            (by simp [truncate]; omega) Y' h'.conts
  | newFrame n =>
    apply low_mk _ _ _ _ _ (ne_of_conts s0 _ Y' h'.conts (by simpa [step, hin] using hlen))
    · simpa [step, hin] using hr
    · simpa [step, hin] using hi.ge
  | tryStart r ip =>
    apply low_mk _ _ _ _ _ (ne_of_conts s0 _ Y' h'.conts (by simpa [step, hin] using hlen))
    · simpa [step, hin] using hr
    · simpa [step, hin] using hi.ge
  | tryEnd =>
    apply low_mk _ _ _ _ _ (ne_of_conts s0 _ Y' h'.conts (by simpa [step, hin] using hlen))
    · simpa [step, hin] using hr
    · simpa [step, hin] using hi.ge
  | call fb' a =>
    apply low_mk _ _ _ _ _ (ne_of_conts s0 _ Y' h'.conts (by simpa [step, hin] using hlen))
    · simpa [step, hin] using hr
    · simpa [step, hin] using hi.ge
  | callNative fb' =>
    apply low_mk _ _ _ _ _ (ne_of_conts s0 _ Y' h'.conts (by simpa [step, hin] using hlen))
    · simpa [step, hin] using hr
    · simpa [step, hin] using hi.ge
  | ret =>
    apply low_mk _ _ _ _ _ (ne_of_conts s0 _ Y' h'.conts (by simpa [step, hin] using hlen))
    · simpa [step, hin] using hr
    · simpa [step, hin] using hi.ge
  | seqStart =>
    apply low_mk _ _ _ _ _ (ne_of_conts s0 _ Y' h'.conts (by simpa [step, hin] using hlen))
    · simpa [step, hin] using hr
    · simpa [step, hin] using hi.ge
  | seqEnd =>
    apply low_mk _ _ _ _ _ (ne_of_conts s0 _ Y' h'.conts (by simpa [step, hin] using hlen))
    · simpa [step, hin] using hr
    · simpa [step, hin] using hi.ge
  | strStart =>
    apply low_mk _ _ _ _ _ (ne_of_conts s0 _ Y' h'.conts (by simpa [step, hin] using hlen))
    · simpa [step, hin] using hr
    · simpa [step, hin] using hi.ge
  | strEnd =>
    apply low_mk _ _ _ _ _ (ne_of_conts s0 _ Y' h'.conts (by simpa [step, hin] using hlen))
    · simpa [step, hin] using hr
    · simpa [step, hin] using hi.ge
  | exportVal k =>
    apply low_mk _ _ _ _ _ (ne_of_conts s0 _ Y' h'.conts (by simpa [step, hin] using hlen))
    · simpa [step, hin] using hr
    · simpa [step, hin] using hi.ge
  | raise c =>
    apply low_mk _ _ _ _ _ (ne_of_conts s0 _ Y' h'.conts (by simpa [step, hin] using hlen))
    · simpa [step, hin] using hr
    · simpa [step, hin] using hi.ge
  | importBegin m =>
    apply low_mk _ _ _ _ _ (ne_of_conts s0 _ Y' h'.conts (by simpa [step, hin] using hlen))
    · simpa [step, hin] using hr
    · simpa [step, hin] using hi.ge
  | importEnd ok =>
    apply low_mk _ _ _ _ _ (ne_of_conts s0 _ Y' h'.conts (by simpa [step, hin, hconts] using hlen))
    · simpa [step, hin, hconts] using hr
    · simpa [step, hin, hconts] using hi.ge

theorem step_low_importing (s0 : St) (x0 : Exit) (hs0 : inLoop s0 = false) (r0 : Nat) (st : St)
    (m : Nat) (saved : List Nat) (Y1 : List Cont)
    (hi : Inside s0 x0 r0 st (.importing m saved :: Y1)) (ev : Ev)
    (Y' : List Cont) (h' : Inv s0 (.loop x0) (step ev st) Y') :
    Low r0 (.loop x0) s0.vm.stack (step ev st) Y' := by
  have h := hi.inv
  have hr := hi.regs
  have hb := hi.base
  have hconts : st.conts = .importing m saved :: (Y1 ++ s0.conts) := by rw [h.conts]; rfl
  have hin : inLoop st = false := by simp [inLoop, hconts]
  have hlen : s0.conts.length < st.conts.length := by rw [hconts]; simp; omega
  have hY1 : Y1 ≠ [] := tail_ne_of_last_loop _ Y1 x0 rfl (h.lastc (by simp))
  have hl1 : Y1.getLast? = some (.loop x0) := by
    rw [← getLast_cons_ne (Cont.importing m saved) Y1 hY1]; exact h.lastc (by simp)
  have hpeel : peelAll Y1 st.vm.stack = some s0.vm.stack := by simpa [peelAll] using h.peel
  cases ev with
  | enter pre args c => exact enterWith_low s0 x0 hs0 r0 st _ hi true pre args c Y' h'
  | enterOp pre args c => exact enterWith_low s0 x0 hs0 r0 st _ hi true pre args c Y' h'
  | enterDirect pre ok => exact enterDirect_low s0 x0 hs0 r0 st _ hi pre ok Y' h'
  | nested args a => exact nested_low s0 x0 hs0 r0 st _ hi args a Y' h'
  | importEnd ok =>
    cases ok with
    | true =>
      have hstep : step (.importEnd true) st =
          ⟨{ st.vm with
              placeholders := st.vm.placeholders.erase m, cached := m :: st.vm.cached,
              exports := saved }, Y1 ++ s0.conts⟩ := by
        simp [step, hin, hconts]
      rw [hstep] at h' ⊢
      have hYeq : Y' = Y1 := by
        have := h'.conts; simp only [] at this; exact (List.append_cancel_right this).symm
      subst hYeq
      exact low_mk _ _ _ _ _ hY1 hr hi.ge
    | false =>
      have hstep : step (.importEnd false) st =
          raiseGo (Y1 ++ s0.conts) true { st.vm with
            placeholders := st.vm.placeholders.erase m, exports := saved } := by
        simp [step, hin, hconts]
      rw [hstep] at h' ⊢
      exact raiseGo_low s0 x0 hs0 r0 Y1 true
        { st.vm with placeholders := st.vm.placeholders.erase m, exports := saved }
        hpeel h.base (fun _ => hl1) hY1 hr hi.ge Y' h'.conts
  | newFrame n =>
    apply low_mk _ _ _ _ _ (ne_of_conts s0 _ Y' h'.conts (by simpa [step, hin] using hlen))
    · simpa [step, hin] using hr
    · simpa [step, hin] using hi.ge
  | tryStart r ip =>
    apply low_mk _ _ _ _ _ (ne_of_conts s0 _ Y' h'.conts (by simpa [step, hin] using hlen))
    · simpa [step, hin] using hr
    · simpa [step, hin] using hi.ge
  | tryEnd =>
    apply low_mk _ _ _ _ _ (ne_of_conts s0 _ Y' h'.conts (by simpa [step, hin] using hlen))
    · simpa [step, hin] using hr
    · simpa [step, hin] using hi.ge
  | call fb' a =>
    apply low_mk _ _ _ _ _ (ne_of_conts s0 _ Y' h'.conts (by simpa [step, hin] using hlen))
    · simpa [step, hin] using hr
    · simpa [step, hin] using hi.ge
  | callNative fb' =>
    apply low_mk _ _ _ _ _ (ne_of_conts s0 _ Y' h'.conts (by simpa [step, hin] using hlen))
    · simpa [step, hin] using hr
    · simpa [step, hin] using hi.ge
  | ret =>
    apply low_mk _ _ _ _ _ (ne_of_conts s0 _ Y' h'.conts (by simpa [step, hin] using hlen))
    · simpa [step, hin] using hr
    · simpa [step, hin] using hi.ge
  | seqStart =>
    apply low_mk _ _ _ _ _ (ne_of_conts s0 _ Y' h'.conts (by simpa [step, hin] using hlen))
    · simpa [step, hin] using hr
    · simpa [step, hin] using hi.ge
  | seqEnd =>
    apply low_mk _ _ _ _ _ (ne_of_conts s0 _ Y' h'.conts (by simpa [step, hin] using hlen))
    · simpa [step, hin] using hr
    · simpa [step, hin] using hi.ge
  | strStart =>
    apply low_mk _ _ _ _ _ (ne_of_conts s0 _ Y' h'.conts (by simpa [step, hin] using hlen))
    · simpa [step, hin] using hr
    · simpa [step, hin] using hi.ge
  | strEnd =>
    apply low_mk _ _ _ _ _ (ne_of_conts s0 _ Y' h'.conts (by simpa [step, hin] using hlen))
    · simpa [step, hin] using hr
    · simpa [step, hin] using hi.ge
  | exportVal k =>
    apply low_mk _ _ _ _ _ (ne_of_conts s0 _ Y' h'.conts (by simpa [step, hin] using hlen))
    · simpa [step, hin] using hr
    · simpa [step, hin] using hi.ge
  | raise c =>
    apply low_mk _ _ _ _ _ (ne_of_conts s0 _ Y' h'.conts (by simpa [step, hin] using hlen))
    · simpa [step, hin] using hr
    · simpa [step, hin] using hi.ge
  | importBegin m' =>
    apply low_mk _ _ _ _ _ (ne_of_conts s0 _ Y' h'.conts (by simpa [step, hin] using hlen))
    · simpa [step, hin] using hr
    · simpa [step, hin] using hi.ge
  | nativeRet ok =>
    apply low_mk _ _ _ _ _ (ne_of_conts s0 _ Y' h'.conts (by simpa [step, hin, hconts] using hlen))
    · simpa [step, hin, hconts] using hr
    · simpa [step, hin, hconts] using hi.ge

/-- Every event keeps the lower bound (given the bracket invariant before and after). -/
theorem step_low (s0 : St) (x0 : Exit) (hs0 : inLoop s0 = false) (r0 : Nat) (st : St)
    (Y : List Cont) (h : Inv s0 (.loop x0) st Y) (hl : Low r0 (.loop x0) s0.vm.stack st Y)
    (hY : Y ≠ []) (ev : Ev) (Y' : List Cont) (h' : Inv s0 (.loop x0) (step ev st) Y') :
    Low r0 (.loop x0) s0.vm.stack (step ev st) Y' := by
  have hi := inside_of s0 x0 r0 st Y h hl hY
  cases Y with
  | nil => exact absurd rfl hY
  | cons c1 Y1 =>
    cases c1 with
    | loop x => exact step_low_loop s0 x0 hs0 r0 st x Y1 hi ev Y' h'
    | native fb host => exact step_low_native s0 x0 hs0 r0 st fb host Y1 hi ev Y' h'
    | importing m saved => exact step_low_importing s0 x0 hs0 r0 st m saved Y1 hi ev Y' h'

theorem runUntil_low (s0 : St) (x0 : Exit) (hs0 : inLoop s0 = false) (hc : Consistent s0.vm)
    (r0 : Nat) : ∀ (evs : List Ev) (st : St) (Y : List Cont), Inv s0 (.loop x0) st Y →
      Low r0 (.loop x0) s0.vm.stack st Y →
      ∃ Y', Inv s0 (.loop x0) (runUntil s0.conts.length evs st) Y' ∧
        Low r0 (.loop x0) s0.vm.stack (runUntil s0.conts.length evs st) Y' := by
  intro evs
  induction evs with
  | nil => intro st Y h hl; exact ⟨Y, h, hl⟩
  | cons ev rest ih =>
    intro st Y h hl
    simp only [runUntil]
    split
    · exact ⟨Y, h, hl⟩
    · rename_i hlen
      have hY : Y ≠ [] := by
        intro hn; subst hn; apply hlen; rw [h.conts]; simp
      obtain ⟨Y', h'⟩ := step_inv s0 (.loop x0) hs0 hc st Y h hY ev
      exact ih (step ev st) Y' h' (step_low s0 x0 hs0 r0 st Y h hl hY ev Y' h')

end KotoVerif.Unwind
