/-
Lemmas for C07, second invariant: lower bounds, and the builder counts of the entry's barrier frame.

While a bracket through a Koto callee is running,
* every frame above the caller's frames has `register_base ≥ r0` (`r0` = `registers.len()` at the
  entry, given that the entry's own window does not wrap the `u8` numbering), so every
  `truncate_registers` / `resize` executed inside — including those of nested entries whose result
  register *did* wrap — keeps at least `r0` registers;
* the bottom-most of those frames (the entry's barrier frame) carries the builder counts of the
  entry (`q`, `t`), so when it is popped — on `Return`, or by the entry's epilogue after an error —
  `pop_frame` truncates the builder stacks to at most those counts (fix 97373d1);
* every frame and catch point above the caller's frames records builder counts `≥ ql, tl`, and the
  builder stacks hold at least `ql, tl` entries, provided no `SequenceToList`/`StringFinish` event is
  executed at depth `≤ ql, tl` (`SafeEv`; trivially true for `ql = tl = 0`).
Together with `Lemmas/C07.lean` (`regs ≤ r0` at the exit) this gives `regs = r0`, `seq ≤ q`,
`str ≤ t`, and with `ql = q`, `tl = t` equality for the builders as well.
-/
import KotoVerif.Model.Unwind
import KotoVerif.Lemmas.C07

namespace KotoVerif.Unwind

/-- bounds of one bracket: registers / sequence builders / string builders at the entry (`r0 q t`)
and the lower bounds claimed for the builder stacks inside (`ql tl`: `0 0` or `q t`) -/
structure Bnd where
  r0 : Nat
  q : Nat
  t : Nat
  ql : Nat
  tl : Nat

def FrameOk (B : Bnd) (f : Frame) : Prop :=
  B.r0 ≤ f.base ∧ B.ql ≤ f.seq0 ∧ B.tl ≤ f.str0 ∧
  ∀ c ∈ f.catches, B.ql ≤ c.2.2.1 ∧ B.tl ≤ c.2.2.2

/-- all frames of `fs` above the bottom part `S` are `FrameOk`, and the lowest of them carries the
entry's builder counts -/
def GeAbove (B : Bnd) (S fs : List Frame) : Prop :=
  ∀ X, fs = X ++ S → (∀ f ∈ X, FrameOk B f) ∧
    (∀ b, X.getLast? = some b → b.seq0 = B.q ∧ b.str0 = B.t)

theorem GeAbove_suffix (B : Bnd) (S fs fs' : List Frame) (hs : fs' <:+ fs)
    (h : GeAbove B S fs) : GeAbove B S fs' := by
  intro X' hX'
  obtain ⟨t, ht⟩ := hs
  have hfs : fs = (t ++ X') ++ S := by rw [← ht, hX', List.append_assoc]
  have := h (t ++ X') hfs
  refine ⟨fun f hf => this.1 f (List.mem_append_right t hf), fun b hb => ?_⟩
  apply this.2 b
  rw [List.getLast?_append, hb]; rfl

theorem GeAbove_cons (B : Bnd) (S fs : List Frame) (g : Frame) (X : List Frame) (hfs : fs = X ++ S)
    (hg : FrameOk B g) (hbot : X = [] → g.seq0 = B.q ∧ g.str0 = B.t)
    (h : GeAbove B S fs) : GeAbove B S (g :: fs) := by
  intro X' hX'
  have h1 : (g :: X) ++ S = X' ++ S := by rw [← hX', hfs]; rfl
  have h2 : g :: X = X' := List.append_cancel_right h1
  have hold := h X hfs
  rw [← h2]
  refine ⟨fun f hf => ?_, fun b hb => ?_⟩
  · cases List.mem_cons.mp hf with
    | inl h' => rw [h']; exact hg
    | inr h' => exact hold.1 f h'
  · cases X with
    | nil =>
      have : g = b := by simpa using hb
      rw [← this]; exact hbot rfl
    | cons y ys =>
      exact hold.2 b (by simpa [List.getLast?_cons_cons] using hb)

theorem GeAbove_modTop (B : Bnd) (S rest : List Frame) (f f' : Frame)
    (hok : FrameOk B f → FrameOk B f') (hq : f'.seq0 = f.seq0) (ht : f'.str0 = f.str0)
    (h : GeAbove B S (f :: rest)) : GeAbove B S (f' :: rest) := by
  intro X' hX'
  cases X' with
  | nil => exact ⟨fun g hg => by simp at hg, fun b hb => by simp at hb⟩
  | cons y ys =>
    have hy : f' = y ∧ rest = ys ++ S := by simpa using hX'
    have hfs : f :: rest = (f :: ys) ++ S := by rw [hy.2]; rfl
    have hold := h (f :: ys) hfs
    refine ⟨fun g hg => ?_, fun b hb => ?_⟩
    · cases List.mem_cons.mp hg with
      | inl h' => rw [h', ← hy.1]; exact hok (hold.1 f (by simp))
      | inr h' => exact hold.1 g (List.mem_cons_of_mem _ h')
    · cases ys with
      | nil =>
        have : y = b := by simpa using hb
        rw [← this, ← hy.1, hq, ht]
        exact hold.2 f (by simp)
      | cons z zs =>
        exact hold.2 b (by simpa [List.getLast?_cons_cons] using hb)

theorem dropLoop_split : ∀ (fs R : List Frame), dropLoop fs = some R →
    ∃ X, fs = X ++ R ∧ X ≠ [] := by
  intro fs
  induction fs with
  | nil => intro R h; simp [dropLoop] at h
  | cons f rest ih =>
    intro R h
    by_cases hb : f.barrier = true
    · have : rest = R := by simpa [dropLoop, hb] using h
      exact ⟨[f], by simp [this], by simp⟩
    · have hb' : f.barrier = false := by simpa using hb
      obtain ⟨X, hX, _⟩ := ih R (by simpa [dropLoop, hb'] using h)
      exact ⟨f :: X, by simp [hX], by simp⟩

theorem peelAll_split : ∀ (Y : List Cont) (fs S : List Frame), peelAll Y fs = some S →
    ∃ X, fs = X ++ S ∧ (hasLoop Y = true → X ≠ []) := by
  intro Y
  induction Y with
  | nil => intro fs S h; exact ⟨[], by simpa [peelAll] using h, by simp [hasLoop]⟩
  | cons c cs ih =>
    intro fs S h
    cases c with
    | native a b =>
      obtain ⟨X, hX, hne⟩ := ih fs S (by simpa [peelAll] using h)
      exact ⟨X, hX, fun hl => hne (by simpa [hasLoop] using hl)⟩
    | importing a b =>
      obtain ⟨X, hX, hne⟩ := ih fs S (by simpa [peelAll] using h)
      exact ⟨X, hX, fun hl => hne (by simpa [hasLoop] using hl)⟩
    | loop x =>
      simp only [peelAll] at h
      cases hd : dropLoop fs with
      | none => simp [hd] at h
      | some R =>
        simp only [hd, Option.bind_some] at h
        obtain ⟨X1, hX1, hne1⟩ := dropLoop_split fs R hd
        obtain ⟨X2, hX2, _⟩ := ih R S h
        refine ⟨X1 ++ X2, by rw [hX1, hX2, List.append_assoc], fun _ => ?_⟩
        intro hnil
        exact hne1 (List.append_eq_nil_iff.mp hnil).1

theorem hasLoop_of_getLast : ∀ (Y : List Cont) (x : Exit), Y.getLast? = some (.loop x) →
    hasLoop Y = true := by
  intro Y
  induction Y with
  | nil => intro x h; simp at h
  | cons c cs ih =>
    intro x h
    cases cs with
    | nil =>
      have : c = .loop x := by simpa using h
      rw [this]; rfl
    | cons d ds =>
      have := ih x (by simpa [List.getLast?_cons_cons] using h)
      cases c <;> simp [hasLoop, this]

/-- inside the bracket the current frame lies above the caller's frames -/
theorem topOk (B : Bnd) (Y : List Cont) (fs S : List Frame) (hp : peelAll Y fs = some S)
    (hl : hasLoop Y = true) (hg : GeAbove B S fs) :
    ∃ f rest, fs = f :: rest ∧ FrameOk B f := by
  obtain ⟨X, hX, hne⟩ := peelAll_split Y fs S hp
  cases X with
  | nil => exact absurd rfl (hne hl)
  | cons f X1 => exact ⟨f, X1 ++ S, hX, (hg (f :: X1) hX).1 f (by simp)⟩

theorem topGe (B : Bnd) (Y : List Cont) (fs S : List Frame) (hp : peelAll Y fs = some S)
    (hl : hasLoop Y = true) (hg : GeAbove B S fs) : B.r0 ≤ topBase fs := by
  obtain ⟨f, rest, hfs, hok⟩ := topOk B Y fs S hp hl hg
  rw [hfs]; exact hok.1

/-- a frame with an open `try` has `min_frame_registers ≥ r0` (in every real execution such a frame
has executed its `NewFrame`, so `min_frame_registers = base + required ≥ base ≥ r0`; the hypothesis
matters only for event lists in which a frame executes `TryStart` before its `NewFrame`, while
`min_frame_registers` still holds the *caller's* value). Needed since fix 8f4d2e4: the catch point
resizes the value stack to exactly `min_frame_registers`. Trivial for `r0 = 0`. -/
def TryOk (B : Bnd) (vm : VM) : Prop :=
  ∀ f rest, vm.stack = f :: rest → f.catches ≠ [] → B.r0 ≤ vm.minRegs

/-! ### unwinding keeps the lower bounds -/

theorem unwindGo_low (c : Bool) (B : Bnd) : ∀ (fs : List Frame) (vm : VM) (R : List Frame),
    vm.stack = fs → dropLoop fs = some R → (∀ X, fs = X ++ R → ∀ f ∈ X, FrameOk B f) →
    B.r0 ≤ vm.regs → B.ql ≤ vm.seq → B.tl ≤ vm.str → TryOk B vm →
    B.r0 ≤ (unwindGo c fs vm).1.regs ∧ (unwindGo c fs vm).1.stack <:+ fs ∧
    B.ql ≤ (unwindGo c fs vm).1.seq ∧ B.tl ≤ (unwindGo c fs vm).1.str := by
  intro fs
  induction fs with
  | nil => intro vm R _ h; simp [dropLoop] at h
  | cons f rest ih =>
    intro vm R hs hd hge hr hq ht hmin
    obtain ⟨X0, hX0, hne0⟩ := dropLoop_split (f :: rest) R hd
    have hfok : FrameOk B f := by
      cases X0 with
      | nil => exact absurd rfl hne0
      | cons y ys =>
        have hy : f = y := by
          have : f :: rest = y :: (ys ++ R) := by simpa using hX0
          exact (List.cons.inj this).1
        rw [hy]; exact hge (y :: ys) hX0 y (by simp)
    unfold unwindGo
    split
    · -- caught: the builders opened in the try block are discarded
      rename_i cc _ hcat
      have hc := hfok.2.2.2 cc (by rw [hcat]; simp)
      refine ⟨?_, by simp [hs], ?_, ?_⟩
      · simp only []; exact hmin f rest hs (by rw [hcat]; simp)
      · simp only []; exact Nat.le_min.mpr ⟨hq, hc.1⟩
      · simp only []; exact Nat.le_min.mpr ⟨ht, hc.2⟩
    · by_cases hbar : f.barrier = true
      · simp only [hbar, if_true]
        exact ⟨hr, by rw [hs]; exact List.suffix_refl _, hq, ht⟩
      · have hbar' : f.barrier = false := by simpa using hbar
        simp only [hbar', Bool.false_eq_true, if_false]
        have hd' : dropLoop rest = some R := by simpa [dropLoop, hbar'] using hd
        obtain ⟨X1, hX1, hne1⟩ := dropLoop_split rest R hd'
        cases rest with
        | nil => simp [dropLoop] at hd'
        | cons r rs =>
          have hp := popTo_fields f (r :: rs) vm
          have hrb : B.r0 ≤ r.base := by
            cases X1 with
            | nil => exact absurd rfl hne1
            | cons y ys =>
              have hy : r = y := by
                have : r :: rs = y :: (ys ++ R) := by simpa using hX1
                exact (List.cons.inj this).1
              have : f :: r :: rs = (f :: y :: ys) ++ R := by rw [hX1]; rfl
              rw [hy]
              exact (hge (f :: y :: ys) this y (by simp)).1
          have hregs : B.r0 ≤ (popTo f (r :: rs) vm).1.regs := by
            simp [popTo, hbar']; omega
          have hge' : ∀ X, r :: rs = X ++ R → ∀ g ∈ X, FrameOk B g := by
            intro X hX g hg
            have : f :: r :: rs = (f :: X) ++ R := by rw [hX]; rfl
            exact hge (f :: X) this g (List.mem_cons_of_mem _ hg)
          have hq' : B.ql ≤ (popTo f (r :: rs) vm).1.seq := by
            rw [hp.2.2.2.2.1]; exact Nat.le_min.mpr ⟨hq, hfok.2.1⟩
          have ht' : B.tl ≤ (popTo f (r :: rs) vm).1.str := by
            rw [hp.2.2.2.2.2.1]; exact Nat.le_min.mpr ⟨ht, hfok.2.2.1⟩
          have hmin' : TryOk B (popTo f (r :: rs) vm).1 := by
            intro g gs _ _
            rw [hp.2.2.1]; simp only [topMin]; omega
          have := ih (popTo f (r :: rs) vm).1 R hp.1 hd' hge' hregs hq' ht' hmin'
          exact ⟨this.1, List.IsSuffix.trans this.2.1 (List.suffix_cons f (r :: rs)), this.2.2⟩

/-- What is known when the bracket's own continuation has been popped. -/
def DoneR (e : Cont) (B : Bnd) (vm : VM) : Prop :=
  match e with
  | .loop (.truncate rr) =>
    min B.r0 (vm.base + rr) ≤ vm.regs ∧ vm.seq ≤ B.q ∧ vm.str ≤ B.t ∧
    min B.ql B.q ≤ vm.seq ∧ min B.tl B.t ≤ vm.str
  | _ => True

structure Low (B : Bnd) (e : Cont) (S : List Frame) (st : St) (Y : List Cont) : Prop where
  regsIn : Y ≠ [] → B.r0 ≤ st.vm.regs
  seqIn : Y ≠ [] → B.ql ≤ st.vm.seq
  strIn : Y ≠ [] → B.tl ≤ st.vm.str
  ge : Y ≠ [] → GeAbove B S st.vm.stack
  doneR : Y = [] → DoneR e B st.vm

theorem exitErr_regs (x : Exit) (vm : VM) (b : Frame) (R : List Frame) (hs : vm.stack = b :: R)
    (hb : b.barrier = true) :
    (exitErr x vm).regs = (match x with
      | .truncate rr => min vm.regs (topBase R + rr)
      | .propagate => vm.regs) ∧
    (exitErr x vm).seq = min vm.seq b.seq0 ∧ (exitErr x vm).str = min vm.str b.str0 := by
  have hp := popTo_fields b R vm
  have hst := popTo_stop_of_barrier b R vm hb
  cases x with
  | truncate rr => simp [exitErr, popFrameD, popFrame, hs, truncate, hp, hst]
  | propagate => simp [exitErr, popFrameD, popFrame, hs, hst, hp]

/-- the exit state of the bracket after its barrier frame `b` (the only frame above `S`) was popped -/
theorem doneR_of_exit (B : Bnd) (x : Exit) (vm1 : VM) (b : Frame) (S : List Frame)
    (hstk : vm1.stack = b :: S) (hbb : b.barrier = true) (hg : GeAbove B S vm1.stack)
    (hr : B.r0 ≤ vm1.regs) (hq : B.ql ≤ vm1.seq) (ht : B.tl ≤ vm1.str) :
    DoneR (.loop x) B (exitErr x vm1) := by
  have hx := exitErr_fields x vm1 b S hstk
  have hxr := exitErr_regs x vm1 b S hstk hbb
  have hbc := (hg [b] (by rw [hstk]; rfl)).2 b (by simp)
  cases x with
  | truncate rr =>
    simp only [DoneR]
    rw [hxr.1, hxr.2.1, hxr.2.2, hx.2.1, hbc.1, hbc.2]
    simp only []
    refine ⟨by omega, Nat.min_le_right _ _, Nat.min_le_right _ _, ?_, ?_⟩
    · exact Nat.le_min.mpr ⟨Nat.le_trans (Nat.min_le_left _ _) hq, Nat.min_le_right _ _⟩
    · exact Nat.le_min.mpr ⟨Nat.le_trans (Nat.min_le_left _ _) ht, Nat.min_le_right _ _⟩
  | propagate => simp [DoneR]

theorem raiseGo_low (s0 : St) (x0 : Exit) (hs0 : inLoop s0 = false) (B : Bnd) :
    ∀ (Y : List Cont) (c : Bool) (vm : VM),
      peelAll Y vm.stack = some s0.vm.stack → vm.base = topBase vm.stack →
      (Y ≠ [] → Y.getLast? = some (.loop x0)) → Y ≠ [] →
      B.r0 ≤ vm.regs → B.ql ≤ vm.seq → B.tl ≤ vm.str → GeAbove B s0.vm.stack vm.stack →
      TryOk B vm →
      ∀ Y', (raiseGo (Y ++ s0.conts) c vm).conts = Y' ++ s0.conts →
        Low B (.loop x0) s0.vm.stack (raiseGo (Y ++ s0.conts) c vm) Y' := by
  intro Y
  induction Y with
  | nil => intro c vm _ _ _ hne; exact absurd rfl hne
  | cons c1 Y1 ih =>
    intro c vm hp hb hl _ hr hq ht hg hmin Y' hY'
    cases c1 with
    | native a b =>
      rw [List.cons_append, raiseGo_notLoop _ _ _ (by simp)] at hY' ⊢
      have : Y' = .native a b :: Y1 := (List.append_cancel_right hY').symm
      subst this
      exact ⟨fun _ => hr, fun _ => hq, fun _ => ht, fun _ => hg, fun h => by simp at h⟩
    | importing a b =>
      rw [List.cons_append, raiseGo_notLoop _ _ _ (by simp)] at hY' ⊢
      have : Y' = .importing a b :: Y1 := (List.append_cancel_right hY').symm
      subst this
      exact ⟨fun _ => hr, fun _ => hq, fun _ => ht, fun _ => hg, fun h => by simp at h⟩
    | loop x =>
      simp only [peelAll] at hp
      cases hdl : dropLoop vm.stack with
      | none => simp [hdl] at hp
      | some R1 =>
        simp only [hdl, Option.bind_some] at hp
        obtain ⟨X2, hX2, _⟩ := peelAll_split Y1 R1 _ hp
        have hgeR : ∀ X, vm.stack = X ++ R1 → ∀ f ∈ X, FrameOk B f := by
          intro X hX f hf
          have : vm.stack = (X ++ X2) ++ s0.vm.stack := by rw [hX, hX2, List.append_assoc]
          exact (hg (X ++ X2) this).1 f (List.mem_append_left X2 hf)
        have hu := unwindGo_spec c vm.stack vm R1 rfl hb hdl
        have hlow := unwindGo_low c B vm.stack vm R1 rfl hdl hgeR hr hq ht hmin
        simp only [] at hu
        have hune : unwind c vm = unwindGo c vm.stack vm := rfl
        rcases hres : unwindGo c vm.stack vm with ⟨vm1, r⟩
        rw [hres] at hu hlow
        simp only [] at hu hlow
        have hg1 : GeAbove B s0.vm.stack vm1.stack := GeAbove_suffix B _ _ _ hlow.2.1 hg
        cases r with
        | some cr =>
          rw [List.cons_append, raiseGo_loop_some x _ c vm vm1 cr (by rw [hune, hres])] at hY' ⊢
          have : Y' = .loop x :: Y1 := (List.append_cancel_right hY').symm
          subst this
          exact ⟨fun _ => hlow.1, fun _ => hlow.2.2.1, fun _ => hlow.2.2.2, fun _ => hg1,
            fun h => by simp at h⟩
        | none =>
          obtain ⟨b, hstk, hbb⟩ := hu.2.2.1 rfl
          have hx := exitErr_fields x vm1 b R1 hstk
          have hxr := exitErr_regs x vm1 b R1 hstk hbb
          have hgR1 : GeAbove B s0.vm.stack R1 :=
            GeAbove_suffix B _ _ _ (by rw [hstk]; exact List.suffix_cons b R1) hg1
          have hbok : FrameOk B b := by
            have : vm1.stack = ([b] ++ X2) ++ s0.vm.stack := by rw [hstk, hX2]; rfl
            exact (hg1 _ this).1 b (by simp)
          have hl1 : Y1 ≠ [] → Y1.getLast? = some (.loop x0) := by
            intro hne; rw [← getLast_cons_ne (Cont.loop x) Y1 hne]; exact hl (by simp)
          have hregs1 : Y1 ≠ [] → B.r0 ≤ (exitErr x vm1).regs := by
            intro hne
            have htop := topGe B Y1 R1 _ hp (hasLoop_of_getLast Y1 x0 (hl1 hne)) hgR1
            rw [hxr.1]
            cases x with
            | truncate rr => simp only []; have := hlow.1; omega
            | propagate => exact hlow.1
          have hq1 : B.ql ≤ (exitErr x vm1).seq := by
            rw [hxr.2.1]; exact Nat.le_min.mpr ⟨hlow.2.2.1, hbok.2.1⟩
          have ht1 : B.tl ≤ (exitErr x vm1).str := by
            rw [hxr.2.2]; exact Nat.le_min.mpr ⟨hlow.2.2.2, hbok.2.2.1⟩
          have hp1 : peelAll Y1 (exitErr x vm1).stack = some s0.vm.stack := by rw [hx.1]; exact hp
          have hb1 : (exitErr x vm1).base = topBase (exitErr x vm1).stack := by rw [hx.2.1, hx.1]
          have hg2 : GeAbove B s0.vm.stack (exitErr x vm1).stack := by rw [hx.1]; exact hgR1
          -- the exit state when this loop is the bracket's own
          have hdone : Y1 = [] → DoneR (.loop x0) B (exitErr x vm1) := by
            intro hnil
            subst hnil
            have hxe : x = x0 := by
              have := hl (by simp)
              simpa using this
            subst hxe
            have hR : R1 = s0.vm.stack := by simpa [peelAll] using hp
            rw [hR] at hstk
            exact doneR_of_exit B x vm1 b _ hstk hbb hg1 hlow.1 hlow.2.2.1 hlow.2.2.2
          rw [List.cons_append] at hY' ⊢
          cases raiseGo_loop_none x (Y1 ++ s0.conts) c vm vm1 (by rw [hune, hres]) with
          | inl h =>
            rw [h] at hY' ⊢
            cases Y1 with
            | nil =>
              rw [List.nil_append, raiseGo_host s0 hs0] at hY' ⊢
              have : Y' = [] := by
                have : ([] : List Cont) ++ s0.conts = Y' ++ s0.conts := by simpa using hY'
                exact (List.append_cancel_right this).symm
              subst this
              exact ⟨fun h => absurd rfl h, fun h => absurd rfl h, fun h => absurd rfl h,
                fun h => absurd rfl h, fun _ => hdone rfl⟩
            | cons y ys =>
              have hmin1 : TryOk B (exitErr x vm1) := by
                intro g gs _ _
                have htop := topGe B (y :: ys) R1 _ hp (hasLoop_of_getLast (y :: ys) x0 (hl1 (by simp))) hgR1
                rw [hx.2.2.1]
                cases R1 with
                | nil => simp [topBase] at htop; simp [topMin]; omega
                | cons r1 rs1 => simp [topBase] at htop; simp [topMin]; omega
              exact ih true (exitErr x vm1) hp1 hb1 hl1 (by simp) (hregs1 (by simp)) hq1 ht1 hg2
                hmin1 Y' hY'
          | inr h =>
            rw [h] at hY' ⊢
            have : Y' = Y1 := by
              have : Y1 ++ s0.conts = Y' ++ s0.conts := by simpa using hY'
              exact (List.append_cancel_right this).symm
            subst this
            exact ⟨fun hne => hregs1 hne, fun _ => hq1, fun _ => ht1, fun _ => hg2, hdone⟩

/-! ### every event keeps the bounds -/

theorem ne_of_conts (s0 st' : St) (Y' : List Cont) (h' : st'.conts = Y' ++ s0.conts)
    (hlen : s0.conts.length < st'.conts.length) : Y' ≠ [] := by
  intro hn; subst hn; simp at h'; rw [h'] at hlen; omega

theorem low_mk (B : Bnd) (e : Cont) (S : List Frame) (st' : St) (Y' : List Cont) (hne : Y' ≠ [])
    (hr' : B.r0 ≤ st'.vm.regs) (hq' : B.ql ≤ st'.vm.seq) (ht' : B.tl ≤ st'.vm.str)
    (hg' : GeAbove B S st'.vm.stack) : Low B e S st' Y' :=
  ⟨fun _ => hr', fun _ => hq', fun _ => ht', fun _ => hg', fun h => absurd h hne⟩

/-- facts available inside the bracket -/
structure Inside (s0 : St) (x0 : Exit) (B : Bnd) (st : St) (Y : List Cont) : Prop where
  inv : Inv s0 (.loop x0) st Y
  ne : Y ≠ []
  regs : B.r0 ≤ st.vm.regs
  seq : B.ql ≤ st.vm.seq
  str : B.tl ≤ st.vm.str
  ge : GeAbove B s0.vm.stack st.vm.stack
  base : B.r0 ≤ st.vm.base
  split : ∃ X, st.vm.stack = X ++ s0.vm.stack ∧ X ≠ []
  tryok : TryOk B st.vm

theorem inside_of (s0 : St) (x0 : Exit) (B : Bnd) (st : St) (Y : List Cont)
    (h : Inv s0 (.loop x0) st Y) (hl : Low B (.loop x0) s0.vm.stack st Y) (hY : Y ≠ [])
    (htry : TryOk B st.vm) :
    Inside s0 x0 B st Y := by
  obtain ⟨X, hX, hne⟩ := peelAll_split Y st.vm.stack _ h.peel
  have hloop := hasLoop_of_getLast Y x0 (h.lastc hY)
  refine ⟨h, hY, hl.regsIn hY, hl.seqIn hY, hl.strIn hY, hl.ge hY, ?_, ⟨X, hX, hne hloop⟩, htry⟩
  rw [h.base]
  exact topGe B Y _ _ h.peel hloop (hl.ge hY)

theorem raise_low_of (s0 : St) (x0 : Exit) (hs0 : inLoop s0 = false) (B : Bnd) (st : St)
    (Y : List Cont) (hi : Inside s0 x0 B st Y) (c : Bool) (vm : VM)
    (h1 : vm.stack = st.vm.stack) (h2 : vm.base = st.vm.base) (h3 : B.r0 ≤ vm.regs)
    (h4 : vm.seq = st.vm.seq) (h5 : vm.str = st.vm.str) (h6 : vm.minRegs = st.vm.minRegs)
    (Y' : List Cont) (hY' : (raiseGo st.conts c vm).conts = Y' ++ s0.conts) :
    Low B (.loop x0) s0.vm.stack (raiseGo st.conts c vm) Y' := by
  rw [hi.inv.conts] at hY' ⊢
  exact raiseGo_low s0 x0 hs0 B Y c vm (by rw [h1]; exact hi.inv.peel)
    (by rw [h1, h2]; exact hi.inv.base) hi.inv.lastc hi.ne h3 (by rw [h4]; exact hi.seq)
    (by rw [h5]; exact hi.str) (by rw [h1]; exact hi.ge)
    (fun f rest hs hc => by rw [h6]; exact hi.tryok f rest (by rw [← h1]; exact hs) hc) Y' hY'

/-- a frame pushed inside the bracket is `FrameOk` -/
theorem pushed_ok (B : Bnd) (base fb seq str : Nat) (barrier : Bool) (hb : B.r0 ≤ base)
    (hq : B.ql ≤ seq) (ht : B.tl ≤ str) :
    FrameOk B { base := base + fb, barrier := barrier, seq0 := seq, str0 := str } :=
  ⟨by simp; omega, hq, ht, fun c hc => by simp at hc⟩

theorem enterWith_low (s0 : St) (x0 : Exit) (hs0 : inLoop s0 = false) (B : Bnd) (st : St)
    (Y : List Cont) (hi : Inside s0 x0 B st Y) (t : Bool) (pre args : Nat) (c : Callee)
    (Y' : List Cont) (h' : Inv s0 (.loop x0) (enterWith t pre args c st) Y') :
    Low B (.loop x0) s0.vm.stack (enterWith t pre args c st) Y' := by
  have hr := hi.regs
  have hb := hi.base
  obtain ⟨X, hX, hXne⟩ := hi.split
  have hlen : s0.conts.length < st.conts.length := by
    rw [hi.inv.conts]; have := List.length_pos_iff.mpr hi.ne; simp; omega
  cases c with
  | koto a =>
    apply low_mk _ _ _ _ _ (ne_of_conts s0 _ Y' h'.conts (by simp [enterWith]; omega))
    · simp [enterWith, callKoto, pushFrame]; omega
    · simpa [enterWith, callKoto, pushFrame] using hi.seq
    · simpa [enterWith, callKoto, pushFrame] using hi.str
    · simp only [enterWith, callKoto, pushFrame]
      exact GeAbove_cons B _ _ _ X hX (pushed_ok B _ _ _ _ _ hb hi.seq hi.str)
        (fun hn => absurd hn hXne) hi.ge
  | native =>
    apply low_mk _ _ _ _ _ (ne_of_conts s0 _ Y' h'.conts (by simp [enterWith]; omega))
    · simp [enterWith]; omega
    · simpa [enterWith] using hi.seq
    · simpa [enterWith] using hi.str
    · simpa [enterWith] using hi.ge
  | fail =>
    have hc' := h'.conts
    simp only [enterWith] at hc' ⊢
    cases t with
    | true =>
      exact raise_low_of s0 x0 hs0 B st Y hi true _ (by simp [truncate]) (by simp [truncate])
        (by simp [truncate]; omega) (by simp [truncate]) (by simp [truncate]) (by simp [truncate]) Y' hc'
    | false =>
      exact raise_low_of s0 x0 hs0 B st Y hi true _ (by simp) (by simp) (by simp; omega)
        (by simp) (by simp) (by simp) Y' hc'

theorem enterDirect_low (s0 : St) (x0 : Exit) (hs0 : inLoop s0 = false) (B : Bnd) (st : St)
    (Y : List Cont) (hi : Inside s0 x0 B st Y) (pre : Nat) (ok : Bool)
    (Y' : List Cont) (h' : Inv s0 (.loop x0) (enterDirect pre ok st) Y') :
    Low B (.loop x0) s0.vm.stack (enterDirect pre ok st) Y' := by
  have hr := hi.regs
  have hb := hi.base
  have hlen : s0.conts.length < st.conts.length := by
    rw [hi.inv.conts]; have := List.length_pos_iff.mpr hi.ne; simp; omega
  cases ok with
  | true =>
    apply low_mk _ _ _ _ _ (ne_of_conts s0 _ Y' h'.conts (by simpa [enterDirect] using hlen))
    · simp [enterDirect, truncate]; omega
    · simpa [enterDirect, truncate] using hi.seq
    · simpa [enterDirect, truncate] using hi.str
    · simpa [enterDirect, truncate] using hi.ge
  | false =>
    have hc' := h'.conts
    simp only [enterDirect] at hc' ⊢
    exact raise_low_of s0 x0 hs0 B st Y hi true _ (by simp [truncate]) (by simp [truncate])
      (by simp [truncate]; omega) (by simp [truncate]) (by simp [truncate]) (by simp [truncate]) Y' hc'

theorem enterChecked_low (s0 : St) (x0 : Exit) (hs0 : inLoop s0 = false) (B : Bnd) (st : St)
    (Y : List Cont) (hi : Inside s0 x0 B st Y) (pre args : Nat) (c : Callee)
    (Y' : List Cont) (h' : Inv s0 (.loop x0) (enterChecked pre args c st) Y') :
    Low B (.loop x0) s0.vm.stack (enterChecked pre args c st) Y' := by
  unfold enterChecked at h' ⊢
  split at h' <;> rename_i hf
  · rw [if_pos hf]; exact enterWith_low s0 x0 hs0 B st Y hi true pre args c Y' h'
  · rw [if_neg hf]
    exact raise_low_of s0 x0 hs0 B st Y hi true _ rfl rfl hi.regs rfl rfl rfl Y' h'.conts

theorem enterOpChecked_low (s0 : St) (x0 : Exit) (hs0 : inLoop s0 = false) (B : Bnd) (st : St)
    (Y : List Cont) (hi : Inside s0 x0 B st Y) (pre args : Nat) (c : Callee)
    (Y' : List Cont) (h' : Inv s0 (.loop x0) (enterOpChecked pre args c st) Y') :
    Low B (.loop x0) s0.vm.stack (enterOpChecked pre args c st) Y' := by
  unfold enterOpChecked at h' ⊢
  split at h' <;> rename_i hf
  · rw [if_pos hf]; exact enterWith_low s0 x0 hs0 B st Y hi true pre args c Y' h'
  · rw [if_neg hf]
    exact raise_low_of s0 x0 hs0 B st Y hi true _ rfl rfl hi.regs rfl rfl rfl Y' h'.conts

theorem enterDirectChecked_low (s0 : St) (x0 : Exit) (hs0 : inLoop s0 = false) (B : Bnd) (st : St)
    (Y : List Cont) (hi : Inside s0 x0 B st Y) (pre : Nat) (ok : Bool)
    (Y' : List Cont) (h' : Inv s0 (.loop x0) (enterDirectChecked pre ok st) Y') :
    Low B (.loop x0) s0.vm.stack (enterDirectChecked pre ok st) Y' := by
  unfold enterDirectChecked at h' ⊢
  split at h' <;> rename_i hf
  · rw [if_pos hf]; exact enterDirect_low s0 x0 hs0 B st Y hi pre ok Y' h'
  · rw [if_neg hf]
    exact raise_low_of s0 x0 hs0 B st Y hi true _ rfl rfl hi.regs rfl rfl rfl Y' h'.conts

theorem nested_low (s0 : St) (x0 : Exit) (hs0 : inLoop s0 = false) (B : Bnd) (st : St)
    (Y : List Cont) (hi : Inside s0 x0 B st Y) (args a : Nat)
    (Y' : List Cont) (h' : Inv s0 (.loop x0) (nested args a st) Y') :
    Low B (.loop x0) s0.vm.stack (nested args a st) Y' := by
  have hr := hi.regs
  have hb := hi.base
  obtain ⟨X, hX, hXne⟩ := hi.split
  have hlen : s0.conts.length < st.conts.length := by
    rw [hi.inv.conts]; have := List.length_pos_iff.mpr hi.ne; simp; omega
  by_cases hfb : st.vm.regs - st.vm.base > 255
  · have hc' := h'.conts
    simp only [nested, hfb, if_true, raise] at hc' ⊢
    exact raise_low_of s0 x0 hs0 B st Y hi true _ rfl rfl hr rfl rfl rfl Y' hc'
  · apply low_mk _ _ _ _ _ (ne_of_conts s0 _ Y' h'.conts (by simp [nested, hfb]; omega))
    · simp [nested, hfb, callKoto, pushFrame]; omega
    · simpa [nested, hfb, callKoto, pushFrame] using hi.seq
    · simpa [nested, hfb, callKoto, pushFrame] using hi.str
    · simp only [nested, hfb, if_false, callKoto, pushFrame]
      exact GeAbove_cons B _ _ _ X hX (pushed_ok B _ _ _ _ _ hb hi.seq hi.str)
        (fun hn => absurd hn hXne) hi.ge

/-- the event does not pop a builder at or below the claimed lower bound -/
def SafeEv (B : Bnd) (ev : Ev) (st : St) : Prop :=
  (ev = .seqEnd → st.vm.seq ≠ 0 → B.ql < st.vm.seq) ∧
  (ev = .strEnd → st.vm.str ≠ 0 → B.tl < st.vm.str) ∧
  TryOk B st.vm

theorem step_low_loop (s0 : St) (x0 : Exit) (hs0 : inLoop s0 = false) (B : Bnd) (st : St)
    (x : Exit) (Y1 : List Cont) (hi : Inside s0 x0 B st (.loop x :: Y1)) (ev : Ev)
    (hsafe : SafeEv B ev st)
    (Y' : List Cont) (h' : Inv s0 (.loop x0) (step ev st) Y') :
    Low B (.loop x0) s0.vm.stack (step ev st) Y' := by
  have h := hi.inv
  have hr := hi.regs
  have hb := hi.base
  have hq := hi.seq
  have ht := hi.str
  obtain ⟨X, hX, hXne⟩ := hi.split
  have hconts : st.conts = .loop x :: (Y1 ++ s0.conts) := by rw [h.conts]; rfl
  have hin : inLoop st = true := by simp [inLoop, hconts]
  have hlen : s0.conts.length < st.conts.length := by rw [hconts]; simp; omega
  have hpeel := h.peel
  simp only [peelAll] at hpeel
  cases hdl : dropLoop st.vm.stack with
  | none => simp [hdl] at hpeel
  | some R1 =>
  simp only [hdl, Option.bind_some] at hpeel
  cases hstk : st.vm.stack with
  | nil => simp [hstk, dropLoop] at hdl
  | cons f rest =>
  have hbase : st.vm.base = f.base := by rw [h.base, hstk]; rfl
  have hge := hi.ge
  rw [hstk] at hge
  have hfok : FrameOk B f := by
    cases X with
    | nil => exact absurd rfl hXne
    | cons y ys =>
      have hy : f = y := by
        have : f :: rest = y :: (ys ++ s0.vm.stack) := by rw [← hstk, hX]; rfl
        exact (List.cons.inj this).1
      have : f :: rest = (y :: ys) ++ s0.vm.stack := by rw [← hstk, hX]
      rw [hy]; exact (hge _ this).1 y (by simp)
  cases ev with
  | enter pre args c => exact enterChecked_low s0 x0 hs0 B st _ hi pre args c Y' h'
  | enterOp pre args c => exact enterOpChecked_low s0 x0 hs0 B st _ hi pre args c Y' h'
  | enterDirect pre ok => exact enterDirectChecked_low s0 x0 hs0 B st _ hi pre ok Y' h'
  | nested args a => exact nested_low s0 x0 hs0 B st _ hi args a Y' h'
  | newFrame n =>
    apply low_mk _ _ _ _ _ (ne_of_conts s0 _ Y' h'.conts (by simpa [step, hin] using hlen))
    · simp [step, hin, modTop, hstk]; omega
    · simpa [step, hin, modTop, hstk] using hq
    · simpa [step, hin, modTop, hstk] using ht
    · simp only [step, hin, if_true, modTop, hstk]
      exact GeAbove_modTop B _ rest f _ (fun hk => ⟨hk.1, hk.2.1, hk.2.2.1, hk.2.2.2⟩) rfl rfl hge
  | tryStart r ip =>
    apply low_mk _ _ _ _ _ (ne_of_conts s0 _ Y' h'.conts (by simpa [step, hin] using hlen))
    · simpa [step, hin, modTop, hstk] using hr
    · simpa [step, hin, modTop, hstk] using hq
    · simpa [step, hin, modTop, hstk] using ht
    · simp only [step, hin, if_true, modTop, hstk]
      refine GeAbove_modTop B _ rest f _ (fun hk => ⟨hk.1, hk.2.1, hk.2.2.1, ?_⟩) rfl rfl hge
      intro c hc
      cases List.mem_cons.mp hc with
      | inl h1 => rw [h1]; exact ⟨hq, ht⟩
      | inr h1 => exact hk.2.2.2 c h1
  | tryEnd =>
    apply low_mk _ _ _ _ _ (ne_of_conts s0 _ Y' h'.conts (by simpa [step, hin] using hlen))
    · simpa [step, hin, modTop, hstk] using hr
    · simpa [step, hin, modTop, hstk] using hq
    · simpa [step, hin, modTop, hstk] using ht
    · simp only [step, hin, if_true, modTop, hstk]
      refine GeAbove_modTop B _ rest f _ (fun hk => ⟨hk.1, hk.2.1, hk.2.2.1, ?_⟩) rfl rfl hge
      intro c hc
      exact hk.2.2.2 c (List.mem_of_mem_tail hc)
  | call fb a =>
    apply low_mk _ _ _ _ _ (ne_of_conts s0 _ Y' h'.conts (by simpa [step, hin] using hlen))
    · simp [step, hin, callKoto, pushFrame]; omega
    · simpa [step, hin, callKoto, pushFrame] using hq
    · simpa [step, hin, callKoto, pushFrame] using ht
    · simp only [step, hin, if_true, callKoto, pushFrame]
      exact GeAbove_cons B _ _ _ X hX (pushed_ok B _ _ _ _ _ hb hq ht)
        (fun hn => absurd hn hXne) hi.ge
  | callNative fb =>
    apply low_mk _ _ _ _ _ (ne_of_conts s0 _ Y' h'.conts (by simp [step, hin]; omega))
    · simpa [step, hin] using hr
    · simpa [step, hin] using hq
    · simpa [step, hin] using ht
    · simpa [step, hin] using hi.ge
  | seqStart =>
    apply low_mk _ _ _ _ _ (ne_of_conts s0 _ Y' h'.conts (by simpa [step, hin] using hlen))
    · simpa [step, hin] using hr
    · simp [step, hin]; omega
    · simpa [step, hin] using ht
    · simpa [step, hin] using hi.ge
  | strStart =>
    apply low_mk _ _ _ _ _ (ne_of_conts s0 _ Y' h'.conts (by simpa [step, hin] using hlen))
    · simpa [step, hin] using hr
    · simpa [step, hin] using hq
    · simp [step, hin]; omega
    · simpa [step, hin] using hi.ge
  | exportVal k =>
    apply low_mk _ _ _ _ _ (ne_of_conts s0 _ Y' h'.conts (by simpa [step, hin] using hlen))
    · simpa [step, hin] using hr
    · simpa [step, hin] using hq
    · simpa [step, hin] using ht
    · simpa [step, hin] using hi.ge
  | seqEnd =>
    by_cases hz : st.vm.seq = 0
    · have hc' := h'.conts
      simp only [step, hin, if_true, hz, raise] at hc' ⊢
      exact raise_low_of s0 x0 hs0 B st _ hi true _ rfl rfl hr rfl rfl rfl Y' hc'
    · have hs1 := hsafe.1 rfl hz
      apply low_mk _ _ _ _ _ (ne_of_conts s0 _ Y' h'.conts (by simpa [step, hin, hz] using hlen))
      · simpa [step, hin, hz] using hr
      · simp [step, hin, hz]; omega
      · simpa [step, hin, hz] using ht
      · simpa [step, hin, hz] using hi.ge
  | strEnd =>
    by_cases hz : st.vm.str = 0
    · have hc' := h'.conts
      simp only [step, hin, if_true, hz, raise] at hc' ⊢
      exact raise_low_of s0 x0 hs0 B st _ hi true _ rfl rfl hr rfl rfl rfl Y' hc'
    · have hs1 := hsafe.2.1 rfl hz
      apply low_mk _ _ _ _ _ (ne_of_conts s0 _ Y' h'.conts (by simpa [step, hin, hz] using hlen))
      · simpa [step, hin, hz] using hr
      · simpa [step, hin, hz] using hq
      · simp [step, hin, hz]; omega
      · simpa [step, hin, hz] using hi.ge
  | raise c =>
    have hc' := h'.conts
    simp only [step, hin, if_true, raise] at hc' ⊢
    exact raise_low_of s0 x0 hs0 B st _ hi c _ rfl rfl hr rfl rfl rfl Y' hc'
  | opSetupFail n =>
    have hc' := h'.conts
    simp only [step, hin, if_true, raise] at hc' ⊢
    exact raise_low_of s0 x0 hs0 B st _ hi true { st.vm with regs := st.vm.regs + n } rfl rfl
      (by simp; omega) rfl rfl rfl Y' hc'
  | importBegin m =>
    by_cases hm : m ∈ st.vm.placeholders
    · have hc' := h'.conts
      simp only [step, hin, if_true, hm, raise] at hc' ⊢
      exact raise_low_of s0 x0 hs0 B st _ hi true _ rfl rfl hr rfl rfl rfl Y' hc'
    · by_cases hcd : m ∈ st.vm.cached
      · apply low_mk _ _ _ _ _ (ne_of_conts s0 _ Y' h'.conts (by simpa [step, hin, hm, hcd] using hlen))
        · simpa [step, hin, hm, hcd] using hr
        · simpa [step, hin, hm, hcd] using hq
        · simpa [step, hin, hm, hcd] using ht
        · simpa [step, hin, hm, hcd] using hi.ge
      · apply low_mk _ _ _ _ _ (ne_of_conts s0 _ Y' h'.conts (by simp [step, hin, hm, hcd]; omega))
        · simpa [step, hin, hm, hcd] using hr
        · simpa [step, hin, hm, hcd] using hq
        · simpa [step, hin, hm, hcd] using ht
        · simpa [step, hin, hm, hcd] using hi.ge
  | nativeRet ok =>
    apply low_mk _ _ _ _ _ (ne_of_conts s0 _ Y' h'.conts (by simpa [step, hin] using hlen))
    · simpa [step, hin] using hr
    · simpa [step, hin] using hq
    · simpa [step, hin] using ht
    · simpa [step, hin] using hi.ge
  | importEnd ok =>
    apply low_mk _ _ _ _ _ (ne_of_conts s0 _ Y' h'.conts (by simpa [step, hin] using hlen))
    · simpa [step, hin] using hr
    · simpa [step, hin] using hq
    · simpa [step, hin] using ht
    · simpa [step, hin] using hi.ge
  | ret =>
    have hp := popTo_fields f rest st.vm
    have hsuf : GeAbove B s0.vm.stack rest :=
      GeAbove_suffix B _ _ _ (List.suffix_cons f rest) hge
    have hq' : B.ql ≤ (popTo f rest st.vm).1.seq := by
      rw [hp.2.2.2.2.1]; exact Nat.le_min.mpr ⟨hq, hfok.2.1⟩
    have ht' : B.tl ≤ (popTo f rest st.vm).1.str := by
      rw [hp.2.2.2.2.2.1]; exact Nat.le_min.mpr ⟨ht, hfok.2.2.1⟩
    by_cases hbar : f.barrier = true
    · have hs := popTo_stop_of_barrier f rest st.vm hbar
      have hlastx : Y1 = [] → x = x0 := by
        intro hn; have := h.lastc (by simp); subst hn; simpa using this
      have hl1 : Y1 ≠ [] → Y1.getLast? = some (.loop x0) := by
        intro hne; rw [← getLast_cons_ne (Cont.loop x) Y1 hne]; exact h.lastc (by simp)
      have hR : rest = R1 := by simpa [hstk, dropLoop, hbar] using hdl
      -- the frame `f` carries the entry's counts when it is the bracket's own barrier frame
      have hfc : Y1 = [] → f.seq0 = B.q ∧ f.str0 = B.t := by
        intro hn
        subst hn
        have hRS : R1 = s0.vm.stack := by simpa [peelAll] using hpeel
        exact (hge [f] (by rw [hR, hRS]; rfl)).2 f (by simp)
      cases x with
      | truncate rr =>
        have hstep : step .ret st = ⟨truncate rr (popTo f rest st.vm).1, Y1 ++ s0.conts⟩ := by
          simp only [step, hin, if_true, hstk, hconts]
          rcases hpt : popTo f rest st.vm with ⟨vm1, b⟩
          rw [hpt] at hs
          simp only [] at hs
          simp [hs.1]
        rw [hstep] at h' ⊢
        have hYeq : Y' = Y1 := by
          have := h'.conts
          simp only [] at this
          exact (List.append_cancel_right this).symm
        subst hYeq
        have hregs : (truncate rr (popTo f rest st.vm).1).regs
            = min st.vm.regs (topBase rest + rr) := by
          simp [truncate, hs.2, hp.2.1]
        have hseq : (truncate rr (popTo f rest st.vm).1).seq = min st.vm.seq f.seq0 := by
          simp [truncate, hp.2.2.2.2.1]
        have hstr : (truncate rr (popTo f rest st.vm).1).str = min st.vm.str f.str0 := by
          simp [truncate, hp.2.2.2.2.2.1]
        refine ⟨fun hne => ?_, fun _ => ?_, fun _ => ?_, fun _ => ?_, fun hn => ?_⟩
        · have hpe := h'.peel
          simp only [] at hpe
          rw [(truncate_fields rr _).1, hp.1] at hpe
          have := topGe B Y' rest _ hpe (hasLoop_of_getLast Y' x0 (hl1 hne)) hsuf
          simp only []; rw [hregs]; omega
        · simp only []; rw [hseq]; exact Nat.le_min.mpr ⟨hq, hfok.2.1⟩
        · simp only []; rw [hstr]; exact Nat.le_min.mpr ⟨ht, hfok.2.2.1⟩
        · simp only []; rw [(truncate_fields rr _).1, hp.1]; exact hsuf
        · have hx := hlastx hn
          have hc := hfc hn
          rw [← hx]
          simp only [DoneR]
          rw [hregs, hseq, hstr, (truncate_fields rr _).2.1, hp.2.1, hc.1, hc.2]
          refine ⟨by omega, Nat.min_le_right _ _, Nat.min_le_right _ _, ?_, ?_⟩
          · exact Nat.le_min.mpr ⟨Nat.le_trans (Nat.min_le_left _ _) hq, Nat.min_le_right _ _⟩
          · exact Nat.le_min.mpr ⟨Nat.le_trans (Nat.min_le_left _ _) ht, Nat.min_le_right _ _⟩
      | propagate =>
        have hstep : step .ret st = ⟨(popTo f rest st.vm).1, Y1 ++ s0.conts⟩ := by
          simp only [step, hin, if_true, hstk, hconts]
          rcases hpt : popTo f rest st.vm with ⟨vm1, b⟩
          rw [hpt] at hs
          simp only [] at hs
          simp [hs.1]
        rw [hstep] at h' ⊢
        have hYeq : Y' = Y1 := by
          have := h'.conts
          simp only [] at this
          exact (List.append_cancel_right this).symm
        subst hYeq
        refine ⟨fun _ => ?_, fun _ => hq', fun _ => ht', fun _ => ?_, fun hn => ?_⟩
        · simp only []; rw [hs.2]; exact hr
        · simp only []; rw [hp.1]; exact hsuf
        · have hx := hlastx hn
          rw [← hx]; simp [DoneR]
    · have hbar' : f.barrier = false := by simpa using hbar
      have hdr : dropLoop rest = some R1 := by simpa [hstk, dropLoop, hbar'] using hdl
      cases rest with
      | nil => simp [dropLoop] at hdr
      | cons r rs =>
        have hcont := popTo_continue f r rs st.vm hbar'
        have hstep : step .ret st = { st with vm := (popTo f (r :: rs) st.vm).1 } := by
          simp only [step, hin, if_true, hstk, hconts]
          rcases hpt : popTo f (r :: rs) st.vm with ⟨vm1, b⟩
          rw [hpt] at hcont
          simp only [] at hcont
          simp [hcont]
        rw [hstep] at h' ⊢
        have hne' : Y' ≠ [] := ne_of_conts s0 _ Y' h'.conts (by simpa using hlen)
        have hpe := h'.peel
        simp only [] at hpe
        rw [hp.1] at hpe
        have htop := topGe B Y' (r :: rs) _ hpe
          (hasLoop_of_getLast Y' x0 (h'.lastc hne')) hsuf
        apply low_mk _ _ _ _ _ hne'
        · simp only [popTo, hbar']; simp [topBase] at htop ⊢; omega
        · exact hq'
        · exact ht'
        · simp only []; rw [hp.1]; exact hsuf


theorem tail_ne_of_last_loop (c1 : Cont) (Y1 : List Cont) (x0 : Exit) (hc1 : isLoop c1 = false)
    (hl : (c1 :: Y1).getLast? = some (.loop x0)) : Y1 ≠ [] := by
  intro hn; subst hn
  have : c1 = .loop x0 := by simpa using hl
  rw [this] at hc1; simp [isLoop] at hc1

theorem nativeOk_builders (fb : Nat) (vm : VM) :
    (nativeOk fb vm).seq = vm.seq ∧ (nativeOk fb vm).str = vm.str := by
  cases hs : vm.stack <;> simp [nativeOk, hs, truncate]

theorem step_low_native (s0 : St) (x0 : Exit) (hs0 : inLoop s0 = false) (B : Bnd) (st : St)
    (fb : Nat) (host : Option (Nat × Bool)) (Y1 : List Cont)
    (hi : Inside s0 x0 B st (.native fb host :: Y1)) (ev : Ev)
    (Y' : List Cont) (h' : Inv s0 (.loop x0) (step ev st) Y') :
    Low B (.loop x0) s0.vm.stack (step ev st) Y' := by
  have h := hi.inv
  have hr := hi.regs
  have hb := hi.base
  have hq := hi.seq
  have ht := hi.str
  have hconts : st.conts = .native fb host :: (Y1 ++ s0.conts) := by rw [h.conts]; rfl
  have hin : inLoop st = false := by simp [inLoop, hconts]
  have hlen : s0.conts.length < st.conts.length := by rw [hconts]; simp; omega
  have hY1 : Y1 ≠ [] := tail_ne_of_last_loop _ Y1 x0 rfl (h.lastc (by simp))
  have hl1 : Y1.getLast? = some (.loop x0) := by
    rw [← getLast_cons_ne (Cont.native fb host) Y1 hY1]; exact h.lastc (by simp)
  have hpeel : peelAll Y1 st.vm.stack = some s0.vm.stack := by simpa [peelAll] using h.peel
  cases ev with
  | enter pre args c => exact enterChecked_low s0 x0 hs0 B st _ hi pre args c Y' h'
  | enterOp pre args c => exact enterOpChecked_low s0 x0 hs0 B st _ hi pre args c Y' h'
  | enterDirect pre ok => exact enterDirectChecked_low s0 x0 hs0 B st _ hi pre ok Y' h'
  | nested args a => exact nested_low s0 x0 hs0 B st _ hi args a Y' h'
  | nativeRet ok =>
    have hn := nativeOk_fields fb st.vm
    have hnb := nativeOk_builders fb st.vm
    have hnregs : B.r0 ≤ (nativeOk fb st.vm).regs := by
      cases hs : st.vm.stack with
      | nil => simpa [nativeOk, hs] using hr
      | cons f rest => simp [nativeOk, hs, truncate]; omega
    cases ok with
    | true =>
      cases host with
      | some rr =>
        have hstep : step (.nativeRet true) st = ⟨truncate rr.1 (nativeOk fb st.vm), Y1 ++ s0.conts⟩ := by
          simp [step, hin, hconts]
        rw [hstep] at h' ⊢
        have hYeq : Y' = Y1 := by
          have := h'.conts; simp only [] at this; exact (List.append_cancel_right this).symm
        subst hYeq
        apply low_mk _ _ _ _ _ hY1
        · simp [truncate, hn.2.1]; omega
        · simp [truncate, hnb.1]; exact hq
        · simp [truncate, hnb.2]; exact ht
        · simp only []; rw [(truncate_fields rr.1 _).1, hn.1]; exact hi.ge
      | none =>
        have hstep : step (.nativeRet true) st = ⟨nativeOk fb st.vm, Y1 ++ s0.conts⟩ := by
          simp [step, hin, hconts]
        rw [hstep] at h' ⊢
        have hYeq : Y' = Y1 := by
          have := h'.conts; simp only [] at this; exact (List.append_cancel_right this).symm
        subst hYeq
        apply low_mk _ _ _ _ _ hY1
        · exact hnregs
        · simp only []; rw [hnb.1]; exact hq
        · simp only []; rw [hnb.2]; exact ht
        · simp only []; rw [hn.1]; exact hi.ge
    | false =>
      have hraise : ∀ vm : VM, vm.stack = st.vm.stack → vm.base = st.vm.base → B.r0 ≤ vm.regs →
          vm.seq = st.vm.seq → vm.str = st.vm.str → vm.minRegs = st.vm.minRegs →
          ∀ Y', (raiseGo (Y1 ++ s0.conts) true vm).conts = Y' ++ s0.conts →
          Low B (.loop x0) s0.vm.stack (raiseGo (Y1 ++ s0.conts) true vm) Y' := by
        intro vm h1 h2 h3 h4 h5 h6 Y'' hY''
        exact raiseGo_low s0 x0 hs0 B Y1 true vm (by rw [h1]; exact hpeel)
          (by rw [h1, h2]; exact h.base) (fun _ => hl1) hY1 h3 (by rw [h4]; exact hq)
          (by rw [h5]; exact ht) (by rw [h1]; exact hi.ge)
          (fun f rest hs hc => by rw [h6]; exact hi.tryok f rest (by rw [← h1]; exact hs) hc)
          Y'' hY''
      cases host with
      | none =>
        have hstep : step (.nativeRet false) st = raiseGo (Y1 ++ s0.conts) true st.vm := by
          simp [step, hin, hconts]
        rw [hstep] at h' ⊢
        exact hraise st.vm rfl rfl hr rfl rfl rfl Y' h'.conts
      | some rr =>
        have hstep : step (.nativeRet false) st =
            raiseGo (Y1 ++ s0.conts) true (if rr.2 then truncate rr.1 st.vm else st.vm) := by
          simp [step, hin, hconts]
        rw [hstep] at h' ⊢
        cases hr2 : rr.2 with
        | false =>
          simp only [hr2, Bool.false_eq_true, if_false] at h' ⊢
          exact hraise st.vm rfl rfl hr rfl rfl rfl Y' h'.conts
        | true =>
          simp only [hr2, if_true] at h' ⊢
          exact hraise (truncate rr.1 st.vm) (by simp [truncate]) (by simp [truncate])
            (by simp [truncate]; omega) (by simp [truncate]) (by simp [truncate]) (by simp [truncate])
            Y' h'.conts
  | newFrame n =>
    apply low_mk _ _ _ _ _ (ne_of_conts s0 _ Y' h'.conts (by simpa [step, hin] using hlen))
    · simpa [step, hin] using hr
    · simpa [step, hin] using hq
    · simpa [step, hin] using ht
    · simpa [step, hin] using hi.ge
  | tryStart r ip =>
    apply low_mk _ _ _ _ _ (ne_of_conts s0 _ Y' h'.conts (by simpa [step, hin] using hlen))
    · simpa [step, hin] using hr
    · simpa [step, hin] using hq
    · simpa [step, hin] using ht
    · simpa [step, hin] using hi.ge
  | tryEnd =>
    apply low_mk _ _ _ _ _ (ne_of_conts s0 _ Y' h'.conts (by simpa [step, hin] using hlen))
    · simpa [step, hin] using hr
    · simpa [step, hin] using hq
    · simpa [step, hin] using ht
    · simpa [step, hin] using hi.ge
  | call fb' a =>
    apply low_mk _ _ _ _ _ (ne_of_conts s0 _ Y' h'.conts (by simpa [step, hin] using hlen))
    · simpa [step, hin] using hr
    · simpa [step, hin] using hq
    · simpa [step, hin] using ht
    · simpa [step, hin] using hi.ge
  | callNative fb' =>
    apply low_mk _ _ _ _ _ (ne_of_conts s0 _ Y' h'.conts (by simpa [step, hin] using hlen))
    · simpa [step, hin] using hr
    · simpa [step, hin] using hq
    · simpa [step, hin] using ht
    · simpa [step, hin] using hi.ge
  | ret =>
    apply low_mk _ _ _ _ _ (ne_of_conts s0 _ Y' h'.conts (by simpa [step, hin] using hlen))
    · simpa [step, hin] using hr
    · simpa [step, hin] using hq
    · simpa [step, hin] using ht
    · simpa [step, hin] using hi.ge
  | seqStart =>
    apply low_mk _ _ _ _ _ (ne_of_conts s0 _ Y' h'.conts (by simpa [step, hin] using hlen))
    · simpa [step, hin] using hr
    · simpa [step, hin] using hq
    · simpa [step, hin] using ht
    · simpa [step, hin] using hi.ge
  | seqEnd =>
    apply low_mk _ _ _ _ _ (ne_of_conts s0 _ Y' h'.conts (by simpa [step, hin] using hlen))
    · simpa [step, hin] using hr
    · simpa [step, hin] using hq
    · simpa [step, hin] using ht
    · simpa [step, hin] using hi.ge
  | strStart =>
    apply low_mk _ _ _ _ _ (ne_of_conts s0 _ Y' h'.conts (by simpa [step, hin] using hlen))
    · simpa [step, hin] using hr
    · simpa [step, hin] using hq
    · simpa [step, hin] using ht
    · simpa [step, hin] using hi.ge
  | strEnd =>
    apply low_mk _ _ _ _ _ (ne_of_conts s0 _ Y' h'.conts (by simpa [step, hin] using hlen))
    · simpa [step, hin] using hr
    · simpa [step, hin] using hq
    · simpa [step, hin] using ht
    · simpa [step, hin] using hi.ge
  | exportVal k =>
    apply low_mk _ _ _ _ _ (ne_of_conts s0 _ Y' h'.conts (by simpa [step, hin] using hlen))
    · simpa [step, hin] using hr
    · simpa [step, hin] using hq
    · simpa [step, hin] using ht
    · simpa [step, hin] using hi.ge
  | raise c =>
    apply low_mk _ _ _ _ _ (ne_of_conts s0 _ Y' h'.conts (by simpa [step, hin] using hlen))
    · simpa [step, hin] using hr
    · simpa [step, hin] using hq
    · simpa [step, hin] using ht
    · simpa [step, hin] using hi.ge
  | opSetupFail n =>
    apply low_mk _ _ _ _ _ (ne_of_conts s0 _ Y' h'.conts (by simpa [step, hin] using hlen))
    · simpa [step, hin] using hr
    · simpa [step, hin] using hq
    · simpa [step, hin] using ht
    · simpa [step, hin] using hi.ge
  | importBegin m =>
    apply low_mk _ _ _ _ _ (ne_of_conts s0 _ Y' h'.conts (by simpa [step, hin] using hlen))
    · simpa [step, hin] using hr
    · simpa [step, hin] using hq
    · simpa [step, hin] using ht
    · simpa [step, hin] using hi.ge
  | importEnd ok =>
    apply low_mk _ _ _ _ _ (ne_of_conts s0 _ Y' h'.conts (by simpa [step, hin, hconts] using hlen))
    · simpa [step, hin, hconts] using hr
    · simpa [step, hin, hconts] using hq
    · simpa [step, hin, hconts] using ht
    · simpa [step, hin, hconts] using hi.ge

theorem step_low_importing (s0 : St) (x0 : Exit) (hs0 : inLoop s0 = false) (B : Bnd) (st : St)
    (m : Nat) (saved : List Nat) (Y1 : List Cont)
    (hi : Inside s0 x0 B st (.importing m saved :: Y1)) (ev : Ev)
    (Y' : List Cont) (h' : Inv s0 (.loop x0) (step ev st) Y') :
    Low B (.loop x0) s0.vm.stack (step ev st) Y' := by
  have h := hi.inv
  have hr := hi.regs
  have hb := hi.base
  have hq := hi.seq
  have ht := hi.str
  have hconts : st.conts = .importing m saved :: (Y1 ++ s0.conts) := by rw [h.conts]; rfl
  have hin : inLoop st = false := by simp [inLoop, hconts]
  have hlen : s0.conts.length < st.conts.length := by rw [hconts]; simp; omega
  have hY1 : Y1 ≠ [] := tail_ne_of_last_loop _ Y1 x0 rfl (h.lastc (by simp))
  have hl1 : Y1.getLast? = some (.loop x0) := by
    rw [← getLast_cons_ne (Cont.importing m saved) Y1 hY1]; exact h.lastc (by simp)
  have hpeel : peelAll Y1 st.vm.stack = some s0.vm.stack := by simpa [peelAll] using h.peel
  cases ev with
  | enter pre args c => exact enterChecked_low s0 x0 hs0 B st _ hi pre args c Y' h'
  | enterOp pre args c => exact enterOpChecked_low s0 x0 hs0 B st _ hi pre args c Y' h'
  | enterDirect pre ok => exact enterDirectChecked_low s0 x0 hs0 B st _ hi pre ok Y' h'
  | nested args a => exact nested_low s0 x0 hs0 B st _ hi args a Y' h'
  | importEnd ok =>
    cases ok with
    | true =>
      have hstep : step (.importEnd true) st =
          ⟨{ st.vm with
              placeholders := st.vm.placeholders.erase m, cached := m :: st.vm.cached,
              exports := saved }, Y1 ++ s0.conts⟩ := by
        simp [step, hin, hconts]
      rw [hstep] at h' ⊢
      have hYeq : Y' = Y1 := by
        have := h'.conts; simp only [] at this; exact (List.append_cancel_right this).symm
      subst hYeq
      exact low_mk _ _ _ _ _ hY1 hr hq ht hi.ge
    | false =>
      have hstep : step (.importEnd false) st =
          raiseGo (Y1 ++ s0.conts) true { st.vm with
            placeholders := st.vm.placeholders.erase m, exports := saved } := by
        simp [step, hin, hconts]
      rw [hstep] at h' ⊢
      exact raiseGo_low s0 x0 hs0 B Y1 true
        { st.vm with placeholders := st.vm.placeholders.erase m, exports := saved }
        hpeel h.base (fun _ => hl1) hY1 hr hq ht hi.ge (fun f rest hs hc => hi.tryok f rest hs hc)
        Y' h'.conts
  | newFrame n =>
    apply low_mk _ _ _ _ _ (ne_of_conts s0 _ Y' h'.conts (by simpa [step, hin] using hlen))
    · simpa [step, hin] using hr
    · simpa [step, hin] using hq
    · simpa [step, hin] using ht
    · simpa [step, hin] using hi.ge
  | tryStart r ip =>
    apply low_mk _ _ _ _ _ (ne_of_conts s0 _ Y' h'.conts (by simpa [step, hin] using hlen))
    · simpa [step, hin] using hr
    · simpa [step, hin] using hq
    · simpa [step, hin] using ht
    · simpa [step, hin] using hi.ge
  | tryEnd =>
    apply low_mk _ _ _ _ _ (ne_of_conts s0 _ Y' h'.conts (by simpa [step, hin] using hlen))
    · simpa [step, hin] using hr
    · simpa [step, hin] using hq
    · simpa [step, hin] using ht
    · simpa [step, hin] using hi.ge
  | call fb' a =>
    apply low_mk _ _ _ _ _ (ne_of_conts s0 _ Y' h'.conts (by simpa [step, hin] using hlen))
    · simpa [step, hin] using hr
    · simpa [step, hin] using hq
    · simpa [step, hin] using ht
    · simpa [step, hin] using hi.ge
  | callNative fb' =>
    apply low_mk _ _ _ _ _ (ne_of_conts s0 _ Y' h'.conts (by simpa [step, hin] using hlen))
    · simpa [step, hin] using hr
    · simpa [step, hin] using hq
    · simpa [step, hin] using ht
    · simpa [step, hin] using hi.ge
  | ret =>
    apply low_mk _ _ _ _ _ (ne_of_conts s0 _ Y' h'.conts (by simpa [step, hin] using hlen))
    · simpa [step, hin] using hr
    · simpa [step, hin] using hq
    · simpa [step, hin] using ht
    · simpa [step, hin] using hi.ge
  | seqStart =>
    apply low_mk _ _ _ _ _ (ne_of_conts s0 _ Y' h'.conts (by simpa [step, hin] using hlen))
    · simpa [step, hin] using hr
    · simpa [step, hin] using hq
    · simpa [step, hin] using ht
    · simpa [step, hin] using hi.ge
  | seqEnd =>
    apply low_mk _ _ _ _ _ (ne_of_conts s0 _ Y' h'.conts (by simpa [step, hin] using hlen))
    · simpa [step, hin] using hr
    · simpa [step, hin] using hq
    · simpa [step, hin] using ht
    · simpa [step, hin] using hi.ge
  | strStart =>
    apply low_mk _ _ _ _ _ (ne_of_conts s0 _ Y' h'.conts (by simpa [step, hin] using hlen))
    · simpa [step, hin] using hr
    · simpa [step, hin] using hq
    · simpa [step, hin] using ht
    · simpa [step, hin] using hi.ge
  | strEnd =>
    apply low_mk _ _ _ _ _ (ne_of_conts s0 _ Y' h'.conts (by simpa [step, hin] using hlen))
    · simpa [step, hin] using hr
    · simpa [step, hin] using hq
    · simpa [step, hin] using ht
    · simpa [step, hin] using hi.ge
  | exportVal k =>
    apply low_mk _ _ _ _ _ (ne_of_conts s0 _ Y' h'.conts (by simpa [step, hin] using hlen))
    · simpa [step, hin] using hr
    · simpa [step, hin] using hq
    · simpa [step, hin] using ht
    · simpa [step, hin] using hi.ge
  | raise c =>
    apply low_mk _ _ _ _ _ (ne_of_conts s0 _ Y' h'.conts (by simpa [step, hin] using hlen))
    · simpa [step, hin] using hr
    · simpa [step, hin] using hq
    · simpa [step, hin] using ht
    · simpa [step, hin] using hi.ge
  | opSetupFail n =>
    apply low_mk _ _ _ _ _ (ne_of_conts s0 _ Y' h'.conts (by simpa [step, hin] using hlen))
    · simpa [step, hin] using hr
    · simpa [step, hin] using hq
    · simpa [step, hin] using ht
    · simpa [step, hin] using hi.ge
  | importBegin m' =>
    apply low_mk _ _ _ _ _ (ne_of_conts s0 _ Y' h'.conts (by simpa [step, hin] using hlen))
    · simpa [step, hin] using hr
    · simpa [step, hin] using hq
    · simpa [step, hin] using ht
    · simpa [step, hin] using hi.ge
  | nativeRet ok =>
    apply low_mk _ _ _ _ _ (ne_of_conts s0 _ Y' h'.conts (by simpa [step, hin, hconts] using hlen))
    · simpa [step, hin, hconts] using hr
    · simpa [step, hin, hconts] using hq
    · simpa [step, hin, hconts] using ht
    · simpa [step, hin, hconts] using hi.ge

/-- Every event keeps the bounds (given the bracket invariant before and after). -/
theorem step_low (s0 : St) (x0 : Exit) (hs0 : inLoop s0 = false) (B : Bnd) (st : St)
    (Y : List Cont) (h : Inv s0 (.loop x0) st Y) (hl : Low B (.loop x0) s0.vm.stack st Y)
    (hY : Y ≠ []) (ev : Ev) (hsafe : SafeEv B ev st)
    (Y' : List Cont) (h' : Inv s0 (.loop x0) (step ev st) Y') :
    Low B (.loop x0) s0.vm.stack (step ev st) Y' := by
  have hi := inside_of s0 x0 B st Y h hl hY hsafe.2.2
  cases Y with
  | nil => exact absurd rfl hY
  | cons c1 Y1 =>
    cases c1 with
    | loop x => exact step_low_loop s0 x0 hs0 B st x Y1 hi ev hsafe Y' h'
    | native fb host => exact step_low_native s0 x0 hs0 B st fb host Y1 hi ev Y' h'
    | importing m saved => exact step_low_importing s0 x0 hs0 B st m saved Y1 hi ev Y' h'

/-- no event of the bracket pops a builder at or below the claimed lower bounds -/
def SafeUntil (B : Bnd) (d : Nat) : List Ev → St → Prop
  | [], _ => True
  | ev :: rest, st =>
    if st.conts.length ≤ d then True else SafeEv B ev st ∧ SafeUntil B d rest (step ev st)

theorem safeUntil_zero (B : Bnd) (hr : B.r0 = 0) (hq : B.ql = 0) (ht : B.tl = 0) (d : Nat) :
    ∀ (evs : List Ev) (st : St), SafeUntil B d evs st := by
  intro evs
  induction evs with
  | nil => intro st; trivial
  | cons ev rest ih =>
    intro st
    simp only [SafeUntil]
    split
    · trivial
    · exact ⟨⟨fun _ hz => by rw [hq]; omega, fun _ hz => by rw [ht]; omega,
        fun _ _ _ _ => by rw [hr]; exact Nat.zero_le _⟩, ih _⟩

theorem runUntil_low (s0 : St) (x0 : Exit) (hs0 : inLoop s0 = false) (hc : Consistent s0.vm)
    (B : Bnd) : ∀ (evs : List Ev) (st : St) (Y : List Cont), Inv s0 (.loop x0) st Y →
      Low B (.loop x0) s0.vm.stack st Y → SafeUntil B s0.conts.length evs st →
      ∃ Y', Inv s0 (.loop x0) (runUntil s0.conts.length evs st) Y' ∧
        Low B (.loop x0) s0.vm.stack (runUntil s0.conts.length evs st) Y' := by
  intro evs
  induction evs with
  | nil => intro st Y h hl _; exact ⟨Y, h, hl⟩
  | cons ev rest ih =>
    intro st Y h hl hsafe
    simp only [runUntil]
    simp only [SafeUntil] at hsafe
    split
    · exact ⟨Y, h, hl⟩
    · rename_i hlen
      rw [if_neg hlen] at hsafe
      have hY : Y ≠ [] := by
        intro hn; subst hn; apply hlen; rw [h.conts]; simp
      obtain ⟨Y', h'⟩ := step_inv s0 (.loop x0) hs0 hc st Y h hY ev
      exact ih (step ev st) Y' h' (step_low s0 x0 hs0 B st Y h hl hY ev hsafe.1 Y' h') hsafe.2


/-! ### the per-frame form of the hypothesis (what a bytecode verifier establishes) -/

/-- `SequenceToList` / `StringFinish` is executed only while the *current frame* has a builder of
its own open (relative depth ≥ 1): the trace-level reading of C05's `wf_sound_balance` (in a chunk
accepted by `wfChunk` no builder instruction finds the frame unit's builder stack empty). -/
def FrameSafeEv (ev : Ev) (st : St) : Prop :=
  (ev = .seqEnd → ∀ f rest, st.vm.stack = f :: rest → f.seq0 < st.vm.seq) ∧
  (ev = .strEnd → ∀ f rest, st.vm.stack = f :: rest → f.str0 < st.vm.str) ∧
  -- a frame with an open `try` has executed its `NewFrame` (fix 8f4d2e4: the catch point resizes
  -- the value stack to `min_frame_registers`)
  (∀ f rest, st.vm.stack = f :: rest → f.catches ≠ [] → st.vm.base ≤ st.vm.minRegs)

def FrameSafeUntil (d : Nat) : List Ev → St → Prop
  | [], _ => True
  | ev :: rest, st =>
    if st.conts.length ≤ d then True else FrameSafeEv ev st ∧ FrameSafeUntil d rest (step ev st)

/-- inside the bracket the per-frame condition implies the bracket-level one: the current frame
lies above the caller's frames, so its recorded counts are at least the entry's -/
theorem safeEv_of_frameSafe (s0 : St) (x0 : Exit) (B : Bnd) (st : St) (Y : List Cont)
    (hinv : Inv s0 (.loop x0) st Y) (hl : Low B (.loop x0) s0.vm.stack st Y) (hY : Y ≠ [])
    (ev : Ev) (h : FrameSafeEv ev st) : SafeEv B ev st := by
  obtain ⟨X, hX, hne⟩ := peelAll_split Y st.vm.stack _ hinv.peel
  have hloop := hasLoop_of_getLast Y x0 (hinv.lastc hY)
  have hbase : B.r0 ≤ st.vm.base := by
    rw [hinv.base]; exact topGe B Y _ _ hinv.peel hloop (hl.ge hY)
  cases X with
  | nil => exact absurd rfl (hne hloop)
  | cons f X1 =>
    have hok : FrameOk B f := ((hl.ge hY) (f :: X1) hX).1 f (by simp)
    have hstk : st.vm.stack = f :: (X1 ++ s0.vm.stack) := by rw [hX]; rfl
    exact ⟨fun he _ => Nat.lt_of_le_of_lt hok.2.1 (h.1 he f _ hstk),
           fun he _ => Nat.lt_of_le_of_lt hok.2.2.1 (h.2.1 he f _ hstk),
           fun g gs hs hc => Nat.le_trans hbase (h.2.2 g gs hs hc)⟩

theorem runUntil_low_frame (s0 : St) (x0 : Exit) (hs0 : inLoop s0 = false) (hc : Consistent s0.vm)
    (B : Bnd) : ∀ (evs : List Ev) (st : St) (Y : List Cont), Inv s0 (.loop x0) st Y →
      Low B (.loop x0) s0.vm.stack st Y → FrameSafeUntil s0.conts.length evs st →
      ∃ Y', Inv s0 (.loop x0) (runUntil s0.conts.length evs st) Y' ∧
        Low B (.loop x0) s0.vm.stack (runUntil s0.conts.length evs st) Y' := by
  intro evs
  induction evs with
  | nil => intro st Y h hl _; exact ⟨Y, h, hl⟩
  | cons ev rest ih =>
    intro st Y h hl hsafe
    simp only [runUntil]
    simp only [FrameSafeUntil] at hsafe
    split
    · exact ⟨Y, h, hl⟩
    · rename_i hlen
      rw [if_neg hlen] at hsafe
      have hY : Y ≠ [] := by
        intro hn; subst hn; apply hlen; rw [h.conts]; simp
      obtain ⟨Y', h'⟩ := step_inv s0 (.loop x0) hs0 hc st Y h hY ev
      have hse := safeEv_of_frameSafe s0 x0 B st Y h hl hY ev hsafe.1
      exact ih (step ev st) Y' h' (step_low s0 x0 hs0 B st Y h hl hY ev hse Y' h') hsafe.2

end KotoVerif.Unwind
