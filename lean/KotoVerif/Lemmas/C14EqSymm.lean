/-
C14 — symmetry of `==` on data with maps (spec-level key lookup): the pigeonhole argument.
-/
import KotoVerif.Model.Equal
import KotoVerif.Lemmas.C14Equal
import KotoVerif.Lemmas.C14Map
import KotoVerif.Lemmas.C14EqMaps

namespace KotoVerif
namespace Equal
open OMap

variable {β : Type}

theorem lookup_remove_other {m : Val → Val → Bool} (hm : KeyPER m) (k k2 : Val) (es : List (Val × β))
    (h : m k2 k = false) : lookupBy m k2 (remove m k es).1 = lookupBy m k2 es := by
  induction es with
  | nil => rfl
  | cons e es ih =>
    obtain ⟨kk, vv⟩ := e
    simp only [remove]
    by_cases hk : m k kk = true
    · simp only [hk, if_true]
      have : m k2 kk = false := by
        cases h2 : m k2 kk with
        | false => rfl
        | true =>
          have h3 : m kk k = true := by rw [hm.symm]; exact hk
          have := hm.trans k2 kk k h2 h3
          rw [h] at this; exact absurd this (by simp)
      simp [lookupBy, this]
    · have hk' : m k kk = false := by simpa using hk
      simp only [hk', Bool.false_eq_true, if_false, lookupBy]
      rw [ih]

theorem remove_no_match {m : Val → Val → Bool} (hm : KeyPER m) (k : Val) (es : List (Val × β))
    (hd : Distinct m (keys es)) : ∀ e ∈ (remove m k es).1, m k e.1 = false := by
  induction es with
  | nil => intro e he; simp [remove] at he
  | cons e0 es ih =>
    obtain ⟨kk, vv⟩ := e0
    have hd' := List.pairwise_cons.mp hd
    simp only [remove]
    by_cases hk : m k kk = true
    · simp only [hk, if_true]
      intro e he
      cases h2 : m k e.1 with
      | false => rfl
      | true =>
        have h3 : m kk k = true := by rw [hm.symm]; exact hk
        have h4 := hm.trans kk k e.1 h3 h2
        have := hd'.1 e.1 (List.mem_map_of_mem he)
        rw [this] at h4; exact absurd h4 (by simp)
    · have hk' : m k kk = false := by simpa using hk
      simp only [hk', Bool.false_eq_true, if_false]
      intro e he
      rcases List.mem_cons.mp he with rfl | he'
      · exact hk'
      · exact ih hd'.2 e he'

theorem lookup_found (m : Val → Val → Bool) (k : Val) (es : List (Val × β)) (v0 : β)
    (h : lookupBy m k es = some v0) :
    ∃ k0, m k k0 = true ∧ (remove m k es).1.length + 1 = es.length ∧
      (∀ e ∈ es, e ∈ (remove m k es).1 ∨ e = (k0, v0)) := by
  induction es with
  | nil => simp [lookupBy] at h
  | cons e0 es ih =>
    obtain ⟨kk, vv⟩ := e0
    simp only [lookupBy] at h
    by_cases hk : m k kk = true
    · simp only [hk, if_true, Option.some.injEq] at h
      subst h
      refine ⟨kk, hk, by simp [remove, hk], ?_⟩
      intro e he
      simp only [remove, hk, if_true]
      rcases List.mem_cons.mp he with rfl | he'
      · exact Or.inr rfl
      · exact Or.inl he'
    · have hk' : m k kk = false := by simpa using hk
      simp only [hk', Bool.false_eq_true, if_false] at h
      obtain ⟨k0, h1, h2, h3⟩ := ih h
      refine ⟨k0, h1, by simp [remove, hk']; omega, ?_⟩
      intro e he
      simp only [remove, hk', Bool.false_eq_true, if_false]
      rcases List.mem_cons.mp he with rfl | he'
      · exact Or.inl (by simp)
      · rcases h3 e he' with h | h
        · exact Or.inl (List.mem_cons_of_mem _ h)
        · exact Or.inr h

theorem distinct_remove {m : Val → Val → Bool} (k : Val) (es : List (Val × β))
    (hd : Distinct m (keys es)) : Distinct m (keys (remove m k es).1) := by
  rw [keys_remove]
  exact distinct_specRemove k _ hd

/-- pigeonhole: between two maps of the same size with pairwise different keys, "every entry of the
left one is found on the right" turns round -/
theorem map_symm_core {m : Val → Val → Bool} (hm : KeyPER m) (R : β → β → Prop) :
    ∀ (as bs : List (Val × β)), Distinct m (keys as) → Distinct m (keys bs) → as.length = bs.length →
      (∀ e ∈ as, ∃ v', lookupBy m e.1 bs = some v' ∧ R e.2 v') →
      ∀ e' ∈ bs, ∃ v, lookupBy m e'.1 as = some v ∧ R v e'.2 := by
  intro as
  induction as with
  | nil =>
    intro bs _ _ hlen _ e' he'
    have : bs = [] := List.eq_nil_of_length_eq_zero (by simpa using hlen.symm)
    subst this; cases he'
  | cons a as ih =>
    intro bs hda hdb hlen hfwd e' he'
    obtain ⟨k, v⟩ := a
    have hda' := List.pairwise_cons.mp hda
    obtain ⟨v0, hl, hR⟩ := hfwd (k, v) (by simp)
    obtain ⟨k0, hk0, hlen', hmem⟩ := lookup_found m k bs v0 hl
    have hnm := remove_no_match hm k bs hdb
    have hrec := ih (remove m k bs).1 hda'.2 (distinct_remove k bs hdb)
      (by simp only [List.length_cons] at hlen; omega)
      (by
        intro e he
        obtain ⟨v', h1, h2⟩ := hfwd e (List.mem_cons_of_mem _ he)
        have hke : m e.1 k = false := by
          rw [hm.symm]; exact hda'.1 e.1 (List.mem_map_of_mem he)
        exact ⟨v', by rw [lookup_remove_other hm k e.1 bs hke]; exact h1, h2⟩)
    rcases hmem e' he' with h | h
    · obtain ⟨v1, h1, h2⟩ := hrec e' h
      have hke : m e'.1 k = false := by rw [hm.symm]; exact hnm e' h
      exact ⟨v1, by simp [lookupBy, hke, h1], h2⟩
    · subst h
      have : m k0 k = true := by rw [hm.symm]; exact hk0
      exact ⟨v, by simp [lookupBy, this], hR⟩

theorem veqMap_iff (F : FloatOps) (as bs : List (Val × Val)) :
    veqMap F false as bs = true ↔
      ∀ e ∈ as, ∃ v', lookupBy (keyEq F) e.1 bs = some v' ∧ veq F false e.2 v' = true := by
  induction as with
  | nil => simp [veqMap]
  | cons a as ih =>
    obtain ⟨k, v⟩ := a
    simp only [veqMap, Bool.and_eq_true, ih, List.mem_cons, forall_eq_or_imp, Bool.false_eq_true, if_false]
    constructor
    · rintro ⟨h1, h2⟩
      refine ⟨?_, h2⟩
      cases hl : lookupBy (keyEq F) k bs with
      | none => simp [hl] at h1
      | some v' => exact ⟨v', rfl, by simpa [hl] using h1⟩
    · rintro ⟨⟨v', h1, h2⟩, h3⟩
      exact ⟨by simp [h1, h2], h3⟩

theorem distinctKeysB_distinct (F : FloatOps) (ks : List Val) (h : distinctKeysB F ks = true) :
    Distinct (keyEq F) ks := by
  induction ks with
  | nil => exact List.Pairwise.nil
  | cons k ks ih =>
    simp only [distinctKeysB, Bool.and_eq_true, List.all_eq_true, Bool.not_eq_true'] at h
    exact List.pairwise_cons.mpr ⟨fun x hx => (h.1 x hx).1, ih h.2⟩

theorem keysDistinctList_mem (F : FloatOps) (xs : List Val) (h : keysDistinctList F xs = true) :
    ∀ x ∈ xs, keysDistinct F x = true := by
  induction xs with
  | nil => intro x hx; cases hx
  | cons y ys ih =>
    simp only [keysDistinctList, Bool.and_eq_true] at h
    intro x hx
    rcases List.mem_cons.mp hx with rfl | hx'
    · exact h.1
    · exact ih h.2 x hx'

theorem keysDistinctEntries_mem (F : FloatOps) (es : List (Val × Val)) (h : keysDistinctEntries F es = true) :
    ∀ e ∈ es, keysDistinct F e.2 = true := by
  induction es with
  | nil => intro x hx; cases hx
  | cons y ys ih =>
    obtain ⟨k, v⟩ := y
    simp only [keysDistinctEntries, Bool.and_eq_true] at h
    intro x hx
    rcases List.mem_cons.mp hx with rfl | hx'
    · exact h.1.2
    · exact ih h.2 x hx'

theorem lookupBy_mem (m : Val → Val → Bool) (k : Val) (es : List (Val × β)) (v : β)
    (h : lookupBy m k es = some v) : ∃ k0, (k0, v) ∈ es := by
  induction es with
  | nil => simp [lookupBy] at h
  | cons e es ih =>
    obtain ⟨kk, vv⟩ := e
    simp only [lookupBy] at h
    split at h
    · simp only [Option.some.injEq] at h; subst h; exact ⟨kk, by simp⟩
    · obtain ⟨k0, h0⟩ := ih h; exact ⟨k0, List.mem_cons_of_mem _ h0⟩

theorem veqList_imp (F : FloatOps) (xs : List Val)
    (H : ∀ x ∈ xs, ∀ y, keysDistinct F y = true → veq F false x y = true → veq F false y x = true) :
    ∀ ys, keysDistinctList F ys = true → veqList F false xs ys = true → veqList F false ys xs = true := by
  induction xs with
  | nil => intro ys _ h; cases ys <;> simp_all [veqList]
  | cons x xs ih =>
    intro ys wy h
    cases ys with
    | nil => simp [veqList] at h
    | cons y ys =>
      simp only [keysDistinctList, Bool.and_eq_true] at wy
      simp only [veqList, Bool.and_eq_true] at h ⊢
      exact ⟨H x (by simp) y wy.1 h.1, ih (fun z hz => H z (List.mem_cons_of_mem _ hz)) ys wy.2 h.2⟩

theorem sizeOf_mem_lt (xs : List Val) (x : Val) (h : x ∈ xs) : sizeOf x < sizeOf xs :=
  List.sizeOf_lt_of_mem h

theorem sizeOf_entry_lt (es : List (Val × Val)) (e : Val × Val) (h : e ∈ es) : sizeOf e.2 < sizeOf es := by
  have h1 := List.sizeOf_lt_of_mem h
  obtain ⟨k, v⟩ := e
  simp only [Prod.mk.sizeOf_spec] at h1
  simp only
  omega

/-- one direction; by induction on the size of the left value -/
theorem veq_imp {F : FloatOps} (hF : FloatLaws F) (hm : KeyPER (keyEq F)) (n : Nat) :
    ∀ (a : Val), sizeOf a ≤ n → ∀ (b : Val), keysDistinct F a = true → keysDistinct F b = true →
      veq F false a b = true → veq F false b a = true := by
  induction n with
  | zero =>
    intro a ha
    cases a <;> simp at ha <;> omega
  | succ n ih =>
    intro a ha b wa wb h
    cases a with
    | null => rw [← veq_symm_mapFree hF false .null b rfl]; exact h
    | bool x => rw [← veq_symm_mapFree hF false (.bool x) b rfl]; exact h
    | num x => rw [← veq_symm_mapFree hF false (.num x) b rfl]; exact h
    | str x => rw [← veq_symm_mapFree hF false (.str x) b rfl]; exact h
    | range x y => rw [← veq_symm_mapFree hF false (.range x y) b rfl]; exact h
    | tuple xs =>
      cases b <;> simp [veq] at h ⊢
      rename_i ys
      simp only [keysDistinct] at wa wb
      simp only [Val.tuple.sizeOf_spec] at ha
      refine veqList_imp F xs (fun x hx y wy hxy => ?_) ys wb h
      have := sizeOf_mem_lt xs x hx
      exact ih x (by omega) y (keysDistinctList_mem F xs wa x hx) wy hxy
    | list xs =>
      cases b <;> simp [veq] at h ⊢
      rename_i ys
      simp only [keysDistinct] at wa wb
      simp only [Val.list.sizeOf_spec] at ha
      refine veqList_imp F xs (fun x hx y wy hxy => ?_) ys wb h
      have := sizeOf_mem_lt xs x hx
      exact ih x (by omega) y (keysDistinctList_mem F xs wa x hx) wy hxy
    | map as =>
      cases b <;> simp [veq] at h ⊢
      rename_i bs
      simp only [keysDistinct, Bool.and_eq_true] at wa wb
      simp only [Val.map.sizeOf_spec] at ha
      refine ⟨h.1.symm, ?_⟩
      rw [veqMap_iff] at h ⊢
      have hda := distinctKeysB_distinct F _ wa.1
      have hdb := distinctKeysB_distinct F _ wb.1
      have core := map_symm_core hm (fun v v' => veq F false v' v = true) as bs hda hdb h.1
        (by
          intro e he
          obtain ⟨v', h1, h2⟩ := h.2 e he
          obtain ⟨k0, hk0⟩ := lookupBy_mem _ _ _ _ h1
          have wv' := keysDistinctEntries_mem F bs wb.2 (k0, v') hk0
          have := sizeOf_entry_lt as e he
          exact ⟨v', h1, ih e.2 (by omega) v' (keysDistinctEntries_mem F as wa.2 e he) wv' h2⟩)
      intro e' he'
      obtain ⟨v, h1, h2⟩ := core e' he'
      exact ⟨v, h1, h2⟩

theorem veq_symm {F : FloatOps} (hF : FloatLaws F) (hm : KeyPER (keyEq F)) (a b : Val)
    (ha : keysDistinct F a = true) (hb : keysDistinct F b = true) :
    veq F false a b = veq F false b a := by
  cases h1 : veq F false a b <;> cases h2 : veq F false b a <;> try rfl
  · have := veq_imp hF hm (sizeOf b) b (Nat.le_refl _) a hb ha h2
    rw [h1] at this; exact absurd this (by simp)
  · have := veq_imp hF hm (sizeOf a) a (Nat.le_refl _) b ha hb h1
    rw [h2] at this; exact absurd this (by simp)

end Equal
end KotoVerif
