/-
Helper definitions and lemmas for C02 (closures): witnesses, capture environments.
-/
import KotoVerif.Model.Capture

set_option linter.unusedSimpArgs false

namespace KotoVerif.C02
open KotoVerif.Capture

/-- observe an integer result -/
def asInt : Except EErr V → Except EErr Int
  | .ok (.int n) => .ok n
  | .ok _ => .error .type
  | .error e => .error e

/-- body of the F-C02-1 witness: `a = (if c then 2 else 3) - a` ⏎ `a` (a = 1, c = 2) -/
def f27Body : List Ex :=
  [.assign 1 (.sub (.paren (.ite (.var 2) (.lit 2) (.lit 3))) (.var 1)), .var 1]

/-- `a = 1; c = 0 < 1; f = || …; f()` -/
def f27Script : List Ex :=
  [.assign 1 (.lit 1), .assign 2 (.lt (.lit 0) (.lit 1)), .assign 3 (.fn [] f27Body), .call 3 []]

/-- F-C02-2's mechanism in one line: `x + (x = 3)` -/
def erasedBody : List Ex := [.add (.var 1) (.paren (.assign 1 (.lit 3)))]

/-- guide: `x = 1; f = |n| n + x; x = 100; f(2)` -/
def guideCopyScript : List Ex :=
  [.assign 1 (.lit 1), .assign 2 (.fn [3] [.add (.var 3) (.var 1)]), .assign 1 (.lit 100), .call 2 [.lit 2]]

/-- guide: `x = 99; f = || x = x + 1; f() + f() + f()` (same starting value in every call) -/
def guideSameStartScript : List Ex :=
  [.assign 1 (.lit 99), .assign 2 (.fn [] [.assign 1 (.add (.var 1) (.lit 1))]),
   .add (.call 2 []) (.add (.call 2 []) (.call 2 []))]

/-- recursion through the deferred self capture: `f = |n| if n < 1 then 0 else n + f(n - 1)` -/
def recScript : List Ex :=
  [.assign 1 (.fn [2] [.ite (.lt (.var 2) (.lit 1)) (.lit 0) (.add (.var 2) (.call 1 [.sub (.var 2) (.lit 1)]))]),
   .call 1 [.lit 4]]

/-! ### capture environments -/

theorem lookup_captureEnv (names : List Name) (env : Env) (x : Name) :
    lookup x (captureEnv names env) = if names.contains x then lookup x env else none := by
  induction names with
  | nil => simp [captureEnv, lookup]
  | cons n ns ih =>
    unfold captureEnv at ih ⊢
    simp only [List.filterMap_cons]
    cases hn : lookup n env with
    | none =>
      simp only [Option.map_none]
      rw [ih]
      by_cases hx : x = n
      · subst hx; simp [hn]
      · have : (n == x) = false := by simp; exact fun h => hx h.symm
        simp [List.contains_cons, this, hx]
    | some v =>
      simp only [Option.map_some, lookup]
      by_cases hx : x = n
      · subst hx; simp [hn]
      · have h1 : (x == n) = false := by simp [hx]
        simp only [h1]
        rw [ih]
        simp [List.contains_cons, hx]

theorem slookup_sCapture (names : List Name) (env : SEnv) (x : Name) :
    slookup x (sCapture names env) = if names.contains x then slookup x env else none := by
  induction names with
  | nil => simp [sCapture, slookup]
  | cons n ns ih =>
    unfold sCapture at ih ⊢
    simp only [List.filterMap_cons]
    cases hn : slookup n env with
    | none =>
      simp only [Option.map_none]
      rw [ih]
      by_cases hx : x = n
      · subst hx; simp [hn]
      · simp [List.contains_cons, hx]
    | some v =>
      simp only [Option.map_some, slookup]
      by_cases hx : x = n
      · subst hx; simp [hn]
      · have h1 : (x == n) = false := by simp [hx]
        simp only [h1]
        rw [ih]
        simp [List.contains_cons, hx]

theorem lookup_update_ne (x y : Name) (v : V) (env : Env) (h : x ≠ y) :
    lookup x (update y v env) = lookup x env := by
  induction env with
  | nil => simp [update, lookup, h]
  | cons p env ih =>
    obtain ⟨z, w⟩ := p
    unfold update
    by_cases hz : y = z
    · subst hz; simp [lookup, h]
    · have : (y == z) = false := by simp [hz]
      simp only [this]
      simp [lookup, ih]

theorem lookup_update_same (x : Name) (v : V) (env : Env) : lookup x (update x v env) = some v := by
  induction env with
  | nil => simp [update, lookup]
  | cons p env ih =>
    obtain ⟨z, w⟩ := p
    unfold update
    by_cases hz : x = z
    · subst hz; simp [lookup]
    · have : (x == z) = false := by simp [hz]
      simp [this, lookup, ih]

theorem slookup_supdate_ne (x y : Name) (v : SVal) (env : SEnv) (h : x ≠ y) :
    slookup x (supdate y v env) = slookup x env := by
  induction env with
  | nil => simp [supdate, slookup, h]
  | cons p env ih =>
    obtain ⟨z, w⟩ := p
    unfold supdate
    by_cases hz : y = z
    · subst hz; simp [slookup, h]
    · have : (y == z) = false := by simp [hz]
      simp only [this]
      simp [slookup, ih]

/-! ### set lemmas, line invariant -/

theorem mem_ins (x y : Name) (xs : List Name) : y ∈ ins x xs ↔ y = x ∨ y ∈ xs := by
  unfold ins
  by_cases h : xs.contains x = true
  · simp only [h, if_true]
    constructor
    · exact Or.inr
    · rintro (rfl | h')
      · simpa using h
      · exact h'
  · simp only [h]
    simp [or_comm]

theorem mem_union (xs ys : List Name) (y : Name) : y ∈ union xs ys ↔ y ∈ xs ∨ y ∈ ys := by
  unfold union
  induction ys generalizing xs with
  | nil => simp
  | cons z zs ih =>
    simp only [List.foldl_cons]
    rw [ih, mem_ins]
    simp only [List.mem_cons]
    constructor
    · rintro ((rfl | h) | h)
      · exact Or.inr (Or.inl rfl)
      · exact Or.inl h
      · exact Or.inr (Or.inr h)
    · rintro (h | rfl | h)
      · exact Or.inl (Or.inr h)
      · exact Or.inl (Or.inl rfl)
      · exact Or.inr h

/-- state of the parser's frame at a line boundary, related to the bound names of the declarative
definition -/
def LineInv (f : PFrame) (bd : List Name) : Prop :=
  f.pendAcc = [] ∧ f.pendAsg = [] ∧ ∀ y, y ∈ f.assigned ↔ y ∈ bd

theorem union_nil (xs : List Name) : union xs [] = xs := rfl

theorem mem_erase_append_self (l : List Name) (x y : Name) : y ∈ (l ++ [x]).erase x ↔ y ∈ l := by
  induction l with
  | nil => simp
  | cons a l ih =>
    by_cases h : a = x
    · subst h; simp [or_comm]
    · have hb : (a == x) = false := by simp [h]
      simp [List.erase_cons, hb, ih]


/-! ### lines with inline `if` and calls (no nested function literal)

`Step f f' rd`: what parsing a piece of an expression list does to the parser's frame, stated for the
names that are not pending assignment targets at entry: recorded non-local accesses are never lost
and every read in `rd` of a name that is not yet assigned gets recorded. -/

/-- `y` is recorded (or will be at the next finalize) as a non-local access -/
def Recd (f : PFrame) (y : Name) : Prop := y ∈ f.nonLocals ∨ (y ∈ f.pendAcc ∧ y ∉ f.assigned)

structure Step (f f' : PFrame) (rd : List Name) : Prop where
  asg_sub : ∀ y, y ∈ f'.assigned → y ∈ f.assigned ∨ y ∈ f.pendAsg
  asg_mono : ∀ y, y ∈ f.assigned → y ∈ f'.assigned
  pasg_sub : ∀ y, y ∈ f'.pendAsg → y ∈ f.pendAsg
  all_keep : ∀ y, (y ∈ f.assigned ∨ y ∈ f.pendAsg) → (y ∈ f'.assigned ∨ y ∈ f'.pendAsg)
  rec_keep : ∀ y, y ∉ f.pendAsg → Recd f y → Recd f' y
  rec_new : ∀ y, y ∉ f.pendAsg → y ∈ rd → y ∉ f.assigned → Recd f' y
  nl_mono : ∀ y, y ∈ f.nonLocals → y ∈ f'.nonLocals

theorem Step.refl (f : PFrame) : Step f f [] :=
  ⟨fun _ h => Or.inl h, fun _ h => h, fun _ h => h, fun _ h => h, fun _ _ h => h,
   fun _ _ h => (by cases h), fun _ h => h⟩

theorem Step.trans {f f1 f2 : PFrame} {r1 r2 : List Name} (s1 : Step f f1 r1) (s2 : Step f1 f2 r2) :
    Step f f2 (r1 ++ r2) where
  asg_sub y h := by
    rcases s2.asg_sub y h with h | h
    · exact s1.asg_sub y h
    · exact Or.inr (s1.pasg_sub y h)
  asg_mono y h := s2.asg_mono y (s1.asg_mono y h)
  pasg_sub y h := s1.pasg_sub y (s2.pasg_sub y h)
  all_keep y h := s2.all_keep y (s1.all_keep y h)
  rec_keep y hp h := s2.rec_keep y (fun hh => hp (s1.pasg_sub y hh)) (s1.rec_keep y hp h)
  rec_new y hp hr ha := by
    have hp1 : y ∉ f1.pendAsg := fun hh => hp (s1.pasg_sub y hh)
    rcases List.mem_append.mp hr with hr | hr
    · exact s2.rec_keep y hp1 (s1.rec_new y hp hr ha)
    · refine s2.rec_new y hp1 hr (fun hh => ?_)
      rcases s1.asg_sub y hh with h | h
      · exact ha h
      · exact hp h
  nl_mono y h := s2.nl_mono y (s1.nl_mono y h)

theorem Step.access (f : PFrame) (x : Name) : Step f (f.access x) [x] where
  asg_sub _ h := Or.inl h
  asg_mono _ h := h
  pasg_sub _ h := h
  all_keep _ h := h
  rec_keep y _ h := by
    rcases h with h | ⟨h1, h2⟩
    · exact Or.inl h
    · exact Or.inr ⟨by simp only [PFrame.access]; exact List.mem_append.mpr (Or.inl h1), h2⟩
  rec_new y _ hr ha := by
    simp only [List.mem_singleton] at hr
    subst hr
    exact Or.inr ⟨by simp only [PFrame.access]; exact List.mem_append.mpr (Or.inr (List.mem_singleton.mpr rfl)), ha⟩
  nl_mono _ h := h

theorem Step.finalize (f : PFrame) : Step f f.finalize [] where
  asg_sub y h := by simpa [PFrame.finalize, mem_union] using h
  asg_mono y h := by simp only [PFrame.finalize, mem_union]; exact Or.inl h
  pasg_sub y h := by simp [PFrame.finalize] at h
  all_keep y h := by simp only [PFrame.finalize, mem_union]; exact Or.inl h
  rec_keep y _ h := by
    rcases h with h | ⟨h1, h2⟩
    · exact Or.inl (by simp only [PFrame.finalize, mem_union]; exact Or.inl h)
    · refine Or.inl ?_
      simp only [PFrame.finalize, mem_union]
      right
      rw [List.mem_filter]
      exact ⟨h1, by simpa using h2⟩
  rec_new _ _ h := by cases h
  nl_mono y h := by simp only [PFrame.finalize, mem_union]; exact Or.inl h

mutual
/-- expressions with inline `if` and calls, without assignment and without function literal -/
def s0 : Ex → Bool
  | .lit _ => true
  | .var _ => true
  | .add a b => s0 a && s0 b
  | .sub a b => s0 a && s0 b
  | .lt a b => s0 a && s0 b
  | .paren e => s0 e
  | .ite c t e => s0 c && s0 t && s0 e
  | .assign _ _ => false
  | .fn _ _ => false
  | .call _ args => s0Args args
def s0Args : List Ex → Bool
  | [] => true
  | e :: es => s0 e && s0Args es
end

mutual
/-- the names read by an `s0` expression, in order -/
def reads : Ex → List Name
  | .lit _ => []
  | .var x => [x]
  | .add a b => reads a ++ reads b
  | .sub a b => reads a ++ reads b
  | .lt a b => reads a ++ reads b
  | .paren e => reads e
  | .ite c t e => reads c ++ (reads t ++ reads e)
  | .assign _ _ => []
  | .fn _ _ => []
  | .call g args => g :: readsArgs args
def readsArgs : List Ex → List Name
  | [] => []
  | e :: es => reads e ++ readsArgs es
end

theorem Step.weaken {f f' : PFrame} {r r' : List Name} (s : Step f f' r) (h : ∀ y, y ∈ r' → y ∈ r) :
    Step f f' r' :=
  ⟨s.asg_sub, s.asg_mono, s.pasg_sub, s.all_keep, s.rec_keep, fun y hp hr ha => s.rec_new y hp (h y hr) ha, s.nl_mono⟩

mutual
theorem pe_s0 : ∀ (e : Ex) (f : PFrame), s0 e = true → Step f (pe e f) (reads e)
  | .lit _, f, _ => by simpa [pe, reads] using Step.refl f
  | .var x, f, _ => by simpa [pe, reads] using Step.access f x
  | .add a b, f, h => by
    simp only [s0, Bool.and_eq_true] at h
    simpa [pe, reads] using (pe_s0 a f h.1).trans (pe_s0 b (pe a f) h.2)
  | .sub a b, f, h => by
    simp only [s0, Bool.and_eq_true] at h
    simpa [pe, reads] using (pe_s0 a f h.1).trans (pe_s0 b (pe a f) h.2)
  | .lt a b, f, h => by
    simp only [s0, Bool.and_eq_true] at h
    simpa [pe, reads] using (pe_s0 a f h.1).trans (pe_s0 b (pe a f) h.2)
  | .paren e, f, h => by
    simp only [s0] at h
    simpa [pe, reads] using pe_s0 e f h
  | .ite c t e, f, h => by
    simp only [s0, Bool.and_eq_true] at h
    have s1 := pe_s0 c f h.1.1
    have s2 := (pe_s0 t (pe c f) h.1.2).trans (Step.finalize _)
    have s3 := (pe_s0 e (pe t (pe c f)).finalize h.2).trans (Step.finalize _)
    have := s1.trans (s2.trans s3)
    simpa [pe, reads] using this
  | .assign _ _, _, h => by simp [s0] at h
  | .fn _ _, _, h => by simp [s0] at h
  | .call g args, f, h => by
    simp only [s0] at h
    have := (Step.access f g).trans (peArgs_s0 args (f.access g) h)
    simpa [pe, reads] using this
theorem peArgs_s0 : ∀ (es : List Ex) (f : PFrame), s0Args es = true → Step f (peArgs es f) (readsArgs es)
  | [], f, _ => by simpa [peArgs, readsArgs] using Step.refl f
  | e :: es, f, h => by
    simp only [s0Args, Bool.and_eq_true] at h
    simpa [peArgs, readsArgs] using (pe_s0 e f h.1).trans (peArgs_s0 es (pe e f) h.2)
end

mutual
/-- the declaratively free names of an `s0` expression are reads of unbound names -/
theorem fv_s0 : ∀ (e : Ex) (bd : List Name), s0 e = true →
    (fv e bd).2 = bd ∧ ∀ y, y ∈ (fv e bd).1 → (y ∈ reads e ∧ y ∉ bd)
  | .lit _, bd, _ => by simp [fv, reads]
  | .var x, bd, _ => by
    simp only [fv, reads, true_and]
    intro y hy
    by_cases hb : bd.contains x = true
    · rw [if_pos hb] at hy; cases hy
    · rw [if_neg hb] at hy
      simp only [List.mem_singleton] at hy
      subst hy
      exact ⟨List.mem_singleton.mpr rfl, by simpa using hb⟩
  | .add a b, bd, h => by
    simp only [s0, Bool.and_eq_true] at h
    obtain ⟨a1, a2⟩ := fv_s0 a bd h.1
    obtain ⟨b1, b2⟩ := fv_s0 b bd h.2
    simp only [fv, reads]
    rw [a1] at *
    refine ⟨b1, fun y hy => ?_⟩
    rw [mem_union] at hy
    rcases hy with hy | hy
    · exact ⟨List.mem_append.mpr (Or.inl (a2 y hy).1), (a2 y hy).2⟩
    · exact ⟨List.mem_append.mpr (Or.inr (b2 y hy).1), (b2 y hy).2⟩
  | .sub a b, bd, h => by
    simp only [s0, Bool.and_eq_true] at h
    obtain ⟨a1, a2⟩ := fv_s0 a bd h.1
    obtain ⟨b1, b2⟩ := fv_s0 b bd h.2
    simp only [fv, reads]
    rw [a1] at *
    refine ⟨b1, fun y hy => ?_⟩
    rw [mem_union] at hy
    rcases hy with hy | hy
    · exact ⟨List.mem_append.mpr (Or.inl (a2 y hy).1), (a2 y hy).2⟩
    · exact ⟨List.mem_append.mpr (Or.inr (b2 y hy).1), (b2 y hy).2⟩
  | .lt a b, bd, h => by
    simp only [s0, Bool.and_eq_true] at h
    obtain ⟨a1, a2⟩ := fv_s0 a bd h.1
    obtain ⟨b1, b2⟩ := fv_s0 b bd h.2
    simp only [fv, reads]
    rw [a1] at *
    refine ⟨b1, fun y hy => ?_⟩
    rw [mem_union] at hy
    rcases hy with hy | hy
    · exact ⟨List.mem_append.mpr (Or.inl (a2 y hy).1), (a2 y hy).2⟩
    · exact ⟨List.mem_append.mpr (Or.inr (b2 y hy).1), (b2 y hy).2⟩
  | .paren e, bd, h => by
    simp only [s0] at h
    simpa [fv, reads] using fv_s0 e bd h
  | .ite c t e, bd, h => by
    simp only [s0, Bool.and_eq_true] at h
    obtain ⟨c1, c2⟩ := fv_s0 c bd h.1.1
    obtain ⟨t1, t2⟩ := fv_s0 t bd h.1.2
    obtain ⟨e1, e2⟩ := fv_s0 e bd h.2
    simp only [fv, reads]
    rw [c1] at *
    rw [t1] at *
    refine ⟨e1, fun y hy => ?_⟩
    rw [mem_union, mem_union] at hy
    rcases hy with (hy | hy) | hy
    · exact ⟨List.mem_append.mpr (Or.inl (c2 y hy).1), (c2 y hy).2⟩
    · exact ⟨List.mem_append.mpr (Or.inr (List.mem_append.mpr (Or.inl (t2 y hy).1))), (t2 y hy).2⟩
    · exact ⟨List.mem_append.mpr (Or.inr (List.mem_append.mpr (Or.inr (e2 y hy).1))), (e2 y hy).2⟩
  | .assign _ _, _, h => by simp [s0] at h
  | .fn _ _, _, h => by simp [s0] at h
  | .call g args, bd, h => by
    simp only [s0] at h
    obtain ⟨a1, a2⟩ := fvArgs_s0 args bd h
    simp only [fv, reads]
    refine ⟨a1, fun y hy => ?_⟩
    rw [mem_union] at hy
    rcases hy with hy | hy
    · by_cases hb : bd.contains g = true
      · rw [if_pos hb] at hy; cases hy
      · rw [if_neg hb] at hy
        simp only [List.mem_singleton] at hy
        subst hy
        exact ⟨List.mem_cons_self, by simpa using hb⟩
    · exact ⟨List.mem_cons_of_mem _ (a2 y hy).1, (a2 y hy).2⟩
theorem fvArgs_s0 : ∀ (es : List Ex) (bd : List Name), s0Args es = true →
    (fvArgs es bd).2 = bd ∧ ∀ y, y ∈ (fvArgs es bd).1 → (y ∈ readsArgs es ∧ y ∉ bd)
  | [], bd, _ => by simp [fvArgs, readsArgs]
  | e :: es, bd, h => by
    simp only [s0Args, Bool.and_eq_true] at h
    obtain ⟨a1, a2⟩ := fv_s0 e bd h.1
    obtain ⟨b1, b2⟩ := fvArgs_s0 es bd h.2
    simp only [fvArgs, readsArgs]
    rw [a1] at *
    refine ⟨b1, fun y hy => ?_⟩
    rw [mem_union] at hy
    rcases hy with hy | hy
    · exact ⟨List.mem_append.mpr (Or.inl (a2 y hy).1), (a2 y hy).2⟩
    · exact ⟨List.mem_append.mpr (Or.inr (b2 y hy).1), (b2 y hy).2⟩
end

/-- a line of a body with inline `if`s and calls: an `s0` expression, or `x = e` with `e` an `s0`
expression (which may read `x` anywhere, also after nested expression lists) -/
def iteLine : Ex → Bool
  | .assign _ e => s0 e
  | e => s0 e

def iteBlock : List Ex → Bool
  | [] => true
  | l :: ls => iteLine l && iteBlock ls

theorem fv_assign_s0 (x : Name) (e : Ex) (bd : List Name) (h : s0 e = true) :
    fv (.assign x e) bd = ((fv e bd).1, ins x (fv e bd).2) := by
  cases e <;> simp [s0] at h <;> simp [fv]

theorem exprLine_step (e : Ex) (f : PFrame) (bd : List Name) (hs : s0 e = true) (inv : LineInv f bd) :
    LineInv (pe e f).finalize (fv e bd).2
    ∧ (∀ y, y ∈ f.nonLocals → y ∈ (pe e f).finalize.nonLocals)
    ∧ (∀ y, y ∈ (fv e bd).1 → y ∈ (pe e f).finalize.nonLocals) := by
  obtain ⟨i1, i2, i3⟩ := inv
  have S := (pe_s0 e f hs).trans (Step.finalize _)
  obtain ⟨q1, q2⟩ := fv_s0 e bd hs
  refine ⟨⟨rfl, rfl, fun y => ?_⟩, S.nl_mono, fun y hy => ?_⟩
  · rw [q1]
    constructor
    · intro h
      rcases S.asg_sub y h with h | h
      · exact (i3 y).mp h
      · rw [i2] at h; cases h
    · intro h; exact S.asg_mono y ((i3 y).mpr h)
  · obtain ⟨r1, r2⟩ := q2 y hy
    have := S.rec_new y (by rw [i2]; exact fun h => by cases h) (List.mem_append.mpr (Or.inl r1))
      (fun h => r2 ((i3 y).mp h))
    rcases this with h | ⟨h, _⟩
    · exact h
    · simp [PFrame.finalize] at h

theorem iteLine_step (l : Ex) (f : PFrame) (bd : List Name) (h : iteLine l = true)
    (inv : LineInv f bd) :
    LineInv (pe l f).finalize (fv l bd).2
    ∧ (∀ y, y ∈ f.nonLocals → y ∈ (pe l f).finalize.nonLocals)
    ∧ (∀ y, y ∈ (fv l bd).1 → y ∈ (pe l f).finalize.nonLocals) := by
  cases l with
  | assign x e =>
    have hs : s0 e = true := h
    obtain ⟨i1, i2, i3⟩ := inv
    -- the frame in which the right-hand side is parsed: `x` is in progress, nothing is pending
    let g : PFrame := ((f.access x).assignId x).beginRhs
    have hgAcc : g.pendAcc = [] := by
      simp [g, PFrame.beginRhs, PFrame.access, PFrame.assignId, i1]
    have hgAsg : g.pendAsg = [] := rfl
    have hgA : g.assigned = f.assigned := rfl
    have hgN : g.nonLocals = f.nonLocals := rfl
    have hids : ((f.access x).assignId x).pendAsg = [x] := by
      simp [PFrame.access, PFrame.assignId, i2, ins]
    have S := (pe_s0 e g hs).trans (Step.finalize _)
    obtain ⟨q1, q2⟩ := fv_s0 e bd hs
    rw [fv_assign_s0 x e bd hs]
    have hpe : pe (.assign x e) f = ((pe e g).finalize).endRhs [x] := by
      simp only [pe, hids, g]
    rw [hpe]
    have hfin : (((pe e g).finalize).endRhs [x]).finalize = ((pe e g).finalize).endRhs [x] := by
      simp [PFrame.finalize, PFrame.endRhs, union]
    rw [hfin]
    refine ⟨⟨rfl, rfl, fun y => ?_⟩, fun y hy => ?_, fun y hy => ?_⟩
    · simp only [PFrame.endRhs, mem_union, q1, mem_ins, List.mem_singleton]
      constructor
      · rintro (hh | rfl)
        · rcases S.asg_sub y hh with h1 | h1
          · exact Or.inr ((i3 y).mp (hgA ▸ h1))
          · rw [hgAsg] at h1; cases h1
        · exact Or.inl rfl
      · rintro (rfl | hh)
        · exact Or.inr rfl
        · exact Or.inl (S.asg_mono y (hgA ▸ (i3 y).mpr hh))
    · exact S.nl_mono y (hgN ▸ hy)
    · obtain ⟨r1, r2⟩ := q2 y hy
      have := S.rec_new y (by rw [hgAsg]; exact fun hh => by cases hh) (List.mem_append.mpr (Or.inl r1))
        (fun hh => r2 ((i3 y).mp (hgA ▸ hh)))
      rcases this with h1 | ⟨h1, _⟩
      · exact h1
      · simp [PFrame.finalize] at h1
  | lit n => exact exprLine_step _ f bd h inv
  | var z => exact exprLine_step _ f bd h inv
  | add a b => exact exprLine_step _ f bd h inv
  | sub a b => exact exprLine_step _ f bd h inv
  | lt a b => exact exprLine_step _ f bd h inv
  | paren e => exact exprLine_step _ f bd h inv
  | ite c t e => exact exprLine_step _ f bd h inv
  | call g args => exact exprLine_step _ f bd h inv
  | fn _ _ => simp [iteLine, s0] at h

theorem iteBlock_complete : ∀ (ls : List Ex) (f : PFrame) (bd : List Name),
    iteBlock ls = true → LineInv f bd →
    (∀ y, y ∈ f.nonLocals → y ∈ (peBlock ls f).nonLocals)
    ∧ (∀ y, y ∈ (fvBlock ls bd).1 → y ∈ (peBlock ls f).nonLocals)
  | [], f, bd, _, _ => by simp [peBlock, fvBlock]
  | l :: ls, f, bd, h, inv => by
    simp only [iteBlock, Bool.and_eq_true] at h
    obtain ⟨s1, s2, s3⟩ := iteLine_step l f bd h.1 inv
    obtain ⟨r1, r2⟩ := iteBlock_complete ls (pe l f).finalize (fv l bd).2 h.2 s1
    simp only [peBlock, fvBlock]
    refine ⟨fun y hy => r1 y (s2 y hy), fun y hy => ?_⟩
    rw [mem_union] at hy
    cases hy with
    | inl hy => exact r1 y (s3 y hy)
    | inr hy => exact r2 y hy

/-! ### the general case: assignments nested in expressions, nested function literals

The only exclusion (`okBlock`): a function literal must not have an *in-progress assignment target*
among its declaratively free names — except the function that is itself the right-hand side of
`x = |…| …`, whose `x` is the deferred self reference. Inside the right-hand side of `x = e` the
parser leaves every nested function's `x` to that deferred capture (known finding F-C02-8). -/

/-- the full-strength statement: every declaratively free variable of every function is in the
parser's `accessed_non_locals` -/
def CaptureComplete : Prop :=
  ∀ (ps : List Name) (body : List Ex) (x : Name), x ∈ freeVars ps body → x ∈ accessed ps body

/-- no name of `T` is declaratively free in `|ps| body` -/
def noFree (T ps : List Name) (body : List Ex) : Bool :=
  T.all (fun z => !(freeVars ps body).contains z)

mutual
/-- `T` = assignment targets whose right-hand side is being parsed -/
def okE (T : List Name) : Ex → Bool
  | .lit _ => true
  | .var _ => true
  | .add a b => okE T a && okE T b
  | .sub a b => okE T a && okE T b
  | .lt a b => okE T a && okE T b
  | .paren e => okE T e
  | .ite c t e => okE T c && okE T t && okE T e
  | .assign _ (.fn ps body) => noFree T ps body && okBlock body
  | .assign x e => okE (x :: T) e
  | .fn ps body => noFree T ps body && okBlock body
  | .call _ args => okArgs T args
def okArgs (T : List Name) : List Ex → Bool
  | [] => true
  | e :: es => okE T e && okArgs T es
def okBlock : List Ex → Bool
  | [] => true
  | e :: es => okE [] e && okBlock es
end

/-- frame and bound names agree, nothing is a pending assignment -/
def Sim (f : PFrame) (bd : List Name) : Prop := f.pendAsg = [] ∧ ∀ y, y ∈ f.assigned ↔ y ∈ bd

/-- effect of parsing a piece with declaratively free names `fr`, bound names `bd ↦ bd'` -/
structure G (f f' : PFrame) (bd' fr : List Name) : Prop where
  sim : Sim f' bd'
  keep : ∀ y, Recd f y → Recd f' y
  new : ∀ y, y ∈ fr → Recd f' y
  prog : ∀ z, z ∈ f'.inProg → z ∈ f.inProg

theorem G.refl (f : PFrame) (bd : List Name) (h : Sim f bd) : G f f bd [] :=
  ⟨h, fun _ h => h, fun _ h => (by cases h), fun _ h => h⟩

theorem G.trans {f f1 f2 : PFrame} {b1 b2 r1 r2 : List Name} (g1 : G f f1 b1 r1) (g2 : G f1 f2 b2 r2) :
    G f f2 b2 (union r1 r2) :=
  ⟨g2.sim, fun y h => g2.keep y (g1.keep y h),
   fun y h => by
     rcases (mem_union r1 r2 y).mp h with h | h
     · exact g2.keep y (g1.new y h)
     · exact g2.new y h,
   fun z h => g1.prog z (g2.prog z h)⟩

theorem G.weaken {f f' : PFrame} {b r r' : List Name} (g : G f f' b r) (h : ∀ y, y ∈ r' → y ∈ r) :
    G f f' b r' :=
  ⟨g.sim, g.keep, fun y hy => g.new y (h y hy), g.prog⟩

theorem G.access (f : PFrame) (bd : List Name) (x : Name) (h : Sim f bd) :
    G f (f.access x) bd (if bd.contains x then [] else [x]) where
  sim := h
  keep y hy := by
    rcases hy with hy | ⟨h1, h2⟩
    · exact Or.inl hy
    · exact Or.inr ⟨List.mem_append.mpr (Or.inl h1), h2⟩
  new y hy := by
    by_cases hb : bd.contains x = true
    · rw [if_pos hb] at hy; cases hy
    · rw [if_neg hb] at hy
      simp only [List.mem_singleton] at hy
      subst hy
      refine Or.inr ⟨List.mem_append.mpr (Or.inr (List.mem_singleton.mpr rfl)), fun hh => ?_⟩
      exact hb (by simpa using (h.2 y).mp hh)
  prog _ hz := hz

theorem G.finalize (f : PFrame) (bd : List Name) (h : Sim f bd) : G f f.finalize bd [] where
  sim := by
    refine ⟨rfl, fun y => ?_⟩
    simp only [PFrame.finalize, h.1, mem_union]
    rw [← h.2 y]; simp
  keep y hy := by
    rcases hy with hy | ⟨h1, h2⟩
    · exact Or.inl (by simp only [PFrame.finalize, mem_union]; exact Or.inl hy)
    · refine Or.inl ?_
      simp only [PFrame.finalize, mem_union]
      right
      rw [List.mem_filter]
      exact ⟨h1, by simpa using h2⟩
  new _ hy := by cases hy
  prog _ hz := hz

/-- after a finalize nothing is pending: recorded = in `nonLocals` -/
theorem recd_finalized (f : PFrame) (y : Name) (h : Recd f.finalize y) : y ∈ f.finalize.nonLocals := by
  rcases h with h | ⟨h, _⟩
  · exact h
  · simp [PFrame.finalize] at h

theorem addNested_spec (ns : List Name) : ∀ (g : PFrame), g.pendAsg = [] →
    (g.addNested ns).assigned = g.assigned ∧ (g.addNested ns).nonLocals = g.nonLocals
    ∧ (g.addNested ns).pendAsg = [] ∧ (g.addNested ns).inProg = g.inProg
    ∧ (∀ y, y ∈ g.pendAcc → y ∈ (g.addNested ns).pendAcc)
    ∧ (∀ y, y ∈ ns → y ∉ g.inProg → y ∈ (g.addNested ns).pendAcc) := by
  induction ns with
  | nil => intro g hg; simp [PFrame.addNested, hg]
  | cons n ns ih =>
    intro g hg
    have hstep : g.addNested (n :: ns)
        = (if g.pendAsg.contains n || g.inProg.contains n then g else g.access n).addNested ns := by
      simp [PFrame.addNested]
    rw [hstep]
    by_cases hc : (g.pendAsg.contains n || g.inProg.contains n) = true
    · rw [if_pos hc]
      obtain ⟨a1, a2, a3, a4, a5, a6⟩ := ih g hg
      refine ⟨a1, a2, a3, a4, a5, fun y hy hni => ?_⟩
      rcases List.mem_cons.mp hy with rfl | hy
      · exfalso
        simp only [hg, List.contains_nil, Bool.false_or] at hc
        exact hni (by simpa using hc)
      · exact a6 y hy hni
    · rw [if_neg hc]
      obtain ⟨a1, a2, a3, a4, a5, a6⟩ := ih (g.access n) hg
      refine ⟨a1, a2, a3, a4, fun y hy => a5 y (List.mem_append.mpr (Or.inl hy)), fun y hy hni => ?_⟩
      rcases List.mem_cons.mp hy with rfl | hy
      · exact a5 y (List.mem_append.mpr (Or.inr (List.mem_singleton.mpr rfl)))
      · exact a6 y hy hni

/-- a function literal whose free names are all in `acc`, none of them in progress -/
theorem G.nested (f : PFrame) (bd acc fr : List Name) (h : Sim f bd)
    (hacc : ∀ y, y ∈ fr → y ∈ acc) (hprog : ∀ y, y ∈ fr → y ∉ f.inProg)
    (hbd : ∀ y, y ∈ fr → y ∉ bd) :
    G f (f.addNested acc) bd fr := by
  obtain ⟨a1, a2, a3, a4, a5, a6⟩ := addNested_spec acc f h.1
  refine ⟨⟨a3, fun y => by rw [a1]; exact h.2 y⟩, fun y hy => ?_, fun y hy => ?_, fun z hz => by rw [a4] at hz; exact hz⟩
  · rcases hy with hy | ⟨h1, h2⟩
    · exact Or.inl (by rw [a2]; exact hy)
    · exact Or.inr ⟨a5 y h1, by rw [a1]; exact h2⟩
  · exact Or.inr ⟨a6 y (hacc y hy) (hprog y hy), by rw [a1]; exact fun hh => hbd y hy ((h.2 y).mp hh)⟩

/-- the frame in which the right-hand side of `x = …` is parsed -/
def rhsFrame (f : PFrame) (x : Name) : PFrame := ((f.access x).assignId x).beginRhs

theorem rhsFrame_spec (f : PFrame) (bd : List Name) (x : Name) (h : Sim f bd) :
    Sim (rhsFrame f x) bd ∧ ((f.access x).assignId x).pendAsg = [x]
    ∧ (∀ y, Recd f y → Recd (rhsFrame f x) y)
    ∧ (∀ z, z ∈ (rhsFrame f x).inProg → z ∈ f.inProg ∨ z = x) := by
  have hids : ((f.access x).assignId x).pendAsg = [x] := by
    simp [PFrame.access, PFrame.assignId, h.1, ins]
  refine ⟨⟨rfl, h.2⟩, hids, fun y hy => ?_, fun z hz => ?_⟩
  · rcases hy with hy | ⟨h1, h2⟩
    · exact Or.inl hy
    · refine Or.inr ⟨?_, h2⟩
      show y ∈ (f.pendAcc ++ [x]).erase x
      exact (mem_erase_append_self f.pendAcc x y).mpr h1
  · have : z ∈ union f.inProg ((f.access x).assignId x).pendAsg := hz
    rw [hids, mem_union] at this
    rcases this with h1 | h1
    · exact Or.inl h1
    · exact Or.inr (List.mem_singleton.mp h1)

/-- completing `x = rhs`: finalize, then the target becomes assigned -/
theorem G.assign (f g : PFrame) (bd bd1 fr : List Name) (x : Name) (h : Sim f bd)
    (hg : G (rhsFrame f x) g bd1 fr) :
    G f (g.finalize.endRhs [x]) (ins x bd1) fr := by
  obtain ⟨s1, _, s3, s4⟩ := rhsFrame_spec f bd x h
  have gf := G.finalize g bd1 hg.sim
  refine ⟨⟨rfl, fun y => ?_⟩, fun y hy => ?_, fun y hy => ?_, fun z hz => ?_⟩
  · simp only [PFrame.endRhs, mem_union, mem_ins, List.mem_singleton]
    rw [gf.sim.2 y]
    exact or_comm
  · exact Or.inl (recd_finalized g y (gf.keep y (hg.keep y (s3 y hy))))
  · exact Or.inl (recd_finalized g y (gf.keep y (hg.new y hy)))
  · have hz' : z ∈ g.finalize.inProg ∧ z ≠ x := by
      have : z ∈ g.finalize.inProg.filter (fun w => !([x] : List Name).contains w) := hz
      rw [List.mem_filter] at this
      exact ⟨this.1, by simpa using this.2⟩
    rcases s4 z (hg.prog z (gf.prog z hz'.1)) with h1 | h1
    · exact h1
    · exact absurd h1 hz'.2

theorem pe_assign (x : Name) (e : Ex) (f : PFrame) (hf : f.pendAsg = []) :
    pe (.assign x e) f = ((pe e (rhsFrame f x)).finalize).endRhs [x] := by
  have hids : ((f.access x).assignId x).pendAsg = [x] := by
    simp [PFrame.access, PFrame.assignId, hf, ins]
  simp only [pe, hids, rhsFrame]

theorem inProg_sub_cons {f : PFrame} {T : List Name} {x : Name}
    (hT : ∀ z, z ∈ f.inProg → z ∈ T) (z : Name) (hz : z ∈ f.inProg ∨ z = x) : z ∈ x :: T := by
  rcases hz with hz | rfl
  · exact List.mem_cons_of_mem _ (hT z hz)
  · exact List.mem_cons_self

theorem noFree_spec {T ps : List Name} {body : List Ex} (h : noFree T ps body = true)
    (y : Name) (hy : y ∈ freeVars ps body) : y ∉ T := by
  intro hT
  have := List.all_eq_true.mp h y hT
  simp at this
  exact this hy

theorem assign_nonfn (x : Name) (e : Ex) (f : PFrame) (bd : List Name)
    (hfv : fv (.assign x e) bd = ((fv e bd).1, ins x (fv e bd).2)) (hs : Sim f bd)
    (ih : G (rhsFrame f x) (pe e (rhsFrame f x)) (fv e bd).2 (fv e bd).1) :
    G f (pe (.assign x e) f) (fv (.assign x e) bd).2 (fv (.assign x e) bd).1 := by
  rw [pe_assign x e f hs.1, hfv]
  exact G.assign f _ bd _ _ x hs ih

mutual
theorem pe_ok : ∀ (e : Ex) (T : List Name) (f : PFrame) (bd : List Name),
    okE T e = true → Sim f bd → (∀ z, z ∈ f.inProg → z ∈ T) →
    G f (pe e f) (fv e bd).2 (fv e bd).1
  | .lit _, _, f, bd, _, hs, _ => by simpa [pe, fv] using G.refl f bd hs
  | .var x, _, f, bd, _, hs, _ => by simpa [pe, fv] using G.access f bd x hs
  | .add a b, T, f, bd, ho, hs, hT => by
    simp only [okE, Bool.and_eq_true] at ho
    have g1 := pe_ok a T f bd ho.1 hs hT
    have g2 := pe_ok b T (pe a f) (fv a bd).2 ho.2 g1.sim (fun z hz => hT z (g1.prog z hz))
    simpa [pe, fv] using g1.trans g2
  | .sub a b, T, f, bd, ho, hs, hT => by
    simp only [okE, Bool.and_eq_true] at ho
    have g1 := pe_ok a T f bd ho.1 hs hT
    have g2 := pe_ok b T (pe a f) (fv a bd).2 ho.2 g1.sim (fun z hz => hT z (g1.prog z hz))
    simpa [pe, fv] using g1.trans g2
  | .lt a b, T, f, bd, ho, hs, hT => by
    simp only [okE, Bool.and_eq_true] at ho
    have g1 := pe_ok a T f bd ho.1 hs hT
    have g2 := pe_ok b T (pe a f) (fv a bd).2 ho.2 g1.sim (fun z hz => hT z (g1.prog z hz))
    simpa [pe, fv] using g1.trans g2
  | .paren e, T, f, bd, ho, hs, hT => by
    simp only [okE] at ho
    simpa [pe, fv] using pe_ok e T f bd ho hs hT
  | .ite c t e, T, f, bd, ho, hs, hT => by
    simp only [okE, Bool.and_eq_true] at ho
    have g1 := pe_ok c T f bd ho.1.1 hs hT
    have g2 := (pe_ok t T (pe c f) (fv c bd).2 ho.1.2 g1.sim (fun z hz => hT z (g1.prog z hz))).trans
      (G.finalize _ _ (pe_ok t T (pe c f) (fv c bd).2 ho.1.2 g1.sim (fun z hz => hT z (g1.prog z hz))).sim)
    have g3 := (pe_ok e T (pe t (pe c f)).finalize (fv t (fv c bd).2).2 ho.2 g2.sim
        (fun z hz => hT z (g1.prog z (g2.prog z hz)))).trans
      (G.finalize _ _ (pe_ok e T (pe t (pe c f)).finalize (fv t (fv c bd).2).2 ho.2 g2.sim
        (fun z hz => hT z (g1.prog z (g2.prog z hz)))).sim)
    have := (g1.trans (g2.trans g3)).weaken (r' := union (union (fv c bd).1 (fv t (fv c bd).2).1) (fv e (fv t (fv c bd).2).2).1)
      (fun y hy => by
        simp only [mem_union] at hy
        rcases hy with (h | h) | h <;> simp [mem_union, h])
    simpa [pe, fv] using this
  | .assign x (.fn ps body), T, f, bd, ho, hs, hT => by
    simp only [okE, Bool.and_eq_true] at ho
    obtain ⟨s1, _, _, s4⟩ := rhsFrame_spec f bd x hs
    have hb := (peBlock_ok body { assigned := ps } ps ho.2 ⟨rfl, fun _ => Iff.rfl⟩ rfl rfl).2
    have hfv : fv (.assign x (.fn ps body)) bd
        = (((fvBlock body ps).1.filter (fun y => !bd.contains y)).filter (· != x), ins x bd) := by
      simp [fv]
    have gn : G (rhsFrame f x) ((rhsFrame f x).addNested (accessed ps body)) bd
        (((fvBlock body ps).1.filter (fun y => !bd.contains y)).filter (· != x)) := by
      refine G.nested _ bd _ _ s1 (fun y hy => ?_) (fun y hy hin => ?_) (fun y hy => ?_)
      · simp only [List.mem_filter] at hy
        exact hb y hy.1.1
      · simp only [List.mem_filter] at hy
        rcases s4 y hin with h1 | h1
        · exact noFree_spec ho.1 y hy.1.1 (hT y h1)
        · simp [h1] at hy
      · simp only [List.mem_filter] at hy
        simpa using hy.1.2
    have hpe : pe (.fn ps body) (rhsFrame f x) = (rhsFrame f x).addNested (accessed ps body) := by
      simp [pe, accessed]
    rw [pe_assign x _ f hs.1, hfv, hpe]
    exact G.assign f _ bd bd _ x hs gn
  | .assign x (.lit n), T, f, bd, ho, hs, hT =>
    assign_nonfn x (.lit n) f bd (by simp [fv]) hs
      (pe_ok (.lit n) (x :: T) (rhsFrame f x) bd (by simpa [okE] using ho) (rhsFrame_spec f bd x hs).1
        (fun z hz => inProg_sub_cons hT z ((rhsFrame_spec f bd x hs).2.2.2 z hz)))
  | .assign x (.var y), T, f, bd, ho, hs, hT =>
    assign_nonfn x (.var y) f bd (by simp [fv]) hs
      (pe_ok (.var y) (x :: T) (rhsFrame f x) bd (by simpa [okE] using ho) (rhsFrame_spec f bd x hs).1
        (fun z hz => inProg_sub_cons hT z ((rhsFrame_spec f bd x hs).2.2.2 z hz)))
  | .assign x (.add a b), T, f, bd, ho, hs, hT =>
    assign_nonfn x (.add a b) f bd (by simp [fv]) hs
      (pe_ok (.add a b) (x :: T) (rhsFrame f x) bd (by simpa [okE] using ho) (rhsFrame_spec f bd x hs).1
        (fun z hz => inProg_sub_cons hT z ((rhsFrame_spec f bd x hs).2.2.2 z hz)))
  | .assign x (.sub a b), T, f, bd, ho, hs, hT =>
    assign_nonfn x (.sub a b) f bd (by simp [fv]) hs
      (pe_ok (.sub a b) (x :: T) (rhsFrame f x) bd (by simpa [okE] using ho) (rhsFrame_spec f bd x hs).1
        (fun z hz => inProg_sub_cons hT z ((rhsFrame_spec f bd x hs).2.2.2 z hz)))
  | .assign x (.lt a b), T, f, bd, ho, hs, hT =>
    assign_nonfn x (.lt a b) f bd (by simp [fv]) hs
      (pe_ok (.lt a b) (x :: T) (rhsFrame f x) bd (by simpa [okE] using ho) (rhsFrame_spec f bd x hs).1
        (fun z hz => inProg_sub_cons hT z ((rhsFrame_spec f bd x hs).2.2.2 z hz)))
  | .assign x (.paren e'), T, f, bd, ho, hs, hT =>
    assign_nonfn x (.paren e') f bd (by simp [fv]) hs
      (pe_ok (.paren e') (x :: T) (rhsFrame f x) bd (by simpa [okE] using ho) (rhsFrame_spec f bd x hs).1
        (fun z hz => inProg_sub_cons hT z ((rhsFrame_spec f bd x hs).2.2.2 z hz)))
  | .assign x (.ite c t e'), T, f, bd, ho, hs, hT =>
    assign_nonfn x (.ite c t e') f bd (by simp [fv]) hs
      (pe_ok (.ite c t e') (x :: T) (rhsFrame f x) bd (by simpa [okE] using ho) (rhsFrame_spec f bd x hs).1
        (fun z hz => inProg_sub_cons hT z ((rhsFrame_spec f bd x hs).2.2.2 z hz)))
  | .assign x (.assign y e'), T, f, bd, ho, hs, hT =>
    assign_nonfn x (.assign y e') f bd (by simp [fv]) hs
      (pe_ok (.assign y e') (x :: T) (rhsFrame f x) bd (by simpa [okE] using ho) (rhsFrame_spec f bd x hs).1
        (fun z hz => inProg_sub_cons hT z ((rhsFrame_spec f bd x hs).2.2.2 z hz)))
  | .assign x (.call g args), T, f, bd, ho, hs, hT =>
    assign_nonfn x (.call g args) f bd (by simp [fv]) hs
      (pe_ok (.call g args) (x :: T) (rhsFrame f x) bd (by simpa [okE] using ho) (rhsFrame_spec f bd x hs).1
        (fun z hz => inProg_sub_cons hT z ((rhsFrame_spec f bd x hs).2.2.2 z hz)))
  | .fn ps body, T, f, bd, ho, hs, hT => by
    simp only [okE, Bool.and_eq_true] at ho
    have hb := (peBlock_ok body { assigned := ps } ps ho.2 ⟨rfl, fun _ => Iff.rfl⟩ rfl rfl).2
    have hfv : fv (.fn ps body) bd = ((fvBlock body ps).1.filter (fun y => !bd.contains y), bd) := by
      simp [fv]
    have hpe : pe (.fn ps body) f = f.addNested (accessed ps body) := by simp [pe, accessed]
    rw [hfv, hpe]
    refine G.nested f bd _ _ hs (fun y hy => ?_) (fun y hy hin => ?_) (fun y hy => ?_)
    · simp only [List.mem_filter] at hy
      exact hb y hy.1
    · simp only [List.mem_filter] at hy
      exact noFree_spec ho.1 y hy.1 (hT y hin)
    · simp only [List.mem_filter] at hy
      simpa using hy.2
  | .call g args, T, f, bd, ho, hs, hT => by
    simp only [okE] at ho
    have g1 := G.access f bd g hs
    have g2 := peArgs_ok args T (f.access g) bd ho g1.sim (fun z hz => hT z (g1.prog z hz))
    simpa [pe, fv] using g1.trans g2
theorem peArgs_ok : ∀ (es : List Ex) (T : List Name) (f : PFrame) (bd : List Name),
    okArgs T es = true → Sim f bd → (∀ z, z ∈ f.inProg → z ∈ T) →
    G f (peArgs es f) (fvArgs es bd).2 (fvArgs es bd).1
  | [], _, f, bd, _, hs, _ => by simpa [peArgs, fvArgs] using G.refl f bd hs
  | e :: es, T, f, bd, ho, hs, hT => by
    simp only [okArgs, Bool.and_eq_true] at ho
    have g1 := pe_ok e T f bd ho.1 hs hT
    have g2 := peArgs_ok es T (pe e f) (fv e bd).2 ho.2 g1.sim (fun z hz => hT z (g1.prog z hz))
    simpa [peArgs, fvArgs] using g1.trans g2
theorem peBlock_ok : ∀ (es : List Ex) (f : PFrame) (bd : List Name),
    okBlock es = true → Sim f bd → f.pendAcc = [] → f.inProg = [] →
    (∀ y, y ∈ f.nonLocals → y ∈ (peBlock es f).nonLocals)
    ∧ (∀ y, y ∈ (fvBlock es bd).1 → y ∈ (peBlock es f).nonLocals)
  | [], f, bd, _, _, _, _ => by simp [peBlock, fvBlock]
  | e :: es, f, bd, ho, hs, hacc, hprog => by
    simp only [okBlock, Bool.and_eq_true] at ho
    have g1 := pe_ok e [] f bd ho.1 hs (fun z hz => by rw [hprog] at hz; cases hz)
    have g := g1.trans (G.finalize _ _ g1.sim)
    have hip : (pe e f).finalize.inProg = [] := by
      apply List.eq_nil_iff_forall_not_mem.mpr
      intro z hz
      have := g.prog z hz
      rw [hprog] at this; cases this
    obtain ⟨r1, r2⟩ := peBlock_ok es (pe e f).finalize (fv e bd).2 ho.2 g.sim rfl hip
    simp only [peBlock, fvBlock]
    refine ⟨fun y hy => r1 y (recd_finalized _ y (g.keep y (Or.inl hy))), fun y hy => ?_⟩
    rcases (mem_union _ _ y).mp hy with hy | hy
    · exact r1 y (recd_finalized _ y (g.new y ((mem_union _ _ y).mpr (Or.inl hy))))
    · exact r2 y hy
end

end KotoVerif.C02
