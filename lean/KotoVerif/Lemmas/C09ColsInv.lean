/-
C09 (columns): the run invariant with exact columns and the induction over the lexer run.

`InvP src b s`: the cursor is at a character boundary `pre`; if the current line starts at byte
offset ≥ `b` then the reported column equals the display column `colAt pre`.  A token that is not
`tokClean` (wide identifier start / tab in whitespace) raises `b` past itself: columns are inexact
for the rest of that line only.
-/
import KotoVerif.Lemmas.C09ColsStep

namespace KotoVerif.Lexer
open KotoVerif.Gen

/-! ### text of a byte range -/

/-- the characters between byte offsets `a` and `b` of `src` (`&src[a..b]`) -/
def textOf (src : List Ch) (a b : Nat) : Option (List Ch) :=
  (dropBytes a src).bind (prefixAt (b - a))

/-- token-local cleanliness of a lexed token in its source: `tokClean` of its kind and text -/
def lexedClean (src : List Ch) (l : Lexed) : Bool :=
  match textOf src l.startByte l.endByte with
  | some t => tokClean l.tok t
  | none => true

theorem textOf_mid (pre t post : List Ch) :
    textOf (pre ++ (t ++ post)) (byteLen pre) (byteLen pre + byteLen t) = some t := by
  unfold textOf
  rw [dropBytes_append]
  have : byteLen pre + byteLen t - byteLen pre = byteLen t := by omega
  simp only [Option.bind_some, this]
  exact prefixAt_append t post

theorem prefixAt_unique {src pre post pre' : List Ch} {n : Nat} (h : src = pre ++ post)
    (hn : byteLen pre = n) (hp : prefixAt n src = some pre') : pre' = pre := by
  rw [h, ← hn, prefixAt_append] at hp
  exact (Option.some.inj hp).symm

theorem prefixAt_zero (cs : List Ch) : prefixAt 0 cs = some [] := by
  cases cs <;> simp [prefixAt]

theorem tokClean_nil (tok : Token) : tokClean tok [] = true := by
  cases tok <;> simp [tokClean]

/-- a zero-length token is clean -/
theorem lexedClean_empty (src : List Ch) (l : Lexed) (h : l.startByte = l.endByte) :
    lexedClean src l = true := by
  unfold lexedClean textOf
  rw [h, Nat.sub_self]
  cases dropBytes l.endByte src with
  | none => simp
  | some r => simp [prefixAt_zero, tokClean_nil]

theorem lexedClean_error (src : List Ch) (l : Lexed) (h : l.tok = .error) :
    lexedClean src l = true := by
  unfold lexedClean
  cases textOf src l.startByte l.endByte with
  | none => rfl
  | some t => simp [h, tokClean]

/-! ### the invariant -/

def InvP (src : List Ch) (b : Nat) (s : St) : Prop :=
  ∃ pre post, src = pre ++ post ∧ byteLen pre = s.cur ∧
    (b ≤ lineStartByte pre → s.span.stop.col = colAt pre) ∧
    ModeOkP s.modes post ∧ NoRawEndBelow s.modes

theorem invP_init (src : List Ch) : InvP src 0 {} :=
  ⟨[], src, by simp, by simp, fun _ => by simp [colAt_nil], by simp [ModeOkP], by intro m hm; simp at hm⟩

theorem InvP.col {src : List Ch} {b : Nat} {s : St} (h : InvP src b s) {pre : List Ch}
    (hp : prefixAt s.cur src = some pre) (hb : b ≤ lineStartByte pre) : s.span.stop.col = colAt pre := by
  obtain ⟨pre0, post, e1, e2, e3, _⟩ := h
  have := prefixAt_unique e1 e2 hp
  subst this
  exact e3 hb

/-- the column after a token with exact position update -/
theorem col_step (pre t : List Ch) (b col : Nat) (h : b ≤ lineStartByte pre → col = colAt pre) :
    b ≤ lineStartByte (pre ++ t) → colFrom col t = colAt (pre ++ t) := by
  intro hb
  rw [colAt_append]
  by_cases hn : nlCount t = 0
  · rw [lineStartByte_append_noNL _ _ hn] at hb
    rw [h hb]
  · exact colFrom_nl t _ _ hn

/-- One step of the lexer, for a non-error token: the consumed text `t`, and either the token is
clean and the invariant is kept, or it is not clean, has no line break, and the invariant holds from
the next line on. -/
theorem stepD_invP (src : List Ch) (b : Nat) (s s' : St) (d : Decision) (ht : TableOk src) (hw : WidthOk src)
    (hinv : InvP src b s) (hstep : stepD src s = some (d, s')) (hne : d.tok ≠ .error) :
    ∃ pre t post', src = pre ++ (t ++ post') ∧ byteLen pre = s.cur ∧ s'.cur = s.cur + byteLen t ∧
      s'.prev = s.cur ∧ s'.span.start = s.span.stop ∧
      (b ≤ lineStartByte pre → s.span.stop.col = colAt pre) ∧
      ((tokClean d.tok t = true ∧ InvP src b s') ∨
       (tokClean d.tok t = false ∧ nlCount t = 0 ∧
         (∃ c ∈ t, (c.idStart = true ∨ c.cp = cpTab) ∧ c.width ≠ 1) ∧ InvP src (s.cur + 1) s')) := by
  obtain ⟨pre, post, hsrc, hcur, hcol, hmo, hnb⟩ := hinv
  unfold stepD at hstep
  have hdrop : dropBytes s.cur src = some post := by rw [hsrc, ← hcur]; exact dropBytes_append pre post
  rw [hdrop] at hstep
  cases post with
  | nil => simp at hstep
  | cons c rest =>
    simp only [Option.some.injEq, Prod.mk.injEq] at hstep
    obtain ⟨hd, hs'⟩ := hstep
    have hr : (resetIndent s).span = s.span ∧ (resetIndent s).modes = s.modes ∧
        (resetIndent s).cur = s.cur ∧ (resetIndent s).prev = s.prev := by
      unfold resetIndent; split <;> simp
    obtain ⟨hr1, hr2, hr3, hr4⟩ := hr
    have htab : TableOk (c :: rest) := by rw [hsrc] at ht; exact ht.of_append
    have hwid : WidthOk (c :: rest) := by rw [hsrc] at hw; exact hw.of_append
    have hok := decideTok_okP (resetIndent s).span.stop (resetIndent s).prevTok (resetIndent s).modes c rest
      htab hwid (by rw [hr2]; exact hmo) (by rw [hr2]; exact hnb) (by rw [hd]; exact hne)
    rw [hd] at hok
    obtain ⟨n, q, k, hm, hk1, hk2, halt, hmo', hnb'⟩ := hok
    rw [hd] at hs'
    have hs'cur : s'.cur = s.cur + n ∧ s'.prev = s.cur ∧ s'.span = ⟨s.span.stop, q⟩ ∧ s'.modes = d.modes := by
      rw [← hs']
      simp [applyDecision, applyMove, hm, hr1, hr3]
    obtain ⟨e1, e2, e3, e4⟩ := hs'cur
    have hsplit : src = pre ++ ((c :: rest).take k ++ (c :: rest).drop k) := by
      rw [List.take_append_drop]; exact hsrc
    have hsplit' : src = (pre ++ (c :: rest).take k) ++ (c :: rest).drop k := by
      rw [List.append_assoc]; exact hsplit
    have hbytes : byteLen (pre ++ (c :: rest).take k) = s'.cur := by
      rw [e1, byteLen_append, hcur, hk2]
    refine ⟨pre, (c :: rest).take k, (c :: rest).drop k, hsplit, hcur, by rw [e1, hk2], e2, by rw [e3], hcol, ?_⟩
    rw [hr1] at halt
    rcases halt with ⟨hc1, hq⟩ | ⟨hc1, hnl, hex⟩
    · left
      refine ⟨hc1, pre ++ (c :: rest).take k, (c :: rest).drop k, hsplit', hbytes, ?_, ?_, ?_⟩
      · rw [e3]
        show b ≤ _ → q.col = _
        rw [hq, posAfter_eq]
        exact col_step pre _ b _ hcol
      · rw [e4]; exact hmo'
      · rw [e4]; exact hnb'
    · right
      refine ⟨hc1, hnl, hex, pre ++ (c :: rest).take k, (c :: rest).drop k, hsplit', hbytes, ?_, ?_, ?_⟩
      · intro hb
        rw [lineStartByte_append_noNL _ _ hnl] at hb
        have := lineStartByte_le pre
        omega
      · rw [e4]; exact hmo'
      · rw [e4]; exact hnb'

/-! ### the run -/

/-- `col` is the display column of byte offset `n`, provided the current line starts at byte ≥ `b`
and every token of `ls` that lies between the start of that line and `n` is clean -/
def ColClaim (src : List Ch) (ls : List Lexed) (b n col : Nat) : Prop :=
  ∀ pre, prefixAt n src = some pre → b ≤ lineStartByte pre →
    (∀ l' ∈ ls, l'.endByte ≤ n → lineStartByte pre ≤ l'.startByte → lexedClean src l' = true) →
    col = colAt pre

theorem colClaim_cons_left {src : List Ch} {h : Lexed} {tail : List Lexed} {b n col : Nat}
    (hc : ColClaim src tail b n col) : ColClaim src (h :: tail) b n col := by
  intro pre hp hb hall
  exact hc pre hp hb (fun l' hl' => hall l' (by simp [hl']))

theorem colClaim_cons_right {src : List Ch} {h : Lexed} {tail : List Lexed} {b n col : Nat}
    (hdirty : lexedClean src h = false) (hle : h.endByte ≤ n)
    (hc : ColClaim src tail (h.startByte + 1) n col) : ColClaim src (h :: tail) b n col := by
  intro pre hp _ hall
  apply hc pre hp ?_ (fun l' hl' => hall l' (by simp [hl']))
  apply Classical.byContradiction
  intro hlt
  have := hall h (by simp) hle (by omega)
  rw [hdirty] at this
  cases this

theorem run_cols (src : List Ch) (ht : TableOk src) (hw : WidthOk src) :
    ∀ fuel s b, InvP src b s → ∀ l ∈ lexFuel src fuel s, l.tok ≠ .error →
      s.cur ≤ l.startByte ∧ l.startByte ≤ l.endByte ∧
      ColClaim src (lexFuel src fuel s) b l.startByte l.span.start.col ∧
      ColClaim src (lexFuel src fuel s) b l.endByte l.span.stop.col := by
  intro fuel
  induction fuel with
  | zero => intro s b _ l hl; simp [lexFuel] at hl
  | succ fuel ih =>
    intro s b hinv l hl hne
    simp only [lexFuel] at hl ⊢
    cases hstep : stepD src s with
    | none => simp [hstep] at hl
    | some ds =>
      obtain ⟨d, s'⟩ := ds
      simp only [hstep] at hl ⊢
      by_cases he : d.tok = .error
      · simp only [he, if_true, List.mem_singleton] at hl
        subst hl
        exact absurd he hne
      · simp only [he, if_false, List.mem_cons] at hl ⊢
        obtain ⟨pre, t, post', hsrc, hcur, hcur', hprev, hstart, hcol, halt⟩ :=
          stepD_invP src b s s' d ht hw hinv hstep he
        have htext : textOf src s.cur s'.cur = some t := by
          rw [hsrc, hcur', ← hcur]; exact textOf_mid pre t post'
        have hclean : lexedClean src (lexedOf d s') = tokClean d.tok t := by
          simp [lexedClean, lexedOf, hprev, htext]
        have hsrc' : src = (pre ++ t) ++ post' := by rw [List.append_assoc]; exact hsrc
        have hbl : byteLen (pre ++ t) = s'.cur := by rw [byteLen_append, hcur, hcur']
        rcases hl with hl | hl
        · -- the head token
          subst hl
          refine ⟨by simp [lexedOf, hprev], by simp [lexedOf, hprev, hcur'], ?_, ?_⟩
          · intro pre0 hp hb _
            have hp' : prefixAt s.cur src = some pre0 := by simpa [lexedOf, hprev] using hp
            have := prefixAt_unique (post := t ++ post') hsrc hcur hp'
            subst this
            simp only [lexedOf, hstart]
            exact hcol hb
          · intro pre0 hp hb hall
            have hp' : prefixAt s'.cur src = some pre0 := by simpa [lexedOf] using hp
            have := prefixAt_unique hsrc' hbl hp'
            subst this
            rcases halt with ⟨_, hinv'⟩ | ⟨hc1, hnl, _, _⟩
            · simp only [lexedOf]
              exact hinv'.col hp' hb
            · exfalso
              have := hall (lexedOf d s') (by simp) (Nat.le_refl _) (by
                rw [lineStartByte_append_noNL _ _ hnl]
                have := lineStartByte_le pre
                simp only [lexedOf, hprev]; omega)
              rw [hclean, hc1] at this
              cases this
        · -- a later token
          rcases halt with ⟨_, hinv'⟩ | ⟨hc1, _, _, hinv'⟩
          · obtain ⟨a1, a2, a3, a4⟩ := ih s' b hinv' l hl hne
            exact ⟨by omega, a2, colClaim_cons_left a3, colClaim_cons_left a4⟩
          · obtain ⟨a1, a2, a3, a4⟩ := ih s' (s.cur + 1) hinv' l hl hne
            have hd : lexedClean src (lexedOf d s') = false := by rw [hclean, hc1]
            have e1 : (lexedOf d s').endByte = s'.cur := rfl
            have e2 : (lexedOf d s').startByte = s.cur := by simp [lexedOf, hprev]
            refine ⟨by omega, a2, ?_, ?_⟩
            · exact colClaim_cons_right hd (by rw [e1]; exact a1) (by rw [e2]; exact a3)
            · exact colClaim_cons_right hd (by rw [e1]; omega) (by rw [e2]; exact a4)

/-- under the coarse source-level exclusion (every character that starts an identifier, and every
tab, has width 1) every token is clean -/
theorem run_clean (src : List Ch) (ht : TableOk src) (hw : WidthOk src)
    (hnarrow : ∀ c ∈ src, (c.idStart = true ∨ c.cp = cpTab) → c.width = 1) :
    ∀ fuel s b, InvP src b s → ∀ l ∈ lexFuel src fuel s, lexedClean src l = true := by
  intro fuel
  induction fuel with
  | zero => intro s b _ l hl; simp [lexFuel] at hl
  | succ fuel ih =>
    intro s b hinv l hl
    simp only [lexFuel] at hl
    cases hstep : stepD src s with
    | none => simp [hstep] at hl
    | some ds =>
      obtain ⟨d, s'⟩ := ds
      simp only [hstep] at hl
      by_cases he : d.tok = .error
      · simp only [he, if_true, List.mem_singleton] at hl
        subst hl
        exact lexedClean_error src _ he
      · simp only [he, if_false, List.mem_cons] at hl
        obtain ⟨pre, t, post', hsrc, hcur, hcur', hprev, _, _, halt⟩ :=
          stepD_invP src b s s' d ht hw hinv hstep he
        have htext : textOf src s.cur s'.cur = some t := by
          rw [hsrc, hcur', ← hcur]; exact textOf_mid pre t post'
        have hclean : lexedClean src (lexedOf d s') = tokClean d.tok t := by
          simp [lexedClean, lexedOf, hprev, htext]
        rcases halt with ⟨hc1, hinv'⟩ | ⟨_, _, ⟨c, hc, hc2, hc3⟩, _⟩
        · rcases hl with hl | hl
          · subst hl; rw [hclean, hc1]
          · exact ih s' b hinv' l hl
        · exact absurd (hnarrow c (by rw [hsrc]; simp [hc]) hc2) hc3

end KotoVerif.Lexer
