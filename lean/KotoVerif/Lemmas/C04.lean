/-
C04 helper lemmas: marker counting for the guide-level evaluator.

`NoEmit m e` — the expression `e` contains no `emit m …`. `noEmit_run`: evaluating a task that
cannot emit `m` (in a program whose definitions cannot emit `m`) leaves the number of `m` markers in
the trace unchanged, whatever the outcome (any signal, any fuel).
-/
import KotoVerif.Model.TryEval

namespace KotoVerif.Try

def countTag (m : Nat) (out : List Ev) : Nat := out.countP (fun e => e.tag == m)

@[simp] theorem countTag_append (m : Nat) (a b : List Ev) :
    countTag m (a ++ b) = countTag m a + countTag m b := by
  simp [countTag, List.countP_append]

inductive NoEmit (m : Nat) : E → Prop where
  | lit v : NoEmit m (.lit v)
  | var x : NoEmit m (.var x)
  | gvar k : NoEmit m (.gvar k)
  | assign x e : NoEmit m e → NoEmit m (.assign x e)
  | emitNone t : t ≠ m → NoEmit m (.emit t none)
  | emitSome t e : t ≠ m → NoEmit m e → NoEmit m (.emit t (some e))
  | emitI t es : t ≠ m → (∀ e ∈ es, NoEmit m e) → NoEmit m (.emitI t es)
  | mkList es : (∀ e ∈ es, NoEmit m e) → NoEmit m (.mkList es)
  | mkObj c : NoEmit m (.mkObj c)
  | index l i : NoEmit m l → NoEmit m i → NoEmit m (.index l i)
  | push l e : NoEmit m l → NoEmit m e → NoEmit m (.push l e)
  | setIdx l i e : NoEmit m l → NoEmit m i → NoEmit m e → NoEmit m (.setIdx l i e)
  | bin op a b : NoEmit m a → NoEmit m b → NoEmit m (.bin op a b)
  | call f args : (∀ e ∈ args, NoEmit m e) → NoEmit m (.call f args)
  | native k f l : NoEmit m l → NoEmit m (.native k f l)
  | throw e : NoEmit m e → NoEmit m (.throw e)
  | fault k : NoEmit m (.fault k)
  | seq es : (∀ e ∈ es, NoEmit m e) → NoEmit m (.seq es)
  | ite c t e : NoEmit m c → NoEmit m t → NoEmit m e → NoEmit m (.ite c t e)
  | forList x l b : NoEmit m l → NoEmit m b → NoEmit m (.forList x l b)
  | forGen x g args b : (∀ e ∈ args, NoEmit m e) → NoEmit m b → NoEmit m (.forGen x g args b)
  | brk : NoEmit m .brk
  | brkV e : NoEmit m e → NoEmit m (.brkV e)
  | cont : NoEmit m .cont
  | ret e : NoEmit m e → NoEmit m (.ret e)
  | try_ b cs fin : NoEmit m b → (∀ c ∈ cs, NoEmit m c.2.2) → (∀ f, fin = some f → NoEmit m f) →
      NoEmit m (.try_ b cs fin)

def DefNoEmit (m : Nat) (d : Def) : Prop :=
  NoEmit m d.body ∧ (∀ s ∈ d.segs, NoEmit m s.1 ∧ NoEmit m s.2) ∧ NoEmit m d.tail

def ProgNoEmit (m : Nat) (P : Prog) : Prop := ∀ d ∈ P.defs, DefNoEmit m d

def TaskNoEmit (m : Nat) : Task → Prop
  | .ev e => NoEmit m e
  | .evs es _ => ∀ e ∈ es, NoEmit m e
  | .seq es _ => ∀ e ∈ es, NoEmit m e
  | .catches cs _ => ∀ c ∈ cs, NoEmit m c.2.2
  | .callF _ _ => True
  | .nat .. => True
  | .disp .. => True
  | .loopL _ _ body => NoEmit m body
  | .loopG _ _ segs tail body => (∀ s ∈ segs, NoEmit m s.1 ∧ NoEmit m s.2) ∧ NoEmit m tail ∧ NoEmit m body

@[simp] theorem setLocal_out (σ : St) (x : Nat) (v : Val) : (setLocal σ x v).out = σ.out := rfl
@[simp] theorem setLocal_heap (σ : St) (x : Nat) (v : Val) : (setLocal σ x v).heap = σ.heap := rfl
@[simp] theorem alloc_out (σ : St) (vs : List Val) : (alloc σ vs).1.out = σ.out := rfl
@[simp] theorem emitEv_out (σ : St) (e : Ev) : (emitEv σ e).out = σ.out ++ [e] := rfl
@[simp] theorem emitEv_heap (σ : St) (e : Ev) : (emitEv σ e).heap = σ.heap := rfl

theorem bindKeys_out (fs : List (Nat × Int)) (ks : List Nat) : ∀ (σ : St) (x : Nat),
    (bindKeys σ x fs ks).out = σ.out := by
  induction ks with
  | nil => intro σ x; rfl
  | cons k ks ih => intro σ x; simp [bindKeys, ih]

theorem bindKeys_heap (fs : List (Nat × Int)) (ks : List Nat) : ∀ (σ : St) (x : Nat),
    (bindKeys σ x fs ks).heap = σ.heap := by
  induction ks with
  | nil => intro σ x; rfl
  | cons k ks ih => intro σ x; simp [bindKeys, ih]

@[simp] theorem bindCatch_out (σ : St) (ty : Option Ty) (x : Nat) (v : Val) :
    (bindCatch σ ty x v).out = σ.out := by
  unfold bindCatch
  split
  · exact bindKeys_out _ _ _ _
  · rfl

@[simp] theorem bindCatch_heap (σ : St) (ty : Option Ty) (x : Nat) (v : Val) :
    (bindCatch σ ty x v).heap = σ.heap := by
  unfold bindCatch
  split
  · exact bindKeys_heap _ _ _ _
  · rfl

/-- anything but a map pattern binds just the catch variable -/
theorem bindCatch_plain (σ : St) (ty : Option Ty) (x : Nat) (v : Val)
    (h : ∀ ks, ty ≠ some (.keys ks)) : bindCatch σ ty x v = setLocal σ x v := by
  unfold bindCatch
  split
  · rename_i ks fs
    exact absurd rfl (h ks)
  · rfl

theorem callResult_out (l : List Val) (r : Res) : (callResult l r).2.out = r.2.out := by
  obtain ⟨s, σ⟩ := r
  cases s <;> rfl

theorem callResult_heap (l : List Val) (r : Res) : (callResult l r).2.heap = r.2.heap := by
  obtain ⟨s, σ⟩ := r
  cases s <;> rfl

theorem finish_out (p : Sig) (r : Res) : (finish p r).2.out = r.2.out := by
  obtain ⟨s, σ⟩ := r
  cases s <;> cases p <;> rfl

attribute [grind =] setLocal_out alloc_out emitEv_out countTag_append callResult_out finish_out bindCatch_out

theorem mem2 {m : Nat} {a b : E} (ha : NoEmit m a) (hb : NoEmit m b) : ∀ e ∈ [a, b], NoEmit m e := by
  intro e he; simp at he; rcases he with rfl | rfl <;> assumption
theorem mem3 {m : Nat} {a b c : E} (ha : NoEmit m a) (hb : NoEmit m b) (hc : NoEmit m c) :
    ∀ e ∈ [a, b, c], NoEmit m e := by
  intro e he; simp at he; rcases he with rfl | rfl | rfl <;> assumption

theorem countTag_single_ne (m t : Nat) (a : Option Shown) (h : t ≠ m) : countTag m [⟨t, a⟩] = 0 := by
  simp [countTag, h]

/-- A task that cannot emit `m`, in a program whose definitions cannot emit `m`, leaves the number of
`m` markers in the trace unchanged — for every fuel and every outcome. -/
theorem noEmit_run (cfg : Cfg) (P : Prog) (m : Nat) (hP : ProgNoEmit m P) :
    ∀ n t σ s σ', TaskNoEmit m t → run cfg P n t σ = (s, σ') → countTag m σ'.out = countTag m σ.out := by
  intro n
  induction n with
  | zero => intro t σ s σ' _ h; simp [run] at h; rw [← h.2]
  | succ n ih =>
    intro t σ s σ' ht h
    have hc : ∀ f args, TaskNoEmit m (.callF f args) := fun _ _ => trivial
    have hdisp : ∀ todo acc, TaskNoEmit m (.disp todo acc) := fun _ _ => trivial
    have hn : ∀ k f r items accL accV, TaskNoEmit m (.nat k f r items accL accV) := fun _ _ _ _ _ _ => trivial
    cases t with
    | ev e =>
      cases ht with
      | lit v => simp only [run] at h; grind
      | var x => simp only [run] at h; grind
      | gvar x => simp only [run] at h; grind
      | assign x e he =>
        simp only [run] at h
        have hev : TaskNoEmit m (.ev e) := he
        (repeat' split at h) <;> grind
      | emitNone t hne =>
        simp only [run] at h
        have := countTag_single_ne m t none hne
        grind
      | emitSome t e hne he =>
        simp only [run] at h
        have hev : TaskNoEmit m (.ev e) := he
        have := fun a => countTag_single_ne m t a hne
        (repeat' split at h) <;> grind
      | emitI t es hne hes =>
        simp only [run] at h
        have hev : ∀ acc, TaskNoEmit m (.evs es acc) := fun _ => hes
        have := fun a => countTag_single_ne m t a hne
        (repeat' split at h) <;> grind
      | mkList es hes =>
        simp only [run] at h
        have hev : ∀ acc, TaskNoEmit m (.evs es acc) := fun _ => hes
        (repeat' split at h) <;> grind
      | mkObj c => simp only [run] at h; grind
      | index l i hl hi =>
        simp only [run] at h
        have hev : TaskNoEmit m (.evs [l, i] []) := mem2 hl hi
        (repeat' split at h) <;> grind
      | push l e hl he =>
        simp only [run] at h
        have hev : TaskNoEmit m (.evs [l, e] []) := mem2 hl he
        (repeat' split at h) <;> grind
      | setIdx l i e hl hi he =>
        simp only [run] at h
        have hev : TaskNoEmit m (.evs [l, i, e] []) := mem3 hl hi he
        (repeat' split at h) <;> grind
      | bin op a b ha hb =>
        simp only [run] at h
        have hev : TaskNoEmit m (.evs [a, b] []) := mem2 ha hb
        (repeat' split at h) <;> grind
      | call f args hargs =>
        simp only [run] at h
        have hev : ∀ acc, TaskNoEmit m (.evs args acc) := fun _ => hargs
        (repeat' split at h) <;> grind
      | native k f l hl =>
        simp only [run] at h
        have hev : TaskNoEmit m (.ev l) := hl
        (repeat' split at h) <;> grind
      | throw e he =>
        simp only [run] at h
        have hev : TaskNoEmit m (.ev e) := he
        (repeat' split at h) <;> grind
      | fault k => simp only [run] at h; grind
      | seq es hes =>
        simp only [run] at h
        have hev : ∀ l, TaskNoEmit m (.seq es l) := fun _ => hes
        grind
      | ite c t e hc' ht' he' =>
        simp only [run] at h
        have h1 : TaskNoEmit m (.ev c) := hc'
        have h2 : TaskNoEmit m (.ev t) := ht'
        have h3 : TaskNoEmit m (.ev e) := he'
        (repeat' split at h) <;> grind
      | forList x l b hl hb =>
        simp only [run] at h
        have h1 : TaskNoEmit m (.ev l) := hl
        have h2 : ∀ items, TaskNoEmit m (.loopL x items b) := fun _ => hb
        (repeat' split at h) <;> grind
      | forGen x g args b hargs hb =>
        simp only [run] at h
        have h1 : ∀ acc, TaskNoEmit m (.evs args acc) := fun _ => hargs
        have h2 : ∀ d, P.defs[g]? = some d → ∀ gl, TaskNoEmit m (.loopG x gl d.segs d.tail b) := by
          intro d hd gl
          have := hP d (List.mem_of_getElem? hd)
          exact ⟨this.2.1, this.2.2, hb⟩
        (repeat' split at h) <;> grind
      | brk => simp only [run] at h; grind
      | brkV e he =>
        simp only [run] at h
        have hev : TaskNoEmit m (.ev e) := he
        (repeat' split at h) <;> grind
      | cont => simp only [run] at h; grind
      | ret e he =>
        simp only [run] at h
        have hev : TaskNoEmit m (.ev e) := he
        (repeat' split at h) <;> grind
      | try_ b cs fin hb hcs hfin =>
        simp only [run] at h
        have h1 : TaskNoEmit m (.ev b) := hb
        have h2 : ∀ v, TaskNoEmit m (.catches cs v) := fun _ => hcs
        have h3 : ∀ f, fin = some f → TaskNoEmit m (.ev f) := hfin
        simp only [catchWith, thenFinally] at h
        (repeat' split at h) <;> grind
    | evs es acc =>
      cases es with
      | nil => simp only [run] at h; grind
      | cons e rest =>
        simp only [run] at h
        have h1 : TaskNoEmit m (.ev e) := ht e (by simp)
        have h2 : ∀ acc, TaskNoEmit m (.evs rest acc) := fun _ e he => ht e (by simp [he])
        (repeat' split at h) <;> grind
    | seq es last =>
      cases es with
      | nil => simp only [run] at h; grind
      | cons e rest =>
        simp only [run] at h
        have h1 : TaskNoEmit m (.ev e) := ht e (by simp)
        have h2 : ∀ l, TaskNoEmit m (.seq rest l) := fun _ e he => ht e (by simp [he])
        (repeat' split at h) <;> grind
    | catches cs v =>
      cases cs with
      | nil => simp only [run] at h; grind
      | cons c rest =>
        obtain ⟨ty, x, body⟩ := c
        simp only [run] at h
        have h1 : TaskNoEmit m (.ev body) := ht (ty, x, body) (by simp)
        have h2 : ∀ v, TaskNoEmit m (.catches rest v) := fun _ c hc => ht c (by simp [hc])
        (repeat' split at h) <;> grind
    | callF f args =>
      simp only [run] at h
      have h2 : ∀ d, P.defs[f]? = some d → TaskNoEmit m (.ev d.body) := by
        intro d hd
        exact (hP d (List.mem_of_getElem? hd)).1
      (repeat' split at h) <;> grind
    | nat k f r items accL accV =>
      cases items with
      | nil => simp only [run] at h; (repeat' split at h) <;> grind
      | cons it rest =>
        simp only [run] at h
        (repeat' split at h) <;> grind
    | disp todo acc =>
      have hd : ∀ todo acc, TaskNoEmit m (.disp todo acc) := fun _ _ => trivial
      simp only [run] at h
      (repeat' split at h) <;> grind
    | loopL x items body =>
      cases items with
      | nil => simp only [run] at h; grind
      | cons it rest =>
        simp only [run] at h
        have h1 : TaskNoEmit m (.ev body) := ht
        have h2 : ∀ items, TaskNoEmit m (.loopL x items body) := fun _ => ht
        (repeat' split at h) <;> grind
    | loopG x gl segs tail body =>
      cases segs with
      | nil =>
        simp only [run] at h
        have h1 : TaskNoEmit m (.ev tail) := ht.2.1
        (repeat' split at h) <;> grind
      | cons sg rest =>
        obtain ⟨pre, yv⟩ := sg
        simp only [run] at h
        have h0 := ht.1 (pre, yv) (by simp)
        have h1 : ∀ l, TaskNoEmit m (.seq [pre, yv] l) := fun _ => mem2 h0.1 h0.2
        have h2 : TaskNoEmit m (.ev body) := ht.2.2
        have h3 : ∀ gl, TaskNoEmit m (.loopG x gl rest tail body) :=
          fun _ => ⟨fun s hs => ht.1 s (by simp [hs]), ht.2.1, ht.2.2⟩
        (repeat' split at h) <;> grind

end KotoVerif.Try
