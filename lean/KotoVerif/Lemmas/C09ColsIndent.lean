/-
C09 (indent): the indent reported with a token is the leading-whitespace count of the line on which
the token starts, as long as that line was begun by the start of input or by a `NewLine` token
(F-C09-2: the indent is only recomputed after a `NewLine` token).
-/
import KotoVerif.Lemmas.C09ColsInv

namespace KotoVerif.Lexer
open KotoVerif.Gen

/-- number of leading whitespace characters (spaces / tabs — the lexer's `is_whitespace`) of the
line that starts at byte offset `ls` of `src` -/
def lineIndent (src : List Ch) (ls : Nat) : Nat :=
  match dropBytes ls src with
  | some line => countWhile isWhitespace line
  | none => 0

/-- the string modes in which `get_next_token` uses the default dispatch -/
def defaultMode (modes : List Mode) : Bool :=
  match modes.head? with
  | none => true
  | some .templateExpr => true
  | some .templateInlineMap => true
  | _ => false

/-- at the start of input or just after a `NewLine` token -/
def Fresh (s : St) : Prop :=
  ((s.prevTok = none ∧ s.indent = 0) ∨ s.prevTok = some .newLine) ∧ defaultMode s.modes = true

/-- the indent is (or is about to be) that of the current line -/
def IndGood (src pre : List Ch) (s : St) : Prop :=
  (Fresh s ∧ lineStartByte pre = byteLen pre) ∨
  (s.prevTok ≠ none ∧ s.prevTok ≠ some .newLine ∧ s.indent = lineIndent src (lineStartByte pre))

/-! ### prefixes of one source -/

theorem byteLen_eq_zero {l : List Ch} (h : byteLen l = 0) : l = [] := by
  cases l with
  | nil => rfl
  | cons c cs => have := c.len_pos; simp at h; omega

theorem prefix_extend {a x b y : List Ch} (h : a ++ x = b ++ y) (hle : byteLen a ≤ byteLen b) :
    ∃ t, b = a ++ t := by
  rcases List.append_eq_append_iff.mp h with ⟨t, h1, _⟩ | ⟨t, h1, _⟩
  · exact ⟨t, h1⟩
  · have : byteLen t = 0 := by rw [h1, byteLen_append] at hle; omega
    have := byteLen_eq_zero this
    subst this
    exact ⟨[], by simpa using h1.symm⟩

theorem prefixAt_extend {src a b : List Ch} {m n : Nat} (ha : prefixAt m src = some a)
    (hb : prefixAt n src = some b) (hle : m ≤ n) : ∃ t, b = a ++ t := by
  obtain ⟨a1, a2, _⟩ := prefixAt_spec _ _ _ ha
  obtain ⟨b1, b2, _⟩ := prefixAt_spec _ _ _ hb
  have e1 : a ++ src.drop a.length = src := by
    have := List.take_append_drop a.length src
    rw [← a1] at this; exact this
  have e2 : b ++ src.drop b.length = src := by
    have := List.take_append_drop b.length src
    rw [← b1] at this; exact this
  exact prefix_extend (e1.trans e2.symm) (by omega)

theorem prefixAt_of_split {src pre post : List Ch} (h : src = pre ++ post) :
    prefixAt (byteLen pre) src = some pre := by
  rw [h]; exact prefixAt_append pre post

/-! ### what one decision does to the indent -/

theorem decideDefault_setIndent (p : Pos) (prevTok : Option Token) (modes : List Mode) (c : Ch) (rest : List Ch) :
    (decideDefault p prevTok modes c rest).setIndent =
      if isWhitespace c.cp = true then
        (if (prevTok == some .newLine || prevTok == none) = true
          then some (countWhile isWhitespace (c :: rest)) else none)
      else none := by
  unfold decideDefault
  simp only
  by_cases h1 : isWhitespace c.cp = true
  · simp only [h1, if_true]
  simp only [h1]
  repeat' split
  all_goals rfl

theorem decideTok_setIndent_default (p : Pos) (prevTok : Option Token) (modes : List Mode) (c : Ch) (rest : List Ch)
    (hm : defaultMode modes = true) :
    decideTok p prevTok modes c rest = decideDefault p prevTok modes c rest := by
  unfold decideTok
  simp only
  unfold defaultMode at hm
  cases hmode : modes.head? with
  | none => rfl
  | some m => cases m <;> simp_all

theorem prevTok_cond_false {prevTok : Option Token} (h1 : prevTok ≠ none) (h2 : prevTok ≠ some .newLine) :
    (prevTok == some Token.newLine || prevTok == none) = false := by
  cases prevTok with
  | none => exact absurd rfl h1
  | some t =>
    have : t ≠ .newLine := fun h => h2 (by rw [h])
    simp [this]

theorem prevTok_cond_true {prevTok : Option Token} (hp : prevTok = none ∨ prevTok = some .newLine) :
    (prevTok == some Token.newLine || prevTok == none) = true := by
  rcases hp with rfl | rfl <;> rfl

theorem decideTok_setIndent_none (p : Pos) (prevTok : Option Token) (modes : List Mode) (c : Ch) (rest : List Ch)
    (h1 : prevTok ≠ none) (h2 : prevTok ≠ some .newLine) :
    (decideTok p prevTok modes c rest).setIndent = none := by
  have hdef : (decideDefault p prevTok modes c rest).setIndent = none := by
    rw [decideDefault_setIndent, prevTok_cond_false h1 h2]
    simp
  unfold decideTok
  simp only
  cases hmode : modes.head? with
  | none => exact hdef
  | some m =>
    cases m with
    | literal q =>
      simp only
      repeat' split
      all_goals rfl
    | templateExpr => exact hdef
    | templateInlineMap => exact hdef
    | templateFormat => rfl
    | rawStart q h => simp only; split <;> rfl
    | rawEnd q h => rfl

theorem decideTok_setIndent_fresh (p : Pos) (prevTok : Option Token) (modes : List Mode) (c : Ch) (rest : List Ch)
    (hm : defaultMode modes = true) (hp : prevTok = none ∨ prevTok = some .newLine) :
    (decideTok p prevTok modes c rest).setIndent.getD 0 = countWhile isWhitespace (c :: rest) := by
  rw [decideTok_setIndent_default _ _ _ _ _ hm, decideDefault_setIndent, prevTok_cond_true hp]
  by_cases h1 : isWhitespace c.cp = true
  · simp [h1]
  · simp [h1, countWhile]

/-! ### NewLine decisions -/

theorem consumeNewline_shape (p : Pos) (cs : List Ch) (h : (consumeNewline p cs).1 = .newLine) :
    (∃ c rest q, cs = c :: rest ∧ c.cp = cpNL ∧ (consumeNewline p cs).2 = .adv 1 q) ∨
    (∃ c e rest q, cs = c :: e :: rest ∧ c.cp = cpCR ∧ e.cp = cpNL ∧ (consumeNewline p cs).2 = .adv 2 q) := by
  unfold consumeNewline at h ⊢
  cases cs with
  | nil => simp at h
  | cons c rest =>
    by_cases hc : c.cp = cpCR
    · simp only [hc, if_true] at h ⊢
      cases rest with
      | nil => simp at h
      | cons d rest' =>
        by_cases hd : d.cp = cpNL
        · right; exact ⟨c, d, rest', ⟨p.line + 1, 0⟩, rfl, hc, hd, by simp [hd]⟩
        · simp [hd] at h
    · simp only [hc, if_false] at h ⊢
      by_cases hd : c.cp = cpNL
      · left; exact ⟨c, rest, ⟨p.line + 1, 0⟩, rfl, hd, by simp [hd]⟩
      · simp [hd] at h

theorem decideDefault_newline_shape (p : Pos) (prevTok : Option Token) (modes : List Mode) (c : Ch) (rest : List Ch)
    (h : (decideDefault p prevTok modes c rest).tok = .newLine) :
    (decideDefault p prevTok modes c rest).modes = modes ∧
    (decideDefault p prevTok modes c rest).move = (consumeNewline p (c :: rest)).2 ∧
    (consumeNewline p (c :: rest)).1 = .newLine := by
  unfold decideDefault at h ⊢
  simp only at h ⊢
  by_cases h1 : isWhitespace c.cp = true
  · simp [h1] at h
  simp only [h1] at h ⊢
  by_cases h2 : (c.cp = cpCR || c.cp = cpNL) = true
  · simp only [h2, if_true] at h ⊢
    exact ⟨rfl, rfl, h⟩
  simp only [h2] at h ⊢
  by_cases h3 : c.cp = cpHash
  · simp only [h3, if_true] at h
    exact absurd h (consumeComment_not_newline p (c :: rest))
  simp only [h3, if_false] at h ⊢
  by_cases h4 : c.cp = cpDQ
  · simp [h4] at h
  simp only [h4, if_false] at h ⊢
  by_cases h5 : c.cp = cpSQ
  · simp [h5] at h
  simp only [h5, if_false] at h ⊢
  by_cases h6 : isAsciiDigit c.cp = true
  · simp [h6] at h
  simp only [h6] at h ⊢
  by_cases h7 : c.idStart = true
  · simp only [h7, if_true] at h
    cases hr : consumeIdOrKeyword p prevTok (c :: rest) with
    | tok t m =>
      simp only [hr] at h
      exact absurd h (consumeIdOrKeyword_not_newline p prevTok (c :: rest) t m hr)
    | raw q' h' m => simp [hr] at h
  simp only [h7] at h ⊢
  by_cases h8 : c.cp = cpUnderscore
  · simp [h8, consumeIgnored] at h
  simp only [h8, if_false] at h ⊢
  cases hs : lookupSymbol (c :: rest) symbolTable with
  | none => simp [hs] at h
  | some nsy => simp [hs] at h

/-- a `NewLine` token is only produced by the default dispatch, leaves the mode stack alone, and its
move is that of `consume_newline` -/
theorem decideTok_newline_shape (p : Pos) (prevTok : Option Token) (modes : List Mode) (c : Ch) (rest : List Ch)
    (h : (decideTok p prevTok modes c rest).tok = .newLine) :
    defaultMode modes = true ∧ (decideTok p prevTok modes c rest).modes = modes ∧
    (decideTok p prevTok modes c rest).move = (consumeNewline p (c :: rest)).2 ∧
    (consumeNewline p (c :: rest)).1 = .newLine := by
  have hdef := decideDefault_newline_shape p prevTok modes c rest
  unfold decideTok at h ⊢
  simp only at h ⊢
  cases hmode : modes.head? with
  | none => simp only [hmode] at h ⊢; exact ⟨by simp [defaultMode, hmode], hdef h⟩
  | some m =>
    cases m with
    | literal q =>
      simp only [hmode] at h ⊢
      by_cases h1 : isQuote q c.cp = true
      · simp [h1] at h
      · simp only [h1] at h
        by_cases h2 : c.cp = cpLBrace
        · simp [h2] at h
        · simp only [h2, if_false] at h
          exact absurd h (stringLiteralLoop_not_newline q (c :: rest) p)
    | templateExpr => simp only [hmode] at h ⊢; exact ⟨by simp [defaultMode, hmode], hdef h⟩
    | templateInlineMap => simp only [hmode] at h ⊢; exact ⟨by simp [defaultMode, hmode], hdef h⟩
    | templateFormat =>
      simp only [hmode] at h
      exact absurd h (consumeFormatOptions_not_newline p (c :: rest))
    | rawStart q hsh =>
      simp only [hmode] at h
      cases hr : rawContentsLoop q hsh (c :: rest) 0 p <;> simp [hr] at h
    | rawEnd q hsh => simp [hmode] at h

/-! ### one step -/

theorem applyMove_indent (s : St) (m : Move) : (applyMove s m).indent = s.indent := by
  cases m <;> rfl

theorem applyDecision_indent (s : St) (d : Decision) :
    (applyDecision s d).indent = d.setIndent.getD s.indent := by
  simp [applyDecision, applyMove_indent]

theorem applyDecision_modes (s : St) (d : Decision) : (applyDecision s d).modes = d.modes := rfl

theorem applyDecision_cur (s : St) (d : Decision) (n : Nat) (q : Pos) (h : d.move = .adv n q) :
    (applyDecision s d).cur = s.cur + n := by
  simp [applyDecision, applyMove, h]


theorem lineStart_ends_nl (a : List Ch) (e : Ch) (h : e.cp = cpNL) :
    lineStartByte (a ++ [e]) = byteLen (a ++ [e]) := by
  unfold lineStartByte
  rw [lastLine_of_ends_nl a e h]; simp

/-- One step of the lexer and the indent: the new previous token; the indent is kept unless the
previous token was `NewLine` (or there was none); from a fresh state the indent becomes the leading
whitespace of the remaining input; a `NewLine` token is non-empty, ends just after a line feed and
leaves a fresh state. -/
theorem stepD_indent (src pre c : _) (rest : List Ch) (s s' : St) (d : Decision)
    (hsrc : src = pre ++ c :: rest) (hcur : byteLen pre = s.cur)
    (hstep : stepD src s = some (d, s')) :
    s'.prevTok = some d.tok ∧
    (s.prevTok ≠ none → s.prevTok ≠ some .newLine → s'.indent = s.indent) ∧
    (Fresh s → s'.indent = countWhile isWhitespace (c :: rest)) ∧
    (d.tok = .newLine → defaultMode s'.modes = true ∧ s.cur < s'.cur ∧
      ∃ pre', prefixAt s'.cur src = some pre' ∧ lineStartByte pre' = byteLen pre') := by
  unfold stepD at hstep
  have hdrop : dropBytes s.cur src = some (c :: rest) := by rw [hsrc, ← hcur]; exact dropBytes_append pre _
  rw [hdrop] at hstep
  simp only [Option.some.injEq, Prod.mk.injEq] at hstep
  obtain ⟨hd, hs'⟩ := hstep
  subst hd
  subst hs'
  refine ⟨rfl, ?_, ?_, ?_⟩
  · intro h1 h2
    have hr : resetIndent s = s := by unfold resetIndent; simp [h2]
    rw [hr, applyDecision_indent, decideTok_setIndent_none s.span.stop s.prevTok s.modes c rest h1 h2]
    rfl
  · intro hf
    obtain ⟨hp, hm⟩ := hf
    have hr : (resetIndent s).prevTok = s.prevTok ∧ (resetIndent s).modes = s.modes ∧
        (resetIndent s).indent = 0 := by
      unfold resetIndent
      rcases hp with ⟨hp, hi⟩ | hp
      · simp [hp, hi]
      · simp [hp]
    obtain ⟨r1, r2, r3⟩ := hr
    have hsi := decideTok_setIndent_fresh (resetIndent s).span.stop (resetIndent s).prevTok
      (resetIndent s).modes c rest (by rw [r2]; exact hm) (by rw [r1]; rcases hp with ⟨hp, _⟩ | hp <;> simp [hp])
    rw [applyDecision_indent, r3, hsi]
  · intro hnl
    obtain ⟨n1, n2, n3, n4⟩ := decideTok_newline_shape _ _ _ c rest hnl
    have hrc : (resetIndent s).cur = s.cur := by unfold resetIndent; split <;> rfl
    refine ⟨by rw [applyDecision_modes, n2]; exact n1, ?_⟩
    rcases consumeNewline_shape _ _ n4 with ⟨c', rest', q, e1, e2, e3⟩ | ⟨c', e, rest', q, e1, e2, e3, e4⟩
    · obtain ⟨rfl, rfl⟩ := List.cons.inj e1
      rw [applyDecision_cur _ _ 1 q (by rw [n3, e3]), hrc]
      have hlen : c.len = 1 := by simp [Ch.len, e2, utf8Len, cpNL]
      refine ⟨by omega, pre ++ [c], ?_, lineStart_ends_nl pre c e2⟩
      have : src = (pre ++ [c]) ++ rest := by simp [hsrc]
      rw [← hcur]
      have hb : byteLen (pre ++ [c]) = byteLen pre + 1 := by simp [hlen]
      rw [← hb]; exact prefixAt_of_split this
    · obtain ⟨rfl, hrest⟩ := List.cons.inj e1
      rw [applyDecision_cur _ _ 2 q (by rw [n3, e4]), hrc]
      have hlen : c.len = 1 := by simp [Ch.len, e2, utf8Len, cpCR]
      have hlen2 : e.len = 1 := by simp [Ch.len, e3, utf8Len, cpNL]
      refine ⟨by omega, (pre ++ [c]) ++ [e], ?_, lineStart_ends_nl _ e e3⟩
      have : src = ((pre ++ [c]) ++ [e]) ++ rest' := by simp [hsrc, hrest]
      rw [← hcur]
      have hb : byteLen ((pre ++ [c]) ++ [e]) = byteLen pre + 2 := by simp [hlen, hlen2]
      rw [← hb]; exact prefixAt_of_split this

/-! ### the run -/

theorem run_indent (src : List Ch) (ht : TableOk src) :
    ∀ fuel s, Inv false src s → ∀ pre_s, prefixAt s.cur src = some pre_s →
      ∀ l ∈ lexFuel src fuel s, l.tok ≠ .error →
        s.cur ≤ l.startByte ∧ l.startByte ≤ l.endByte ∧ (l.tok = .newLine → l.startByte < l.endByte) ∧
        ∀ pre, prefixAt l.startByte src = some pre →
          ((IndGood src pre_s s ∧ lineStartByte pre = lineStartByte pre_s) ∨
           (∃ l' ∈ lexFuel src fuel s, l'.tok = .newLine ∧ l'.endByte = lineStartByte pre)) →
          l.indent = lineIndent src (lineStartByte pre) := by
  intro fuel
  induction fuel with
  | zero => intro s _ _ _ l hl; simp [lexFuel] at hl
  | succ fuel ih =>
    intro s hinv pre_s hpre_s l hl hne
    simp only [lexFuel] at hl ⊢
    cases hstep : stepD src s with
    | none => simp [hstep] at hl
    | some ds =>
      obtain ⟨d, s'⟩ := ds
      simp only [hstep] at hl ⊢
      by_cases he : d.tok = .error
      · simp only [he, if_true, List.mem_singleton] at hl
        subst hl
        exact absurd he hne
      · simp only [he, if_false, List.mem_cons] at hl ⊢
        obtain ⟨hinv', hprev, hle, _⟩ := stepD_inv false src s s' d ht hinv hstep he
        -- the remaining input
        obtain ⟨pre0, post, hsrc, hcur, _⟩ := hinv
        have hu := prefixAt_unique hsrc hcur hpre_s
        subst hu
        have hpost : ∃ c rest, post = c :: rest := by
          cases post with
          | nil =>
            unfold stepD at hstep
            have : dropBytes s.cur src = some [] := by
              rw [hsrc, ← hcur]; simpa using dropBytes_append pre_s []
            simp [this] at hstep
          | cons c rest => exact ⟨c, rest, rfl⟩
        obtain ⟨c, rest, rfl⟩ := hpost
        obtain ⟨s1, s2, s3, s4⟩ := stepD_indent src pre_s c rest s s' d hsrc hcur hstep
        -- the prefix at the new cursor
        obtain ⟨pre1, post1, hsrc1, hcur1, _⟩ := id hinv'
        have hpre1 : prefixAt s'.cur src = some pre1 := by rw [← hcur1]; exact prefixAt_of_split hsrc1
        obtain ⟨t, ht1⟩ := prefixAt_extend hpre_s hpre1 hle
        have hlsb : lineStartByte pre_s ≤ byteLen pre_s := lineStartByte_le pre_s
        -- indent reported with the head token, from a good state
        have hgood : IndGood src pre_s s → s'.indent = lineIndent src (lineStartByte pre_s) := by
          intro hg
          rcases hg with ⟨hf, hls⟩ | ⟨g1, g2, g3⟩
          · rw [s3 hf, hls, lineIndent, hsrc, dropBytes_append]
          · rw [s2 g1 g2, g3]
        -- the state after a non-NewLine head token on the same line stays good
        have hkeep : IndGood src pre_s s → d.tok ≠ .newLine → lineStartByte pre1 = lineStartByte pre_s →
            IndGood src pre1 s' := by
          intro hg hn hsame
          right
          refine ⟨by rw [s1]; simp, by rw [s1]; simpa using hn, ?_⟩
          rw [hsame]; exact hgood hg
        rcases hl with hl | hl
        · -- the head token
          subst hl
          refine ⟨by simp [lexedOf, hprev], by simp [lexedOf, hprev, hle], ?_, ?_⟩
          · intro hnl
            have := (s4 hnl).2.1
            simp only [lexedOf, hprev]; exact this
          · intro pre hp halt
            have hp' : prefixAt s.cur src = some pre := by simpa [lexedOf, hprev] using hp
            have hu : pre = pre_s := by rw [hpre_s] at hp'; exact (Option.some.inj hp').symm
            subst hu
            rcases halt with ⟨hg, _⟩ | ⟨l', hl', hn', he'⟩
            · simp only [lexedOf]; exact hgood hg
            · exfalso
              rcases hl' with hl' | hl'
              · subst hl'
                have := (s4 hn').2.1
                simp only [lexedOf] at he'
                omega
              · have hne' : l'.tok ≠ .error := by rw [hn']; simp
                obtain ⟨b1, _, b3, _⟩ := ih s' hinv' pre1 hpre1 l' hl' hne'
                have := b3 hn'
                omega
        · -- a later token
          obtain ⟨a1, a2, a3, a4⟩ := ih s' hinv' pre1 hpre1 l hl hne
          refine ⟨by omega, a2, a3, ?_⟩
          intro pre hp halt
          apply a4 pre hp
          obtain ⟨u, hu⟩ := prefixAt_extend hpre1 hp a1
          have m1 : lineStartByte pre_s ≤ lineStartByte pre1 := by rw [ht1]; exact lineStartByte_mono _ _
          have m2 : lineStartByte pre1 ≤ lineStartByte pre := by rw [hu]; exact lineStartByte_mono _ _
          rcases halt with ⟨hg, hsame⟩ | ⟨l', hl', hn', he'⟩
          · left
            have hsame1 : lineStartByte pre1 = lineStartByte pre_s := by omega
            refine ⟨hkeep hg ?_ hsame1, by omega⟩
            intro hnl
            obtain ⟨_, h2, pre', h3, h4⟩ := s4 hnl
            rw [hpre1] at h3
            have := Option.some.inj h3
            subst this
            rw [hcur1] at h4
            omega
          · rcases hl' with hl' | hl'
            · subst hl'
              left
              obtain ⟨h1, h2, pre', h3, h4⟩ := s4 hn'
              rw [hpre1] at h3
              have := Option.some.inj h3
              subst this
              refine ⟨Or.inl ⟨⟨Or.inr (by rw [s1]; exact congrArg some hn'), h1⟩, h4⟩, ?_⟩
              simp only [lexedOf] at he'
              rw [h4, hcur1, he']
            · right
              exact ⟨l', hl', hn', he'⟩

theorem fresh_init : Fresh ({} : St) := ⟨Or.inl ⟨rfl, rfl⟩, rfl⟩

end KotoVerif.Lexer
